(* C06 — proofs about model/C06_Model.v: flat-buffer lemmas, pad/crop, binning.
   (The Fourier-resampling proofs are in proof/C06_Proofs_Resample.v.) *)
From QV.lib Require Import Prelude FinSum.
From QV.model Require Import C06_Model.
From Coq Require Import QArith Qcanon Ring Field.
Local Close Scope Q_scope.
Local Close Scope Qc_scope.
Unset Implicit Arguments.

(* ------------------------------------------------------------------------------------ *)
(* flat buffers cut into rows of constant width *)
Section Rows.
  Variable A : Type.

  Lemma skipn_skipn' a b (l : list A) : skipn a (skipn b l) = skipn (b + a) l.
  Proof.
    revert l. induction b as [|b IH]; intros l; [reflexivity|].
    destruct l as [|x l]; [rewrite !skipn_nil; reflexivity|]. cbn [Nat.add skipn]. apply IH.
  Qed.

  Lemma nth_skipn' k r (l : list A) d : nth r (skipn k l) d = nth (k + r) l d.
  Proof.
    revert l. induction k as [|k IH]; intros l; [reflexivity|].
    destruct l as [|x l]; [destruct r; reflexivity|]. cbn [Nat.add skipn nth]. apply IH.
  Qed.

  Lemma nth_firstn' w r (l : list A) d : r < w -> nth r (firstn w l) d = nth r l d.
  Proof.
    revert r l. induction w as [|w IH]; intros r l Hr; [lia|].
    destruct l as [|x l]; [destruct r; reflexivity|].
    destruct r as [|r]; [reflexivity|]. cbn [firstn nth]. apply IH. lia.
  Qed.

  Lemma flat_map_seq_shift (g : nat -> list A) s k :
    flat_map g (seq (S s) k) = flat_map (fun o => g (S o)) (seq s k).
  Proof. rewrite <- seq_shift. rewrite flat_map_concat_map, map_map, <- flat_map_concat_map. reflexivity. Qed.

  Lemma flat_map_length_const (g : nat -> list A) w s k :
    (forall o, s <= o < s + k -> length (g o) = w) -> length (flat_map g (seq s k)) = k * w.
  Proof.
    revert s. induction k as [|k IH]; intros s H; [reflexivity|].
    cbn [seq flat_map]. rewrite app_length, IH, H by (intros; try apply H; lia). lia.
  Qed.

  Lemma flat_map_ext_seq (g h : nat -> list A) s k :
    (forall o, s <= o < s + k -> g o = h o) -> flat_map g (seq s k) = flat_map h (seq s k).
  Proof.
    revert s. induction k as [|k IH]; intros s H; [reflexivity|].
    cbn [seq flat_map]. rewrite H, IH by (intros; try apply H; lia). reflexivity.
  Qed.

  (* the o-th row of a concatenation of rows of width w *)
  Lemma row_flat_map (g : nat -> list A) w k o :
    (forall i, i < k -> length (g i) = w) -> o < k ->
    row w o (flat_map g (seq 0 k)) = g o.
  Proof.
    unfold row. revert g k. induction o as [|o IH]; intros g k Hl Ho.
    - destruct k as [|k]; [lia|]. cbn [seq flat_map]. cbn [Nat.mul skipn].
      rewrite firstn_app, Hl by lia. rewrite Nat.sub_diag. cbn [firstn]. rewrite app_nil_r.
      rewrite <- (Hl 0) by lia. apply firstn_all.
    - destruct k as [|k]; [lia|]. cbn [seq flat_map].
      replace (S o * w) with (length (g 0) + o * w) by (rewrite Hl; lia).
      rewrite skipn_app. rewrite skipn_all2 by lia.
      replace (length (g 0) + o * w - length (g 0)) with (o * w) by lia.
      cbn [app]. rewrite flat_map_seq_shift.
      apply (IH (fun i => g (S i)) k); [intros; apply Hl; lia | lia].
  Qed.

  Lemma row_length (w o : nat) (x : list A) k :
    length x = k * w -> o < k -> length (row w o x) = w.
  Proof.
    intros Hx Ho. unfold row. rewrite firstn_length, skipn_length. nia.
  Qed.

  Lemma row_succ w o (x : list A) : row w (S o) x = row w o (skipn w x).
  Proof. unfold row. rewrite skipn_skipn'. reflexivity. Qed.

  (* concatenating all rows gives the buffer back *)
  Lemma rows_concat w k (x : list A) :
    length x = k * w -> flat_map (fun o => row w o x) (seq 0 k) = x.
  Proof.
    revert x. induction k as [|k IH]; intros x Hx.
    - destruct x; [reflexivity | discriminate].
    - cbn [seq flat_map]. rewrite flat_map_seq_shift.
      rewrite (flat_map_ext_seq _ (fun o => row w o (skipn w x))) by (intros; apply row_succ).
      rewrite IH by (rewrite skipn_length; lia).
      unfold row. cbn [Nat.mul skipn]. apply firstn_skipn.
  Qed.

  Lemma nth_row w o (x : list A) r d : r < w -> nth r (row w o x) d = nth (o * w + r) x d.
  Proof.
    intros Hr. unfold row. rewrite nth_firstn' by exact Hr. rewrite nth_skipn'. reflexivity.
  Qed.

  Lemma nth_flat_map_const (g : nat -> list A) w k o r d :
    (forall i, i < k -> length (g i) = w) -> o < k -> r < w ->
    nth (o * w + r) (flat_map g (seq 0 k)) d = nth r (g o) d.
  Proof.
    intros Hl Ho Hr. rewrite <- (nth_row w o _ r d Hr). rewrite row_flat_map by assumption. reflexivity.
  Qed.
End Rows.
Arguments skipn_skipn' {A}.
Arguments nth_skipn' {A}.
Arguments nth_firstn' {A}.
Arguments flat_map_seq_shift {A}.
Arguments flat_map_length_const {A}.
Arguments flat_map_ext_seq {A}.
Arguments row_flat_map {A}.
Arguments row_length {A}.
Arguments rows_concat {A}.
Arguments nth_row {A}.
Arguments nth_flat_map_const {A}.

(* ------------------------------------------------------------------------------------ *)
(* shapes *)
Lemma prod_cons x l : prod (x :: l) = x * prod l.
Proof. reflexivity. Qed.

Lemma prod_app a b : prod (a ++ b) = prod a * prod b.
Proof.
  induction a as [|x a IH].
  - change (prod []) with 1. cbn [app]. lia.
  - cbn [app]. rewrite !prod_cons, IH. apply Nat.mul_assoc.
Qed.

Lemma nth_split_list {A} (a : nat) (l : list A) d :
  a < length l -> l = firstn a l ++ nth a l d :: skipn (S a) l.
Proof.
  revert l. induction a as [|a IH]; intros l H; destruct l as [|x l]; cbn [length] in H; try lia.
  - reflexivity.
  - cbn [firstn nth skipn app]. f_equal. apply IH. lia.
Qed.

Lemma prod_view a sh : a < length sh -> prod sh = outer_of a sh * len_of a sh * inner_of a sh.
Proof.
  intros H. unfold outer_of, len_of, inner_of.
  rewrite (nth_split_list a sh 0 H) at 1. rewrite prod_app, prod_cons. apply Nat.mul_assoc.
Qed.

Section SetNth.
  Variable A : Type.
  Lemma set_nth_length a (v : A) l : a < length l -> length (set_nth a v l) = length l.
  Proof.
    intros H. unfold set_nth. rewrite app_length, firstn_length. cbn [length]. rewrite skipn_length. lia.
  Qed.
  Lemma firstn_set_nth a (v : A) l : a <= length l -> firstn a (set_nth a v l) = firstn a l.
  Proof.
    intros H. unfold set_nth. rewrite firstn_app, firstn_length.
    replace (a - Nat.min a (length l)) with 0 by lia. cbn [firstn]. rewrite app_nil_r.
    apply firstn_all2. rewrite firstn_length. lia.
  Qed.
  Lemma skipn_set_nth a (v : A) l : a <= length l -> skipn (S a) (set_nth a v l) = skipn (S a) l.
  Proof.
    intros H. unfold set_nth. rewrite skipn_app, firstn_length.
    rewrite skipn_all2 by (rewrite firstn_length; lia).
    replace (S a - Nat.min a (length l)) with 1 by lia. reflexivity.
  Qed.
  Lemma nth_set_nth_eq a (v : A) l d : a <= length l -> nth a (set_nth a v l) d = v.
  Proof.
    intros H. unfold set_nth. rewrite app_nth2; rewrite firstn_length; [|lia].
    replace (a - Nat.min a (length l)) with 0 by lia. reflexivity.
  Qed.
  Lemma nth_set_nth_neq a b (v : A) l d : a < length l -> a <> b -> nth b (set_nth a v l) d = nth b l d.
  Proof.
    intros H Hne. rewrite (nth_split_list a l d H) at 2. unfold set_nth.
    destruct (Nat.lt_ge_cases b a) as [Hlt|Hge].
    - rewrite !app_nth1 by (rewrite firstn_length; lia). reflexivity.
    - rewrite !app_nth2 by (rewrite firstn_length; lia). rewrite firstn_length.
      replace (b - Nat.min a (length l)) with (S (b - a - 1)) by lia. reflexivity.
  Qed.
  Lemma set_nth_set_nth a (u v : A) l : a <= length l -> set_nth a v (set_nth a u l) = set_nth a v l.
  Proof.
    intros H. unfold set_nth at 1. rewrite firstn_set_nth, skipn_set_nth by exact H. reflexivity.
  Qed.
  Lemma set_nth_same a l (d : A) : a < length l -> set_nth a (nth a l d) l = l.
  Proof. intros H. unfold set_nth. symmetry. apply nth_split_list. exact H. Qed.
End SetNth.
Arguments set_nth_length {A}.
Arguments firstn_set_nth {A}.
Arguments skipn_set_nth {A}.
Arguments nth_set_nth_eq {A}.
Arguments nth_set_nth_neq {A}.
Arguments set_nth_set_nth {A}.
Arguments set_nth_same {A}.

Lemma outer_set_nth a v sh : a <= length sh -> outer_of a (set_nth a v sh) = outer_of a sh.
Proof. intros H. unfold outer_of. rewrite firstn_set_nth by exact H. reflexivity. Qed.
Lemma inner_set_nth a v sh : a <= length sh -> inner_of a (set_nth a v sh) = inner_of a sh.
Proof. intros H. unfold inner_of. rewrite skipn_set_nth by exact H. reflexivity. Qed.
Lemma len_set_nth a v sh : a <= length sh -> len_of a (set_nth a v sh) = v.
Proof. intros H. unfold len_of. apply nth_set_nth_eq. exact H. Qed.
Lemma len_set_nth_neq a b v sh : a < length sh -> a <> b -> len_of b (set_nth a v sh) = len_of b sh.
Proof. intros. unfold len_of. apply nth_set_nth_neq; assumption. Qed.
Lemma prod_set_nth a v sh : a < length sh -> prod (set_nth a v sh) = outer_of a sh * v * inner_of a sh.
Proof.
  intros H. rewrite (prod_view a) by (rewrite set_nth_length; assumption).
  rewrite outer_set_nth, inner_set_nth, len_set_nth by lia. reflexivity.
Qed.

(* ------------------------------------------------------------------------------------ *)
(* pad / crop *)
Section PadCrop.
  Variable A : Type.
  Variable zero : A.

  Lemma pad_axis_length outer n inner b a (x : list A) :
    length x = outer * (n * inner) ->
    length (pad_axis zero outer n inner b a x) = outer * ((b + n + a) * inner).
  Proof.
    intros Hx. unfold pad_axis. apply flat_map_length_const. intros o Ho.
    rewrite !app_length, !repeat_length, (row_length _ _ _ outer) by (try exact Hx; lia). lia.
  Qed.

  (* cutting [b, b+n) out of the axis padded by (b, a) gives the data back *)
  Lemma slice_pad_axis outer n inner b a (x : list A) :
    length x = outer * (n * inner) ->
    slice_axis outer (b + n + a) inner b (b + n) (pad_axis zero outer n inner b a x) = x.
  Proof.
    intros Hx. unfold slice_axis.
    rewrite (flat_map_ext_seq _ (fun o => row (n * inner) o x)).
    - apply rows_concat. exact Hx.
    - intros o Ho. unfold pad_axis at 1.
      rewrite row_flat_map; [| |lia].
      2:{ intros i Hi. rewrite !app_length, !repeat_length, (row_length _ _ _ outer) by (try exact Hx; lia). lia. }
      assert (Hr : length (row (n * inner) o x) = n * inner) by (apply (row_length _ _ _ outer); [exact Hx | lia]).
      rewrite skipn_app, repeat_length, Nat.sub_diag. cbn [skipn].
      rewrite skipn_all2 by (rewrite repeat_length; lia). cbn [app].
      replace ((b + n - b) * inner) with (length (row (n * inner) o x)) by (rewrite Hr; f_equal; lia).
      rewrite firstn_app, Nat.sub_diag, firstn_all. cbn [firstn]. apply app_nil_r.
  Qed.

  Lemma crop_bounds_unpad n b a :
    crop_bounds (b + n + a) (Z.of_nat b, (- Z.of_nat a)%Z) = (b, b + n).
  Proof.
    unfold crop_bounds, norm_idx. cbn [fst snd].
    destruct (Z.of_nat b <? 0)%Z eqn:E1; [lia|].
    destruct (- Z.of_nat a =? 0)%Z eqn:E2.
    - f_equal; lia.
    - destruct (- Z.of_nat a <? 0)%Z eqn:E3; [|lia]. f_equal; lia.
  Qed.

  Lemma pad_at_wf a ba (t : tensor A) : wf t -> a < length (shape t) -> wf (pad_at zero a ba t).
  Proof.
    unfold wf. intros Hw Ha. cbn [pad_at data shape].
    rewrite pad_axis_length by (rewrite Hw, (prod_view a) by exact Ha; lia).
    rewrite prod_set_nth by exact Ha. lia.
  Qed.

  Lemma pad_at_ndim a ba (t : tensor A) : a < length (shape t) -> length (shape (pad_at zero a ba t)) = length (shape t).
  Proof. intros Ha. cbn [pad_at shape]. apply set_nth_length. exact Ha. Qed.

  Lemma crop_pad_at a b a' (t : tensor A) :
    wf t -> a < length (shape t) ->
    crop_at a (Z.of_nat b, (- Z.of_nat a')%Z) (pad_at zero a (b, a') t) = t.
  Proof.
    intros Hw Ha. destruct t as [sh x]. unfold wf in Hw. cbn [shape data] in *.
    unfold crop_at, pad_at. cbn [shape data fst snd].
    rewrite len_set_nth, outer_set_nth, inner_set_nth by lia.
    rewrite crop_bounds_unpad. cbn [fst snd].
    rewrite set_nth_set_nth by lia.
    replace (b + len_of a sh - b) with (len_of a sh) by lia.
    unfold len_of at 1. rewrite set_nth_same by exact Ha.
    rewrite slice_pad_axis by (rewrite Hw, (prod_view a) by exact Ha; lia).
    reflexivity.
  Qed.

  Lemma crop_pad_from widths : forall a (t : tensor A),
    wf t -> a + length widths <= length (shape t) ->
    crop_nd (uncrop_from a widths) (pad_from zero a widths t) = t.
  Proof.
    induction widths as [|[b a'] r IH]; intros a t Hw Hl; [reflexivity|].
    cbn [length] in Hl. cbn [uncrop_from pad_from crop_nd fold_right fst snd].
    change (fold_right (fun s acc => crop_at (fst s) (snd s) acc)
              (pad_from zero (S a) r (pad_at zero a (b, a') t)) (uncrop_from (S a) r))
      with (crop_nd (uncrop_from (S a) r) (pad_from zero (S a) r (pad_at zero a (b, a') t))).
    rewrite IH.
    - apply crop_pad_at; [exact Hw | lia].
    - apply pad_at_wf; [exact Hw | lia].
    - rewrite pad_at_ndim by lia. lia.
  Qed.

  Lemma pad_widths_to_length sh out : length out = length sh -> length (pad_widths_to sh out) = length sh.
  Proof.
    revert out. induction sh as [|n sh IH]; intros out H; destruct out as [|o out]; cbn [length] in *; try lia.
    - reflexivity.
    - cbn [pad_widths_to length]. rewrite IH by lia. reflexivity.
  Qed.

  (* Dataset.pad(output_shape=out) then Dataset.crop with the pad widths (before, -after) *)
  Theorem crop_pad_id (t : tensor A) (out : list nat) :
    wf t -> length out = length (shape t) ->
    crop_nd (uncrop_specs (pad_widths_to (shape t) out)) (pad zero (PadShape out) t) = t.
  Proof.
    intros Hw Hl. unfold uncrop_specs, pad, pad_nd. cbn [widths_of_spec].
    apply crop_pad_from; [exact Hw|]. rewrite pad_widths_to_length by exact Hl. lia.
  Qed.

  (* any explicit widths *)
  Theorem crop_pad_widths_id (t : tensor A) (widths : list (nat * nat)) :
    wf t -> length widths <= length (shape t) ->
    crop_nd (uncrop_specs widths) (pad_nd zero widths t) = t.
  Proof. intros Hw Hl. apply crop_pad_from; [exact Hw | lia]. Qed.

  Lemma pad_width_to_sum n o : n <= o -> fst (pad_width_to n o) + n + snd (pad_width_to n o) = o.
  Proof. intros H. unfold pad_width_to. cbn [fst snd]. lia. Qed.

  Lemma pad_from_shape sh out : forall pre (t : tensor A),
    shape t = pre ++ sh -> Forall2 le sh out ->
    shape (pad_from zero (length pre) (pad_widths_to sh out) t) = pre ++ out.
  Proof.
    revert out. induction sh as [|n sh IH]; intros out pre t Hs HF; inversion HF; subst.
    - cbn [pad_widths_to pad_from]. exact Hs.
    - cbn [pad_widths_to pad_from].
      match goal with H : n <= ?y |- _ => rename y into o; rename H into Hno end.
      replace (S (length pre)) with (length (pre ++ [o])) by (rewrite app_length; cbn [length]; lia).
      replace (pre ++ o :: l') with ((pre ++ [o]) ++ l') by (rewrite <- app_assoc; reflexivity).
      apply IH; [|assumption].
      cbn [pad_at shape]. rewrite Hs. unfold set_nth, len_of.
      rewrite firstn_app, firstn_all, Nat.sub_diag. cbn [firstn]. rewrite app_nil_r.
      rewrite app_nth2, Nat.sub_diag by lia. cbn [nth].
      rewrite skipn_app, skipn_all2 by lia.
      replace (S (length pre) - length pre) with 1 by lia. cbn [skipn app].
      rewrite pad_width_to_sum by exact Hno. rewrite <- app_assoc. reflexivity.
  Qed.

  (* when out >= shape on every axis the padded shape is exactly out *)
  Theorem pad_to_shape_shape (t : tensor A) (out : list nat) :
    Forall2 le (shape t) out -> shape (pad zero (PadShape out) t) = out.
  Proof.
    intros HF. unfold pad, pad_nd. cbn [widths_of_spec].
    apply (pad_from_shape (shape t) out [] t); [reflexivity | exact HF].
  Qed.
End PadCrop.
Arguments crop_pad_id {A}.
Arguments crop_pad_widths_id {A}.
Arguments pad_to_shape_shape {A}.
Arguments slice_pad_axis {A}.

(* ------------------------------------------------------------------------------------ *)
(* finite sums on Qc *)
Notation Qrt := Qcrt.

Lemma qsum_prod a b (g : nat -> Qc) :
  qsum (a * b) g = qsum a (fun i => qsum b (fun j => g (i * b + j))).
Proof.
  induction a as [|a IH]; [reflexivity|].
  rewrite Nat.mul_succ_l, (sumn_split Qrt). cbn [FinSum.sumn]. rewrite IH. reflexivity.
Qed.

Lemma qsum_S_head n (g : nat -> Qc) : qsum (S n) g = (g 0%nat + qsum n (fun i => g (S i)))%Qc.
Proof. cbn [FinSum.sumn]. pose proof (sumn_succ_head Qrt n g) as H. rewrite <- H. ring. Qed.

Lemma qsuml_nth (y : list Qc) : qsuml y = qsum (length y) (fun i => nth i y 0%Qc).
Proof.
  induction y as [|v y IH]; [reflexivity|].
  cbn [length FinSum.suml]. rewrite qsum_S_head. cbn [nth]. rewrite IH. reflexivity.
Qed.

Lemma qsuml_flat_map_seq (g : nat -> list Qc) s k :
  qsuml (flat_map g (seq s k)) = qsum k (fun i => qsuml (g (s + i))).
Proof.
  revert s. induction k as [|k IH]; intros s; [reflexivity|].
  rewrite qsum_S_head. cbn [seq flat_map]. rewrite (suml_app Qrt), IH, Nat.add_0_r.
  f_equal. apply (sumn_ext Qrt). intros i _. f_equal. f_equal. lia.
Qed.

Lemma qsuml_map_seq (h : nat -> Qc) k : qsuml (map h (seq 0 k)) = qsum k h.
Proof. symmetry. apply (sumn_suml Qrt). Qed.

Lemma qsuml_map_div c (l : list Qc) : qsuml (map (fun v => v / c)%Qc l) = (qsuml l / c)%Qc.
Proof.
  unfold Qcdiv. induction l as [|v l IH]; cbn [map FinSum.suml]; [ring|]. rewrite IH. ring.
Qed.

(* ------------------------------------------------------------------------------------ *)
(* binning: data *)
Section TakeAxis.
  Variable A : Type.

  Lemma take_axis_length outer n inner L (x : list A) :
    length x = outer * (n * inner) -> L <= n ->
    length (take_axis outer n inner L x) = outer * (L * inner).
  Proof.
    intros Hx HL. unfold take_axis. apply flat_map_length_const. intros o Ho.
    rewrite firstn_length, (row_length _ _ _ outer) by (try exact Hx; lia). nia.
  Qed.

  Lemma nth_take_axis outer n inner L (x : list A) o r d :
    length x = outer * (n * inner) -> L <= n -> o < outer -> r < L * inner ->
    nth (o * (L * inner) + r) (take_axis outer n inner L x) d = nth (o * (n * inner) + r) x d.
  Proof.
    intros Hx HL Ho Hr. unfold take_axis.
    rewrite (nth_flat_map_const _ (L * inner) outer o r d); [| |exact Ho|exact Hr].
    - rewrite nth_firstn' by exact Hr. apply nth_row. nia.
    - intros i Hi. rewrite firstn_length, (row_length _ _ _ outer) by (try exact Hx; lia). nia.
  Qed.

  Lemma take_axis_full outer n inner (x : list A) :
    length x = outer * (n * inner) -> take_axis outer n inner n x = x.
  Proof.
    intros Hx. unfold take_axis.
    rewrite (flat_map_ext_seq _ (fun o => row (n * inner) o x)).
    - apply rows_concat. exact Hx.
    - intros o Ho. apply firstn_all2. rewrite (row_length _ _ _ outer) by (try exact Hx; lia). lia.
  Qed.

  (* the slice depends only on the kept entries *)
  Lemma take_axis_ext outer n inner L (x y : list A) d :
    length x = outer * (n * inner) -> length y = outer * (n * inner) -> L <= n ->
    (forall o i k, o < outer -> i < L -> k < inner ->
       nth ((o * n + i) * inner + k) x d = nth ((o * n + i) * inner + k) y d) ->
    take_axis outer n inner L x = take_axis outer n inner L y.
  Proof.
    intros Hx Hy HL H. unfold take_axis. apply flat_map_ext_seq. intros o Ho.
    assert (Hlx : length (row (n * inner) o x) = n * inner) by (apply (row_length _ _ _ outer); [exact Hx | lia]).
    assert (Hly : length (row (n * inner) o y) = n * inner) by (apply (row_length _ _ _ outer); [exact Hy | lia]).
    apply (nth_ext _ _ d d).
    - rewrite !firstn_length, Hlx, Hly. reflexivity.
    - intros r Hr. rewrite firstn_length, Hlx in Hr.
      assert (Hr' : r < L * inner) by lia.
      rewrite !nth_firstn' by exact Hr'. rewrite !nth_row by nia.
      assert (Hi : inner <> 0) by nia.
      pose proof (Nat.div_mod r inner Hi) as Hdm.
      pose proof (Nat.mod_upper_bound r inner Hi) as Hk.
      assert (HiL : r / inner < L) by (apply Nat.div_lt_upper_bound; [exact Hi | nia]).
      specialize (H o (r / inner) (r mod inner) ltac:(lia) HiL Hk).
      replace (o * (n * inner) + r) with ((o * n + r / inner) * inner + r mod inner) by nia.
      exact H.
  Qed.
End TakeAxis.
Arguments take_axis_length {A}.
Arguments nth_take_axis {A}.
Arguments take_axis_full {A}.
Arguments take_axis_ext {A}.

Lemma eff_len_le n f : eff_len n f <= n.
Proof. unfold eff_len. destruct f as [|f]; [cbn; lia|]. rewrite Nat.mul_comm. apply Nat.mul_div_le. lia. Qed.

Lemma eff_len_mod n f : eff_len n f = n - n mod f.
Proof.
  unfold eff_len. destruct f as [|f]; [cbn; lia|].
  pose proof (Nat.div_mod n (S f) ltac:(lia)) as H. rewrite H at 2. rewrite Nat.add_sub. apply Nat.mul_comm.
Qed.

Lemma eff_len_div n f : eff_len n f / f = n / f.
Proof. unfold eff_len. destruct f as [|f]; [reflexivity|]. apply Nat.div_mul. lia. Qed.

Lemma eff_len_idem n f : eff_len (eff_len n f) f = eff_len n f.
Proof. unfold eff_len at 1. rewrite eff_len_div. reflexivity. Qed.

Lemma reduce_blocks_length P f inner x : length (reduce_blocks P f inner x) = P * inner.
Proof.
  unfold reduce_blocks. apply flat_map_length_const. intros p _. rewrite map_length, seq_length. reflexivity.
Qed.

Lemma nth_map_seq (g : nat -> Qc) k n : k < n -> nth k (map g (seq 0 n)) 0%Qc = g k.
Proof.
  intros H. rewrite (nth_indep _ 0%Qc (g 0)) by (rewrite map_length, seq_length; exact H).
  rewrite map_nth, seq_nth by exact H. reflexivity.
Qed.

Lemma nth_reduce_blocks P f inner x p k :
  p < P -> k < inner ->
  nth (p * inner + k) (reduce_blocks P f inner x) 0%Qc
  = qsum f (fun t => nth ((p * f + t) * inner + k) x 0%Qc).
Proof.
  intros Hp Hk. unfold reduce_blocks.
  rewrite (nth_flat_map_const _ inner P p k 0%Qc); [| |exact Hp|exact Hk].
  - apply (nth_map_seq (fun k0 => qsum f (fun t => nth ((p * f + t) * inner + k0) x 0%Qc))). exact Hk.
  - intros i _. rewrite map_length, seq_length. reflexivity.
Qed.

Lemma idx_lt a b i j : i < a -> j < b -> i * b + j < a * b.
Proof.
  intros Hi Hj. assert (H : S i * b <= a * b) by (apply Nat.mul_le_mono_r; lia).
  rewrite Nat.mul_succ_l in H. lia.
Qed.

(* every output pixel is the sum of exactly the pixels of its block *)
Theorem bin_axis_block_sum outer n inner f (x : list Qc) o j k :
  length x = outer * (n * inner) -> o < outer -> j < n / f -> k < inner ->
  nth ((o * (n / f) + j) * inner + k) (bin_axis outer n inner f x) 0%Qc
  = qsum f (fun t => nth ((o * n + (j * f + t)) * inner + k) x 0%Qc).
Proof.
  intros Hx Ho Hj Hk. unfold bin_axis.
  pose proof (eff_len_le n f) as HL. unfold eff_len in *.
  set (nb := n / f) in *.
  rewrite nth_reduce_blocks by (try exact Hk; apply idx_lt; assumption).
  apply (sumn_ext Qrt). intros t Ht.
  replace (((o * nb + j) * f + t) * inner + k)
    with (o * (nb * f * inner) + ((j * f + t) * inner + k)) by ring.
  rewrite nth_take_axis; try assumption.
  - f_equal. ring.
  - apply idx_lt; [apply idx_lt|]; assumption.
Qed.

Lemma bin_axis_length outer n inner f x : length (bin_axis outer n inner f x) = outer * (n / f) * inner.
Proof. unfold bin_axis. apply reduce_blocks_length. Qed.

(* block reduction preserves the total *)
Lemma reduce_blocks_sum P f inner (y : list Qc) :
  length y = P * (f * inner) -> qsuml (reduce_blocks P f inner y) = qsuml y.
Proof.
  intros Hy. unfold reduce_blocks.
  rewrite qsuml_flat_map_seq, (qsuml_nth y), Hy, qsum_prod.
  apply (sumn_ext Qrt). intros p _. cbn [Nat.add].
  rewrite qsuml_map_seq, (sumn_swap Qrt), qsum_prod.
  apply (sumn_ext Qrt). intros t _. apply (sumn_ext Qrt). intros k _.
  f_equal. nia.
Qed.

(* counts: the binned axis carries the total of the covered region x[..., 0:(n//f)*f, ...] *)
Theorem bin_axis_counts outer n inner f (x : list Qc) :
  length x = outer * (n * inner) ->
  qsuml (bin_axis outer n inner f x) = qsuml (take_axis outer n inner (eff_len n f) x).
Proof.
  intros Hx. unfold bin_axis. apply reduce_blocks_sum.
  rewrite take_axis_length by (try exact Hx; apply eff_len_le). unfold eff_len. nia.
Qed.

Theorem bin_axis_counts_divisible outer n inner f (x : list Qc) :
  length x = outer * (n * inner) -> n mod f = 0 ->
  qsuml (bin_axis outer n inner f x) = qsuml x.
Proof.
  intros Hx Hd. rewrite bin_axis_counts by exact Hx.
  rewrite eff_len_mod, Hd, Nat.sub_0_r, take_axis_full by exact Hx. reflexivity.
Qed.

(* only the trailing n mod f (< f) entries of the axis are dropped: the result is a function
   of the entries with axis index below n - n mod f *)
Theorem bin_axis_drops_only_tail outer n inner f (x y : list Qc) :
  length x = outer * (n * inner) -> length y = outer * (n * inner) ->
  (forall o i k, o < outer -> i < n - n mod f -> k < inner ->
     nth ((o * n + i) * inner + k) x 0%Qc = nth ((o * n + i) * inner + k) y 0%Qc) ->
  bin_axis outer n inner f x = bin_axis outer n inner f y.
Proof.
  intros Hx Hy H. unfold bin_axis. f_equal.
  apply (take_axis_ext _ _ _ _ _ _ 0%Qc); try assumption; [apply eff_len_le|].
  intros o i k Ho Hi Hk. apply H; try assumption. rewrite <- eff_len_mod. exact Hi.
Qed.

Lemma covered_blocks n f i : 1 <= f ->
  (i < n - n mod f <-> (i / f < n / f /\ i = (i / f) * f + i mod f /\ i mod f < f)).
Proof.
  intros Hf. rewrite <- eff_len_mod. unfold eff_len.
  pose proof (Nat.div_mod i f ltac:(lia)). pose proof (Nat.mod_upper_bound i f ltac:(lia)).
  split.
  - intros Hi. repeat split; try lia. apply Nat.div_lt_upper_bound; lia.
  - intros [Hq _]. nia.
Qed.

(* ------------------------------------------------------------------------------------ *)
(* binning: N-D *)
Lemma take_at_wf {A} a L (t : tensor A) :
  wf t -> a < length (shape t) -> L <= len_of a (shape t) -> wf (take_at a L t).
Proof.
  unfold wf. intros Hw Ha HL. cbn [take_at data shape].
  rewrite take_axis_length by (try exact HL; rewrite Hw, (prod_view a) by exact Ha; lia).
  rewrite prod_set_nth by exact Ha. lia.
Qed.

Lemma take_at_full {A} a (t : tensor A) :
  wf t -> a < length (shape t) -> take_at a (len_of a (shape t)) t = t.
Proof.
  intros Hw Ha. destruct t as [sh x]. unfold wf in Hw. cbn [shape data] in *. unfold take_at. cbn [shape data].
  unfold len_of at 1. rewrite set_nth_same by exact Ha.
  rewrite take_axis_full by (rewrite Hw, (prod_view a) by exact Ha; lia). reflexivity.
Qed.

Lemma reduce_at_wf a f (t : tensor Qc) : wf t -> a < length (shape t) -> wf (reduce_at a f t).
Proof.
  unfold wf. intros Hw Ha. cbn [reduce_at data shape].
  rewrite reduce_blocks_length, prod_set_nth by exact Ha. reflexivity.
Qed.

Lemma reduce_at_sum a f (t : tensor Qc) :
  wf t -> a < length (shape t) -> len_of a (shape t) = eff_len (len_of a (shape t)) f ->
  qsuml (data (reduce_at a f t)) = qsuml (data t).
Proof.
  unfold wf. intros Hw Ha Hd. cbn [reduce_at data]. apply reduce_blocks_sum.
  rewrite Hw, (prod_view a) by exact Ha. rewrite Hd at 1. unfold eff_len. nia.
Qed.

Definition axes_ok (afs : list (nat * nat)) (ndim : nat) : Prop :=
  NoDup (map fst afs) /\ forall af, In af afs -> fst af < ndim.

Lemma axes_ok_tail af afs nd : axes_ok (af :: afs) nd -> axes_ok afs nd /\ fst af < nd /\ ~ In (fst af) (map fst afs).
Proof.
  intros [Hn Hb]. cbn [map] in Hn. inversion Hn; subst. repeat split; try assumption.
  - intros x Hx. apply Hb. right. exact Hx.
  - apply Hb. left. reflexivity.
Qed.

Lemma reduce_nd_sum afs : forall (t : tensor Qc),
  wf t -> axes_ok afs (length (shape t)) ->
  (forall af, In af afs -> len_of (fst af) (shape t) = eff_len (len_of (fst af) (shape t)) (snd af)) ->
  qsuml (data (reduce_nd afs t)) = qsuml (data t).
Proof.
  induction afs as [|[a f] r IH]; intros t Hw Hok Hd; [reflexivity|].
  destruct (axes_ok_tail _ _ _ Hok) as (Hok' & Ha & Hnin). cbn [fst] in *.
  cbn [reduce_nd fold_left fst snd].
  change (fold_left (fun acc af => reduce_at (fst af) (snd af) acc) r (reduce_at a f t))
    with (reduce_nd r (reduce_at a f t)).
  assert (Hnd : length (shape (reduce_at a f t)) = length (shape t)).
  { cbn [reduce_at shape]. apply set_nth_length. exact Ha. }
  rewrite IH.
  - apply reduce_at_sum; [exact Hw | exact Ha | apply (Hd (a, f)); left; reflexivity].
  - apply reduce_at_wf; assumption.
  - rewrite Hnd. exact Hok'.
  - intros [a' f'] Hin. cbn [fst snd].
    assert (Hne : a <> a').
    { intros ->. apply Hnin. apply (in_map fst) in Hin. exact Hin. }
    cbn [reduce_at shape]. rewrite len_set_nth_neq by assumption.
    apply (Hd (a', f')). right. exact Hin.
Qed.

Lemma take_nd_cons af r (t : tensor Qc) :
  take_nd (af :: r) t = take_nd r (take_at (fst af) (eff_len (len_of (fst af) (shape t)) (snd af)) t).
Proof. reflexivity. Qed.

Lemma take_nd_props afs : forall (t : tensor Qc),
  wf t -> axes_ok afs (length (shape t)) ->
  wf (take_nd afs t) /\ length (shape (take_nd afs t)) = length (shape t) /\
  (forall b, ~ In b (map fst afs) -> len_of b (shape (take_nd afs t)) = len_of b (shape t)) /\
  (forall af, In af afs ->
     len_of (fst af) (shape (take_nd afs t)) = eff_len (len_of (fst af) (shape t)) (snd af)).
Proof.
  induction afs as [|[a f] r IH]; intros t Hw Hok.
  - repeat split; try assumption; try reflexivity. intros af [].
  - destruct (axes_ok_tail _ _ _ Hok) as (Hok' & Ha & Hnin). cbn [fst] in *.
    rewrite take_nd_cons. cbn [fst snd].
    set (t1 := take_at a (eff_len (len_of a (shape t)) f) t).
    assert (Hw1 : wf t1) by (apply take_at_wf; [exact Hw | exact Ha | apply eff_len_le]).
    assert (Hnd1 : length (shape t1) = length (shape t)) by (cbn [t1 take_at shape]; apply set_nth_length; exact Ha).
    destruct (IH t1 Hw1 ltac:(rewrite Hnd1; exact Hok')) as (Hw2 & Hnd2 & Hoth & Hin2).
    repeat split.
    + exact Hw2.
    + rewrite Hnd2. exact Hnd1.
    + intros b Hb. cbn [map] in Hb. rewrite Hoth by (intros C; apply Hb; right; exact C).
      cbn [t1 take_at shape]. apply len_set_nth_neq; [exact Ha|]. intros ->. apply Hb. left. reflexivity.
    + intros [a' f'] [Heq|Hin]; cbn [fst snd].
      * inversion Heq; subst a' f'. rewrite Hoth by exact Hnin.
        cbn [t1 take_at shape]. apply len_set_nth. lia.
      * pose proof (Hin2 (a', f') Hin) as E. cbn [fst snd] in E. rewrite E. f_equal.
        cbn [t1 take_at shape]. apply len_set_nth_neq; [exact Ha|].
        intros ->. apply Hnin. apply (in_map fst) in Hin. exact Hin.
Qed.

(* counts, N-D, any axis subset, any factors: the binned array carries the total of the
   covered region  array[0:(n0//f0)*f0, ...]  — exactly the slice Dataset.bin reshapes *)
Theorem bin_sum_counts afs (t : tensor Qc) :
  wf t -> axes_ok afs (length (shape t)) ->
  qsuml (data (bin_sum afs t)) = qsuml (data (take_nd afs t)).
Proof.
  intros Hw Hok. destruct (take_nd_props afs t Hw Hok) as (Hw2 & Hnd2 & _ & Hin2).
  unfold bin_sum. apply reduce_nd_sum; [exact Hw2 | rewrite Hnd2; exact Hok|].
  intros af Hin. rewrite (Hin2 af Hin). symmetry. apply eff_len_idem.
Qed.

Lemma take_nd_divisible afs : forall (t : tensor Qc),
  wf t -> axes_ok afs (length (shape t)) ->
  (forall af, In af afs -> len_of (fst af) (shape t) mod (snd af) = 0) ->
  take_nd afs t = t.
Proof.
  induction afs as [|[a f] r IH]; intros t Hw Hok Hd; [reflexivity|].
  destruct (axes_ok_tail _ _ _ Hok) as (Hok' & Ha & Hnin). cbn [fst] in *.
  rewrite take_nd_cons. cbn [fst snd].
  pose proof (Hd (a, f) ltac:(left; reflexivity)) as E. cbn [fst snd] in E.
  rewrite eff_len_mod, E, Nat.sub_0_r.
  rewrite take_at_full by assumption.
  apply IH; [exact Hw | exact Hok'|]. intros af Hin. apply Hd. right. exact Hin.
Qed.

(* when every factor divides its axis the total counts are preserved *)
Theorem bin_sum_counts_divisible afs (t : tensor Qc) :
  wf t -> axes_ok afs (length (shape t)) ->
  (forall af, In af afs -> len_of (fst af) (shape t) mod (snd af) = 0) ->
  qsuml (data (bin_sum afs t)) = qsuml (data t).
Proof.
  intros Hw Hok Hd. rewrite bin_sum_counts by assumption. rewrite take_nd_divisible by assumption. reflexivity.
Qed.

Theorem bin_mean_counts afs (t : tensor Qc) :
  wf t -> axes_ok afs (length (shape t)) ->
  qsuml (data (bin_mean afs t)) = (qsuml (data (take_nd afs t)) / qc_of_nat (block_volume afs))%Qc.
Proof.
  intros Hw Hok. unfold bin_mean. cbn [data]. rewrite qsuml_map_div, bin_sum_counts by assumption. reflexivity.
Qed.

(* one chosen axis of an N-D tensor is [bin_axis] through the (outer, n, inner) view *)
Lemma bin_sum_single a f (t : tensor Qc) :
  a < length (shape t) ->
  data (bin_sum [(a, f)] t)
  = bin_axis (outer_of a (shape t)) (len_of a (shape t)) (inner_of a (shape t)) f (data t)
  /\ shape (bin_sum [(a, f)] t) = set_nth a (len_of a (shape t) / f) (shape t).
Proof.
  intros Ha. unfold bin_sum, reduce_nd, take_nd. cbn [fold_left fst snd].
  unfold reduce_at. cbn [take_at shape data].
  rewrite outer_set_nth, inner_set_nth, len_set_nth by lia. rewrite eff_len_div.
  rewrite set_nth_set_nth by lia. split; reflexivity.
Qed.

Lemma block_volume_single a f : block_volume [(a, f)] = f.
Proof. unfold block_volume. cbn [fold_left snd]. lia. Qed.

Theorem bin_mean_block a f (t : tensor Qc) o j k :
  wf t -> a < length (shape t) ->
  o < outer_of a (shape t) -> j < len_of a (shape t) / f -> k < inner_of a (shape t) ->
  nth ((o * (len_of a (shape t) / f) + j) * inner_of a (shape t) + k) (data (bin_mean [(a, f)] t)) 0%Qc
  = (qsum f (fun u => nth ((o * len_of a (shape t) + (j * f + u)) * inner_of a (shape t) + k) (data t) 0%Qc)
     / qc_of_nat f)%Qc.
Proof.
  intros Hw Ha Ho Hj Hk. unfold bin_mean. cbn [data].
  destruct (bin_sum_single a f t Ha) as [Hd _]. rewrite Hd, block_volume_single.
  set (g := fun v : Qc => (v / qc_of_nat f)%Qc).
  assert (Hidx : (o * (len_of a (shape t) / f) + j) * inner_of a (shape t) + k
                 < length (bin_axis (outer_of a (shape t)) (len_of a (shape t)) (inner_of a (shape t)) f (data t))).
  { rewrite bin_axis_length. apply idx_lt; [apply idx_lt|]; assumption. }
  rewrite (nth_indep _ 0%Qc (g 0%Qc)) by (rewrite map_length; exact Hidx).
  rewrite map_nth. unfold g. f_equal.
  apply bin_axis_block_sum; try assumption.
  unfold wf in Hw. rewrite Hw, (prod_view a) by exact Ha. lia.
Qed.

(* ------------------------------------------------------------------------------------ *)
(* metadata *)
Local Open Scope Qc_scope.

Lemma qc_of_nat_add a b : qc_of_nat (a + b) = qc_of_nat a + qc_of_nat b.
Proof.
  unfold qc_of_nat, Qcplus. apply Q2Qc_eq_iff. cbn [this Q2Qc]. rewrite !Qred_correct.
  unfold Qeq, Qplus. cbn [Qnum Qden]. lia.
Qed.

Lemma qc_of_nat_mul a b : qc_of_nat (a * b) = qc_of_nat a * qc_of_nat b.
Proof.
  unfold qc_of_nat, Qcmult. apply Q2Qc_eq_iff. cbn [this Q2Qc]. rewrite !Qred_correct.
  unfold Qeq, Qmult. cbn [Qnum Qden]. lia.
Qed.

Lemma qc_of_nat_0 : qc_of_nat 0 = 0.
Proof. apply Qc_is_canon. reflexivity. Qed.

Lemma qc_of_nat_1 : qc_of_nat 1 = 1.
Proof. apply Qc_is_canon. reflexivity. Qed.

Lemma qc_of_nat_S n : qc_of_nat (S n) = qc_of_nat n + 1.
Proof. rewrite <- qc_of_nat_1, <- qc_of_nat_add. f_equal. lia. Qed.

Lemma qc_of_nat_neq0 n : (1 <= n)%nat -> qc_of_nat n <> 0.
Proof.
  intros Hn H. unfold qc_of_nat in H. apply Q2Qc_eq_iff in H. unfold Qeq in H. cbn [Qnum Qden] in H. lia.
Qed.

Lemma half_double : half + half = 1.
Proof. apply Qc_is_canon. reflexivity. Qed.

Lemma two_neq0 : (1 + 1 : Qc) <> 0.
Proof. intros H. apply (f_equal (fun q : Qc => Qnum (this q))) in H. discriminate H. Qed.

Lemma half_eq : half = 1 / (1 + 1).
Proof. apply Qc_is_canon. reflexivity. Qed.

(* sum of the coordinates of f consecutive pixels *)
Lemma sum_coord f o s :
  qsum f (coord o s) = qc_of_nat f * o + half * qc_of_nat f * (qc_of_nat f - 1) * s.
Proof.
  induction f as [|f IH].
  - cbn [FinSum.sumn]. rewrite qc_of_nat_0. ring.
  - cbn [FinSum.sumn]. rewrite IH. unfold coord. rewrite qc_of_nat_S.
    rewrite half_eq. field. exact two_neq0.
Qed.

Theorem bin_sampling_scaled f s : bin_sampling f s = qc_of_nat f * s.
Proof. unfold bin_sampling. ring. Qed.

(* the new origin is the mean coordinate of the first block *)
Theorem bin_origin_is_block_mean f o s : (1 <= f)%nat ->
  bin_origin f o s = qsum f (coord o s) / qc_of_nat f.
Proof.
  intros Hf. rewrite sum_coord. unfold bin_origin. field. apply qc_of_nat_neq0. exact Hf.
Qed.

Lemma coord_shift o s j f t : coord o s (j * f + t) = coord (o + qc_of_nat j * qc_of_nat f * s) s t.
Proof. unfold coord. rewrite qc_of_nat_add, qc_of_nat_mul. ring. Qed.

(* the coordinate of every binned pixel is the mean coordinate of its block *)
Theorem bin_centres f o s j : (1 <= f)%nat ->
  coord (bin_origin f o s) (bin_sampling f s) j
  = qsum f (fun t => coord o s (j * f + t)) / qc_of_nat f.
Proof.
  intros Hf.
  rewrite (sumn_ext Qrt f _ (coord (o + qc_of_nat j * qc_of_nat f * s) s)) by (intros; apply coord_shift).
  rewrite sum_coord. unfold coord, bin_origin, bin_sampling. field. apply qc_of_nat_neq0. exact Hf.
Qed.

(* Fourier resampling metadata *)
Theorem resample_extent n m s : (1 <= n)%nat -> (1 <= m)%nat ->
  qc_of_nat m * resample_sampling n m s = qc_of_nat n * s.
Proof.
  intros Hn Hm. unfold resample_sampling. field.
  split; apply qc_of_nat_neq0; assumption.
Qed.

Theorem resample_centre n m o s :
  resample_origin n m o s + ((qc_of_nat m - 1) / (1 + 1)) * resample_sampling n m s
  = o + ((qc_of_nat n - 1) / (1 + 1)) * s.
Proof. unfold resample_origin. ring. Qed.

Theorem resample_meta_id n o s : (1 <= n)%nat ->
  resample_sampling n n s = s /\ resample_origin n n o s = o.
Proof.
  intros Hn. assert (E : resample_sampling n n s = s).
  { unfold resample_sampling. field.
    repeat split; try (apply qc_of_nat_neq0; exact Hn);
      intros H; apply (f_equal (fun q : Qc => Qnum (this q))) in H; discriminate H. }
  split; [exact E|]. unfold resample_origin. rewrite E. ring.
Qed.
Local Close Scope Qc_scope.
