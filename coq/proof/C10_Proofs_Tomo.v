(* C10 proofs, part A2 (round 3): the tomography clamp / shrinkage for every combination of the
   two dictionary entries that apply_hard_constraints reads (positivity, shrinkage). *)
From QV.lib Require Import Prelude C10_Cplx.
From QV.model Require Import C10_Model.
From QV.proof Require Import C10_Proofs_Obj.
From Coq Require Import QArith Lqa.
Local Close Scope Q_scope.
Local Open Scope Q_scope.

(* neither constraint: the volume is returned as it is (and may be negative) *)
Theorem tomo_unconstrained : forall obj, tomo_hard false None obj = obj.
Proof. intros obj. unfold tomo_hard. cbn [tomo_pixel]. apply map_id. Qed.

(* the four combinations, pixel by pixel *)
Theorem tomo_pixel_cases : forall x s,
  tomo_pixel false None x = x /\
  tomo_pixel true None x = qmax x 0 /\
  tomo_pixel false (Some s) x = qmax (x - s) 0 /\
  tomo_pixel true (Some s) x = qmax (qmax x 0 - s) 0.
Proof. intros; repeat split; reflexivity. Qed.

Lemma qmax0_idem x : qmax (qmax x 0) 0 = qmax x 0.
Proof.
  unfold qmax at 2 3. destruct (Qle_bool x 0) eqn:E; [reflexivity|].
  unfold qmax. rewrite E. reflexivity.
Qed.

(* positivity alone is idempotent *)
Theorem tomo_positivity_idempotent : forall obj,
  tomo_hard true None (tomo_hard true None obj) = tomo_hard true None obj.
Proof.
  intros obj. unfold tomo_hard. rewrite map_map. apply map_ext. intros x. cbn [tomo_pixel].
  apply qmax0_idem.
Qed.

(* shrinkage is not (it is a soft threshold: every application subtracts s again) *)
Theorem tomo_shrinkage_not_idempotent :
  exists pos s obj, ~ Forall2 Qeq (tomo_hard pos (Some s) (tomo_hard pos (Some s) obj)) (tomo_hard pos (Some s) obj).
Proof.
  exists true, (1 # 4), [1]. vm_compute. intros H. inversion H as [|? ? ? ? H1 _]; subst.
  vm_compute in H1. discriminate H1.
Qed.

(* a non-negative shrinkage never increases a value above its clamped original *)
Theorem tomo_shrink_le_all : forall pos s obj, 0 <= s ->
  Forall2 (fun y x => y <= qmax x 0) (tomo_hard pos (Some s) obj) obj.
Proof.
  intros pos s obj Hs. unfold tomo_hard. induction obj as [|x obj IH]; cbn [map]; constructor; [|exact IH].
  apply tomo_shrink_le. exact Hs.
Qed.
