(* C07 — proofs about model/C07_Model.v (part 1: sums, sampler laws, Radon sample points) *)
From QV.lib Require Import Prelude.
From QV.model Require Import C07_Model.
From Coq Require Import QArith Qround Qabs Qfield Lqa Setoid Morphisms.
Local Open Scope Q_scope.

(* ------------------------------------------------------------------------------ zrange *)
Lemma zrange_In n i : In i (zrange n) <-> (0 <= i < n)%Z.
Proof.
  unfold zrange. rewrite in_map_iff. split.
  - intros [j [Hj Hin]]. apply in_seq in Hin. lia.
  - intros H. exists (Z.to_nat i). split; [lia | apply in_seq; lia].
Qed.

Lemma zrange_length n : length (zrange n) = Z.to_nat n.
Proof. unfold zrange. now rewrite map_length, seq_length. Qed.

Lemma zrange_nth n j d : (j < Z.to_nat n)%nat -> nth j (zrange n) d = Z.of_nat j.
Proof.
  intros H. unfold zrange.
  rewrite nth_indep with (d' := Z.of_nat 0) by (rewrite map_length, seq_length; exact H).
  rewrite map_nth, seq_nth by exact H. reflexivity.
Qed.

Lemma zrange_succ n : (0 <= n)%Z -> zrange (n + 1) = zrange n ++ [n].
Proof.
  intros H. unfold zrange.
  replace (Z.to_nat (n + 1)) with (Z.to_nat n + 1)%nat by lia.
  rewrite seq_app, map_app. cbn [seq map]. f_equal. f_equal. lia.
Qed.

Lemma zrange_nonpos n : (n <= 0)%Z -> zrange n = [].
Proof. intros H. unfold zrange. replace (Z.to_nat n) with 0%nat by lia. reflexivity. Qed.

(* reversing the row range = reflecting the rows *)
Lemma nth_map_in {A B} (f : A -> B) l j d d' : (j < length l)%nat -> nth j (map f l) d = f (nth j l d').
Proof.
  intros H. rewrite nth_indep with (d' := f d') by (rewrite map_length; exact H). apply map_nth.
Qed.

Lemma zrange_rev n : rev (zrange n) = map (fun r => (n - 1 - r)%Z) (zrange n).
Proof.
  apply nth_ext with (d := 0%Z) (d' := 0%Z).
  - now rewrite rev_length, map_length.
  - intros j Hj. rewrite rev_length, zrange_length in Hj.
    rewrite rev_nth by (rewrite zrange_length; exact Hj).
    rewrite zrange_length.
    rewrite (nth_map_in (fun r => (n - 1 - r)%Z) (zrange n) j 0%Z 0%Z) by (rewrite zrange_length; exact Hj).
    rewrite !zrange_nth by lia. lia.
Qed.

(* -------------------------------------------------------------------------------- sumQ *)
Lemma sumQ_cons f x l : sumQ f (x :: l) == f x + sumQ f l.
Proof. unfold sumQ. cbn [fold_right]. apply Qred_correct. Qed.

Lemma sumQ_nil f : sumQ f [] = 0.
Proof. reflexivity. Qed.

Lemma sumQ_ext f g l : (forall i, In i l -> f i == g i) -> sumQ f l == sumQ g l.
Proof.
  induction l as [|x l IH]; intros H; [reflexivity|].
  rewrite !sumQ_cons.
  rewrite H by (left; reflexivity). rewrite IH; [reflexivity|].
  intros i Hi. apply H. right. exact Hi.
Qed.

Lemma sumQ_app f l1 l2 : sumQ f (l1 ++ l2) == sumQ f l1 + sumQ f l2.
Proof.
  induction l1 as [|x l IH]; cbn [app].
  - rewrite sumQ_nil. ring.
  - rewrite !sumQ_cons, IH. ring.
Qed.

Lemma sumQ_rev f l : sumQ f (rev l) == sumQ f l.
Proof.
  induction l as [|x l IH]; [reflexivity|].
  cbn [rev]. rewrite sumQ_app, IH, !sumQ_cons, sumQ_nil. ring.
Qed.

Lemma sumQ_map f (h : Z -> Z) l : sumQ f (map h l) = sumQ (fun i => f (h i)) l.
Proof.
  induction l as [|x l IH]; [reflexivity|].
  unfold sumQ in *. cbn [map fold_right]. now rewrite IH.
Qed.

Lemma sumQ_lin a b f g l :
  sumQ (fun i => a * f i + b * g i) l == a * sumQ f l + b * sumQ g l.
Proof.
  induction l as [|x l IH]; [rewrite !sumQ_nil; ring|].
  rewrite !sumQ_cons, IH. ring.
Qed.

Lemma sumQ_zero f l : (forall i, In i l -> f i == 0) -> sumQ f l == 0.
Proof.
  induction l as [|x l IH]; intros H; [reflexivity|].
  rewrite sumQ_cons. rewrite H by (left; reflexivity). rewrite IH; [ring|].
  intros i Hi. apply H. right; exact Hi.
Qed.

(* ------------------------------------------------------------------ iz (inject_Z) facts *)
Lemma iz_add a b : iz (a + b) == iz a + iz b. Proof. unfold iz. rewrite inject_Z_plus. reflexivity. Qed.
Lemma iz_sub a b : iz (a - b) == iz a - iz b.
Proof. unfold iz. unfold Z.sub. rewrite inject_Z_plus, inject_Z_opp. reflexivity. Qed.
Lemma iz_mul a b : iz (a * b) == iz a * iz b. Proof. unfold iz. rewrite inject_Z_mult. reflexivity. Qed.
Lemma iz_opp a : iz (- a) == - iz a. Proof. unfold iz. rewrite inject_Z_opp. reflexivity. Qed.
Lemma iz_le a b : (a <= b)%Z <-> iz a <= iz b. Proof. unfold iz. rewrite Zle_Qle. tauto. Qed.
Lemma iz_lt a b : (a < b)%Z <-> iz a < iz b. Proof. unfold iz. rewrite Zlt_Qlt. tauto. Qed.
Lemma iz_eq a b : a = b <-> iz a == iz b.
Proof. unfold iz. split; [intros ->; reflexivity | apply inject_Z_injective]. Qed.
Lemma iz_neq0 a : a <> 0%Z -> ~ iz a == 0.
Proof. intros H E. apply H. apply (proj2 (iz_eq a 0)). exact E. Qed.

Lemma Qfloor_add_Z q z : Qfloor (q + iz z) = (Qfloor q + z)%Z.
Proof.
  assert (Hlo : iz (Qfloor q + z) <= q + iz z).
  { rewrite iz_add. apply Qplus_le_l. apply Qfloor_le. }
  assert (Hhi : q + iz z < iz (Qfloor q + z + 1)).
  { replace (Qfloor q + z + 1)%Z with ((Qfloor q + 1) + z)%Z by ring. rewrite iz_add.
    apply Qplus_lt_l. apply Qlt_floor. }
  pose proof (Qfloor_le (q + iz z)) as H1. pose proof (Qlt_floor (q + iz z)) as H2.
  fold (iz (Qfloor (q + iz z))) in H1. fold (iz (Qfloor (q + iz z) + 1)) in H2.
  assert (A : (Qfloor q + z < Qfloor (q + iz z) + 1)%Z).
  { apply iz_lt. eapply Qle_lt_trans; [exact Hlo | exact H2]. }
  assert (B : (Qfloor (q + iz z) < Qfloor q + z + 1)%Z).
  { apply iz_lt. eapply Qle_lt_trans; [exact H1 | exact Hhi]. }
  lia.
Qed.

Lemma Qfloor_iz z : Qfloor (iz z) = z. Proof. apply Qfloor_Z. Qed.

(* floor characterisation *)
Lemma Qfloor_unique q z : iz z <= q -> q < iz (z + 1) -> Qfloor q = z.
Proof.
  intros Hlo Hhi.
  pose proof (Qfloor_le q) as H1. pose proof (Qlt_floor q) as H2.
  fold (iz (Qfloor q)) in H1. fold (iz (Qfloor q + 1)) in H2.
  assert (A : (z < Qfloor q + 1)%Z) by (apply iz_lt; eapply Qle_lt_trans; eassumption).
  assert (B : (Qfloor q < z + 1)%Z) by (apply iz_lt; eapply Qle_lt_trans; eassumption).
  lia.
Qed.

(* --------------------------------------------------------------------- bilinear sampler *)
Lemma clip_ext n f g r k : (forall r k, f r k == g r k) -> clip n f r k == clip n g r k.
Proof. intros H. unfold clip. destruct (_ && _)%bool; [apply H | reflexivity]. Qed.

Lemma bilinear_proper : sampler_proper bilinear.
Proof.
  split.
  - intros n img x x' y y' Hx Hy. unfold bilinear. cbv zeta.
    rewrite (Qfloor_comp _ _ Hx), (Qfloor_comp _ _ Hy). rewrite Hx, Hy. reflexivity.
  - intros n f g x y H. unfold bilinear. cbv zeta.
    rewrite !(clip_ext n f g _ _ H). reflexivity.
Qed.

Lemma bilinear_linear : sampler_linear bilinear.
Proof.
  intros n a f b g x y. unfold bilinear. cbv zeta.
  assert (E : forall r k, clip n (lin_img a f b g) r k == a * clip n f r k + b * clip n g r k).
  { intros r k. unfold clip, lin_img. destruct (_ && _)%bool; ring. }
  rewrite !E. ring.
Qed.

Lemma bilinear_on_grid : sampler_on_grid bilinear.
Proof.
  intros n img r k Hr Hk. unfold bilinear. cbv zeta. rewrite !Qfloor_iz.
  assert (E : clip n img r k == img r k).
  { unfold clip. replace ((0 <=? r) && (r <? n) && (0 <=? k) && (k <? n))%Z with true; [reflexivity|].
    symmetry. rewrite !andb_true_iff. repeat split; lia. }
  rewrite E. ring.
Qed.

(* ------------------------------------------------------------------ Radon sample points *)
(* grid_sample(align_corners=True) undoes the port's normalisation 2 p / (N-1) - 1 *)
Lemma unnormalize_grid n p : (2 <= n)%Z -> unnormalize_ac n (2 * p / (iz n - 1) - 1) == p.
Proof.
  intros Hn. unfold unnormalize_ac. field.
  intros E. assert (iz n == iz 1) as E1 by (rewrite <- (Qplus_0_l (iz 1)), <- E; unfold iz; ring).
  apply iz_eq in E1. lia.
Qed.

Lemma port_point_coords v c s n r k :
  (2 <= n)%Z ->
  fst (port_point v c s n r k) == fst (port_coords_rot v c s n r k) /\
  snd (port_point v c s n r k) == snd (port_coords_rot v c s n r k).
Proof.
  intros Hn. unfold port_point, port_grid. cbn [fst snd].
  split; apply unnormalize_grid; exact Hn.
Qed.

(* repaired port: the very same sample point as scikit-image, for every size n >= 2 *)
Lemma port_point_repaired c s n r k :
  (2 <= n)%Z ->
  fst (port_point repaired c s n r k) == fst (sk_point c s n r k) /\
  snd (port_point repaired c s n r k) == snd (sk_point c s n r k).
Proof.
  intros Hn. destruct (port_point_coords repaired c s n r k Hn) as [E1 E2].
  rewrite E1, E2. unfold port_coords_rot, sk_point, sk_R, sk_center, warp_point, port_rot, repaired.
  cbn [v_rot_fixed fst snd]. split; ring.
Qed.

(* port as written: the sample point of scikit-image's row 2*(n//2) - r  (rows reflected about
   the centre n//2) *)
Lemma port_point_as_written c s n r k :
  (2 <= n)%Z ->
  fst (port_point as_written c s n r k) == fst (sk_point c s n (2 * (n / 2) - r) k) /\
  snd (port_point as_written c s n r k) == snd (sk_point c s n (2 * (n / 2) - r) k).
Proof.
  intros Hn. destruct (port_point_coords as_written c s n r k Hn) as [E1 E2].
  rewrite E1, E2. unfold port_coords_rot, sk_point, sk_R, sk_center, warp_point, port_rot, as_written.
  cbn [v_rot_fixed fst snd]. rewrite iz_sub, iz_mul. change (iz 2) with 2. split; ring.
Qed.

Section RADON.
  Variable sample : sampler.
  Hypothesis Hproper : sampler_proper sample.

  Lemma sample_pt n img p q :
    fst p == fst q -> snd p == snd q -> sample n img (fst p) (snd p) == sample n img (fst q) (snd q).
  Proof. intros. apply (proj1 Hproper); assumption. Qed.

  (* sinograms agree with scikit-image (on the disc-masked image) for ANY sampler *)
  Lemma radon_eq_skimage img n c s k :
    (2 <= n)%Z ->
    port_radon repaired sample img n c s k == sk_radon sample (disc_mask n img) n c s k.
  Proof.
    intros Hn. unfold port_radon, sk_radon. apply sumQ_ext. intros r _.
    destruct (port_point_repaired c s n r k Hn) as [E1 E2]. apply sample_pt; assumption.
  Qed.

  (* as written, odd n: the sample points of a detector column are those of scikit-image in
     reverse row order, so the column sums agree *)
  Lemma radon_as_written_odd img n c s k :
    (3 <= n)%Z -> Z.odd n = true ->
    port_radon as_written sample img n c s k == sk_radon sample (disc_mask n img) n c s k.
  Proof.
    intros Hn Hodd. unfold port_radon, sk_radon.
    etransitivity; [| apply sumQ_rev]. rewrite zrange_rev, sumQ_map.
    apply sumQ_ext. intros r _.
    assert (H2 : (2 * (n / 2) - r = n - 1 - r)%Z).
    { rewrite Zodd_mod in Hodd. apply Zeq_bool_eq in Hodd. lia. }
    destruct (port_point_as_written c s n r k) as [E1 E2]; [lia|].
    rewrite H2 in E1, E2. apply sample_pt; assumption.
  Qed.

  (* projection at 0 degrees (cos = 1, sin = 0) = column sums of the disc-masked image *)
  Hypothesis Hgrid : sampler_on_grid sample.

  Lemma radon_theta0_colsum img n k :
    (2 <= n)%Z -> (0 <= k < n)%Z ->
    port_radon repaired sample img n 1 0 k == sumQ (fun r => disc_mask n img r k) (zrange n).
  Proof.
    intros Hn Hk. unfold port_radon. apply sumQ_ext. intros r Hr. apply zrange_In in Hr.
    destruct (port_point_repaired 1 0 n r k Hn) as [E1 E2].
    rewrite (proj1 Hproper n _ _ (iz k) _ (iz r)).
    - apply Hgrid; assumption.
    - rewrite E1. unfold sk_point, sk_R, sk_center, warp_point. cbn [fst]. ring.
    - rewrite E2. unfold sk_point, sk_R, sk_center, warp_point. cbn [snd]. ring.
  Qed.

  Lemma sk_radon_theta0_colsum img n k :
    (0 <= k < n)%Z ->
    sk_radon sample img n 1 0 k == sumQ (fun r => img r k) (zrange n).
  Proof.
    intros Hk. unfold sk_radon. apply sumQ_ext. intros r Hr. apply zrange_In in Hr.
    rewrite (proj1 Hproper n _ _ (iz k) _ (iz r)).
    - apply Hgrid; assumption.
    - unfold sk_point, sk_R, sk_center, warp_point. cbn [fst]. ring.
    - unfold sk_point, sk_R, sk_center, warp_point. cbn [snd]. ring.
  Qed.

  (* linearity *)
  Hypothesis Hlin : sampler_linear sample.

  Lemma disc_mask_lin n a f b g r k :
    disc_mask n (lin_img a f b g) r k == lin_img a (disc_mask n f) b (disc_mask n g) r k.
  Proof. unfold disc_mask, lin_img. destruct (in_disc n r k); ring. Qed.

  Lemma radon_linear v a f b g n c s k :
    port_radon v sample (lin_img a f b g) n c s k
    == a * port_radon v sample f n c s k + b * port_radon v sample g n c s k.
  Proof.
    unfold port_radon. rewrite <- sumQ_lin. apply sumQ_ext. intros r _.
    rewrite (proj2 Hproper n _ (lin_img a (disc_mask n f) b (disc_mask n g)))
      by (intros; apply disc_mask_lin).
    apply Hlin.
  Qed.

  Lemma sk_radon_linear a f b g n c s k :
    sk_radon sample (lin_img a f b g) n c s k
    == a * sk_radon sample f n c s k + b * sk_radon sample g n c s k.
  Proof.
    unfold sk_radon. rewrite <- sumQ_lin. apply sumQ_ext. intros r _. apply Hlin.
  Qed.
End RADON.

(* with the bilinear sampler (all hypotheses discharged) *)
Lemma radon_theta0_colsum_bilinear img n k :
  (2 <= n)%Z -> (0 <= k < n)%Z ->
  port_radon repaired bilinear img n 1 0 k == sumQ (fun r => disc_mask n img r k) (zrange n).
Proof. apply radon_theta0_colsum; [apply bilinear_proper | apply bilinear_on_grid]. Qed.

Lemma radon_linear_bilinear v a f b g n c s k :
  port_radon v bilinear (lin_img a f b g) n c s k
  == a * port_radon v bilinear f n c s k + b * port_radon v bilinear g n c s k.
Proof. apply radon_linear; [apply bilinear_proper | apply bilinear_linear]. Qed.

(* --- the port as written, even n: refuted.  n = 4, theta = 0, the image with a single 1 at
   (row 0, column 2) — a pixel of the disc.  scikit-image (and the column sum) give 1 at
   detector 2; the port as written samples rows 4,3,2,1 (row 4 is outside) and gives 0. *)
Definition delta_img (r0 k0 : Z) : image := fun r k => if ((r =? r0) && (k =? k0))%Z then 1 else 0.

Lemma radon_as_written_even_refuted :
  exists (n : Z) (img : image) (c s : Q) (k : Z),
    Z.even n = true /\ (2 <= n)%Z /\ (0 <= k < n)%Z /\ c * c + s * s == 1 /\
    ~ port_radon as_written bilinear img n c s k == sk_radon bilinear (disc_mask n img) n c s k.
Proof.
  exists 4%Z, (delta_img 0 2), 1, 0, 2%Z.
  repeat split; try reflexivity; try lia.
  intros E. vm_compute in E. discriminate E.
Qed.

Lemma radon_theta0_as_written_even_refuted :
  exists (n : Z) (img : image) (k : Z),
    Z.even n = true /\ (2 <= n)%Z /\ (0 <= k < n)%Z /\
    ~ port_radon as_written bilinear img n 1 0 k == sumQ (fun r => disc_mask n img r k) (zrange n).
Proof.
  exists 4%Z, (delta_img 0 2), 2%Z.
  repeat split; try reflexivity; try lia.
  intros E. vm_compute in E. discriminate E.
Qed.

(* batched = per image *)
Lemma squeeze0_nth {A} (xs : list A) (d : A) b :
  (b < length xs)%nat ->
  match squeeze0 xs with Single x => b = 0%nat /\ x = nth b xs d | Batch ys => nth b ys d = nth b xs d end.
Proof.
  intros Hb. destruct xs as [|x [|y ys]]; cbn [squeeze0].
  - cbn in Hb. lia.
  - cbn in Hb. assert (b = 0%nat) by lia. subst. split; reflexivity.
  - reflexivity.
Qed.

Lemma radon_batched_eq_single v sample imgs n angles b d :
  (b < length imgs)%nat ->
  match port_radon_batched v sample imgs n angles with
  | Single x => length imgs = 1%nat /\ x = port_sinogram v sample (nth b imgs d) n angles
  | Batch ys => (2 <= length imgs)%nat /\
                nth b ys [] = port_sinogram v sample (nth b imgs d) n angles
  end.
Proof.
  intros Hb. unfold port_radon_batched.
  destruct imgs as [|x [|y ys]]; cbn [map squeeze0 length] in *.
  - lia.
  - assert (b = 0%nat) by lia. subst. split; reflexivity.
  - split; [lia|].
    change (port_sinogram v sample x n angles :: port_sinogram v sample y n angles
            :: map (fun img => port_sinogram v sample img n angles) ys)
      with (map (fun img => port_sinogram v sample img n angles) (x :: y :: ys)).
    rewrite nth_indep with (d' := (fun img => port_sinogram v sample img n angles) d)
      by (rewrite map_length; exact Hb).
    apply (map_nth (fun img => port_sinogram v sample img n angles)).
Qed.
