(* C17 — proofs about model/C17_Model.v : union-find with offsets, any edge order *)
From QV.lib Require Import Prelude.
From QV.model Require Import C17_Model.
From Coq Require Import QArith Qround Qabs Lqa.
Local Close Scope Q_scope.
Set Implicit Arguments.

(* ---------------------------------------------------------------- list update *)
Lemma upd_length (A : Type) (i : nat) (v : A) (l : list A) : length (upd i v l) = length l.
Proof.
  revert i. induction l as [|a l IH]; intros i; destruct i; cbn [upd length]; auto.
Qed.

Lemma nth_upd_eq (A : Type) (i : nat) (v d : A) (l : list A) :
  i < length l -> nth i (upd i v l) d = v.
Proof.
  revert i. induction l as [|a l IH]; intros i Hi; cbn [length] in Hi; [lia|].
  destruct i; cbn [upd nth]; [reflexivity|]. apply IH. lia.
Qed.

Lemma nth_upd_neq (A : Type) (i j : nat) (v d : A) (l : list A) :
  i <> j -> nth j (upd i v l) d = nth j l d.
Proof.
  revert i j. induction l as [|a l IH]; intros i j Hij; destruct i, j; cbn [upd nth]; try reflexivity.
  - congruence.
  - apply IH. congruence.
Qed.

(* ---------------------------------------------------------------- paths to the root *)
(* path st x r s k : following parent pointers from x reaches the root r in k steps, the
   offsets met on the way (root excluded) add up to s *)
Inductive path (st : uf) : nat -> nat -> Z -> nat -> Prop :=
| path_root x : nth x (parent st) x = x -> path st x x 0%Z 0
| path_step x r s k :
    nth x (parent st) x <> x ->
    path st (nth x (parent st) x) r s k ->
    path st x r (nth x (offset st) 0 + s)%Z (S k).

Lemma path_eq st x r s s' k : path st x r s k -> s = s' -> path st x r s' k.
Proof. intros H E. subst. exact H. Qed.

Lemma find_path st x r s k :
  path st x r s k -> forall fuel acc, k < fuel -> find fuel st x acc = Some (r, (acc + s)%Z).
Proof.
  induction 1 as [x Hx | x r s k Hx Hp IH]; intros fuel acc Hk.
  - destruct fuel as [|f]; [lia|]. cbn [find]. rewrite Hx, Nat.eqb_refl. f_equal. f_equal. lia.
  - destruct fuel as [|f]; [lia|]. cbn [find].
    destruct (Nat.eqb_spec (nth x (parent st) x) x) as [E|_]; [contradiction|].
    rewrite IH by lia. f_equal. f_equal. lia.
Qed.

Lemma path_end_root st x r s k : path st x r s k -> nth r (parent st) r = r.
Proof. induction 1; assumption. Qed.

Lemma path_det st x r s k :
  path st x r s k -> forall r' s' k', path st x r' s' k' -> r = r' /\ s = s'.
Proof.
  induction 1 as [x Hx | x r s k Hx Hp IH]; intros r' s' k' H'.
  - inversion H'; subst; [auto | contradiction].
  - inversion H'; subst; [contradiction|].
    match goal with Hq : path st (nth x (parent st) x) r' _ _ |- _ => destruct (IH _ _ _ Hq) as [E1 E2] end.
    subst. auto.
Qed.

(* attaching the root a under the root b with offset d *)
Section Attach.
  Variables (st st' : uf) (a b : nat) (d : Z).
  Hypothesis Hpar : parent st' = upd a b (parent st).
  Hypothesis Hoff : offset st' = upd a d (offset st).
  Hypothesis Hla : a < length (parent st).
  Hypothesis Hlo : a < length (offset st).
  Hypothesis Hra : nth a (parent st) a = a.
  Hypothesis Hrb : nth b (parent st) b = b.
  Hypothesis Hab : a <> b.

  Lemma attach_other v r s k : path st v r s k -> r <> a -> path st' v r s k.
  Proof.
    induction 1 as [x Hx | x r s k Hx Hp IH]; intros Hr.
    - apply path_root. rewrite Hpar, nth_upd_neq by congruence. exact Hx.
    - assert (Hxa : x <> a) by (intros ->; contradiction).
      assert (Ep : nth x (parent st') x = nth x (parent st) x)
        by (rewrite Hpar; apply nth_upd_neq; congruence).
      assert (Eo : nth x (offset st') 0%Z = nth x (offset st) 0%Z)
        by (rewrite Hoff; apply nth_upd_neq; congruence).
      rewrite <- Eo. apply path_step; rewrite Ep; [exact Hx | apply IH; exact Hr].
  Qed.

  Lemma attach_at v r s k : path st v r s k -> r = a -> path st' v b (s + d)%Z (S k).
  Proof.
    induction 1 as [x Hx | x r s k Hx Hp IH]; intros Hr.
    - subst x.
      assert (Ep : nth a (parent st') a = b) by (rewrite Hpar; apply nth_upd_eq; exact Hla).
      assert (Eo : nth a (offset st') 0%Z = d) by (rewrite Hoff; apply nth_upd_eq; exact Hlo).
      eapply path_eq.
      + apply path_step; rewrite Ep; [congruence|].
        apply path_root. rewrite Hpar, nth_upd_neq by exact Hab. exact Hrb.
      + rewrite Eo. lia.
    - assert (Hxa : x <> a) by (intros ->; contradiction).
      assert (Ep : nth x (parent st') x = nth x (parent st) x)
        by (rewrite Hpar; apply nth_upd_neq; congruence).
      assert (Eo : nth x (offset st') 0%Z = nth x (offset st) 0%Z)
        by (rewrite Hoff; apply nth_upd_neq; congruence).
      eapply path_eq.
      + apply path_step; rewrite Ep; [exact Hx | apply IH; exact Hr].
      + rewrite Eo. lia.
  Qed.
End Attach.

(* ---------------------------------------------------------------- the invariant *)
(* rt, pot : ghost root and potential (path sum) of every vertex; m bounds every height *)
Definition Inv (n m : nat) (st : uf) (rt : nat -> nat) (pot : nat -> Z) : Prop :=
  length (parent st) = n /\ length (offset st) = n /\
  (forall x, exists k, k <= m /\ path st x (rt x) (pot x) k) /\
  (forall x, x < n -> rt x < n).

Lemma inv_init n : Inv n 0 (uf_init n) (fun x => x) (fun _ => 0%Z).
Proof.
  unfold Inv, uf_init; cbn [parent offset]. rewrite seq_length, repeat_length.
  repeat split; auto.
  intros x. exists 0. split; [lia|]. apply path_root. cbn [parent].
  destruct (Nat.lt_ge_cases x n) as [Hl|Hg].
  - rewrite seq_nth by exact Hl. lia.
  - apply nth_overflow. rewrite seq_length. exact Hg.
Qed.

Lemma inv_mono n m m' st rt pot : m <= m' -> Inv n m st rt pot -> Inv n m' st rt pot.
Proof.
  intros Hm (H1 & H2 & H3 & H4). repeat split; auto.
  intros x. destruct (H3 x) as (k & Hk & Hp). exists k. split; [lia | exact Hp].
Qed.

Lemma find_inv n m st rt pot fuel v :
  Inv n m st rt pot -> m < fuel -> find fuel st v 0%Z = Some (rt v, pot v).
Proof.
  intros (_ & _ & H3 & _) Hm. destruct (H3 v) as (k & Hk & Hp).
  rewrite (find_path Hp) by lia. reflexivity.
Qed.

Lemma rt_is_root n m st rt pot x : Inv n m st rt pot -> nth (rt x) (parent st) (rt x) = rt x.
Proof. intros (_ & _ & H3 & _). destruct (H3 x) as (k & _ & Hp). eapply path_end_root; exact Hp. Qed.

Lemma root_fixed n m st rt pot x :
  Inv n m st rt pot -> rt (rt x) = rt x /\ pot (rt x) = 0%Z.
Proof.
  intros HI. pose proof (rt_is_root x HI) as Hr. destruct HI as (_ & _ & H3 & _).
  destruct (H3 (rt x)) as (k & _ & Hp).
  destruct (path_det (@path_root st (rt x) Hr) Hp) as [E1 E2]. split; congruence.
Qed.

Definition rt_after (rt : nat -> nat) (a b : nat) : nat -> nat :=
  fun v => if rt v =? a then b else rt v.
Definition pot_after (rt : nat -> nat) (pot : nat -> Z) (a : nat) (d : Z) : nat -> Z :=
  fun v => if rt v =? a then (pot v + d)%Z else pot v.

Lemma inv_attach n m st st' rt pot a b d :
  Inv n m st rt pot ->
  parent st' = upd a b (parent st) -> offset st' = upd a d (offset st) ->
  a < n -> b < n -> a <> b ->
  nth a (parent st) a = a -> nth b (parent st) b = b ->
  Inv n (S m) st' (rt_after rt a b) (pot_after rt pot a d).
Proof.
  intros (H1 & H2 & H3 & H4) Hp Ho Ha Hb Hab Hra Hrb.
  unfold Inv. rewrite Hp, Ho, !upd_length. repeat split; auto.
  - intros v. destruct (H3 v) as (k & Hk & Hpath). unfold rt_after, pot_after.
    destruct (Nat.eqb_spec (rt v) a) as [E|E].
    + exists (S k). split; [lia|].
      eapply (@attach_at st st' a b d); eauto; lia.
    + exists k. split; [lia|].
      eapply (@attach_other st st' a b d); eauto; lia.
  - intros v Hv. unfold rt_after. destruct (rt v =? a); auto.
Qed.

(* one union *)
Lemma union_step n m st rt pot fuel x y inc :
  Inv n m st rt pot -> m < fuel -> x < n -> y < n ->
  (rt x = rt y /\ union fuel st x y inc = Some st) \/
  (rt x <> rt y /\ exists st' a b d,
      union fuel st x y inc = Some st' /\ a <> b /\
      ((a = rt x /\ b = rt y /\ d = (- (pot x - pot y - inc))%Z) \/
       (a = rt y /\ b = rt x /\ d = (pot x - pot y - inc)%Z)) /\
      Inv n (S m) st' (rt_after rt a b) (pot_after rt pot a d)).
Proof.
  intros HI Hm Hx Hy.
  pose proof (find_inv x HI Hm) as Fx. pose proof (find_inv y HI Hm) as Fy.
  pose proof (rt_is_root x HI) as Rx. pose proof (rt_is_root y HI) as Ry.
  assert (Bx : rt x < n) by (destruct HI as (_ & _ & _ & H4); auto).
  assert (By : rt y < n) by (destruct HI as (_ & _ & _ & H4); auto).
  unfold union. rewrite Fx, Fy.
  destruct (Nat.eqb_spec (rt x) (rt y)) as [E|E]; [left; auto|].
  right. split; [exact E|].
  destruct (nth (rt x) (rank st) 0 <? nth (rt y) (rank st) 0).
  - eexists. exists (rt x), (rt y), (- (pot x - pot y - inc))%Z.
    split; [reflexivity|]. split; [exact E|]. split; [left; auto|].
    eapply inv_attach; eauto.
  - eexists. exists (rt y), (rt x), (pot x - pot y - inc)%Z.
    split; [reflexivity|]. split; [congruence|]. split; [right; auto|].
    eapply inv_attach; eauto.
Qed.

(* ---------------------------------------------------------------- connectivity *)
Inductive conn (E : nat -> nat -> Prop) : nat -> nat -> Prop :=
| conn_refl x : conn E x x
| conn_edge x y : E x y -> conn E x y
| conn_sym x y : conn E x y -> conn E y x
| conn_trans x y z : conn E x y -> conn E y z -> conn E x z.

Lemma conn_mono (E E' : nat -> nat -> Prop) :
  (forall x y, E x y -> E' x y) -> forall x y, conn E x y -> conn E' x y.
Proof.
  intros HE x y H. induction H.
  - apply conn_refl.
  - apply conn_edge. auto.
  - apply conn_sym. assumption.
  - eapply conn_trans; eassumption.
Qed.

Definition erel (es : list edge) (x y : nat) : Prop := exists i, In (x, y, i) es.
Definition prel (ps : list (nat * nat)) (x y : nat) : Prop := In (x, y) ps.

Definition inrange (n : nat) (es : list edge) : Prop :=
  forall x y i, In (x, y, i) es -> x < n /\ y < n.

(* trees = connected components of the merged edges *)
Definition I1 (rt : nat -> nat) (M : list edge) : Prop :=
  forall u v, rt u = rt v <-> conn (erel M) u v.
(* the potential realises every merged increment *)
Definition I2 (pot : nat -> Z) (M : list edge) : Prop :=
  forall x y i, In (x, y, i) M -> (pot x - pot y)%Z = i.
(* both ends of every processed edge are in one tree *)
Definition I3 (rt : nat -> nat) (D : list edge) : Prop :=
  forall x y i, In (x, y, i) D -> rt x = rt y.

Lemma I1_step rt M a b x y i :
  I1 rt M -> a <> b ->
  ((a = rt x /\ b = rt y) \/ (a = rt y /\ b = rt x)) ->
  I1 (rt_after rt a b) (M ++ [(x, y, i)]).
Proof.
  intros H1 Hab Hcase.
  assert (Hxy : rt_after rt a b x = rt_after rt a b y).
  { unfold rt_after. destruct Hcase as [[-> ->]|[-> ->]].
    - rewrite Nat.eqb_refl. destruct (Nat.eqb_spec (rt y) (rt x)); congruence.
    - rewrite Nat.eqb_refl. destruct (Nat.eqb_spec (rt x) (rt y)); congruence. }
  assert (Hold : forall u v, conn (erel M) u v -> conn (erel (M ++ [(x, y, i)])) u v).
  { apply conn_mono. intros p q [j Hj]. exists j. apply in_or_app. auto. }
  assert (Hnew : conn (erel (M ++ [(x, y, i)])) x y).
  { apply conn_edge. exists i. apply in_or_app. right. left. reflexivity. }
  intros u v. split.
  - unfold rt_after. intros Huv.
    destruct (Nat.eqb_spec (rt u) a) as [Eu|Eu]; destruct (Nat.eqb_spec (rt v) a) as [Ev|Ev].
    + apply Hold, H1. congruence.
    + (* rt u = a, rt v = b *)
      destruct Hcase as [[Ha Hb]|[Ha Hb]].
      * apply conn_trans with x; [apply Hold, H1; congruence|].
        apply conn_trans with y; [exact Hnew|]. apply Hold, H1. congruence.
      * apply conn_trans with y; [apply Hold, H1; congruence|].
        apply conn_trans with x; [apply conn_sym; exact Hnew|]. apply Hold, H1. congruence.
    + destruct Hcase as [[Ha Hb]|[Ha Hb]].
      * apply conn_trans with y; [apply Hold, H1; congruence|].
        apply conn_trans with x; [apply conn_sym; exact Hnew|]. apply Hold, H1. congruence.
      * apply conn_trans with x; [apply Hold, H1; congruence|].
        apply conn_trans with y; [exact Hnew|]. apply Hold, H1. congruence.
    + apply Hold, H1. exact Huv.
  - intros Hc. induction Hc as [p | p q [j Hj] | p q _ IH | p q r _ IH1 _ IH2].
    + reflexivity.
    + apply in_app_or in Hj. destruct Hj as [Hj|[Hj|[]]].
      * assert (E : rt p = rt q) by (apply H1; apply conn_edge; exists j; exact Hj).
        unfold rt_after. rewrite E. reflexivity.
      * inversion Hj; subst. exact Hxy.
    + congruence.
    + congruence.
Qed.

Lemma I3_after rt D a b : I3 rt D -> I3 (rt_after rt a b) D.
Proof. intros H x y i Hin. unfold rt_after. rewrite (H x y i Hin). reflexivity. Qed.

Lemma merged_unfold fuel st x y inc r rx ox ry oy st' :
  find fuel st x 0%Z = Some (rx, ox) -> find fuel st y 0%Z = Some (ry, oy) ->
  union fuel st x y inc = Some st' ->
  merged fuel st ((x, y, inc) :: r) = (if rx =? ry then [] else [(x, y, inc)]) ++ merged fuel st' r.
Proof. intros Fx Fy U. cbn [merged]. rewrite Fx, Fy, U. reflexivity. Qed.

(* the invariant is kept by every sequence of unions, in any order *)
Lemma run_inv es : forall fuel n m st rt pot M D,
  Inv n m st rt pot -> I1 rt M -> I2 pot M -> I3 rt D ->
  m + length es < fuel -> inrange n es ->
  exists st' rt' pot',
    run fuel st es = Some st' /\ Inv n (m + length es) st' rt' pot' /\
    I1 rt' (M ++ merged fuel st es) /\ I2 pot' (M ++ merged fuel st es) /\ I3 rt' (D ++ es).
Proof.
  induction es as [|[[x y] inc] es IH]; intros fuel n m st rt pot M D HI H1 H2 H3 Hf Hr.
  - exists st, rt, pot. cbn [run merged length]. rewrite !app_nil_r, Nat.add_0_r. auto.
  - cbn [length] in Hf.
    assert (Hxy : x < n /\ y < n) by (apply (Hr x y inc); left; reflexivity).
    assert (Hr' : inrange n es) by (intros p q j Hj; apply (Hr p q j); right; exact Hj).
    assert (Hm : m < fuel) by lia.
    pose proof (find_inv x HI Hm) as Fx. pose proof (find_inv y HI Hm) as Fy.
    destruct (@union_step n m st rt pot fuel x y inc HI Hm (proj1 Hxy) (proj2 Hxy))
      as [[E U] | [E (st' & a & b & d & U & Hab & Hcase & HI')]].
    + (* same tree: nothing changes *)
      assert (H3' : I3 rt (D ++ [(x, y, inc)])).
      { intros p q j Hj. apply in_app_or in Hj. destruct Hj as [Hj|[Hj|[]]]; [eapply H3; eauto|].
        inversion Hj; subst. exact E. }
      destruct (IH fuel n (S m) st rt pot M (D ++ [(x, y, inc)])
                   (inv_mono (Nat.le_succ_diag_r m) HI) H1 H2 H3' ltac:(lia) Hr')
        as (st2 & rt2 & pot2 & R & HI2 & G1 & G2 & G3).
      exists st2, rt2, pot2. cbn [run length merged]. rewrite Fx, Fy, U. rewrite E, Nat.eqb_refl. cbn [app].
      rewrite <- app_assoc in G3. cbn [app] in G3.
      replace (m + S (length es)) with (S m + length es) by lia. auto.
    + (* two trees are merged *)
      assert (H1' : I1 (rt_after rt a b) (M ++ [(x, y, inc)])).
      { apply I1_step; auto. destruct Hcase as [(?&?&?)|(?&?&?)]; auto. }
      assert (H2' : I2 (pot_after rt pot a d) (M ++ [(x, y, inc)])).
      { intros p q j Hj. apply in_app_or in Hj. destruct Hj as [Hj|[Hj|[]]].
        - assert (Epq : rt p = rt q) by (apply H1; apply conn_edge; exists j; exact Hj).
          unfold pot_after. rewrite Epq. pose proof (H2 p q j Hj). destruct (rt q =? a); lia.
        - inversion Hj; subst p q j. unfold pot_after.
          destruct Hcase as [(Ha & Hb & Hd)|(Ha & Hb & Hd)]; subst a b d.
          + rewrite Nat.eqb_refl. destruct (Nat.eqb_spec (rt y) (rt x)); [congruence | lia].
          + rewrite Nat.eqb_refl. destruct (Nat.eqb_spec (rt x) (rt y)); [congruence | lia]. }
      assert (H3' : I3 (rt_after rt a b) (D ++ [(x, y, inc)])).
      { intros p q j Hj. apply in_app_or in Hj. destruct Hj as [Hj|[Hj|[]]].
        - eapply I3_after; eauto.
        - inversion Hj; subst p q j. apply H1'. apply conn_edge. exists inc.
          apply in_or_app. right. left. reflexivity. }
      destruct (IH fuel n (S m) st' _ _ _ _ HI' H1' H2' H3' ltac:(lia) Hr')
        as (st2 & rt2 & pot2 & R & HI2 & G1 & G2 & G3).
      exists st2, rt2, pot2. cbn [run length merged]. rewrite Fx, Fy, U.
      destruct (Nat.eqb_spec (rt x) (rt y)) as [E'|_]; [contradiction|].
      rewrite <- app_assoc in G1, G2, G3. cbn [app] in G1, G2, G3.
      replace (m + S (length es)) with (S m + length es) by lia. cbn [app]. auto.
Qed.

Lemma merged_incl es : forall fuel st e, In e (merged fuel st es) -> In e es.
Proof.
  induction es as [|[[x y] inc] es IH]; intros fuel st e H; cbn [merged] in H; [contradiction|].
  destruct (find fuel st x 0%Z) as [[rx ox]|]; [|contradiction].
  destruct (find fuel st y 0%Z) as [[ry oy]|]; [|contradiction].
  destruct (union fuel st x y inc) as [st'|]; [|contradiction].
  apply in_app_or in H. destruct H as [H|H].
  - destruct (rx =? ry); [contradiction|]. destruct H as [H|[]]. left. exact H.
  - right. eapply IH. exact H.
Qed.

(* ---------------------------------------------------------------- the union-find theorem *)
Theorem uf_run_spec n es fuel :
  inrange n es -> length es < fuel ->
  exists st rt pot,
    run fuel (uf_init n) es = Some st /\
    Inv n (length es) st rt pot /\
    (forall x, find fuel st x 0%Z = Some (rt x, pot x)) /\
    (forall x y, rt x = rt y <-> conn (erel es) x y) /\
    (forall x y, conn (erel es) x y <-> conn (erel (merged fuel (uf_init n) es)) x y) /\
    (forall x y i, In (x, y, i) (merged fuel (uf_init n) es) -> (pot x - pot y)%Z = i).
Proof.
  intros Hr Hf.
  assert (H1 : I1 (fun x : nat => x) []).
  { intros u v. split; [intros ->; apply conn_refl|].
    intros Hc. induction Hc as [p | p q [j []] | p q _ IH | p q r _ IH1 _ IH2]; congruence. }
  assert (H2 : I2 (fun _ : nat => 0%Z) []) by (intros x y i []).
  assert (H3 : I3 (fun x : nat => x) []) by (intros x y i []).
  destruct (@run_inv es fuel n 0 (uf_init n) _ _ [] [] (inv_init n) H1 H2 H3 ltac:(lia) Hr)
    as (st & rt & pot & R & HI & G1 & G2 & G3).
  cbn [app plus] in *.
  assert (Hback : forall x y, conn (erel es) x y -> rt x = rt y).
  { intros x y Hc. induction Hc as [p | p q [j Hj] | p q _ IH | p q r _ IH1 _ IH2]; try congruence.
    eapply G3; eauto. }
  assert (Hfwd : forall x y, conn (erel (merged fuel (uf_init n) es)) x y -> conn (erel es) x y).
  { apply conn_mono. intros p q [j Hj]. exists j. eapply merged_incl; eauto. }
  exists st, rt, pot.
  split; [exact R|]. split; [exact HI|].
  split; [intros x; eapply find_inv; [exact HI | exact Hf]|].
  split; [intros x y; split; [intros E; apply Hfwd, G1, E | apply Hback]|].
  split; [intros x y; split; [intros Hc; apply G1, Hback, Hc | apply Hfwd]|].
  exact G2.
Qed.

(* signed walks through merged edges: the potential difference is the sum of increments *)
Inductive walk (M : list edge) : nat -> nat -> Z -> Prop :=
| walk_nil x : walk M x x 0%Z
| walk_fwd x y z i s : In (x, y, i) M -> walk M y z s -> walk M x z (i + s)%Z
| walk_bwd x y z i s : In (y, x, i) M -> walk M y z s -> walk M x z (- i + s)%Z.

Lemma walk_pot M pot x y s : I2 pot M -> walk M x y s -> (pot x - pot y)%Z = s.
Proof.
  intros H2 Hw. induction Hw as [x | x y z i s Hin _ IH | x y z i s Hin _ IH].
  - lia.
  - pose proof (H2 _ _ _ Hin). lia.
  - pose proof (H2 _ _ _ Hin). lia.
Qed.

Lemma walk_app M x y z s t : walk M x y s -> walk M y z t -> walk M x z (s + t)%Z.
Proof.
  intros H1 H2. induction H1 as [x | x y w i s Hin _ IH | x y w i s Hin _ IH].
  - replace (0 + t)%Z with t by lia. exact H2.
  - replace (i + s + t)%Z with (i + (s + t))%Z by lia. eapply walk_fwd; eauto.
  - replace (- i + s + t)%Z with (- i + (s + t))%Z by lia. eapply walk_bwd; eauto.
Qed.

Lemma walk_rev M x y s : walk M x y s -> walk M y x (- s)%Z.
Proof.
  intros H. induction H as [x | x y z i s Hin _ IH | x y z i s Hin _ IH].
  - apply walk_nil.
  - replace (- (i + s))%Z with (- s + (- i + 0))%Z by lia.
    eapply walk_app; [exact IH|]. eapply walk_bwd; [exact Hin | apply walk_nil].
  - replace (- (- i + s))%Z with (- s + (i + 0))%Z by lia.
    eapply walk_app; [exact IH|]. eapply walk_fwd; [exact Hin | apply walk_nil].
Qed.

Lemma conn_walk M x y : conn (erel M) x y <-> exists s, walk M x y s.
Proof.
  split.
  - intros H. induction H as [p | p q [j Hj] | p q _ [s IH] | p q r _ [s IH1] _ [t IH2]].
    + exists 0%Z. apply walk_nil.
    + exists (j + 0)%Z. eapply walk_fwd; [exact Hj | apply walk_nil].
    + exists (- s)%Z. apply walk_rev. exact IH.
    + exists (s + t)%Z. eapply walk_app; eauto.
  - intros [s H]. induction H as [x | x y z i s Hin _ IH | x y z i s Hin _ IH].
    + apply conn_refl.
    + eapply conn_trans; [apply conn_edge; exists i; exact Hin | exact IH].
    + eapply conn_trans; [apply conn_sym, conn_edge; exists i; exact Hin | exact IH].
Qed.

(* C17_uf_inv *)
Theorem uf_inv n es k :
  inrange n es ->
  let fuel := fuel_of es in
  let pre := firstn k es in
  let M := merged fuel (uf_init n) pre in
  exists st rt pot,
    run fuel (uf_init n) pre = Some st /\
    (forall x, find fuel st x 0%Z = Some (rt x, pot x)) /\
    (forall x y, rt x = rt y <-> conn (erel pre) x y) /\
    (forall x y, rt x = rt y <-> exists s, walk M x y s) /\
    (forall x y s, walk M x y s -> (pot x - pot y)%Z = s) /\
    (forall x y i, In (x, y, i) M -> In (x, y, i) pre).
Proof.
  intros Hr fuel pre M.
  assert (Hr' : inrange n pre).
  { intros x y i Hi. apply (Hr x y i). eapply In_firstn. exact Hi. }
  assert (Hl : length pre < fuel).
  { unfold pre, fuel, fuel_of. rewrite firstn_length. lia. }
  destruct (uf_run_spec Hr' Hl) as (st & rt & pot & R & HI & F & C1 & C2 & P2).
  exists st, rt, pot.
  split; [exact R|]. split; [exact F|]. split; [exact C1|].
  split.
  { intros x y. split.
    - intros E. apply (proj1 (conn_walk M x y)). apply (proj1 (C2 x y)). apply (proj1 (C1 x y)). exact E.
    - intros W. apply (proj2 (C1 x y)). apply (proj2 (C2 x y)). apply (proj2 (conn_walk M x y)). exact W. }
  split.
  { intros x y s W. apply (walk_pot (M:=M) (pot:=pot)); [exact P2 | exact W]. }
  intros x y i Hi. eapply merged_incl. exact Hi.
Qed.

(* ---------------------------------------------------------------- offsets as a list *)
Lemma all_some_map (A B : Type) (f : A -> option B) (g : A -> B) (l : list A) :
  (forall a, In a l -> f a = Some (g a)) -> all_some (map f l) = Some (map g l).
Proof.
  induction l as [|a l IH]; intros H; cbn [map all_some]; [reflexivity|].
  rewrite (H a) by (left; reflexivity). rewrite IH by (intros; apply H; right; assumption).
  reflexivity.
Qed.

Lemma nth_map_seq (A : Type) (f : nat -> A) (n x : nat) (d : A) :
  x < n -> nth x (map f (seq 0 n)) d = f x.
Proof.
  intros Hx. rewrite (nth_indep _ d (f 0)) by (rewrite map_length, seq_length; exact Hx).
  rewrite (map_nth f (seq 0 n) 0 x). rewrite seq_nth by exact Hx. reflexivity.
Qed.

Theorem uf_offsets_spec n es :
  inrange n es ->
  exists st rt pot,
    run (fuel_of es) (uf_init n) es = Some st /\
    uf_offsets n es = Some (map pot (seq 0 n)) /\
    final_roots (fuel_of es) st n = Some (map rt (seq 0 n)) /\
    Inv n (length es) st rt pot /\
    (forall x y, rt x = rt y <-> conn (erel es) x y) /\
    (forall x y, conn (erel es) x y <-> conn (erel (merged (fuel_of es) (uf_init n) es)) x y) /\
    I2 pot (merged (fuel_of es) (uf_init n) es).
Proof.
  intros Hr.
  destruct (@uf_run_spec n es (fuel_of es) Hr ltac:(unfold fuel_of; lia))
    as (st & rt & pot & R & HI & F & C1 & C2 & P2).
  exists st, rt, pot.
  split; [exact R|].
  split.
  { unfold uf_offsets. rewrite R. unfold final_offsets. apply all_some_map.
    intros a _. rewrite F. reflexivity. }
  split.
  { unfold final_roots. apply all_some_map. intros a _. rewrite F. reflexivity. }
  split; [exact HI|]. split; [exact C1|]. split; [exact C2|]. exact P2.
Qed.

(* C17_fuel_suffices *)
Theorem fuel_suffices n es fuel :
  inrange n es -> length es < fuel ->
  exists st offs,
    run fuel (uf_init n) es = Some st /\ final_offsets fuel st n = Some offs /\ length offs = n /\
    (forall x, exists r s k, k <= length es /\ path st x r s k).
Proof.
  intros Hr Hf.
  destruct (uf_run_spec Hr Hf) as (st & rt & pot & R & HI & F & _).
  exists st, (map pot (seq 0 n)).
  split; [exact R|].
  split.
  { unfold final_offsets. apply all_some_map. intros a _. rewrite F. reflexivity. }
  split.
  { rewrite map_length, seq_length. reflexivity. }
  intros x. destruct HI as (_ & _ & H3 & _). destruct (H3 x) as (k & Hk & Hp).
  exists (rt x), (pot x), k. auto.
Qed.
