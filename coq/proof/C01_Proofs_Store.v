(* C01 — store independence: the zarr tree is recovered from its flat file map (LocalStore
   directory = the members of the zip archive), so the zip store and the directory store hold
   and load the same thing. *)
From QV.lib Require Import Prelude.
From QV.model Require Import C01_Model.
From QV.proof Require Import C01_Proofs_Base.
From Coq Require Import String Ascii.
Local Open Scope string_scope.
Local Open Scope list_scope.

(* member names are unique within every group (arrays and sub-groups share one namespace) *)
Fixpoint wf_node (g : node) : bool :=
  match g with
  | Group _ r s =>
    nodupb (keys r ++ keys s) &&
    (fix go (l : list (string * node)) : bool :=
       match l with [] => true | (_, sub) :: rest => wf_node sub && go rest end) s
  end.

Fixpoint flatten_groups (l : list (string * node)) : fmap :=
  match l with
  | [] => []
  | (k, sub) :: rest => map (fun pe => (k :: fst pe, snd pe)) (flatten sub) ++ flatten_groups rest
  end.

Lemma flatten_eq a r s :
  flatten (Group a r s) =
  ([], EGroup a) :: map (fun ks => match ks with (k, sa) => ([k], EArray sa) end) r ++ flatten_groups s.
Proof. reflexivity. Qed.

Lemma flatten_head g : exists a rest, flatten g = ([], EGroup a) :: rest /\ a = n_attrs g.
Proof. destruct g as [a r s]. rewrite flatten_eq. eexists. eexists. split; reflexivity. Qed.

Definition arrays_of (m : fmap) : smap sarr :=
  flat_map (fun pe => match pe with ([k], EArray sa) => [(k, sa)] | _ => [] end) m.
Definition gnames_of (m : fmap) : list string :=
  flat_map (fun pe => match pe with ([k], EGroup _) => [k] | _ => [] end) m.

Fixpoint all_some (l : list (string * option node)) : option (list (string * node)) :=
  match l with
  | [] => Some []
  | (k, Some n) :: rest => match all_some rest with Some r => Some ((k, n) :: r) | None => None end
  | (_, None) :: _ => None
  end.

Lemma unflatten_eq f a rest :
  unflatten (S f) (([], EGroup a) :: rest) =
  let m := ([], EGroup a) :: rest in
  match all_some (map (fun k => (k, unflatten f (under k m))) (gnames_of m)) with
  | Some gs => Some (Group a (arrays_of m) gs)
  | None => None
  end.
Proof. reflexivity. Qed.

(* entries contributed by the sub-groups: arrays none, group names = the keys *)
Lemma arrays_of_app m1 m2 : arrays_of (m1 ++ m2) = arrays_of m1 ++ arrays_of m2.
Proof. apply flat_map_app. Qed.
Lemma gnames_of_app m1 m2 : gnames_of (m1 ++ m2) = gnames_of m1 ++ gnames_of m2.
Proof. apply flat_map_app. Qed.
Lemma under_app k m1 m2 : under k (m1 ++ m2) = under k m1 ++ under k m2.
Proof. apply flat_map_app. Qed.

Lemma arrays_of_prefixed k g : arrays_of (map (fun pe => (k :: fst pe, snd pe)) (flatten g)) = [].
Proof.
  destruct g as [a r s]. rewrite flatten_eq. cbn [map fst snd arrays_of flat_map app].
  rewrite map_app, flat_map_app.
  assert (H1 : forall l : smap sarr, flat_map (fun pe : list string * entry => match pe with ([k0], EArray sa) => [(k0, sa)] | _ => [] end)
            (map (fun pe : list string * entry => (k :: fst pe, snd pe)) (map (fun ks : string * sarr => let (k0, sa) := ks in ([k0], EArray sa)) l)) = []).
  { induction l as [|[k0 sa] l IH]; [reflexivity | exact IH]. }
  rewrite H1. cbn [app]. clear H1.
  induction s as [|[k0 sub] rest IH]; [reflexivity|]. cbn [flatten_groups]. rewrite map_app, flat_map_app, IH, app_nil_r.
  clear IH. induction (flatten sub) as [|[p e] l IH]; [reflexivity|]. cbn [map flat_map fst snd]. exact IH.
Qed.

Lemma gnames_of_prefixed k g : gnames_of (map (fun pe => (k :: fst pe, snd pe)) (flatten g)) = [k].
Proof.
  destruct g as [a r s]. rewrite flatten_eq. cbn [map fst snd gnames_of flat_map app]. f_equal.
  rewrite map_app, flat_map_app.
  assert (H1 : forall l : smap sarr, flat_map (fun pe : list string * entry => match pe with ([k0], EGroup _) => [k0] | _ => [] end)
            (map (fun pe : list string * entry => (k :: fst pe, snd pe)) (map (fun ks : string * sarr => let (k0, sa) := ks in ([k0], EArray sa)) l)) = []).
  { induction l as [|[k0 sa] l IH]; [reflexivity | exact IH]. }
  rewrite H1. cbn [app]. clear H1.
  induction s as [|[k0 sub] rest IH]; [reflexivity|]. cbn [flatten_groups]. rewrite map_app, flat_map_app, IH, app_nil_r.
  clear IH. induction (flatten sub) as [|[p e] l IH]; [reflexivity|]. cbn [map flat_map fst snd]. exact IH.
Qed.

Lemma arrays_of_groups s : arrays_of (flatten_groups s) = [].
Proof.
  induction s as [|[k sub] rest IH]; [reflexivity|]. cbn [flatten_groups].
  rewrite arrays_of_app, arrays_of_prefixed, IH. reflexivity.
Qed.

Lemma gnames_of_groups s : gnames_of (flatten_groups s) = keys s.
Proof.
  induction s as [|[k sub] rest IH]; [reflexivity|]. cbn [flatten_groups keys map fst].
  rewrite gnames_of_app, gnames_of_prefixed, IH. reflexivity.
Qed.

Lemma arrays_of_arrays (r : smap sarr) :
  arrays_of (map (fun ks => match ks with (k, sa) => ([k], EArray sa) end) r) = r.
Proof. induction r as [|[k sa] r IH]; [reflexivity|]. cbn [map arrays_of flat_map app]. f_equal. exact IH. Qed.

Lemma gnames_of_arrays (r : smap sarr) :
  gnames_of (map (fun ks => match ks with (k, sa) => ([k], EArray sa) end) r) = [].
Proof. induction r as [|[k sa] r IH]; [reflexivity|]. exact IH. Qed.

Lemma under_arrays k (r : smap sarr) :
  ~ In k (keys r) -> under k (map (fun ks => match ks with (k0, sa) => ([k0], EArray sa) end) r) = [].
Proof.
  induction r as [|[k0 sa] r IH]; intros Hn; [reflexivity|]. cbn [map under flat_map fst snd].
  destruct (String.eqb_spec k k0) as [->|Hne]; [exfalso; apply Hn; left; reflexivity|].
  cbn [app]. apply IH. intros Hi. apply Hn. right. exact Hi.
Qed.

Lemma under_prefixed_same k (m : fmap) : under k (map (fun pe => (k :: fst pe, snd pe)) m) = m.
Proof.
  induction m as [|[p e] m IH]; [reflexivity|]. cbn [map under flat_map fst snd]. rewrite String.eqb_refl.
  cbn [app]. f_equal. exact IH.
Qed.

Lemma under_prefixed_other k k0 (m : fmap) : k <> k0 -> under k (map (fun pe => (k0 :: fst pe, snd pe)) m) = [].
Proof.
  intros Hne. induction m as [|[p e] m IH]; [reflexivity|]. cbn [map under flat_map fst snd].
  apply String.eqb_neq in Hne. rewrite Hne. exact IH.
Qed.

Lemma under_groups k sub s :
  NoDup (keys s) -> In (k, sub) s -> under k (flatten_groups s) = flatten sub.
Proof.
  induction s as [|[k0 sub0] rest IH]; intros Hnd Hi; [destruct Hi|].
  cbn [keys map fst] in Hnd. inversion Hnd as [|? ? Hn Hnd']; subst. cbn [flatten_groups]. rewrite under_app.
  destruct Hi as [He|Hi].
  - injection He as -> ->. rewrite under_prefixed_same.
    assert (Hr : under k (flatten_groups rest) = []).
    { clear - Hn. induction rest as [|[k1 s1] rest IH]; [reflexivity|]. cbn [flatten_groups]. rewrite under_app.
      rewrite under_prefixed_other.
      - cbn [app]. apply IH. intros Hi. apply Hn. right. exact Hi.
      - intros ->. apply Hn. left. reflexivity. }
    rewrite Hr, app_nil_r. reflexivity.
  - rewrite under_prefixed_other; [cbn [app]; apply IH; assumption|].
    intros ->. apply Hn. apply in_map_iff. exists (k0, sub). split; [reflexivity | exact Hi].
Qed.

Lemma depth_eq a r s : depth (Group a r s) = S (fold_right (fun kn acc => Nat.max (depth (snd kn)) acc) 0 s).
Proof. reflexivity. Qed.

Lemma depth_sub k sub (s : list (string * node)) :
  In (k, sub) s -> depth sub <= fold_right (fun kn acc => Nat.max (depth (snd kn)) acc) 0 s.
Proof.
  induction s as [|[k0 s0] rest IH]; intros Hi; [destruct Hi|]. cbn [fold_right snd].
  destruct Hi as [He|Hi]; [injection He as -> ->; lia | specialize (IH Hi); lia].
Qed.

Section NodeInd.
  Variable P : node -> Prop.
  Hypothesis H : forall a r s, Forall (fun kn => P (snd kn)) s -> P (Group a r s).
  Fixpoint node_ind' (g : node) : P g :=
    match g with
    | Group a r s =>
      H a r s ((fix go (l : list (string * node)) : Forall (fun kn => P (snd kn)) l :=
                  match l return Forall (fun kn => P (snd kn)) l with
                  | [] => Forall_nil _
                  | (k, sub) :: rest => Forall_cons (k, sub) (node_ind' sub : P (snd (k, sub))) (go rest)
                  end) s)
    end.
End NodeInd.

Lemma wf_node_eq a r s :
  wf_node (Group a r s) = (nodupb (keys r ++ keys s) && forallb (fun kn => wf_node (snd kn)) s)%bool.
Proof.
  cbn [wf_node]. f_equal. induction s as [|[k sub] rest IH]; [reflexivity|]. cbn [forallb snd]. rewrite IH. reflexivity.
Qed.

Theorem unflatten_flatten g : forall fuel, wf_node g = true -> depth g <= fuel -> unflatten fuel (flatten g) = Some g.
Proof.
  induction g as [a r s IH] using node_ind'. intros fuel Hw Hd. rewrite wf_node_eq in Hw.
  apply andb_true_iff in Hw. destruct Hw as [Hnd Hsub]. apply nodupb_NoDup in Hnd. rewrite forallb_forall in Hsub.
  rewrite depth_eq in Hd. destruct fuel as [|f]; [lia|]. rewrite flatten_eq, unflatten_eq. cbn zeta.
  set (m := ([], EGroup a) :: map (fun ks : string * sarr => let (k, sa) := ks in ([k], EArray sa)) r ++ flatten_groups s).
  assert (Ha : arrays_of m = r).
  { unfold m. cbn [arrays_of flat_map app]. fold (arrays_of (map (fun ks : string * sarr => let (k, sa) := ks in ([k], EArray sa)) r ++ flatten_groups s)).
    rewrite arrays_of_app, arrays_of_arrays, arrays_of_groups, app_nil_r. reflexivity. }
  assert (Hg : gnames_of m = keys s).
  { unfold m. cbn [gnames_of flat_map app]. fold (gnames_of (map (fun ks : string * sarr => let (k, sa) := ks in ([k], EArray sa)) r ++ flatten_groups s)).
    rewrite gnames_of_app, gnames_of_arrays, gnames_of_groups. reflexivity. }
  assert (Hnr : NoDup (keys s)).
  { clear - Hnd. induction (keys r) as [|x l IHl]; [exact Hnd|]. cbn [app] in Hnd. inversion Hnd; subst. apply IHl. assumption. }
  assert (Hu : forall k sub, In (k, sub) s -> under k m = flatten sub).
  { intros k sub Hi. unfold m. cbn [under flat_map fst app]. fold (under k (map (fun ks : string * sarr => let (k0, sa) := ks in ([k0], EArray sa)) r ++ flatten_groups s)).
    rewrite under_app, under_arrays, (under_groups k sub s Hnr Hi); [reflexivity|].
    intros Hk. assert (Hks : In k (keys s)) by (apply in_map_iff; exists (k, sub); split; [reflexivity | exact Hi]).
    clear - Hnd Hk Hks. induction (keys r) as [|x l IHl]; [destruct Hk|]. cbn [app] in Hnd. inversion Hnd as [|? ? Hn Hnd']; subst.
    destruct Hk as [->|Hk]; [apply Hn; apply in_or_app; right; exact Hks | exact (IHl Hnd' Hk)]. }
  rewrite Ha, Hg.
  assert (Hall : all_some (map (fun k => (k, unflatten f (under k m))) (keys s)) = Some s).
  { rewrite Forall_forall in IH.
    assert (Hgen : forall s', (forall kn, In kn s' -> In kn s) -> all_some (map (fun k => (k, unflatten f (under k m))) (keys s')) = Some s').
    { induction s' as [|[k sub] rest IHs]; intros Hin; [reflexivity|]. cbn [keys map fst all_some].
      rewrite (Hu k sub (Hin _ (or_introl eq_refl))).
      pose proof (IH (k, sub) (Hin _ (or_introl eq_refl)) f) as Hk. cbn [snd] in Hk. rewrite Hk.
      - fold (keys rest). rewrite IHs; [reflexivity | intros kn Hk'; apply Hin; right; exact Hk'].
      - exact (Hsub _ (Hin _ (or_introl eq_refl))).
      - pose proof (depth_sub k sub s (Hin _ (or_introl eq_refl))). lia. }
    apply Hgen. intros kn Hk. exact Hk. }
  rewrite Hall. reflexivity.
Qed.

(* the zip store holds exactly the file map of the directory store *)
Theorem store_independent g :
  wf_node g = true ->
  unflatten (depth g) (unzip_store (zip_store (flatten g))) = Some g /\
  unflatten (depth g) (flatten g) = Some g.
Proof. intros Hw. split; apply unflatten_flatten; [exact Hw | lia | exact Hw | lia]. Qed.
