(* C05 — the binding invariant holds initially and is preserved by set_optimizer(+scheduler),
   remove_optimizer and setting constraints. *)
From QV.lib Require Import Prelude.
From QV.model Require Import C05_Model.
From QV.proof Require Import C05_Proofs_Base.
Set Implicit Arguments.

Section UpdNth.
  Variable A : Type.
  Implicit Types (l : list A) (f : A -> A).

  Lemma Forall_upd_nth (P' P : A -> Prop) l i f :
    Forall P' l -> (forall x, P' x -> P x) -> (forall x, P' x -> P (f x)) -> Forall P (upd_nth l i f).
  Proof.
    intros H Himp Hf. revert i. induction H as [|x t Hx Ht IH]; intros i; [destruct i; constructor|].
    destruct i; cbn; constructor; auto. eapply Forall_impl; [|exact Ht]. auto.
  Qed.

  Lemma In_upd_nth l i f y :
    In y (upd_nth l i f) -> In y l \/ exists x, nth_error l i = Some x /\ y = f x.
  Proof.
    revert i. induction l as [|x t IH]; intros i; [destruct i; cbn; tauto|].
    destruct i; cbn.
    - intros [<-|H]; [right; exists x; auto|auto].
    - intros [<-|H]; [auto|]. destruct (IH _ H) as [H'|(x' & H' & ->)]; [auto|].
      right. exists x'. auto.
  Qed.

  Lemma FOP_upd_nth (Rel : A -> A -> Prop) (Q : A -> Prop) l i f :
    (forall x y, Rel x y -> Rel y x) ->
    Forall Q l -> (forall x y, nth_error l i = Some x -> Q y -> Rel x y -> Rel (f x) y) ->
    ForallOrdPairs Rel l -> ForallOrdPairs Rel (upd_nth l i f).
  Proof.
    intros Hsym HQ Hf H. revert i Hf. induction H as [|x t Hx Ht IH]; intros i Hf; [destruct i; constructor|].
    inversion HQ as [|? ? Qx Qt]; subst.
    destruct i; cbn; constructor.
    - rewrite Forall_forall in *. intros y Hy. apply Hf; auto.
    - exact Ht.
    - rewrite Forall_forall in *. intros y Hy.
      destruct (In_upd_nth _ _ _ _ Hy) as [H'|(x' & H' & ->)]; [auto|].
      apply Hsym. apply Hf; [exact H'|exact Qx|]. apply Hsym. apply Hx. eapply nth_error_In. exact H'.
    - apply IH; [exact Qt|]. intros x0 y E. apply (Hf x0 y). exact E.
  Qed.

  Lemma map_upd_nth_id (B : Type) (g : A -> B) l i f :
    (forall x, g (f x) = g x) -> map g (upd_nth l i f) = map g l.
  Proof.
    intros Hg. revert i. induction l as [|x t IH]; intros i; [destruct i; reflexivity|].
    destruct i; cbn; [now rewrite Hg|now rewrite IH].
  Qed.
End UpdNth.

Section Ops.
  Variables V M L R C SS : Type.
  Variable sched_init : SS -> R -> SS * R.
  Implicit Types (s : st V M L R C SS) (h : heap V M R SS) (m : mdl C).

  (* every id a model holds is below the allocation counter *)
  Definition ids_below (n : nat) m : Prop :=
    Forall (fun r => r < n) (mparams m) /\ (forall o, mopt m = Some o -> o < n) /\
    (forall x, msched m = Some x -> x < n).

  Lemma bound_ids_below h m : bound h m -> ids_below (hnext h) m.
  Proof.
    intros (_ & Hlt & Ho & Hs). split; [exact Hlt|]. split.
    - intros o E. rewrite E in Ho. tauto.
    - intros x E. rewrite E in Hs. tauto.
  Qed.

  (* a heap that only allocates new objects *)
  Definition extends h h' : Prop :=
    hnext h <= hnext h' /\
    (forall j, j < hnext h -> ho h' j = ho h j) /\ (forall j, j < hnext h -> hs h' j = hs h j).

  Lemma bound_extends h h' m : extends h h' -> bound h m -> bound h' m.
  Proof.
    intros (Hle & Eo & Es) (Hnd & Hlt & Ho & Hs). unfold bound.
    split; [exact Hnd|]. split; [eapply Forall_impl; [|exact Hlt]; cbn; intros; lia|]. split.
    - destruct (mopt m) as [o|]; [|exact Ho].
      destruct Ho as (Hlo & Hne & Hex). split; [lia|]. split; [exact Hne|]. now rewrite Eo.
    - destruct (msched m) as [x|]; [|exact I].
      destruct Hs as (Hlx & Hex). split; [lia|]. now rewrite Es.
  Qed.

  (* ------------------------------------------------------------------ set_cons / remove_opt *)
  Lemma set_cons_binding_inv i c s : binding_inv s -> binding_inv (set_cons i c s).
  Proof.
    intros (Hsep & Hb). unfold binding_inv, set_cons. cbn [hh rc models]. split.
    - apply FOP_upd_nth with (Q := fun _ => True); [exact (@sep_sym C)|rewrite Forall_forall; auto| |exact Hsep].
      intros x y _ _ Hs. exact Hs.
    - eapply Forall_upd_nth; [exact Hb|auto|]. intros x Hx. exact Hx.
  Qed.

  Lemma remove_opt_binding_inv i s : binding_inv s -> binding_inv (remove_opt i s).
  Proof.
    intros (Hsep & Hb). unfold binding_inv, remove_opt. cbn [hh rc models]. split.
    - apply FOP_upd_nth with (Q := fun _ => True); [exact (@sep_sym C)|rewrite Forall_forall; auto| |exact Hsep].
      intros x y _ _ (Hp & _ & _). split; [exact Hp|]. split; cbn; discriminate.
    - eapply Forall_upd_nth; [exact Hb|auto|].
      intros x (Hnd & Hlt & _ & _). unfold bound. cbn. auto.
  Qed.

  (* ------------------------------------------------------------------ set_opt *)
  (* model i gets new optimiser / scheduler objects allocated at fresh ids *)
  Lemma rebind_binding_inv s i m h' f (ls : list L) (lr' : list (nat * list R)) :
    binding_inv s -> nth_error (models (rc s)) i = Some m -> extends (hh s) h' ->
    (forall y, ids_below (hnext (hh s)) y -> sep m y -> sep (f m) y) ->
    bound h' (f m) ->
    binding_inv ({| hh := h'; rc := {| models := upd_nth (models (rc s)) i f; losses := ls; lrs := lr' |} |} : st V M L R C SS).
  Proof.
    intros (Hsep & Hb) En Hext Hfs Hbf.
    assert (HQ : Forall (ids_below (hnext (hh s))) (models (rc s))).
    { eapply Forall_impl; [|exact Hb]. intros a. apply bound_ids_below. }
    unfold binding_inv. cbn [hh rc models]. split.
    - apply FOP_upd_nth with (Q := ids_below (hnext (hh s))); [exact (@sep_sym C)|exact HQ| |exact Hsep].
      intros x y E Qy Hs. rewrite En in E. inversion E; subst. now apply Hfs.
    - apply Forall_forall. intros y Hy.
      destruct (In_upd_nth _ _ _ _ Hy) as [H'|(x' & H' & ->)].
      + eapply bound_extends; [exact Hext|]. rewrite Forall_forall in Hb. auto.
      + rewrite En in H'. inversion H'; subst. exact Hbf.
  Qed.

  Lemma set_opt_binding_inv i k lr sc s : binding_inv s -> binding_inv (set_opt sched_init i k lr sc s).
  Proof.
    intros Hinv. pose proof Hinv as (Hsep & Hb). unfold set_opt.
    destruct (nth_error (models (rc s)) i) as [m|] eqn:En; [|exact Hinv].
    destruct (mparams m) as [|p ps] eqn:Ep; [exact Hinv|].
    assert (Hbm : bound (hh s) m).
    { rewrite Forall_forall in Hb. apply Hb. eapply nth_error_In. exact En. }
    destruct Hbm as (Hnd & Hlt & _ & _). rewrite Ep in Hnd, Hlt.
    destruct sc as [ss|].
    - destruct (sched_init ss lr) as [ss' lr'].
      eapply rebind_binding_inv; [exact Hinv|exact En| | |].
      + split; [cbn; lia|]. split; intros j Hj; cbn; try reflexivity; apply fupd_neq; lia.
      + intros y (_ & Hyo & Hys) (Hp & _ & _). split; [exact Hp|]. split; cbn.
        * intros o E E'. inversion E; subst. apply Hyo in E'. lia.
        * intros x0 E E'. inversion E; subst. apply Hys in E'. lia.
      + unfold bound. cbn [mparams mopt msched mcons hnext hp ho hs]. rewrite Ep.
        split; [exact Hnd|]. split; [eapply Forall_impl; [|exact Hlt]; cbn; intros; lia|]. split.
        * split; [lia|]. split; [discriminate|]. eexists. split; [apply fupd_eq|reflexivity].
        * split; [lia|]. eexists. split; [apply fupd_eq|reflexivity].
    - eapply rebind_binding_inv; [exact Hinv|exact En| | |].
      + split; [cbn; lia|]. split; intros j Hj; cbn; try reflexivity; apply fupd_neq; lia.
      + intros y (_ & Hyo & Hys) (Hp & _ & _). split; [exact Hp|]. split; cbn.
        * intros o E E'. inversion E; subst. apply Hyo in E'. lia.
        * discriminate.
      + unfold bound. cbn [mparams mopt msched mcons hnext hp ho hs]. rewrite Ep.
        split; [exact Hnd|]. split; [eapply Forall_impl; [|exact Hlt]; cbn; intros; lia|]. split.
        * split; [lia|]. split; [discriminate|]. eexists. split; [apply fupd_eq|reflexivity].
        * exact I.
  Qed.

  (* ------------------------------------------------------------------ the initial state *)
  Lemma init_models_inv (spec : list (list V * C)) : forall next,
    ForallOrdPairs sep (init_models next spec) /\
    Forall (fun m => mopt m = None /\ msched m = None /\ NoDup (mparams m) /\
                     forall p, In p (mparams m) -> next <= p < next + length (concat (map fst spec)))
           (init_models next spec).
  Proof.
    induction spec as [|[vs c] t IH]; intros next; cbn [init_models]; [split; constructor|].
    destruct (IH (next + length vs)) as (Hs & Hf). cbn [map fst concat]. rewrite app_length. split.
    - constructor; [|exact Hs]. rewrite Forall_forall in *. intros y Hy.
      destruct (Hf y Hy) as (Ho & Hx & _ & Hr). split; cbn [mparams mopt msched]; [|split; discriminate].
      intros p Hp Hp'. apply in_seq in Hp. apply Hr in Hp'. lia.
    - constructor.
      + cbn. split; [reflexivity|]. split; [reflexivity|]. split; [apply seq_NoDup|].
        intros p Hp. apply in_seq in Hp. lia.
      + eapply Forall_impl; [|exact Hf]. cbn. intros m (Ho & Hx & Hnd & Hr).
        repeat split; auto; apply Hr in H; lia.
  Qed.

  Lemma init_binding_inv (spec : list (list V * C)) : binding_inv (init_st spec : st V M L R C SS).
  Proof.
    destruct (init_models_inv spec 0) as (Hs & Hf). unfold binding_inv, init_st. cbn [hh rc models].
    split; [exact Hs|]. eapply Forall_impl; [|exact Hf]. cbn. intros m (Ho & Hx & Hnd & Hr).
    unfold bound. cbn [hnext]. rewrite Ho, Hx. split; [exact Hnd|]. split; [|auto].
    apply Forall_forall. intros p Hp. apply Hr in Hp. lia.
  Qed.
End Ops.
