(* C14 - proofs about nn.Module + AutoSerialize hybrid roots (model/C14_Hybrid_Model.v). *)
From QV.lib Require Import Prelude.
From QV.model Require Import C01_Model C14_Hybrid_Model.
From QV.proof Require Import C01_Proofs_Base C01_Proofs_RT C01_Proofs_Store C14_Proofs C14_Proofs_Store.
From Coq Require Import String Bool.
Local Open Scope string_scope.
Local Open Scope list_scope.

Lemma hyb_field_fst sn kv : fst (hyb_field sn kv) = fst kv.
Proof. destruct kv as [k x]. destruct x; cbn [hyb_field]; try reflexivity. destruct (mem k hyb_regs); reflexivity. Qed.

(* a skipped name is in none of the registries afterwards *)
Theorem hyb_registry_names_absent sn v m c l :
  hyb_delattr sn v = VObj m c l ->
  forall reg d, In (reg, VDict d) l -> mem reg hyb_regs = true -> forall n, In n (map fst d) -> mem n sn = false.
Proof.
  destruct v; cbn [hyb_delattr]; try discriminate. intros E. injection E as _ _ El. subst l.
  intros reg d Hin Hreg n Hn. apply in_map_iff in Hin. destruct Hin as [[k x] [Hf Hk]].
  destruct x; cbn [hyb_field] in Hf; try (injection Hf as _ Hx; discriminate Hx).
  destruct (mem k hyb_regs) eqn:Ek.
  - injection Hf as Hk' Hd. subst reg d. apply in_map_iff in Hn. destruct Hn as [e [He Hin]]. subst n.
    apply filter_In in Hin. destruct Hin as [_ Hneg]. now apply negb_true_iff in Hneg.
  - injection Hf as Hk' _. subst reg. rewrite Hreg in Ek. discriminate.
Qed.

(* and the attribute names of the loaded hybrid (as hasattr sees them) contain none of the skipped names, provided the
   plain fields do not (which load_file guarantees: prune_load) *)
Theorem hyb_attr_names_absent sn m c l :
  (forall k x, In (k, x) l -> (match x with VDict _ => mem k hyb_regs | _ => false end) = false -> mem k sn = false) ->
  forall n, In n (hyb_attr_names (hyb_delattr sn (VObj m c l))) -> mem n sn = false.
Proof.
  intros Hplain n Hn. cbn [hyb_delattr hyb_attr_names] in Hn. apply in_flat_map in Hn. destruct Hn as [[k x] [Hin Hx]].
  apply in_map_iff in Hin. destruct Hin as [[k0 x0] [Hf Hin0]].
  destruct x0; cbn [hyb_field] in Hf;
    try (injection Hf as Hk Hxx; subst k x; cbn in Hx; destruct Hx as [Hx|[]]; subst n; now apply (Hplain _ _ Hin0)).
  destruct (mem k0 hyb_regs) eqn:Ek.
  - injection Hf as Hk Hxx. subst k x. rewrite Ek in Hx. apply in_map_iff in Hx. destruct Hx as [e [He Hf]]. subst n.
    apply filter_In in Hf. destruct Hf as [_ Hneg]. now apply negb_true_iff in Hneg.
  - injection Hf as Hk Hxx. subst k x. rewrite Ek in Hx. cbn in Hx. destruct Hx as [Hx|[]]. subst n.
    apply (Hplain _ _ Hin0). exact Ek.
Qed.

(* everything else stays: entries whose name is not skipped are kept, in order; other fields are untouched *)
Theorem hyb_survivors_kept sn k d e :
  mem k hyb_regs = true -> In e d -> mem (fst e) sn = false ->
  exists d', hyb_field sn (k, VDict d) = (k, VDict d') /\ In e d'.
Proof.
  intros Hk He Hs. cbn [hyb_field]. rewrite Hk. eexists. split; [reflexivity|]. apply filter_In. split; [exact He|].
  now rewrite Hs.
Qed.

Lemma hyb_field_other sn k x : mem k hyb_regs = false -> hyb_field sn (k, x) = (k, x).
Proof. intros H. destruct x; cbn [hyb_field]; try reflexivity. now rewrite H. Qed.

Theorem hyb_delattr_nil v : hyb_delattr [] v = v.
Proof.
  destruct v as [| | | | | | | | | | | | | | |m0 c0 fl| |]; cbn [hyb_delattr]; try reflexivity. f_equal. rewrite <- (map_id fl) at 2. apply map_ext.
  intros [k x]. destruct x; cbn [hyb_field]; try reflexivity. destruct (mem k hyb_regs); [|reflexivity].
  f_equal. f_equal. apply filter_true. reflexivity.
Qed.

(* skipping twice = skipping the union; in particular the clean-up is idempotent *)
Theorem hyb_delattr_app A B v : hyb_delattr A (hyb_delattr B v) = hyb_delattr (B ++ A) v.
Proof.
  destruct v; cbn [hyb_delattr]; try reflexivity. f_equal. rewrite map_map. apply map_ext.
  intros [k x]. destruct x; cbn [hyb_field]; try reflexivity.
  destruct (mem k hyb_regs) eqn:Ek; cbn [hyb_field]; rewrite ?Ek; [|reflexivity].
  f_equal. f_equal. match goal with |- filter _ (filter _ ?d) = _ => induction d as [|e r IH] end; [reflexivity|]. cbn [filter].
  assert (Hm : mem (fst e) (B ++ A) = mem (fst e) B || mem (fst e) A) by (unfold mem; apply existsb_app).
  rewrite Hm. destruct (mem (fst e) B); cbn [negb orb filter]; [exact IH|].
  destruct (mem (fst e) A); cbn [negb]; [exact IH | now rewrite IH].
Qed.

Lemma merged_names_save usn sn st v :
  merged_names usn (save_file sn st v) = usn ++ sn.
Proof.
  unfold merged_names, save_file. f_equal.
  destruct (encode_root sn st v) as [a r s]. cbn [set_attr n_attrs].
  assert (L1 : forall (m : smap jval) k x, lookup k (set_key k x m) = Some x).
  { induction m as [|[k0 y] m IH]; intros k x; cbn [set_key lookup]; [now rewrite String.eqb_refl|].
    destruct (String.eqb k k0) eqn:E; cbn [lookup]; rewrite E; [reflexivity | apply IH]. }
  assert (L2 : forall (m : smap jval) k k' x, String.eqb k k' = false -> lookup k (set_key k' x m) = lookup k m).
  { induction m as [|[k0 y] m IH]; intros k k' x Hne; cbn [set_key lookup]; [now rewrite Hne|].
    destruct (String.eqb k' k0) eqn:E; cbn [lookup].
    - apply String.eqb_eq in E. subst k0. now rewrite Hne.
    - destruct (String.eqb k k0); [reflexivity | now apply IH]. }
  rewrite L2 by reflexivity. rewrite L1. cbn [jstrs]. induction sn as [|x r' IH]; [reflexivity|]. cbn [map flat_map app]. now rewrite IH.
Qed.

(* the general statement of C14 for a hybrid root: load(skip)(save(skip) v) is the pruned normal form with the merged
   names also removed from the registries *)
Theorem load_save_skip_hyb usn ust sn st v :
  wf_obj v = true ->
  load_file_hyb usn ust (save_file sn st v) =
  RVal (hyb_delattr (usn ++ sn)
          (prune_load (usn ++ sn) (ust ++ filter (fun t => negb (mem t ust)) st) (norm (prune_save sn st v)))).
Proof.
  intros Hwf. unfold load_file_hyb. rewrite merged_names_save. rewrite (load_save_skip usn ust sn st v Hwf). reflexivity.
Qed.

(* names at save time, at load time or both give the same hybrid (attribute-nested graphs) *)
Theorem skip_save_eq_load_hyb S v :
  wf_obj v = true -> attr_nested v = true ->
  load_file_hyb S [] (save_file [] [] v) = load_file_hyb [] [] (save_file S [] v).
Proof.
  intros Hwf Han. unfold load_file_hyb. rewrite !merged_names_save. rewrite (skip_save_eq_load S v Hwf Han).
  now rewrite app_nil_r.
Qed.

(* recorded names suffice: a plain load of a file saved with names = a load that repeats them *)
Theorem skip_recorded_save_hyb sn v :
  wf_obj v = true -> load_file_hyb [] [] (save_file sn [] v) = on_res (hyb_delattr sn) (load_file sn [] (save_file sn [] v)).
Proof.
  intros Hwf. unfold load_file_hyb. rewrite merged_names_save. cbn [app]. now rewrite (skip_recorded_save sn v Hwf).
Qed.
