(* C13 — the DFT side: over the abstract commutative ring of lib/DFT.v / lib/DFT2.v (every grid
   N1 x N2), with
     re : R -> Q     the "real part" read-out (np.real / .real) — only  re (conj z) == re z  is used
     E  : Q -> R     the character  E q = exp(2 pi i q)  used by the matrix-multiply upsampling
                     kernels, tied to the two root families by  E (z / N) = w (-z).
   Contents: the cross-correlation theorem and its shifted / swapped forms as instances of the
   library, the bridge to the Q-valued arrays the executable model works on, the convention
   theorem (phase-ramp multiplier by the returned shift reproduces the reference), what the
   two upsampling kernel products compute, and the end-to-end statements. *)
From Coq Require Import ZArith List Lia Ring Arith QArith Field.
From QV.lib Require Import Prelude FinSum DFT DFT2.
From QV.model Require Import C13_Model.
From QV.proof Require Import C13_Proofs C13_Proofs_Est C13_Proofs_Swap.
Local Close Scope Q_scope.

Section C13_DFT.
  Variable R : Type.
  Variables (rO rI : R) (radd rmul rsub : R -> R -> R) (ropp : R -> R).
  Variable Rth : ring_theory rO rI radd rmul rsub ropp (@eq R).
  Add Ring RringC13 : Rth.
  Variable conj : R -> R.
  Hypothesis Cok : conj_ok radd rmul conj.
  Variables (N1 : nat) (w1 : Z -> R) (Ninv1 : R) (N2 : nat) (w2 : Z -> R) (Ninv2 : R).
  Hypothesis Rok1 : root_ok rO rI radd rmul conj N1 w1 Ninv1.
  Hypothesis Rok2 : root_ok rO rI radd rmul conj N2 w2 Ninv2.

  Local Notation "a [+] b" := (radd a b) (at level 50, left associativity).
  Local Notation "a [*] b" := (rmul a b) (at level 40, left associativity).
  Local Notation sumn := (sumn rO radd).
  Local Notation of_nat := (of_nat rO rI radd).
  Local Notation dft2 := (dft2 rO radd rmul N1 w1 N2 w2).
  Local Notation idft2 := (idft2 rO radd rmul N1 w1 Ninv1 N2 w2 Ninv2).
  Local Notation fmul2 := (fmul2 rO radd rmul N1 w1 Ninv1 N2 w2 Ninv2).
  Local Notation sum2 := (sum2 rO radd N1 N2).
  Local Notation roll2 := (roll2 N1 N2).
  Local Notation z1 := (zidx N1).
  Local Notation z2 := (zidx N2).

  Let Npos1 : 0 < N1 := ro_pos _ _ _ _ _ _ _ _ _ Rok1.
  Let Npos2 : 0 < N2 := ro_pos _ _ _ _ _ _ _ _ _ Rok2.

  (* two images agree on the grid *)
  Definition same_on_grid (x y : nat -> nat -> R) : Prop :=
    forall n1 n2, n1 < N1 -> n2 < N2 -> x n1 n2 = y n1 n2.

  (* ---------------------------------------------------------------- cross-correlation *)
  (* xp.fft.ifft2(F_ref * xp.conj(F_im))  /  torch.fft.ifft2(G1 * G2.conj()) *)
  Definition cc_fourier (ref im : nat -> nat -> R) (j1 j2 : nat) : R :=
    idft2 (fun k1 k2 => dft2 ref k1 k2 [*] conj (dft2 im k1 k2)) j1 j2.

  (* sum_x x[x + j] conj(y[x]), indices modulo the grid *)
  Definition xcorr2 (x y : nat -> nat -> R) (j1 j2 : nat) : R :=
    sum2 (fun n1 n2 => x (z1 (Z.of_nat n1 + Z.of_nat j1)) (z2 (Z.of_nat n2 + Z.of_nat j2)) [*] conj (y n1 n2)).

  Definition acorr (x : nat -> nat -> R) : nat -> nat -> R := xcorr2 x x.

  Theorem xcorr_thm ref im j1 j2 : cc_fourier ref im j1 j2 = xcorr2 ref im j1 j2.
  Proof. unfold cc_fourier, xcorr2. apply (xcorr2_theorem Rth Cok Rok1 Rok2). Qed.

  Lemma zidx_add_zidx n a b : 0 < n -> zidx n (a + Z.of_nat (zidx n b)) = zidx n (a + b).
  Proof.
    intros Hn. unfold zidx. f_equal. rewrite Z2Nat.id by (apply Z.mod_pos_bound; lia).
    apply Zplus_mod_idemp_r.
  Qed.

  Theorem xcorr_of_shift ref im s1 s2 j1 j2 :
    same_on_grid im (roll2 s1 s2 ref) ->
    cc_fourier ref im j1 j2 = acorr ref (z1 (Z.of_nat j1 + s1)) (z2 (Z.of_nat j2 + s2)).
  Proof.
    intros Him. unfold cc_fourier.
    rewrite (idft2_ext Rth Cok Rok1 Rok2 _
               (fun k1 k2 => dft2 ref k1 k2 [*] conj (dft2 (roll2 s1 s2 ref) k1 k2))).
    2:{ intros k1 k2 _ _. f_equal. f_equal. apply (dft2_ext Rth Cok Rok1 Rok2). exact Him. }
    rewrite (xcorr2_theorem Rth Cok Rok1 Rok2), (xcorr2_of_roll Rth Cok Rok1 Rok2).
    unfold acorr, xcorr2. apply (sum2_ext Rth Cok Rok1 Rok2). intros n1 n2 _ _.
    rewrite (zidx_add_zidx _ _ _ Npos1), (zidx_add_zidx _ _ _ Npos2). reflexivity.
  Qed.

  Lemma conj_sum2 f : conj (sum2 f) = sum2 (fun i j => conj (f i j)).
  Proof.
    unfold DFT2.sum2. rewrite (conj_sumn Rth Cok). apply (sumn_ext Rth). intros i _.
    apply (conj_sumn Rth Cok).
  Qed.

  (* swapping the two signals conjugates and point-reflects the correlation *)
  Theorem xcorr_swap x y j1 j2 :
    xcorr2 y x j1 j2 = conj (xcorr2 x y (z1 (- Z.of_nat j1)) (z2 (- Z.of_nat j2))).
  Proof.
    unfold xcorr2. rewrite conj_sum2.
    set (g := fun m1 m2 : nat =>
                y (z1 (Z.of_nat m1 + Z.of_nat j1)) (z2 (Z.of_nat m2 + Z.of_nat j2))
                [*] conj (x (z1 (Z.of_nat m1)) (z2 (Z.of_nat m2)))).
    transitivity (sum2 g).
    { apply (sum2_ext Rth Cok Rok1 Rok2). intros n1 n2 H1 H2. unfold g.
      rewrite (zidx_small Rth Cok Rok1 n1 H1), (zidx_small Rth Cok Rok2 n2 H2). reflexivity. }
    rewrite <- (sum2_roll2 Rth Cok Rok1 Rok2 (Z.of_nat j1) (Z.of_nat j2) g).
    apply (sum2_ext Rth Cok Rok1 Rok2). intros n1 n2 H1 H2. unfold DFT2.roll2, g.
    rewrite (conj_mul _ _ _ _ Cok), (conj_invol _ _ _ _ Cok).
    assert (A1 : z1 (Z.of_nat (z1 (Z.of_nat n1 - Z.of_nat j1)) + Z.of_nat j1) = n1).
    { replace (Z.of_nat (z1 (Z.of_nat n1 - Z.of_nat j1)) + Z.of_nat j1)%Z
        with (Z.of_nat j1 + Z.of_nat (z1 (Z.of_nat n1 - Z.of_nat j1)))%Z by lia.
      rewrite (zidx_add_zidx _ _ _ Npos1).
      replace (Z.of_nat j1 + (Z.of_nat n1 - Z.of_nat j1))%Z with (Z.of_nat n1) by lia.
      apply (zidx_small Rth Cok Rok1 n1 H1). }
    assert (A2 : z2 (Z.of_nat (z2 (Z.of_nat n2 - Z.of_nat j2)) + Z.of_nat j2) = n2).
    { replace (Z.of_nat (z2 (Z.of_nat n2 - Z.of_nat j2)) + Z.of_nat j2)%Z
        with (Z.of_nat j2 + Z.of_nat (z2 (Z.of_nat n2 - Z.of_nat j2)))%Z by lia.
      rewrite (zidx_add_zidx _ _ _ Npos2).
      replace (Z.of_nat j2 + (Z.of_nat n2 - Z.of_nat j2))%Z with (Z.of_nat n2) by lia.
      apply (zidx_small Rth Cok Rok2 n2 H2). }
    assert (B1 : z1 (Z.of_nat (z1 (Z.of_nat n1 - Z.of_nat j1))) = z1 (Z.of_nat n1 + Z.of_nat (z1 (- Z.of_nat j1)))).
    { rewrite (zidx_add_zidx _ _ _ Npos1).
      replace (Z.of_nat (z1 (Z.of_nat n1 - Z.of_nat j1))) with (0 + Z.of_nat (z1 (Z.of_nat n1 - Z.of_nat j1)))%Z by lia.
      rewrite (zidx_add_zidx _ _ _ Npos1). f_equal; lia. }
    assert (B2 : z2 (Z.of_nat (z2 (Z.of_nat n2 - Z.of_nat j2))) = z2 (Z.of_nat n2 + Z.of_nat (z2 (- Z.of_nat j2)))).
    { rewrite (zidx_add_zidx _ _ _ Npos2).
      replace (Z.of_nat (z2 (Z.of_nat n2 - Z.of_nat j2))) with (0 + Z.of_nat (z2 (Z.of_nat n2 - Z.of_nat j2)))%Z by lia.
      rewrite (zidx_add_zidx _ _ _ Npos2). f_equal; lia. }
    rewrite A1, A2, B1, B2. ring.
  Qed.

  Theorem acorr_herm x j1 j2 :
    acorr x (z1 (- Z.of_nat j1)) (z2 (- Z.of_nat j2)) = conj (acorr x j1 j2).
  Proof.
    unfold acorr. rewrite (xcorr_swap x x j1 j2), (conj_invol _ _ _ _ Cok). reflexivity.
  Qed.

  (* ---------------------------------------------------------------- convention theorem *)
  (* the aligned image: F_im * exp(-2 pi i (kx t1 + ky t2)) with kx = fftfreq(N1)[k1] = fz N1 k1 / N1;
     for an integer t the ramp is w1 (fz k1 * t1) * w2 (fz k2 * t2) *)
  Definition ramp (t1 t2 : Z) (k1 k2 : nat) : R := w1 (fz N1 k1 * t1)%Z [*] w2 (fz N2 k2 * t2)%Z.

  Lemma zidx_sub_multiple n a d : 0 < n -> a < n -> (d mod Z.of_nat n = 0)%Z -> zidx n (Z.of_nat a - d) = a.
  Proof.
    intros Hn Ha Hd. unfold zidx.
    rewrite Zminus_mod, Hd, Z.sub_0_r, Z.mod_mod by lia. rewrite Z.mod_small by lia. apply Nat2Z.id.
  Qed.

  Theorem shift_reproduces_first ref im s1 s2 t1 t2 n1 n2 :
    same_on_grid im (roll2 s1 s2 ref) ->
    ((t1 + s1) mod Z.of_nat N1 = 0)%Z -> ((t2 + s2) mod Z.of_nat N2 = 0)%Z ->
    n1 < N1 -> n2 < N2 ->
    fmul2 (ramp t1 t2) im n1 n2 = ref n1 n2.
  Proof.
    intros Him H1 H2 Hn1 Hn2.
    rewrite (fmul2_ext Rth Cok Rok1 Rok2 (ramp t1 t2)
               (fun k1 k2 => w1 (Z.of_nat k1 * t1)%Z [*] w2 (Z.of_nat k2 * t2)%Z) im (roll2 s1 s2 ref)).
    - rewrite (fmul2_ramp_is_roll2 Rth Cok Rok1 Rok2) by assumption.
      rewrite (roll2_roll2 Rth Cok Rok1 Rok2). unfold DFT2.roll2.
      rewrite (zidx_sub_multiple _ _ _ Npos1 Hn1 H1), (zidx_sub_multiple _ _ _ Npos2 Hn2 H2). reflexivity.
    - intros k1 k2 _ _. unfold ramp. f_equal.
      + apply (w_periodic Rth Cok Rok1). rewrite Zmult_mod, (fz_cong _ Npos1), <- Zmult_mod. reflexivity.
      + apply (w_periodic Rth Cok Rok2). rewrite Zmult_mod, (fz_cong _ Npos2), <- Zmult_mod. reflexivity.
    - exact Him.
  Qed.

  (* ---------------------------------------------------------------- bridge to the Q model *)
  Variable re : R -> Q.
  Hypothesis re_conj : forall z, (re (conj z) == re z)%Q.

  (* cc_real = real(ifft2(F_ref conj F_im)) *)
  Definition ccQ (ref im : nat -> nat -> R) : nat -> nat -> Q := fun k l => re (cc_fourier ref im k l).
  Definition acorrQ (x : nat -> nat -> R) : nat -> nat -> Q := fun k l => re (acorr x k l).

  Lemma ccQ_shifted ref im s1 s2 :
    same_on_grid im (roll2 s1 s2 ref) -> shifted_of N1 N2 s1 s2 (acorrQ ref) (ccQ ref im).
  Proof.
    intros Him k l _ _. unfold ccQ, acorrQ. rewrite (xcorr_of_shift ref im s1 s2 k l Him). reflexivity.
  Qed.

  Lemma acorrQ_psym x : psym N1 N2 (acorrQ x).
  Proof.
    intros k l _ _. unfold acorrQ.
    change (wrapi N1 (- Z.of_nat k)) with (z1 (- Z.of_nat k)).
    change (wrapi N2 (- Z.of_nat l)) with (z2 (- Z.of_nat l)).
    rewrite acorr_herm, re_conj. reflexivity.
  Qed.

  Lemma ccQ_reflected ref im : reflected_of N1 N2 (ccQ ref im) (ccQ im ref).
  Proof.
    intros k l _ _. unfold ccQ, negi. rewrite !xcorr_thm.
    change (wrapi N1 (- Z.of_nat k)) with (z1 (- Z.of_nat k)).
    change (wrapi N2 (- Z.of_nat l)) with (z2 (- Z.of_nat l)).
    rewrite (xcorr_swap ref im k l), re_conj. reflexivity.
  Qed.

  (* ---------------------------------------------------------------- end to end: integer shifts *)
  Theorem registration_integer_numpy ref im s1 s2 ms up ups :
    2 <= N1 -> 2 <= N2 ->
    same_on_grid im (roll2 s1 s2 ref) ->
    uniq_max N1 N2 (acorrQ ref) 0 0 ->
    admits N1 N2 ms (ccQ ref im) (wrapi N1 (- s1)) (wrapi N2 (- s2)) ->
    (2 <= up -> forall x y, (x == qN (wrapi N1 (- s1)))%Q -> (y == qN (wrapi N2 (- s2)))%Q ->
                win_centred (np_win up) (du up) (ups x y)) ->
    exists a b, np_shift N1 N2 ms up (ccQ ref im) ups = Some (a, b) /\
      exists t1 t2 : Z,
        (a == inject_Z t1)%Q /\ (b == inject_Z t2)%Q /\
        (- Z.of_nat N1 <= 2 * t1 < Z.of_nat N1)%Z /\ (- Z.of_nat N2 <= 2 * t2 < Z.of_nat N2)%Z /\
        ((t1 + s1) mod Z.of_nat N1 = 0)%Z /\ ((t2 + s2) mod Z.of_nat N2 = 0)%Z /\
        forall n1 n2, n1 < N1 -> n2 < N2 -> fmul2 (ramp t1 t2) im n1 n2 = ref n1 n2.
  Proof.
    intros H1 H2 Him Hu Ha Hw.
    destruct (@np_integer_shift N1 N2 ms up (acorrQ ref) (ccQ ref im) ups s1 s2 H1 H2 Hu
                (acorrQ_psym ref) (ccQ_shifted ref im s1 s2 Him) Ha Hw)
      as (a & b & E & t1 & t2 & Ea & Eb & R1 & R2 & C1 & C2).
    exists a, b. split; [exact E|]. exists t1, t2. repeat (split; [assumption|]).
    intros n1 n2 Hn1 Hn2. apply (shift_reproduces_first ref im s1 s2 t1 t2 n1 n2); assumption.
  Qed.

  Theorem registration_integer_torch ref im s1 s2 up ups :
    2 <= N1 -> 2 <= N2 ->
    same_on_grid im (roll2 s1 s2 ref) ->
    uniq_max N1 N2 (acorrQ ref) 0 0 ->
    (3 <= up -> forall cx cy,
        (cx == qN (t_gs up) - qN up * qN (wrapi N1 (- s1)))%Q ->
        (cy == qN (t_gs up) - qN up * qN (wrapi N2 (- s2)))%Q ->
        win_centred (t_win up) (t_gs up) (ups cx cy)) ->
    exists a b, torch_shift N1 N2 up (ccQ ref im) ups = Some (a, b) /\
      exists t1 t2 : Z,
        (a == inject_Z t1)%Q /\ (b == inject_Z t2)%Q /\
        (- Z.of_nat N1 <= 2 * t1 < Z.of_nat N1)%Z /\ (- Z.of_nat N2 <= 2 * t2 < Z.of_nat N2)%Z /\
        ((t1 + s1) mod Z.of_nat N1 = 0)%Z /\ ((t2 + s2) mod Z.of_nat N2 = 0)%Z /\
        forall n1 n2, n1 < N1 -> n2 < N2 -> fmul2 (ramp t1 t2) im n1 n2 = ref n1 n2.
  Proof.
    intros H1 H2 Him Hu Hw.
    destruct (@torch_integer_shift N1 N2 up (acorrQ ref) (ccQ ref im) ups s1 s2 H1 H2 Hu
                (acorrQ_psym ref) (ccQ_shifted ref im s1 s2 Him) Hw)
      as (a & b & E & t1 & t2 & Ea & Eb & R1 & R2 & C1 & C2).
    exists a, b. split; [exact E|]. exists t1, t2. repeat (split; [assumption|]).
    intros n1 n2 Hn1 Hn2. apply (shift_reproduces_first ref im s1 s2 t1 t2 n1 n2); assumption.
  Qed.

  (* ---------------------------------------------------------------- end to end: identical images *)
  Lemma same_roll0 ref im : same_on_grid im ref -> same_on_grid im (roll2 0%Z 0%Z ref).
  Proof.
    intros H n1 n2 H1 H2. rewrite (roll2_0 Rth Cok Rok1 Rok2) by assumption. apply H; assumption.
  Qed.

  Theorem registration_identical_numpy ref im ms up ups :
    2 <= N1 -> 2 <= N2 ->
    same_on_grid im ref ->
    uniq_max N1 N2 (acorrQ ref) 0 0 ->
    (match ms with None => True | Some m => (0 < m * m)%Q end) ->
    (2 <= up -> forall x y, (x == 0)%Q -> (y == 0)%Q -> win_centred (np_win up) (du up) (ups x y)) ->
    exists a b, np_shift N1 N2 ms up (ccQ ref im) ups = Some (a, b) /\ (a == 0)%Q /\ (b == 0)%Q.
  Proof.
    intros H1 H2 Him Hu Ha Hw.
    pose proof (ccQ_shifted ref im 0 0 (same_roll0 ref im Him)) as Hs.
    assert (W1 : wrapi N1 (- 0) = 0) by (apply wrapi_0; lia).
    assert (W2 : wrapi N2 (- 0) = 0) by (apply wrapi_0; lia).
    assert (C00 : (ccQ ref im 0 0 == acorrQ ref 0 0)%Q).
    { rewrite (Hs 0 0 Npos1 Npos2). cbn [Z.of_nat Z.add]. rewrite (wrapi_0 Npos1), (wrapi_0 Npos2). reflexivity. }
    destruct (@np_integer_shift N1 N2 ms up (acorrQ ref) (ccQ ref im) ups 0 0 H1 H2 Hu
                (acorrQ_psym ref) Hs) as (a & b & E & U).
    - rewrite W1, W2. destruct ms as [m|]; cbn [admits]; [|exact I].
      assert (F1 : fz N1 0 = 0%Z) by (unfold fz; destruct (2 * Z.of_nat 0 <? Z.of_nat N1)%Z eqn:E; [reflexivity | lia]).
      assert (F2 : fz N2 0 = 0%Z) by (unfold fz; destruct (2 * Z.of_nat 0 <? Z.of_nat N2)%Z eqn:E; [reflexivity | lia]).
      rewrite F1, F2. exact Ha.
    - rewrite W1, W2. exact Hw.
    - exists a, b. split; [exact E|]. apply (@undoes_zero N1 N2 a b); [lia | lia | exact U].
  Qed.

  Theorem registration_identical_torch ref im up ups :
    2 <= N1 -> 2 <= N2 ->
    same_on_grid im ref ->
    uniq_max N1 N2 (acorrQ ref) 0 0 ->
    (3 <= up -> forall cx cy, (cx == qN (t_gs up))%Q -> (cy == qN (t_gs up))%Q ->
                win_centred (t_win up) (t_gs up) (ups cx cy)) ->
    exists a b, torch_shift N1 N2 up (ccQ ref im) ups = Some (a, b) /\ (a == 0)%Q /\ (b == 0)%Q.
  Proof.
    intros H1 H2 Him Hu Hw.
    pose proof (ccQ_shifted ref im 0 0 (same_roll0 ref im Him)) as Hs.
    assert (W1 : wrapi N1 (- 0) = 0) by (apply wrapi_0; lia).
    assert (W2 : wrapi N2 (- 0) = 0) by (apply wrapi_0; lia).
    destruct (@torch_integer_shift N1 N2 up (acorrQ ref) (ccQ ref im) ups 0 0 H1 H2 Hu
                (acorrQ_psym ref) Hs) as (a & b & E & U).
    - rewrite W1, W2. intros H3 cx cy Ex Ey. apply Hw; auto; rewrite ?Ex, ?Ey; unfold qN at 3; cbn; ring.
    - exists a, b. split; [exact E|]. apply (@undoes_zero N1 N2 a b); [lia | lia | exact U].
  Qed.

  (* ---------------------------------------------------------------- end to end: swapped images *)
  Theorem registration_swap_numpy ref im up ups ups' p q :
    2 <= N1 -> 2 <= N2 ->
    uniq_max N1 N2 (ccQ ref im) p q ->
    (2 <= up -> windows_swap N1 N2 up ups ups' /\
                forall x y, exists lx ly, uniq_max (np_win up) (np_win up) (ups x y) lx ly) ->
    exists a b a' b',
      np_shift N1 N2 None up (ccQ ref im) ups = Some (a, b) /\
      np_shift N1 N2 None up (ccQ im ref) ups' = Some (a', b') /\
      neg_mod N1 a a' /\ neg_mod N2 b b'.
  Proof.
    intros H1 H2 Hu Hw.
    exact (@np_swap_negates N1 N2 up (ccQ ref im) (ccQ im ref) ups ups' p q H1 H2 Hu (ccQ_reflected ref im) Hw).
  Qed.

  Theorem registration_swap_torch ref im up ups ups' p q :
    2 <= N1 -> 2 <= N2 -> up <= 2 ->
    uniq_max N1 N2 (ccQ ref im) p q ->
    exists a b a' b',
      torch_shift N1 N2 up (ccQ ref im) ups = Some (a, b) /\
      torch_shift N1 N2 up (ccQ im ref) ups' = Some (a', b') /\
      neg_mod N1 a a' /\ neg_mod N2 b b'.
  Proof.
    intros H1 H2 Hup Hu.
    exact (@torch_swap_negates N1 N2 up (ccQ ref im) (ccQ im ref) ups ups' p q H1 H2 Hup Hu (ccQ_reflected ref im)).
  Qed.

  (* ---------------------------------------------------------------- the upsampling kernels *)
  Variable E : Q -> R.
  Hypothesis E_ext : forall p q : Q, (p == q)%Q -> E p = E q.
  Hypothesis E_conj : forall q : Q, conj (E q) = E (- q)%Q.
  Hypothesis E_w1 : forall z : Z, E (inject_Z z / qN N1)%Q = w1 (- z)%Z.
  Hypothesis E_w2 : forall z : Z, E (inject_Z z / qN N2)%Q = w2 (- z)%Z.

  (* the band-limited (signed-frequency) trigonometric interpolant of idft2 F at the real
     position (X, Y), in pixels *)
  Definition interp (F : nat -> nat -> R) (X Y : Q) : R :=
    Ninv1 [*] Ninv2 [*]
    sum2 (fun k l => F k l [*] E (inject_Z (np_freq N1 k) * X / qN N1)%Q
                           [*] E (inject_Z (np_freq N2 l) * Y / qN N2)%Q).

  (* (kern_row @ F @ kern_col)[a, b] for kernels with entries E(phase) *)
  Definition kernel_product (F : nat -> nat -> R) (ph1 ph2 : nat -> nat -> Q) (a b : nat) : R :=
    sumn N1 (fun k => E (ph1 a k) [*] sumn N2 (fun l => F k l [*] E (ph2 b l))).

  Lemma kernel_product_interp F ph1 ph2 X Y a b :
    (forall k, (ph1 a k == inject_Z (np_freq N1 k) * X / qN N1)%Q) ->
    (forall l, (ph2 b l == inject_Z (np_freq N2 l) * Y / qN N2)%Q) ->
    kernel_product F ph1 ph2 a b = of_nat N1 [*] of_nat N2 [*] interp F X Y.
  Proof.
    intros H1 H2. unfold kernel_product, interp.
    match goal with |- _ = _ [*] _ [*] (_ [*] _ [*] ?S) =>
      transitivity (((Ninv1 [*] Ninv2) [*] (of_nat N1 [*] of_nat N2)) [*] S); [|ring] end.
    rewrite (NN_inv Rth Cok Rok1 Rok2).
    match goal with |- _ = rI [*] ?S => transitivity S; [|ring] end.
    unfold DFT2.sum2. apply (sumn_ext Rth). intros k _.
    rewrite <- (sumn_scale_l Rth). apply (sumn_ext Rth). intros l _.
    rewrite (E_ext _ _ (H1 k)), (E_ext _ _ (H2 l)). ring.
  Qed.

  Lemma np_kern_phase_coord n up x0 a k :
    0 < n -> 0 < up ->
    (np_kern_phase n up x0 a k == inject_Z (np_freq n k) * np_coord up x0 a / qN n)%Q.
  Proof.
    intros Hn Hup. unfold np_kern_phase, np_coord. field. split; apply qN_neq0; assumption.
  Qed.

  (* NumPy (repaired kernels): local[a, b] = M N * interpolant at (x0 + (a - du)/up, y0 + (b - du)/up) *)
  Theorem np_upsample_samples_interpolant F up x0 y0 a b :
    0 < up ->
    kernel_product F (np_kern_phase N1 up x0) (np_kern_phase N2 up y0) a b
    = of_nat N1 [*] of_nat N2 [*] interp F (np_coord up x0 a) (np_coord up y0 b).
  Proof.
    intros Hup. apply kernel_product_interp; intros; apply np_kern_phase_coord; assumption.
  Qed.

  (* torch: dftUpsample_torch is applied to conj(cc) with kernels exp(-2 pi i ...) and the result
     is conjugated again: conj (kernel_product (conj F) ...) *)
  Lemma conj_kernel_product F ph1 ph2 a b :
    conj (kernel_product (fun k l => conj (F k l)) ph1 ph2 a b)
    = kernel_product F (fun a k => - ph1 a k)%Q (fun b l => - ph2 b l)%Q a b.
  Proof.
    unfold kernel_product. rewrite (conj_sumn Rth Cok). apply (sumn_ext Rth). intros k _.
    rewrite (conj_mul _ _ _ _ Cok), (conj_sumn Rth Cok), E_conj. f_equal.
    apply (sumn_ext Rth). intros l _.
    rewrite (conj_mul _ _ _ _ Cok), (conj_invol _ _ _ _ Cok), E_conj. reflexivity.
  Qed.

  Lemma t_kern_phase_coord n up ctr a k :
    0 < n -> 0 < up ->
    (- t_kern_phase n up ctr a k == inject_Z (np_freq n k) * t_coord up ctr a / qN n)%Q.
  Proof.
    intros Hn Hup. unfold t_kern_phase, t_coord. field. split; apply qN_neq0; assumption.
  Qed.

  Theorem torch_upsample_samples_interpolant F up c1 c2 a b :
    0 < up ->
    conj (kernel_product (fun k l => conj (F k l)) (t_kern_phase N1 up c1) (t_kern_phase N2 up c2) a b)
    = of_nat N1 [*] of_nat N2 [*] interp F (t_coord up c1 a) (t_coord up c2 b).
  Proof.
    intros Hup. rewrite conj_kernel_product.
    apply kernel_product_interp; intros; apply t_kern_phase_coord; assumption.
  Qed.

  (* at integer positions the interpolant is the correlation array itself *)

  Theorem interp_at_grid F (X Y : Q) (n1 n2 : Z) :
    (X == inject_Z n1)%Q -> (Y == inject_Z n2)%Q ->
    interp F X Y = idft2 F (z1 n1) (z2 n2).
  Proof.
    clear re re_conj E_conj.
    intros EX EY. unfold interp. rewrite (idft2_sum2 Rth Cok Rok1 Rok2). f_equal.
    apply (sum2_ext Rth Cok Rok1 Rok2). intros k l _ _. f_equal; [f_equal|].
    - rewrite (E_ext _ (inject_Z (np_freq N1 k * n1) / qN N1)%Q)
        by (rewrite EX, inject_Z_mult; reflexivity).
      rewrite E_w1. apply (w_periodic Rth Cok Rok1).
      rewrite (zidx_mod Rth Cok Rok1).
      rewrite <- !Z.mul_opp_l.
      rewrite Zmult_mod, (Zmult_mod (- Z.of_nat k)), Z.mod_mod by lia.
      f_equal. f_equal.
      rewrite <- (Z.sub_0_l (np_freq N1 k)), <- (Z.sub_0_l (Z.of_nat k)).
      rewrite Zminus_mod, (np_freq_cong _ Npos1), <- Zminus_mod. reflexivity.
    - rewrite (E_ext _ (inject_Z (np_freq N2 l * n2) / qN N2)%Q)
        by (rewrite EY, inject_Z_mult; reflexivity).
      rewrite E_w2. apply (w_periodic Rth Cok Rok2).
      rewrite (zidx_mod Rth Cok Rok2).
      rewrite <- !Z.mul_opp_l.
      rewrite Zmult_mod, (Zmult_mod (- Z.of_nat l)), Z.mod_mod by lia.
      f_equal. f_equal.
      rewrite <- (Z.sub_0_l (np_freq N2 l)), <- (Z.sub_0_l (Z.of_nat l)).
      rewrite Zminus_mod, (np_freq_cong _ Npos2), <- Zminus_mod. reflexivity.
  Qed.

  (* hence: window samples that fall on whole pixels are (M N times) the correlation samples;
     in particular the centre sample a = du of a window placed on an integer peak *)
  Theorem np_window_on_grid F up x0 y0 a b (n1 n2 : Z) :
    0 < up ->
    (np_coord up x0 a == inject_Z n1)%Q -> (np_coord up y0 b == inject_Z n2)%Q ->
    kernel_product F (np_kern_phase N1 up x0) (np_kern_phase N2 up y0) a b
    = of_nat N1 [*] of_nat N2 [*] idft2 F (z1 n1) (z2 n2).
  Proof.
    intros Hup E1 E2. rewrite (np_upsample_samples_interpolant F up x0 y0 a b Hup).
    f_equal. apply interp_at_grid; assumption.
  Qed.
End C13_DFT.

(* torch window coordinates: with upsampleCenter = globalShift - up * xs the sample a sits at
   xs + (a - globalShift)/up *)
Lemma t_coord_center up xs a :
  0 < up -> (t_coord up (t_center up xs) a == xs + inject_Z (Z.of_nat a - Z.of_nat (t_gs up)) / qN up)%Q.
Proof.
  intros Hup. unfold t_coord, t_center, qN. rewrite inject_Z_minus. field.
  apply (qN_neq0 Hup).
Qed.

(* numpy window coordinates at the centre and one upsampled pixel apart *)
Lemma np_coord_centre up x0 : 0 < up -> (np_coord up x0 (du up) == x0)%Q.
Proof.
  intros Hup. unfold np_coord, np_row. rewrite Z.sub_diag. change (inject_Z 0) with 0%Q.
  field. apply (qN_neq0 Hup).
Qed.

Lemma np_coord_step up x0 a : 0 < up -> (np_coord up x0 (S a) - np_coord up x0 a == 1 / qN up)%Q.
Proof.
  intros Hup. unfold np_coord, np_row. rewrite Nat2Z.inj_succ.
  replace (Z.succ (Z.of_nat a) - Z.of_nat (du up))%Z with ((Z.of_nat a - Z.of_nat (du up)) + 1)%Z by lia.
  rewrite inject_Z_plus. change (inject_Z 1) with 1%Q. field. apply (qN_neq0 Hup).
Qed.
