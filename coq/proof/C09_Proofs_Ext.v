(* C09 — proofs about the extended model (model/C09_Model_Ext.v). *)
From QV.lib Require Import Prelude Chunks FloatBits.
From QV.model Require Import C09_Model C09_Model_Ext.
From QV.proof Require Import C09_Proofs.
From Coq Require Import QArith PrimFloat Permutation.
Local Close Scope Q_scope.
Set Implicit Arguments.

(* ================================================================== 1. RNGMixin *)
Definition no_set (ops : list rop) : Prop := Forall (fun o => is_set o = false) ops.

Lemma gen_of_int_tok tok tok' s : gen_of_arg tok (ArgInt s) = gen_of_arg tok' (ArgInt s).
Proof. reflexivity. Qed.

Lemma step_keeps_seed tok o st : is_set o = false -> r_seed (step_rng tok o st) = r_seed st.
Proof.
  destruct o as [a|d|d| |dev]; cbn [is_set step_rng]; intros H; try discriminate; try reflexivity.
  unfold reset_rng. destruct (r_seed st) as [s|] eqn:E; [reflexivity | exact E].
Qed.

Lemma run_keeps_seed ops : forall tok st, no_set ops -> r_seed (run_rng tok ops st) = r_seed st.
Proof.
  induction ops as [|o ops IH]; intros tok st H; cbn [run_rng]; [reflexivity|].
  inversion H as [|? ? Ho Hr]; subst. rewrite IH by exact Hr. apply step_keeps_seed. exact Ho.
Qed.

(* _reset_rng with a seed: the core state (seed, numpy generator, torch generator) a fresh
   RNGMixin(rng=seed) has — whatever was drawn, whatever device changes happened *)
Lemma reset_core_of_seed tok st s :
  r_seed st = Some s -> rng_core (reset_rng tok st) = rng_core (init_rng 0 0 (ArgInt s)).
Proof. intros H. unfold reset_rng. rewrite H. reflexivity. Qed.

Theorem rng_reset_restores dev tok0 tok tok' ops a s :
  seed_of_arg a = Some s -> no_set ops ->
  rng_core (reset_rng tok' (run_rng tok ops (init_rng dev tok0 a))) = rng_core (init_rng dev tok0 (ArgInt s)).
Proof.
  intros Ha Hn. rewrite (@reset_core_of_seed tok' _ s); [reflexivity|].
  rewrite run_keeps_seed by exact Hn. exact Ha.
Qed.

(* a step depends on the state only through its core (not the device label, not the op number
   unless the op is a setter) *)
Lemma step_core tok1 tok2 o st1 st2 :
  is_set o = false -> rng_core st1 = rng_core st2 ->
  rng_core (step_rng tok1 o st1) = rng_core (step_rng tok2 o st2).
Proof.
  destruct st1 as [sd1 g1 t1 d1], st2 as [sd2 g2 t2 d2]. unfold rng_core. cbn [r_seed r_np r_torch].
  intros Ho H. injection H as -> -> ->.
  destruct o as [a|d|d| |dev]; cbn [is_set] in Ho; try discriminate; try reflexivity.
  cbn [step_rng]. unfold reset_rng. cbn [r_seed]. destruct sd2; reflexivity.
Qed.

Lemma draws_core ops : forall tok1 tok2 st1 st2,
  no_set ops -> rng_core st1 = rng_core st2 ->
  draws_rng tok1 ops st1 = draws_rng tok2 ops st2 /\
  rng_core (run_rng tok1 ops st1) = rng_core (run_rng tok2 ops st2).
Proof.
  induction ops as [|o ops IH]; intros tok1 tok2 st1 st2 Hn Hc; cbn [draws_rng run_rng]; [split; [reflexivity | exact Hc]|].
  inversion Hn as [|? ? Ho Hr]; subst.
  pose proof (@step_core tok1 tok2 o st1 st2 Ho Hc) as Hs.
  destruct (IH (S tok1) (S tok2) _ _ Hr Hs) as [Hd Hrun]. split; [|exact Hrun].
  assert (Hnp : r_np st1 = r_np st2) by (unfold rng_core in Hc; congruence).
  assert (Ht : r_torch st1 = r_torch st2) by (unfold rng_core in Hc; congruence).
  destruct o; rewrite ?Hnp, ?Ht, Hd; reflexivity.
Qed.

(* two runs from the same seed consume the same draws (same generator, same stream, same
   position, same label), whatever the device label and the numbering of the operations *)
Theorem rng_same_seed_same_draws dev1 dev2 tok1 tok2 t1 t2 a1 a2 s ops :
  seed_of_arg a1 = Some s -> seed_of_arg a2 = Some s ->
  gen_of_arg t1 a1 = gen_of_arg t2 a2 -> no_set ops ->
  draws_rng tok1 ops (init_rng dev1 t1 a1) = draws_rng tok2 ops (init_rng dev2 t2 a2).
Proof.
  intros H1 H2 Hg Hn. apply draws_core; [exact Hn|].
  unfold rng_core, init_rng. cbn [r_seed r_np r_torch]. rewrite H1, H2, Hg. reflexivity.
Qed.

(* the same run after a reset: the draws of `ops` after (anything; reset) are the draws of
   `ops` from the freshly seeded state *)
Theorem rng_reset_same_draws dev tok0 tok tok' tok1 tok2 pre ops s :
  no_set pre -> no_set ops ->
  draws_rng tok1 ops (reset_rng tok' (run_rng tok pre (init_rng dev tok0 (ArgInt s))))
  = draws_rng tok2 ops (init_rng dev tok0 (ArgInt s)).
Proof.
  intros Hp Hn. apply draws_core; [exact Hn|].
  apply rng_reset_restores; [reflexivity | exact Hp].
Qed.

(* a Generator handed over: reset re-seeds from its entropy, so the state after reset is the
   initial one exactly when nothing had been drawn from the generator before *)
Theorem rng_reset_generator_iff_fresh dev tok0 tok e h :
  rng_core (reset_rng tok (init_rng dev tok0 (ArgGen e h))) = rng_core (init_rng dev tok0 (ArgGen e h)) <-> h = [].
Proof.
  unfold reset_rng, init_rng, rng_core. cbn. split.
  - intros H. injection H as H. symmetry. exact H.
  - intros ->. reflexivity.
Qed.

(* a fresh Generator(seed) and the integer seed give the same state *)
Theorem rng_gen_fresh_eq_int dev tok0 e : init_rng dev tok0 (ArgGen e []) = init_rng dev tok0 (ArgInt e).
Proof. reflexivity. Qed.

(* no seed: reset does nothing (the stream goes on) *)
Theorem rng_reset_none_id tok st : r_seed st = None -> reset_rng tok st = st.
Proof. intros H. unfold reset_rng. rewrite H. reflexivity. Qed.

Theorem rng_reset_idempotent tok tok' st :
  rng_core (reset_rng tok' (reset_rng tok st)) = rng_core (reset_rng tok st).
Proof.
  destruct (r_seed st) as [s|] eqn:E.
  - assert (E' : r_seed (reset_rng tok st) = Some s) by (unfold reset_rng; rewrite E; reflexivity).
    rewrite (@reset_core_of_seed tok' _ s E'), (@reset_core_of_seed tok _ s E). reflexivity.
  - rewrite (@rng_reset_none_id tok st E). rewrite (@rng_reset_none_id tok' st E). reflexivity.
Qed.

(* moving to a device rebuilds the torch generator from the seed and leaves numpy alone *)
Theorem rng_to_device_spec dev st :
  r_np (rng_to_device dev st) = r_np st /\ r_seed (rng_to_device dev st) = r_seed st /\
  r_torch (rng_to_device dev st) = torch_of_seed (r_seed st) /\ r_dev (rng_to_device dev st) = dev.
Proof. repeat split. Qed.

Lemma rng_after_draws ds : forall st,
  g_hist (r_np (fold_left (fun s d => draw_np d s) ds st)) = g_hist (r_np st) ++ ds /\
  g_stream (r_np (fold_left (fun s d => draw_np d s) ds st)) = g_stream (r_np st) /\
  r_seed (fold_left (fun s d => draw_np d s) ds st) = r_seed st /\
  r_torch (fold_left (fun s d => draw_np d s) ds st) = r_torch st.
Proof.
  induction ds as [|d ds IH]; intros st; cbn [fold_left].
  - rewrite app_nil_r. repeat split.
  - destruct (IH (draw_np d st)) as [H1 [H2 [H3 H4]]]. rewrite H1, H2, H3, H4.
    cbn [draw_np r_np g_hist g_stream r_seed r_torch]. rewrite <- app_assoc. repeat split.
Qed.

(* ================================================================== 4. glue *)
Lemma to_nat_max1 z : Z.to_nat (Z.max 1 z) = kz z.
Proof. unfold kz. lia. Qed.

Theorem split_of_glue_eq n ratio random perm :
  split_of_glue n ratio random perm = split_of_ratio n ratio random perm.
Proof.
  unfold split_of_glue, split_of_ratio, glue_ratio, glue_nval, glue_invert, glue_k_lo, glue_k_hi.
  set (r := if (PrimFloat.ltb ratio 0 || PrimFloat.leb 1 ratio)%bool then 0%float else ratio).
  destruct (py_round (PrimFloat.mul (float_of_Z (Z.of_nat n)) r)) as [nv|]; [|reflexivity].
  destruct (Z.ltb_spec 0 nv) as [Hp|Hp]; destruct (Z.leb_spec nv 0) as [Hq|Hq]; try lia; [|reflexivity].
  destruct random; [reflexivity|].
  destruct (PrimFloat.leb r 0.5) eqn:El; cbn [negb].
  - destruct (py_round (PrimFloat.div 1 r)) as [k|]; cbn [option_map]; [|reflexivity].
    rewrite to_nat_max1. reflexivity.
  - destruct (py_round (PrimFloat.div 1 (PrimFloat.sub 1 r))) as [k|]; cbn [option_map]; [|reflexivity].
    rewrite to_nat_max1. reflexivity.
Qed.

(* ================================================================== 2. schedule *)
Lemma pick_id (l : list nat) : pick l (seq 0 (length l)) = l.
Proof.
  unfold pick. induction l as [|x l IH]; [reflexivity|].
  cbn [length seq map nth]. f_equal. rewrite <- seq_shift, map_map. exact IH.
Qed.

Lemma pick_perm (l p : list nat) : Permutation p (seq 0 (length l)) -> Permutation (pick l p) l.
Proof.
  intros H. rewrite <- (pick_id l) at 2. unfold pick. apply Permutation_map. exact H.
Qed.

Definition index_perms (s : tvsplit) (pps : list (list nat)) : Prop :=
  Forall (fun p => Permutation p (seq 0 (length (train s)))) pps.

(* every epoch of the schedule visits every training pattern exactly once, in batches of
   1..b patterns, and yields as many batches as __len__ reports *)
Theorem schedule_epochs b shuffle s pre pps ep :
  1 <= b -> index_perms s pps ->
  In ep (s_epochs (schedule_of_split b shuffle s pre pps)) ->
  Permutation (concat ep) (train s) /\ length ep = s_len (schedule_of_split b shuffle s pre pps) /\
  (forall c, In c ep -> 1 <= length c <= b).
Proof.
  intros Hb Hp Hin. cbn [schedule_of_split s_epochs s_len] in *.
  apply in_map_iff in Hin. destruct Hin as [p [<- Hpin]].
  assert (Ho : Permutation (if shuffle then pick (train s) p else train s) (train s)).
  { destruct shuffle; [|apply Permutation_refl]. apply pick_perm.
    unfold index_perms in Hp. rewrite Forall_forall in Hp. apply Hp. exact Hpin. }
  destruct (@epoch_visits_once b _ s Hb Ho) as [H1 H2]. split; [exact H1|]. split; [exact H2|].
  intros c Hc. eapply epoch_batches_nonempty_bounded; eauto.
Qed.

Theorem schedule_val b shuffle s pre pps :
  1 <= b ->
  concat (s_val (schedule_of_split b shuffle s pre pps)) = val s /\
  length (s_val (schedule_of_split b shuffle s pre pps)) = s_val_len (schedule_of_split b shuffle s pre pps) /\
  (s_val (schedule_of_split b shuffle s pre pps) = [] <-> has_validation s = false).
Proof.
  intros Hb. cbn [schedule_of_split s_val s_val_len].
  destruct (@val_visits_once b s Hb) as [H1 H2]. split; [exact H1|]. split; [exact H2|].
  unfold has_validation. destruct (val s) as [|x v] eqn:E.
  - unfold val_batches. rewrite E. split; reflexivity.
  - split; [|discriminate]. intros H. rewrite H in H1. discriminate.
Qed.

(* the count form of "visited exactly once / disjoint / cover": every pattern index below n
   occurs exactly once in (one epoch's training batches) + (the validation set) *)
Theorem every_pattern_once n b order s i :
  1 <= b -> (Permutation (train s ++ val s) (seq 0 n) /\ NoDup (train s ++ val s)) ->
  Permutation order (train s) -> i < n ->
  count_occ Nat.eq_dec (concat (epoch b order)) i + count_occ Nat.eq_dec (val s) i = 1.
Proof.
  intros Hb [Hperm Hnd] Ho Hi.
  destruct (@epoch_visits_once b order s Hb Ho) as [H1 _].
  rewrite (Permutation_count_occ Nat.eq_dec) in H1. rewrite H1, <- count_occ_app.
  apply NoDup_count_occ'; [exact Hnd|].
  eapply Permutation_in; [apply Permutation_sym; exact Hperm|]. apply in_seq. lia.
Qed.

(* and nothing outside range(n) is ever scheduled *)
Theorem no_foreign_pattern n b order s i :
  1 <= b -> (Permutation (train s ++ val s) (seq 0 n) /\ NoDup (train s ++ val s)) ->
  Permutation order (train s) -> n <= i ->
  count_occ Nat.eq_dec (concat (epoch b order)) i = 0 /\ count_occ Nat.eq_dec (val s) i = 0.
Proof.
  intros Hb [Hperm Hnd] Ho Hi.
  destruct (@epoch_visits_once b order s Hb Ho) as [H1 _].
  rewrite (Permutation_count_occ Nat.eq_dec) in H1. rewrite H1.
  assert (Hn : ~ In i (train s ++ val s)).
  { intros Hin. eapply Permutation_in in Hin; [|exact Hperm]. apply in_seq in Hin. lia. }
  split; apply count_occ_not_In; intros Hin; apply Hn; apply in_or_app; [left | right]; exact Hin.
Qed.

(* the rng consumption of a reconstruct call does not depend on the batch size *)
Theorem schedule_draws_indep_batch n b1 b2 ratio random shuffle perm0 pps :
  option_map s_draws (recon_schedule n b1 ratio random shuffle perm0 pps)
  = option_map s_draws (recon_schedule n b2 ratio random shuffle perm0 pps) /\
  option_map s_split (recon_schedule n b1 ratio random shuffle perm0 pps)
  = option_map s_split (recon_schedule n b2 ratio random shuffle perm0 pps).
Proof. unfold recon_schedule. destruct (split_of_ratio n ratio random perm0); split; reflexivity. Qed.

Theorem schedule_draws_count b shuffle s pre pps :
  length (s_draws (schedule_of_split b shuffle s pre pps))
  = length pre + (if shuffle then length pps else 0).
Proof. cbn [schedule_of_split s_draws]. rewrite app_length. destruct shuffle; [rewrite map_length|]; reflexivity. Qed.

(* one reconstruct call, all clauses together *)
Theorem recon_schedule_correct n b ratio random shuffle perm0 pps sc :
  1 <= bsz n b -> Permutation perm0 (seq 0 n) ->
  recon_schedule n b ratio random shuffle perm0 pps = Some sc ->
  index_perms (s_split sc) pps ->
  (Permutation (train (s_split sc) ++ val (s_split sc)) (seq 0 n) /\ NoDup (train (s_split sc) ++ val (s_split sc))) /\
  (forall ep, In ep (s_epochs sc) ->
     Permutation (concat ep) (train (s_split sc)) /\ length ep = s_len sc /\
     (forall i, i < n -> count_occ Nat.eq_dec (concat ep) i + count_occ Nat.eq_dec (concat (s_val sc)) i = 1)) /\
  length (s_epochs sc) = length pps /\
  length (s_val sc) = s_val_len sc.
Proof.
  intros Hb Hperm Hs Hpp. unfold recon_schedule in Hs.
  destruct (split_of_ratio n ratio random perm0) as [s|] eqn:E; [|discriminate].
  injection Hs as <-. pose proof (@split_partition n ratio random perm0 s Hperm E) as Hpart.
  cbn [schedule_of_split s_split] in Hpp |- *.
  destruct (@schedule_val (bsz n b) shuffle s (init_draws n ratio random) pps Hb) as [Hv1 [Hv2 _]].
  split; [exact Hpart|]. split; [|split; [cbn [schedule_of_split s_epochs]; apply map_length | exact Hv2]].
  intros ep Hin.
  destruct (@schedule_epochs (bsz n b) shuffle s (init_draws n ratio random) pps ep Hb Hpp Hin) as [H1 [H2 _]].
  split; [exact H1|]. split; [exact H2|].
  intros i Hi. rewrite Hv1.
  cbn [schedule_of_split s_epochs] in Hin. apply in_map_iff in Hin. destruct Hin as [p [<- Hpin]].
  apply (@every_pattern_once n); try assumption.
  destruct shuffle; [|apply Permutation_refl]. apply pick_perm.
  unfold index_perms in Hpp. rewrite Forall_forall in Hpp. apply Hpp. exact Hpin.
Qed.

(* explicit indices: the epoch clauses hold for whatever lists are handed over *)
Theorem explicit_split_epochs tr va b order s :
  split_explicit (Some tr) (Some va) = inr (Some s) -> 1 <= b -> Permutation order tr ->
  train s = tr /\ val s = va /\ Permutation (concat (epoch b order)) tr /\ length (epoch b order) = batcher_len b s.
Proof.
  intros H Hb Ho. cbn in H. injection H as <-. cbn [train val]. split; [reflexivity|]. split; [reflexivity|].
  apply (@epoch_visits_once b order {| train := tr; val := va |} Hb Ho).
Qed.

(* ================================================================== 5. loss algebra *)
Local Open Scope Q_scope.

Lemma qn_nz n : (1 <= n)%nat -> ~ qn n == 0.
Proof.
  intros Hn H. apply (Qeq_bool_neq (qn n) 0); [|exact H].
  unfold Qeq_bool, qn, inject_Z; cbn. destruct (Z.of_nat n) eqn:E; cbn; try reflexivity; lia.
Qed.

Lemma qn_mul a b : qn (a * b) == qn a * qn b.
Proof. unfold qn. rewrite Nat2Z.inj_mul, inject_Z_mult. reflexivity. Qed.

Lemma div_zero x : x / 0 == 0.
Proof. unfold Qdiv. setoid_replace (/ 0) with 0 by reflexivity. ring. Qed.

Lemma scaled_batch N I (c : list Q) :
  (1 <= N)%nat -> (1 <= length c)%nat -> qn (length c) * batch_loss N I c == (qn N / I) * sumQ c.
Proof.
  intros HN Hc. unfold batch_loss. fold (qn (length c)). fold (qn N).
  pose proof (qn_nz HN) as HNq. pose proof (qn_nz Hc) as Hcq.
  destruct (Qeq_dec I 0) as [HI|HI].
  - rewrite HI, !div_zero. ring.
  - field. repeat split; assumption.
Qed.

(* EVERY batch size: the size-weighted mean of the per-batch losses is the full-batch loss *)
Theorem weighted_mean_eq_full (N : nat) (I : Q) (b : nat) (ls : list Q) :
  (1 <= b)%nat -> (1 <= N)%nat ->
  weighted_mean_of_batch_losses N I b ls == batch_loss N I ls.
Proof.
  intros Hb HN. unfold weighted_mean_of_batch_losses.
  rewrite (@sumQ_map_scale (qn N / I)).
  - rewrite <- sumQ_concat, chunks_concat by exact Hb.
    unfold batch_loss. fold (qn (length ls)). fold (qn N).
    pose proof (qn_nz HN) as HNq.
    destruct ls as [|x ls].
    + cbn [sumQ length]. unfold qn at 2 3. cbn. unfold Qdiv. ring_simplify. reflexivity.
    + assert (Hl : ~ qn (length (x :: ls)) == 0) by (apply qn_nz; cbn [length]; lia).
      destruct (Qeq_dec I 0) as [HI|HI].
      * rewrite HI, !div_zero. unfold Qdiv. ring.
      * field. repeat split; assumption.
  - intros c Hin. apply scaled_batch; [exact HN|].
    apply (@chunks_sizes Q b ls c Hb Hin).
Qed.

Lemma length_concat_const (A : Type) (bs : list (list A)) b :
  (forall c, In c bs -> length c = b) -> length (concat bs) = (length bs * b)%nat.
Proof.
  induction bs as [|c bs IH]; intros H; cbn [concat length]; [reflexivity|].
  rewrite app_length, IH, (H c (or_introl eq_refl)); [lia|].
  intros c' Hc'. apply H. right. exact Hc'.
Qed.

(* for ANY family of batches of one common size b (whatever order, whatever partition): the
   plain mean of the per-batch losses is the loss of their union *)
Theorem mean_over_equal_batches (N : nat) (I : Q) (b : nat) (bs : list (list Q)) :
  (1 <= b)%nat -> (1 <= N)%nat -> (1 <= length bs)%nat ->
  (forall c, In c bs -> length c = b) ->
  mean_over_batches N I bs == batch_loss N I (concat bs).
Proof.
  intros Hb HN Hm Hall. unfold mean_over_batches.
  rewrite (@sumQ_map_scale (qn N / qn b / I)).
  - rewrite <- sumQ_concat. unfold batch_loss. rewrite (length_concat_const bs Hall).
    fold (qn (length bs * b)). fold (qn N). rewrite qn_mul.
    pose proof (qn_nz HN) as HNq. pose proof (qn_nz Hb) as Hbq. pose proof (qn_nz Hm) as Hmq.
    destruct (Qeq_dec I 0) as [HI|HI].
    + rewrite HI, !div_zero. unfold Qdiv. ring.
    + field. repeat split; assumption.
  - intros c Hin. unfold batch_loss. rewrite (Hall c Hin). fold (qn b). fold (qn N).
    pose proof (qn_nz HN) as HNq. pose proof (qn_nz Hb) as Hbq.
    destruct (Qeq_dec I 0) as [HI|HI].
    + rewrite HI, !div_zero. ring.
    + field. repeat split; assumption.
Qed.

Lemma chunks_fuel_map (A B : Type) (f : A -> B) fuel b (l : list A) :
  chunks_fuel fuel b (map f l) = map (map f) (chunks_fuel fuel b l).
Proof.
  revert l. induction fuel as [|fu IH]; intros l; [reflexivity|].
  destruct l as [|x l]; [reflexivity|].
  cbn [chunks_fuel map]. change (f x :: map f l) with (map f (x :: l)).
  rewrite firstn_map, skipn_map, IH. reflexivity.
Qed.

Lemma chunks_map (A B : Type) (f : A -> B) b (l : list A) : chunks b (map f l) = map (map f) (chunks b l).
Proof. unfold chunks. rewrite map_length. apply chunks_fuel_map. Qed.

(* gradients: every component of the mean of the per-batch gradients is that component of the
   full-batch gradient, for divisor batch sizes *)
Theorem batch_grad_mean_eq_full (N : nat) (I : Q) (b m : nat) (gs : list (list Q)) (j : nat) :
  (1 <= b)%nat -> (1 <= m)%nat -> (1 <= N)%nat -> length gs = (m * b)%nat ->
  mean_of_batch_grads N I b gs j == batch_grad N I gs j.
Proof.
  intros Hb Hm HN Hl.
  assert (E : mean_of_batch_grads N I b gs j == mean_of_batch_losses N I b (map (comp j) gs)).
  { unfold mean_of_batch_grads, mean_of_batch_losses, batch_grad, qn.
    rewrite chunks_map, map_map, map_length. reflexivity. }
  rewrite E. unfold batch_grad. apply (@batch_mean_eq_full N I b m); try assumption.
  rewrite map_length. exact Hl.
Qed.

(* a loss that is not divided by the batch fraction: the mean over m batches is 1/m of the full value *)
Theorem unscaled_mean_factor (I : Q) (b m : nat) (ls : list Q) :
  (1 <= b)%nat -> (1 <= m)%nat -> length ls = (m * b)%nat ->
  mean_of_unscaled_losses I b ls * qn m == unscaled_loss I ls.
Proof.
  intros Hb Hm Hl. unfold mean_of_unscaled_losses.
  rewrite chunks_length by exact Hb. rewrite Hl.
  assert (Hcd : ceil_div (m * b) b = m).
  { unfold ceil_div. replace (m * b + b - 1)%nat with ((b - 1) + m * b)%nat by lia.
    rewrite Nat.div_add by lia. rewrite Nat.div_small by lia. lia. }
  rewrite Hcd. rewrite (@sumQ_map_scale (/ I)).
  - rewrite <- sumQ_concat, chunks_concat by exact Hb. unfold unscaled_loss.
    pose proof (qn_nz Hm) as Hmq. unfold Qdiv. generalize (/ I). intros q. field. exact Hmq.
  - intros c _. unfold unscaled_loss. unfold Qdiv. ring.
Qed.

Definition unscaled_batch_mean_statement : Prop :=
  forall (I : Q) (b m : nat) (ls : list Q),
    (1 <= b)%nat -> (1 <= m)%nat -> length ls = (m * b)%nat ->
    mean_of_unscaled_losses I b ls == unscaled_loss I ls.

Theorem unscaled_batch_mean_refuted : ~ unscaled_batch_mean_statement.
Proof.
  intros H. specialize (H 1 1%nat 2%nat [1; 1] (le_n _) (le_S _ _ (le_n _)) eq_refl).
  vm_compute in H. discriminate H.
Qed.

(* divisibility is needed for the plain mean *)
Theorem plain_mean_needs_divisor :
  exists N I b ls, (1 <= b)%nat /\ (1 <= N)%nat /\ ~ mean_of_batch_losses N I b ls == batch_loss N I ls.
Proof.
  exists 3%nat, 1, 2%nat, [1; 1; 4]. split; [lia|]. split; [lia|].
  intros H. vm_compute in H. discriminate H.
Qed.
Local Close Scope Q_scope.

(* ================================================================== 6. reset_recon *)
Section ResetProofs.
  Variables P O L S : Type.
  Notation fields := (fields P O L S).
  Notation cfg := (cfg P O).

  Lemma steps_keep_seed (steps : list (fields -> fields)) : forall f : fields,
    Forall keeps_seed steps ->
    r_seed (f_rng (fold_left (fun f s => s f) steps f)) = r_seed (f_rng f) /\
    r_dev (f_rng (fold_left (fun f s => s f) steps f)) = r_dev (f_rng f).
  Proof.
    induction steps as [|s steps IH]; intros f H; cbn [fold_left]; [split; reflexivity|].
    inversion H as [|? ? Hs Hr]; subst. destruct (IH (s f) Hr) as [H1 H2].
    destruct (Hs f) as [H3 H4]. rewrite H1, H2, H3, H4. split; reflexivity.
  Qed.

  (* reset_recon after ANY sequence of iterations (each may change every field but the seed
     and device of the rng) gives back, field by field, the freshly constructed state *)
  Theorem reset_recon_restores (c : cfg) dev sd tok (steps : list (fields -> fields)) :
    Forall keeps_seed steps ->
    reset_recon c tok (fold_left (fun f s => s f) steps (fresh c dev sd)) = (fresh c dev sd : fields).
  Proof.
    intros H. destruct (steps_keep_seed (fresh c dev sd) H) as [Hs Hd].
    remember (fold_left (fun f s => s f) steps (fresh c dev sd)) as f eqn:Ef. clear Ef.
    unfold fresh in *. cbn [f_rng init_rng r_seed r_dev seed_of_arg] in Hs, Hd.
    unfold reset_recon, reset_rng. rewrite Hs. unfold set_rng, init_rng. rewrite Hd. reflexivity.
  Qed.

  Theorem reset_recon_idempotent (c : cfg) tok tok' (f : fields) :
    r_seed (f_rng f) <> None ->
    reset_recon c tok' (reset_recon c tok f) = reset_recon c tok f.
  Proof.
    intros Hs. destruct (r_seed (f_rng f)) as [s|] eqn:E; [|congruence].
    unfold reset_recon. cbn [f_rng]. f_equal.
    unfold reset_rng. rewrite E. cbn [set_rng r_seed seed_of_arg]. reflexivity.
  Qed.
End ResetProofs.
