(* C01 — the normal form: it is well formed and idempotent on well-formed graphs, hence the
   second save/load is a fixed point. *)
From QV.lib Require Import Prelude.
From QV.model Require Import C01_Model.
From QV.proof Require Import C01_Proofs_Base C01_Proofs_Enc C01_Proofs_Dec C01_Proofs_RT.
From Coq Require Import String Ascii.
Local Open Scope string_scope.
Local Open Scope list_scope.

Lemma map_id_in' {A} (f : A -> A) l : (forall x, In x l -> f x = x) -> map f l = l.
Proof.
  induction l as [|x r IH]; cbn [map]; intros H; [reflexivity|].
  rewrite (H x (or_introl eq_refl)), IH; [reflexivity|]. intros y Hy. apply H. right. exact Hy.
Qed.

(* ------------------------------------------------------------------ numeric categories *)
Definition cat_ok (cn : ncat * num) : bool :=
  match cn with
  | (CBool, NBool _) | (CSigned, NInt _) | (CUSmall, NInt _) | (CU64, NInt _) | (CFloat, NFloat _) => true
  | _ => false
  end.

Lemma np_dtypes_cat dt : mem dt np_dtypes = true -> exists c, np_cat dt = Some c.
Proof.
  intros H. apply mem_In in H. unfold np_dtypes in H. cbn [In] in H.
  repeat (destruct H as [<-|H]; [eexists; reflexivity|]). destruct H.
Qed.

Lemma wf_num_cat b v cn : wf_value b v = true -> num_cat v = Some cn -> cat_ok cn = true.
Proof.
  destruct v; cbn [num_cat]; intros Hw H; try discriminate; try (injection H as <-; reflexivity).
  cbn [wf_value] in Hw. apply andb_true_iff in Hw. destruct Hw as [_ Hm]. unfold num_matches in Hm.
  destruct (np_cat dt) as [c|]; [|discriminate]. injection H as <-. destruct c, n; try discriminate; reflexivity.
Qed.

Definition pycat (n : num) : ncat := match n with NBool _ => CBool | NInt _ => CSigned | NFloat _ => CFloat end.

Lemma num_cat_of_num n : num_cat (of_num n) = Some (pycat n, n).
Proof. destruct n; reflexivity. Qed.

Lemma num_cat_norm_none b v : wf_value b v = true -> num_cat v = None -> num_cat (norm v) = None.
Proof.
  destruct v; cbn [num_cat norm]; intros Hw H; try discriminate; try reflexivity.
  cbn [wf_value] in Hw. apply andb_true_iff in Hw. destruct Hw as [Hd _].
  destruct (np_dtypes_cat dt Hd) as [c Hc]. rewrite Hc in H. discriminate.
Qed.

Lemma all_numeric_norm_none l :
  (forall v, In v l -> wf_value true v = true) -> all_numeric l = None -> all_numeric (map norm l) = None.
Proof.
  induction l as [|v r IH]; cbn [all_numeric map]; intros Hw H; [discriminate|].
  destruct (num_cat v) as [cn|] eqn:Ec.
  - destruct (all_numeric r) eqn:Er; [discriminate|].
    rewrite IH; [destruct (num_cat (norm v)); reflexivity | intros x Hx; apply Hw; right; exact Hx | reflexivity].
  - rewrite (num_cat_norm_none true v (Hw v (or_introl eq_refl)) Ec). reflexivity.
Qed.

Lemma all_numeric_of_num ns : all_numeric (map of_num ns) = Some (map (fun n => (pycat n, n)) ns).
Proof. induction ns as [|n r IH]; cbn [map all_numeric]; [reflexivity|]. rewrite num_cat_of_num, IH. reflexivity. Qed.

Lemma all_numeric_ok b l cl :
  (forall v, In v l -> wf_value b v = true) -> all_numeric l = Some cl -> forallb cat_ok cl = true.
Proof.
  revert cl. induction l as [|v r IH]; cbn [all_numeric]; intros cl Hw H.
  - injection H as <-. reflexivity.
  - destruct (num_cat v) as [cn|] eqn:Ec; [|discriminate]. destruct (all_numeric r) as [rr|] eqn:Er; [|discriminate].
    injection H as <-. cbn [forallb]. rewrite (wf_num_cat b v cn (Hw v (or_introl eq_refl)) Ec).
    apply IH; [intros x Hx; apply Hw; right; exact Hx | reflexivity].
Qed.

Definition cat_eqb (a b : ncat) : bool :=
  match a, b with CBool, CBool | CSigned, CSigned | CUSmall, CUSmall | CU64, CU64 | CFloat, CFloat => true | _, _ => false end.

Lemma has_cat_false c cl : has_cat c cl = false <-> forall cn, In cn cl -> cat_eqb (fst cn) c = false.
Proof.
  unfold has_cat. split.
  - intros H cn Hi. destruct (cat_eqb (fst cn) c) eqn:E; [|reflexivity].
    assert (Ht : existsb (fun cn0 : ncat * num => match fst cn0, c with
               | CBool, CBool | CSigned, CSigned | CUSmall, CUSmall | CU64, CU64 | CFloat, CFloat => true | _, _ => false end) cl = true).
    { apply existsb_exists. exists cn. split; [exact Hi|]. destruct (fst cn), c; try discriminate; reflexivity. }
    congruence.
  - intros H. destruct (existsb _ cl) eqn:E; [|reflexivity]. apply existsb_exists in E. destruct E as [cn [Hi Hc]].
    specialize (H cn Hi). destruct (fst cn), c; discriminate.
Qed.

Lemma has_cat_true_intro c cn cl : In cn cl -> fst cn = c -> has_cat c cl = true.
Proof.
  intros Hi He. unfold has_cat. apply existsb_exists. exists cn. split; [exact Hi|]. rewrite He. destruct c; reflexivity.
Qed.

(* the numbers of a promoted sequence are uniformly of the result category *)
Definition uniform (r : rcat) (n : num) : bool :=
  match r, n with RB, NBool _ | RI, NInt _ | RF, NFloat _ => true | _, _ => false end.

Lemma promoted_uniform cl :
  forallb cat_ok cl = true ->
  forallb (uniform (result_cat cl)) (map (fun cn => num_to (result_cat cl) (snd cn)) cl) = true.
Proof.
  intros Hok. rewrite forallb_forall in Hok. apply forallb_forall. intros n Hn. apply in_map_iff in Hn.
  destruct Hn as [[c m] [<- Hi]]. cbn [snd]. pose proof (Hok _ Hi) as Hc.
  unfold result_cat. destruct (has_cat CFloat cl) eqn:EF; [destruct m; reflexivity|].
  destruct (has_cat CU64 cl && has_cat CSigned cl)%bool; [destruct m; reflexivity|].
  pose proof (proj1 (has_cat_false CFloat cl) EF _ Hi) as HnF. cbn [fst] in HnF.
  destruct (has_cat CSigned cl || has_cat CUSmall cl || has_cat CU64 cl)%bool eqn:EI.
  - destruct c, m; cbn in Hc, HnF; try discriminate; reflexivity.
  - apply orb_false_iff in EI. destruct EI as [EI E3]. apply orb_false_iff in EI. destruct EI as [E1 E2].
    pose proof (proj1 (has_cat_false CSigned cl) E1 _ Hi) as H1. pose proof (proj1 (has_cat_false CUSmall cl) E2 _ Hi) as H2.
    pose proof (proj1 (has_cat_false CU64 cl) E3 _ Hi) as H3. cbn [fst] in H1, H2, H3.
    destruct c, m; cbn in Hc, HnF, H1, H2, H3; try discriminate; reflexivity.
Qed.

Lemma result_cat_uniform r ns :
  ns <> [] -> forallb (uniform r) ns = true ->
  result_cat (map (fun n => (pycat n, n)) ns) = r /\ map (fun cn : ncat * num => num_to r (snd cn)) (map (fun n => (pycat n, n)) ns) = ns.
Proof.
  intros Hne Hu. rewrite forallb_forall in Hu. split.
  - destruct ns as [|n0 rest]; [congruence|]. set (cl := map (fun n => (pycat n, n)) (n0 :: rest)).
    assert (Hall : forall cn, In cn cl -> uniform r (snd cn) = true /\ fst cn = pycat (snd cn)).
    { intros cn Hi. apply in_map_iff in Hi. destruct Hi as [n [<- Hn]]. split; [apply Hu; exact Hn | reflexivity]. }
    assert (H0 : In (pycat n0, n0) cl) by (left; reflexivity).
    pose proof (Hu n0 (or_introl eq_refl)) as Hu0.
    unfold result_cat. destruct r.
    + assert (HF : has_cat CFloat cl = false).
      { apply has_cat_false. intros cn Hi. destruct (Hall cn Hi) as [H1 H2]. rewrite H2. destruct (snd cn); try discriminate; reflexivity. }
      assert (HS : has_cat CSigned cl = false).
      { apply has_cat_false. intros cn Hi. destruct (Hall cn Hi) as [H1 H2]. rewrite H2. destruct (snd cn); try discriminate; reflexivity. }
      assert (HU : has_cat CUSmall cl = false).
      { apply has_cat_false. intros cn Hi. destruct (Hall cn Hi) as [H1 H2]. rewrite H2. destruct (snd cn); reflexivity. }
      assert (H6 : has_cat CU64 cl = false).
      { apply has_cat_false. intros cn Hi. destruct (Hall cn Hi) as [H1 H2]. rewrite H2. destruct (snd cn); reflexivity. }
      rewrite HF, HS, HU, H6. reflexivity.
    + assert (HF : has_cat CFloat cl = false).
      { apply has_cat_false. intros cn Hi. destruct (Hall cn Hi) as [H1 H2]. rewrite H2. destruct (snd cn); try discriminate; reflexivity. }
      assert (H6 : has_cat CU64 cl = false).
      { apply has_cat_false. intros cn Hi. destruct (Hall cn Hi) as [H1 H2]. rewrite H2. destruct (snd cn); reflexivity. }
      assert (HS : has_cat CSigned cl = true).
      { apply (has_cat_true_intro CSigned _ cl H0). destruct n0; try discriminate; reflexivity. }
      rewrite HF, H6, HS. reflexivity.
    + assert (HF : has_cat CFloat cl = true).
      { apply (has_cat_true_intro CFloat _ cl H0). destruct n0; try discriminate; reflexivity. }
      rewrite HF. reflexivity.
  - rewrite map_map. cbn [snd]. apply map_id_in'. intros n Hn. specialize (Hu n Hn). destruct r, n; try discriminate; reflexivity.
Qed.

(* ------------------------------------------------------------------ sequences *)
From QV.proof Require Import C01_Proofs_Main.
From Coq Require Import Permutation.

Lemma numeric_seq_inv l r ns :
  numeric_seq l = Some (r, ns) ->
  exists cl, l <> [] /\ all_numeric l = Some cl /\ r = result_cat cl /\ ns = map (fun cn => num_to (result_cat cl) (snd cn)) cl.
Proof.
  unfold numeric_seq. destruct l as [|v l']; [discriminate|]. destruct (all_numeric (v :: l')) as [cl|]; [|discriminate].
  intros H. injection H as <- <-. exists cl. repeat split. discriminate.
Qed.

Lemma numeric_seq_of_num r ns :
  ns <> [] -> forallb (uniform r) ns = true -> numeric_seq (map of_num ns) = Some (r, ns).
Proof.
  intros Hne Hu. destruct (result_cat_uniform r ns Hne Hu) as [R1 R2].
  unfold numeric_seq. rewrite all_numeric_of_num, R1, R2. destruct ns; [congruence | reflexivity].
Qed.

Lemma seq_norm_facts l :
  (forall v, In v l -> wf_value true v = true /\ wf_value true (norm v) = true /\ norm (norm v) = norm v) ->
  nums_ok l = true ->
  forallb (wf_value true) (norm_seq norm l) = true /\ nums_ok (norm_seq norm l) = true /\
  norm_seq norm (norm_seq norm l) = norm_seq norm l.
Proof.
  intros Hall Hnum. unfold norm_seq at 1 2 4 5. destruct (numeric_seq l) as [[r ns]|] eqn:En.
  - destruct (numeric_seq_inv l r ns En) as (cl & Hne & Hcl & Hr & Hns).
    pose proof (numeric_seq_nonempty l r ns En) as Hnn.
    assert (Hok : forallb cat_ok cl = true).
    { apply (all_numeric_ok true l cl); [intros v Hv; apply (Hall v Hv) | exact Hcl]. }
    assert (Hu : forallb (uniform r) ns = true) by (rewrite Hr, Hns; apply promoted_uniform; exact Hok).
    pose proof (numeric_seq_of_num r ns Hnn Hu) as Hfp.
    split; [|split].
    + apply forallb_forall. intros x Hx. apply in_map_iff in Hx. destruct Hx as [n [<- _]]. destruct n; reflexivity.
    + unfold nums_ok. destruct (map of_num ns) eqn:Em; [reflexivity|]. rewrite <- Em, all_numeric_of_num.
      destruct (result_cat_uniform r ns Hnn Hu) as [R1 _]. rewrite R1.
      apply forallb_forall. intros [c n] Hi. apply in_map_iff in Hi. destruct Hi as [n' [He Hn']]. injection He as <- <-.
      cbn [snd]. destruct n' as [bb|z|f]; try reflexivity.
      rewrite forallb_forall in Hu. pose proof (Hu _ Hn') as Hun. destruct r; try discriminate.
      rewrite andb_true_r. rewrite Hns in Hn'. apply in_map_iff in Hn'. destruct Hn' as [[c m] [Hm Hi]]. cbn [snd] in Hm.
      rewrite <- Hr in Hm.
      unfold nums_ok in Hnum. destruct l as [|vv ll]; [congruence|]. rewrite Hcl in Hnum. rewrite forallb_forall in Hnum.
      specialize (Hnum _ Hi). cbn [snd] in Hnum. destruct m as [b0|z0|f0]; cbn [num_to] in Hm; try discriminate.
      * injection Hm as <-. destruct b0; reflexivity.
      * injection Hm as <-. apply andb_true_iff in Hnum. tauto.
    + unfold norm_seq. rewrite Hfp. reflexivity.
  - assert (Hnone : numeric_seq (map norm l) = None).
    { unfold numeric_seq in *. destruct l as [|v0 l0]; [reflexivity|]. cbn [map].
      destruct (all_numeric (v0 :: l0)) eqn:Ea; [discriminate|].
      change (norm v0 :: map norm l0) with (map norm (v0 :: l0)).
      rewrite all_numeric_norm_none; [reflexivity | intros v Hv; apply (Hall v Hv) | exact Ea]. }
    split; [|split].
    + apply forallb_forall. intros x Hx. apply in_map_iff in Hx. destruct Hx as [v [<- Hv]]. apply (Hall v Hv).
    + unfold nums_ok. unfold numeric_seq in Hnone. destruct (map norm l); [reflexivity|].
      destruct (all_numeric (v :: l0)); [discriminate | reflexivity].
    + unfold norm_seq. rewrite Hnone, map_map. apply map_ext_in. intros v Hv. apply (Hall v Hv).
Qed.

(* ------------------------------------------------------------------ reorder *)
Notation nkv := (fun kv : string * value => match kv with (k, x) => (k, norm x) end).

Lemma filter_map_comm {A} (p : A -> bool) (f : A -> A) l :
  (forall x, p (f x) = p x) -> map f (filter p l) = filter p (map f l).
Proof.
  intros H. induction l as [|x r IH]; cbn [map filter]; [reflexivity|]. rewrite H. destruct (p x); cbn [map]; rewrite IH; reflexivity.
Qed.

Lemma map_reorder l : map nkv (reorder l) = reorder (map nkv l).
Proof.
  unfold reorder. rewrite !map_app. f_equal; [|f_equal]; apply filter_map_comm; intros [k x]; cbn [snd]; apply is_class_norm.
Qed.

Lemma filter_filter_same {A} (p : A -> bool) l : filter p (filter p l) = filter p l.
Proof. induction l as [|x r IH]; cbn [filter]; [reflexivity|]. destruct (p x) eqn:E; cbn [filter]; rewrite ?E, IH; reflexivity. Qed.

Lemma filter_filter_disj {A} (p q : A -> bool) l : (forall x, q x = true -> p x = false) -> filter p (filter q l) = [].
Proof.
  intros H. induction l as [|x r IH]; cbn [filter]; [reflexivity|]. destruct (q x) eqn:E; cbn [filter]; [rewrite (H x E)|]; exact IH.
Qed.

Lemma reorder_idem l : reorder (reorder l) = reorder l.
Proof.
  unfold reorder at 1. unfold reorder. rewrite !filter_app, !filter_filter_same.
  rewrite !filter_filter_disj; try (intros [k x]; cbn [snd]; unfold is_class; destruct (sclass_of x); intros; congruence).
  cbn [app]. rewrite !app_nil_r. reflexivity.
Qed.

Lemma reorder_perm l : Permutation l (reorder l).
Proof.
  unfold reorder. induction l as [|[k x] r IH]; cbn [filter]; [constructor|]. cbn [snd].
  destruct (is_class_cases x) as [(E1 & E2 & E3)|[(E1 & E2 & E3)|(E1 & E2 & E3)]]; rewrite E1, E2, E3.
  - cbn [app]. apply perm_skip. exact IH.
  - apply Permutation_cons_app. exact IH.
  - rewrite app_assoc. apply Permutation_cons_app. rewrite <- app_assoc. exact IH.
Qed.

Lemma In_reorder' (kv : string * value) l : In kv (reorder l) -> In kv l.
Proof. intros H. apply (Permutation_in _ (Permutation_sym (reorder_perm l))). exact H. Qed.

Lemma map_fst_nkv (l : list (string * value)) : map fst (map nkv l) = map fst l.
Proof. rewrite map_map. apply map_ext. intros [k x]. reflexivity. Qed.

Lemma fields_norm_facts b l :
  (nodupb (map fst l) && forallb (fun kv : string * value => key_ok (fst kv)) l
   && forallb (fun kv => wf_value b (snd kv)) l)%bool = true ->
  (forall kv, In kv l -> wf_value b (snd kv) = true -> wf_value b (norm (snd kv)) = true /\ norm (norm (snd kv)) = norm (snd kv)) ->
  let l' := reorder (map nkv l) in
  (nodupb (map fst l') && forallb (fun kv : string * value => key_ok (fst kv)) l'
   && forallb (fun kv => wf_value b (snd kv)) l')%bool = true /\ reorder (map nkv l') = l'.
Proof.
  intros Hw IH l'. apply andb_true_iff in Hw. destruct Hw as [Hw H3]. apply andb_true_iff in Hw. destruct Hw as [H1 H2].
  rewrite forallb_forall in H2, H3. split.
  - apply andb_true_iff. split; [apply andb_true_iff; split|].
    + apply NoDup_nodupb. apply (Permutation_NoDup (Permutation_map fst (reorder_perm (map nkv l)))).
      rewrite map_fst_nkv. apply nodupb_NoDup. exact H1.
    + apply forallb_forall. intros kv Hi. apply In_reorder' in Hi. apply in_map_iff in Hi. destruct Hi as [[k x] [<- Hi]].
      exact (H2 _ Hi).
    + apply forallb_forall. intros kv Hi. apply In_reorder' in Hi. apply in_map_iff in Hi. destruct Hi as [[k x] [<- Hi]].
      cbn [snd]. apply (IH _ Hi). exact (H3 _ Hi).
  - unfold l'. rewrite map_reorder, reorder_idem. f_equal. rewrite map_map. apply map_ext_in. intros [k x] Hi.
    f_equal. apply (IH _ Hi). exact (H3 _ Hi).
Qed.

(* ------------------------------------------------------------------ the normal form is well formed and idempotent *)
Theorem norm_wf_idem v : forall inc, wf_value inc v = true -> wf_value inc (norm v) = true /\ norm (norm v) = norm v.
Proof.
  induction v using value_ind'; intros inc Hw; try (split; [exact Hw | reflexivity]).
  - (* np scalar *) destruct n; split; reflexivity.
  - (* rng *) cbn [wf_value] in Hw. rename Hw into Hm.
    assert (Hb : canon_bitgen bg = bg) by (unfold canon_bitgen; rewrite Hm; reflexivity).
    cbn [norm]. rewrite !Hb. cbn [wf_value]. rewrite Hm. split; reflexivity.
  - cbn [wf_value norm] in *. apply andb_true_iff in Hw. destruct Hw as [H1 H2]. rewrite forallb_forall in H1. rewrite Forall_forall in H.
    destruct (seq_norm_facts l) as (F1 & F2 & F3); [|exact H2|].
    + intros v Hv. split; [exact (H1 v Hv) | exact (H v Hv true (H1 v Hv))].
    + rewrite F1, F2, F3. split; reflexivity.
  - cbn [wf_value norm] in *. apply andb_true_iff in Hw. destruct Hw as [H1 H2]. rewrite forallb_forall in H1. rewrite Forall_forall in H.
    destruct (seq_norm_facts l) as (F1 & F2 & F3); [|exact H2|].
    + intros v Hv. split; [exact (H1 v Hv) | exact (H v Hv true (H1 v Hv))].
    + rewrite F1, F2, F3. split; reflexivity.
  - cbn [wf_value norm] in *. apply andb_true_iff in Hw. destruct Hw as [H1 H2]. rewrite forallb_forall in H1. rewrite Forall_forall in H.
    destruct (seq_norm_facts l) as (F1 & F2 & F3); [|exact H2|].
    + intros v Hv. split; [exact (H1 v Hv) | exact (H v Hv true (H1 v Hv))].
    + rewrite F1, F2, F3. split; reflexivity.
  - cbn [wf_value norm] in *. rewrite Forall_forall in H.
    destruct (fields_norm_facts true l Hw) as [F1 F2]; [intros kv Hi Hwk; exact (H kv Hi true Hwk)|].
    cbn zeta in F1, F2. rewrite F1, F2. split; reflexivity.
  - cbn [wf_value norm] in *. rewrite Forall_forall in H.
    destruct (fields_norm_facts false l Hw) as [F1 F2]; [intros kv Hi Hwk; exact (H kv Hi false Hwk)|].
    cbn zeta in F1, F2. rewrite F1, F2. split; reflexivity.
Qed.

Theorem norm_idem v : wf_obj v = true -> norm (norm v) = norm v.
Proof. destruct v; cbn [wf_obj]; try discriminate. intros Hw. apply (norm_wf_idem _ false Hw). Qed.

Theorem wf_obj_norm v : wf_obj v = true -> wf_obj (norm v) = true.
Proof. destruct v; cbn [wf_obj]; try discriminate. intros Hw. apply (norm_wf_idem (VObj cmod cname fields) false Hw). Qed.

(* saving the loaded object again and reloading it is a fixed point *)
Theorem roundtrip_fixpoint v :
  wf_obj v = true ->
  exists w, load_file [] [] (save_file [] [] v) = RVal w /\ load_file [] [] (save_file [] [] w) = RVal w.
Proof.
  intros Hw. exists (norm v). split; [apply roundtrip; exact Hw|].
  rewrite (roundtrip (norm v) (wf_obj_norm v Hw)), (norm_idem v Hw). reflexivity.
Qed.
