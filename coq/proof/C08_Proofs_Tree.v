(* C08 — proofs about targets below a chain of directories (model/C08_Model_Tree.v). *)
From QV.lib Require Import Prelude.
From QV.model Require Import C08_Model C08_Model_Ext C08_Model_Tree.
From QV.proof Require Import C08_Proofs C08_Proofs_Ext.

Lemma created_only_refl anc fs : created_only anc fs fs.
Proof. intro q; left; reflexivity. Qed.

Lemma created_only_cons_keep a anc fs fs1 :
  created_only anc fs fs1 -> created_only (a :: anc) fs fs1.
Proof.
  intros H q. destruct (H q) as [E | (Hin & Ha & Hd)]; [left; exact E|].
  right; repeat split; try assumption. right; exact Hin.
Qed.

Lemma created_only_cons_new a anc fs fs1 :
  fs a = Absent -> created_only anc (upd fs a (Dir [])) fs1 -> created_only (a :: anc) fs fs1.
Proof.
  intros Ha H q. destruct (Nat.eq_dec q a) as [->|Hne].
  - right. split; [left; reflexivity|]. split; [exact Ha|].
    destruct (H a) as [E | (_ & Habs & _)].
    + rewrite E. apply upd_same.
    + rewrite upd_same in Habs. discriminate Habs.
  - destruct (H q) as [E | (Hin & Habs & Hd)].
    + left. rewrite E. apply upd_other; exact Hne.
    + right. rewrite upd_other in Habs by exact Hne.
      repeat split; try assumption. right; exact Hin.
Qed.

(* running os.makedirs: either the run stops inside it, or it continues with the rest of the program
   from a state in which only missing directories of the chain have been created *)
Lemma run_prefix_mkdirs anc : forall rest k fs,
  (exists fs1 o, run_prefix k (mk_parents anc ++ rest) [] fs = Stopped fs1 o /\ o <> Done /\
                 created_only anc fs fs1)
  \/ (exists fs1 k1, run_prefix k (mk_parents anc ++ rest) [] fs = run_prefix k1 rest [] fs1 /\
                     created_only anc fs fs1).
Proof.
  induction anc as [|a anc IH]; intros rest k fs.
  - right. exists fs, k. split; [reflexivity|apply created_only_refl].
  - cbn [mk_parents map app run_prefix]. destruct k as [|k'].
    + left. exists fs, Faulted. cbn. split; [reflexivity|]. split; [discriminate|apply created_only_refl].
    + cbn [step]. destruct (fs a) eqn:Ea.
      * (* missing: created *)
        cbn [handlers_after].
        destruct (IH rest k' (upd fs a (Dir []))) as [(fs1 & o & E & Ho & C) | (fs1 & k1 & E & C)].
        -- left. exists fs1, o. split; [exact E|]. split; [exact Ho|].
           apply created_only_cons_new; assumption.
        -- right. exists fs1, k1. split; [exact E|]. apply created_only_cons_new; assumption.
      * cbn [handlers_after].
        destruct (IH rest k' fs) as [(fs1 & o & E & Ho & C) | (fs1 & k1 & E & C)].
        -- left. exists fs1, o. split; [exact E|]. split; [exact Ho|].
           apply created_only_cons_keep; assumption.
        -- right. exists fs1, k1. split; [exact E|]. apply created_only_cons_keep; assumption.
      * left. exists fs, ErrExists. cbn. split; [reflexivity|]. split; [discriminate|apply created_only_refl].
      * left. exists fs, ErrExists. cbn. split; [reflexivity|]. split; [discriminate|apply created_only_refl].
Qed.

(* REDUCTION: a save below a chain of directories either ends without success in a state where only
   missing directories of the chain have been created (and nothing else differs), or it is a run of the
   protocol `save_prog` from such a state *)
Theorem tree_run_reduces st m p anc ts tz ws zs fs k :
  ~ In p anc ->
  exists fs1, created_only anc fs fs1 /\
    ((exists o, tree_run k st m p anc ts tz ws zs fs = (fs1, o) /\ o <> Done)
     \/ (exists k1, tree_run k st m p anc ts tz ws zs fs = run k1 (save_prog st m p ts tz ws zs) fs1)).
Proof.
  intros Hp. destruct st.
  - (* zip: nothing is created *)
    exists fs. split; [apply created_only_refl|].
    unfold tree_run. destruct (forallb (fun q => is_dir (fs q)) anc).
    + right. exists k. reflexivity.
    + left. destruct k as [|k'].
      * exists Faulted. split; [reflexivity|discriminate].
      * destruct (step (CheckTarget m p) fs) as [e|f] eqn:Es.
        -- exists e. split; [reflexivity|].
           cbn in Es. destruct m; [destruct (present (fs p)); inversion Es; discriminate|discriminate Es].
        -- destruct k'; [exists Faulted|exists ErrOther]; (split; [reflexivity|discriminate]).
  - (* directory store *)
    unfold tree_run, tree_prog.
    set (rest := tl (save_prog SDir m p ts tz ws zs)).
    destruct k as [|k'].
    + exists fs. split; [apply created_only_refl|]. left. exists Faulted. split; [reflexivity|discriminate].
    + unfold run. cbn [run_prefix].
      destruct (step (CheckTarget m p) fs) as [e|f] eqn:Es.
      * exists fs. split; [apply created_only_refl|]. left. exists e. cbn. split; [reflexivity|].
        cbn in Es. destruct m; [destruct (present (fs p)); inversion Es; discriminate|discriminate Es].
      * assert (Hf : f = fs).
        { cbn in Es. destruct m; [destruct (present (fs p)); inversion Es; reflexivity|inversion Es; reflexivity]. }
        subst f. cbn [handlers_after].
        destruct (run_prefix_mkdirs anc rest k' fs) as [(fs1 & o & E & Ho & C) | (fs1 & k1 & E & C)].
        -- exists fs1. split; [exact C|]. left. exists o. rewrite E. split; [reflexivity|exact Ho].
        -- exists fs1. split; [exact C|]. right. exists (S k1). rewrite E.
           assert (Hp1 : fs1 p = fs p).
           { destruct (C p) as [Eq | (Hin & _)]; [exact Eq|contradiction]. }
           assert (Es1 : step (CheckTarget m p) fs1 = inr fs1).
           { cbn in Es |- *. rewrite Hp1. destruct m; [destruct (present (fs p)); [discriminate Es|reflexivity]|reflexivity]. }
           change (save_prog SDir m p ts tz ws zs) with (CheckTarget m p :: rest).
           cbn [run_prefix]. rewrite Es1. cbn [handlers_after]. reflexivity.
Qed.

Definition tree_pre (p ts tz : path) (anc : list path) (fs : fsys) : Prop :=
  (p <> ts /\ p <> tz /\ ts <> tz /\ fs ts = Absent /\ fs tz = Absent) /\
  ~ In p anc /\ ~ In ts anc /\ ~ In tz anc.

Lemma created_only_pre p ts tz anc fs fs1 :
  tree_pre p ts tz anc fs -> created_only anc fs fs1 ->
  (p <> ts /\ p <> tz /\ ts <> tz /\ fs1 ts = Absent /\ fs1 tz = Absent) /\ fs1 p = fs p.
Proof.
  intros ((H1 & H2 & H3 & H4 & H5) & Hp & Hts & Htz) C.
  assert (Ets : fs1 ts = fs ts) by (destruct (C ts) as [E | (Hin & _)]; [exact E|contradiction]).
  assert (Etz : fs1 tz = fs tz) by (destruct (C tz) as [E | (Hin & _)]; [exact E|contradiction]).
  assert (Ep : fs1 p = fs p) by (destruct (C p) as [E | (Hin & _)]; [exact E|contradiction]).
  repeat split; try assumption; congruence.
Qed.

(* FRAME with ancestors: whatever the fault index, store and mode, every path other than the target ends as
   it was, except that missing directories above the target may have been created (empty) *)
Theorem tree_frame st m p anc ts tz ws zs fs k q :
  tree_pre p ts tz anc fs -> q <> p ->
  let fs' := fst (tree_run k st m p anc ts tz ws zs fs) in
  fs' q = fs q \/ (In q anc /\ fs q = Absent /\ fs' q = Dir []).
Proof.
  intros Hpre Hq fs'. subst fs'.
  destruct (tree_run_reduces st m p anc ts tz ws zs fs k) as (fs1 & C & [(o & E & _) | (k1 & E)]).
  { apply Hpre. }
  - rewrite E. cbn [fst]. apply C.
  - rewrite E. destruct (created_only_pre _ _ _ _ _ _ Hpre C) as (P1 & _).
    rewrite (frame_all st m p ts tz ws zs fs1 k1 q P1 Hq). apply C.
Qed.

(* every PRE-EXISTING path other than the target is still there, unchanged (after a failed save as after a
   successful one) *)
Corollary tree_preexisting_kept st m p anc ts tz ws zs fs k q :
  tree_pre p ts tz anc fs -> q <> p -> fs q <> Absent ->
  fst (tree_run k st m p anc ts tz ws zs fs) q = fs q.
Proof.
  intros Hpre Hq Hex.
  destruct (tree_frame st m p anc ts tz ws zs fs k q Hpre Hq) as [E | (_ & Ha & _)]; [exact E|contradiction].
Qed.

(* the target: untouched, absent, or the complete new store *)
Theorem tree_no_partial_entry st m p anc ts tz ws zs fs k :
  tree_pre p ts tz anc fs ->
  let fs' := fst (tree_run k st m p anc ts tz ws zs fs) in
  fs' p = fs p \/ fs' p = Absent \/ fs' p = final_entry st ws zs.
Proof.
  intros Hpre fs'. subst fs'.
  destruct (tree_run_reduces st m p anc ts tz ws zs fs k) as (fs1 & C & [(o & E & _) | (k1 & E)]).
  { apply Hpre. }
  - rewrite E. cbn [fst]. left. apply (created_only_pre _ _ _ _ _ _ Hpre C).
  - rewrite E. destruct (created_only_pre _ _ _ _ _ _ Hpre C) as (P1 & Ep).
    rewrite <- Ep. exact (no_partial_entry st m p ts tz ws zs fs1 k1 P1).
Qed.

Theorem tree_no_partial_loadable markers st m p anc ts tz ws zs fs k :
  tree_pre p ts tz anc fs ->
  match load_model markers (fst (tree_run k st m p anc ts tz ws zs fs)) p with
  | LErr => True
  | LObj c => load_model markers fs p = LObj c \/ c = final_content st ws zs
  end.
Proof.
  intros Hpre.
  destruct (tree_run_reduces st m p anc ts tz ws zs fs k) as (fs1 & C & [(o & E & _) | (k1 & E)]).
  { apply Hpre. }
  - rewrite E. cbn [fst]. destruct (created_only_pre _ _ _ _ _ _ Hpre C) as (_ & Ep).
    unfold load_model. rewrite Ep.
    destruct (fs p) as [|c|[|] c|]; try exact I; destruct (has_marker markers c); try exact I; left; reflexivity.
  - rewrite E. destruct (created_only_pre _ _ _ _ _ _ Hpre C) as (P1 & Ep).
    pose proof (no_partial_loadable markers st m p ts tz ws zs fs1 k1 P1) as H.
    assert (El : load_model markers fs1 p = load_model markers fs p) by (unfold load_model; rewrite Ep; reflexivity).
    rewrite El in H. exact H.
Qed.

(* write-once: an existing target, mode 'w': NOTHING is modified (no directory is created either) *)
Theorem tree_write_once st p anc ts tz ws zs fs k :
  fs p <> Absent ->
  (forall q, fst (tree_run k st MW p anc ts tz ws zs fs) q = fs q) /\
  (1 <= k -> snd (tree_run k st MW p anc ts tz ws zs fs) = ErrExists).
Proof.
  intros Hex.
  assert (Hp : present (fs p) = true) by (destruct (fs p); [contradiction| | |]; reflexivity).
  destruct st; unfold tree_run, tree_prog.
  - destruct (forallb (fun q => is_dir (fs q)) anc).
    + destruct k as [|k']; unfold run; cbn [run_prefix app]; [split; [reflexivity|lia]|].
      cbn [step]. rewrite Hp. cbn. split; [reflexivity|reflexivity].
    + destruct k as [|k']; [split; [reflexivity|lia]|].
      cbn [step]. rewrite Hp. split; reflexivity.
  - destruct k as [|k']; unfold run; cbn [run_prefix]; [split; [reflexivity|lia]|].
    cbn [step]. rewrite Hp. cbn. split; reflexivity.
Qed.

(* a successful save installs the complete store; what else changed: missing directories created *)
Theorem tree_success_complete st m p anc ts tz ws zs fs k :
  tree_pre p ts tz anc fs ->
  snd (tree_run k st m p anc ts tz ws zs fs) = Done ->
  fst (tree_run k st m p anc ts tz ws zs fs) p = final_entry st ws zs.
Proof.
  intros Hpre Hd.
  destruct (tree_run_reduces st m p anc ts tz ws zs fs k) as (fs1 & C & [(o & E & Ho) | (k1 & E)]).
  { apply Hpre. }
  - rewrite E in Hd. cbn in Hd. contradiction.
  - rewrite E in Hd |- *. destruct (created_only_pre _ _ _ _ _ _ Hpre C) as (P1 & _).
    exact (done_installed st m p ts tz ws zs fs1 k1 P1 Hd).
Qed.

(* the directory store does create the missing directories (so `created_only` is not satisfied by a model
   that never creates anything), the zip store refuses *)
Lemma tree_nonvacuous_dir_creates :
  let fs0 := tree_fs Absent [2; 1; 0; 0]%Z in
  let r := tree_run 100 SDir MW 0 (anc_paths [2; 1; 0; 0]%Z) 1 2 [1; 2]%Z [] fs0 in
  snd r = Done /\ fst r 8 = Dir [] /\ fst r 9 = Dir [] /\ fst r 7 = Dir [] /\ fst r 6 = Dir [78%Z]
  /\ fst r 0 = Dir [1; 2]%Z.
Proof. vm_compute. repeat split. Qed.

Lemma tree_nonvacuous_zip_refuses :
  let fs0 := tree_fs Absent [2; 1; 0; 0]%Z in
  let r := tree_run 100 SZip MW 0 (anc_paths [2; 1; 0; 0]%Z) 1 2 [1; 2]%Z [501; 502]%Z fs0 in
  snd r = ErrOther /\ fst r 8 = Absent /\ fst r 0 = Absent.
Proof. vm_compute. repeat split. Qed.

(* ---------------------------------------------------------------- refutation: pruning clean-up *)
(* the statement for an arbitrary clean-up environment *)
Definition tree_kept_under (E : list path -> env) : Prop :=
  forall (m : mode) (p : path) (anc : list path) (ts tz : path) (ws zs : list item) (fs : fsys) (k : nat) (q : path),
    tree_pre p ts tz anc fs -> q <> p -> fs q <> Absent ->
    fst (run_x (E anc) k (tree_prog SDir m p anc ts tz ws zs) fs) q = fs q.

(* with the handlers the code has (std_env) it holds: run_x std_env = run *)
Lemma tree_kept_std : tree_kept_under (fun _ => std_env).
Proof.
  intros m p anc ts tz ws zs fs k q Hpre Hq Hex.
  rewrite run_x_std. change (run k (tree_prog SDir m p anc ts tz ws zs) fs) with (tree_run k SDir m p anc ts tz ws zs fs).
  exact (tree_preexisting_kept SDir m p anc ts tz ws zs fs k q Hpre Hq Hex).
Qed.

(* a clean-up that prunes empty directories upwards (os.removedirs as the "inverse" of os.makedirs) removes
   a directory that was there before the save: target 0 below 6/7, 6 exists and is empty, 7 is missing, the
   save fails at its first write *)
Lemma tree_prune_refuted : ~ tree_kept_under prune_env.
Proof.
  intros H.
  specialize (H MW 0 [6; 7] 1 2 [1; 2]%Z [] (tree_fs Absent [1; 0]%Z) 4 6).
  assert (Hpre : tree_pre 0 1 2 [6; 7] (tree_fs Absent [1; 0]%Z)).
  { split; [repeat split; discriminate|]. repeat split; cbn; intros [X|[X|[]]]; discriminate. }
  specialize (H Hpre ltac:(discriminate) ltac:(cbn; discriminate)).
  vm_compute in H. discriminate H.
Qed.
