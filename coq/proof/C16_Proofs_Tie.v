(* C16 — lemmas about the fixed meanings of lib/C16_TieLib.v (used by the fixed proof script
   gen_proofs/C16_GenProofs.v that ties the definitions TRANSLATED from the source to the model):
   a guarded product of exponentials is one exponential of the total phase and has unit modulus WHATEVER
   its phases are; torch's zeros + index_add_ is the model's scatter; scatter is linear (real and imaginary
   parts scattered separately recombine); gathering real and imaginary parts separately is gathering. *)
From Coq Require Import ZArith List Lia Ring Arith.
From QV.lib Require Import FinSum DFT DFT2 C16_TieLib.
From QV.model Require Import C16_Model C16_Model_Kernel.
From QV.proof Require Import C16_Proofs.
Import ListNotations.

Section ScatterTie.
  Variable R : Type.
  Variables (rO rI : R) (radd rmul rsub : R -> R -> R) (ropp : R -> R).
  Variable Rth : ring_theory rO rI radd rmul rsub ropp (@eq R).
  Add Ring RringTieS : Rth.
  Set Default Proof Using "All".
  Notation "0" := rO.
  Infix "+" := radd.   Infix "*" := rmul.
  Notation scatter := (scatter rO radd).

  Lemma py_index_add_zeros_is_scatter idx vals n : py_index_add radd (py_zeros rO) idx vals n = scatter idx vals n.
  Proof. reflexivity. Qed.

  (* scatter (re + c im) = scatter re + c scatter im, for equally long value lists (the real and imaginary parts of ONE tensor) *)
  Theorem scatter_linear c idx : forall (re im : list R) n, length re = length im ->
    scatter idx (zipw (fun a b => a + c * b) re im) n = scatter idx re n + c * scatter idx im n.
  Proof.
    induction idx as [|i idx IH]; intros re im n Hl.
    - unfold C16_Model.scatter. cbn [combine fold_left]. ring.
    - destruct re as [|a re], im as [|b im]; try discriminate.
      + cbn [zipw]. rewrite !(scatter_nil_r Rth). ring.
      + cbn [zipw]. rewrite !(scatter_cons Rth). rewrite IH by (cbn in Hl; lia).
        destruct (Nat.eqb i n); ring.
  Qed.

  Lemma zipw_map_map (f : R -> R -> R) (re im : nat -> R) idx :
    zipw f (map re idx) (map im idx) = map (fun n => f (re n) (im n)) idx.
  Proof. induction idx as [|i idx IH]; [reflexivity|]. cbn [map zipw]. rewrite IH. reflexivity. Qed.
End ScatterTie.

Section EprodTie.
  Variable R : Type.
  Variables (rO rI : R) (radd rmul rsub : R -> R -> R) (ropp : R -> R).
  Variable Rth : ring_theory rO rI radd rmul rsub ropp (@eq R).
  Add Ring RringTieE : Rth.
  Variable conj : R -> R.
  Hypothesis Cok : conj_ok radd rmul conj.
  Variable P : Type.
  Variables (pO pI : P) (padd pmul psub : P -> P -> P) (popp : P -> P).
  Variable Pth : ring_theory pO pI padd pmul psub popp (@eq P).
  Add Ring PringTieE : Pth.
  Variable E : P -> R.
  Hypothesis E_add : forall a b, E (padd a b) = rmul (E a) (E b).
  Hypothesis E_zero : E pO = rI.
  Hypothesis E_conj : forall a, conj (E a) = E (popp a).
  Infix "*" := rmul.

  Lemma eprod_from_esum l : forall a, eprod_from rmul E (E a) l = E (padd a (esum pO padd l)).
  Proof using Rth Pth E_add.
    induction l as [|[b p] l IH]; intros a; cbn [eprod_from esum].
    - f_equal. ring.
    - destruct b.
      + rewrite <- E_add, IH. f_equal. ring.
      + rewrite IH. f_equal. ring.
  Qed.

  (* the array the code builds as a product of exponentials is ONE exponential of the summed phase *)
  Theorem eprod_esum l : eprod rI rmul E l = E (esum pO padd l).
  Proof using Rth Pth E_add E_zero.
    destruct l as [|[b p] l]; cbn [eprod esum]; [symmetry; exact E_zero|].
    destruct b.
    - apply eprod_from_esum.
    - rewrite <- E_zero, eprod_from_esum. reflexivity.
  Qed.

  (* ... and has unit modulus, whatever the phases and the guards are *)
  Theorem eprod_unit l : abs2 rmul conj (eprod rI rmul E l) = rI.
  Proof using Rth Pth E_add E_zero E_conj.
    rewrite eprod_esum. unfold abs2. rewrite E_conj, <- E_add.
    replace (padd (esum pO padd l) (popp (esum pO padd l))) with pO by ring. exact E_zero.
  Qed.
End EprodTie.

Arguments eprod_esum {R rO rI radd rmul rsub ropp} Rth {P pO pI padd pmul psub popp} Pth {E} E_add E_zero l.
Arguments eprod_unit {R rO rI radd rmul rsub ropp} Rth {conj P pO pI padd pmul psub popp} Pth {E} E_add E_zero E_conj l.
