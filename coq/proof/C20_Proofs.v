(* C20 — proofs about the executable model (model/C20_Model.v): NaN / infinity algebra of the
   interval map for an ARBITRARY carrier of finite values, and the limits the three interval
   types compute from data with NaN / inf (quantile with linear interpolation, min/max,
   centred half-range) over Q.  Standard library only; no axioms. *)
From QV.lib Require Import Prelude FloatBits.
From QV.model Require Import C20_Model.
From Coq Require Import QArith Qround Lqa Sorted.
Local Close Scope Q_scope.
Set Implicit Arguments.

(* ================================================================= extended values *)
Section ExtendedFacts.
  Context {A : Type} (K : carrier A).

  Lemma x_clip01_fin_or_nan (v : xval A) :
    (exists a, x_clip01 K v = Fin a) \/ (x_clip01 K v = XNaN /\ v = XNaN).
  Proof. destruct v; simpl; eauto. Qed.

  Lemma x_sub_nan_iff v c : x_sub K v c = XNaN <-> v = XNaN.
  Proof. destruct v; simpl; split; congruence. Qed.

  Lemma x_div_nan_iff v d : x_div K v d = XNaN <-> v = XNaN.
  Proof. destruct v; simpl; try destruct (k_ltb K d (k_zero K)); split; congruence. Qed.

  Lemma x_clip01_nan_iff v : x_clip01 K v = XNaN <-> v = XNaN.
  Proof. destruct v; simpl; split; congruence. Qed.

  (* the interval map returns NaN exactly on NaN ... *)
  Lemma x_interval_map_nan_iff vmin vmax v :
    x_interval_map K vmin vmax v = XNaN <-> v = XNaN.
  Proof.
    unfold x_interval_map. rewrite x_clip01_nan_iff.
    destruct (k_eqb K (k_sub K vmax vmin) (k_zero K)).
    - apply x_sub_nan_iff.
    - rewrite x_div_nan_iff. apply x_sub_nan_iff.
  Qed.

  (* ... and never an infinity *)
  Lemma x_interval_map_no_inf vmin vmax v :
    x_interval_map K vmin vmax v <> PInf /\ x_interval_map K vmin vmax v <> NInf.
  Proof.
    unfold x_interval_map.
    destruct (x_clip01_fin_or_nan
                (if k_eqb K (k_sub K vmax vmin) (k_zero K) then x_sub K v vmin
                 else x_div K (x_sub K v vmin) (k_sub K vmax vmin))) as [[a E] | [E _]];
      rewrite E; split; congruence.
  Qed.

  Lemma x_norm_nan_iff f vmin vmax v : x_norm K f vmin vmax v = XNaN <-> v = XNaN.
  Proof.
    unfold x_norm. rewrite <- (x_interval_map_nan_iff vmin vmax v).
    destruct (x_interval_map K vmin vmax v); simpl; split; congruence.
  Qed.

  (* masked (np.ma.masked_invalid) exactly at the NaN inputs: a NaN never becomes a number, and
     no number (finite or infinite) is lost *)
  Lemma x_norm_masked_iff f vmin vmax v :
    x_masked (x_norm K f vmin vmax v) = true <-> v = XNaN.
  Proof.
    rewrite <- (x_norm_nan_iff f vmin vmax v). unfold x_norm.
    destruct (x_interval_map_no_inf vmin vmax v) as [HP HN].
    destruct (x_interval_map K vmin vmax v); simpl; split; congruence.
  Qed.

  (* +inf is clipped to the top, -inf to the bottom, whenever vmax - vmin is not negative
     (zero included: the divide is skipped) *)
  Lemma x_norm_inf f vmin vmax :
    k_ltb K (k_sub K vmax vmin) (k_zero K) = false ->
    x_norm K f vmin vmax PInf = Fin (f (k_one K)) /\
    x_norm K f vmin vmax NInf = Fin (f (k_zero K)).
  Proof.
    intros Hd. unfold x_norm, x_interval_map.
    destruct (k_eqb K (k_sub K vmax vmin) (k_zero K)); simpl; [auto |].
    rewrite Hd. simpl. auto.
  Qed.

  Lemma x_norm_fin f vmin vmax a :
    x_norm K f vmin vmax (Fin a) =
    Fin (f (k_min K (k_max K (if k_eqb K (k_sub K vmax vmin) (k_zero K)
                               then k_sub K a vmin
                               else k_div K (k_sub K a vmin) (k_sub K vmax vmin))
                              (k_zero K)) (k_one K))).
  Proof.
    unfold x_norm, x_interval_map.
    destruct (k_eqb K (k_sub K vmax vmin) (k_zero K)); reflexivity.
  Qed.

  Lemma finite_of_In (data : list (xval A)) a : In a (finite_of data) <-> In (Fin a) data.
  Proof.
    unfold finite_of. rewrite in_flat_map. split.
    - intros [v [Hv Ha]]. destruct v; simpl in Ha; try contradiction.
      destruct Ha as [-> | []]. exact Hv.
    - intros H. exists (Fin a). split; [exact H | simpl; auto].
  Qed.
End ExtendedFacts.

(* ================================================================= Q: min / max of the data *)
Local Open Scope Q_scope.

Lemma Qleb_false a b : Qle_bool a b = false -> b <= a.
Proof.
  intros H. apply Qlt_le_weak. apply Qnot_le_lt. intros Hle.
  apply Qle_bool_iff in Hle. congruence.
Qed.

Lemma kmin_spec a b : (k_min Qcarrier a b = a \/ k_min Qcarrier a b = b) /\
                      k_min Qcarrier a b <= a /\ k_min Qcarrier a b <= b.
Proof.
  unfold k_min; simpl. destruct (Qle_bool a b) eqn:E.
  - apply Qle_bool_iff in E. repeat split; auto; lra.
  - apply Qleb_false in E. repeat split; auto; lra.
Qed.

Lemma kmax_spec a b : (k_max Qcarrier a b = a \/ k_max Qcarrier a b = b) /\
                      a <= k_max Qcarrier a b /\ b <= k_max Qcarrier a b.
Proof.
  unfold k_max; simpl. destruct (Qle_bool a b) eqn:E.
  - apply Qle_bool_iff in E. repeat split; auto; lra.
  - apply Qleb_false in E. repeat split; auto; lra.
Qed.

Lemma list_min_spec l : forall x,
  In (list_min Qcarrier x l) (x :: l) /\ forall y, In y (x :: l) -> list_min Qcarrier x l <= y.
Proof.
  unfold list_min. induction l as [|z l IH]; intros x; simpl.
  - split; [auto |]. intros y [<- | []]. lra.
  - destruct (IH (k_min Qcarrier x z)) as [Hin Hle]. simpl in Hin.
    destruct (kmin_spec x z) as [Hc [Hx Hz]]. split.
    + destruct Hin as [E | Hin]; [| auto]. rewrite <- E. destruct Hc as [-> | ->]; auto.
    + intros y Hy.
      assert (Hm : fold_left (k_min Qcarrier) l (k_min Qcarrier x z) <= k_min Qcarrier x z)
        by (apply Hle; simpl; auto).
      destruct Hy as [<- | [<- | Hy]]; [lra | lra |]. apply Hle. simpl; auto.
Qed.

Lemma list_max_spec l : forall x,
  In (list_max Qcarrier x l) (x :: l) /\ forall y, In y (x :: l) -> y <= list_max Qcarrier x l.
Proof.
  unfold list_max. induction l as [|z l IH]; intros x; simpl.
  - split; [auto |]. intros y [<- | []]. lra.
  - destruct (IH (k_max Qcarrier x z)) as [Hin Hle]. simpl in Hin.
    destruct (kmax_spec x z) as [Hc [Hx Hz]]. split.
    + destruct Hin as [E | Hin]; [| auto]. rewrite <- E. destruct Hc as [-> | ->]; auto.
    + intros y Hy.
      assert (Hm : k_max Qcarrier x z <= fold_left (k_max Qcarrier) l (k_max Qcarrier x z))
        by (apply Hle; simpl; auto).
      destruct Hy as [<- | [<- | Hy]]; [lra | lra |]. apply Hle. simpl; auto.
Qed.

(* np.min / np.max of the finite data are attained and bound every finite datum *)
Lemma data_minmax_spec data dmin dmax :
  data_minmax Qcarrier data = Some (dmin, dmax) ->
  In dmin (finite_of data) /\ In dmax (finite_of data) /\
  (forall x, In x (finite_of data) -> dmin <= x /\ x <= dmax).
Proof.
  unfold data_minmax. destruct (finite_of data) as [|x r]; [discriminate |].
  intros E. injection E as <- <-.
  destruct (list_min_spec r x) as [Hi1 Hl1]. destruct (list_max_spec r x) as [Hi2 Hl2].
  repeat split; auto.
Qed.

Lemma data_minmax_none data : data_minmax Qcarrier data = None <-> finite_of data = [].
Proof. unfold data_minmax. destruct (finite_of data); split; congruence. Qed.

Lemma data_minmax_ordered data dmin dmax :
  data_minmax Qcarrier data = Some (dmin, dmax) -> dmin <= dmax.
Proof.
  intros H. destruct (data_minmax_spec _ H) as [Hi [_ Hb]]. apply (Hb dmin Hi).
Qed.

(* at least two distinct finite values: the min/max limits are strictly ordered *)
Lemma data_minmax_strict data dmin dmax x y :
  data_minmax Qcarrier data = Some (dmin, dmax) ->
  In x (finite_of data) -> In y (finite_of data) -> ~ x == y -> dmin < dmax.
Proof.
  intros H Hx Hy Hne. destruct (data_minmax_spec _ H) as [_ [_ Hb]].
  destruct (Hb x Hx), (Hb y Hy).
  destruct (Qlt_le_dec dmin dmax) as [|Hge]; [assumption |].
  exfalso. apply Hne. lra.
Qed.

Lemma Qabs'_spec q : 0 <= Qabs' q /\ q <= Qabs' q /\ - q <= Qabs' q.
Proof.
  unfold Qabs'. destruct (Qle_bool 0 q) eqn:E.
  - apply Qle_bool_iff in E. repeat split; lra.
  - apply Qleb_false in E. repeat split; lra.
Qed.

(* CenteredInterval with the default half range: symmetric about vcenter and covering the data *)
Lemma limits_centered_default c data vmin vmax :
  limits_centered c None data = Some (vmin, vmax) ->
  vmin + vmax == 2 * c /\ vmin <= vmax /\
  (forall x, In x (finite_of data) -> vmin <= x /\ x <= vmax).
Proof.
  unfold limits_centered. destruct (data_minmax Qcarrier data) as [[dmin dmax]|] eqn:E; [| discriminate].
  intros H. injection H as <- <-.
  destruct (data_minmax_spec _ E) as [_ [_ Hb]].
  set (h := Qmax' (Qabs' (dmin - c)) (Qabs' (dmax - c))).
  destruct (kmax_spec (Qabs' (dmin - c)) (Qabs' (dmax - c))) as [_ [H1 H2]]. fold (Qmax' (Qabs' (dmin - c)) (Qabs' (dmax - c))) in H1, H2. fold h in H1, H2.
  destruct (Qabs'_spec (dmin - c)) as [P1 [P2 P3]]. destruct (Qabs'_spec (dmax - c)) as [R1 [R2 R3]].
  repeat split; try lra; destruct (Hb x H); lra.
Qed.

Lemma limits_centered_explicit c h data :
  limits_centered c (Some h) data = Some (c - h, c + h).
Proof. reflexivity. Qed.

(* ================================================================= Q: sorting *)
Lemma qinsert_In x l z : In z (qinsert x l) <-> z = x \/ In z l.
Proof.
  induction l as [|y r IH]; simpl.
  - intuition.
  - destruct (Qle_bool x y); simpl; [intuition | rewrite IH; intuition].
Qed.

Lemma qinsert_length x l : length (qinsert x l) = S (length l).
Proof. induction l as [|y r IH]; simpl; [reflexivity |]. destruct (Qle_bool x y); simpl; lia. Qed.

Lemma qinsert_sorted x l : StronglySorted Qle l -> StronglySorted Qle (qinsert x l).
Proof.
  induction 1 as [|y r Hs IH Hall]; simpl.
  - constructor; constructor.
  - destruct (Qle_bool x y) eqn:E.
    + apply Qle_bool_iff in E. constructor.
      * constructor; assumption.
      * constructor; [exact E |]. eapply Forall_impl; [| exact Hall].
        intros a Ha. simpl in Ha. lra.
    + apply Qleb_false in E. constructor; [exact IH |].
      apply Forall_forall. intros z Hz. apply qinsert_In in Hz. destruct Hz as [-> | Hz]; [exact E |].
      rewrite Forall_forall in Hall. now apply Hall.
Qed.

Lemma qsort_sorted l : StronglySorted Qle (qsort l).
Proof. induction l as [|x l IH]; simpl; [constructor | now apply qinsert_sorted]. Qed.

Lemma qsort_In l z : In z (qsort l) <-> In z l.
Proof. induction l as [|x l IH]; simpl; [tauto |]. rewrite qinsert_In, IH. intuition. Qed.

Lemma qsort_length l : length (qsort l) = length l.
Proof. induction l as [|x l IH]; simpl; [reflexivity |]. now rewrite qinsert_length, IH. Qed.

Lemma SS_nth s : StronglySorted Qle s ->
  forall i j, (i <= j < length s)%nat -> nth i s 0 <= nth j s 0.
Proof.
  induction 1 as [|a l Hs IH Hall]; intros i j [Hij Hj]; simpl in *; [lia |].
  destruct i as [|i], j as [|j]; try lia.
  - lra.
  - rewrite Forall_forall in Hall. apply Hall. apply nth_In. lia.
  - apply IH. lia.
Qed.

(* ================================================================= Q: quantile *)
Section Quantile.
  Variable s : list Q.
  Hypothesis Hs : StronglySorted Qle s.

  Lemma next_ge i : (i < length s)%nat -> nth i s 0 <= nth (S i) s (nth i s 0).
  Proof.
    intros Hi. destruct (Nat.lt_ge_cases (S i) (length s)) as [Hlt | Hge].
    - rewrite (nth_indep s (nth i s 0) 0 Hlt). apply SS_nth; [exact Hs | lia].
    - rewrite (@nth_overflow _ s (S i) (nth i s 0) Hge). lra.
  Qed.

  Lemma lerp_lo i t : (i < length s)%nat -> 0 <= t -> nth i s 0 <= lerp_at s i t.
  Proof. intros Hi Ht. unfold lerp_at. pose proof (next_ge Hi). nra. Qed.

  Lemma lerp_hi i t : (i < length s)%nat -> t <= 1 -> lerp_at s i t <= nth (S i) s (nth i s 0).
  Proof. intros Hi Ht. unfold lerp_at. pose proof (next_ge Hi). nra. Qed.

  Lemma lerp_mono_t i t t' : (i < length s)%nat -> t <= t' -> lerp_at s i t <= lerp_at s i t'.
  Proof. intros Hi Ht. unfold lerp_at. pose proof (next_ge Hi). nra. Qed.

  Lemma lerp_cross i i' t t' :
    (i < i')%nat -> (i' < length s)%nat -> t <= 1 -> 0 <= t' -> lerp_at s i t <= lerp_at s i' t'.
  Proof.
    intros Hii Hi' Ht Ht'.
    apply Qle_trans with (nth (S i) s (nth i s 0)); [apply lerp_hi; [lia | exact Ht] |].
    apply Qle_trans with (nth i' s 0); [| apply lerp_lo; assumption].
    rewrite (nth_indep s (nth i s 0) 0) by lia. apply SS_nth; [exact Hs | lia].
  Qed.

  Lemma lerp_in_bounds i t m M :
    (i < length s)%nat -> 0 <= t -> t <= 1 ->
    (forall x, In x s -> m <= x) -> (forall x, In x s -> x <= M) ->
    m <= lerp_at s i t /\ lerp_at s i t <= M.
  Proof.
    intros Hi Ht0 Ht1 Hm HM. split.
    - apply Qle_trans with (nth i s 0); [apply Hm, nth_In, Hi | now apply lerp_lo].
    - apply Qle_trans with (nth (S i) s (nth i s 0)); [now apply lerp_hi |].
      destruct (Nat.lt_ge_cases (S i) (length s)) as [Hlt | Hge].
      + apply HM, nth_In, Hlt.
      + rewrite (@nth_overflow _ s (S i) (nth i s 0) Hge). apply HM, nth_In, Hi.
  Qed.

  (* position of a quantile in [0, 1]: index and weight *)
  Lemma qpos q :
    s <> [] -> 0 <= q -> q <= 1 ->
    let h := q * inject_Z (Z.of_nat (length s) - 1) in
    (0 <= Qfloor h)%Z /\ (Z.to_nat (Qfloor h) < length s)%nat /\
    0 <= h - inject_Z (Qfloor h) /\ h - inject_Z (Qfloor h) <= 1.
  Proof.
    intros Hne Hq0 Hq1 h.
    assert (Hn : (1 <= length s)%nat) by (destruct s; [congruence | simpl; lia]).
    assert (HN : 0 <= inject_Z (Z.of_nat (length s) - 1)).
    { change 0 with (inject_Z 0). rewrite <- Zle_Qle. lia. }
    assert (Hh0 : 0 <= h) by (unfold h; nra).
    assert (HhN : h <= inject_Z (Z.of_nat (length s) - 1)) by (unfold h; nra).
    assert (Hf0 : (0 <= Qfloor h)%Z).
    { change 0%Z with (Qfloor 0). now apply Qfloor_resp_le. }
    assert (HfN : (Qfloor h <= Z.of_nat (length s) - 1)%Z).
    { rewrite <- (Qfloor_Z (Z.of_nat (length s) - 1)). now apply Qfloor_resp_le. }
    pose proof (Qfloor_le h) as Hfl. pose proof (Qlt_floor h) as Hfu.
    rewrite inject_Z_plus in Hfu. change (inject_Z 1) with 1 in Hfu.
    repeat split; try lia; lra.
  Qed.

  Theorem quantile_mono p q :
    s <> [] -> 0 <= p -> p <= q -> q <= 1 -> quantile s p <= quantile s q.
  Proof.
    intros Hne Hp Hpq Hq. unfold quantile.
    set (N := inject_Z (Z.of_nat (length s) - 1)).
    destruct (qpos Hne Hp (Qle_trans _ _ _ Hpq Hq)) as [Pf [Pi [Pt0 Pt1]]].
    destruct (qpos Hne (Qle_trans _ _ _ Hp Hpq) Hq) as [Qf [Qi [Qt0 Qt1]]].
    fold N in Pf, Pi, Pt0, Pt1, Qf, Qi, Qt0, Qt1.
    assert (HN : 0 <= N).
    { unfold N. change 0 with (inject_Z 0). rewrite <- Zle_Qle.
      destruct s; [congruence | simpl length; lia]. }
    assert (Hh : p * N <= q * N) by nra.
    pose proof (Qfloor_resp_le _ _ Hh) as Hff.
    destruct (Z.eq_dec (Qfloor (p * N)) (Qfloor (q * N))) as [E | NE].
    - rewrite <- E in *. apply lerp_mono_t; [exact Pi | lra].
    - apply lerp_cross; try assumption. lia.
  Qed.

  Theorem quantile_bounds q m M :
    s <> [] -> 0 <= q -> q <= 1 ->
    (forall x, In x s -> m <= x) -> (forall x, In x s -> x <= M) ->
    m <= quantile s q /\ quantile s q <= M.
  Proof.
    intros Hne Hq0 Hq1 Hm HM. unfold quantile.
    destruct (qpos Hne Hq0 Hq1) as [_ [Pi [Pt0 Pt1]]].
    now apply lerp_in_bounds.
  Qed.
End Quantile.

(* QuantileInterval.get_limits: ordered, and inside [min, max] of the finite data *)
Theorem limits_quantile_spec lq uq data vmin vmax :
  0 <= lq -> lq <= uq -> uq <= 1 ->
  limits_quantile lq uq data = Some (vmin, vmax) ->
  vmin <= vmax /\
  (forall m, (forall x, In x (finite_of data) -> m <= x) -> m <= vmin) /\
  (forall M, (forall x, In x (finite_of data) -> x <= M) -> vmax <= M).
Proof.
  intros H0 H1 H2. unfold limits_quantile.
  pose proof (qsort_sorted (finite_of data)) as Hs.
  destruct (qsort (finite_of data)) as [|a r] eqn:E; [discriminate |].
  intros H. injection H as <- <-.
  assert (Hne : a :: r <> []) by congruence.
  assert (HIn : forall x, In x (a :: r) <-> In x (finite_of data)).
  { intros x. rewrite <- E. apply qsort_In. }
  split; [| split].
  - apply quantile_mono; assumption.
  - intros m Hm.
    apply (quantile_bounds Hs (q := lq) (m := m) (M := list_max Qcarrier a r)); try assumption; try lra.
    + intros x Hx. apply Hm. now apply HIn.
    + intros x Hx. now apply (proj2 (list_max_spec r a)).
  - intros M HM.
    apply (quantile_bounds Hs (q := uq) (m := list_min Qcarrier a r) (M := M)); try assumption; try lra.
    + intros x Hx. now apply (proj2 (list_min_spec r a)).
    + intros x Hx. apply HM. now apply HIn.
Qed.

Lemma limits_quantile_none lq uq data :
  limits_quantile lq uq data = None <-> finite_of data = [].
Proof.
  unfold limits_quantile. pose proof (qsort_length (finite_of data)) as HL.
  destruct (qsort (finite_of data)) eqn:E, (finite_of data) eqn:F; simpl in HL; split; congruence.
Qed.

(* ManualInterval.get_limits with no explicit limit = (min, max) of the finite data *)
Lemma limits_manual_default data :
  limits_manual None None data = data_minmax Qcarrier data.
Proof.
  unfold limits_manual. destruct (data_minmax Qcarrier data) as [[a b]|]; reflexivity.
Qed.

Lemma limits_manual_explicit a b data : limits_manual (Some a) (Some b) data = Some (a, b).
Proof. reflexivity. Qed.

(* ================================================================= statements as used in props/ *)
Lemma nan_preserved_all (A : Type) (K : carrier A) (f : A -> A) (vmin vmax : A) (v : xval A) :
  (x_norm K f vmin vmax v = XNaN <-> v = XNaN) /\
  (x_masked (x_norm K f vmin vmax v) = true <-> v = XNaN).
Proof. split; [apply x_norm_nan_iff | apply x_norm_masked_iff]. Qed.

Lemma inf_clipped_all (A : Type) (K : carrier A) (f : A -> A) (vmin vmax : A) :
  (k_ltb K (k_sub K vmax vmin) (k_zero K) = false ->
   x_norm K f vmin vmax PInf = Fin (f (k_one K)) /\
   x_norm K f vmin vmax NInf = Fin (f (k_zero K))) /\
  (forall v, x_interval_map K vmin vmax v <> PInf /\ x_interval_map K vmin vmax v <> NInf).
Proof. split; [apply x_norm_inf | apply x_interval_map_no_inf]. Qed.

Lemma limits_ordered_all :
  (forall lq uq data vmin vmax,
      0 <= lq -> lq <= uq -> uq <= 1 ->
      limits_quantile lq uq data = Some (vmin, vmax) ->
      vmin <= vmax /\
      (forall m, (forall x, In x (finite_of data) -> m <= x) -> m <= vmin) /\
      (forall M, (forall x, In x (finite_of data) -> x <= M) -> vmax <= M)) /\
  (forall lq uq data, limits_quantile lq uq data = None <-> finite_of data = []) /\
  (forall data dmin dmax,
      limits_manual None None data = Some (dmin, dmax) ->
      In dmin (finite_of data) /\ In dmax (finite_of data) /\
      (forall x, In x (finite_of data) -> dmin <= x /\ x <= dmax) /\
      (forall x y, In x (finite_of data) -> In y (finite_of data) -> ~ x == y -> dmin < dmax)) /\
  (forall c data vmin vmax,
      limits_centered c None data = Some (vmin, vmax) ->
      vmin + vmax == 2 * c /\ vmin <= vmax /\
      (forall x, In x (finite_of data) -> vmin <= x /\ x <= vmax)).
Proof.
  split; [exact limits_quantile_spec |].
  split; [exact limits_quantile_none |].
  split.
  - intros data dmin dmax H. rewrite limits_manual_default in H.
    destruct (data_minmax_spec _ H) as [H1 [H2 H3]].
    repeat split; try assumption; try (now apply H3).
    intros x y Hx Hy Hne. exact (@data_minmax_strict data dmin dmax x y H Hx Hy Hne).
  - exact limits_centered_default.
Qed.
