(* C10 proofs, part A: object hard constraints over Q (amplitude clamp, unit amplitude, positivity,
   slice tying, FOV mask (repaired), idempotence of the amplitude; tomography clamp/shrinkage). *)
From QV.lib Require Import Prelude C10_Cplx.
From QV.model Require Import C10_Model.
From Coq Require Import QArith Lqa.
Local Close Scope Q_scope.
Local Open Scope Q_scope.

(* ---------------------------------------------------------------- min / max / clamp *)
Lemma qmax_cases a b : (a <= b /\ qmax a b = b) \/ (b < a /\ qmax a b = a).
Proof.
  unfold qmax. destruct (Qle_bool a b) eqn:E.
  - left. split; [apply Qle_bool_iff; exact E | reflexivity].
  - right. split; [|reflexivity]. apply Qnot_le_lt. intro H. apply Qle_bool_iff in H. congruence.
Qed.

Lemma qmin_cases a b : (a <= b /\ qmin a b = a) \/ (b < a /\ qmin a b = b).
Proof.
  unfold qmin. destruct (Qle_bool a b) eqn:E.
  - left. split; [apply Qle_bool_iff; exact E | reflexivity].
  - right. split; [|reflexivity]. apply Qnot_le_lt. intro H. apply Qle_bool_iff in H. congruence.
Qed.

Ltac qmm :=
  repeat match goal with
         | |- context [qmax ?a ?b] =>
           let H := fresh "Hmx" in let E := fresh "Emx" in
           destruct (qmax_cases a b) as [[H E]|[H E]]; rewrite E in *; clear E
         | |- context [qmin ?a ?b] =>
           let H := fresh "Hmn" in let E := fresh "Emn" in
           destruct (qmin_cases a b) as [[H E]|[H E]]; rewrite E in *; clear E
         end.

Lemma qmax_nonneg x : 0 <= qmax x 0.
Proof. qmm; lra. Qed.

Lemma qclamp_01_bounds x : 0 <= qclamp x 0 1 <= 1.
Proof. unfold qclamp. qmm; lra. Qed.

Lemma qclamp_01_fix x : 0 <= x <= 1 -> qclamp x 0 1 == x.
Proof. intros H. unfold qclamp. qmm; lra. Qed.

Lemma qclamp_01_compat x y : x == y -> qclamp x 0 1 == qclamp y 0 1.
Proof. intros H. unfold qclamp. qmm; lra. Qed.

Lemma qclamp_01_idem x : qclamp (qclamp x 0 1) 0 1 == qclamp x 0 1.
Proof. apply qclamp_01_fix. apply qclamp_01_bounds. Qed.

(* ---------------------------------------------------------------- masks *)
Lemma use_mask_in_01 cfg mask : mask_in_01 mask -> mask_in_01 (use_mask cfg mask).
Proof. unfold use_mask. destruct (apply_fov_mask cfg); [auto | intros; exact I]. Qed.

(* every output element of map_mask satisfies P when f maps admissible mask values into P *)
Lemma map_mask_Forall {A B : Type} (Pm : Q -> Prop) (P : B -> Prop) (f : option Q -> A -> B) mask l :
  match mask with None => True | Some ms => Forall Pm ms end ->
  (forall x, P (f None x)) ->
  (forall m x, Pm m -> P (f (Some m) x)) ->
  Forall P (map_mask f mask l).
Proof.
  intros Hm Hn Hs. destruct mask as [ms|]; cbn [map_mask].
  - revert l. induction Hm as [|m ms Hm0 Hm IH]; intros [|x l]; cbn [combine map]; constructor.
    + apply Hs. exact Hm0.
    + apply IH.
  - induction l; cbn [map]; constructor; auto.
Qed.

(* ---------------------------------------------------------------- complex: 0 <= amplitude <= 1 *)
Theorem complex_amp_le_1 : forall cfg mask obj,
  mask_in_01 mask ->
  Forall (Forall (fun p : polar => 0 <= fst p <= 1)) (hard_polar Complex cfg mask obj).
Proof.
  intros cfg mask obj Hm. unfold hard_polar.
  apply Forall_forall. intros sl Hsl. apply in_map_iff in Hsl. destruct Hsl as [sl0 [E _]]. subst sl.
  apply (map_mask_Forall (fun m => 0 <= m <= 1)).
  - exact (use_mask_in_01 cfg mask Hm).
  - intros x. cbn [polar_pixel fst]. apply qclamp_01_bounds.
  - intros m x Hm0. cbn [polar_pixel fst]. pose proof (qclamp_01_bounds (fst x)). nra.
Qed.

(* ---------------------------------------------------------------- pure phase *)
(* amplitude exactly one: every configuration, every mask (applied or not, any values) *)
Theorem pure_phase_amp_eq_1 : forall cfg mask obj,
  Forall (Forall (fun p : polar => fst p == 1)) (hard_polar PurePhase cfg mask obj).
Proof.
  intros cfg mask obj. unfold hard_polar.
  apply Forall_forall. intros sl Hsl. apply in_map_iff in Hsl. destruct Hsl as [sl0 [E _]]. subst sl.
  apply (map_mask_Forall (fun _ => True)).
  - destruct (use_mask cfg mask); [|exact I]. apply Forall_forall. intros; exact I.
  - intros x. cbn [polar_pixel fst]. reflexivity.
  - intros m x _. cbn [polar_pixel fst]. reflexivity.
Qed.

(* the mask acts on the phase of a pure-phase pixel *)
Lemma pure_phase_pixel_masked mean_ph m p :
  polar_pixel PurePhase mean_ph (Some m) p = (1, (snd p - mean_ph) * m).
Proof. reflexivity. Qed.

(* the code before the repair: amplitude = mask^2 *)
Lemma pure_phase_pixel_unrepaired mean_ph m p :
  fst (polar_pixel_unrepaired PurePhase mean_ph (Some m) p) == m * m.
Proof. cbn [polar_pixel_unrepaired fst]. ring. Qed.

Definition cfg_masked : ocfg :=
  {| positivity := true; fix_baseline := false; baseline_factor := 1; identical_slices := false;
     apply_fov_mask := true |}.

(* ---------------------------------------------------------------- potential: positivity *)
Lemma qzip_add_nonneg a b : Forall (fun x => 0 <= x) a -> Forall (fun x => 0 <= x) b ->
  Forall (fun x => 0 <= x) (qzip_add a b).
Proof.
  intros Ha. revert b. unfold qzip_add.
  induction Ha as [|x a Hx Ha IH]; intros b Hb; [constructor|].
  destruct Hb as [|y b Hy Hb]; cbn [combine map]; constructor.
  - cbn [fst snd]. lra.
  - apply IH. exact Hb.
Qed.

Lemma slices_sum_nonneg xs : Forall (Forall (fun x => 0 <= x)) xs -> Forall (fun x => 0 <= x) (slices_sum xs).
Proof.
  intros H. destruct H as [|x r Hx Hr]; cbn [slices_sum]; [constructor|].
  revert x Hx. induction Hr as [|y r Hy Hr IH]; intros x Hx; cbn [fold_left]; [exact Hx|].
  apply IH. apply qzip_add_nonneg; assumption.
Qed.

Lemma inject_nat_nonneg n : 0 <= inject_Z (Z.of_nat n).
Proof. unfold Qle, inject_Z; cbn. lia. Qed.

Lemma slices_mean_nonneg xs : Forall (Forall (fun x => 0 <= x)) xs -> Forall (fun x => 0 <= x) (slices_mean xs).
Proof.
  intros H. unfold slices_mean. apply Forall_forall. intros y Hy.
  apply in_map_iff in Hy. destruct Hy as [s [E Hs]]. subst y.
  pose proof (slices_sum_nonneg xs H) as Hn. rewrite Forall_forall in Hn. specialize (Hn s Hs).
  pose proof (inject_nat_nonneg (length xs)) as Hd.
  destruct (Qeq_dec (inject_Z (Z.of_nat (length xs))) 0) as [E0|E0].
  - unfold Qdiv. rewrite E0. unfold Qinv; cbn. lra.
  - apply Qle_shift_div_l; lra.
Qed.

Lemma tie_if_nonneg cfg xs : Forall (Forall (fun x => 0 <= x)) xs -> Forall (Forall (fun x => 0 <= x)) (tie_if cfg xs).
Proof.
  intros H. unfold tie_if. destruct (Nat.ltb 1 (length xs) && identical_slices cfg)%bool; [|exact H].
  unfold tie_slices. apply Forall_forall. intros y Hy. apply repeat_spec in Hy. subst y.
  apply slices_mean_nonneg. exact H.
Qed.

Theorem potential_nonneg : forall cfg mask obj,
  positivity cfg = true -> mask_in_01 mask ->
  Forall (Forall (fun x => 0 <= x)) (hard_potential cfg mask obj).
Proof.
  intros cfg mask obj Hp Hm. unfold hard_potential. apply tie_if_nonneg.
  apply Forall_forall. intros sl Hsl. apply in_map_iff in Hsl. destruct Hsl as [sl0 [E Hsl0]]. subst sl.
  apply in_map_iff in Hsl0. destruct Hsl0 as [sl1 [E _]]. subst sl0.
  set (off := baseline_offset cfg mask obj).
  assert (Hc : Forall (fun x => 0 <= x) (map (potential_pixel cfg off) sl1)).
  { apply Forall_forall. intros y Hy. apply in_map_iff in Hy. destruct Hy as [x [E _]]. subst y.
    unfold potential_pixel. rewrite Hp. apply qmax_nonneg. }
  pose proof (use_mask_in_01 cfg mask Hm) as Hu.
  destruct (use_mask cfg mask) as [ms|]; cbn [map_mask].
  - cbn [mask_in_01] in Hu. revert Hc. generalize (map (potential_pixel cfg off) sl1) as l.
    induction Hu as [|m ms Hm0 Hu IH]; intros l Hl; [constructor|].
    destruct Hl as [|x l Hx Hl]; cbn [combine map]; constructor.
    + cbn [fst snd]. nra.
    + apply IH. exact Hl.
  - rewrite map_id. exact Hc.
Qed.

(* ---------------------------------------------------------------- identical slices *)
Theorem tie_slices_identical : forall xs a b,
  In a (tie_slices xs) -> In b (tie_slices xs) -> a = b.
Proof.
  intros xs a b Ha Hb. unfold tie_slices in *.
  apply repeat_spec in Ha. apply repeat_spec in Hb. congruence.
Qed.

Lemma tie_slices_length xs : length (tie_slices xs) = length xs.
Proof. unfold tie_slices. apply repeat_length. Qed.

Lemma tie_if_identical cfg xs a b :
  identical_slices cfg = true -> In a (tie_if cfg xs) -> In b (tie_if cfg xs) -> a = b.
Proof.
  intros Hi. unfold tie_if. rewrite Hi, andb_true_r.
  destruct (Nat.ltb 1 (length xs)) eqn:E.
  - apply tie_slices_identical.
  - apply Nat.ltb_ge in E. destruct xs as [|x [|y r]]; cbn in *; try lia; intuition congruence.
Qed.

Theorem slices_identical : forall cfg mask obj a b,
  identical_slices cfg = true ->
  In a (hard_potential cfg mask obj) -> In b (hard_potential cfg mask obj) -> a = b.
Proof. intros cfg mask obj a b Hi. unfold hard_potential. apply tie_if_identical. exact Hi. Qed.

Lemma tie_if_length cfg xs : length (tie_if cfg xs) = length xs.
Proof. unfold tie_if. destruct (_ && _)%bool; [apply tie_slices_length | reflexivity]. Qed.

Lemma hard_potential_length cfg mask obj : length (hard_potential cfg mask obj) = length obj.
Proof. unfold hard_potential. rewrite tie_if_length, !map_length. reflexivity. Qed.

(* ---------------------------------------------------------------- idempotence of the amplitude *)
Lemma map_mask_reapply (f f' : option Q -> polar -> polar) (Pm : Q -> Prop) mask :
  match mask with None => True | Some ms => Forall Pm ms end ->
  (forall x y, fst y == fst (f None x) -> fst (f' None y) == fst (f None x)) ->
  (forall m x y, Pm m -> fst y == fst (f (Some m) x) -> fst (f' (Some m) y) == fst (f (Some m) x)) ->
  forall sl sl2,
    Forall2 Qeq (map fst sl2) (map fst (map_mask f mask sl)) ->
    Forall2 Qeq (map fst (map_mask f' mask sl2)) (map fst (map_mask f mask sl)).
Proof.
  intros Hm Hn Hs. destruct mask as [ms|]; cbn [map_mask].
  - induction Hm as [|m ms Hm0 Hm IH]; intros sl sl2 H.
    + cbn. constructor.
    + destruct sl as [|x sl]; cbn [combine map] in *.
      * destruct sl2; [|inversion H]. destruct ms; cbn; constructor.
      * destruct sl2 as [|y sl2]; [inversion H|]. cbn [combine map fst snd] in *.
        inversion H as [|? ? ? ? H1 H2]; subst. constructor.
        -- apply Hs; assumption.
        -- apply IH. exact H2.
  - intros sl. induction sl as [|x sl IH]; intros sl2 H; cbn [map] in *.
    + destruct sl2; [constructor | inversion H].
    + destruct sl2 as [|y sl2]; [inversion H|]. cbn [map] in *.
      inversion H as [|? ? ? ? H1 H2]; subst. constructor; [apply Hn; exact H1 | apply IH; exact H2].
Qed.

(* re-applying the constraint to an object whose amplitudes are those of a constrained object
   (whatever its phases: torch.angle wraps them) leaves the amplitudes unchanged — for pure-phase
   objects under any mask, and for complex objects when the mask is not applied or is binary *)
Theorem hard_idempotent_amp : forall ty cfg mask obj obj2,
  is_wave ty -> (ty = PurePhase \/ mask_binary cfg mask) ->
  amps_eq (amps obj2) (amps (hard_polar ty cfg mask obj)) ->
  amps_eq (amps (hard_polar ty cfg mask obj2)) (amps (hard_polar ty cfg mask obj)).
Proof.
  intros ty cfg mask obj obj2 Hty Hdom. unfold amps_eq, amps, hard_polar.
  set (mp := qmean (concat (map (map snd) obj))). set (mp2 := qmean (concat (map (map snd) obj2))).
  clearbody mp mp2. revert obj2.
  induction obj as [|sl obj IH]; intros obj2 H; cbn [map] in *.
  - destruct obj2; [constructor | inversion H].
  - destruct obj2 as [|sl2 obj2]; [inversion H|]. cbn [map] in *.
    inversion H as [|? ? ? ? H1 H2]; subst. constructor; [|apply IH; exact H2].
    destruct Hdom as [Hpp | Hbin].
    + subst ty. apply (map_mask_reapply _ _ (fun _ => True)).
      * destruct (use_mask cfg mask); [|exact I]. apply Forall_forall. intros; exact I.
      * intros x y _. cbn [polar_pixel fst]. reflexivity.
      * intros m x y _ _. cbn [polar_pixel fst]. reflexivity.
      * exact H1.
    + apply (map_mask_reapply _ _ (fun m => m == 0 \/ m == 1)).
      * exact Hbin.
      * intros x y Hy. destruct Hty as [-> | ->]; cbn [polar_pixel fst] in *; [|reflexivity].
        rewrite (qclamp_01_compat _ _ Hy). apply qclamp_01_idem.
      * intros m x y Hm1 Hy. destruct Hty as [-> | ->]; cbn [polar_pixel fst] in *; [|reflexivity].
        destruct Hm1 as [Hm0 | Hm1].
        -- rewrite Hm0. ring.
        -- rewrite Hm1 in *. assert (Hy' : fst y == qclamp (fst x) 0 1) by (rewrite Hy; ring).
           rewrite (qclamp_01_compat _ _ Hy'), qclamp_01_idem. reflexivity.
      * exact H1.
Qed.

(* the same at full strength (any FOV mask in [0,1]) is false for complex objects: a fractional
   mask value is multiplied into the amplitude again on every application *)
Definition hard_idempotent_amp_statement : Prop :=
  forall ty cfg mask obj obj2,
    is_wave ty -> mask_in_01 mask ->
    amps_eq (amps obj2) (amps (hard_polar ty cfg mask obj)) ->
    amps_eq (amps (hard_polar ty cfg mask obj2)) (amps (hard_polar ty cfg mask obj)).

Lemma hard_idempotent_amp_refuted : ~ hard_idempotent_amp_statement.
Proof.
  intros H.
  specialize (H Complex cfg_masked (Some [1 # 2]) [[(1, 0)]] [[(1 # 2, 0)]]).
  assert (Hm : mask_in_01 (Some [1 # 2])).
  { cbn. constructor; [|constructor]. split; apply Qle_bool_iff; reflexivity. }
  specialize (H (or_introl eq_refl) Hm).
  assert (H0 : amps_eq (amps [[(1 # 2, 0)]]) (amps (hard_polar Complex cfg_masked (Some [1 # 2]) [[(1, 0)]]))).
  { vm_compute. repeat constructor. }
  specialize (H H0). vm_compute in H.
  inversion H as [|? ? ? ? H1 _]; subst. inversion H1 as [|? ? ? ? H2 _]; subst.
  vm_compute in H2. discriminate H2.
Qed.

(* a mask on a complex pixel: amplitude = clamp(a) * mask, phase = (phi - mean) * mask *)
Lemma complex_pixel_masked mean_ph m p :
  fst (polar_pixel Complex mean_ph (Some m) p) == qclamp (fst p) 0 1 * m.
Proof. cbn [polar_pixel fst]. reflexivity. Qed.

(* ---------------------------------------------------------------- tomography *)
Theorem tomo_nonneg : forall pos shrink obj,
  (pos = true \/ shrink <> None) ->
  Forall (fun x => 0 <= x) (tomo_hard pos shrink obj).
Proof.
  intros pos shrink obj H. unfold tomo_hard. apply Forall_forall. intros y Hy.
  apply in_map_iff in Hy. destruct Hy as [x [E _]]. subst y. unfold tomo_pixel.
  destruct shrink as [s|]; [apply qmax_nonneg|].
  destruct H as [-> | H]; [apply qmax_nonneg | congruence].
Qed.

(* shrinkage never increases a non-negative value and never flips its sign *)
Lemma tomo_shrink_le pos s x : 0 <= s -> tomo_pixel pos (Some s) x <= qmax x 0.
Proof.
  intros Hs. unfold tomo_pixel. destruct pos; qmm; lra.
Qed.
