(* C05 — lemmas about the interpreters of coq/model/C05_Tie_Model.v that do not depend on the
   generated scripts (the fixed proof script coq/gen_proofs/C05_GenProofs.v uses them). *)
From QV.lib Require Import Prelude.
From QV.model Require Import C05_Model C05_Tie_Model.
From QV.proof Require Import C05_Proofs_Base C05_Proofs_Reconnect.
From Coq Require Import String.

Section Dicts.
  Variable M : Type.
  Notation pst := (pstate M).

  Lemma st_set_notin (l : list (id * pst)) r ps : ~ In r (map fst l) -> st_set l r ps = l ++ [(r, ps)].
  Proof.
    induction l as [|[k q] t IH]; cbn [st_set map fst In app]; intro H; [reflexivity|].
    destruct (Nat.eqb k r) eqn:E.
    - apply Nat.eqb_eq in E. exfalso. apply H. now left.
    - f_equal. apply IH. intro Hin. apply H. now right.
  Qed.

  Lemma NoDup_snd_combine (A B : Type) (X : list A) (Y : list B) : NoDup Y -> NoDup (map snd (combine X Y)).
  Proof.
    revert Y. induction X as [|x X IH]; intros [|y Y] H; cbn; try constructor.
    - inversion H as [|? ? Hn Hd]; subst. intro Hin. apply Hn.
      clear - Hin. revert Y Hin. induction X as [|x' X IH']; intros [|y' Y] Hin; cbn in *; try tauto.
      destruct Hin as [->|Hin]; [now left|right; eauto].
    - inversion H; subst. now apply IH.
  Qed.

  Definition rk1 (s : list (id * pst)) (pr : id * id) : list (id * pst) :=
    match st_lookup s (fst pr) with Some ps => [(snd pr, ps)] | None => [] end.

  Lemma rk1_keys s prs x : In x (map fst (flat_map (rk1 s) prs)) -> In x (map snd prs).
  Proof.
    induction prs as [|pr t IH]; cbn; [tauto|].
    rewrite map_app, in_app_iff. intros [H|H]; [|right; now apply IH].
    unfold rk1 in H. destruct (st_lookup s (fst pr)); cbn in H; [|tauto]. destruct H as [<-|[]]. now left.
  Qed.

  (* the loop of dict assignments is the list comprehension of the model when the targets are distinct *)
  Lemma rekey_dict_app (prs : list (id * id)) (s : list (id * pst)) : forall d,
    NoDup (map snd prs) -> (forall k, In k (map fst d) -> ~ In k (map snd prs)) ->
    rekey_dict prs s d = d ++ flat_map (rk1 s) prs.
  Proof.
    unfold rekey_dict.
    induction prs as [|pr t IH]; intros d Hnd Hdis; cbn [fold_left flat_map]; [now rewrite app_nil_r|].
    cbn [map] in Hnd. inversion Hnd as [|? ? Hn Hd]; subst.
    unfold rk1 at 1. destruct (st_lookup s (fst pr)) as [ps|] eqn:E.
    - rewrite st_set_notin.
      + rewrite IH; [now rewrite <- app_assoc|assumption|].
        intros k Hk. rewrite map_app, in_app_iff in Hk. cbn in Hk. destruct Hk as [Hk|[<-|[]]].
        * intro Hin. apply (Hdis k Hk). now right.
        * assumption.
      + intro Hin. apply (Hdis _ Hin). now left.
    - cbn [app]. apply IH; [assumption|]. intros k Hk Hin. apply (Hdis k Hk). now right.
  Qed.

  Lemma rekey_dict_eq (old new : list id) (s : list (id * pst)) :
    NoDup new -> rekey_dict (combine old new) s [] = rekey_by_param old new s.
  Proof.
    intro H. rewrite rekey_dict_app; [reflexivity|now apply NoDup_snd_combine|intros k []].
  Qed.

  Lemma NoDup_rk1_keys s prs : NoDup (map snd prs) -> NoDup (map fst (flat_map (rk1 s) prs)).
  Proof.
    induction prs as [|pr t IH]; cbn; intro H; [constructor|].
    inversion H as [|? ? Hn Hd]; subst. rewrite map_app. unfold rk1 at 1.
    destruct (st_lookup s (fst pr)); cbn; [|now apply IH].
    constructor; [|now apply IH]. intro Hin. apply Hn. eapply rk1_keys; eassumption.
  Qed.

  Lemma dict_update_app (new : list (id * pst)) : forall d,
    NoDup (map fst new) -> (forall k, In k (map fst d) -> ~ In k (map fst new)) -> dict_update d new = d ++ new.
  Proof.
    unfold dict_update.
    induction new as [|[k v] t IH]; intros d Hnd Hdis; cbn [fold_left]; [now rewrite app_nil_r|].
    cbn [map fst] in Hnd. inversion Hnd as [|? ? Hn Hd]; subst. cbn [fst snd].
    rewrite st_set_notin.
    - rewrite IH; [now rewrite <- app_assoc|assumption|].
      intros k' Hk. rewrite map_app, in_app_iff in Hk. cbn in Hk. destruct Hk as [Hk|[<-|[]]].
      + intro Hin. apply (Hdis k' Hk). now right.
      + assumption.
    - intro Hin. apply (Hdis _ Hin). now left.
  Qed.

  Lemma dict_update_rekey (old new : list id) (s : list (id * pst)) :
    NoDup new -> dict_update [] (rekey_by_param old new s) = rekey_by_param old new s.
  Proof.
    intro H. rewrite dict_update_app; [reflexivity| |intros k []].
    apply (NoDup_rk1_keys s (combine old new)). now apply NoDup_snd_combine.
  Qed.
End Dicts.

Section ToDev.
  Variables V M L R C SS : Type.
  Notation st := (st V M L R C SS).

  Lemma reconnect_model_hp w (h : heap V M R SS) (m : mdl C) :
    hp (fst (reconnect_model w h m)) = hp h /\ mparams (snd (reconnect_model w h m)) = mparams m.
  Proof.
    unfold reconnect_model. destruct (mopt m); [|now split]. destruct (ho h i); [|now split].
    destruct (mparams m) eqn:E; cbn; now split.
  Qed.

  Lemma reconnect_all_hp w (ms : list (mdl C)) : forall (h : heap V M R SS),
    hp (fst (reconnect_all w h ms)) = hp h /\ map mparams (snd (reconnect_all w h ms)) = map mparams ms.
  Proof.
    induction ms as [|m t IH]; intro h; cbn [reconnect_all]; [now split|].
    destruct (reconnect_model_hp w h m) as [H1 H2].
    destruct (reconnect_model w h m) as [h1 m1]. cbn [fst snd] in H1, H2.
    destruct (IH h1) as [H3 H4]. destruct (reconnect_all w h1 t) as [h2 t2]. cbn [fst snd] in *.
    split; [congruence|cbn; congruence].
  Qed.

  (* the learned dataset parameters that go into `_dataset_metadata` are the same before and after the move *)
  Lemma meta_of_to_dev w (s : st) i : meta_of (to_dev w s) i = meta_of s i.
  Proof.
    unfold meta_of, to_dev.
    destruct (reconnect_all_hp w (models (rc s)) (hh s)) as [H1 H2].
    destruct (reconnect_all w (hh s) (models (rc s))) as [h ms]. cbn [fst snd hh rc models] in *.
    assert (Hn : option_map mparams (nth_error ms i) = option_map mparams (nth_error (models (rc s)) i)).
    { rewrite <- !nth_error_map. now rewrite H2. }
    destruct (nth_error ms i) as [m|], (nth_error (models (rc s)) i) as [m'|]; cbn in Hn; congruence.
  Qed.

  (* PtychographyBase.to as three calls = the model's reconnect_all over the three models *)
  Lemma run_to_three w (s : st) (pre post : list ttok) :
    List.length (models (rc s)) = 3 ->
    Forall (fun t => t = TNoModel) pre -> Forall (fun t => t = TNoModel) post ->
    run_to w (pre ++ [TModelTo 0; TModelTo 1; TModelTo 2] ++ post) s = Some (to_dev w s).
  Proof.
    intros Hl Hpre Hpost.
    assert (Hskip : forall l rest (s0 : st), Forall (fun t => t = TNoModel) l -> run_to w (l ++ rest) s0 = run_to w rest s0).
    { induction l as [|t l IH]; intros rest s0 H; [reflexivity|]. inversion H; subst. cbn. now apply IH. }
    rewrite Hskip by assumption.
    destruct s as [h [ms ls lr]]. cbn [rc models hh] in *.
    destruct ms as [|m0 [|m1 [|m2 [|? ?]]]]; cbn in Hl; try discriminate.
    unfold to_dev. cbn [app run_to rc models hh losses lrs reconnect_all].
    unfold reconnect_nth at 1. cbn [nth_error rc models hh losses lrs upd_nth].
    destruct (reconnect_model w h m0) as [h1 m0'].
    unfold reconnect_nth at 1. cbn [nth_error rc models hh losses lrs upd_nth].
    destruct (reconnect_model w h1 m1) as [h2 m1'].
    unfold reconnect_nth at 1. cbn [nth_error rc models hh losses lrs upd_nth].
    destruct (reconnect_model w h2 m2) as [h3 m2'].
    rewrite <- (app_nil_r post). rewrite Hskip by assumption. reflexivity.
  Qed.
End ToDev.

(* ------------------------------------------------------------------ histories as length maps *)
Local Open Scope string_scope.

Lemma hist_append_lookup names h x :
  assoc (hist_append names h) x =
  match assoc h x with
  | Some n => Some (if existsb (String.eqb x) names then S n else n)
  | None => None
  end.
Proof.
  unfold assoc, hist_append. induction h as [|[k n] t IH]; cbn [map find fst snd]; [reflexivity|].
  destruct (existsb (String.eqb k) names) eqn:Ek; cbn [fst snd];
    destruct (String.eqb k x) eqn:E; cbn [snd]; try apply IH;
    apply String.eqb_eq in E; subst; now rewrite Ek.
Qed.

Lemma hist_iter_lookup n names : forall h x,
  assoc (hist_iter n names h) x =
  match assoc h x with
  | Some k => Some (if existsb (String.eqb x) names then n + k else k)
  | None => None
  end.
Proof.
  induction n as [|n IH]; intros h x; cbn [hist_iter].
  - destruct (assoc h x); [|reflexivity]. now destruct (existsb _ _).
  - rewrite IH, hist_append_lookup. destruct (assoc h x); [|reflexivity].
    destruct (existsb _ _); f_equal; lia.
Qed.

Lemma hist_reset_lookup fields h x :
  assoc (hist_reset fields h) x =
  match assoc h x with
  | Some n => Some (if existsb (fun f => String.eqb (fst f) x) fields then 0 else n)
  | None => None
  end.
Proof.
  unfold assoc, hist_reset. induction h as [|[k n] t IH]; cbn [map find fst snd]; [reflexivity|].
  destruct (existsb (fun f => String.eqb (fst f) k) fields) eqn:Ek; cbn [fst snd];
    destruct (String.eqb k x) eqn:E; cbn [snd]; try apply IH;
    apply String.eqb_eq in E; subst; now rewrite Ek.
Qed.
