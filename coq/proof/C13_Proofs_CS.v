(* C13 — Cauchy–Schwarz layer (round 3).  Over the abstract commutative ring of lib/DFT.v with a
   real-part read-out  re : R -> Q  that is additive, conjugation invariant and positive on norms
   (0 <= re (z conj z)); definiteness (re (z conj z) == 0 -> z = 0) is used only for strictness.
   Contents:
     * the autocorrelation of ANY image (real or complex) is bounded by its value at the origin,
       strictly unless the circular translate by that offset reproduces the image; hence the
       hypothesis "the autocorrelation has its strict unique maximum at (0,0)" of the registration
       theorems is EQUIVALENT to "no other shift of the periodic cell reproduces the image";
     * the upsampled window of the correlation of two identical images (the matrix-multiply DFT of
       dft_upsample / dftUpsample_torch applied to |F|^2) is, sample by sample, bounded by its centre
       sample, and it is point symmetric about it; hence win_centred follows from "translating the
       image by the sub-pixel offset of any other window sample does not reproduce it";
     * identical images give (0, 0) for every upsampling factor with the window computed by the
       kernels (no hypothesis on window values). *)
From Coq Require Import ZArith List Lia Ring Arith QArith Field Psatz.
From QV.lib Require Import Prelude FinSum DFT DFT2.
From QV.model Require Import C13_Model.
From QV.proof Require Import C13_Proofs C13_Proofs_Est C13_Proofs_Swap C13_Proofs_DFT.
Local Close Scope Q_scope.

(* ---------------------------------------------------------------- finite sums in Q *)
Fixpoint qsum (n : nat) (g : nat -> Q) : Q :=
  match n with O => 0%Q | S k => (qsum k g + g k)%Q end.

Lemma qsum_nonneg n g : (forall i, i < n -> (0 <= g i)%Q) -> (0 <= qsum n g)%Q.
Proof.
  induction n as [|n IH]; intros H; cbn [qsum]; [apply Qle_refl|].
  assert (A : (0 <= qsum n g)%Q) by (apply IH; intros; apply H; lia).
  assert (B : (0 <= g n)%Q) by (apply H; lia). lra.
Qed.

Lemma qsum_pos n g :
  (forall i, i < n -> (0 <= g i)%Q) -> (exists i, i < n /\ (0 < g i)%Q) -> (0 < qsum n g)%Q.
Proof.
  induction n as [|n IH]; intros H (i & Hi & Hp); [lia|]. cbn [qsum].
  assert (B : (0 <= g n)%Q) by (apply H; lia).
  assert (A : (0 <= qsum n g)%Q) by (apply qsum_nonneg; intros; apply H; lia).
  destruct (Nat.eq_dec i n) as [->|Hne]; [lra|].
  assert (A' : (0 < qsum n g)%Q) by (apply IH; [intros; apply H; lia | exists i; split; [lia | exact Hp]]).
  lra.
Qed.

Lemma qsum_ext n g h : (forall i, i < n -> (g i == h i)%Q) -> (qsum n g == qsum n h)%Q.
Proof.
  induction n as [|n IH]; intros H; cbn [qsum]; [reflexivity|].
  rewrite IH by (intros; apply H; lia). rewrite (H n) by lia. reflexivity.
Qed.

Section C13_CS.
  Variable R : Type.
  Variables (rO rI : R) (radd rmul rsub : R -> R -> R) (ropp : R -> R).
  Variable Rth : ring_theory rO rI radd rmul rsub ropp (@eq R).
  Add Ring RringC13cs : Rth.
  Variable conj : R -> R.
  Hypothesis Cok : conj_ok radd rmul conj.
  Variables (N1 : nat) (w1 : Z -> R) (Ninv1 : R) (N2 : nat) (w2 : Z -> R) (Ninv2 : R).
  Hypothesis Rok1 : root_ok rO rI radd rmul conj N1 w1 Ninv1.
  Hypothesis Rok2 : root_ok rO rI radd rmul conj N2 w2 Ninv2.

  Local Notation "a [+] b" := (radd a b) (at level 50, left associativity).
  Local Notation "a [*] b" := (rmul a b) (at level 40, left associativity).
  Local Notation "a [-] b" := (rsub a b) (at level 50, left associativity).
  Local Notation sumn := (sumn rO radd).
  Local Notation dft2 := (dft2 rO radd rmul N1 w1 N2 w2).
  Local Notation sum2 := (sum2 rO radd N1 N2).
  Local Notation z1 := (zidx N1).
  Local Notation z2 := (zidx N2).
  Local Notation acorr := (acorr R rO radd rmul conj N1 N2).
  Local Notation same_on_grid := (same_on_grid R N1 N2).

  Let Npos1 : 0 < N1 := ro_pos _ _ _ _ _ _ _ _ _ Rok1.
  Let Npos2 : 0 < N2 := ro_pos _ _ _ _ _ _ _ _ _ Rok2.

  Variable re : R -> Q.
  Hypothesis re_conj : forall z, (re (conj z) == re z)%Q.
  Hypothesis re_add : forall a b, (re (a [+] b) == re a + re b)%Q.
  Hypothesis re_nonneg : forall z, (0 <= re (z [*] conj z))%Q.
  Hypothesis re_definite : forall z, (re (z [*] conj z) == 0)%Q -> z = rO.

  Local Notation acorrQ := (acorrQ R rO radd rmul conj N1 N2 re).
  Local Notation ccQ := (ccQ R rO radd rmul conj N1 w1 Ninv1 N2 w2 Ninv2 re).

  (* ---------------------------------------------------------------- re is Q-linear on sums *)
  Lemma re_0 : (re rO == 0)%Q.
  Proof.
    pose proof (re_add rO rO) as H. replace (rO [+] rO) with rO in H by ring. lra.
  Qed.

  Lemma re_opp a : (re (ropp a) == - re a)%Q.
  Proof.
    pose proof (re_add a (ropp a)) as H. replace (a [+] ropp a) with rO in H by ring.
    pose proof re_0. lra.
  Qed.

  Lemma re_sub a b : (re (a [-] b) == re a - re b)%Q.
  Proof.
    replace (a [-] b) with (a [+] ropp b) by ring. rewrite re_add, re_opp. ring.
  Qed.

  Lemma re_sumn n f : (re (sumn n f) == qsum n (fun i => re (f i)))%Q.
  Proof.
    induction n as [|n IH]; cbn [FinSum.sumn qsum]; [exact re_0|]. rewrite re_add, IH. reflexivity.
  Qed.

  Lemma re_sum2 f : (re (sum2 f) == qsum N1 (fun i => qsum N2 (fun j => re (f i j))))%Q.
  Proof.
    unfold DFT2.sum2. rewrite re_sumn. apply qsum_ext. intros i _. apply re_sumn.
  Qed.

  Lemma re_sum2_nonneg f :
    (forall i j, i < N1 -> j < N2 -> (0 <= re (f i j))%Q) -> (0 <= re (sum2 f))%Q.
  Proof.
    intros H. rewrite re_sum2. apply qsum_nonneg. intros i Hi. apply qsum_nonneg. intros j Hj.
    apply H; assumption.
  Qed.

  Lemma re_sum2_pos f :
    (forall i j, i < N1 -> j < N2 -> (0 <= re (f i j))%Q) ->
    (exists i j, i < N1 /\ j < N2 /\ (0 < re (f i j))%Q) -> (0 < re (sum2 f))%Q.
  Proof.
    intros H (i & j & Hi & Hj & Hp). rewrite re_sum2. apply qsum_pos.
    - intros i' Hi'. apply qsum_nonneg. intros j' Hj'. apply H; assumption.
    - exists i. split; [exact Hi|]. apply qsum_pos.
      + intros j' Hj'. apply H; assumption.
      + exists j. split; assumption.
  Qed.

  Lemma norm_pos z : z <> rO -> (0 < re (z [*] conj z))%Q.
  Proof.
    intros Hz. pose proof (re_nonneg z) as H.
    destruct (Qlt_le_dec 0 (re (z [*] conj z))) as [L|L]; [exact L|].
    exfalso. apply Hz. apply re_definite. lra.
  Qed.

  (* ---------------------------------------------------------------- |a - b|^2 *)
  Lemma norm_diff a b :
    (a [-] b) [*] conj (a [-] b)
    = ((a [*] conj a [+] b [*] conj b) [-] a [*] conj b) [-] conj (a [*] conj b).
  Proof.
    rewrite (conj_sub Rth Cok), !(conj_mul _ _ _ _ Cok), (conj_invol _ _ _ _ Cok). ring.
  Qed.

  Lemma sum2_norm_diff (f g : nat -> nat -> R) :
    sum2 (fun i j => (f i j [-] g i j) [*] conj (f i j [-] g i j))
    = ((sum2 (fun i j => f i j [*] conj (f i j)) [+] sum2 (fun i j => g i j [*] conj (g i j)))
       [-] sum2 (fun i j => f i j [*] conj (g i j)))
      [-] conj (sum2 (fun i j => f i j [*] conj (g i j))).
  Proof.
    rewrite (conj_sum2 R rO rI radd rmul rsub ropp Rth conj Cok N1 N2).
    rewrite <- (sum2_add Rth Cok Rok1 Rok2).
    rewrite <- (sum2_sub Rth Cok Rok1 Rok2
                  (fun i j => f i j [*] conj (f i j) [+] g i j [*] conj (g i j))
                  (fun i j => f i j [*] conj (g i j))).
    rewrite <- (sum2_sub Rth Cok Rok1 Rok2
                  (fun i j => (f i j [*] conj (f i j) [+] g i j [*] conj (g i j)) [-] f i j [*] conj (g i j))
                  (fun i j => conj (f i j [*] conj (g i j)))).
    apply (sum2_ext Rth Cok Rok1 Rok2). intros i j _ _. apply norm_diff.
  Qed.

  Lemma re_sum2_norm_diff (f g : nat -> nat -> R) :
    (re (sum2 (fun i j => (f i j [-] g i j) [*] conj (f i j [-] g i j)))
     == re (sum2 (fun i j => f i j [*] conj (f i j))) + re (sum2 (fun i j => g i j [*] conj (g i j)))
        - 2 * re (sum2 (fun i j => f i j [*] conj (g i j))))%Q.
  Proof.
    rewrite sum2_norm_diff, !re_sub, re_add, re_conj. ring.
  Qed.

  (* ---------------------------------------------------------------- autocorrelation <= R[0,0] *)
  (* the image read at n + j (indices modulo the grid) *)
  Definition shifted_img (x : nat -> nat -> R) (j1 j2 : nat) (n1 n2 : nat) : R :=
    x (z1 (Z.of_nat n1 + Z.of_nat j1)) (z2 (Z.of_nat n2 + Z.of_nat j2)).

  Lemma energy_shifted x j1 j2 :
    sum2 (fun n1 n2 => shifted_img x j1 j2 n1 n2 [*] conj (shifted_img x j1 j2 n1 n2))
    = sum2 (fun n1 n2 => x n1 n2 [*] conj (x n1 n2)).
  Proof.
    rewrite <- (sum2_roll2 Rth Cok Rok1 Rok2 (- Z.of_nat j1) (- Z.of_nat j2)
                  (fun n1 n2 => x n1 n2 [*] conj (x n1 n2))).
    apply (sum2_ext Rth Cok Rok1 Rok2). intros n1 n2 _ _. unfold DFT2.roll2, shifted_img.
    replace (Z.of_nat n1 - - Z.of_nat j1)%Z with (Z.of_nat n1 + Z.of_nat j1)%Z by (clear; lia).
    replace (Z.of_nat n2 - - Z.of_nat j2)%Z with (Z.of_nat n2 + Z.of_nat j2)%Z by (clear; lia).
    reflexivity.
  Qed.

  Lemma acorr_00 x : acorr x 0 0 = sum2 (fun n1 n2 => x n1 n2 [*] conj (x n1 n2)).
  Proof.
    unfold C13_Proofs_DFT.acorr, xcorr2. apply (sum2_ext Rth Cok Rok1 Rok2). intros n1 n2 H1 H2.
    cbn [Z.of_nat]. rewrite !Z.add_0_r.
    rewrite (zidx_small Rth Cok Rok1 n1 H1), (zidx_small Rth Cok Rok2 n2 H2). reflexivity.
  Qed.

  Lemma acorr_shifted x j1 j2 :
    acorr x j1 j2 = sum2 (fun n1 n2 => shifted_img x j1 j2 n1 n2 [*] conj (x n1 n2)).
  Proof. reflexivity. Qed.

  (* sum_n |x[n+j] - x[n]|^2 = 2 R[0,0] - 2 Re R[j] *)
  Lemma acorr_gap x j1 j2 :
    (re (sum2 (fun n1 n2 => (shifted_img x j1 j2 n1 n2 [-] x n1 n2)
                              [*] conj (shifted_img x j1 j2 n1 n2 [-] x n1 n2)))
     == 2 * acorrQ x 0 0 - 2 * acorrQ x j1 j2)%Q.
  Proof.
    rewrite (re_sum2_norm_diff (shifted_img x j1 j2) x).
    rewrite energy_shifted, <- acorr_00, <- acorr_shifted.
    unfold C13_Proofs_DFT.acorrQ. ring.
  Qed.

  Theorem autocorr_le_origin x j1 j2 : (acorrQ x j1 j2 <= acorrQ x 0 0)%Q.
  Proof.
    pose proof (acorr_gap x j1 j2) as G.
    assert (P : (0 <= re (sum2 (fun n1 n2 => (shifted_img x j1 j2 n1 n2 [-] x n1 n2)
                                         [*] conj (shifted_img x j1 j2 n1 n2 [-] x n1 n2))))%Q).
    { apply re_sum2_nonneg. intros. apply re_nonneg. }
    lra.
  Qed.

  Theorem autocorr_lt_origin x j1 j2 :
    (exists n1 n2, n1 < N1 /\ n2 < N2 /\ shifted_img x j1 j2 n1 n2 <> x n1 n2) ->
    (acorrQ x j1 j2 < acorrQ x 0 0)%Q.
  Proof.
    intros (n1 & n2 & H1 & H2 & Hne).
    pose proof (acorr_gap x j1 j2) as G.
    assert (P : (0 < re (sum2 (fun n1 n2 => (shifted_img x j1 j2 n1 n2 [-] x n1 n2)
                                        [*] conj (shifted_img x j1 j2 n1 n2 [-] x n1 n2))))%Q).
    { apply re_sum2_pos; [intros; apply re_nonneg|].
      exists n1, n2. split; [exact H1|]. split; [exact H2|]. apply norm_pos.
      intros Z. apply Hne.
      transitivity ((shifted_img x j1 j2 n1 n2 [-] x n1 n2) [+] x n1 n2); [ring|]. rewrite Z. ring. }
    lra.
  Qed.

  Theorem autocorr_eq_origin x j1 j2 :
    (forall n1 n2, n1 < N1 -> n2 < N2 -> shifted_img x j1 j2 n1 n2 = x n1 n2) ->
    (acorrQ x j1 j2 == acorrQ x 0 0)%Q.
  Proof.
    intros H. unfold C13_Proofs_DFT.acorrQ. rewrite acorr_00, acorr_shifted.
    rewrite (sum2_ext Rth Cok Rok1 Rok2 _ (fun n1 n2 => x n1 n2 [*] conj (x n1 n2))); [reflexivity|].
    intros n1 n2 H1 H2. rewrite (H n1 n2 H1 H2). reflexivity.
  Qed.

  (* "image contents with a unique correlation peak": no translate of the periodic cell other than
     the identity reproduces the image *)
  Definition no_self_overlap (x : nat -> nat -> R) : Prop :=
    forall j1 j2, j1 < N1 -> j2 < N2 -> (j1, j2) <> (0, 0) ->
      exists n1 n2, n1 < N1 /\ n2 < N2 /\ shifted_img x j1 j2 n1 n2 <> x n1 n2.

  Theorem unique_peak_of_no_self_overlap x : no_self_overlap x -> uniq_max N1 N2 (acorrQ x) 0 0.
  Proof.
    intros H. split; [exact Npos1|]. split; [exact Npos2|].
    intros k l Hk Hl Hne. apply autocorr_lt_origin. apply H; assumption.
  Qed.

  (* ... and the condition is necessary: a reproducing translate ties the peak *)
  Theorem self_overlap_ties_peak x j1 j2 :
    j1 < N1 -> j2 < N2 -> (j1, j2) <> (0, 0) ->
    (forall n1 n2, n1 < N1 -> n2 < N2 -> shifted_img x j1 j2 n1 n2 = x n1 n2) ->
    ~ uniq_max N1 N2 (acorrQ x) 0 0.
  Proof.
    intros H1 H2 Hne Hrep (_ & _ & U).
    pose proof (U j1 j2 H1 H2 Hne) as L. pose proof (autocorr_eq_origin x j1 j2 Hrep). lra.
  Qed.

  (* an image without self-overlap is not identically zero, so R[0,0] > 0 *)
  Lemma acorr_origin_pos x : 2 <= N1 -> no_self_overlap x -> (0 < acorrQ x 0 0)%Q.
  Proof.
    intros HN H.
    destruct (H 1 0) as (n1 & n2 & H1 & H2 & Hne); [lia | exact Npos2 | intros C; discriminate C|].
    assert (L : (acorrQ x 1 0 < acorrQ x 0 0)%Q) by (apply autocorr_lt_origin; exists n1, n2; auto).
    (* R[1,0] >= -R[0,0]: from |x[n+j] + x[n]|^2 >= 0; simpler: R[0,0] >= 0 and R[0,0] > R[1,0];
       if R[0,0] = 0 every pixel is 0, so R[1,0] = 0 *)
    assert (P : (0 <= acorrQ x 0 0)%Q).
    { unfold C13_Proofs_DFT.acorrQ. rewrite acorr_00. apply re_sum2_nonneg. intros. apply re_nonneg. }
    destruct (Qlt_le_dec 0 (acorrQ x 0 0)) as [Q0|Q0]; [exact Q0|]. exfalso.
    assert (Z0 : (acorrQ x 0 0 == 0)%Q) by lra.
    (* all pixels vanish *)
    assert (Zx : forall m1 m2, m1 < N1 -> m2 < N2 -> x m1 m2 = rO).
    { intros m1 m2 Hm1 Hm2.
      destruct (Qlt_le_dec 0 (re (x m1 m2 [*] conj (x m1 m2)))) as [L'|L'].
      - exfalso.
        assert (Q1 : (0 < acorrQ x 0 0)%Q).
        { unfold C13_Proofs_DFT.acorrQ. rewrite acorr_00.
          apply (re_sum2_pos (fun n1 n2 => x n1 n2 [*] conj (x n1 n2))); [intros; apply re_nonneg|].
          exists m1, m2. auto. }
        lra.
      - apply re_definite. pose proof (re_nonneg (x m1 m2)). lra. }
    apply Hne. unfold shifted_img.
    rewrite (Zx n1 n2 H1 H2). apply Zx; [apply (zidx_lt Rth Cok Rok1) | apply (zidx_lt Rth Cok Rok2)].
  Qed.

  (* ---------------------------------------------------------------- registration, reduced hypotheses *)
  Local Notation roll2 := (roll2 N1 N2).
  Local Notation fmul2 := (fmul2 rO radd rmul N1 w1 Ninv1 N2 w2 Ninv2).
  Local Notation ramp := (ramp R rmul N1 w1 N2 w2).

  Theorem registration_integer_numpy_cs ref im s1 s2 ms up ups :
    2 <= N1 -> 2 <= N2 ->
    same_on_grid im (roll2 s1 s2 ref) ->
    no_self_overlap ref ->
    admits N1 N2 ms (ccQ ref im) (wrapi N1 (- s1)) (wrapi N2 (- s2)) ->
    (2 <= up -> forall x y, (x == qN (wrapi N1 (- s1)))%Q -> (y == qN (wrapi N2 (- s2)))%Q ->
                win_centred (np_win up) (du up) (ups x y)) ->
    exists a b, np_shift N1 N2 ms up (ccQ ref im) ups = Some (a, b) /\
      exists t1 t2 : Z,
        (a == inject_Z t1)%Q /\ (b == inject_Z t2)%Q /\
        (- Z.of_nat N1 <= 2 * t1 < Z.of_nat N1)%Z /\ (- Z.of_nat N2 <= 2 * t2 < Z.of_nat N2)%Z /\
        ((t1 + s1) mod Z.of_nat N1 = 0)%Z /\ ((t2 + s2) mod Z.of_nat N2 = 0)%Z /\
        forall n1 n2, n1 < N1 -> n2 < N2 -> fmul2 (ramp t1 t2) im n1 n2 = ref n1 n2.
  Proof.
    intros H1 H2 Him Hn Ha Hw.
    apply (registration_integer_numpy R rO rI radd rmul rsub ropp Rth conj Cok N1 w1 Ninv1 N2 w2 Ninv2
             Rok1 Rok2 re re_conj ref im s1 s2 ms up ups H1 H2 Him
             (unique_peak_of_no_self_overlap ref Hn) Ha Hw).
  Qed.

  Theorem registration_integer_torch_cs ref im s1 s2 up ups :
    2 <= N1 -> 2 <= N2 ->
    same_on_grid im (roll2 s1 s2 ref) ->
    no_self_overlap ref ->
    (3 <= up -> forall cx cy,
        (cx == qN (t_gs up) - qN up * qN (wrapi N1 (- s1)))%Q ->
        (cy == qN (t_gs up) - qN up * qN (wrapi N2 (- s2)))%Q ->
        win_centred (t_win up) (t_gs up) (ups cx cy)) ->
    exists a b, torch_shift N1 N2 up (ccQ ref im) ups = Some (a, b) /\
      exists t1 t2 : Z,
        (a == inject_Z t1)%Q /\ (b == inject_Z t2)%Q /\
        (- Z.of_nat N1 <= 2 * t1 < Z.of_nat N1)%Z /\ (- Z.of_nat N2 <= 2 * t2 < Z.of_nat N2)%Z /\
        ((t1 + s1) mod Z.of_nat N1 = 0)%Z /\ ((t2 + s2) mod Z.of_nat N2 = 0)%Z /\
        forall n1 n2, n1 < N1 -> n2 < N2 -> fmul2 (ramp t1 t2) im n1 n2 = ref n1 n2.
  Proof.
    intros H1 H2 Him Hn Hw.
    apply (registration_integer_torch R rO rI radd rmul rsub ropp Rth conj Cok N1 w1 Ninv1 N2 w2 Ninv2
             Rok1 Rok2 re re_conj ref im s1 s2 up ups H1 H2 Him
             (unique_peak_of_no_self_overlap ref Hn) Hw).
  Qed.

  (* ---------------------------------------------------------------- the upsampled window of |F|^2 *)
  Variable E : Q -> R.
  Hypothesis E_ext : forall p q : Q, (p == q)%Q -> E p = E q.
  Hypothesis E_conj : forall q : Q, conj (E q) = E (- q)%Q.
  Hypothesis E_w1 : forall z : Z, E (inject_Z z / qN N1)%Q = w1 (- z)%Z.
  Hypothesis E_unit : forall q : Q, E q [*] conj (E q) = rI.

  Local Notation kernel_product := (kernel_product R rO radd rmul N1 N2 E).

  Lemma E_0 q : (q == 0)%Q -> E q = rI.
  Proof.
    intros Hq. rewrite (E_ext q (inject_Z 0 / qN N1)%Q).
    - rewrite E_w1. cbn [Z.opp]. apply (ro_0 _ _ _ _ _ _ _ _ _ Rok1).
    - rewrite Hq. unfold Qdiv. change (inject_Z 0) with 0%Q. ring.
  Qed.

  (* the power spectrum |X|^2 *)
  Definition pspec (X : nat -> nat -> R) (k l : nat) : R := X k l [*] conj (X k l).

  Lemma kernel_product_ext F G ph1 ph2 a b :
    (forall k l, k < N1 -> l < N2 -> F k l = G k l) ->
    kernel_product F ph1 ph2 a b = kernel_product G ph1 ph2 a b.
  Proof.
    intros H. unfold C13_Proofs_DFT.kernel_product. apply (sumn_ext Rth). intros k Hk. f_equal.
    apply (sumn_ext Rth). intros l Hl. rewrite (H k l Hk Hl). reflexivity.
  Qed.

  Lemma kernel_product_phase_ext F ph1 ph2 ph1' ph2' a b a' b' :
    (forall k, (ph1 a k == ph1' a' k)%Q) -> (forall l, (ph2 b l == ph2' b' l)%Q) ->
    kernel_product F ph1 ph2 a b = kernel_product F ph1' ph2' a' b'.
  Proof.
    intros H1 H2. unfold C13_Proofs_DFT.kernel_product. apply (sumn_ext Rth). intros k _.
    rewrite (E_ext _ _ (H1 k)). f_equal. apply (sumn_ext Rth). intros l _.
    rewrite (E_ext _ _ (H2 l)). reflexivity.
  Qed.

  Lemma kernel_product_sum2 F ph1 ph2 a b :
    kernel_product F ph1 ph2 a b = sum2 (fun k l => F k l [*] (E (ph1 a k) [*] E (ph2 b l))).
  Proof.
    unfold C13_Proofs_DFT.kernel_product, DFT2.sum2. apply (sumn_ext Rth). intros k _.
    rewrite <- (sumn_scale_l Rth). apply (sumn_ext Rth). intros l _. ring.
  Qed.

  (* multiplying a power spectrum by unit-modulus factors cannot increase the real part of its sum *)
  Lemma pspec_unit_gap X (u : nat -> nat -> R) :
    (forall k l, k < N1 -> l < N2 -> u k l [*] conj (u k l) = rI) ->
    (re (sum2 (fun k l => (X k l [-] X k l [*] u k l) [*] conj (X k l [-] X k l [*] u k l)))
     == 2 * re (sum2 (pspec X)) - 2 * re (sum2 (fun k l => pspec X k l [*] u k l)))%Q.
  Proof.
    intros Hu.
    rewrite (re_sum2_norm_diff X (fun k l => X k l [*] u k l)).
    assert (A : sum2 (fun i j => X i j [*] u i j [*] conj (X i j [*] u i j)) = sum2 (pspec X)).
    { apply (sum2_ext Rth Cok Rok1 Rok2). intros k l Hk Hl. unfold pspec.
      rewrite (conj_mul _ _ _ _ Cok).
      transitivity (X k l [*] conj (X k l) [*] (u k l [*] conj (u k l))); [ring|].
      rewrite (Hu k l Hk Hl). ring. }
    assert (B : sum2 (fun i j => X i j [*] conj (X i j [*] u i j))
                = conj (sum2 (fun k l => pspec X k l [*] u k l))).
    { rewrite (conj_sum2 R rO rI radd rmul rsub ropp Rth conj Cok N1 N2).
      apply (sum2_ext Rth Cok Rok1 Rok2). intros k l _ _. unfold pspec.
      rewrite !(conj_mul _ _ _ _ Cok), (conj_invol _ _ _ _ Cok). ring. }
    rewrite A, B, re_conj. fold (pspec X). unfold pspec at 1.
    change (sum2 (fun i j => X i j [*] conj (X i j))) with (sum2 (pspec X)). ring.
  Qed.

  Theorem pspec_unit_le X u :
    (forall k l, k < N1 -> l < N2 -> u k l [*] conj (u k l) = rI) ->
    (re (sum2 (fun k l => pspec X k l [*] u k l)) <= re (sum2 (pspec X)))%Q.
  Proof.
    intros Hu. pose proof (pspec_unit_gap X u Hu) as G.
    assert (P : (0 <= re (sum2 (fun k l => (X k l [-] X k l [*] u k l) [*] conj (X k l [-] X k l [*] u k l))))%Q)
      by (apply re_sum2_nonneg; intros; apply re_nonneg).
    lra.
  Qed.

  Theorem pspec_unit_lt X u :
    (forall k l, k < N1 -> l < N2 -> u k l [*] conj (u k l) = rI) ->
    (exists k l, k < N1 /\ l < N2 /\ X k l [*] u k l <> X k l) ->
    (re (sum2 (fun k l => pspec X k l [*] u k l)) < re (sum2 (pspec X)))%Q.
  Proof.
    intros Hu (k & l & Hk & Hl & Hne). pose proof (pspec_unit_gap X u Hu) as G.
    assert (P : (0 < re (sum2 (fun k l => (X k l [-] X k l [*] u k l) [*] conj (X k l [-] X k l [*] u k l))))%Q).
    { apply re_sum2_pos; [intros; apply re_nonneg|]. exists k, l. split; [exact Hk|]. split; [exact Hl|].
      apply norm_pos. intros Z. apply Hne.
      transitivity (X k l [-] (X k l [-] X k l [*] u k l)); [ring|]. rewrite Z. ring. }
    lra.
  Qed.

  Lemma EE_unit p q : (E p [*] E q) [*] conj (E p [*] E q) = rI.
  Proof.
    rewrite (conj_mul _ _ _ _ Cok).
    transitivity ((E p [*] conj (E p)) [*] (E q [*] conj (E q))); [ring|].
    rewrite !E_unit. ring.
  Qed.

  (* window sample (a, b) of |X|^2 with arbitrary kernel phases vs a sample whose phases vanish *)
  Theorem window_le_centre X ph1 ph2 a b c1 c2 :
    (forall k, (ph1 c1 k == 0)%Q) -> (forall l, (ph2 c2 l == 0)%Q) ->
    (re (kernel_product (pspec X) ph1 ph2 a b) <= re (kernel_product (pspec X) ph1 ph2 c1 c2))%Q.
  Proof.
    intros H1 H2. rewrite !kernel_product_sum2.
    assert (C : sum2 (fun k l => pspec X k l [*] (E (ph1 c1 k) [*] E (ph2 c2 l))) = sum2 (pspec X)).
    { apply (sum2_ext Rth Cok Rok1 Rok2). intros k l _ _. rewrite (E_0 _ (H1 k)), (E_0 _ (H2 l)). ring. }
    rewrite C. apply (pspec_unit_le X (fun k l => E (ph1 a k) [*] E (ph2 b l))).
    intros. apply EE_unit.
  Qed.

  Theorem window_lt_centre X ph1 ph2 a b c1 c2 :
    (forall k, (ph1 c1 k == 0)%Q) -> (forall l, (ph2 c2 l == 0)%Q) ->
    (exists k l, k < N1 /\ l < N2 /\ X k l [*] (E (ph1 a k) [*] E (ph2 b l)) <> X k l) ->
    (re (kernel_product (pspec X) ph1 ph2 a b) < re (kernel_product (pspec X) ph1 ph2 c1 c2))%Q.
  Proof.
    intros H1 H2 Hd. rewrite !kernel_product_sum2.
    assert (C : sum2 (fun k l => pspec X k l [*] (E (ph1 c1 k) [*] E (ph2 c2 l))) = sum2 (pspec X)).
    { apply (sum2_ext Rth Cok Rok1 Rok2). intros k l _ _. rewrite (E_0 _ (H1 k)), (E_0 _ (H2 l)). ring. }
    rewrite C. apply (pspec_unit_lt X (fun k l => E (ph1 a k) [*] E (ph2 b l))); [|exact Hd].
    intros. apply EE_unit.
  Qed.

  (* point symmetry: negating both phases conjugates the sample of a self-conjugate spectrum *)
  Lemma pspec_self_conj X k l : conj (pspec X k l) = pspec X k l.
  Proof. unfold pspec. rewrite (conj_mul _ _ _ _ Cok), (conj_invol _ _ _ _ Cok). ring. Qed.

  Lemma window_point_symmetric X ph1 ph2 ph1' ph2' a b a' b' :
    (forall k, (ph1' a' k == - ph1 a k)%Q) -> (forall l, (ph2' b' l == - ph2 b l)%Q) ->
    (re (kernel_product (pspec X) ph1' ph2' a' b') == re (kernel_product (pspec X) ph1 ph2 a b))%Q.
  Proof.
    intros H1 H2.
    rewrite <- (re_conj (kernel_product (pspec X) ph1 ph2 a b)).
    rewrite <- (kernel_product_ext (fun k l => conj (pspec X k l)) (pspec X) ph1 ph2 a b)
      by (intros; apply pspec_self_conj).
    rewrite (conj_kernel_product R rO rI radd rmul rsub ropp Rth conj Cok N1 N2 E E_conj (pspec X) ph1 ph2 a b).
    rewrite (kernel_product_phase_ext (pspec X) ph1' ph2' (fun a k => - ph1 a k)%Q (fun b l => - ph2 b l)%Q a' b' a b H1 H2).
    reflexivity.
  Qed.

  (* ---------------------------------------------------------------- the two windows as the code forms them *)
  (* cc = F_ref * conj(F_im): the (unnormalised) spectrum handed to dft_upsample / upsampled_correlation_torch *)
  Definition cc_spec (ref im : nat -> nat -> R) (k l : nat) : R := dft2 ref k l [*] conj (dft2 im k l).

  (* xp.real(kern_row @ cc @ kern_col) *)
  Definition np_window (F : nat -> nat -> R) (up : nat) (x y : Q) (a b : nat) : Q :=
    re (kernel_product F (np_kern_phase N1 up x) (np_kern_phase N2 up y) a b).

  (* dftUpsample_torch(conj cc, up, centre).conj().real *)
  Definition t_window (F : nat -> nat -> R) (up : nat) (c1 c2 : Q) (a b : nat) : Q :=
    re (conj (kernel_product (fun k l => conj (F k l)) (t_kern_phase N1 up c1) (t_kern_phase N2 up c2) a b)).

  Lemma cc_spec_identical ref im k l :
    same_on_grid im ref -> cc_spec ref im k l = pspec (dft2 ref) k l.
  Proof.
    intros H. unfold cc_spec, pspec. f_equal. f_equal. apply (dft2_ext Rth Cok Rok1 Rok2). exact H.
  Qed.

  (* translating the image by the sub-pixel offset (d1, d2) changes it (stated on its spectrum X) *)
  Definition frac_shift_differs (X : nat -> nat -> R) (d1 d2 : Q) : Prop :=
    exists k l, k < N1 /\ l < N2 /\
      X k l [*] (E (inject_Z (np_freq N1 k) * d1 / qN N1)%Q [*] E (inject_Z (np_freq N2 l) * d2 / qN N2)%Q) <> X k l.

  (* offsets (in pixels) of the window samples from the centre sample *)
  Definition np_off (up a : nat) : Q := (inject_Z (np_row up a) / qN up)%Q.
  Definition t_off (up a : nat) : Q := (inject_Z (Z.of_nat a - Z.of_nat (t_gs up)) / qN up)%Q.

  Definition np_offsets_distinct (X : nat -> nat -> R) (up : nat) : Prop :=
    forall a b, a < np_win up -> b < np_win up -> (a, b) <> (du up, du up) ->
      frac_shift_differs X (np_off up a) (np_off up b).

  Definition t_offsets_distinct (X : nat -> nat -> R) (up : nat) : Prop :=
    forall a b, a < t_win up -> b < t_win up -> (a, b) <> (t_gs up, t_gs up) ->
      frac_shift_differs X (t_off up a) (t_off up b).

  Lemma np_phase_at0 n up x a k :
    0 < n -> 0 < up -> (x == 0)%Q ->
    (np_kern_phase n up x a k == inject_Z (np_freq n k) * np_off up a / qN n)%Q.
  Proof.
    intros Hn Hup Hx. unfold np_kern_phase, np_off. rewrite Hx. field.
    split; apply qN_neq0; assumption.
  Qed.

  Lemma np_off_centre up : (np_off up (du up) == 0)%Q.
  Proof. unfold np_off, np_row. rewrite Z.sub_diag. unfold Qdiv. change (inject_Z 0) with 0%Q. ring. Qed.

  Lemma np_off_neg up d : d <= du up -> (np_off up (du up + d) == - np_off up (du up - d))%Q.
  Proof.
    intros Hd. unfold np_off, np_row.
    replace (Z.of_nat (du up + d) - Z.of_nat (du up))%Z with (Z.of_nat d) by (clear; lia).
    replace (Z.of_nat (du up - d) - Z.of_nat (du up))%Z with (- Z.of_nat d)%Z by (clear - Hd; lia).
    rewrite inject_Z_opp. unfold Qdiv. ring.
  Qed.

  Lemma t_phase_at_gs n up c a k :
    0 < n -> 0 < up -> (c == qN (t_gs up))%Q ->
    (- t_kern_phase n up c a k == inject_Z (np_freq n k) * t_off up a / qN n)%Q.
  Proof.
    intros Hn Hup Hc. unfold t_kern_phase, t_off, qN. rewrite Hc, inject_Z_minus. unfold qN. field.
    split; apply qN_neq0; assumption.
  Qed.

  Lemma t_off_centre up : (t_off up (t_gs up) == 0)%Q.
  Proof. unfold t_off. rewrite Z.sub_diag. unfold Qdiv. change (inject_Z 0) with 0%Q. ring. Qed.

  Lemma t_off_neg up d : d <= t_gs up -> (t_off up (t_gs up + d) == - t_off up (t_gs up - d))%Q.
  Proof.
    intros Hd. unfold t_off.
    replace (Z.of_nat (t_gs up + d) - Z.of_nat (t_gs up))%Z with (Z.of_nat d) by (clear; lia).
    replace (Z.of_nat (t_gs up - d) - Z.of_nat (t_gs up))%Z with (- Z.of_nat d)%Z by (clear - Hd; lia).
    rewrite inject_Z_opp. unfold Qdiv. ring.
  Qed.

  (* a window whose sample (a, b) is re sum |X|^2 E(f1 o(a)/N1) E(f2 o(b)/N2) for an offset table o
     with o(c) == 0 and o(c+1) == -o(c-1): bounded by, symmetric about, and — given distinctness —
     strictly peaked at its centre sample *)
  Section GenericWindow.
    Variables (X : nat -> nat -> R) (W c : nat) (o : nat -> Q) (loc : nat -> nat -> Q).
    Hypothesis Hc : 1 <= c /\ c + 1 < W.
    Hypothesis o_c : (o c == 0)%Q.
    Hypothesis o_sym : (o (c + 1) == - o (c - 1))%Q.
    Let ph1 (a k : nat) : Q := (inject_Z (np_freq N1 k) * o a / qN N1)%Q.
    Let ph2 (b l : nat) : Q := (inject_Z (np_freq N2 l) * o b / qN N2)%Q.
    Hypothesis loc_eq : forall a b, (loc a b == re (kernel_product (pspec X) ph1 ph2 a b))%Q.

    Lemma ph1_c k : (ph1 c k == 0)%Q.
    Proof. unfold ph1. rewrite o_c. unfold Qdiv. ring. Qed.
    Lemma ph2_c l : (ph2 c l == 0)%Q.
    Proof. unfold ph2. rewrite o_c. unfold Qdiv. ring. Qed.

    Lemma generic_window_le a b : (loc a b <= loc c c)%Q.
    Proof. rewrite !loc_eq. apply window_le_centre; [exact ph1_c | exact ph2_c]. Qed.

    Lemma generic_window_centred :
      (forall a b, a < W -> b < W -> (a, b) <> (c, c) -> frac_shift_differs X (o a) (o b)) ->
      win_centred W c loc.
    Proof.
      intros Hd. destruct Hc as [Hc1 Hc2]. split; [|split].
      - split; [lia|]. split; [lia|]. intros a b Ha Hb Hne. rewrite !loc_eq.
        apply window_lt_centre; [exact ph1_c | exact ph2_c|]. exact (Hd a b Ha Hb Hne).
      - rewrite !loc_eq. symmetry.
        apply (window_point_symmetric X ph1 ph2 ph1 ph2 (c - 1) c (c + 1) c).
        + intros k. unfold ph1. rewrite o_sym. unfold Qdiv. ring.
        + intros l. rewrite ph2_c. ring.
      - rewrite !loc_eq. symmetry.
        apply (window_point_symmetric X ph1 ph2 ph1 ph2 c (c - 1) c (c + 1)).
        + intros k. rewrite ph1_c. ring.
        + intros l. unfold ph2. rewrite o_sym. unfold Qdiv. ring.
    Qed.
  End GenericWindow.

  (* NumPy: the window of two identical images placed on the refined peak (0, 0) *)
  Lemma np_window_identical_eq ref im up x y a b :
    0 < up -> same_on_grid im ref -> (x == 0)%Q -> (y == 0)%Q ->
    (np_window (cc_spec ref im) up x y a b
     == re (kernel_product (pspec (dft2 ref))
              (fun a k => inject_Z (np_freq N1 k) * np_off up a / qN N1)%Q
              (fun b l => inject_Z (np_freq N2 l) * np_off up b / qN N2)%Q a b))%Q.
  Proof.
    intros Hup Him Hx Hy. unfold np_window.
    rewrite (kernel_product_ext (cc_spec ref im) (pspec (dft2 ref)))
      by (intros; apply cc_spec_identical; exact Him).
    rewrite (kernel_product_phase_ext (pspec (dft2 ref)) (np_kern_phase N1 up x) (np_kern_phase N2 up y)
               (fun a k => inject_Z (np_freq N1 k) * np_off up a / qN N1)%Q
               (fun b l => inject_Z (np_freq N2 l) * np_off up b / qN N2)%Q a b a b).
    - reflexivity.
    - intros k. apply np_phase_at0; assumption.
    - intros l. apply np_phase_at0; assumption.
  Qed.

  Theorem np_window_identical_le ref im up x y a b :
    0 < up -> same_on_grid im ref -> (x == 0)%Q -> (y == 0)%Q ->
    (np_window (cc_spec ref im) up x y a b <= np_window (cc_spec ref im) up x y (du up) (du up))%Q.
  Proof.
    intros Hup Him Hx Hy. rewrite !(np_window_identical_eq ref im up x y) by assumption.
    apply window_le_centre; intros; rewrite np_off_centre; unfold Qdiv; ring.
  Qed.

  Theorem np_window_identical_centred ref im up x y :
    2 <= up -> same_on_grid im ref -> (x == 0)%Q -> (y == 0)%Q ->
    np_offsets_distinct (dft2 ref) up ->
    win_centred (np_win up) (du up) (np_window (cc_spec ref im) up x y).
  Proof.
    intros Hup Him Hx Hy Hd.
    pose proof (du_ge Hup) as Hdu.
    apply (generic_window_centred (dft2 ref) (np_win up) (du up) (np_off up)).
    - unfold np_win. lia.
    - apply np_off_centre.
    - replace (du up + 1) with (du up + 1) by reflexivity. apply (np_off_neg up 1). lia.
    - intros a b. apply np_window_identical_eq; [lia | assumption..].
    - exact Hd.
  Qed.

  (* torch: the window of two identical images; upsampleCenter = globalShift (xyShift = 0) *)
  Lemma t_window_identical_eq ref im up c1 c2 a b :
    0 < up -> same_on_grid im ref -> (c1 == qN (t_gs up))%Q -> (c2 == qN (t_gs up))%Q ->
    (t_window (cc_spec ref im) up c1 c2 a b
     == re (kernel_product (pspec (dft2 ref))
              (fun a k => inject_Z (np_freq N1 k) * t_off up a / qN N1)%Q
              (fun b l => inject_Z (np_freq N2 l) * t_off up b / qN N2)%Q a b))%Q.
  Proof.
    intros Hup Him H1 H2. unfold t_window.
    rewrite (conj_kernel_product R rO rI radd rmul rsub ropp Rth conj Cok N1 N2 E E_conj (cc_spec ref im)).
    rewrite (kernel_product_ext (cc_spec ref im) (pspec (dft2 ref)))
      by (intros; apply cc_spec_identical; exact Him).
    rewrite (kernel_product_phase_ext (pspec (dft2 ref))
               (fun a k => - t_kern_phase N1 up c1 a k)%Q (fun b l => - t_kern_phase N2 up c2 b l)%Q
               (fun a k => inject_Z (np_freq N1 k) * t_off up a / qN N1)%Q
               (fun b l => inject_Z (np_freq N2 l) * t_off up b / qN N2)%Q a b a b).
    - reflexivity.
    - intros k. apply t_phase_at_gs; assumption.
    - intros l. apply t_phase_at_gs; assumption.
  Qed.

  Theorem t_window_identical_le ref im up c1 c2 a b :
    0 < up -> same_on_grid im ref -> (c1 == qN (t_gs up))%Q -> (c2 == qN (t_gs up))%Q ->
    (t_window (cc_spec ref im) up c1 c2 a b <= t_window (cc_spec ref im) up c1 c2 (t_gs up) (t_gs up))%Q.
  Proof.
    intros Hup Him H1 H2. rewrite !(t_window_identical_eq ref im up c1 c2) by assumption.
    apply window_le_centre; intros; rewrite t_off_centre; unfold Qdiv; ring.
  Qed.

  Theorem t_window_identical_centred ref im up c1 c2 :
    3 <= up -> same_on_grid im ref -> (c1 == qN (t_gs up))%Q -> (c2 == qN (t_gs up))%Q ->
    t_offsets_distinct (dft2 ref) up ->
    win_centred (t_win up) (t_gs up) (t_window (cc_spec ref im) up c1 c2).
  Proof.
    intros Hup Him H1 H2 Hd.
    destruct (t_win_ge Hup) as (Hw & Hg & Hgw).
    apply (generic_window_centred (dft2 ref) (t_win up) (t_gs up) (t_off up)).
    - lia.
    - apply t_off_centre.
    - apply (t_off_neg up 1). lia.
    - intros a b. apply t_window_identical_eq; [lia | assumption..].
    - exact Hd.
  Qed.

  (* ---------------------------------------------------------------- identical images, end to end *)
  Theorem registration_identical_numpy_cs ref im ms up :
    2 <= N1 -> 2 <= N2 ->
    same_on_grid im ref ->
    no_self_overlap ref ->
    (match ms with None => True | Some m => (0 < m * m)%Q end) ->
    (2 <= up -> np_offsets_distinct (dft2 ref) up) ->
    exists a b, np_shift N1 N2 ms up (ccQ ref im) (np_window (cc_spec ref im) up) = Some (a, b) /\
                (a == 0)%Q /\ (b == 0)%Q.
  Proof.
    intros H1 H2 Him Hn Hms Hd.
    apply (registration_identical_numpy R rO rI radd rmul rsub ropp Rth conj Cok N1 w1 Ninv1 N2 w2 Ninv2
             Rok1 Rok2 re re_conj ref im ms up (np_window (cc_spec ref im) up) H1 H2 Him
             (unique_peak_of_no_self_overlap ref Hn)).
    - exact Hms.
    - intros Hup x y Hx Hy. apply np_window_identical_centred; auto.
  Qed.

  Theorem registration_identical_torch_cs ref im up :
    2 <= N1 -> 2 <= N2 ->
    same_on_grid im ref ->
    no_self_overlap ref ->
    (3 <= up -> t_offsets_distinct (dft2 ref) up) ->
    exists a b, torch_shift N1 N2 up (ccQ ref im) (t_window (cc_spec ref im) up) = Some (a, b) /\
                (a == 0)%Q /\ (b == 0)%Q.
  Proof.
    intros H1 H2 Him Hn Hd.
    apply (registration_identical_torch R rO rI radd rmul rsub ropp Rth conj Cok N1 w1 Ninv1 N2 w2 Ninv2
             Rok1 Rok2 re re_conj ref im up (t_window (cc_spec ref im) up) H1 H2 Him
             (unique_peak_of_no_self_overlap ref Hn)).
    intros Hup cx cy Hx Hy. apply t_window_identical_centred; auto.
  Qed.
End C13_CS.
