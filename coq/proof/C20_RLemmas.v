(* C20 — real analysis behind display normalisation, on CANONICAL forms of the interval map and
   of the six stretches.  Nothing here depends on the translated source: the fixed scripts in
   coq/gen_proofs show, at check time, that the functions generated from the current
   custom_normalizations.py are equal to these canonical forms and then transfer the
   results.  Everything is proved analytically from monotonicity and cancellation lemmas of
   ln / exp / Rpower / sinh / arcsinh (Coq standard library only). *)
From Coq Require Import Reals Lra.
From QV.lib Require Import C20_NpReal.
Local Open Scope R_scope.

(* ------------------------------------------------------------------ clip to [0, 1] *)
Definition clip01 (x : R) : R := np_clip x 0 1.

Lemma clip01_range x : 0 <= clip01 x <= 1.
Proof. unfold clip01, np_clip, Rmin, Rmax. repeat destruct Rle_dec; lra. Qed.

Lemma clip01_id x : 0 <= x <= 1 -> clip01 x = x.
Proof. unfold clip01, np_clip, Rmin, Rmax. repeat destruct Rle_dec; lra. Qed.

Lemma clip01_mono x y : x <= y -> clip01 x <= clip01 y.
Proof. unfold clip01, np_clip, Rmin, Rmax. repeat destruct Rle_dec; lra. Qed.

Lemma clip01_0 : clip01 0 = 0.
Proof. apply clip01_id; lra. Qed.

Lemma clip01_1 : clip01 1 = 1.
Proof. apply clip01_id; lra. Qed.

Lemma clip01_idem x : clip01 (clip01 x) = clip01 x.
Proof. apply clip01_id, clip01_range. Qed.

Lemma clip01_low x : x <= 0 -> clip01 x = 0.
Proof. unfold clip01, np_clip, Rmin, Rmax. repeat destruct Rle_dec; lra. Qed.

Lemma clip01_high x : 1 <= x -> clip01 x = 1.
Proof. unfold clip01, np_clip, Rmin, Rmax. repeat destruct Rle_dec; lra. Qed.

(* ------------------------------------------------------------------ what a stretch must satisfy *)
Definition mono (f : R -> R) : Prop := forall x y, x <= y -> f x <= f y.

Record stretch_ok (f : R -> R) : Prop := {
  so_mono : mono f;
  so_0 : f 0 = 0;
  so_1 : f 1 = 1 }.

Lemma stretch_ok_range f : stretch_ok f -> forall u, 0 <= u <= 1 -> 0 <= f u <= 1.
Proof.
  intros [Hm H0 H1] u [Hu0 Hu1]. split.
  - rewrite <- H0. now apply Hm.
  - rewrite <- H1. now apply Hm.
Qed.

Lemma stretch_ok_ext f g : (forall x, f x = g x) -> stretch_ok g -> stretch_ok f.
Proof.
  intros E [Hm H0 H1]. split.
  - intros x y Hxy. rewrite !E. now apply Hm.
  - now rewrite E.
  - now rewrite E.
Qed.

Lemma stretch_ok_id : stretch_ok (fun x => x).
Proof. split; [intros x y H; exact H | reflexivity | reflexivity]. Qed.

(* a stretch of the shape F o clip01 is determined by F on [0, 1] *)
Lemma stretch_ok_clip (F : R -> R) :
  (forall u v, 0 <= u -> u <= v -> v <= 1 -> F u <= F v) -> F 0 = 0 -> F 1 = 1 ->
  stretch_ok (fun x => F (clip01 x)).
Proof.
  intros Hm H0 H1. split.
  - intros x y Hxy. pose proof (clip01_range x). pose proof (clip01_range y).
    apply Hm; try lra. now apply clip01_mono.
  - now rewrite clip01_0.
  - now rewrite clip01_1.
Qed.

(* ------------------------------------------------------------------ interval map *)
Definition c_imap (vmin vmax x : R) : R := clip01 ((x - vmin) / (vmax - vmin)).
Definition c_imap_deg (v x : R) : R := clip01 (x - v).

Lemma c_imap_range vmin vmax x : 0 <= c_imap vmin vmax x <= 1.
Proof. apply clip01_range. Qed.

Lemma c_imap_mono vmin vmax : vmin < vmax -> mono (c_imap vmin vmax).
Proof.
  intros H x y Hxy. unfold c_imap. apply clip01_mono.
  unfold Rdiv. apply Rmult_le_compat_r; [| lra].
  left. apply Rinv_0_lt_compat. lra.
Qed.

Lemma c_imap_vmin vmin vmax : c_imap vmin vmax vmin = 0.
Proof.
  unfold c_imap. replace ((vmin - vmin) / (vmax - vmin)) with 0.
  - apply clip01_0.
  - unfold Rdiv. rewrite Rminus_diag_eq by reflexivity. ring.
Qed.

Lemma c_imap_vmax vmin vmax : vmin < vmax -> c_imap vmin vmax vmax = 1.
Proof.
  intros H. unfold c_imap. replace ((vmax - vmin) / (vmax - vmin)) with 1.
  - apply clip01_1.
  - field. lra.
Qed.

Lemma c_imap_inside vmin vmax x :
  vmin < vmax -> vmin <= x <= vmax -> c_imap vmin vmax x = (x - vmin) / (vmax - vmin).
Proof.
  intros H Hx. unfold c_imap. apply clip01_id.
  assert (0 < / (vmax - vmin)) by (apply Rinv_0_lt_compat; lra).
  unfold Rdiv. split.
  - apply Rmult_le_pos; lra.
  - replace 1 with ((vmax - vmin) * / (vmax - vmin)) by (field; lra).
    apply Rmult_le_compat_r; lra.
Qed.

Lemma c_imap_deg_range v x : 0 <= c_imap_deg v x <= 1.
Proof. apply clip01_range. Qed.

Lemma c_imap_deg_mono v : mono (c_imap_deg v).
Proof. intros x y H. unfold c_imap_deg. apply clip01_mono. lra. Qed.

Lemma c_imap_deg_v v : c_imap_deg v v = 0.
Proof. unfold c_imap_deg. rewrite Rminus_diag_eq by reflexivity. apply clip01_0. Qed.

(* composition: any admissible stretch after any monotone map into [0, 1] *)
Lemma norm_range f i :
  stretch_ok f -> (forall x, 0 <= i x <= 1) -> forall x : R, 0 <= f (i x) <= 1.
Proof. intros Hf Hi x. now apply stretch_ok_range. Qed.

Lemma norm_mono f i : stretch_ok f -> mono i -> mono (fun x => f (i x)).
Proof. intros [Hm _ _] Hi x y Hxy. apply Hm, Hi, Hxy. Qed.

(* ------------------------------------------------------------------ power law *)
(* pw p c = c ^ p with NumPy's convention 0 ^ p = 0 *)
Definition pw (p c : R) : R := np_power c p.
Definition c_power (p x : R) : R := pw p (clip01 x).

Lemma pw_0 p : pw p 0 = 0.
Proof. unfold pw, np_power. destruct (Req_EM_T 0 0); [reflexivity | lra]. Qed.

Lemma pw_pos p c : 0 < c -> pw p c = Rpower c p.
Proof. intros H. unfold pw, np_power. destruct (Req_EM_T c 0); [lra | reflexivity]. Qed.

Lemma Rpower_base_1 p : Rpower 1 p = 1.
Proof. unfold Rpower. rewrite ln_1, Rmult_0_r. apply exp_0. Qed.

Lemma pw_1 p : pw p 1 = 1.
Proof. rewrite pw_pos by lra. apply Rpower_base_1. Qed.

Lemma pw_nonneg p c : 0 <= pw p c.
Proof.
  unfold pw, np_power. destruct (Req_EM_T c 0); [lra |].
  left. unfold Rpower. apply exp_pos.
Qed.

Lemma pw_mono p u v : 0 < p -> 0 <= u -> u <= v -> pw p u <= pw p v.
Proof.
  intros Hp Hu Huv. destruct (Req_EM_T u 0) as [-> | Hne].
  - rewrite pw_0. apply pw_nonneg.
  - rewrite !pw_pos by lra. apply Rle_Rpower_l; lra.
Qed.

Lemma pw_inv p c : 0 < p -> 0 <= c -> pw (1 / p) (pw p c) = c.
Proof.
  intros Hp Hc. destruct (Req_EM_T c 0) as [-> | Hne].
  - now rewrite !pw_0.
  - assert (Hc' : 0 < c) by lra.
    rewrite (pw_pos p c Hc').
    rewrite pw_pos by (unfold Rpower; apply exp_pos).
    rewrite Rpower_mult. replace (p * (1 / p)) with 1 by (field; lra).
    now apply Rpower_1.
Qed.

Lemma c_power_ok p : 0 < p -> stretch_ok (c_power p).
Proof.
  intros Hp. unfold c_power. apply (stretch_ok_clip (pw p)).
  - intros u v Hu Huv _. now apply pw_mono.
  - apply pw_0.
  - apply pw_1.
Qed.

Lemma c_power_inverse p x :
  0 < p -> 0 <= x <= 1 -> c_power (1 / p) (c_power p x) = x.
Proof.
  intros Hp Hx.
  assert (Hr : 0 <= c_power p x <= 1) by (apply stretch_ok_range; [now apply c_power_ok | exact Hx]).
  unfold c_power at 1. rewrite (clip01_id _ Hr). unfold c_power. rewrite (clip01_id _ Hx).
  apply pw_inv; lra.
Qed.

Lemma inv_pos p : 0 < p -> 0 < 1 / p.
Proof. intros H. unfold Rdiv. rewrite Rmult_1_l. now apply Rinv_0_lt_compat. Qed.

Lemma inv_inv p : 0 < p -> 1 / (1 / p) = p.
Proof. intros H. field. lra. Qed.

(* p = 1 is the identity on [0, 1] (the source short-cuts it) *)
Lemma c_power_1 x : 0 <= x <= 1 -> c_power 1 x = x.
Proof.
  intros Hx. unfold c_power. rewrite (clip01_id _ Hx).
  destruct (Req_EM_T x 0) as [-> | Hne]; [apply pw_0 |].
  rewrite pw_pos by lra. apply Rpower_1. lra.
Qed.

(* ------------------------------------------------------------------ logarithmic pair *)
Definition c_log (a x : R) : R := ln (clip01 x * a + 1) / ln (a + 1).
Definition c_invlog (a x : R) : R := (exp (clip01 x * ln (a + 1)) - 1) / a.

Lemma ln_a1_pos a : 0 < a -> 0 < ln (a + 1).
Proof. intros H. rewrite <- ln_1. apply ln_increasing; lra. Qed.

Lemma ln_le_compat u v : 0 < u -> u <= v -> ln u <= ln v.
Proof.
  intros Hu [Hlt | ->]; [| lra]. left. now apply ln_increasing.
Qed.

Lemma exp_le_compat u v : u <= v -> exp u <= exp v.
Proof. intros [Hlt | ->]; [| lra]. left. now apply exp_increasing. Qed.

Lemma c_log_ok a : 0 < a -> stretch_ok (c_log a).
Proof.
  intros Ha. pose proof (ln_a1_pos a Ha) as HL.
  unfold c_log. apply (stretch_ok_clip (fun c => ln (c * a + 1) / ln (a + 1))).
  - intros u v Hu Huv _. unfold Rdiv. apply Rmult_le_compat_r.
    + left. now apply Rinv_0_lt_compat.
    + apply ln_le_compat; nra.
  - replace (0 * a + 1) with 1 by ring. rewrite ln_1. unfold Rdiv. ring.
  - replace (1 * a + 1) with (a + 1) by ring. field. lra.
Qed.

Lemma c_invlog_ok a : 0 < a -> stretch_ok (c_invlog a).
Proof.
  intros Ha. pose proof (ln_a1_pos a Ha) as HL.
  unfold c_invlog. apply (stretch_ok_clip (fun c => (exp (c * ln (a + 1)) - 1) / a)).
  - intros u v Hu Huv _. unfold Rdiv. apply Rmult_le_compat_r.
    + left. now apply Rinv_0_lt_compat.
    + apply Rplus_le_compat_r. apply exp_le_compat. nra.
  - rewrite Rmult_0_l, exp_0. unfold Rdiv. ring.
  - rewrite Rmult_1_l, exp_ln by lra. field. lra.
Qed.

Lemma c_invlog_log a x : 0 < a -> 0 <= x <= 1 -> c_invlog a (c_log a x) = x.
Proof.
  intros Ha Hx. pose proof (ln_a1_pos a Ha) as HL.
  assert (Hr : 0 <= c_log a x <= 1) by (apply stretch_ok_range; [now apply c_log_ok | exact Hx]).
  unfold c_invlog. rewrite (clip01_id _ Hr). unfold c_log. rewrite (clip01_id _ Hx).
  replace (ln (x * a + 1) / ln (a + 1) * ln (a + 1)) with (ln (x * a + 1)) by (field; lra).
  rewrite exp_ln by nra. field. lra.
Qed.

Lemma c_log_invlog a y : 0 < a -> 0 <= y <= 1 -> c_log a (c_invlog a y) = y.
Proof.
  intros Ha Hy. pose proof (ln_a1_pos a Ha) as HL.
  assert (Hr : 0 <= c_invlog a y <= 1) by (apply stretch_ok_range; [now apply c_invlog_ok | exact Hy]).
  unfold c_log. rewrite (clip01_id _ Hr). unfold c_invlog. rewrite (clip01_id _ Hy).
  replace ((exp (y * ln (a + 1)) - 1) / a * a + 1) with (exp (y * ln (a + 1))) by (field; lra).
  rewrite ln_exp. field. lra.
Qed.

(* ------------------------------------------------------------------ asinh / sinh pair *)
Definition c_asinh (a x : R) : R :=
  arcsinh ((clip01 x * 2 - 1) / a) / (arcsinh (1 / a) * 2) + 1 / 2.
Definition c_sinh (a x : R) : R :=
  sinh ((clip01 x - 1 / 2) * 2 / a) / (sinh (1 / a) * 2) + 1 / 2.

Lemma sinh_opp x : sinh (- x) = - sinh x.
Proof. unfold sinh. rewrite Ropp_involutive. field. Qed.

Lemma arcsinh_opp x : arcsinh (- x) = - arcsinh x.
Proof.
  rewrite <- (arcsinh_sinh (- arcsinh x)). f_equal.
  rewrite sinh_opp, sinh_arcsinh. reflexivity.
Qed.

Lemma sinh_le_compat u v : u <= v -> sinh u <= sinh v.
Proof. intros [Hlt | ->]; [| lra]. left. now apply sinh_lt. Qed.

Lemma arcsinh_pos u : 0 < u -> 0 < arcsinh u.
Proof. intros H. rewrite <- arcsinh_0. now apply arcsinh_lt. Qed.

Lemma sinh_pos u : 0 < u -> 0 < sinh u.
Proof. intros H. rewrite <- sinh_0. now apply sinh_lt. Qed.

Lemma c_asinh_ok a : 0 < a -> stretch_ok (c_asinh a).
Proof.
  intros Ha. pose proof (arcsinh_pos (1 / a) (inv_pos a Ha)) as HK.
  unfold c_asinh.
  apply (stretch_ok_clip (fun c => arcsinh ((c * 2 - 1) / a) / (arcsinh (1 / a) * 2) + 1 / 2)).
  - intros u v Hu Huv _. apply Rplus_le_compat_r. unfold Rdiv at 1 3.
    apply Rmult_le_compat_r.
    + left. apply Rinv_0_lt_compat. lra.
    + apply arcsinh_le. unfold Rdiv. apply Rmult_le_compat_r.
      * left. now apply Rinv_0_lt_compat.
      * lra.
  - replace ((0 * 2 - 1) / a) with (- (1 / a)) by (field; lra).
    rewrite arcsinh_opp. field. lra.
  - replace ((1 * 2 - 1) / a) with (1 / a) by (field; lra). field. lra.
Qed.

Lemma c_sinh_ok a : 0 < a -> stretch_ok (c_sinh a).
Proof.
  intros Ha. pose proof (sinh_pos (1 / a) (inv_pos a Ha)) as HM.
  unfold c_sinh.
  apply (stretch_ok_clip (fun c => sinh ((c - 1 / 2) * 2 / a) / (sinh (1 / a) * 2) + 1 / 2)).
  - intros u v Hu Huv _. apply Rplus_le_compat_r. unfold Rdiv at 1 4.
    apply Rmult_le_compat_r.
    + left. apply Rinv_0_lt_compat. lra.
    + apply sinh_le_compat. unfold Rdiv. apply Rmult_le_compat_r.
      * left. now apply Rinv_0_lt_compat.
      * lra.
  - replace ((0 - 1 / 2) * 2 / a) with (- (1 / a)) by (field; lra).
    rewrite sinh_opp. field. lra.
  - replace ((1 - 1 / 2) * 2 / a) with (1 / a) by (field; lra). field. lra.
Qed.

(* InverseHyperbolicSineStretch(a).inverse = HyperbolicSineStretch(1 / arcsinh(1 / a)) *)
Lemma c_sinh_asinh a x :
  0 < a -> 0 <= x <= 1 -> c_sinh (1 / arcsinh (1 / a)) (c_asinh a x) = x.
Proof.
  intros Ha Hx. pose proof (arcsinh_pos (1 / a) (inv_pos a Ha)) as HK.
  assert (Hr : 0 <= c_asinh a x <= 1) by (apply stretch_ok_range; [now apply c_asinh_ok | exact Hx]).
  unfold c_sinh. rewrite (clip01_id _ Hr). unfold c_asinh. rewrite (clip01_id _ Hx).
  set (K := arcsinh (1 / a)) in *.
  replace ((arcsinh ((x * 2 - 1) / a) / (K * 2) + 1 / 2 - 1 / 2) * 2 / (1 / K))
    with (arcsinh ((x * 2 - 1) / a)) by (field; lra).
  replace (1 / (1 / K)) with K by (field; lra).
  unfold K. rewrite !sinh_arcsinh. field. lra.
Qed.

Lemma c_asinh_sinh' a y :
  0 < a -> 0 <= y <= 1 -> c_asinh a (c_sinh (1 / arcsinh (1 / a)) y) = y.
Proof.
  intros Ha Hy. pose proof (arcsinh_pos (1 / a) (inv_pos a Ha)) as HK.
  assert (Hr : 0 <= c_sinh (1 / arcsinh (1 / a)) y <= 1)
    by (apply stretch_ok_range; [apply c_sinh_ok; now apply inv_pos | exact Hy]).
  unfold c_asinh. rewrite (clip01_id _ Hr). unfold c_sinh. rewrite (clip01_id _ Hy).
  set (K := arcsinh (1 / a)) in *.
  replace (1 / (1 / K)) with K by (field; lra).
  assert (HsK : sinh K = 1 / a) by (unfold K; apply sinh_arcsinh).
  rewrite HsK.
  replace (((sinh ((y - 1 / 2) * 2 / (1 / K)) / (1 / a * 2) + 1 / 2) * 2 - 1) / a)
    with (sinh ((y - 1 / 2) * 2 / (1 / K))) by (field; lra).
  rewrite arcsinh_sinh. field. lra.
Qed.

(* HyperbolicSineStretch(a).inverse = InverseHyperbolicSineStretch(1 / sinh(1 / a)) *)
Lemma c_asinh_sinh a x :
  0 < a -> 0 <= x <= 1 -> c_asinh (1 / sinh (1 / a)) (c_sinh a x) = x.
Proof.
  intros Ha Hx. pose proof (sinh_pos (1 / a) (inv_pos a Ha)) as HM.
  assert (Hr : 0 <= c_sinh a x <= 1) by (apply stretch_ok_range; [now apply c_sinh_ok | exact Hx]).
  unfold c_asinh. rewrite (clip01_id _ Hr). unfold c_sinh. rewrite (clip01_id _ Hx).
  set (M := sinh (1 / a)) in *.
  replace (((sinh ((x - 1 / 2) * 2 / a) / (M * 2) + 1 / 2) * 2 - 1) / (1 / M))
    with (sinh ((x - 1 / 2) * 2 / a)) by (field; lra).
  replace (1 / (1 / M)) with M by (field; lra).
  unfold M. rewrite !arcsinh_sinh. field. lra.
Qed.

Lemma c_sinh_asinh' a y :
  0 < a -> 0 <= y <= 1 -> c_sinh a (c_asinh (1 / sinh (1 / a)) y) = y.
Proof.
  intros Ha Hy. pose proof (sinh_pos (1 / a) (inv_pos a Ha)) as HM.
  assert (Hr : 0 <= c_asinh (1 / sinh (1 / a)) y <= 1)
    by (apply stretch_ok_range; [apply c_asinh_ok; now apply inv_pos | exact Hy]).
  unfold c_sinh. rewrite (clip01_id _ Hr). unfold c_asinh. rewrite (clip01_id _ Hy).
  set (M := sinh (1 / a)) in *.
  replace (1 / (1 / M)) with M by (field; lra).
  assert (HaM : arcsinh M = 1 / a) by (unfold M; apply arcsinh_sinh).
  rewrite HaM.
  replace ((arcsinh ((y * 2 - 1) / (1 / M)) / (1 / a * 2) + 1 / 2 - 1 / 2) * 2 / a)
    with (arcsinh ((y * 2 - 1) / (1 / M))) by (field; lra).
  rewrite sinh_arcsinh. field. lra.
Qed.

(* ------------------------------------------------------------------ linear stretch *)
Definition c_linear (s i x : R) : R := clip01 x * s + i.

Lemma c_linear_default x : 0 <= x <= 1 -> c_linear 1 0 x = x.
Proof. intros H. unfold c_linear. rewrite (clip01_id _ H). ring. Qed.

(* a general linear stretch and its declared inverse LinearStretch(1/s, -i/s) cancel wherever
   the stretched value stays inside [0, 1] (outside, the inverse's own clip cuts it) *)
Lemma c_linear_inverse s i x :
  s <> 0 -> 0 <= x <= 1 -> 0 <= x * s + i <= 1 ->
  c_linear (1 / s) (- i / s) (c_linear s i x) = x.
Proof.
  intros Hs Hx Hy. unfold c_linear. rewrite (clip01_id _ Hx), (clip01_id _ Hy). field. exact Hs.
Qed.

(* ------------------------------------------------------------------ limits *)
Lemma centered_limits c dmin dmax :
  let h := Rmax (Rabs (dmin - c)) (Rabs (dmax - c)) in
  dmin <= dmax ->
  c - h <= dmin /\ dmax <= c + h /\ c - h <= c + h /\ (dmin < dmax -> c - h < c + h).
Proof.
  intros h Hd. unfold h, Rmax, Rabs.
  destruct Rle_dec; repeat destruct Rcase_abs; repeat split; intros; lra.
Qed.
