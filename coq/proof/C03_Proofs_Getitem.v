(* C03 — Dataset.__getitem__: the code's bookkeeping of kept axes (code_expand,
   code_kept_axes, code_separated) computes the axis layout of NumPy's own indexing
   (np_expand, np_out_axes, separated), for every index expression NumPy accepts. *)
From Coq Require Import QArith String.
From QV.lib Require Import Prelude C03_Slice.
From QV.model Require Import C03_Model.
From QV.proof Require Import C03_Proofs_Base.
From Coq Require Import List.
Import ListNotations.
Local Close Scope Q_scope.
Local Open Scope list_scope.

(* ------------------------------------------------------------------ positions of a predicate *)
Fixpoint pos_from {A : Type} (k : nat) (p : A -> bool) (l : list A) : list nat :=
  match l with
  | [] => []
  | x :: r => if p x then k :: pos_from (S k) p r else pos_from (S k) p r
  end.

Lemma positions_from (A : Type) (p : A -> bool) (l : list A) k :
  map fst (filter (fun q : nat * A => p (snd q)) (combine (seq k (length l)) l)) = pos_from k p l.
Proof.
  revert k. induction l as [|x r IH]; intros k; [reflexivity|].
  cbn [length seq combine filter snd pos_from]. destruct (p x); cbn [map fst]; rewrite IH; reflexivity.
Qed.

Lemma positions_eq (A : Type) (p : A -> bool) (l : list A) : positions p l = pos_from 0 p l.
Proof. unfold positions, indexed. apply positions_from. Qed.

Lemma pos_from_app (A : Type) (p : A -> bool) (l1 l2 : list A) k :
  pos_from k p (l1 ++ l2) = pos_from k p l1 ++ pos_from (k + length l1) p l2.
Proof.
  revert k. induction l1 as [|x r IH]; intros k; cbn [app pos_from length].
  - rewrite Nat.add_0_r. reflexivity.
  - rewrite IH. replace (S k + length r) with (k + S (length r)) by lia.
    destruct (p x); reflexivity.
Qed.

Lemma pos_from_all (A : Type) (p : A -> bool) (l : list A) k :
  forallb p l = true -> pos_from k p l = seq k (length l).
Proof.
  revert k. induction l as [|x r IH]; intros k H; [reflexivity|].
  cbn [forallb] in H. apply andb_prop in H. destruct H as [Hx Hr].
  cbn [pos_from length seq]. rewrite Hx, IH by exact Hr. reflexivity.
Qed.

Lemma pos_from_ge (A : Type) (p : A -> bool) (l : list A) k i :
  In i (pos_from k p l) -> k <= i /\ i < k + length l /\ forall d, p (nth (i - k) l d) = true.
Proof.
  revert k. induction l as [|x r IH]; intros k H; [contradiction|].
  cbn [pos_from] in H. cbn [length].
  assert (Hrec : In i (pos_from (S k) p r) ->
                 k <= i /\ i < k + S (length r) /\ forall d, p (nth (i - k) (x :: r) d) = true).
  { intros Hi. destruct (IH _ Hi) as (H1 & H2 & H3). split; [lia|]. split; [lia|].
    intros d. replace (i - k) with (S (i - S k)) by lia. cbn [nth]. apply H3. }
  destruct (p x) eqn:E; [|apply Hrec; exact H].
  destruct H as [<-|H]; [|apply Hrec; exact H].
  split; [lia|]. split; [lia|]. intros d. rewrite Nat.sub_diag. exact E.
Qed.

Lemma pos_from_ext2 (A B : Type) (p : A -> bool) (q : B -> bool) l l' k :
  Forall2 (fun x y => p x = q y) l l' -> pos_from k p l = pos_from k q l'.
Proof.
  intros H. revert k. induction H as [|x y l l' Hxy _ IH]; intros k; [reflexivity|].
  cbn [pos_from]. rewrite Hxy, IH. reflexivity.
Qed.

Lemma pos_from_len (A : Type) (p : A -> bool) (l : list A) k :
  length (pos_from k p l) <= length l /\
  (length (pos_from k p l) = length l <-> forallb p l = true).
Proof.
  revert k. induction l as [|x r IH]; intros k; cbn [pos_from forallb length].
  - split; [lia|]. split; reflexivity.
  - destruct (IH (S k)) as [H1 H2]. destruct (p x); cbn [length andb].
    + split; [lia|]. rewrite <- H2. split; lia.
    + split; [lia|]. split; [lia|discriminate].
Qed.

Lemma pos_from_NoDup (A : Type) (p : A -> bool) (l : list A) k : NoDup (pos_from k p l).
Proof.
  revert k. induction l as [|x r IH]; intros k; cbn [pos_from]; [constructor|].
  destruct (p x); [|apply IH]. constructor; [|apply IH].
  intros H. apply pos_from_ge in H. lia.
Qed.

(* filtering positions by a predicate on the indexed element *)
Lemma filter_pos_from (A : Type) (p q : A -> bool) (l : list A) d k :
  filter (fun i => q (nth (i - k) l d)) (pos_from k p l) = pos_from k (fun x => p x && q x) l.
Proof.
  revert k. induction l as [|x r IH]; intros k; [reflexivity|].
  cbn [pos_from].
  assert (Hr : filter (fun i => q (nth (i - k) (x :: r) d)) (pos_from (S k) p r)
               = pos_from (S k) (fun x => p x && q x) r).
  { rewrite <- IH. apply filter_ext_in. intros i Hi. apply pos_from_ge in Hi.
    replace (i - k) with (S (i - S k)) by lia. reflexivity. }
  destruct (p x); cbn [andb filter]; [|exact Hr].
  rewrite Nat.sub_diag. change (nth 0 (x :: r) d) with x. destruct (q x); rewrite Hr; reflexivity.
Qed.

(* ------------------------------------------------------------------ first_pos *)
Lemma first_pos_le (A : Type) (p : A -> bool) (l : list A) : first_pos p l <= length l.
Proof. induction l as [|x r IH]; cbn [first_pos length]; [lia|]. destruct (p x); lia. Qed.

Lemma first_pos_firstn (A : Type) (p : A -> bool) (l : list A) :
  forallb (fun x => negb (p x)) (firstn (first_pos p l) l) = true.
Proof.
  induction l as [|x r IH]; [reflexivity|]. cbn [first_pos].
  destruct (p x) eqn:E; [reflexivity|]. cbn [firstn forallb]. rewrite E. exact IH.
Qed.

Lemma first_pos_ext2 (A B : Type) (p : A -> bool) (q : B -> bool) l l' :
  Forall2 (fun x y => p x = q y) l l' -> first_pos p l = first_pos q l'.
Proof.
  intros H. induction H as [|x y l l' Hxy _ IH]; [reflexivity|].
  cbn [first_pos]. rewrite Hxy, IH. reflexivity.
Qed.

Lemma first_pos_hit (A : Type) (p : A -> bool) (l : list A) d :
  existsb p l = true -> first_pos p l < length l /\ p (nth (first_pos p l) l d) = true.
Proof.
  induction l as [|x r IH]; cbn [existsb first_pos length]; [discriminate|].
  destruct (p x) eqn:E; cbn [orb]; intros H.
  - split; [lia|exact E].
  - destruct (IH H) as [H1 H2]. split; [lia|exact H2].
Qed.

Lemma existsb_ext2 (A B : Type) (p : A -> bool) (q : B -> bool) l l' :
  Forall2 (fun x y => p x = q y) l l' -> existsb p l = existsb q l'.
Proof.
  intros H. induction H as [|x y l l' Hxy _ IH]; [reflexivity|].
  cbn [existsb]. rewrite Hxy, IH. reflexivity.
Qed.

Lemma forallb_ext2 (A B : Type) (p : A -> bool) (q : B -> bool) l l' :
  Forall2 (fun x y => p x = q y) l l' -> forallb p l = forallb q l'.
Proof.
  intros H. induction H as [|x y l l' Hxy _ IH]; [reflexivity|].
  cbn [forallb]. rewrite Hxy, IH. reflexivity.
Qed.

(* ------------------------------------------------------------------ separated = code_separated *)
Lemma adv_code x : (negb (is_slice x) && negb (is_ell x)) = is_adv x.
Proof. destruct x; reflexivity. Qed.

Lemma last_cons_app (k : nat) (l : list nat) x : last (k :: l ++ [x]) 0 = x.
Proof. change (k :: l ++ [x]) with ((k :: l) ++ [x]). apply last_last. Qed.

(* an index that starts with an advanced item *)
Lemma sep_head x r k :
  is_adv x = true ->
  negb (last (k :: pos_from (S k) is_adv r) 0 - k + 1 =? S (length (pos_from (S k) is_adv r)))
  = negb (forallb is_adv (rev (drop_nonadv (rev (x :: r))))).
Proof.
  intros Hx. f_equal. induction r as [|y r' IH] using rev_ind.
  - cbn. rewrite Hx. cbn. rewrite Hx. replace (k - k + 1) with 1 by lia. reflexivity.
  - rewrite pos_from_app. cbn [pos_from]. change (x :: r' ++ [y]) with ((x :: r') ++ [y]).
    rewrite rev_app_distr. cbn [rev app drop_nonadv].
    destruct (is_adv y) eqn:Hy.
    + rewrite last_cons_app. rewrite app_length. cbn [length].
      cbn [rev]. rewrite rev_app_distr, rev_involutive. cbn [rev app].
      cbn [app forallb]. rewrite Hx, forallb_app. cbn [forallb]. rewrite Hy, !andb_true_r. cbn [andb].
      destruct (pos_from_len _ is_adv r' (S k)) as [L1 L2].
      destruct (forallb is_adv r') eqn:Hf.
      * assert (length (pos_from (S k) is_adv r') = length r') by (apply L2; reflexivity).
        apply Nat.eqb_eq. lia.
      * apply Nat.eqb_neq. intros Hc.
        assert (length (pos_from (S k) is_adv r') = length r') by lia.
        apply L2 in H. discriminate.
    + rewrite app_nil_r. exact IH.
Qed.

Lemma separated_code idx : code_separated idx = separated idx.
Proof.
  unfold code_separated. rewrite positions_eq.
  rewrite (pos_from_ext2 _ _ _ is_adv idx idx 0)
    by (clear; induction idx; constructor; [apply adv_code|assumption]).
  assert (G : forall k,
            match pos_from k is_adv idx with
            | [] => false
            | a0 :: _ => negb (last (pos_from k is_adv idx) 0 - a0 + 1 =? length (pos_from k is_adv idx))
            end = separated idx).
  { unfold separated. induction idx as [|x r IH]; intros k; [reflexivity|].
    cbn [pos_from drop_nonadv]. destruct (is_adv x) eqn:Hx.
    - cbn [length]. apply sep_head. exact Hx.
    - apply IH. }
  apply G.
Qed.

(* ------------------------------------------------------------------ Ellipsis expansion *)
Lemma expand_ell_code idx k :
  count_ell idx = 1 ->
  firstn (first_pos is_ell idx) idx ++ repeat full k ++ skipn (first_pos is_ell idx + 1) idx
  = expand_ell idx k.
Proof.
  unfold count_ell. induction idx as [|x r IH]; cbn [filter length]; [discriminate|].
  destruct x; cbn [is_ell first_pos firstn skipn expand_ell app Nat.add]; intros H;
    try (f_equal; apply IH; exact H).
  all: try reflexivity.
Qed.

Lemma expand_ell_len idx k :
  count_ell idx = 1 -> length (expand_ell idx k) = length idx - 1 + k.
Proof.
  unfold count_ell. induction idx as [|x r IH]; cbn [filter length]; [discriminate|].
  destruct x; cbn [is_ell expand_ell length filter]; intros H;
    try (rewrite IH by exact H;
         assert (1 <= length r) by (rewrite <- H; clear; induction r as [|y r IH]; cbn; [lia|destruct (is_ell y); cbn; lia]);
         lia).
  rewrite app_length, repeat_length. lia.
Qed.

Lemma existsb_count_ell idx : existsb is_ell idx = negb (count_ell idx =? 0).
Proof.
  unfold count_ell. induction idx as [|x r IH]; [reflexivity|].
  cbn [existsb filter]. destruct (is_ell x); cbn [orb length]; [reflexivity|exact IH].
Qed.

Lemma no_ell_expand idx k : count_ell idx = 1 -> count_ell (expand_ell idx k) = 0.
Proof.
  unfold count_ell. induction idx as [|x r IH]; cbn [filter length]; [discriminate|].
  destruct x; cbn [is_ell expand_ell filter length]; intros H; try (apply IH; exact H).
  injection H as H. rewrite filter_app, app_length.
  assert (E : filter is_ell (repeat full k) = []) by (clear; induction k; [reflexivity|exact IHk]).
  rewrite E. exact H.
Qed.

(* the code's normalisation agrees with NumPy's whenever NumPy accepts the index *)
Lemma code_expand_np n idx ex :
  np_expand n idx = Ok ex -> code_expand n idx = ex /\ length ex = n /\ count_ell ex = 0.
Proof.
  unfold np_expand, code_expand. intros H.
  destruct (1 <? count_ell idx) eqn:E1; [discriminate|]. apply Nat.ltb_ge in E1.
  destruct (n <? length idx - count_ell idx) eqn:E2; [discriminate|]. apply Nat.ltb_ge in E2.
  injection H as <-. rewrite existsb_count_ell.
  assert (Hc : count_ell idx <= length idx) by (unfold count_ell; clear; induction idx as [|y r IH]; cbn [filter length]; [lia|destruct (is_ell y); cbn [length]; lia]).
  destruct (count_ell idx =? 1) eqn:E3.
  - apply Nat.eqb_eq in E3. rewrite E3. cbn [Nat.eqb negb].
    replace (Z.to_nat (Z.of_nat n - (Z.of_nat (length idx) - 1))) with (n - (length idx - 1)) by lia.
    rewrite expand_ell_code by exact E3.
    pose proof (expand_ell_len idx (n - (length idx - 1)) E3) as L.
    assert (Hl : length (expand_ell idx (n - (length idx - 1))) = n) by lia.
    rewrite Hl, Nat.ltb_irrefl. split; [reflexivity|]. split; [reflexivity|].
    apply no_ell_expand. exact E3.
  - apply Nat.eqb_neq in E3. assert (E0 : count_ell idx = 0) by lia. rewrite E0. cbn [Nat.eqb negb].
    rewrite E0 in *. rewrite Nat.sub_0_r in *.
    assert (Hl : length (idx ++ repeat full (n - length idx)) = n) by (rewrite app_length, repeat_length; lia).
    split.
    + destruct (length idx <? n) eqn:E4; [reflexivity|]. apply Nat.ltb_ge in E4.
      replace (n - length idx) with 0 by lia. cbn [repeat]. rewrite app_nil_r. reflexivity.
    + split; [exact Hl|]. unfold count_ell in *. rewrite filter_app, app_length, E0.
      assert (E : filter is_ell (repeat full (n - length idx)) = [])
        by (generalize (n - length idx) as k; clear; induction k; [reflexivity|exact IHk]).
      rewrite E. reflexivity.
Qed.

(* ------------------------------------------------------------------ kinds are preserved *)
(* an expanded index item and its normalised form *)
Definition stepq (x : index) : Z := match x with ISlice _ _ (Some c) => c | _ => 1%Z end.

Definition krel (x : index) (y : nidx) : Prop :=
  match x, y with
  | IInt _, NI _ => True
  | ISlice _ _ _, NS _ sp _ => sp = stepq x
  | IList _, NL _ => True
  | _, _ => False
  end.

Lemma mapM_Forall2 (A B : Type) (f : A -> res B) (R : A -> B -> Prop) l l' :
  (forall x y, f x = Ok y -> R x y) -> mapM f l = Ok l' -> Forall2 R l l'.
Proof.
  intros Hf. revert l'. induction l as [|x r IH]; intros l' H; cbn [mapM] in H.
  - injection H as <-. constructor.
  - inv_bind H. inv_bind H. injection H as <-. constructor; [apply Hf; exact Hx|apply IH; exact Hx0].
Qed.

Lemma norm_one_krel x n y : is_ell x = false -> norm_one (x, n) = Ok y -> krel x y.
Proof.
  destruct x as [k|a b c|l|]; cbn [norm_one is_ell]; intros He H; try discriminate.
  - inv_bind H. injection H as <-. exact I.
  - destruct (slice_indices a b c (Z.of_nat n)) as [[[st sp] stp]|] eqn:E; [|discriminate].
    injection H as <-. cbn [krel stepq]. unfold slice_indices in E.
    destruct c as [c|]; cbn in E.
    + destruct (c =? 0)%Z; [discriminate|]. injection E as _ _ <-. reflexivity.
    + injection E as _ _ <-. reflexivity.
  - injection H as <-. exact I.
Qed.

Lemma Forall2_combine_l (A B C : Type) (R : A -> C -> Prop) (l : list A) (m : list B) (l' : list C) :
  length l = length m -> Forall2 (fun (xn : A * B) y => R (fst xn) y) (combine l m) l' -> Forall2 R l l'.
Proof.
  revert m l'. induction l as [|x r IH]; intros m l' Hl H; destruct m as [|b m]; try discriminate.
  - inversion H. constructor.
  - cbn [combine] in H. inversion H; subst. constructor; [assumption|].
    eapply IH; [|eassumption]. cbn in Hl. lia.
Qed.

Lemma Forall2_len (A B : Type) (R : A -> B -> Prop) l l' : Forall2 R l l' -> length l = length l'.
Proof. intros H. induction H; cbn [length]; [reflexivity|lia]. Qed.

Lemma forallb_no_ell ex : count_ell ex = 0 -> Forall (fun x => is_ell x = false) ex.
Proof.
  unfold count_ell. induction ex as [|x r IH]; intros H; constructor.
  - cbn [filter] in H. destruct (is_ell x); [discriminate|reflexivity].
  - apply IH. cbn [filter] in H. destruct (is_ell x); [discriminate|exact H].
Qed.

(* the per-axis kinds after normalisation and bounds check *)
Lemma norm_kinds ex sh nix0 m nix :
  length ex = length sh -> count_ell ex = 0 ->
  mapM norm_one (combine ex sh) = Ok nix0 -> check_lists m nix0 sh = Ok nix ->
  Forall2 krel ex nix.
Proof.
  intros Hl He H0 H1.
  assert (F0 : Forall2 krel ex nix0).
  { apply forallb_no_ell in He.
    apply (Forall2_combine_l _ _ _ krel ex sh nix0 Hl).
    clear Hl H1. revert sh nix0 H0. induction He as [|x r Hx _ IH]; intros sh nix0 H0.
    - cbn in H0. injection H0 as <-. constructor.
    - destruct sh as [|n sh]; cbn [combine mapM] in H0.
      + injection H0 as <-. constructor.
      + inv_bind H0. inv_bind H0. injection H0 as <-. constructor.
        * cbn [fst]. eapply norm_one_krel; eassumption.
        * apply IH. exact Hx1. }
  unfold check_lists in H1. clear H0.
  assert (Hl0 : length nix0 = length sh) by (apply Forall2_len in F0; lia).
  clear Hl He. revert sh nix Hl0 H1. induction F0 as [|x y ex nix0 Hxy _ IH]; intros sh nix Hl0 H1.
  - cbn in H1. injection H1 as <-. constructor.
  - destruct sh as [|n sh]; [discriminate|]. cbn [combine mapM] in H1.
    inv_bind H1. inv_bind H1. injection H1 as <-. constructor.
    + destruct y as [k|st sp len|l]; cbn in Hx.
      * injection Hx as <-. exact Hxy.
      * injection Hx as <-. exact Hxy.
      * destruct x; cbn [krel] in *; try contradiction.
        destruct (m =? 0); [injection Hx as <-; exact I|]. inv_bind Hx. injection Hx as <-. exact I.
    + apply (IH sh); [cbn in Hl0; lia|exact Hx0].
Qed.

Lemma Forall2_imp (A B : Type) (R S : A -> B -> Prop) l l' :
  (forall x y, R x y -> S x y) -> Forall2 R l l' -> Forall2 S l l'.
Proof. intros HRS H. induction H; constructor; auto. Qed.

Lemma krel_int ex nix : Forall2 krel ex nix -> Forall2 (fun x y => is_int x = is_NI y) ex nix.
Proof. intros H. eapply Forall2_imp; [|exact H]. intros [] [] K; cbn in *; try contradiction; reflexivity. Qed.
Lemma krel_list ex nix : Forall2 krel ex nix -> Forall2 (fun x y => is_list x = is_NL y) ex nix.
Proof. intros H. eapply Forall2_imp; [|exact H]. intros [] [] K; cbn in *; try contradiction; reflexivity. Qed.
Lemma krel_slice ex nix : Forall2 krel ex nix -> Forall2 (fun x y => is_slice x = is_NS y) ex nix.
Proof. intros H. eapply Forall2_imp; [|exact H]. intros [] [] K; cbn in *; try contradiction; reflexivity. Qed.
Lemma krel_nslice ex nix :
  Forall2 krel ex nix -> Forall2 (fun x y => negb (is_slice x) = negb (is_NS y)) ex nix.
Proof. intros H. eapply Forall2_imp; [|exact H]. intros [] [] K; cbn in *; try contradiction; reflexivity. Qed.
Lemma krel_kept_sliced ex nix :
  Forall2 krel ex nix -> Forall2 (fun x y => (negb (is_int x) && negb (is_list x)) = is_NS y) ex nix.
Proof. intros H. eapply Forall2_imp; [|exact H]. intros [] [] K; cbn in *; try contradiction; reflexivity. Qed.
Lemma krel_kept_nolist ex nix :
  Forall2 krel ex nix -> existsb is_NL nix = false ->
  Forall2 (fun x y => negb (is_int x) = is_NS y) ex nix.
Proof.
  intros H. induction H as [|x y ex nix K _ IH]; intros He; constructor.
  - cbn [existsb] in He. apply orb_false_elim in He. destruct He as [He _].
    destruct x, y; cbn in *; try contradiction; try reflexivity. discriminate.
  - apply IH. cbn [existsb] in He. apply orb_false_elim in He. apply He.
Qed.

(* ------------------------------------------------------------------ NumPy's slice axes *)
Lemma slice_axes_pos k (l : list nidx) :
  map oax_src (slice_axes (combine (seq k (length l)) l)) = pos_from k is_NS l.
Proof.
  revert k. induction l as [|y r IH]; intros k; [reflexivity|].
  cbn [length seq combine slice_axes flat_map snd fst pos_from].
  fold (slice_axes (combine (seq (S k) (length r)) r)).
  destruct y; cbn [is_NS app map oax_src]; rewrite IH; reflexivity.
Qed.

Lemma firstn_indexed (A : Type) k fa (l : list A) :
  firstn fa (combine (seq k (length l)) l) = combine (seq k (length (firstn fa l))) (firstn fa l).
Proof.
  revert k l. induction fa as [|fa IH]; intros k l; [reflexivity|].
  destruct l as [|x r]; [reflexivity|]. cbn [length seq combine firstn]. rewrite IH. reflexivity.
Qed.

Lemma skipn_indexed (A : Type) k fa (l : list A) :
  fa <= length l ->
  skipn fa (combine (seq k (length l)) l) = combine (seq (k + fa) (length (skipn fa l))) (skipn fa l).
Proof.
  revert k l. induction fa as [|fa IH]; intros k l H.
  - rewrite Nat.add_0_r. reflexivity.
  - destruct l as [|x r]; [cbn in H; lia|]. cbn [length seq combine skipn].
    rewrite IH by (cbn in H; lia). replace (S k + fa) with (k + S fa) by lia. reflexivity.
Qed.

Lemma filter_all (A : Type) (p : A -> bool) l : (forall x, In x l -> p x = true) -> filter p l = l.
Proof.
  induction l as [|x r IH]; intros H; [reflexivity|]. cbn [filter].
  rewrite (H x) by (left; reflexivity). f_equal. apply IH. intros y Hy. apply H. right. exact Hy.
Qed.

(* ------------------------------------------------------------------ the kept axes *)
Theorem kept_axes_np idx ex nix m :
  Forall2 krel ex nix ->
  code_kept_axes idx ex = map oax_src (np_out_axes (separated idx) nix m).
Proof.
  intros K.
  unfold code_kept_axes, np_out_axes.
  rewrite (existsb_ext2 _ _ is_list is_NL ex nix (krel_list _ _ K)).
  rewrite positions_eq. unfold indexed.
  destruct (existsb is_NL nix) eqn:EL.
  2:{ rewrite slice_axes_pos. apply pos_from_ext2. apply krel_kept_nolist; assumption. }
  (* sliced axes *)
  assert (HS : filter (fun i => negb (is_list (nth i ex full))) (pos_from 0 (fun i => negb (is_int i)) ex)
               = pos_from 0 is_NS nix).
  { rewrite <- (pos_from_ext2 _ _ (fun x => negb (is_int x) && negb (is_list x)) is_NS ex nix 0
                              (krel_kept_sliced _ _ K)).
    rewrite <- (filter_pos_from _ (fun i => negb (is_int i)) (fun x => negb (is_list x)) ex full 0).
    apply filter_ext. intros i. rewrite Nat.sub_0_r. reflexivity. }
  rewrite HS. clear HS.
  rewrite (first_pos_ext2 _ _ (fun i => negb (is_slice i)) (fun x => negb (is_NS x)) ex nix (krel_nslice _ _ K)).
  rewrite (first_pos_ext2 _ _ is_list is_NL ex nix (krel_list _ _ K)).
  rewrite separated_code.
  set (fa := first_pos (fun x => negb (is_NS x)) nix).
  set (fp := first_pos is_NL nix).
  destruct (separated idx).
  - cbn [firstn skipn app map oax_src]. rewrite slice_axes_pos. reflexivity.
  - (* decomposition at the first advanced index *)
    pose proof (first_pos_le _ (fun x => negb (is_NS x)) nix) as Hfa. fold fa in Hfa.
    assert (Hall : forallb is_NS (firstn fa nix) = true).
    { pose proof (first_pos_firstn _ (fun x => negb (is_NS x)) nix) as H. fold fa in H.
      rewrite <- H. apply forallb_ext2. clear. induction (firstn fa nix); constructor; [|assumption].
      destruct (is_NS a); reflexivity. }
    assert (Hlen : length (firstn fa nix) = fa) by (rewrite firstn_length; lia).
    assert (Hsplit : pos_from 0 is_NS nix = seq 0 fa ++ pos_from fa is_NS (skipn fa nix)).
    { rewrite <- (firstn_skipn fa nix) at 1. rewrite pos_from_app, Hlen.
      rewrite (pos_from_all _ is_NS (firstn fa nix) 0 Hall), Hlen. reflexivity. }
    set (T := pos_from fa is_NS (skipn fa nix)) in *.
    assert (Hnb : length (filter (fun i => i <? fa) (pos_from 0 is_NS nix)) = fa).
    { rewrite Hsplit, filter_app, app_length.
      assert (F1 : filter (fun i => i <? fa) (seq 0 fa) = seq 0 fa).
      { apply filter_all. intros i Hi. apply in_seq in Hi. apply Nat.ltb_lt. lia. }
      assert (F2 : filter (fun i => i <? fa) T = []).
      { clear -T. assert (H : forall i, In i T -> fa <= i) by (intros i Hi; apply pos_from_ge in Hi; lia).
        induction T as [|i T IH]; [reflexivity|]. cbn [filter].
        assert (E : (i <? fa) = false) by (apply Nat.ltb_ge; apply H; left; reflexivity).
        rewrite E. apply IH. intros j Hj. apply H. right. exact Hj. }
      rewrite F1, F2, seq_length. cbn [length]. lia. }
    rewrite Hnb. rewrite Hsplit.
    rewrite firstn_app, seq_length, Nat.sub_diag. cbn [firstn]. rewrite app_nil_r.
    rewrite firstn_all2 by (rewrite seq_length; lia).
    rewrite skipn_app, seq_length, Nat.sub_diag. cbn [skipn].
    rewrite skipn_all2 by (rewrite seq_length; lia). cbn [app].
    rewrite map_app. cbn [map oax_src].
    rewrite firstn_indexed, slice_axes_pos, (pos_from_all _ is_NS (firstn fa nix) 0 Hall), Hlen.
    rewrite skipn_indexed by exact Hfa. rewrite slice_axes_pos. reflexivity.
Qed.
