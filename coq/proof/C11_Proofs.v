(* C11 — proofs about model/C11_Model.v: the state invariant is preserved by every operation
   (hence holds after every history), traversal/addressing theorems, heap disjointness. *)
From QV.lib Require Import Prelude C11_Heap.
From QV.model Require Import C11_Model.
From Coq Require Import QArith.
Local Close Scope Q_scope.

(* ================================================================ invariant *)
Definition cell_wf (c : cell) : Prop := Forall (fun r => length r = ncols c) (rows c).

Definition leaf_ok (h : list cell) (nf : nat) (lf : leaf) : Prop :=
  match lf with
  | None => True
  | Some id => exists c, nth_error h id = Some c /\ ncols c = nf
  end.

(* one vector: positive shape, nesting = shape, unique field names, one unit per field, every
   populated cell is a live array with exactly one column per field, own metadata id allocated *)
Definition VInv (h : list cell) (nm : nat) (v : vec) : Prop :=
  Forall (fun n => 0 < n) (vshape v) /\
  shaped (vshape v) (vdata v) /\
  NoDup (vfields v) /\
  length (vunits v) = length (vfields v) /\
  Forall (leaf_ok h (length (vfields v))) (leaves (vdata v)) /\
  vmeta v < nm.

(* whole state: every array rectangular; every live vector well formed; metadata dicts pairwise distinct *)
Definition SInv (s : state) : Prop :=
  Forall cell_wf (heap s) /\
  Forall (VInv (heap s) (nmeta s)) (vecs s) /\
  NoDup (map vmeta (vecs s)).

(* arrays never change their shape once allocated, and are never freed *)
Definition heap_ext (h h' : list cell) : Prop :=
  forall i c, nth_error h i = Some c ->
    exists c', nth_error h' i = Some c' /\ ncols c' = ncols c /\ length (rows c') = length (rows c).

Definition heap_app (h h' : list cell) : Prop := exists l, h' = h ++ l /\ Forall cell_wf l.

(* ================================================================ generic helpers *)
Lemma NoDup_app_intro (A : Type) (l1 l2 : list A) :
  NoDup l1 -> NoDup l2 -> (forall x, In x l1 -> ~ In x l2) -> NoDup (l1 ++ l2).
Proof.
  intros H1 H2 Hd. induction H1 as [|x l1 Hx H1 IH]; simpl; [exact H2|].
  constructor.
  - rewrite in_app_iff. intros [H|H]; [contradiction|]. apply (Hd x); simpl; auto.
  - apply IH. intros y Hy. apply Hd. simpl. auto.
Qed.

Lemma NoDup_map_inj (A B : Type) (f : A -> B) (l : list A) :
  (forall x y, In x l -> In y l -> f x = f y -> x = y) -> NoDup l -> NoDup (map f l).
Proof.
  intros Hinj Hl. induction Hl as [|x l Hx Hl IH]; simpl; constructor.
  - intros Hin. apply in_map_iff in Hin. destruct Hin as [y [Hy Hyl]].
    assert (y = x) by (apply Hinj; simpl; auto). subst. contradiction.
  - apply IH. intros a b Ha Hb. apply Hinj; simpl; auto.
Qed.

Lemma map_upd_nth (A B : Type) (f : A -> B) n x (l : list A) y :
  nth_error l n = Some y -> f x = f y -> map f (upd_nth n x l) = map f l.
Proof.
  revert n. induction l as [|z l IH]; intros [|n] Hn Hf; simpl in *; try congruence.
  f_equal. apply IH; auto.
Qed.

Lemma mapM_spec (A B : Type) (f : A -> option B) l ys : mapM f l = Some ys -> map f l = map Some ys.
Proof.
  revert ys. induction l as [|x l IH]; intros ys H; simpl in *.
  - inversion H. reflexivity.
  - destruct (f x) as [y|] eqn:Ef; [|discriminate]. destruct (mapM f l) as [ys'|]; [|discriminate].
    inversion H; subst. simpl. f_equal; auto.
Qed.

Lemma mapM_Forall2 (A B : Type) (f : A -> option B) l ys :
  mapM f l = Some ys -> Forall2 (fun x y => f x = Some y) l ys.
Proof.
  revert ys. induction l as [|x l IH]; intros ys H; simpl in *.
  - inversion H. constructor.
  - destruct (f x) as [y|] eqn:Ef; [|discriminate]. destruct (mapM f l) as [ys'|]; [|discriminate].
    inversion H; subst. constructor; auto.
Qed.

Lemma memz_In x l : memz x l = true <-> In x l.
Proof.
  unfold memz. rewrite existsb_exists. split.
  - intros [y [Hy He]]. apply Z.eqb_eq in He. subst. exact Hy.
  - intros H. exists x. split; [exact H|apply Z.eqb_refl].
Qed.

Lemma nodupb_NoDup l : nodupb l = true -> NoDup l.
Proof.
  induction l as [|x l IH]; simpl; intros H; constructor; apply andb_true_iff in H; destruct H as [H1 H2].
  - intros Hin. apply memz_In in Hin. rewrite Hin in H1. discriminate.
  - apply IH. exact H2.
Qed.

Lemma index_of_lt x l k : index_of x l = Some k -> k < length l.
Proof.
  revert k. induction l as [|y l IH]; intros k H; simpl in *; [discriminate|].
  destruct (Z.eqb x y).
  - inversion H. lia.
  - destruct (index_of x l) as [k'|]; simpl in H; [|discriminate]. inversion H. specialize (IH _ eq_refl). lia.
Qed.

(* ================================================================ heap facts *)
Lemma nth_error_app1_some (A : Type) (h l : list A) i x : nth_error h i = Some x -> nth_error (h ++ l) i = Some x.
Proof. intros H. rewrite nth_error_app1; [exact H|]. apply nth_error_Some. congruence. Qed.

Lemma heap_ext_refl h : heap_ext h h.
Proof. intros i c H. exists c. auto. Qed.

Lemma heap_ext_trans h1 h2 h3 : heap_ext h1 h2 -> heap_ext h2 h3 -> heap_ext h1 h3.
Proof.
  intros H12 H23 i c H. destruct (H12 _ _ H) as [c' [H' [E1 E2]]]. destruct (H23 _ _ H') as [c'' [H'' [E3 E4]]].
  exists c''. repeat split; congruence.
Qed.

Lemma heap_app_ext h h' : heap_app h h' -> heap_ext h h'.
Proof.
  intros [l [-> _]] i c H. exists c. split; [|auto]. apply nth_error_app1_some. exact H.
Qed.

Lemma heap_app_refl h : heap_app h h.
Proof. exists []. rewrite app_nil_r. auto. Qed.

Lemma heap_app_trans h1 h2 h3 : heap_app h1 h2 -> heap_app h2 h3 -> heap_app h1 h3.
Proof.
  intros [l1 [-> W1]] [l2 [-> W2]]. exists (l1 ++ l2). rewrite app_assoc. split; [reflexivity|].
  apply Forall_app. auto.
Qed.

Lemma heap_app_one h c : cell_wf c -> heap_app h (h ++ [c]).
Proof. intros H. exists [c]. auto. Qed.

Lemma heap_app_wf h h' : heap_app h h' -> Forall cell_wf h -> Forall cell_wf h'.
Proof. intros [l [-> W]] H. apply Forall_app. auto. Qed.

Lemma heap_app_old h h' i c : heap_app h h' -> nth_error h i = Some c -> nth_error h' i = Some c.
Proof. intros [l [-> _]] H. apply nth_error_app1_some. exact H. Qed.

Lemma heap_app_length h h' : heap_app h h' -> length h <= length h'.
Proof. intros [l [-> _]]. rewrite app_length. lia. Qed.

Lemma heap_ext_upd h id c c' :
  nth_error h id = Some c -> ncols c' = ncols c -> length (rows c') = length (rows c) ->
  heap_ext h (upd_nth id c' h).
Proof.
  intros Hc E1 E2 i x Hx. destruct (Nat.eq_dec id i) as [->|Hne].
  - exists c'. rewrite nth_error_upd_eq by (apply nth_error_Some; congruence).
    rewrite Hc in Hx. inversion Hx; subst. auto.
  - exists x. rewrite nth_error_upd_neq by exact Hne. auto.
Qed.

Lemma leaf_ok_ext h h' nf lf : heap_ext h h' -> leaf_ok h nf lf -> leaf_ok h' nf lf.
Proof.
  intros He. destruct lf as [id|]; simpl; auto. intros [c [Hc En]].
  destruct (He _ _ Hc) as [c' [Hc' [E1 _]]]. exists c'. split; [exact Hc'|congruence].
Qed.

Lemma VInv_ext h h' nm nm' v : heap_ext h h' -> nm <= nm' -> VInv h nm v -> VInv h' nm' v.
Proof.
  intros He Hn (H1 & H2 & H3 & H4 & H5 & H6). repeat split; auto; [|lia].
  eapply Forall_impl; [|exact H5]. intros lf. apply leaf_ok_ext. exact He.
Qed.

Lemma wf_cellb_wf c : wf_cellb c = true -> cell_wf c.
Proof.
  unfold wf_cellb, cell_wf. rewrite forallb_forall, Forall_forall. intros H r Hr.
  apply Nat.eqb_eq. apply H. exact Hr.
Qed.

Lemma ncols_at_some h id k : ncols_at h id = Some k -> exists c, nth_error h id = Some c /\ ncols c = k.
Proof.
  unfold ncols_at. destruct (nth_error h id) as [c|]; simpl; intros H; inversion H. eauto.
Qed.

Lemma check_val_ok h nf v id : check_val h nf v = inr id -> leaf_ok h nf (Some id).
Proof.
  destruct v as [| |i]; simpl; try discriminate.
  destruct (ncols_at h i) as [k|] eqn:E; [|discriminate].
  destruct (Nat.eqb_spec k nf); [|discriminate]. intros H. inversion H; subst.
  apply ncols_at_some in E. exact E.
Qed.

(* ================================================================ state updates *)
Lemma SInv_heap s h :
  SInv s -> heap_ext (heap s) h -> Forall cell_wf h -> SInv (mkState h (vecs s) (nmeta s)).
Proof.
  intros (H1 & H2 & H3) He Hw. split; [exact Hw|]. split; [|exact H3]. simpl.
  eapply Forall_impl; [|exact H2]. intros v. apply VInv_ext; auto.
Qed.

Lemma SInv_push s h sh fs us t :
  SInv s -> heap_ext (heap s) h -> Forall cell_wf h ->
  Forall (fun n => 0 < n) sh -> shaped sh t -> NoDup fs -> length us = length fs ->
  Forall (leaf_ok h (length fs)) (leaves t) ->
  SInv (push_vec s h sh fs us t).
Proof.
  intros (H1 & H2 & H3) He Hw P1 P2 P3 P4 P5. unfold push_vec. split; [exact Hw|]. simpl. split.
  - apply Forall_app. split.
    + eapply Forall_impl; [|exact H2]. intros v. apply VInv_ext; auto.
    + constructor; [|constructor]. repeat split; simpl; auto.
  - rewrite map_app. simpl. apply NoDup_app_intro; [exact H3 | repeat constructor; simpl; tauto |].
    intros x Hx [Hc|[]]. subst x. apply in_map_iff in Hx. destruct Hx as [v [Hv Hin]].
    rewrite Forall_forall in H2. destruct (H2 _ Hin) as (_ & _ & _ & _ & _ & Hlt). lia.
Qed.

Lemma SInv_set s h vi v v' :
  SInv s -> nth_error (vecs s) vi = Some v -> heap_ext (heap s) h -> Forall cell_wf h ->
  VInv h (nmeta s) v' -> vmeta v' = vmeta v ->
  SInv (set_vec s h vi v').
Proof.
  intros (H1 & H2 & H3) Hv He Hw Hv' Hm. unfold set_vec. split; [exact Hw|]. simpl. split.
  - apply Forall_upd_nth; [|exact Hv'].
    eapply Forall_impl; [|exact H2]. intros x. apply VInv_ext; auto.
  - rewrite (map_upd_nth vec nat vmeta vi v' (vecs s) v Hv Hm). exact H3.
Qed.

Lemma SInv_vec s vi v : SInv s -> nth_error (vecs s) vi = Some v -> VInv (heap s) (nmeta s) v.
Proof.
  intros (_ & H2 & _) Hv. rewrite Forall_forall in H2. apply H2. eapply nth_error_In. exact Hv.
Qed.

(* ================================================================ schema validation *)
Lemma mk_schema_spec shape nf fields units sh fs us :
  mk_schema shape nf fields units = Some (sh, fs, us) ->
  sh = map Z.to_nat shape /\ Forall (fun n => 0 < n) sh /\ NoDup fs /\ length us = length fs /\
  (forall f, fields = Some f -> fs = f) /\ (forall z, nf = Some z -> Z.of_nat (length fs) = z) /\
  (forall u, units = Some u -> us = u).
Proof.
  unfold mk_schema. destruct (existsb (fun d => (d <=? 0)%Z) shape) eqn:Eshape; [discriminate|].
  assert (Hpos : Forall (fun n => 0 < n) (map Z.to_nat shape)).
  { apply Forall_forall. intros n Hn. apply in_map_iff in Hn. destruct Hn as [z [<- Hz]].
    destruct (Z.leb_spec z 0) as [Hle|Hgt]; [|lia].
    assert (existsb (fun d => (d <=? 0)%Z) shape = true).
    { apply existsb_exists. exists z. split; [exact Hz|]. apply Z.leb_le. exact Hle. }
    congruence. }
  set (F := match fields with Some _ => _ | None => _ end).
  destruct F as [fs0|] eqn:EF; [|discriminate].
  assert (HF : NoDup fs0 /\ (forall f, fields = Some f -> fs0 = f) /\ (forall z, nf = Some z -> Z.of_nat (length fs0) = z)).
  { subst F. destruct fields as [f|].
    - destruct (nodupb f) eqn:En; [|discriminate]. apply nodupb_NoDup in En.
      destruct nf as [k|].
      + destruct (Z.eqb_spec k (Z.of_nat (length f))); [|discriminate]. inversion EF; subst.
        repeat split; auto; intros; congruence.
      + inversion EF; subst. repeat split; auto; intros; congruence.
    - destruct nf as [k|]; [|discriminate]. destruct (Z.leb_spec k 0); [discriminate|].
      inversion EF; subst. repeat split.
      + apply NoDup_map_inj; [intros; lia | apply seq_NoDup].
      + intros; discriminate.
      + intros z Hz. inversion Hz; subst. rewrite map_length, seq_length. lia. }
  destruct HF as (HF1 & HF2 & HF3).
  destruct units as [u|].
  - destruct (Nat.eqb_spec (length u) (length fs0)); [|discriminate]. intros H. inversion H; subst.
    repeat split; auto. intros u' Hu. congruence.
  - intros H. inversion H; subst. repeat split; auto; [apply repeat_length | intros; discriminate].
Qed.

(* ================================================================ evaluating array arguments *)
Lemma eval_aval_app vs h a h' rv : eval_aval vs h a = (h', rv) -> heap_app h h'.
Proof.
  destruct a as [c|vi pos| |]; simpl.
  - destruct (wf_cellb c) eqn:E; intros H; inversion H; subst; [|apply heap_app_refl].
    apply heap_app_one. apply wf_cellb_wf. exact E.
  - destruct (nth_error vs vi) as [v|]; [destruct (nth_error (leaves (vdata v)) pos) as [[id|]|]|];
      intros H; inversion H; apply heap_app_refl.
  - intros H; inversion H; apply heap_app_refl.
  - intros H; inversion H; apply heap_app_refl.
Qed.

Lemma eval_avals_app vs l : forall h h' rvs, eval_avals vs h l = (h', rvs) -> heap_app h h'.
Proof.
  induction l as [|a l IH]; intros h h' rvs H; simpl in H.
  - inversion H. apply heap_app_refl.
  - destruct (eval_aval vs h a) as [h1 v] eqn:E1. destruct (eval_avals vs h1 l) as [h2 vs'] eqn:E2.
    inversion H; subst. eapply heap_app_trans; [eapply eval_aval_app; exact E1 | eapply IH; exact E2].
Qed.

(* ================================================================ the assignment loop *)
Lemma set_loop_ok h nf sh : forall paths vals t t' e,
  shaped sh t -> Forall (leaf_ok h nf) (leaves t) ->
  set_loop h nf t paths vals = (t', e) ->
  shaped sh t' /\ Forall (leaf_ok h nf) (leaves t').
Proof.
  induction paths as [|p ps IH]; intros vals t t' e Hs Hl H; simpl in H.
  - inversion H; subst. auto.
  - destruct vals as [|v vs]; [inversion H; subst; auto|].
    destruct (check_val h nf v) as [er|id] eqn:Ec; [inversion H; subst; auto|].
    destruct (tset p (Some id) t) as [t1|] eqn:Et; [|inversion H; subst; auto].
    eapply IH; [| |exact H].
    + eapply tset_shaped; eauto.
    + eapply tset_leaves_Forall; [exact Hl| |exact Et]. eapply check_val_ok. exact Ec.
Qed.

Lemma VInv_with_data h nm v t :
  VInv h nm v -> shaped (vshape v) t -> Forall (leaf_ok h (length (vfields v))) (leaves t) ->
  VInv h nm (with_data v t).
Proof. intros (H1 & H2 & H3 & H4 & H5 & H6) Hs Hl. repeat split; simpl; auto. Qed.

(* shared tail of every assignment path: heap grown by fresh arrays, data replaced *)
Lemma SInv_assign s vi v h t :
  SInv s -> nth_error (vecs s) vi = Some v -> heap_app (heap s) h ->
  shaped (vshape v) t -> Forall (leaf_ok h (length (vfields v))) (leaves t) ->
  SInv (set_vec s h vi (with_data v t)).
Proof.
  intros HS Hv Ha Hs Hl. eapply SInv_set; eauto.
  - apply heap_app_ext. exact Ha.
  - eapply heap_app_wf; [exact Ha|]. apply HS.
  - apply VInv_with_data; auto. eapply VInv_ext; [apply heap_app_ext; exact Ha | apply Nat.le_refl |].
    eapply SInv_vec; eauto.
Qed.

Lemma leaves_ok_app s vi v h :
  SInv s -> nth_error (vecs s) vi = Some v -> heap_app (heap s) h ->
  Forall (leaf_ok h (length (vfields v))) (leaves (vdata v)).
Proof.
  intros HS Hv Ha. destruct (SInv_vec s vi v HS Hv) as (_ & _ & _ & _ & H5 & _).
  eapply Forall_impl; [|exact H5]. intros lf. apply leaf_ok_ext. apply heap_app_ext. exact Ha.
Qed.

(* ================================================================ creation *)
Lemma op_from_shape_inv s shape nf fields units :
  SInv s -> SInv (fst (op_from_shape s shape nf fields units)).
Proof.
  intros HS. unfold op_from_shape.
  destruct (mk_schema shape nf fields units) as [[[sh fs] us]|] eqn:E; [|exact HS]. simpl.
  destruct (mk_schema_spec shape nf fields units sh fs us E) as (_ & P1 & P2 & P3 & _).
  apply SInv_push; auto.
  - apply heap_ext_refl.
  - apply HS.
  - apply shaped_tfill.
  - apply leaves_tfill_Forall. exact I.
Qed.

Lemma check_val_id h nf id n : check_val h nf (VId id) = inr n -> n = id.
Proof.
  simpl. destruct (ncols_at h id) as [k|]; [|discriminate]. destruct (k =? nf); [|discriminate].
  intros H. inversion H. reflexivity.
Qed.

Lemma leaves_of_rvals h k vals :
  forallb (fun v => match check_val h k v with inr _ => true | inl _ => false end) vals = true ->
  Forall (leaf_ok h k) (flat_map leaves (map leaf_of_rval vals)).
Proof.
  induction vals as [|v vals IH]; simpl; intros H; [constructor|].
  apply andb_true_iff in H. destruct H as [H1 H2].
  apply Forall_app. split; [|apply IH; exact H2].
  destruct (check_val h k v) as [e|n] eqn:Ec; [discriminate|].
  destruct v as [| |id]; try (simpl in Ec; discriminate).
  simpl. constructor; [|constructor].
  pose proof (check_val_id h k id n Ec) as ->. apply (check_val_ok h k (VId id) id Ec).
Qed.

Lemma op_from_data_inv s data nf fields units :
  SInv s -> SInv (fst (op_from_data s data nf fields units)).
Proof.
  intros HS. unfold op_from_data. destruct data as [items|]; [|exact HS].
  destruct (eval_avals (vecs s) (heap s) items) as [h vals] eqn:Ea.
  destruct vals as [|v0 vals']; [exact HS|].
  destruct v0 as [| |id0]; try exact HS.
  destruct (ncols_at h id0) as [k|] eqn:Ek; [|exact HS].
  remember (VId id0 :: vals') as vals eqn:Evals.
  match goal with |- context [forallb ?f ?l] => destruct (forallb f l) eqn:Ef end; [|exact HS].
  destruct (match nf with Some z => negb (z =? Z.of_nat k)%Z | None => false end); [exact HS|].
  match goal with |- context [mk_schema ?a ?b ?c ?d] => destruct (mk_schema a b c d) as [[[sh fs] us]|] eqn:E end;
    [|exact HS].
  simpl.
  match type of E with mk_schema ?a ?b ?c ?d = _ =>
    destruct (mk_schema_spec a b c d sh fs us E) as (P0 & P1 & P2 & P3 & _ & P5 & _) end.
  pose proof (eval_avals_app (vecs s) items (heap s) h _ Ea) as Ha.
  specialize (P5 _ eq_refl). apply Nat2Z.inj in P5.
  apply SInv_push; auto.
  - apply heap_app_ext. exact Ha.
  - eapply heap_app_wf; [exact Ha | apply HS].
  - subst sh. cbn [map shaped]. rewrite Nat2Z.id. split; [apply map_length|].
    apply Forall_forall. intros t Ht. apply in_map_iff in Ht. destruct Ht as [v [<- _]].
    destruct v; simpl; exact I.
  - rewrite P5. cbn [leaves]. apply leaves_of_rvals. exact Ef.
Qed.

(* ================================================================ operations that only read *)
Ltac same_state :=
  repeat (match goal with |- context [match ?x with _ => _ end] => destruct x end); reflexivity.

Lemma op_get_data_same s vi idx : fst (op_get_data s vi idx) = s.
Proof. unfold op_get_data. same_state. Qed.

Lemma op_field_flatten_same s vi name : fst (op_field_flatten s vi name) = s.
Proof. unfold op_field_flatten. same_state. Qed.

Lemma op_flatten_same s vi : fst (op_flatten s vi) = s.
Proof. unfold op_flatten. same_state. Qed.

(* ================================================================ assignment *)
Lemma op_set_data_inv s vi value idx : SInv s -> SInv (fst (op_set_data s vi value idx)).
Proof.
  intros HS. unfold op_set_data.
  destruct (nth_error (vecs s) vi) as [v|] eqn:Hv; [|exact HS].
  destruct (negb (length idx =? length (vshape v))); [exact HS|].
  destruct (resolve_checked (vshape v) idx) as [e|idxs]; [exact HS|].
  destruct (SInv_vec s vi v HS Hv) as (_ & Hsh & _).
  destruct (forallb (fun l => length l =? 1) idxs).
  - destruct value as [a| | |]; try exact HS.
    destruct (eval_aval (vecs s) (heap s) a) as [h rv] eqn:Ea.
    destruct (check_val h (length (vfields v)) rv) as [e|id] eqn:Ec; [exact HS|].
    match goal with |- context [tset ?p ?x ?t] => destruct (tset p x t) as [t'|] eqn:Et end; [|exact HS].
    simpl. pose proof (eval_aval_app _ _ _ _ _ Ea) as Ha.
    apply SInv_assign; auto.
    + eapply tset_shaped; eauto.
    + eapply tset_leaves_Forall; [eapply leaves_ok_app; eauto | eapply check_val_ok; eauto | exact Et].
  - destruct value as [|l| |]; try exact HS.
    destruct (eval_avals (vecs s) (heap s) l) as [h vals] eqn:Ea.
    destruct (negb (length vals =? length (cart idxs))); [exact HS|].
    destruct (set_loop h (length (vfields v)) (vdata v) (cart idxs) vals) as [t' e] eqn:El. simpl.
    pose proof (eval_avals_app _ _ _ _ _ Ea) as Ha.
    destruct (set_loop_ok h (length (vfields v)) (vshape v) (cart idxs) vals (vdata v) t' e Hsh
                (leaves_ok_app s vi v h HS Hv Ha) El) as [Q1 Q2].
    apply SInv_assign; auto.
Qed.

Lemma op_setitem_inv s vi idx value : SInv s -> SInv (fst (op_setitem s vi idx value)).
Proof.
  intros HS. unfold op_setitem.
  destruct (nth_error (vecs s) vi) as [v|] eqn:Hv; [|exact HS].
  destruct (negb (length idx =? length (vshape v))); [exact HS|].
  destruct (SInv_vec s vi v HS Hv) as (_ & Hsh & _).
  destruct (has_fancy idx).
  - match goal with |- context [match ?x with inl e => _ | inr p => _ end] => destruct x as [e|[h vals]] eqn:Ev end;
      [exact HS|].
    assert (Ha : heap_app (heap s) h).
    { destruct value as [a|l|wi|]; try discriminate.
      - inversion Ev; subst. eapply eval_avals_app. eassumption.
      - destruct (nth_error (vecs s) wi) as [w|]; [|discriminate].
        destruct (mapM (fun lf : leaf => lf) (leaves (vdata w))); [|discriminate].
        inversion Ev; subst. apply heap_app_refl. }
    destruct (resolve_checked (vshape v) idx) as [e|idxs]; [exact HS|].
    destruct (negb (length vals =? length (cart idxs))); [exact HS|].
    destruct (set_loop h (length (vfields v)) (vdata v) (cart idxs) vals) as [t' e] eqn:El. simpl.
    destruct (set_loop_ok h (length (vfields v)) (vshape v) (cart idxs) vals (vdata v) t' e Hsh
                (leaves_ok_app s vi v h HS Hv Ha) El) as [Q1 Q2].
    apply SInv_assign; auto.
  - destruct value as [a| | |]; try exact HS.
    destruct (eval_aval (vecs s) (heap s) a) as [h rv] eqn:Ea.
    destruct (check_val h (length (vfields v)) rv) as [e|id] eqn:Ec; [exact HS|].
    destruct (int_path (vshape v) idx) as [e|p]; [exact HS|].
    destruct (tset p (Some id) (vdata v)) as [t'|] eqn:Et; [|exact HS].
    simpl. pose proof (eval_aval_app _ _ _ _ _ Ea) as Ha.
    apply SInv_assign; auto.
    + eapply tset_shaped; eauto.
    + eapply tset_leaves_Forall; [eapply leaves_ok_app; eauto | eapply check_val_ok; eauto | exact Et].
Qed.

(* ================================================================ slicing *)
Lemma pyidx_lt n i k : pyidx n i = Some k -> k < n.
Proof.
  unfold pyidx, inb. destruct ((0 <=? i)%Z && (i <? Z.of_nat n)%Z) eqn:E1.
  - intros H. inversion H. lia.
  - destruct ((- Z.of_nat n <=? i)%Z && (i <? 0)%Z) eqn:E2; [|discriminate]. intros H. inversion H. lia.
Qed.

Lemma resolve_take_range : forall sh raw idxs, resolve_take sh raw = inr idxs -> in_range idxs sh.
Proof.
  induction sh as [|n sh IH]; intros raw idxs H; destruct raw as [|js rest]; simpl in H; try discriminate.
  - inversion H. constructor.
  - destruct (mapM (pyidx n) js) as [ks|] eqn:Em; [|discriminate].
    destruct ks as [|k ks]; [discriminate|].
    destruct (resolve_take sh rest) as [e|r] eqn:Er; [discriminate|]. inversion H; subst.
    constructor; [|apply (IH rest); exact Er].
    apply mapM_Forall2 in Em. clear -Em. induction Em as [|x y l l' Hxy Em IHm]; constructor; auto.
    eapply pyidx_lt. exact Hxy.
Qed.

Lemma map_length_roundtrip (idxs : list (list nat)) :
  map Z.to_nat (map (fun l : list nat => Z.of_nat (length l)) idxs) = map (@length nat) idxs.
Proof. rewrite map_map. apply map_ext. intros l. apply Nat2Z.id. Qed.

Lemma op_getitem_inv s vi idx : SInv s -> SInv (fst (op_getitem s vi idx)).
Proof.
  intros HS. unfold op_getitem.
  destruct (nth_error (vecs s) vi) as [v|] eqn:Hv; [|exact HS].
  destruct ((length idx =? length (vshape v)) && forallb is_int idx).
  { destruct (int_path (vshape v) idx) as [e|p]; [exact HS|].
    destruct (tget (vdata v) p); exact HS. }
  destruct ((length (vshape v) <? length idx) && forallb is_int (firstn (length (vshape v)) idx)).
  { repeat (match goal with |- context [match ?x with _ => _ end] => destruct x end; try exact HS). }
  - match goal with |- context [resolve_raw ?a ?b] => destruct (resolve_raw a b) as [raw|] end; [|exact HS].
    destruct (resolve_take (vshape v) raw) as [e|idxs] eqn:Er; [exact HS|].
    match goal with |- context [mk_schema ?a ?b ?c ?d] => destruct (mk_schema a b c d) as [[[sh fs] us]|] eqn:E end;
      [|exact HS].
    simpl.
    match type of E with mk_schema ?a ?b ?c ?d = _ =>
      destruct (mk_schema_spec a b c d sh fs us E) as (P0 & P1 & P2 & P3 & P4 & _) end.
    specialize (P4 _ eq_refl). subst fs. rewrite map_length_roundtrip in P0. subst sh.
    destruct (SInv_vec s vi v HS Hv) as (_ & Hsh & _ & _ & Hl & _).
    pose proof (resolve_take_range _ _ _ Er) as Hr.
    apply SInv_push; auto.
    + apply heap_ext_refl.
    + apply HS.
    + eapply take_shaped; eauto.
    + rewrite Forall_forall in *. intros lf Hlf. apply Hl. eapply take_leaves_incl; eauto.
Qed.

(* ================================================================ in-place column updates *)
Lemma cell_wf_at h id c : Forall cell_wf h -> nth_error h id = Some c -> cell_wf c.
Proof. intros H Hc. rewrite Forall_forall in H. apply H. eapply nth_error_In. exact Hc. Qed.

Lemma map_col_wf k f c : cell_wf c -> cell_wf (map_col k f c).
Proof.
  unfold cell_wf, map_col. simpl. intros H. apply Forall_forall. intros r Hr.
  apply in_map_iff in Hr. destruct Hr as [r0 [<- Hr0]]. rewrite upd_nth_length.
  rewrite Forall_forall in H. apply H. exact Hr0.
Qed.

Lemma apply_leaf_ok k f h lf :
  Forall cell_wf h -> Forall cell_wf (apply_leaf k f h lf) /\ heap_ext h (apply_leaf k f h lf).
Proof.
  intros Hw. destruct lf as [id|]; simpl; [|split; [exact Hw|apply heap_ext_refl]].
  destruct (nth_error h id) as [c|] eqn:Ec; [|split; [exact Hw|apply heap_ext_refl]].
  split.
  - apply Forall_upd_nth; [exact Hw|]. apply map_col_wf. eapply cell_wf_at; eauto.
  - eapply heap_ext_upd; [exact Ec|reflexivity|]. unfold map_col. simpl. apply map_length.
Qed.

Lemma field_apply_ok k f ls : forall h,
  Forall cell_wf h -> Forall cell_wf (field_apply k f h ls) /\ heap_ext h (field_apply k f h ls).
Proof.
  unfold field_apply. induction ls as [|lf ls IH]; intros h Hw; simpl; [split; [exact Hw|apply heap_ext_refl]|].
  destruct (apply_leaf_ok k f h lf Hw) as [W1 E1]. destruct (IH _ W1) as [W2 E2].
  split; [exact W2|]. eapply heap_ext_trans; eauto.
Qed.

Lemma set_col_length k : forall rs vals, length (set_col k vals rs) = length rs.
Proof. induction rs as [|r rs IH]; intros [|v vs]; simpl; auto. Qed.

Lemma set_col_wf k n : forall rs vals,
  Forall (fun r : list Q => length r = n) rs -> Forall (fun r : list Q => length r = n) (set_col k vals rs).
Proof.
  induction rs as [|r rs IH]; intros vals H; simpl; [constructor|].
  inversion H; subst. destruct vals as [|v vs]; [exact H|].
  constructor; [rewrite upd_nth_length; reflexivity|apply IH; assumption].
Qed.

Lemma fill_leaf_ok k h vals lf :
  Forall cell_wf h ->
  Forall cell_wf (fst (fill_leaf k (h, vals) lf)) /\ heap_ext h (fst (fill_leaf k (h, vals) lf)).
Proof.
  intros Hw. destruct lf as [id|]; simpl; [|split; [exact Hw|apply heap_ext_refl]].
  destruct (nth_error h id) as [c|] eqn:Ec; simpl; [|split; [exact Hw|apply heap_ext_refl]].
  split.
  - apply Forall_upd_nth; [exact Hw|]. unfold cell_wf. simpl. apply set_col_wf.
    apply (cell_wf_at h id c Hw Ec).
  - eapply heap_ext_upd; [exact Ec|reflexivity|]. simpl. apply set_col_length.
Qed.

Lemma fill_ok k ls : forall h vals,
  Forall cell_wf h -> Forall cell_wf (fill k h ls vals) /\ heap_ext h (fill k h ls vals).
Proof.
  unfold fill. induction ls as [|lf ls IH]; intros h vals Hw; cbn [fold_left];
    [simpl; split; [exact Hw|apply heap_ext_refl]|].
  destruct (fill_leaf_ok k h vals lf Hw) as [W1 E1].
  destruct (fill_leaf k (h, vals) lf) as [h1 vals1]. cbn [fst] in W1, E1.
  destruct (IH h1 vals1 W1) as [W2 E2]. split; [exact W2|]. eapply heap_ext_trans; eauto.
Qed.

Lemma op_field_op_inv s vi name a : SInv s -> SInv (fst (op_field_op s vi name a)).
Proof.
  intros HS. unfold op_field_op.
  destruct (nth_error (vecs s) vi) as [v|]; [|exact HS].
  destruct (index_of name (vfields v)) as [k|]; [|exact HS]. simpl.
  destruct (field_apply_ok k (arith_fun a) (leaves (vdata v)) (heap s) (proj1 HS)) as [W1 E1].
  match goal with |- context [fill k ?h ?ls ?xs] => destruct (fill_ok k ls h xs W1) as [W2 E2] end.
  apply SInv_heap; auto. eapply heap_ext_trans; eauto.
Qed.

Lemma op_set_flattened_inv s vi name vals : SInv s -> SInv (fst (op_set_flattened s vi name vals)).
Proof.
  intros HS. unfold op_set_flattened.
  destruct (nth_error (vecs s) vi) as [v|]; [|exact HS].
  destruct (index_of name (vfields v)) as [k|]; [|exact HS].
  destruct vals as [xs|]; [|exact HS].
  match goal with |- context [negb ?b] => destruct (negb b) end; [exact HS|]. simpl.
  destruct (fill_ok k (leaves (vdata v)) (heap s) xs (proj1 HS)) as [W E].
  apply SInv_heap; auto.
Qed.

(* ================================================================ add_fields / remove_fields *)
Lemma realloc_fold g nf nf' :
  (forall c, cell_wf c -> cell_wf (g c)) -> (forall c, ncols c = nf -> ncols (g c) = nf') ->
  forall ls h h' ls',
    Forall cell_wf h -> Forall (leaf_ok h nf) ls ->
    lmapfold (realloc g) h ls = (h', ls') ->
    heap_app h h' /\ Forall (leaf_ok h' nf') ls' /\
    (forall id, In (Some id) ls' -> length h <= id).
Proof.
  intros Gw Gn. induction ls as [|lf ls IH]; intros h h' ls' Hw Hl H; simpl in H.
  - inversion H; subst. split; [apply heap_app_refl|]. split; [constructor|]. intros id [].
  - inversion Hl as [|? ? Hlf Hls]; subst.
    destruct (realloc g h lf) as [h1 lf'] eqn:Er.
    destruct (lmapfold (realloc g) h1 ls) as [h2 r'] eqn:Em. inversion H; subst h' ls'.
    assert (A1 : heap_app h h1 /\ (forall id, lf' = Some id -> length h <= id /\ exists c, nth_error h1 id = Some c /\ ncols c = nf')).
    { destruct lf as [id|]; simpl in Er.
      - destruct Hlf as [c [Hc Hn]]. rewrite Hc in Er. inversion Er; subst. split.
        + apply heap_app_one. apply Gw. eapply cell_wf_at; eauto.
        + intros id' Hid. inversion Hid; subst. split; [lia|]. exists (g c). split; [apply nth_error_alloc_new|auto].
      - inversion Er; subst. split; [apply heap_app_refl|]. intros; discriminate. }
    destruct A1 as [Ha1 Hnew].
    destruct (IH h1 h2 r' (heap_app_wf h h1 Ha1 Hw)) as (Ha2 & Hr & Hfresh); [|exact Em|].
    { eapply Forall_impl; [|exact Hls]. intros x. apply leaf_ok_ext. apply heap_app_ext. exact Ha1. }
    split; [eapply heap_app_trans; eauto|]. split.
    + constructor; [|exact Hr]. destruct lf' as [id'|]; simpl; [|exact I].
      destruct (Hnew id' eq_refl) as [_ [c [Hc Hn]]]. exists c. split; [|exact Hn].
      eapply heap_app_old; eauto.
    + intros id [Hid|Hid].
      * destruct (Hnew id Hid). lia.
      * pose proof (Hfresh id Hid). pose proof (heap_app_length h h1 Ha1). lia.
Qed.

Lemma tmapfold_pair (S : Type) (f : S -> leaf -> S * leaf) s t s' t' :
  tmapfold f s t = (s', t') -> lmapfold f s (leaves t) = (s', leaves t').
Proof.
  intros H. destruct (tmapfold_spec f t s) as [H1 H2]. rewrite H in H1, H2. simpl in *.
  destruct (lmapfold f s (leaves t)) as [a b]. simpl in *. congruence.
Qed.

Lemma pad_cell_wf k c : cell_wf c -> cell_wf (pad_cell k c).
Proof.
  unfold cell_wf, pad_cell. simpl. intros H. apply Forall_forall. intros r Hr.
  apply in_map_iff in Hr. destruct Hr as [r0 [<- Hr0]]. rewrite app_length, repeat_length.
  rewrite Forall_forall in H. rewrite (H _ Hr0). reflexivity.
Qed.

Lemma op_add_fields_inv s vi names : SInv s -> SInv (fst (op_add_fields s vi names)).
Proof.
  intros HS. unfold op_add_fields.
  destruct (nth_error (vecs s) vi) as [v|] eqn:Hv; [|exact HS].
  destruct (existsb (fun x => memz x (vfields v)) names) eqn:Ee; [exact HS|].
  destruct (negb (nodupb names)) eqn:En; [exact HS|].
  destruct (tmapfold (realloc (pad_cell (length names))) (heap s) (vdata v)) as [h t] eqn:Et. simpl.
  destruct (SInv_vec s vi v HS Hv) as (V1 & V2 & V3 & V4 & V5 & V6).
  apply tmapfold_pair in Et as El.
  destruct (realloc_fold (pad_cell (length names)) (length (vfields v)) (length (vfields v) + length names)
              (pad_cell_wf (length names)) (fun c Hc => f_equal (fun n => n + length names) Hc)
              (leaves (vdata v)) (heap s) h (leaves t) (proj1 HS) V5 El) as (Ha & Hl & _).
  eapply SInv_set; eauto.
  - apply heap_app_ext. exact Ha.
  - eapply heap_app_wf; [exact Ha|apply HS].
  - repeat split; simpl; auto.
    + pose proof (tmapfold_shaped (realloc (pad_cell (length names))) (vshape v) (vdata v) (heap s) V2) as Hs.
      rewrite Et in Hs. exact Hs.
    + apply NoDup_app_intro; auto.
      * apply nodupb_NoDup. apply negb_false_iff. exact En.
      * intros x Hx Hx'. assert (existsb (fun x => memz x (vfields v)) names = true); [|congruence].
        apply existsb_exists. exists x. split; [exact Hx'|]. apply memz_In. exact Hx.
    + rewrite !app_length, repeat_length. lia.
    + rewrite app_length. exact Hl.
Qed.

Lemma prune_cell_wf keep c : cell_wf (prune_cell keep c).
Proof.
  unfold cell_wf, prune_cell. simpl. apply Forall_forall. intros r Hr.
  apply in_map_iff in Hr. destruct Hr as [r0 [<- _]]. unfold select. apply map_length.
Qed.

Lemma select_NoDup (keep : list nat) (l : list Z) :
  NoDup l -> NoDup keep -> Forall (fun i => i < length l) keep -> NoDup (select 0%Z keep l).
Proof.
  intros Hl Hk Hlt. unfold select. apply NoDup_map_inj; [|exact Hk].
  intros i j Hi Hj E. rewrite Forall_forall in Hlt.
  apply (proj1 (NoDup_nth l 0%Z) Hl); auto.
Qed.

Lemma op_remove_fields_inv s vi names : SInv s -> SInv (fst (op_remove_fields s vi names)).
Proof.
  intros HS. unfold op_remove_fields.
  destruct (nth_error (vecs s) vi) as [v|] eqn:Hv; [|exact HS].
  destruct (filter_map (fun x => index_of x (vfields v)) names) as [|r0 rm] eqn:Erm; [exact HS|].
  set (keep := filter (fun i => negb (memb i (r0 :: rm))) (seq 0 (length (vfields v)))).
  destruct (tmapfold (realloc (prune_cell keep)) (heap s) (vdata v)) as [h t] eqn:Et. simpl.
  destruct (SInv_vec s vi v HS Hv) as (V1 & V2 & V3 & V4 & V5 & V6).
  apply tmapfold_pair in Et as El.
  destruct (realloc_fold (prune_cell keep) (length (vfields v)) (length keep)
              (fun c _ => prune_cell_wf keep c) (fun c _ => eq_refl)
              (leaves (vdata v)) (heap s) h (leaves t) (proj1 HS) V5 El) as (Ha & Hl & _).
  eapply SInv_set; eauto.
  - apply heap_app_ext. exact Ha.
  - eapply heap_app_wf; [exact Ha|apply HS].
  - repeat split; simpl; auto.
    + pose proof (tmapfold_shaped (realloc (prune_cell keep)) (vshape v) (vdata v) (heap s) V2) as Hs.
      rewrite Et in Hs. exact Hs.
    + apply select_NoDup; auto.
      * apply NoDup_filter. apply seq_NoDup.
      * apply Forall_forall. intros i Hi. apply filter_In in Hi. destruct Hi as [Hi _]. apply in_seq in Hi. lia.
    + unfold select. rewrite !map_length. reflexivity.
    + unfold select at 1. rewrite map_length. exact Hl.
Qed.

(* ================================================================ copy *)
Lemma assoc_In x m b : assoc x m = Some b -> In (x, b) m.
Proof.
  induction m as [|[a c] m IH]; simpl; [discriminate|].
  destruct (Nat.eqb_spec a x) as [->|Hne]; intros H.
  - inversion H. auto.
  - right. apply IH. exact H.
Qed.

Lemma copy_fold n0 nf : forall ls h memo h' memo' ls',
  Forall cell_wf h -> Forall (leaf_ok h nf) ls -> n0 <= length h ->
  (forall a b, In (a, b) memo -> n0 <= b /\ leaf_ok h nf (Some b)) ->
  lmapfold copy_leaf (h, memo) ls = ((h', memo'), ls') ->
  heap_app h h' /\ Forall (leaf_ok h' nf) ls' /\ (forall id, In (Some id) ls' -> n0 <= id).
Proof.
  induction ls as [|lf ls IH]; intros h memo h' memo' ls' Hw Hl Hn Hm H; cbn [lmapfold] in H.
  - assert (h' = h /\ ls' = []) as (-> & ->) by (repeat split; congruence).
    split; [apply heap_app_refl|]. split; [constructor|]. intros id [].
  - assert (Hlf : leaf_ok h nf lf) by (inversion Hl; assumption).
    assert (Hls : Forall (leaf_ok h nf) ls) by (inversion Hl; assumption).
    destruct (copy_leaf (h, memo) lf) as [[h1 memo1] lf'] eqn:Ec.
    destruct (lmapfold copy_leaf (h1, memo1) ls) as [[h2 memo2] r'] eqn:Em.
    assert (h' = h2 /\ ls' = lf' :: r') as (-> & ->) by (repeat split; congruence).
    assert (A : heap_app h h1 /\ (forall a b, In (a, b) memo1 -> n0 <= b /\ leaf_ok h1 nf (Some b)) /\
                (forall id, lf' = Some id -> n0 <= id /\ leaf_ok h1 nf (Some id))).
    { destruct lf as [id|]; simpl in Ec.
      - destruct (assoc id memo) as [id'|] eqn:Ea.
        + assert (h1 = h /\ memo1 = memo /\ lf' = Some id') as (-> & -> & ->) by (repeat split; congruence).
          split; [apply heap_app_refl|]. split; [exact Hm|].
          intros x Hx. assert (x = id') by congruence. subst x. apply (Hm id id'). apply assoc_In. exact Ea.
        + destruct Hlf as [c [Hc Hnc]]. rewrite Hc in Ec.
          assert (h1 = h ++ [c] /\ memo1 = (id, length h) :: memo /\ lf' = Some (length h)) as (-> & -> & ->)
            by (repeat split; congruence).
          assert (Hone : heap_app h (h ++ [c])) by (apply heap_app_one; eapply cell_wf_at; eauto).
          assert (Hnew : leaf_ok (h ++ [c]) nf (Some (length h))).
          { exists c. split; [apply nth_error_alloc_new|exact Hnc]. }
          split; [exact Hone|]. split.
          * intros a b [Hab|Hab].
            -- assert (b = length h) by congruence. subst b. split; [lia|exact Hnew].
            -- destruct (Hm a b Hab) as [Q1 Q2]. split; [exact Q1|].
               eapply leaf_ok_ext; [apply heap_app_ext; exact Hone|exact Q2].
          * intros x Hx. assert (x = length h) by congruence. subst x. split; [lia|exact Hnew].
      - assert (h1 = h /\ memo1 = memo /\ lf' = None) as (-> & -> & ->) by (repeat split; congruence).
        split; [apply heap_app_refl|]. split; [exact Hm|]. intros; discriminate. }
    destruct A as (Ha1 & Hm1 & Hnew).
    destruct (IH h1 memo1 h2 memo2 r' (heap_app_wf h h1 Ha1 Hw)) as (Ha2 & Hr & Hfresh); auto.
    { eapply Forall_impl; [|exact Hls]. intros x. apply leaf_ok_ext. apply heap_app_ext. exact Ha1. }
    { pose proof (heap_app_length h h1 Ha1). lia. }
    split; [eapply heap_app_trans; eauto|]. split.
    + constructor; [|exact Hr]. destruct lf' as [id'|]; [|exact I].
      destruct (Hnew id' eq_refl) as [_ Hok]. eapply leaf_ok_ext; [apply heap_app_ext; exact Ha2|exact Hok].
    + intros id [Hid|Hid]; [apply (Hnew id Hid)|apply Hfresh; exact Hid].
Qed.

Lemma map_nat_roundtrip (l : list nat) : map Z.to_nat (map Z.of_nat l) = l.
Proof. rewrite map_map. rewrite <- (map_id l) at 2. apply map_ext. apply Nat2Z.id. Qed.

Lemma op_copy_inv s vi : SInv s -> SInv (fst (op_copy s vi)).
Proof.
  intros HS. unfold op_copy.
  destruct (nth_error (vecs s) vi) as [v|] eqn:Hv; [|exact HS].
  match goal with |- context [mk_schema ?a ?b ?c ?d] => destruct (mk_schema a b c d) as [[[sh fs] us]|] eqn:E end;
    [|exact HS].
  destruct (tmapfold copy_leaf (heap s, []) (vdata v)) as [[h memo] t] eqn:Et. simpl.
  match type of E with mk_schema ?a ?b ?c ?d = _ =>
    destruct (mk_schema_spec a b c d sh fs us E) as (P0 & P1 & P2 & P3 & P4 & _) end.
  specialize (P4 _ eq_refl). subst fs. rewrite map_nat_roundtrip in P0. subst sh.
  destruct (SInv_vec s vi v HS Hv) as (V1 & V2 & V3 & V4 & V5 & V6).
  apply tmapfold_pair in Et as El.
  destruct (copy_fold (length (heap s)) (length (vfields v)) (leaves (vdata v)) (heap s) [] h memo (leaves t)
              (proj1 HS) V5 (Nat.le_refl _) (fun a b (F : In (a, b) []) => match F with end) El) as (Ha & Hl & _).
  apply SInv_push; auto.
  - apply heap_app_ext. exact Ha.
  - eapply heap_app_wf; [exact Ha|apply HS].
  - pose proof (tmapfold_shaped copy_leaf (vshape v) (vdata v) (heap s, []) V2) as Hs.
    rewrite Et in Hs. exact Hs.
Qed.

(* ================================================================ attribute setters, field-view indexing, reload *)
Lemma op_set_fields_inv s vi a : SInv s -> SInv (fst (op_set_fields s vi a)).
Proof.
  intros HS. unfold op_set_fields.
  destruct (nth_error (vecs s) vi) as [v|] eqn:Hv; [|exact HS].
  destruct a as [| |l]; try exact HS.
  destruct (nodupb l && (length l =? length (vfields v))) eqn:E; [|exact HS]. simpl.
  apply andb_true_iff in E. destruct E as [En El]. apply Nat.eqb_eq in El.
  destruct (SInv_vec s vi v HS Hv) as (V1 & V2 & V3 & V4 & V5 & V6).
  eapply SInv_set; eauto; [apply heap_ext_refl|apply HS|].
  repeat split; simpl; auto.
  - apply nodupb_NoDup. exact En.
  - congruence.
  - rewrite El. exact V5.
Qed.

Lemma op_set_units_inv s vi a : SInv s -> SInv (fst (op_set_units s vi a)).
Proof.
  intros HS. unfold op_set_units.
  destruct (nth_error (vecs s) vi) as [v|] eqn:Hv; [|exact HS].
  destruct (SInv_vec s vi v HS Hv) as (V1 & V2 & V3 & V4 & V5 & V6).
  destruct a as [| |l]; [exact HS| |].
  - simpl. eapply SInv_set; eauto; [apply heap_ext_refl|apply HS|].
    repeat split; simpl; auto. apply repeat_length.
  - destruct (length l =? length (vfields v)) eqn:El; [|exact HS]. simpl. apply Nat.eqb_eq in El.
    eapply SInv_set; eauto; [apply heap_ext_refl|apply HS|].
    repeat split; simpl; auto.
Qed.

Lemma op_set_shape_same s vi sh : fst (op_set_shape s vi sh) = s.
Proof. unfold op_set_shape. same_state. Qed.

Lemma op_touch_same s vi : fst (op_touch s vi) = s.
Proof. unfold op_touch. same_state. Qed.

Lemma mapE_Forall2 (A B : Type) (f : A -> err + B) : forall l l',
  mapE f l = inr l' -> Forall2 (fun x y => f x = inr y) l l'.
Proof.
  induction l as [|x r IH]; intros l' H; simpl in H.
  - inversion H. constructor.
  - destruct (f x) as [e|y] eqn:Ex; [discriminate|].
    destruct (mapE f r) as [e|ys]; [discriminate|]. inversion H; subst. constructor; auto.
Qed.

(* the validated data have the nesting of the shape, and every element is a live array with one column
   per field *)
Lemma vcheck_ok rv h nf : forall sh t t',
  vcheck rv h nf sh t = inr t' -> shaped sh t' /\ Forall (leaf_ok h nf) (leaves t').
Proof.
  induction sh as [|n sh IH]; intros t t' H; simpl in H.
  - destruct t as [[i|]|l]; try discriminate.
    destruct (nth_error rv i) as [x|]; [|discriminate].
    destruct (check_val h nf x) as [e|id] eqn:Ec; [discriminate|]. inversion H; subst. simpl.
    split; [exact I|]. constructor; [|constructor]. eapply check_val_ok; eauto.
  - destruct t as [c|l]; [discriminate|].
    destruct (length l =? n) eqn:El; [|discriminate]. apply Nat.eqb_eq in El.
    destruct (mapE (vcheck rv h nf sh) l) as [e|l'] eqn:Em; [discriminate|]. inversion H; subst t'.
    apply mapE_Forall2 in Em. simpl.
    assert (G : length l' = length l /\ Forall (shaped sh) l' /\ Forall (leaf_ok h nf) (flat_map leaves l')).
    { clear El H. induction Em as [|x y r r' Hxy Hr IHr]; simpl.
      - repeat split; constructor.
      - destruct (IH _ _ Hxy) as [S1 L1]. destruct IHr as (G1 & G2 & G3).
        split; [lia|]. split; [constructor; auto|]. apply Forall_app. split; auto. }
    destruct G as (G1 & G2 & G3). split; [split; [lia|exact G2]|exact G3].
Qed.

Lemma op_set_data_attr_inv s vi skel items : SInv s -> SInv (fst (op_set_data_attr s vi skel items)).
Proof.
  intros HS. unfold op_set_data_attr.
  destruct (nth_error (vecs s) vi) as [v|] eqn:Hv; [|exact HS].
  destruct (vshape v) as [|n sh] eqn:Esh; [exact HS|].
  destruct (eval_avals (vecs s) (heap s) items) as [h rv] eqn:Ee.
  destruct (vcheck rv h (length (vfields v)) (n :: sh) skel) as [e|t] eqn:Ec; [exact HS|]. simpl.
  destruct (vcheck_ok _ _ _ _ _ _ Ec) as [Hs Hl].
  eapply SInv_assign; eauto.
  - eapply eval_avals_app; eauto.
  - rewrite Esh. exact Hs.
Qed.

Lemma op_field_get_inv s vi name idx : SInv s -> SInv (fst (op_field_get s vi name idx)).
Proof.
  intros HS. unfold op_field_get.
  destruct (nth_error (vecs s) vi) as [v|] eqn:Hv; [|exact HS].
  destruct (index_of name (vfields v)) as [k|]; [|exact HS].
  pose proof (op_getitem_inv s vi idx HS) as Hg.
  destruct (op_getitem s vi idx) as [s' r]. simpl in Hg.
  destruct r as [e| | |[id|]|l| |nc rr|l]; simpl; try exact Hg.
  destruct (nth_error (heap s') id); exact Hg.
Qed.

Lemma op_reload_inv s vi : SInv s -> SInv (fst (op_reload s vi)).
Proof.
  intros HS. unfold op_reload.
  destruct (nth_error (vecs s) vi) as [v|] eqn:Hv; [|exact HS].
  destruct (tmapfold (realloc (fun c => c)) (heap s) (vdata v)) as [h t] eqn:Et. simpl.
  destruct (SInv_vec s vi v HS Hv) as (V1 & V2 & V3 & V4 & V5 & V6).
  apply tmapfold_pair in Et as El.
  destruct (realloc_fold (fun c => c) (length (vfields v)) (length (vfields v))
              (fun c Hc => Hc) (fun c Hc => Hc)
              (leaves (vdata v)) (heap s) h (leaves t) (proj1 HS) V5 El) as (Ha & Hl & _).
  apply SInv_push; auto.
  - apply heap_app_ext. exact Ha.
  - eapply heap_app_wf; [exact Ha|apply HS].
  - pose proof (tmapfold_shaped (realloc (fun c => c)) (vshape v) (vdata v) (heap s) V2) as Hs.
    rewrite Et in Hs. exact Hs.
Qed.

(* ================================================================ every operation, every history *)
Theorem step_inv s o : SInv s -> SInv (fst (step s o)).
Proof.
  intros HS. destruct o; simpl.
  - apply op_from_shape_inv; exact HS.
  - apply op_from_data_inv; exact HS.
  - rewrite op_get_data_same. exact HS.
  - apply op_set_data_inv; exact HS.
  - apply op_getitem_inv; exact HS.
  - apply op_setitem_inv; exact HS.
  - apply op_field_op_inv; exact HS.
  - rewrite op_field_flatten_same. exact HS.
  - apply op_set_flattened_inv; exact HS.
  - rewrite op_flatten_same. exact HS.
  - apply op_add_fields_inv; exact HS.
  - apply op_remove_fields_inv; exact HS.
  - apply op_copy_inv; exact HS.
  - apply op_set_fields_inv; exact HS.
  - apply op_set_units_inv; exact HS.
  - rewrite op_set_shape_same. exact HS.
  - apply op_set_data_attr_inv; exact HS.
  - rewrite op_touch_same. exact HS.
  - apply op_field_get_inv; exact HS.
  - apply op_reload_inv; exact HS.
Qed.

Lemma init_inv : SInv init.
Proof. repeat split; simpl; constructor. Qed.

Lemma run_inv ops : forall s, SInv s -> SInv (run ops s).
Proof.
  unfold run. induction ops as [|o ops IH]; intros s HS; simpl; [exact HS|].
  apply IH. apply step_inv. exact HS.
Qed.

Theorem vec_inv_reachable : forall ops, SInv (run ops init).
Proof. intros ops. apply run_inv. apply init_inv. Qed.

(* ================================================================ flatten = row-major concatenation *)
Lemma flat_field_rowmajor k h sh t :
  shaped sh t -> flat_field k h (leaves t) = flat_map (cell_col k h) (map (tget t) (ndindex sh)).
Proof.
  intros Hs. rewrite (@leaves_rowmajor sh t Hs). unfold flat_field.
  rewrite !flat_map_concat_map, map_map. f_equal.
Qed.

Lemma flat_rows_rowmajor h sh t :
  shaped sh t -> flat_rows h (leaves t) = flat_map (cell_rows h) (map (tget t) (ndindex sh)).
Proof.
  intros Hs. rewrite (@leaves_rowmajor sh t Hs). unfold flat_rows.
  rewrite !flat_map_concat_map, map_map. f_equal.
Qed.

Lemma flat_rows_width h nf ls :
  Forall cell_wf h -> Forall (leaf_ok h nf) ls -> Forall (fun r => length r = nf) (flat_rows h ls).
Proof.
  intros Hw Hl. unfold flat_rows. apply Forall_flat_map. eapply Forall_impl; [|exact Hl].
  intros [id|] Hok; [|constructor]. destruct Hok as [c [Hc Hn]]. rewrite Hc. subst nf.
  apply (cell_wf_at h id c Hw Hc).
Qed.

Theorem flatten_is_rowmajor_concat s vi v name k :
  SInv s -> nth_error (vecs s) vi = Some v -> index_of name (vfields v) = Some k ->
  step s (OFieldFlatten vi name) =
    (s, RCol (flat_map (cell_col k (heap s)) (map (tget (vdata v)) (ndindex (vshape v))))) /\
  step s (OFlatten vi) =
    (s, RFlat (length (vfields v)) (flat_map (cell_rows (heap s)) (map (tget (vdata v)) (ndindex (vshape v))))) /\
  Forall (fun r => length r = length (vfields v))
         (flat_map (cell_rows (heap s)) (map (tget (vdata v)) (ndindex (vshape v)))).
Proof.
  intros HS Hv Hk. destruct (SInv_vec s vi v HS Hv) as (_ & Hsh & _ & _ & Hl & _).
  simpl. unfold op_field_flatten, op_flatten. rewrite Hv, Hk.
  rewrite (flat_field_rowmajor k (heap s) (vshape v) (vdata v) Hsh).
  rewrite <- (flat_rows_rowmajor (heap s) (vshape v) (vdata v) Hsh).
  repeat split. apply flat_rows_width; [apply HS|exact Hl].
Qed.

(* ================================================================ set_flattened (flatten) = identity *)
Lemma upd_nth_nth_same (A : Type) k (r : list A) d : upd_nth k (nth k r d) r = r.
Proof.
  destruct (Nat.lt_ge_cases k (length r)) as [Hlt|Hge].
  - apply upd_nth_same. apply nth_error_nth'. exact Hlt.
  - apply upd_nth_oob. exact Hge.
Qed.

Lemma set_col_col k rs : set_col k (map (fun r => nth k r 0%Q) rs) rs = rs.
Proof.
  induction rs as [|r rs IH]; simpl; [reflexivity|]. rewrite upd_nth_nth_same, IH. reflexivity.
Qed.

Lemma fill_flat_id k ls : forall h rest,
  fold_left (fill_leaf k) ls (h, flat_field k h ls ++ rest) = (h, rest).
Proof.
  induction ls as [|lf ls IH]; intros h rest; [reflexivity|].
  cbn [fold_left]. unfold flat_field. cbn [flat_map]. fold (flat_field k h ls).
  destruct lf as [id|]; cbn [fill_leaf]; [|apply IH].
  destruct (nth_error h id) as [c|] eqn:Ec; [|apply IH].
  rewrite <- app_assoc.
  assert (Hlen : length (col k c) = length (rows c)) by (unfold col; apply map_length).
  rewrite firstn_app, skipn_app, <- Hlen, firstn_all, skipn_all, Nat.sub_diag. cbn [firstn skipn].
  rewrite app_nil_r. unfold col at 1. rewrite set_col_col.
  assert (Ecell : {| ncols := ncols c; rows := rows c |} = c) by (destruct c; reflexivity).
  rewrite Ecell, (@upd_nth_same _ id c h Ec). apply IH.
Qed.

Theorem fill_flat_field k h ls : fill k h ls (flat_field k h ls) = h.
Proof.
  unfold fill. rewrite <- (app_nil_r (flat_field k h ls)). rewrite fill_flat_id. reflexivity.
Qed.

Theorem set_flattened_flatten_id s vi v name k :
  nth_error (vecs s) vi = Some v -> index_of name (vfields v) = Some k ->
  exists xs, step s (OFieldFlatten vi name) = (s, RCol xs) /\
             step s (OSetFlattened vi name (Some xs)) = (s, RNone).
Proof.
  intros Hv Hk. exists (flat_field k (heap s) (leaves (vdata v))). simpl.
  unfold op_field_flatten, op_set_flattened. rewrite Hv, Hk. split; [reflexivity|].
  rewrite Nat.eqb_refl. cbn [negb]. rewrite fill_flat_field. destruct s; reflexivity.
Qed.

(* ================================================================ set then get *)
Lemma int_path_ints : forall sh idx p,
  int_path sh idx = inr p -> forallb is_int idx = true /\ length idx = length sh.
Proof.
  induction sh as [|n sh IH]; intros idx p H; destruct idx as [|x idx]; simpl in H; try discriminate.
  - auto.
  - destruct x as [i| |]; try discriminate.
    destruct (pyidx n i); [|discriminate]. destruct (int_path sh idx) as [e|q] eqn:E; [discriminate|].
    destruct (IH idx q E) as [H1 H2]. simpl. split; [exact H1|lia].
Qed.

Theorem set_then_get s vi idx c s' :
  step s (OSetItem vi idx (SArr (ANew c))) = (s', RNone) ->
  step s' (OGetItem vi idx) = (s', RCell (Some (length (heap s)))) /\
  nth_error (heap s') (length (heap s)) = Some c.
Proof.
  simpl. unfold op_setitem. intros H.
  destruct (nth_error (vecs s) vi) as [v|] eqn:Hv; [|discriminate].
  destruct (negb (length idx =? length (vshape v))); [discriminate|].
  destruct (has_fancy idx); [discriminate|].
  cbn [eval_aval] in H. destruct (wf_cellb c); [|discriminate].
  destruct (check_val (heap s ++ [c]) (length (vfields v)) (VId (length (heap s)))) as [e|id] eqn:Ec; [discriminate|].
  pose proof (check_val_id _ _ _ _ Ec) as ->.
  destruct (int_path (vshape v) idx) as [e|p] eqn:Ep; [discriminate|].
  destruct (tset p (Some (length (heap s))) (vdata v)) as [t'|] eqn:Et; [|discriminate].
  inversion H; subst s'. clear H.
  destruct (int_path_ints _ _ _ Ep) as [Hints Hlen].
  split; [|simpl; apply nth_error_alloc_new].
  unfold op_getitem, set_vec. cbn [vecs heap nmeta].
  rewrite nth_error_upd_eq by (apply nth_error_Some; congruence).
  cbn [with_data vshape vdata]. rewrite Hlen, Nat.eqb_refl, Hints. cbn [andb].
  rewrite Ep, (tget_tset_same p (Some (length (heap s))) (vdata v) Et). reflexivity.
Qed.

(* multi-cell form: set_data with one fresh array per addressed cell, then get_data with the same
   indices returns exactly those arrays, in order (distinct addresses) *)
Lemma set_loop_get h nf : forall paths ids t t',
  NoDup paths -> (forall p q, In p paths -> In q paths -> length p = length q) ->
  length ids = length paths ->
  set_loop h nf t paths (map VId ids) = (t', None) ->
  map (tget t') paths = map (fun id => Some (Some id)) ids.
Proof.
  induction paths as [|p ps IH]; intros ids t t' Hnd Hlen Hl H; destruct ids as [|id ids]; simpl in Hl; try discriminate.
  - reflexivity.
  - cbn [set_loop map] in H.
    destruct (check_val h nf (VId id)) as [e|id'] eqn:Ec; [discriminate|].
    pose proof (check_val_id _ _ _ _ Ec) as ->.
    destruct (tset p (Some id) t) as [t1|] eqn:Et; [|discriminate].
    inversion Hnd as [|? ? Hnotin Hnd']; subst.
    assert (Hps : map (tget t') ps = map (fun id => Some (Some id)) ids).
    { apply (IH ids t1 t'); auto. intros; apply Hlen; simpl; auto. }
    cbn [map]. f_equal; [|exact Hps].
    (* p is not overwritten by the remaining assignments *)
    clear IH Hps. revert t1 ids Et H Hl.
    assert (G : forall ps' ids' t1 t2, (forall q, In q ps' -> q <> p /\ length q = length p) ->
                tget t1 p = Some (Some id) -> set_loop h nf t1 ps' (map VId ids') = (t2, None) ->
                tget t2 p = Some (Some id)).
    { induction ps' as [|q qs IHq]; intros ids' t1 t2 Hq Hg Hs; destruct ids' as [|i ids']; cbn [set_loop map] in Hs;
        try (inversion Hs; subst; exact Hg).
      destruct (check_val h nf (VId i)) as [e|i'] eqn:Eci; [discriminate|].
      destruct (tset q (Some i') t1) as [t3|] eqn:Et3; [|discriminate].
      apply (IHq ids' t3 t2); auto.
      - intros q' Hq'. apply Hq. simpl. auto.
      - destruct (Hq q (or_introl eq_refl)) as [Hne Hlq].
        rewrite (@tget_tset_other q p (Some i') t1 t3 Et3 Hne Hlq). exact Hg. }
    intros t1 ids0 Et H Hl0. apply (G ps ids0 t1 t'); auto.
    + intros q Hq. split; [intros ->; contradiction|]. apply Hlen; simpl; auto.
    + eapply tget_tset_same. exact Et.
Qed.

(* ================================================================ heap disjointness *)
Lemma leaf_ok_lt h nf id : leaf_ok h nf (Some id) -> id < length h.
Proof. intros [c [Hc _]]. apply nth_error_Some. congruence. Qed.

Lemma SInv_ids_lt s u id : SInv s -> In u (vecs s) -> In (Some id) (leaves (vdata u)) -> id < length (heap s).
Proof.
  intros (_ & H2 & _) Hu Hid. rewrite Forall_forall in H2. destruct (H2 u Hu) as (_ & _ & _ & _ & H5 & _).
  rewrite Forall_forall in H5. eapply leaf_ok_lt. apply (H5 _ Hid).
Qed.

Lemma SInv_meta_lt s u : SInv s -> In u (vecs s) -> vmeta u < nmeta s.
Proof.
  intros (_ & H2 & _) Hu. rewrite Forall_forall in H2. apply (H2 u Hu).
Qed.

(* a copy owns new arrays and a new metadata dict: nothing reachable from it is reachable from
   any vector that existed before; the arrays that existed before are not touched *)
Theorem copy_disjoint s vi s' :
  SInv s -> step s (OCopy vi) = (s', RNew) ->
  exists v w l,
    nth_error (vecs s) vi = Some v /\ vecs s' = vecs s ++ [w] /\ heap s' = heap s ++ l /\
    vshape w = vshape v /\ vfields w = vfields v /\ vunits w = vunits v /\
    (forall u id, In u (vecs s) -> In (Some id) (leaves (vdata u)) -> ~ In (Some id) (leaves (vdata w))) /\
    (forall u, In u (vecs s) -> vmeta w <> vmeta u).
Proof.
  intros HS. simpl. unfold op_copy.
  destruct (nth_error (vecs s) vi) as [v|] eqn:Hv; [|discriminate].
  match goal with |- context [mk_schema ?a ?b ?c ?d] => destruct (mk_schema a b c d) as [[[sh fs] us]|] eqn:E end;
    [|discriminate].
  destruct (tmapfold copy_leaf (heap s, []) (vdata v)) as [[h memo] t] eqn:Et. intros H.
  inversion H; subst s'. clear H.
  match type of E with mk_schema ?a ?b ?c ?d = _ =>
    destruct (mk_schema_spec a b c d sh fs us E) as (P0 & _ & _ & _ & P4 & _ & P6) end.
  specialize (P4 _ eq_refl). specialize (P6 _ eq_refl). subst fs us. rewrite map_nat_roundtrip in P0. subst sh.
  destruct (SInv_vec s vi v HS Hv) as (_ & _ & _ & _ & V5 & _).
  apply tmapfold_pair in Et as El.
  destruct (copy_fold (length (heap s)) (length (vfields v)) (leaves (vdata v)) (heap s) [] h memo (leaves t)
              (proj1 HS) V5 (Nat.le_refl _) (fun a b (F : In (a, b) []) => match F with end) El) as (Ha & _ & Hfresh).
  destruct Ha as [l [Hl _]].
  eexists v, _, l. unfold push_vec. cbn [vecs heap]. repeat split; auto.
  - cbn [vdata]. intros u id Hu Hid Hw. pose proof (SInv_ids_lt s u id HS Hu Hid). pose proof (Hfresh id Hw). lia.
  - cbn [vmeta]. intros u Hu. pose proof (SInv_meta_lt s u HS Hu). lia.
Qed.

Lemma leaves_tfill_None sh : Forall (fun lf : leaf => lf = None) (leaves (tfill sh None)).
Proof. apply leaves_tfill_Forall. reflexivity. Qed.

Theorem fresh_disjoint_from_shape s shape nf fields units s' :
  SInv s -> step s (OFromShape shape nf fields units) = (s', RNew) ->
  exists w, vecs s' = vecs s ++ [w] /\ heap s' = heap s /\
            Forall (fun lf : leaf => lf = None) (leaves (vdata w)) /\
            (forall u, In u (vecs s) -> vmeta w <> vmeta u).
Proof.
  intros HS. simpl. unfold op_from_shape.
  destruct (mk_schema shape nf fields units) as [[[sh fs] us]|]; [|discriminate].
  intros H. inversion H; subst s'. clear H. eexists. unfold push_vec. cbn [vecs heap vdata vmeta].
  repeat split; auto; [apply leaves_tfill_None|].
  intros u Hu. cbn [vmeta]. pose proof (SInv_meta_lt s u HS Hu). lia.
Qed.

Lemma eval_avals_fresh vs : forall items h h' vals,
  Forall (fun a => exists c, a = ANew c) items -> eval_avals vs h items = (h', vals) ->
  forall id, In (VId id) vals -> length h <= id.
Proof.
  induction items as [|a items IH]; intros h h' vals Hall H id Hin; simpl in H.
  - inversion H; subst. destruct Hin.
  - inversion Hall as [|? ? [c ->] Hrest]; subst.
    destruct (eval_aval vs h (ANew c)) as [h1 v] eqn:E1. destruct (eval_avals vs h1 items) as [h2 vs'] eqn:E2.
    inversion H; subst. clear H.
    pose proof (heap_app_length h h1 (eval_aval_app vs h (ANew c) h1 v E1)) as Hle.
    destruct Hin as [Hv|Hin].
    + subst v. simpl in E1. destruct (wf_cellb c); inversion E1; subst. lia.
    + pose proof (IH _ _ _ Hrest E2 id Hin). lia.
Qed.

(* from_data with arrays of its own shares nothing with the vectors that existed before *)
Theorem fresh_disjoint_from_data s items nf fields units s' :
  SInv s -> Forall (fun a => exists c, a = ANew c) items ->
  step s (OFromData (Some items) nf fields units) = (s', RNew) ->
  exists w l, vecs s' = vecs s ++ [w] /\ heap s' = heap s ++ l /\
    (forall u id, In u (vecs s) -> In (Some id) (leaves (vdata u)) -> ~ In (Some id) (leaves (vdata w))) /\
    (forall u, In u (vecs s) -> vmeta w <> vmeta u).
Proof.
  intros HS Hall. simpl. unfold op_from_data.
  destruct (eval_avals (vecs s) (heap s) items) as [h vals] eqn:Ea.
  destruct vals as [|v0 vals']; [discriminate|].
  destruct v0 as [| |id0]; try discriminate.
  destruct (ncols_at h id0) as [k|]; [|discriminate].
  remember (VId id0 :: vals') as vals eqn:Evals.
  match goal with |- context [forallb ?f ?l] => destruct (forallb f l) end; [|discriminate].
  destruct (match nf with Some z => negb (z =? Z.of_nat k)%Z | None => false end); [discriminate|].
  match goal with |- context [mk_schema ?a ?b ?c ?d] => destruct (mk_schema a b c d) as [[[sh fs] us]|] end;
    [|discriminate].
  intros H. inversion H; subst s'. clear H.
  destruct (eval_avals_app (vecs s) items (heap s) h vals Ea) as [l [Hl _]].
  eexists _, l. unfold push_vec. cbn [vecs heap vdata vmeta]. repeat split; auto.
  - intros u id Hu Hid Hw. pose proof (SInv_ids_lt s u id HS Hu Hid) as Hlt.
    cbn [leaves] in Hw. apply in_flat_map in Hw. destruct Hw as [t [Ht Hw]].
    apply in_map_iff in Ht. destruct Ht as [rv [<- Hrv]].
    destruct rv as [| |i]; simpl in Hw; try (destruct Hw as [Hw|[]]; discriminate).
    destruct Hw as [Hw|[]]. inversion Hw; subst i.
    pose proof (eval_avals_fresh (vecs s) items (heap s) h vals Hall Ea id Hrv). lia.
  - intros u Hu. cbn [vmeta]. pose proof (SInv_meta_lt s u HS Hu). lia.
Qed.

(* in-place operations (field arithmetic, set_flattened) touch only the arrays of the vector they
   are applied to; together with copy_disjoint: changing a copy never changes the original *)
Lemma apply_leaf_frame k f h lf id : lf <> Some id -> nth_error (apply_leaf k f h lf) id = nth_error h id.
Proof.
  intros Hne. destruct lf as [i|]; simpl; [|reflexivity].
  destruct (nth_error h i); [|reflexivity]. apply nth_error_upd_neq. congruence.
Qed.

Lemma field_apply_frame k f ls id : forall h,
  ~ In (Some id) ls -> nth_error (field_apply k f h ls) id = nth_error h id.
Proof.
  unfold field_apply. induction ls as [|lf ls IH]; intros h Hn; simpl; [reflexivity|].
  rewrite IH by (intros Hc; apply Hn; simpl; auto).
  apply apply_leaf_frame. intros ->. apply Hn. simpl. auto.
Qed.

Lemma fill_frame k ls id : forall h vals,
  ~ In (Some id) ls -> nth_error (fill k h ls vals) id = nth_error h id.
Proof.
  unfold fill. induction ls as [|lf ls IH]; intros h vals Hn; cbn [fold_left]; [reflexivity|].
  destruct (fill_leaf k (h, vals) lf) as [h1 vals1] eqn:E.
  rewrite IH by (intros Hc; apply Hn; simpl; auto).
  destruct lf as [i|]; simpl in E; [|inversion E; reflexivity].
  destruct (nth_error h i); inversion E; [|reflexivity].
  apply nth_error_upd_neq. intros ->. apply Hn. simpl. auto.
Qed.

Theorem inplace_frame s vi v id :
  nth_error (vecs s) vi = Some v -> ~ In (Some id) (leaves (vdata v)) ->
  (forall name a, nth_error (heap (fst (step s (OFieldOp vi name a)))) id = nth_error (heap s) id /\
                  vecs (fst (step s (OFieldOp vi name a))) = vecs s) /\
  (forall name vals, nth_error (heap (fst (step s (OSetFlattened vi name vals)))) id = nth_error (heap s) id /\
                     vecs (fst (step s (OSetFlattened vi name vals))) = vecs s).
Proof.
  intros Hv Hn. split.
  - intros name a. simpl. unfold op_field_op. rewrite Hv.
    destruct (index_of name (vfields v)) as [k|]; [|auto]. simpl. split; [|reflexivity].
    rewrite fill_frame by exact Hn. apply field_apply_frame. exact Hn.
  - intros name vals. simpl. unfold op_set_flattened. rewrite Hv.
    destruct (index_of name (vfields v)) as [k|]; [|auto]. destruct vals as [xs|]; [|auto].
    match goal with |- context [negb ?b] => destruct (negb b) end; [auto|]. simpl. split; [|reflexivity].
    apply fill_frame. exact Hn.
Qed.

(* ================================================================ slicing addresses the right cells *)
Lemma tget_total : forall p sh t, shaped sh t -> Forall2 (fun i n => i < n) p sh -> exists lf, tget t p = Some lf.
Proof.
  intros p sh t Hs Hp. revert t Hs.
  induction Hp as [|i n p sh Hi Hp IH]; intros t Hs; destruct t as [c|ch]; simpl in Hs; try contradiction.
  - eexists. reflexivity.
  - destruct Hs as [Hlen Hall]. simpl.
    destruct (nth_error ch i) as [c|] eqn:Ec; [|apply nth_error_None in Ec; lia].
    apply IH. rewrite Forall_forall in Hall. apply Hall. eapply nth_error_In. exact Ec.
Qed.

Lemma src_of_range : forall idxs sh o,
  in_range idxs sh -> Forall2 (fun k js => k < length js) o idxs -> Forall2 (fun i n => i < n) (src_of idxs o) sh.
Proof.
  intros idxs sh o Hr. revert o. induction Hr as [|js n rest sh Hjs Hr IH]; intros o Ho.
  - inversion Ho; subst. constructor.
  - destruct o as [|k o']; [inversion Ho|].
    assert (Hk : k < length js) by (inversion Ho; subst; assumption).
    assert (Ho' : Forall2 (fun k js => k < length js) o' rest) by (inversion Ho; subst; assumption).
    cbn [src_of]. constructor; [|apply IH; exact Ho'].
    rewrite Forall_forall in Hjs. apply Hjs. apply nth_In. exact Hk.
Qed.

Theorem slice_addresses_cells s vi v idx s' :
  SInv s -> nth_error (vecs s) vi = Some v -> step s (OGetItem vi idx) = (s', RNew) ->
  exists raw idxs w,
    resolve_raw (vshape v) (idx ++ repeat (ISlice None None None) (length (vshape v) - length idx)) = Some raw /\
    resolve_take (vshape v) raw = inr idxs /\
    vecs s' = vecs s ++ [w] /\ heap s' = heap s /\
    vshape w = map (@length nat) idxs /\ vfields w = vfields v /\ vunits w = vunits v /\
    forall o, Forall2 (fun k js => k < length js) o idxs ->
      exists lf, tget (vdata w) o = Some lf /\ tget (vdata v) (src_of idxs o) = Some lf.
Proof.
  intros HS Hv. simpl. unfold op_getitem. rewrite Hv.
  destruct ((length idx =? length (vshape v)) && forallb is_int idx).
  { destruct (int_path (vshape v) idx) as [e|p]; [discriminate|]. destruct (tget (vdata v) p); discriminate. }
  destruct ((length (vshape v) <? length idx) && forallb is_int (firstn (length (vshape v)) idx)).
  { repeat (match goal with |- context [match ?x with _ => _ end] => destruct x end; try discriminate). }
  match goal with |- context [resolve_raw ?a ?b] => destruct (resolve_raw a b) as [raw|] eqn:Eraw end; [|discriminate].
  destruct (resolve_take (vshape v) raw) as [e|idxs] eqn:Er; [discriminate|].
  match goal with |- context [mk_schema ?a ?b ?c ?d] => destruct (mk_schema a b c d) as [[[sh fs] us]|] eqn:E end;
    [|discriminate].
  intros H. inversion H; subst s'. clear H.
  match type of E with mk_schema ?a ?b ?c ?d = _ =>
    destruct (mk_schema_spec a b c d sh fs us E) as (P0 & _ & _ & _ & P4 & _ & P6) end.
  specialize (P4 _ eq_refl). specialize (P6 _ eq_refl). subst fs us. rewrite map_length_roundtrip in P0. subst sh.
  destruct (SInv_vec s vi v HS Hv) as (_ & Hsh & _).
  pose proof (resolve_take_range _ _ _ Er) as Hr.
  exists raw, idxs. eexists. unfold push_vec. cbn [vecs heap vshape vfields vunits vdata].
  repeat split; auto.
  intros o Ho. cbn [vdata]. rewrite (@tget_take idxs (vshape v) (vdata v) o Hsh Hr Ho).
  destruct (tget_total (src_of idxs o) (vshape v) (vdata v) Hsh (src_of_range idxs (vshape v) o Hr Ho)) as [lf Hlf].
  exists lf. auto.
Qed.

(* what the resolved index lists are: Python's wrap-around of every raw index, axis by axis *)
Lemma resolve_take_spec : forall sh raw idxs,
  resolve_take sh raw = inr idxs ->
  Forall2 (fun n_js ks => Forall2 (fun i k => pyidx (fst n_js) i = Some k) (snd n_js) ks /\ ks <> [])
          (combine sh raw) idxs /\ length raw = length sh.
Proof.
  induction sh as [|n sh IH]; intros raw idxs H; destruct raw as [|js rest]; simpl in H; try discriminate.
  - inversion H. split; [constructor|reflexivity].
  - destruct (mapM (pyidx n) js) as [ks|] eqn:Em; [|discriminate].
    destruct ks as [|k ks]; [discriminate|].
    destruct (resolve_take sh rest) as [e|r] eqn:Er; [discriminate|]. inversion H; subst.
    destruct (IH rest r Er) as [I1 I2]. simpl. split; [|lia].
    constructor; [|exact I1]. simpl. split; [apply mapM_Forall2; exact Em|discriminate].
Qed.

(* get_data: the returned list is the list of addressed cells in np.ndindex order *)
Theorem get_data_addresses_cells s vi v idx ls :
  nth_error (vecs s) vi = Some v -> step s (OGetData vi idx) = (s, RCells ls) ->
  exists idxs, resolve_checked (vshape v) idx = inr idxs /\ map Some ls = map (tget (vdata v)) (cart idxs).
Proof.
  intros Hv. simpl. unfold op_get_data. rewrite Hv.
  destruct (negb (length idx =? length (vshape v))); [discriminate|].
  destruct (resolve_checked (vshape v) idx) as [e|idxs]; [discriminate|].
  destruct (forallb (fun l => length l =? 1) idxs).
  - destruct (tget (vdata v) _); discriminate.
  - destruct (mapM (tget (vdata v)) (cart idxs)) as [ls'|] eqn:Em; [|discriminate].
    intros H. inversion H; subst. exists idxs. split; [reflexivity|]. symmetry. apply mapM_spec. exact Em.
Qed.
