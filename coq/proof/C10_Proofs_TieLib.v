(* C10 — lemmas about the vocabulary of coq/lib/C10_TieLib.v (used by the fixed proof script of the
   translator tie, coq/gen_proofs/C10_GenProofs.v).  Nothing here mentions generated code. *)
From QV.lib Require Import Prelude C10_Cplx C10_TieLib.
From QV.model Require Import C10_Model.
From QV.proof Require Import C10_Proofs_Obj.
From Coq Require Import QArith Qcanon Lqa.
Local Close Scope Q_scope.

(* ================================================================ lists *)
Lemma Forall2_map_same {A B : Type} (R : B -> B -> Prop) (f g : A -> B) (l : list A) :
  (forall x, R (f x) (g x)) -> Forall2 R (map f l) (map g l).
Proof. intros H. induction l as [|x l IH]; cbn [map]; constructor; [apply H | exact IH]. Qed.

Lemma Forall2_map_in {A B : Type} (R : B -> B -> Prop) (f g : A -> B) (l : list A) :
  (forall x, In x l -> R (f x) (g x)) -> Forall2 R (map f l) (map g l).
Proof.
  induction l as [|x l IH]; intros H; cbn [map]; constructor.
  - apply H. left. reflexivity.
  - apply IH. intros y Hy. apply H. right. exact Hy.
Qed.

Lemma mapmap_id {A : Type} (l : list (list A)) : map (map (fun x => x)) l = l.
Proof. induction l as [|x l IH]; cbn [map]; [reflexivity | rewrite map_id, IH; reflexivity]. Qed.

Lemma map_snd_combine_same {A B C : Type} (f : B -> C) (ms : list A) (sl : list B) :
  length sl = length ms -> map (fun mx => f (snd mx)) (combine ms sl) = map f sl.
Proof.
  revert sl. induction ms as [|m ms IH]; intros [|x sl] H; cbn in *; try discriminate; try reflexivity.
  f_equal. apply IH. congruence.
Qed.

Lemma combine_map_r {A B C : Type} (h : B -> C) (ms : list A) (l : list B) :
  combine ms (map h l) = map (fun mx => (fst mx, h (snd mx))) (combine ms l).
Proof.
  revert l. induction ms as [|m ms IH]; intros [|x l]; cbn [map combine]; try reflexivity.
  cbn [fst snd]. f_equal. apply IH.
Qed.

(* simulation of a loop over range(len(l)) that reads l[j] by a fold over l *)
Lemma fold_seq_sim {St T X : Type} (R : St -> T -> Prop) (f : St -> nat -> St) (g : T -> X -> T) :
  forall (l pre : list X),
    (forall a b j x, nth_error (pre ++ l) j = Some x -> (length pre <= j)%nat -> R a b -> R (f a j) (g b x)) ->
    forall a0 b0, R a0 b0 -> R (fold_left f (seq (length pre) (length l)) a0) (fold_left g l b0).
Proof.
  induction l as [|x l IH]; intros pre H a0 b0 H0; cbn [length seq fold_left]; [exact H0|].
  specialize (IH (pre ++ [x])). rewrite app_length in IH. cbn [length] in IH.
  replace (length pre + 1)%nat with (S (length pre)) in IH by lia.
  apply IH.
  - intros a b j y Hj Hle HR. apply H; [|lia|exact HR]. rewrite <- app_assoc in Hj. exact Hj.
  - apply H; [|lia|exact H0]. rewrite nth_error_app2 by lia. rewrite Nat.sub_diag. reflexivity.
Qed.

Lemma fold_seq_sim0 {St T X : Type} (R : St -> T -> Prop) (f : St -> nat -> St) (g : T -> X -> T) (l : list X) :
  (forall a b j x, nth_error l j = Some x -> R a b -> R (f a j) (g b x)) ->
  forall a0 b0, R a0 b0 -> R (fold_left f (seq 0 (length l)) a0) (fold_left g l b0).
Proof. intros H. apply (fold_seq_sim R f g l []). intros a b j x Hj _ HR. apply H; assumption. Qed.

(* ================================================================ Part A *)
Local Open Scope Q_scope.

Lemma qmax_compat a a' b b' : a == a' -> b == b' -> qmax a b == qmax a' b'.
Proof. intros H1 H2. qmm; lra. Qed.
Lemma qmin_compat a a' b b' : a == a' -> b == b' -> qmin a b == qmin a' b'.
Proof. intros H1 H2. qmm; lra. Qed.
Lemma qclamp_compat x x' lo lo' hi hi' : x == x' -> lo == lo' -> hi == hi' -> qclamp x lo hi == qclamp x' lo' hi'.
Proof. intros H1 H2 H3. unfold qclamp. apply qmin_compat; [apply qmax_compat|]; assumption. Qed.

Lemma qmax_comm a b : qmax a b == qmax b a.
Proof. qmm; lra. Qed.
Lemma qmin_comm a b : qmin a b == qmin b a.
Proof. qmm; lra. Qed.
Lemma qmax_compat_swap a a' b b' : a == b' -> b == a' -> qmax a b == qmax a' b'.
Proof. intros H1 H2. rewrite (qmax_comm a' b'). apply qmax_compat; assumption. Qed.
Lemma qmin_compat_swap a a' b b' : a == b' -> b == a' -> qmin a b == qmin a' b'.
Proof. intros H1 H2. rewrite (qmin_comm a' b'). apply qmin_compat; assumption. Qed.

(* congruence closure of == through the operations the translated pixel expressions are made of *)
Ltac qcong :=
  first
    [ reflexivity
    | ring
    | apply qmax_compat; qcong
    | apply qmin_compat; qcong
    | apply qmax_compat_swap; qcong
    | apply qmin_compat_swap; qcong
    | apply qclamp_compat; qcong
    | apply Qmult_comp; qcong
    | apply Qplus_comp; qcong
    | apply Qminus_comp; qcong
    | apply Qdiv_comp; qcong
    | apply Qopp_comp; qcong
    | match goal with |- ?a * ?b == _ => rewrite (Qmult_comm a b) end; apply Qmult_comp; qcong
    | match goal with |- ?a + ?b == _ => rewrite (Qplus_comm a b) end; apply Qplus_comp; qcong ].

Lemma Forall2_Qeq_refl (l : list Q) : Forall2 Qeq l l.
Proof. induction l; constructor; [reflexivity | assumption]. Qed.
Lemma teq_refl a : teq a a.
Proof. induction a as [|x a IH]; constructor; [|exact IH]. induction x; constructor; [reflexivity | assumption]. Qed.
Lemma peq_refl p : peq p p.
Proof. split; reflexivity. Qed.
Lemma weq_refl a : weq a a.
Proof. induction a as [|x a IH]; constructor; [|exact IH]. induction x; constructor; [apply peq_refl | assumption]. Qed.

Lemma Forall2_Qeq_length (a b : list Q) : Forall2 Qeq a b -> length a = length b.
Proof. induction 1; cbn; congruence. Qed.
Lemma teq_length a b : teq a b -> length a = length b.
Proof. induction 1; cbn; congruence. Qed.

Lemma qzip_add_compat a a' b b' : Forall2 Qeq a a' -> Forall2 Qeq b b' -> Forall2 Qeq (qzip_add a b) (qzip_add a' b').
Proof.
  intros Ha. revert b b'. induction Ha as [|x x' a a' Hx Ha IH]; intros b b' Hb; unfold qzip_add; cbn [combine map]; [constructor|].
  destruct Hb as [|y y' b b' Hy Hb]; cbn [combine map]; constructor.
  - cbn [fst snd]. rewrite Hx, Hy. reflexivity.
  - apply IH. exact Hb.
Qed.

Lemma fold_qzip_add_compat r r' : teq r r' -> forall x x', Forall2 Qeq x x' ->
  Forall2 Qeq (fold_left qzip_add r x) (fold_left qzip_add r' x').
Proof.
  induction 1 as [|y y' r r' Hy Hr IH]; intros x x' Hx; cbn [fold_left]; [exact Hx|].
  apply IH. apply qzip_add_compat; assumption.
Qed.

Lemma slices_sum_compat a b : teq a b -> Forall2 Qeq (slices_sum a) (slices_sum b).
Proof.
  intros H. destruct H as [|x y a b Hx Hr]; cbn [slices_sum]; [constructor|].
  apply fold_qzip_add_compat; assumption.
Qed.

Lemma Forall2_map2 {A B : Type} (R : B -> B -> Prop) (RA : A -> A -> Prop) (f g : A -> B) l l' :
  (forall x y, RA x y -> R (f x) (g y)) -> Forall2 RA l l' -> Forall2 R (map f l) (map g l').
Proof. intros H. induction 1; cbn [map]; constructor; auto. Qed.

Lemma tie_slices_compat a b : teq a b -> teq (tie_slices a) (tie_slices b).
Proof.
  intros H. unfold tie_slices, slices_mean. rewrite <- (teq_length a b H).
  assert (E : Forall2 Qeq (map (fun s => s / inject_Z (Z.of_nat (length a))) (slices_sum a))
                          (map (fun s => s / inject_Z (Z.of_nat (length a))) (slices_sum b))).
  { apply (Forall2_map2 Qeq Qeq); [|apply slices_sum_compat; exact H]. intros x y E. rewrite E. reflexivity. }
  unfold teq. generalize (length a) at 2 4. intros n. induction n as [|n IH]; cbn [repeat]; constructor; [exact E | exact IH].
Qed.

(* the test of the code (`background.any()`: some mask value below the threshold) against the test of
   the model (no selected entry), for a mask of the slice's shape *)
Lemma select_nil_iff {A : Type} (sel : Q -> bool) (e : A -> Q) (ms : list Q) (obj : list (list A)) :
  Forall (fun sl => length sl = length ms) obj -> obj <> [] ->
  (concat (map (fun sl => map (fun mx => e (snd mx)) (filter (fun mx => sel (fst mx)) (combine ms sl))) obj) = []
   <-> existsb sel ms = false).
Proof.
  intros Hfit Hne.
  assert (K : forall (sl : list A), length sl = length ms ->
              (filter (fun mx : Q * A => sel (fst mx)) (combine ms sl) = [] <-> existsb sel ms = false)).
  { clear. induction ms as [|m ms IH]; intros [|x sl] Hl; cbn in *; try discriminate; [tauto|].
    destruct (sel m); cbn; [split; discriminate|]. apply IH. congruence. }
  split.
  - intros H. destruct obj as [|sl obj]; [congruence|]. cbn [map concat] in H.
    apply app_eq_nil in H. destruct H as [H _]. inversion Hfit as [|? ? Hl _]; subst.
    apply (K sl Hl). destruct (filter _ _); [reflexivity | discriminate H].
  - intros H. induction Hfit as [|sl obj Hl Hr IH]; [congruence|]. cbn [map concat].
    apply (K sl Hl) in H as H1. rewrite H1. cbn [map app].
    destruct obj as [|sl2 obj2]; [reflexivity|]. apply IH. discriminate.
Qed.

Local Close Scope Q_scope.

(* ================================================================ Part B *)
Local Open Scope Qc_scope.

Lemma qcsum_cnorm2 (v : list C) : qcsum (map cnorm2 v) = norm2 v.
Proof. induction v as [|x v IH]; cbn [map qcsum norm2]; [reflexivity | rewrite IH; reflexivity]. Qed.

Lemma map2_map_l {X X' Y Z : Type} (f : X' -> Y -> Z) (h : X -> X') a b :
  map2 f (map h a) b = map2 (fun x y => f (h x) y) a b.
Proof.
  unfold map2. revert b. induction a as [|x a IH]; intros [|y b]; cbn [map combine]; try reflexivity.
  cbn [fst snd]. f_equal. apply IH.
Qed.
Lemma map2_map_r {X Y Y' Z : Type} (f : X -> Y' -> Z) (h : Y -> Y') a b :
  map2 f a (map h b) = map2 (fun x y => f x (h y)) a b.
Proof.
  unfold map2. revert b. induction a as [|x a IH]; intros [|y b]; cbn [map combine]; try reflexivity.
  cbn [fst snd]. f_equal. apply IH.
Qed.
Lemma map2_swap {X Y Z : Type} (f : X -> Y -> Z) a b :
  map2 f a b = map (fun yx => f (snd yx) (fst yx)) (combine b a).
Proof.
  unfold map2. revert b. induction a as [|x a IH]; intros [|y b]; cbn [map combine]; try reflexivity.
  cbn [fst snd]. f_equal. apply IH.
Qed.
Lemma map2_ext {X Y Z : Type} (f g : X -> Y -> Z) a b : (forall x y, f x y = g x y) -> map2 f a b = map2 g a b.
Proof. intros H. unfold map2. apply map_ext. intros [x y]. apply H. Qed.
Lemma map_map2 {X Y Z W : Type} (h : Z -> W) (f : X -> Y -> Z) a b : map h (map2 f a b) = map2 (fun x y => h (f x y)) a b.
Proof. unfold map2. rewrite map_map. reflexivity. Qed.
Lemma map2_same {X Z : Type} (f : X -> X -> Z) a : map2 f a a = map (fun x => f x x) a.
Proof. unfold map2. induction a as [|x a IH]; cbn [combine map]; [reflexivity | cbn [fst snd]; f_equal; exact IH]. Qed.

(* torch.complex(x.real[o], x.imag[o]) = x[o] *)
Lemma sv_complex_re_im (x : Qc * list C) : sv_complex (sv_re x) (sv_im x) = x.
Proof.
  destruct x as [s v]. unfold sv_complex, sv_re, sv_im. cbn [fst snd].
  assert (E : Qc_eq_bool s s = true). { unfold Qc_eq_bool. destruct (Qc_eq_dec s s); [reflexivity | congruence]. }
  rewrite E. f_equal. induction v as [|[a b] v IH]; cbn [map combine fst snd]; [reflexivity | rewrite IH; reflexivity].
Qed.

Lemma idx_complex (l : list (Qc * list C)) (o : list nat) :
  map2 sv_complex (idx (sv_re sv0) (map sv_re l) o) (idx (sv_im sv0) (map sv_im l) o) = idx sv0 l o.
Proof.
  unfold idx. rewrite map2_map_l, map2_map_r, map2_same. apply map_ext. intros i.
  rewrite (map_nth sv_re), (map_nth sv_im). apply sv_complex_re_im.
Qed.

(* x[argsort(intensities, descending)] is the model's stable descending sort *)
Lemma insert_key_payload (g : nat -> Qc * list C) (x : Qc * nat) (l : list (Qc * nat)) :
  fst x = mode_intensity (g (snd x)) -> Forall (fun y => fst y = mode_intensity (g (snd y))) l ->
  map (fun y => g (snd y)) (insert_key x l) = insert_desc (g (snd x)) (map (fun y => g (snd y)) l).
Proof.
  intros Hx Hl. induction Hl as [|y l Hy Hl IH]; cbn [insert_key map insert_desc]; [reflexivity|].
  rewrite <- Hx, <- Hy. destruct (qc_leb (fst y) (fst x)); cbn [map]; [reflexivity|]. rewrite IH. reflexivity.
Qed.

Lemma insert_key_Forall (P : Qc * nat -> Prop) x l : P x -> Forall P l -> Forall P (insert_key x l).
Proof.
  intros Hx Hl. induction Hl as [|y l Hy Hl IH]; cbn [insert_key]; [repeat constructor; exact Hx|].
  destruct (qc_leb (fst y) (fst x)); repeat constructor; assumption.
Qed.

Lemma sort_keys_payload (g : nat -> Qc * list C) (l : list (Qc * nat)) :
  Forall (fun y => fst y = mode_intensity (g (snd y))) l ->
  map (fun y => g (snd y)) (fold_right insert_key [] l) = sort_desc (map (fun y => g (snd y)) l)
  /\ Forall (fun y => fst y = mode_intensity (g (snd y))) (fold_right insert_key [] l).
Proof.
  induction 1 as [|x l Hx Hl [IH1 IH2]]; cbn [fold_right map]; [split; [reflexivity | constructor]|].
  split.
  - rewrite insert_key_payload by assumption. rewrite IH1. reflexivity.
  - apply insert_key_Forall; assumption.
Qed.

Lemma combine_seq_payload (ms pre : list (Qc * list C)) :
  Forall (fun y : Qc * nat => fst y = mode_intensity (nth (snd y) (pre ++ ms) sv0))
         (combine (map mode_intensity ms) (seq (length pre) (length ms)))
  /\ map (fun y : Qc * nat => nth (snd y) (pre ++ ms) sv0) (combine (map mode_intensity ms) (seq (length pre) (length ms))) = ms.
Proof.
  revert pre. induction ms as [|m ms IH]; intros pre; cbn [map length seq combine]; [split; [constructor | reflexivity]|].
  specialize (IH (pre ++ [m])). rewrite app_length in IH. cbn [length] in IH.
  replace (length pre + 1)%nat with (S (length pre)) in IH by lia. rewrite <- app_assoc in IH. cbn [app] in IH.
  destruct IH as [IH1 IH2].
  assert (E : nth (length pre) (pre ++ m :: ms) sv0 = m).
  { rewrite app_nth2 by lia. rewrite Nat.sub_diag. reflexivity. }
  split.
  - constructor; [cbn [fst snd]; rewrite E; reflexivity | exact IH1].
  - cbn [fst snd]. rewrite E, IH2. reflexivity.
Qed.

Lemma idx_argsort (ms : list (Qc * list C)) :
  idx sv0 ms (argsort_desc (map sv_int ms)) = sort_desc ms.
Proof.
  unfold idx, argsort_desc. rewrite map_map, map_length.
  change sv_int with mode_intensity.
  destruct (combine_seq_payload ms []) as [H1 H2]. cbn [app length] in H1, H2.
  destruct (sort_keys_payload (fun i => nth i ms sv0) _ H1) as [E _].
  rewrite E, H2. reflexivity.
Qed.

(* 1 / x = / x *)
Lemma Qc_one_div (x : Qc) : 1 / x = / x.
Proof. unfold Qcdiv. ring. Qed.

Lemma eps_code_sq : eps_code * eps_code = eps2_code.
Proof. apply Qc_is_canon. vm_compute. reflexivity. Qed.

(* ---------------------------------------------------------------- zips *)
Lemma map2_map2_self {X Y Z W V : Type} (f : X -> Z -> W) (g : Y -> V -> Z) (h : X -> V) (a : list X) (b : list Y) :
  map2 f a (map2 g b (map h a)) = map (fun ba => f (snd ba) (g (fst ba) (h (snd ba)))) (combine b a).
Proof.
  unfold map2. revert b. induction a as [|x a IH]; intros [|y b]; cbn [map combine]; try reflexivity.
  cbn [fst snd]. f_equal. apply IH.
Qed.

Lemma map_snd_combine {X Y : Type} (a : list X) (b : list Y) : length a = length b -> map snd (combine a b) = b.
Proof.
  revert b. induction a as [|x a IH]; intros [|y b] H; cbn in *; try discriminate; [reflexivity|].
  f_equal. apply IH. congruence.
Qed.

Lemma nth_map_of_nth_error {X Y : Type} (f : X -> Y) (l : list X) j x d :
  nth_error l j = Some x -> nth j (map f l) d = f x.
Proof. intros H. apply nth_error_nth. apply map_nth_error. exact H. Qed.

(* ---------------------------------------------------------------- the normalised Gram-Schmidt loop
   the code keeps e_j = u_j / max(|u_j|, c) — the scaled vector (1 / max(|u_j|^2, c^2), u_j) *)
Definition En (eps2 : Qc) (u : vec) : Qc * list C := (1 / qcmax (norm2 u) eps2, u).

Lemma proj_step eps2 r u : vsub r (sv_proj (En eps2 u) r) = proj_sub_c eps2 r u.
Proof. unfold sv_proj, En, proj_sub_c, proj_coef_c. cbn [fst snd]. rewrite Qc_one_div. reflexivity. Qed.

Lemma inner_loop_eq eps2 (b : list vec) (x : vec) :
  fold_left (fun r j => vsub r (sv_proj (nth j (map (En eps2) b) sv0) r)) (seq 0 (length (map (En eps2) b))) x
  = residual_c eps2 b x.
Proof.
  rewrite map_length. unfold residual_c.
  apply (fold_seq_sim0 (@eq vec)); [|reflexivity].
  intros a b0 j u Hj E. subst b0. rewrite (nth_map_of_nth_error (En eps2) b j u sv0 Hj). apply proj_step.
Qed.

Lemma norm_step c (r : vec) :
  sv_div (sv_of r) (rs_clamp_min (rs_sqrt (qcsum (map cnorm2 r))) c) = En (c * c) r.
Proof. unfold sv_div, sv_of, rs_clamp_min, rs_sqrt, En. cbn [fst snd]. rewrite qcsum_cnorm2. reflexivity. Qed.

Lemma outer_loop_eq c (ps : list vec) :
  fold_left (fun orth i =>
               orth ++ [sv_div (sv_of (fold_left (fun r j => vsub r (sv_proj (nth j orth sv0) r)) (seq 0 (length orth)) (nth i ps [])))
                               (rs_clamp_min (rs_sqrt (qcsum (map cnorm2
                                  (fold_left (fun r j => vsub r (sv_proj (nth j orth sv0) r)) (seq 0 (length orth)) (nth i ps [])))))
                                  c)])
            (seq 0 (length ps)) []
  = map (En (c * c)) (gs_c (c * c) ps).
Proof.
  unfold gs_c.
  apply (fold_seq_sim0 (fun a b => a = map (En (c * c)) b)); [|reflexivity].
  intros a b j x Hj E. subst a. rewrite (nth_error_nth ps j [] Hj).
  rewrite inner_loop_eq, norm_step, map_app. reflexivity.
Qed.

(* e_j * |p_j| : the restored modes of the model *)
Lemma restore_eq eps2 (ps us : list vec) :
  map2 sv_mul (map (En eps2) us) (map rs_sqrt (map qcsum (map (map cnorm2) ps)))
  = map (fun pu => restore_c eps2 (fst pu) (snd pu)) (combine ps us).
Proof.
  rewrite !map_map, map2_map_l, map2_map_r, map2_swap. apply map_ext. intros [p u]. cbn [fst snd].
  unfold sv_mul, En, restore_c, rs_sqrt. cbn [fst snd]. rewrite qcsum_cnorm2. f_equal. unfold Qcdiv. ring.
Qed.
