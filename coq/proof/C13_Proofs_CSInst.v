(* C13 — non-vacuity of the Cauchy–Schwarz layer (proof/C13_Proofs_CS.v): the Gaussian rationals
   with re = real part satisfy additivity / positivity / definiteness, and there is a character E
   that is unit-modulus EVERYWHERE and different from 1 off the pixel grid (E4u: exp(2 pi i q) on the
   quarter integers, (3 + 4i)/5 resp. its conjugate at every other q > 0 resp. q < 0), so that the
   "no sub-pixel translate reproduces the image" hypotheses hold for a concrete 4 x 4 image. *)
From Coq Require Import ZArith Lia Ring QArith Qcanon Qround Psatz.
From QV.lib Require Import Prelude FinSum DFT DFT2 DFT_Inst.
From QV.model Require Import C13_Model.
From QV.proof Require Import C13_Proofs C13_Proofs_Est C13_Proofs_Swap C13_Proofs_DFT C13_Proofs_Inst C13_Proofs_CS.
Local Close Scope Q_scope.
Local Close Scope Qc_scope.

(* ---------------------------------------------------------------- re on the Gaussian rationals *)
Lemma this_add x y : (this (x + y)%Qc == this x + this y)%Q.
Proof. unfold Qcplus, Q2Qc. cbn [this]. apply Qred_correct. Qed.
Lemma this_mul x y : (this (x * y)%Qc == this x * this y)%Q.
Proof. unfold Qcmult, Q2Qc. cbn [this]. apply Qred_correct. Qed.
Lemma this_opp x : (this (- x)%Qc == - this x)%Q.
Proof. unfold Qcopp, Q2Qc. cbn [this]. apply Qred_correct. Qed.
Lemma this_sub x y : (this (x - y)%Qc == this x - this y)%Q.
Proof. unfold Qcminus. rewrite this_add, this_opp. reflexivity. Qed.

Lemma reC_add a b : (reC (cadd a b) == reC a + reC b)%Q.
Proof. unfold reC, cadd. cbn [fst]. apply this_add. Qed.

Lemma reC_norm z :
  (reC (cmul z (cconj z)) == this (fst z) * this (fst z) + this (snd z) * this (snd z))%Q.
Proof.
  unfold reC, cmul, cconj. cbn [fst snd]. rewrite this_sub, !this_mul, this_opp. ring.
Qed.

Lemma reC_nonneg z : (0 <= reC (cmul z (cconj z)))%Q.
Proof. rewrite reC_norm. nra. Qed.

Lemma reC_definite z : (reC (cmul z (cconj z)) == 0)%Q -> z = c0.
Proof.
  rewrite reC_norm. intros H. destruct z as [a b]. cbn [fst snd] in H.
  assert (A : (this a == 0)%Q) by nra. assert (B : (this b == 0)%Q) by nra.
  unfold c0. f_equal; apply Qc_is_canon; assumption.
Qed.

(* ---------------------------------------------------------------- a unit-modulus character *)
Definition g35 : C := (Q2Qc (3 # 5), Q2Qc (4 # 5)).

Definition E4u (q : Q) : C :=
  if isint (q * 4) then w4 (- Qfloor (q * 4)) else if Qltb 0 q then g35 else cconj g35.

Lemma Qltb_comp0 p q : (p == q)%Q -> Qltb 0 p = Qltb 0 q.
Proof. intros H. unfold Qltb. rewrite H. reflexivity. Qed.

Lemma E4u_ext p q : (p == q)%Q -> E4u p = E4u q.
Proof.
  intros H. unfold E4u, isint.
  assert (F : Qfloor (p * 4) = Qfloor (q * 4)) by (rewrite H; reflexivity).
  assert (B : Qeq_bool (inject_Z (Qfloor (p * 4))) (p * 4) = Qeq_bool (inject_Z (Qfloor (q * 4))) (q * 4)).
  { rewrite F. apply Qeqb_comp; [reflexivity | rewrite H; reflexivity]. }
  rewrite B, F, (Qltb_comp0 p q H). reflexivity.
Qed.

Lemma E4u_at x z : (x * 4 == inject_Z z)%Q -> E4u x = w4 (- z).
Proof.
  intros H. unfold E4u.
  assert (I : isint (x * 4) = true) by (apply isint_iff; exists z; exact H).
  assert (F : Qfloor (x * 4) = z) by (rewrite H; apply Qfloor_Z).
  rewrite I, F. reflexivity.
Qed.

Lemma E4u_w z : E4u (inject_Z z / qN 4) = w4 (- z).
Proof. apply E4u_at. unfold qN. change (inject_Z (Z.of_nat 4)) with 4%Q. field. Qed.

Lemma cconj_invol z : cconj (cconj z) = z.
Proof. exact (conj_invol _ _ _ _ C_conj_ok z). Qed.

Lemma E4u_conj q : cconj (E4u q) = E4u (- q).
Proof.
  destruct (isint (q * 4)) eqn:I.
  - destruct (proj1 (isint_iff _) I) as [z Hz].
    rewrite (E4u_at q z Hz), w4_conj.
    symmetry. apply E4u_at. rewrite inject_Z_opp, <- Hz. ring.
  - assert (I' : isint (- q * 4) = false).
    { destruct (isint (- q * 4)) eqn:J; [|reflexivity].
      destruct (proj1 (isint_iff _) J) as [g Hg].
      assert (T : isint (q * 4) = true).
      { apply isint_iff. exists (- g)%Z. rewrite inject_Z_opp, <- Hg. ring. }
      congruence. }
    assert (Q0 : ~ (q == 0)%Q).
    { intros Z. assert (T : isint (q * 4) = true) by (apply isint_iff; exists 0%Z; rewrite Z; reflexivity).
      congruence. }
    unfold E4u. rewrite I, I'.
    destruct (Qltb 0 q) eqn:L; destruct (Qltb 0 (- q)) eqn:L'.
    + apply Qltb_spec in L. apply Qltb_spec in L'. exfalso. lra.
    + reflexivity.
    + apply cconj_invol.
    + apply Qltb_false in L. apply Qltb_false in L'. exfalso. apply Q0. lra.
Qed.

Lemma g35_unit : cmul g35 (cconj g35) = c1.
Proof.
  unfold cmul, cconj, g35, c1. cbn [fst snd]. f_equal; apply Qc_is_canon; vm_compute; reflexivity.
Qed.

Lemma cmul_comm a b : cmul a b = cmul b a.
Proof. exact (Rmul_comm C_ring a b). Qed.

Lemma E4u_unit q : cmul (E4u q) (cconj (E4u q)) = c1.
Proof.
  unfold E4u. destruct (isint (q * 4)).
  - rewrite w4_conj, <- w4_add, Z.add_opp_diag_r. reflexivity.
  - destruct (Qltb 0 q).
    + exact g35_unit.
    + rewrite cconj_invol, cmul_comm. exact g35_unit.
Qed.

(* every hypothesis of section C13_CS, bundled *)
Definition cs_setting_ok (R : Type) (rO rI : R) (radd rmul rsub : R -> R -> R) (ropp : R -> R)
           (conj : R -> R) (N1 : nat) (w1 : Z -> R) (Ninv1 : R) (N2 : nat) (w2 : Z -> R) (Ninv2 : R)
           (re : R -> Q) (E : Q -> R) : Prop :=
  ring_theory rO rI radd rmul rsub ropp eq /\ conj_ok radd rmul conj /\
  root_ok rO rI radd rmul conj N1 w1 Ninv1 /\ root_ok rO rI radd rmul conj N2 w2 Ninv2 /\
  (forall z, (re (conj z) == re z)%Q) /\
  (forall a b, (re (radd a b) == re a + re b)%Q) /\
  (forall z, (0 <= re (rmul z (conj z)))%Q) /\
  (forall z, (re (rmul z (conj z)) == 0)%Q -> z = rO) /\
  (forall p q : Q, (p == q)%Q -> E p = E q) /\ (forall q : Q, conj (E q) = E (- q)%Q) /\
  (forall z : Z, E (inject_Z z / qN N1)%Q = w1 (- z)%Z) /\
  (forall q : Q, rmul (E q) (conj (E q)) = rI).

Lemma cs_setting_instance :
  cs_setting_ok C c0 c1 cadd cmul csub copp cconj 4 w4 quarter 4 w4 quarter reC E4u.
Proof.
  unfold cs_setting_ok.
  split; [exact C_ring|]. split; [exact C_conj_ok|]. split; [exact C_root_ok|]. split; [exact C_root_ok|].
  split; [exact reC_conj|]. split; [exact reC_add|]. split; [exact reC_nonneg|]. split; [exact reC_definite|].
  split; [exact E4u_ext|]. split; [exact E4u_conj|]. split; [exact E4u_w|]. exact E4u_unit.
Qed.

(* ---------------------------------------------------------------- the concrete image *)
Definition Ceqb (a b : C) : bool :=
  Qeq_bool (this (fst a)) (this (fst b)) && Qeq_bool (this (snd a)) (this (snd b)).

Lemma Ceqb_false a b : Ceqb a b = false -> a <> b.
Proof.
  intros H E. subst b. unfold Ceqb in H.
  assert (T : forall q, Qeq_bool q q = true) by (intros; apply Qeq_bool_iff; reflexivity).
  rewrite !T in H. discriminate H.
Qed.

Lemma ref4_no_self_overlap : no_self_overlap C 4 4 ref4.
Proof.
  intros j1 j2 H1 H2 Hne. exists 0, 0. split; [lia|]. split; [lia|].
  grid16 j1 j2 Hne ltac:(apply Ceqb_false; vm_compute; reflexivity).
Qed.

Notation X4 := (dft2 c0 cadd cmul 4 w4 4 w4 ref4).

Ltac distinct_case :=
  first [ exists 1, 0; split; [lia|]; split; [lia|]; apply Ceqb_false; vm_compute; reflexivity
        | exists 0, 1; split; [lia|]; split; [lia|]; apply Ceqb_false; vm_compute; reflexivity ].

Lemma ref4_np_distinct_up2 : np_offsets_distinct C cmul 4 4 E4u X4 2.
Proof.
  intros a b Ha Hb Hne.
  assert (W : np_win 2 = 7) by reflexivity. rewrite W in Ha, Hb.
  assert (D : du 2 = 3) by reflexivity. rewrite D in Hne.
  do 7 (destruct a as [|a];
        [ do 7 (destruct b as [|b]; [ first [ exfalso; apply Hne; reflexivity | distinct_case ] | ]); lia | ]);
  lia.
Qed.

Lemma ref4_t_distinct_up3 : t_offsets_distinct C cmul 4 4 E4u X4 3.
Proof.
  intros a b Ha Hb Hne.
  assert (W : t_win 3 = 5) by reflexivity. rewrite W in Ha, Hb.
  assert (D : t_gs 3 = 2) by reflexivity. rewrite D in Hne.
  do 5 (destruct a as [|a];
        [ do 5 (destruct b as [|b]; [ first [ exfalso; apply Hne; reflexivity | distinct_case ] | ]); lia | ]);
  lia.
Qed.

Notation np_window4 := (np_window C c0 cadd cmul 4 4 reC E4u).
Notation t_window4 := (t_window C c0 cadd cmul cconj 4 4 reC E4u).
Notation cc_spec4 := (cc_spec C c0 cadd cmul cconj 4 w4 4 w4).

Lemma inst_unique_peak_cs : uniq_max 4 4 (acorrQ4 ref4) 0 0.
Proof.
  destruct cs_setting_instance as (Hr & Hc & H1 & H2 & Hre & Ha & Hn & Hd & _).
  exact (unique_peak_of_no_self_overlap C c0 c1 cadd cmul csub copp Hr cconj Hc 4 w4 quarter 4 w4 quarter
           H1 H2 reC Hre Ha Hn Hd ref4 ref4_no_self_overlap).
Qed.

Lemma inst_identical_numpy_cs :
  exists a b : Q,
    np_shift 4 4 (Some 1%Q) 2 (ccQ4 ref4 ref4) (np_window4 (cc_spec4 ref4 ref4) 2) = Some (a, b) /\
    (a == 0)%Q /\ (b == 0)%Q.
Proof.
  destruct cs_setting_instance as (Hr & Hc & H1 & H2 & Hre & Ha & Hn & Hd & He & Hec & Hew & Heu).
  apply (registration_identical_numpy_cs C c0 c1 cadd cmul csub copp Hr cconj Hc 4 w4 quarter 4 w4 quarter
           H1 H2 reC Hre Ha Hn Hd E4u He Hec Hew Heu ref4 ref4 (Some 1%Q) 2); try lia.
  - intros n1 n2 _ _. reflexivity.
  - exact ref4_no_self_overlap.
  - reflexivity.
  - intros _. exact ref4_np_distinct_up2.
Qed.

Lemma inst_identical_torch_cs :
  exists a b : Q,
    torch_shift 4 4 3 (ccQ4 ref4 ref4) (t_window4 (cc_spec4 ref4 ref4) 3) = Some (a, b) /\
    (a == 0)%Q /\ (b == 0)%Q.
Proof.
  destruct cs_setting_instance as (Hr & Hc & H1 & H2 & Hre & Ha & Hn & Hd & He & Hec & Hew & Heu).
  apply (registration_identical_torch_cs C c0 c1 cadd cmul csub copp Hr cconj Hc 4 w4 quarter 4 w4 quarter
           H1 H2 reC Hre Ha Hn Hd E4u He Hec Hew Heu ref4 ref4 3); try lia.
  - intros n1 n2 _ _. reflexivity.
  - exact ref4_no_self_overlap.
  - intros _. exact ref4_t_distinct_up3.
Qed.

(* the window the kernels produce for (ref4, ref4), upsample_factor 2, evaluated: its centre row *)
Lemma inst_window_row_value :
  map (fun b => Qred (np_window4 (cc_spec4 ref4 ref4) 2 0 0 3 b)) (seq 0 7)
  = map (fun b => Qred (np_window4 (cc_spec4 ref4 ref4) 2 0 0 3 (6 - b))) (seq 0 7)
  /\ forallb (fun b => Qle_bool (np_window4 (cc_spec4 ref4 ref4) 2 0 0 3 b) (np_window4 (cc_spec4 ref4 ref4) 2 0 0 3 3)) (seq 0 7) = true.
Proof. split; vm_compute; reflexivity. Qed.

(* a self-overlapping image (period 2 along the rows): the autocorrelation peak is tied, the
   registration theorems' hypothesis fails — the property's "unique correlation peak" domain *)
Definition per4 : nat -> nat -> C :=
  img4 [3; 1; 0; 1;   1; 0; 0; 0;   3; 1; 0; 1;   1; 0; 0; 0]%Z.

Lemma per4_tied : ~ uniq_max 4 4 (acorrQ4 per4) 0 0.
Proof.
  destruct cs_setting_instance as (Hr & Hc & H1 & H2 & Hre & Ha & Hn & Hd & _).
  apply (self_overlap_ties_peak C c0 c1 cadd cmul csub copp Hr cconj Hc 4 w4 quarter 4 w4 quarter
           H1 H2 reC per4 2 0); try lia.
  - intros Cq. discriminate Cq.
  - intros n1 n2 Hn1 Hn2.
    do 4 (destruct n1 as [|n1]; [ do 4 (destruct n2 as [|n2]; [ reflexivity | ]); lia | ]); lia.
Qed.
