(* C16 — the hypotheses of the C16 theorems are satisfiable: Gaussian rationals Q(i) of
   lib/DFT_Inst.v, 4 x 4 grid, w k = (-i)^k, rs = 1/4, rsi = 4; Z for the scatter lemmas.
   Used only by the Example C16_nonvacuous_* of props/C16_Properties.v. *)
From Coq Require Import ZArith List Lia Ring Arith QArith Qcanon.
From QV.lib Require Import FinSum DFT DFT2 DFT_Inst.
From QV.model Require Import C16_Model.
From QV.proof Require Import C16_Proofs C16_Proofs_Extra.
Import ListNotations.
Local Close Scope Q_scope.
Local Close Scope Qc_scope.

Add Ring CringI : C_ring.

Local Notation inst f :=
  (f C c0 c1 cadd cmul csub copp C_ring cconj C_conj_ok 4%nat w4 quarter 4%nat w4 quarter C_root_ok C_root_ok)
  (only parsing).

Lemma cconj_quarter : cconj quarter = quarter.
Proof. unfold cconj, quarter. cbn [fst snd]. f_equal; try ring. Qed.

Lemma Hrs4 : cmul quarter (cconj quarter) = cmul quarter quarter.
Proof. rewrite cconj_quarter. reflexivity. Qed.

Lemma Hrsi4 : cmul quarter four = c1.
Proof. exact (ro_inv _ _ _ _ _ _ _ _ _ C_root_ok). Qed.

Lemma C16i_setting :
  ring_theory c0 c1 cadd cmul csub copp eq /\ conj_ok cadd cmul cconj /\
  root_ok c0 c1 cadd cmul cconj 4 w4 quarter /\
  cmul quarter (cconj quarter) = cmul quarter quarter /\ cmul quarter four = c1.
Proof.
  split; [exact C_ring|]. split; [exact C_conj_ok|]. split; [exact C_root_ok|]. split; [exact Hrs4 | exact Hrsi4].
Qed.

(* ---------------------------------------------------------------- unit-modulus characters *)
Lemma w4_unit a : abs2 cmul cconj (w4 a) = c1.
Proof.
  unfold abs2. rewrite w4_conj, <- w4_add. replace (a + - a)%Z with 0%Z by lia. reflexivity.
Qed.

Definition iramp (s : Z) : nat -> C := fun k => w4 (Z.of_nat k * s).
Definition ikernel (d : Z) : nat -> nat -> C := fun k1 k2 => w4 (d * (Z.of_nat k1 * Z.of_nat k1 + Z.of_nat k2 * Z.of_nat k2)).

Lemma iramp_unit s : unit1 C c1 cmul cconj 4 (iramp s).
Proof. intros k _. apply w4_unit. Qed.
Lemma iramp_add s t k : iramp (s + t) k = cmul (iramp s k) (iramp t k).
Proof. unfold iramp. rewrite <- w4_add. f_equal. lia. Qed.
Lemma ikernel_unit d : unit2 C c1 cmul cconj 4 4 (ikernel d).
Proof. intros k1 k2 _ _. apply w4_unit. Qed.
Lemma ikernel_add d e k1 k2 : ikernel (d + e) k1 k2 = cmul (ikernel d k1 k2) (ikernel e k1 k2).
Proof. unfold ikernel. rewrite <- w4_add. f_equal. lia. Qed.

Lemma C16i_translate_energy : forall x : nat -> nat -> C,
  energy2 c0 cadd cmul cconj 4 4 (fourier_shift c0 cadd cmul 4 w4 quarter 4 w4 quarter (iramp 1) (iramp 3) x)
  = energy2 c0 cadd cmul cconj 4 4 x.
Proof. intros x. apply (inst translate_energy); apply iramp_unit. Qed.

Lemma C16i_translate_roll : forall x : nat -> nat -> C,
  eq2 C 4 4 (fourier_shift c0 cadd cmul 4 w4 quarter 4 w4 quarter (iramp 1) (iramp 3) x) (roll2 4 4 1 3 x).
Proof. intros x. apply (inst translate_integer_is_roll); intros k _; reflexivity. Qed.

Lemma C16i_translate_additive : forall (s1 s2 t1 t2 : Z) (x : nat -> nat -> C),
  eq2 C 4 4
    (fourier_shift c0 cadd cmul 4 w4 quarter 4 w4 quarter (iramp s1) (iramp s2)
       (fourier_shift c0 cadd cmul 4 w4 quarter 4 w4 quarter (iramp t1) (iramp t2) x))
    (fourier_shift c0 cadd cmul 4 w4 quarter 4 w4 quarter (iramp (s1 + t1)) (iramp (s2 + t2)) x).
Proof.
  intros s1 s2 t1 t2 x.
  apply (inst translate_additive Z Z.add iramp iramp); intros s t k _; apply iramp_add.
Qed.

Lemma C16i_propagate : forall (d : Z) (x : nat -> nat -> C),
  energy2 c0 cadd cmul cconj 4 4 (propagate c0 cadd cmul 4 w4 quarter 4 w4 quarter (ikernel d) x)
  = energy2 c0 cadd cmul cconj 4 4 x
  /\ eq2 C 4 4 (propagate c0 cadd cmul 4 w4 quarter 4 w4 quarter (fun k1 k2 => cconj (ikernel d k1 k2))
                  (propagate c0 cadd cmul 4 w4 quarter 4 w4 quarter (ikernel d) x)) x
  /\ forall d', eq2 C 4 4 (propagate c0 cadd cmul 4 w4 quarter 4 w4 quarter (ikernel d)
                             (propagate c0 cadd cmul 4 w4 quarter 4 w4 quarter (ikernel d') x))
                          (propagate c0 cadd cmul 4 w4 quarter 4 w4 quarter (ikernel (d + d')) x).
Proof.
  intros d x. split; [|split].
  - apply (inst propagate_energy). apply ikernel_unit.
  - apply (inst propagate_inverse). apply ikernel_unit.
  - intros d'. apply (inst propagate_additive Z Z.add ikernel). intros a b k1 k2 _ _. apply ikernel_add.
Qed.

(* ---------------------------------------------------------------- scatter / gather over Z *)
Lemma C16i_scatter : forall (obj : nat -> Z) (v1 v2 v3 v4 : Z),
  ldot 0%Z Z.add Z.mul (gather obj [2; 0; 2; 5]) [v1; v2; v3; v4]
  = adot 0%Z Z.add Z.mul 6 obj (scatter 0%Z Z.add [2; 0; 2; 5] [v1; v2; v3; v4]).
Proof.
  intros. apply (scatter_adjoint_gather Zth). repeat constructor; lia.
Qed.

Lemma C16i_scatter_patches : forall (obj : nat -> Z) (vals : list Z),
  batch_patch_indices 2 3 3 4 [((-1)%Z, 5%Z); (2%Z, 2%Z)] = [9; 10; 8; 5; 6; 4; 10; 11; 9; 6; 7; 5]
  /\ ldot 0%Z Z.add Z.mul (gather obj (batch_patch_indices 2 3 3 4 [((-1)%Z, 5%Z); (2%Z, 2%Z)])) vals
     = adot 0%Z Z.add Z.mul (3 * 4) obj (scatter 0%Z Z.add (batch_patch_indices 2 3 3 4 [((-1)%Z, 5%Z); (2%Z, 2%Z)]) vals).
Proof.
  intros obj vals. split; [vm_compute; reflexivity|].
  apply (scatter_adjoint_gather_patches Z 0%Z 1%Z Z.add Z.mul Z.sub Z.opp Zth); lia.
Qed.

(* ---------------------------------------------------------------- pure phase *)
Lemma C16i_pure_phase : forall (d e f : Z) (P Q : nat -> nat -> C),
  total_intensity c0 cadd cmul cconj 4 w4 4 w4 quarter
    (map (overlap_projection c0 cadd cmul 4 w4 quarter 4 w4 quarter [ikernel d; ikernel e] [ikernel f]) [P; Q])
  = cadd (energy2 c0 cadd cmul cconj 4 4 P) (cadd (energy2 c0 cadd cmul cconj 4 4 Q) c0).
Proof.
  intros d e f P Q.
  apply (inst pure_phase_intensity quarter four Hrs4 Hrsi4 [ikernel d; ikernel e] [ikernel f] [P; Q]);
    repeat constructor; apply ikernel_unit.
Qed.

(* ---------------------------------------------------------------- Fourier projection *)
Lemma C_eq_dec (a b : C) : {a = b} + {a <> b}.
Proof. decide equality; apply Qc_eq_dec. Qed.

Definition iamp (a : C) : Prop := a = c0 \/ a = c1.
Definition iph (z : C) : C := if C_eq_dec (cmul z (cconj z)) c1 then z else c1.
Definition iisq (s : C) : C := if C_eq_dec s c0 then c0 else c1.

Lemma c1_ne_c0 : c1 <> c0.
Proof. intro H. apply (f_equal (fun z => this (fst z))) in H. vm_compute in H. discriminate H. Qed.

Lemma cconj_c0 : cconj c0 = c0.
Proof. unfold cconj, c0. cbn [fst snd]. f_equal; try ring. Qed.
Lemma cconj_c1 : cconj c1 = c1.
Proof. unfold cconj, c1. cbn [fst snd]. f_equal; try ring. Qed.

Lemma iamp_real a : iamp a -> cconj a = a.
Proof. intros [H|H]; subst a; [apply cconj_c0 | apply cconj_c1]. Qed.

Lemma iph_unit z : abs2 cmul cconj (iph z) = c1.
Proof.
  unfold iph. destruct (C_eq_dec (cmul z (cconj z)) c1) as [e|n]; [exact e|].
  unfold abs2. rewrite cconj_c1. ring.
Qed.

Lemma iph_amp a u : iamp a -> abs2 cmul cconj u = c1 -> cmul a (iph (cmul a u)) = cmul a u.
Proof.
  intros [H|H] Hu; subst a; [ring|].
  replace (cmul c1 u) with u by ring. unfold iph.
  destruct (C_eq_dec (cmul u (cconj u)) c1) as [e|n]; [ring | contradiction].
Qed.

Lemma iisq_amp a : iamp a -> cmul (cmul a (iisq (cmul a a))) a = a.
Proof.
  intros [H|H]; subst a; [ring|].
  replace (cmul c1 c1) with c1 by ring. unfold iisq.
  destruct (C_eq_dec c1 c0) as [e|n]; [exfalso; exact (c1_ne_c0 e) | ring].
Qed.

Lemma C16i_fourier_projection : forall (a psi : nat -> nat -> C),
  amp2 C 4 4 iamp a ->
  eq2 C 4 4 (detector_forward c0 cadd cmul cconj 4 w4 4 w4 quarter
               [fourier_projection c0 cadd cmul 4 w4 quarter 4 w4 quarter quarter four iph a psi])
            (fun n1 n2 => cmul (a n1 n2) (a n1 n2))
  /\ eq2 C 4 4 (fourier_projection c0 cadd cmul 4 w4 quarter 4 w4 quarter quarter four iph a
                  (fourier_projection c0 cadd cmul 4 w4 quarter 4 w4 quarter quarter four iph a psi))
               (fourier_projection c0 cadd cmul 4 w4 quarter 4 w4 quarter quarter four iph a psi).
Proof.
  intros a psi Ha. split.
  - exact (inst fourier_projection_amp quarter four Hrs4 Hrsi4 iph iamp iamp_real iph_unit iph_amp a psi Ha).
  - exact (inst fourier_projection_idem quarter four Hrs4 Hrsi4 iph iamp iamp_real iph_unit iph_amp a psi Ha).
Qed.

(* one mode whose ortho-normalised spectrum is 1 at every frequency *)
Definition iflat : nat -> nat -> C :=
  idft2_ortho c0 cadd cmul 4 w4 quarter 4 w4 quarter four (fun _ _ => c1).

Lemma iflat_estimate k1 k2 : (k1 < 4)%nat -> (k2 < 4)%nat ->
  estimate_intensities c0 cadd cmul cconj 4 w4 4 w4 quarter [iflat] k1 k2 = c1.
Proof.
  intros H1 H2. rewrite (inst estimate_intensities_eq quarter four Hrs4 Hrsi4). cbn [map FinSum.suml].
  unfold iflat. rewrite (inst dft2_ortho_idft2_ortho quarter four Hrs4 Hrsi4 (fun _ _ => c1) k1 k2 H1 H2).
  unfold abs2. rewrite cconj_c1. ring.
Qed.

Lemma iflat_isq_ok : isq_ok C c0 c1 cadd cmul cconj 4 w4 4 w4 quarter iisq [iflat].
Proof.
  intros k1 k2 H1 H2. cbv zeta. rewrite (iflat_estimate k1 k2 H1 H2). unfold iisq.
  destruct (C_eq_dec c1 c0) as [e|n]; [exfalso; exact (c1_ne_c0 e)|]. split; [ring | apply cconj_c1].
Qed.

Lemma C16i_fourier_projection_mixed : forall (a : nat -> nat -> C),
  amp2 C 4 4 iamp a ->
  isq_ok C c0 c1 cadd cmul cconj 4 w4 4 w4 quarter iisq [iflat]
  /\ eq2 C 4 4 (detector_forward c0 cadd cmul cconj 4 w4 4 w4 quarter
                  (fourier_projection_mixed c0 cadd cmul cconj 4 w4 quarter 4 w4 quarter quarter four iisq c0 a [iflat]))
               (fun n1 n2 => cmul (a n1 n2) (a n1 n2)).
Proof.
  intros a Ha. split; [exact iflat_isq_ok|].
  exact (inst fourier_projection_mixed_amp quarter four Hrs4 Hrsi4 iph iamp iamp_real iph_unit iph_amp iisq a [iflat] Ha iflat_isq_ok).
Qed.

Lemma C16i_fourier_projection_mixed_idem : forall (a : nat -> nat -> C),
  amp2 C 4 4 iamp a ->
  Forall2 (eq2 C 4 4)
    (fourier_projection_mixed c0 cadd cmul cconj 4 w4 quarter 4 w4 quarter quarter four iisq c0 a
       (fourier_projection_mixed c0 cadd cmul cconj 4 w4 quarter 4 w4 quarter quarter four iisq c0 a [iflat]))
    (fourier_projection_mixed c0 cadd cmul cconj 4 w4 quarter 4 w4 quarter quarter four iisq c0 a [iflat]).
Proof.
  intros a Ha.
  exact (inst fourier_projection_mixed_idem quarter four Hrs4 Hrsi4 iph iamp iamp_real iph_unit iph_amp iisq iisq_amp a [iflat] Ha iflat_isq_ok).
Qed.

(* ---------------------------------------------------------------- the unrepaired corner-centring
   The pinned commit corner-centres the measured amplitudes with fftshift; the detector applies
   fftshift again, and for an odd axis two fftshifts are a roll by N - 1 (one pixel), not the
   identity: on a 3 x 3 grid the value measured at (0,0) is predicted at a different pixel. *)
Lemma C16i_double_fftshift_odd :
  exists a : nat -> nat -> nat, fftshift2 3 3 (fftshift2 3 3 a) 0 0 <> a 0 0.
Proof. exists (fun i j => i + 3 * j). vm_compute. discriminate. Qed.

Lemma C16i_double_fftshift_even (a : nat -> nat -> nat) n1 n2 :
  n1 < 4 -> n2 < 6 -> fftshift2 4 6 (fftshift2 4 6 a) n1 n2 = a n1 n2.
Proof.
  intros H1 H2.
  do 4 (destruct n1 as [|n1]; [do 6 (destruct n2 as [|n2]; [reflexivity|]); lia|]). lia.
Qed.
