(* C01 / C14 — the round trip: decoding the group written for a well-formed value gives its
   normal form (pruned by the load-time skip lists), by nested induction on values. *)
From QV.lib Require Import Prelude.
From QV.model Require Import C01_Model.
From QV.proof Require Import C01_Proofs_Base C01_Proofs_Enc C01_Proofs_Dec C01_Proofs_Struct.
From Coq Require Import String Ascii.
Local Open Scope string_scope.
Local Open Scope list_scope.

(* ------------------------------------------------------------------ pruning facts *)
Definition is_obj (v : value) : bool := match v with VObj _ _ _ => true | _ => false end.

Lemma prune_load_nonobj sn st v : is_obj v = false -> prune_load sn st v = v.
Proof. destruct v; cbn; intros; congruence. Qed.

Lemma is_obj_norm v : is_obj (norm v) = is_obj v.
Proof. destruct v as [| | | | | |dt n| | | | | | | | | | |]; try reflexivity. destruct n; reflexivity. Qed.

Lemma is_obj_SGrp v : is_obj v = true -> sclass_of v = SGrp.
Proof. destruct v; cbn; intros; congruence. Qed.

Lemma lts_attr st v : sclass_of v = SAttr -> load_type_skipped st v = false.
Proof. unfold load_type_skipped. intros ->. reflexivity. Qed.

Lemma lts_arr st v : sclass_of v = SArr -> load_type_skipped st v = mem (exact_ty v) st.
Proof. unfold load_type_skipped. intros H. rewrite H. destruct v; cbn in H; try discriminate; reflexivity. Qed.

Lemma lts_norm st v : load_type_skipped st (norm v) = load_type_skipped st v.
Proof. destruct v as [| | | | | |dt n| | | | | | | | | | |]; try reflexivity. destruct n; reflexivity. Qed.

Lemma exact_ty_norm_grp v : sclass_of v = SGrp -> exact_ty (norm v) = exact_ty v.
Proof. destruct v; cbn; intros; try discriminate; reflexivity. Qed.

Lemma lts_grp_nonrng st v :
  sclass_of v = SGrp -> (forall bg s, v <> VRng bg s) -> load_type_skipped st v = mem (exact_ty v) st.
Proof.
  unfold load_type_skipped. intros H Hr. rewrite H. destruct v; try reflexivity. exfalso. exact (Hr _ _ eq_refl).
Qed.

Lemma lts_nil v : load_type_skipped [] v = false.
Proof. unfold load_type_skipped. destruct (sclass_of v); [reflexivity | destruct v; reflexivity | destruct v; reflexivity]. Qed.

Lemma prune_load_nil v : prune_load [] [] v = v.
Proof.
  induction v using value_ind'; try reflexivity.
  cbn [prune_load]. f_equal.
  induction l as [|[k x] r IH]; [reflexivity|].
  inversion H as [|? ? Hx Hr]; subst. cbn [snd] in Hx.
  cbn [flat_map]. rewrite (IH Hr), lts_nil, Hx. reflexivity.
Qed.

(* ------------------------------------------------------------------ normal form of an object, as three loops *)
Definition FA (sn : list string) (es : list (string * value)) : list (string * value) :=
  flat_map (fun kv => if is_class SAttr (snd kv) && negb (obj_meta_attr (fst kv) || mem (fst kv) sn)
                      then [(fst kv, norm (snd kv))] else []) es.
Definition FR (sn st : list string) (es : list (string * value)) : list (string * value) :=
  flat_map (fun kv => if is_class SArr (snd kv)
                      then (if mem (fst kv) sn then []
                            else if mem (exact_ty (norm (snd kv))) st then [] else [(fst kv, norm (snd kv))])
                      else []) es.
Definition FG (sn st : list string) (es : list (string * value)) : list (string * value) :=
  flat_map (fun kv => if is_class SGrp (snd kv)
                      then (if mem (fst kv) sn || load_type_skipped st (snd kv) then []
                            else [(fst kv, prune_load sn st (norm (snd kv)))])
                      else []) es.

Lemma prune_norm_obj sn st m c es :
  Forall kok (ekeys es) ->
  prune_load sn st (norm (VObj m c es)) = VObj m c (FA sn es ++ FR sn st es ++ FG sn st es).
Proof.
  intros Hk. rewrite Forall_forall in Hk. cbn [norm prune_load]. f_equal. unfold reorder. rewrite !flat_map_app.
  assert (Hin : forall k v, In (k, v) es -> kok k).
  { intros k v Hi. apply Hk. unfold ekeys. apply in_map_iff. exists (k, v). split; [reflexivity | exact Hi]. }
  f_equal; [|f_equal]; rewrite flat_map_filter_map; apply flat_map_ext_in; intros [k v] Hi; cbn [fst snd];
    rewrite is_class_norm.
  - destruct (is_class SAttr v) eqn:Ec; [|reflexivity]. apply is_class_sclass in Ec.
    rewrite (kok_obj_meta k (Hin k v Hi)). cbn [orb andb].
    rewrite lts_attr by (rewrite sclass_norm; exact Ec). rewrite orb_false_r.
    rewrite prune_load_nonobj; [destruct (mem k sn); reflexivity|].
    destruct (is_obj (norm v)) eqn:Eo; [|reflexivity]. apply is_obj_SGrp in Eo. rewrite sclass_norm in Eo. congruence.
  - destruct (is_class SArr v) eqn:Ec; [|reflexivity]. apply is_class_sclass in Ec.
    rewrite lts_arr by (rewrite sclass_norm; exact Ec).
    rewrite prune_load_nonobj; [destruct (mem k sn), (mem (exact_ty (norm v)) st); reflexivity|].
    destruct (is_obj (norm v)) eqn:Eo; [|reflexivity]. apply is_obj_SGrp in Eo. rewrite sclass_norm in Eo. congruence.
  - destruct (is_class SGrp v) eqn:Ec; [|reflexivity]. rewrite lts_norm. reflexivity.
Qed.

(* ------------------------------------------------------------------ decoding an object group *)
Definition extra_ok (extra : smap jval) : Prop :=
  Forall (fun kj => obj_meta_attr (fst kj) = true /\ plain (fst kj)) extra.

Lemma decode_obj_struct sn st m c es extra :
  NoDup (ekeys es) -> Forall kok (ekeys es) -> extra_ok extra ->
  (forall k v, In (k, v) es -> is_class SArr v = true -> array_value (stored v) = norm v) ->
  (forall k v, In (k, v) es -> is_class SGrp v = true ->
               obj_sub st (decode_obj sn st) decode_container (subg v) =
               if load_type_skipped st v then RSkip else RVal (prune_load sn st (norm v))) ->
  decode_obj sn st (hgroup ("_autoserialize", autoserialize_meta m c) es extra) =
  RVal (prune_load sn st (norm (VObj m c es))).
Proof.
  intros Hnd Hk Hex Harr Hgrp. unfold hgroup. rewrite decode_obj_eq.
  change (class_of (("_autoserialize", autoserialize_meta m c) :: n_attrs (pieces es) ++ extra)) with (Some (m, c)).
  pose proof (kok_Forall_plain _ Hk) as Hpl.
  set (a := ("_autoserialize", autoserialize_meta m c) :: n_attrs (pieces es) ++ extra).
  (* sub-groups *)
  rewrite (group_loop_pieces _ _
             (fun k v => if mem k sn || load_type_skipped st v then [] else [(k, prune_load sn st (norm v))])).
  2:{ intros k v Hi Ec Es. rewrite (Hgrp k v Hi Ec), Es. cbn [orb].
      destruct (load_type_skipped st v); [left; split; reflexivity | right; eexists; split; reflexivity]. }
  2:{ intros k v Hi Ec Es. rewrite Es. reflexivity. }
  fold (FG sn st es).
  (* attributes *)
  assert (HFA : flat_map (attr_step a (fun k => obj_meta_attr k || mem k sn)) a = FA sn es).
  { unfold a at 2. cbn [flat_map]. rewrite flat_map_app.
    cbn [attr_step obj_meta_attr String.eqb Ascii.eqb Bool.eqb orb app].
    rewrite (flat_map_nil _ extra).
    2:{ intros [k j] Hi. unfold extra_ok in Hex. rewrite Forall_forall in Hex. destruct (Hex _ Hi) as [Hm _].
        cbn [fst] in Hm. cbn [attr_step]. rewrite Hm. reflexivity. }
    rewrite app_nil_r. apply attr_loop_pieces.
    - intros k v Hi _. unfold a.
      change (("_autoserialize", autoserialize_meta m c) :: n_attrs (pieces es) ++ extra)
        with ([("_autoserialize", autoserialize_meta m c)] ++ n_attrs (pieces es) ++ extra).
      apply path_flag_in_pieces; [exact Hnd | exact Hpl | exact Hi | |].
      + constructor; [reflexivity | constructor].
      + unfold extra_ok in Hex. eapply Forall_impl; [|exact Hex]. intros kj [_ H]. exact H.
    - intros k v _. unfold obj_meta_attr. rewrite ends_with_app. rewrite !orb_true_r. reflexivity. }
  rewrite HFA.
  (* arrays *)
  assert (HFR : flat_map (arr_step sn st) (n_arrays (pieces es)) = FR sn st es).
  { rewrite arr_loop_pieces. apply flat_map_ext_in. intros [k v] Hi. cbn [fst snd].
    destruct (is_class SArr v) eqn:Ec; [|reflexivity]. cbn [arr_step]. rewrite (Harr k v Hi Ec). reflexivity. }
  rewrite HFR.
  (* delattr loop: nothing left to delete *)
  rewrite prune_norm_obj by exact Hk. do 2 f_equal.
  rewrite !filter_app. f_equal; [|f_equal]; apply filter_flat_map_id; intros [k v] y _; cbn [fst snd].
  - destruct (is_class SAttr v); [|intros []]. cbn [andb]. destruct (obj_meta_attr k); [intros []|].
    cbn [orb]. destruct (mem k sn) eqn:Es; [intros []|]. intros [<- | []]. cbn [fst]. rewrite Es. reflexivity.
  - destruct (is_class SArr v); [|intros []]. destruct (mem k sn) eqn:Es; [intros []|].
    destruct (mem _ st); [intros []|]. intros [<- | []]. cbn [fst]. rewrite Es. reflexivity.
  - destruct (is_class SGrp v); [|intros []]. destruct (mem k sn) eqn:Es; [intros []|]. cbn [orb].
    destruct (load_type_skipped st v); [intros []|]. intros [<- | []]. cbn [fst]. rewrite Es. reflexivity.
Qed.

(* ------------------------------------------------------------------ decoding a sequence group *)
Lemma map_snd_ientries i l : map snd (ientries i l) = l.
Proof. revert i. induction l as [|v r IH]; intros i; cbn [ientries map snd]; [reflexivity|]. rewrite IH. reflexivity. Qed.

Lemma In_ientries_value i l k v : In (k, v) (ientries i l) -> In v l.
Proof. intros H. rewrite <- (map_snd_ientries i l). apply in_map_iff. exists (k, v). split; [reflexivity | exact H]. Qed.

Lemma In_ientries_key i l k v : In (k, v) (ientries i l) -> exists j, k = str_of j /\ j < i + List.length l.
Proof. intros H. apply In_ientries in H. destruct H as [j (Hj & Hk & _)]. exists (i + j). split; [exact Hk | lia]. Qed.

Lemma map_items_norm (f : string -> res) i l :
  (forall k v, In (k, v) (ientries i l) -> f k = RVal (norm v)) ->
  map (fun j => f (str_of j)) (seq i (List.length l)) = map RVal (map norm l).
Proof.
  revert i. induction l as [|v r IH]; intros i H; cbn [List.length seq map]; [reflexivity|].
  rewrite (H (str_of i) v) by (left; reflexivity). f_equal. apply IH.
  intros k w Hi. apply H. right. exact Hi.
Qed.

Lemma seq_items_struct ct l :
  (forall v, In v l -> is_class SArr v = true -> array_raw (stored v) = norm v) ->
  (forall v, In v l -> is_class SGrp v = true ->
             cont_sub (decode_obj [] []) decode_container (subg v) = RVal (norm v)) ->
  let es := ientries 0 l in
  seq_items (("_container_type", JStr ct) :: n_attrs (pieces es) ++ []) (n_arrays (pieces es)) (n_groups (pieces es))
  = Some (map norm l).
Proof.
  intros Harr Hgrp es. rewrite app_nil_r. unfold seq_items.
  pose proof (ientries_NoDup 0 l) as Hnd. pose proof (ientries_plain 0 l) as Hpl. fold es in Hnd, Hpl.
  set (a := ("_container_type", JStr ct) :: n_attrs (pieces es)).
  assert (Hse : lookup "_sequence_encoding" a = None).
  { unfold a. lk. apply (clean_pieces_items 0 l). reflexivity. }
  rewrite Hse. cbn [jstr_or String.eqb].
  set (dg := map_groups _ _ _).
  (* every entry is found under its index *)
  assert (Hitem : forall k v, In (k, v) es -> item_at a (n_arrays (pieces es)) dg k = RVal (norm v)).
  { intros k v Hi. destruct (pieces_lookups es k v Hnd Hpl Hi) as (L1 & L2 & L3 & L4).
    assert (Hkc : k <> "_container_type").
    { destruct (In_ientries_key _ _ _ _ Hi) as [j [-> _]]. apply str_of_not_reserved. reflexivity. }
    unfold item_at, a. rewrite lookup_cons_ne by exact Hkc. rewrite L1, L3.
    destruct (is_class_cases v) as [(E1 & E2 & E3)|[(E1 & E2 & E3)|(E1 & E2 & E3)]]; rewrite E1, ?E2.
    - f_equal. apply attr_value_norm; [apply is_class_sclass; exact E1|].
      pose proof (path_flag_in_pieces [("_container_type", JStr ct)] [] es k v Hnd Hpl Hi) as Hpf.
      rewrite app_nil_r in Hpf. apply Hpf; [constructor; [reflexivity | constructor] | constructor].
    - f_equal. apply Harr; [exact (In_ientries_value _ _ _ _ Hi) | exact E2].
    - unfold dg. rewrite lookup_map_groups, L4, E3. apply Hgrp; [exact (In_ientries_value _ _ _ _ Hi) | exact E3]. }
  (* the length rule *)
  assert (Hlen : seq_len (keys a ++ keys (n_arrays (pieces es)) ++ keys (n_groups (pieces es))) = List.length l).
  { apply Nat.le_antisymm.
    - apply seq_len_le. intros k i Hin Hidx.
      assert (Hk : In k (ekeys es) \/ idx_of k = None).
      { rewrite !in_app_iff in Hin. destruct Hin as [Hin|[Hin|Hin]].
        - unfold a in Hin. cbn [keys map fst In] in Hin. destruct Hin as [<- | Hin]; [right; reflexivity|].
          apply pieces_attr_keys in Hin. destruct Hin as [k' [Hk' [-> | ->]]]; [left; exact Hk' | right; apply idx_of_flag].
        - left. apply pieces_array_keys. exact Hin.
        - left. apply pieces_group_keys. exact Hin. }
      destruct Hk as [Hk|Hk]; [|congruence].
      unfold es in Hk. rewrite ekeys_ientries in Hk. apply in_map_iff in Hk. destruct Hk as [j [<- Hj]].
      rewrite idx_of_str_of in Hidx. injection Hidx as <-. apply in_seq in Hj. lia.
    - destruct (List.length l) as [|n] eqn:En; [lia|].
      destruct (nth_error l n) as [v|] eqn:Ev; [|apply nth_error_None in Ev; lia].
      assert (Hi : In (str_of n, v) es).
      { apply In_ientries. exists n. split; [lia|]. split; [reflexivity | exact Ev]. }
      destruct (pieces_lookups es _ v Hnd Hpl Hi) as (L1 & _ & L3 & L4).
      apply (seq_len_ge _ (str_of n) n); [|apply idx_of_str_of].
      rewrite !in_app_iff.
      destruct (is_class_cases v) as [(E1 & E2 & E3)|[(E1 & E2 & E3)|(E1 & E2 & E3)]].
      + left. unfold a. cbn [keys map fst]. right. rewrite E1 in L1. exact (lookup_some_in _ _ _ L1).
      + right. left. rewrite E2 in L3. exact (lookup_some_in _ _ _ L3).
      + right. right. rewrite E3 in L4. exact (lookup_some_in _ _ _ L4). }
  rewrite Hlen.
  assert (Hmap : map (fun i => item_at a (n_arrays (pieces es)) dg (str_of i)) (seq 0 (List.length l))
                 = map RVal (map norm l)).
  { apply (map_items_norm (fun k => item_at a (n_arrays (pieces es)) dg k)). exact Hitem. }
  rewrite Hmap. apply collect_map_RVal.
Qed.

(* the fast path *)
Lemma numeric_seq_nonempty l r ns : numeric_seq l = Some (r, ns) -> ns <> [].
Proof.
  unfold numeric_seq. destruct l as [|v l']; [discriminate|].
  destruct (all_numeric (v :: l')) as [cl|] eqn:E; [|discriminate]. intros H. injection H as _ <-.
  cbn [all_numeric] in E. destruct (num_cat v); [|discriminate]. destruct (all_numeric l'); [|discriminate].
  injection E as <-. discriminate.
Qed.

Lemma seq_items_fast ct r ns :
  ns <> [] ->
  seq_items (n_attrs (fast_group ct r ns)) (n_arrays (fast_group ct r ns)) (n_groups (fast_group ct r ns))
  = Some (map of_num ns).
Proof.
  intros Hne. unfold seq_items, fast_group. cbn [n_attrs n_arrays n_groups]. lk.
  cbn [jstr_or]. rewrite String.eqb_refl. lk.
  unfold write_ndarray. cbn [a_shape a_dtype a_data].
  assert (Hz : has_zero [Z.of_nat (List.length ns)] = false).
  { unfold has_zero. cbn [existsb]. rewrite orb_false_r. apply Z.eqb_neq. destruct ns; [congruence | cbn [List.length]; lia]. }
  rewrite Hz. unfold array_to_np. cbn [s_arr a_shape a_dtype a_data]. rewrite Hz. reflexivity.
Qed.

Definition seq_ctor (ct : string) (vs : list value) : value :=
  if String.eqb ct "list" then VList vs else if String.eqb ct "tuple" then VTuple vs else VSet vs.

Lemma decode_seq_group ct l :
  (String.eqb ct "list" || String.eqb ct "tuple" || String.eqb ct "set")%bool = true ->
  (forall v, In v l -> is_class SArr v = true -> array_raw (stored v) = norm v) ->
  (forall v, In v l -> is_class SGrp v = true ->
             cont_sub (decode_obj [] []) decode_container (subg v) = RVal (norm v)) ->
  decode_container (match numeric_seq l with
                    | Some (r, ns) => fast_group ct r ns
                    | None => hgroup ("_container_type", JStr ct) (ientries 0 l) [] end)
  = RVal (seq_ctor ct (norm_seq norm l)).
Proof.
  intros Hct Harr Hgrp. unfold norm_seq. destruct (numeric_seq l) as [[r ns]|] eqn:En.
  - pose proof (seq_items_fast ct r ns (numeric_seq_nonempty _ _ _ En)) as Hs.
    unfold fast_group in *. cbn [n_attrs n_arrays n_groups] in Hs. rewrite decode_container_eq. lk.
    rewrite Hct, Hs. reflexivity.
  - unfold hgroup. rewrite decode_container_eq. lk. rewrite Hct.
    rewrite (seq_items_struct ct l Harr Hgrp). reflexivity.
Qed.

(* ------------------------------------------------------------------ decoding a dict group *)
Lemma filter_map_flat_map {A B} (p : B -> bool) (g : A -> B) l :
  filter p (map g l) = flat_map (fun x => if p (g x) then [g x] else []) l.
Proof. induction l as [|x l IH]; cbn [map filter flat_map]; [reflexivity|]. rewrite IH. destruct (p (g x)); reflexivity. Qed.

Lemma map_as_flat_map {A B} (f : A -> B) l : map f l = flat_map (fun x => [f x]) l.
Proof. induction l as [|x l IH]; cbn [map flat_map]; [reflexivity|]. rewrite IH. reflexivity. Qed.

Lemma decode_dict_group l :
  NoDup (ekeys l) -> Forall kok (ekeys l) ->
  (forall k v, In (k, v) l -> is_class SArr v = true -> array_raw (stored v) = norm v) ->
  (forall k v, In (k, v) l -> is_class SGrp v = true ->
               cont_sub (decode_obj [] []) decode_container (subg v) = RVal (norm v)) ->
  decode_container (hgroup ("_container_type", JStr "dict") l []) = RVal (norm (VDict l)).
Proof.
  intros Hnd Hk Harr Hgrp. unfold hgroup. rewrite app_nil_r. rewrite decode_container_eq. lk.
  cbn [String.eqb Ascii.eqb Bool.eqb orb].
  pose proof (kok_Forall_plain _ Hk) as Hpl.
  assert (Hin : forall k v, In (k, v) l -> kok k).
  { intros k v Hi. rewrite Forall_forall in Hk. apply Hk. unfold ekeys. apply in_map_iff. exists (k, v). split; [reflexivity | exact Hi]. }
  set (a := ("_container_type", JStr "dict") :: n_attrs (pieces l)).
  rewrite (group_loop_pieces _ _ (fun k v => [(k, norm v)])).
  2:{ intros k v Hi Ec _. right. exists (norm v). split; [apply (Hgrp k v Hi Ec) | reflexivity]. }
  2:{ intros k v _ _ Hf. discriminate Hf. }
  cbn [norm]. do 2 f_equal. unfold reorder. f_equal; [|f_equal].
  - unfold a at 2. cbn [flat_map attr_step dict_meta_attr String.eqb Ascii.eqb Bool.eqb orb app].
    rewrite (attr_loop_pieces a dict_meta_attr l).
    + rewrite filter_map_flat_map. apply flat_map_ext_in. intros [k v] Hi. cbn [fst snd].
      rewrite is_class_norm, (kok_dict_meta k (Hin k v Hi)). cbn [negb]. rewrite andb_true_r. reflexivity.
    + intros k v Hi _. unfold a.
      pose proof (path_flag_in_pieces [("_container_type", JStr "dict")] [] l k v Hnd Hpl Hi) as Hpf.
      rewrite app_nil_r in Hpf. apply Hpf; [constructor; [reflexivity | constructor] | constructor].
    + intros k v _. unfold dict_meta_attr. rewrite ends_with_app. rewrite !orb_true_r. reflexivity.
  - rewrite map_as_flat_map, arr_loop_pieces, filter_map_flat_map. apply flat_map_ext_in. intros [k v] Hi. cbn [fst snd].
    rewrite is_class_norm. destruct (is_class SArr v) eqn:Ec; [|reflexivity]. rewrite (Harr k v Hi Ec). reflexivity.
  - rewrite filter_map_flat_map. apply flat_map_ext_in. intros [k v] Hi. cbn [fst snd].
    rewrite is_class_norm. reflexivity.
Qed.
