(* C03 — Dataset.__getitem__, continued: step scaling of the sampling, and the theorems
   about the dataset that indexing returns. *)
From Coq Require Import QArith String.
From QV.lib Require Import Prelude C03_Slice.
From QV.model Require Import C03_Model.
From QV.proof Require Import C03_Proofs_Base C03_Proofs_Getitem.
From Coq Require Import List.
Import ListNotations.
Local Close Scope Q_scope.
Local Open Scope list_scope.

(* ------------------------------------------------------------------ index_of *)
Lemma index_of_In x l : In x l -> index_of x l < length l /\ nth (index_of x l) l 0 = x.
Proof.
  induction l as [|y r IH]; [contradiction|]. cbn [index_of length].
  destruct (x =? y) eqn:E; intros H.
  - apply Nat.eqb_eq in E. subst. split; [lia|reflexivity].
  - destruct H as [H|H]; [subst; rewrite Nat.eqb_refl in E; discriminate|].
    destruct (IH H) as [H1 H2]. split; [lia|exact H2].
Qed.

Lemma index_of_nth l j : NoDup l -> j < length l -> index_of (nth j l 0) l = j.
Proof.
  intros Hn. revert j. induction Hn as [|y r Hy _ IH]; intros j Hj; [cbn in Hj; lia|].
  destruct j as [|j]; cbn [nth index_of]; [rewrite Nat.eqb_refl; reflexivity|].
  cbn [length] in Hj.
  destruct (nth j r 0 =? y) eqn:E.
  - apply Nat.eqb_eq in E. exfalso. apply Hy. rewrite <- E. apply nth_In. lia.
  - rewrite IH by lia. reflexivity.
Qed.

(* ------------------------------------------------------------------ indexed (l ++ [x]) *)
Lemma combine_seq_snoc (A : Type) (l : list A) x k :
  combine (seq k (length (l ++ [x]))) (l ++ [x]) = combine (seq k (length l)) l ++ [(k + length l, x)].
Proof.
  revert k. induction l as [|y r IH]; intros k; cbn [app length seq combine].
  - rewrite Nat.add_0_r. reflexivity.
  - rewrite IH. replace (S k + length r) with (k + S (length r)) by lia. reflexivity.
Qed.

Lemma stepq_snoc l x k :
  k <> length l -> stepq (nth k (l ++ [x]) full) = stepq (nth k l full).
Proof.
  intros H. destruct (Nat.lt_ge_cases k (length l)) as [Hl|Hl].
  - rewrite app_nth1 by exact Hl. reflexivity.
  - rewrite !nth_overflow; [reflexivity|lia|rewrite app_length; cbn [length]; lia].
Qed.

(* ------------------------------------------------------------------ scale_steps *)
Local Open Scope Q_scope.

Lemma scale_steps_spec ix kept samp0 :
  NoDup kept -> length samp0 = length kept ->
  length (scale_steps ix kept samp0) = length kept /\
  forall j, (j < length kept)%nat ->
    nth j (scale_steps ix kept samp0) 0 == nth j samp0 0 * inject_Z (stepq (nth (nth j kept 0%nat) ix full)).
Proof.
  intros Hnd Hlen. unfold scale_steps, indexed.
  induction ix as [|x l IH] using rev_ind.
  - cbn [length seq combine fold_left]. split; [exact Hlen|]. intros j Hj.
    assert (E : nth (nth j kept 0%nat) [] full = full) by (destruct (nth j kept 0%nat); reflexivity).
    rewrite E. change (inject_Z (stepq full)) with 1. ring.
  - rewrite combine_seq_snoc, fold_left_app. cbn [fold_left Nat.add].
    destruct IH as [IHl IHv].
    set (sa := fold_left _ (combine (seq 0 (length l)) l) samp0) in *.
    set (p := length l).
    cbn [fst snd].
    (* the positions other than p keep their factor *)
    assert (Hother : forall j, (j < length kept)%nat -> nth j kept 0%nat <> p ->
              nth j sa 0 == nth j samp0 0 * inject_Z (stepq (nth (nth j kept 0%nat) (l ++ [x]) full))).
    { intros j Hj Hne. rewrite stepq_snoc by exact Hne. apply IHv. exact Hj. }
    (* at position p the old factor is 1 *)
    assert (Hat : forall j, (j < length kept)%nat -> nth j kept 0%nat = p -> nth j sa 0 == nth j samp0 0).
    { intros j Hj He. rewrite (IHv j Hj), He. unfold p. rewrite (@nth_overflow index l (length l) full) by lia.
      change (inject_Z (stepq full)) with 1. ring. }
    assert (Hx : forall j, nth j kept 0%nat = p -> nth (nth j kept 0%nat) (l ++ [x]) full = x).
    { intros j He. rewrite He. unfold p. apply nth_app_new. }
    (* the untouched case, used several times *)
    assert (Hsame : stepq x = 1%Z \/ ~ In p kept ->
              length sa = length kept /\
              forall j, (j < length kept)%nat ->
                nth j sa 0 == nth j samp0 0 * inject_Z (stepq (nth (nth j kept 0%nat) (l ++ [x]) full))).
    { intros Hc. split; [exact IHl|]. intros j Hj.
      destruct (Nat.eq_dec (nth j kept 0%nat) p) as [He|Hne]; [|apply Hother; assumption].
      destruct Hc as [Hc|Hc].
      - rewrite (Hx j He), Hc, (Hat j Hj He). change (inject_Z 1) with 1. ring.
      - exfalso. apply Hc. rewrite <- He. apply nth_In. exact Hj. }
    destruct x as [k|a b c|li|]; try (apply Hsame; left; reflexivity).
    destruct c as [c|]; [|apply Hsame; left; reflexivity].
    destruct (c =? 1)%Z eqn:Ec; [apply Hsame; left; cbn [stepq]; lia|].
    destruct (existsb (Nat.eqb p) kept) eqn:Ep.
    2:{ apply Hsame. right. intros Hin. apply memb_In in Hin. unfold memb in Hin. congruence. }
    assert (Hin : In p kept) by (apply memb_In; exact Ep).
    destruct (index_of_In p kept Hin) as [Hj0 Hk0].
    set (j0 := index_of p kept) in *.
    split; [rewrite set_nth_length; exact IHl|].
    intros j Hj. destruct (Nat.eq_dec j j0) as [->|Hne].
    + rewrite nth_set_nth_eq by lia. rewrite (Hx j0 Hk0). cbn [stepq].
      rewrite (Hat j0 Hj0 Hk0). reflexivity.
    + rewrite nth_set_nth_neq by congruence. apply Hother; [exact Hj|].
      intros He. apply Hne. rewrite <- (index_of_nth kept j Hnd Hj), He. reflexivity.
Qed.
Local Close Scope Q_scope.

(* ------------------------------------------------------------------ steps of NumPy's axes *)
Lemma Forall2_nth (A B : Type) (R : A -> B -> Prop) l l' i d d' :
  Forall2 R l l' -> i < length l -> R (nth i l d) (nth i l' d').
Proof.
  intros H. revert i. induction H as [|x y l l' Hxy _ IH]; intros i Hi; [cbn in Hi; lia|].
  destruct i as [|i]; [exact Hxy|]. cbn [nth]. apply IH. cbn in Hi. lia.
Qed.

Lemma slice_axes_steps exl l k :
  Forall2 krel exl l ->
  Forall (fun a => k <= oax_src a /\ oax_step a = stepq (nth (oax_src a - k) exl full))
         (slice_axes (combine (seq k (length l)) l)).
Proof.
  intros H. revert k. induction H as [|x y exl l Hxy _ IH]; intros k; [constructor|].
  cbn [length seq combine slice_axes flat_map snd fst].
  fold (slice_axes (combine (seq (S k) (length l)) l)).
  assert (Htail : Forall (fun a => k <= oax_src a /\ oax_step a = stepq (nth (oax_src a - k) (x :: exl) full))
                         (slice_axes (combine (seq (S k) (length l)) l))).
  { eapply Forall_impl; [|apply (IH (S k))]. intros a [H1 H2]. split; [lia|].
    replace (oax_src a - k) with (S (oax_src a - S k)) by lia. exact H2. }
  destruct y as [i|st sp len|li]; cbn [app]; try exact Htail.
  constructor; [|exact Htail]. cbn [oax_src oax_step]. split; [lia|].
  rewrite Nat.sub_diag. cbn [nth]. destruct x; cbn [krel] in Hxy; try contradiction. exact Hxy.
Qed.

Lemma slice_axes_sub (l1 l : list (nat * nidx)) a :
  (forall q, In q l1 -> In q l) -> In a (slice_axes l1) -> In a (slice_axes l).
Proof.
  intros Hs H. unfold slice_axes in *. apply in_flat_map in H. destruct H as (q & Hq & Ha).
  apply in_flat_map. exists q. split; [apply Hs; exact Hq|exact Ha].
Qed.

Lemma np_axes_steps idx ex nix m :
  Forall2 krel ex nix ->
  Forall (fun a => oax_step a = stepq (nth (oax_src a) ex full)) (np_out_axes (separated idx) nix m).
Proof.
  intros K.
  assert (Hall : Forall (fun a => oax_step a = stepq (nth (oax_src a) ex full)) (slice_axes (indexed nix))).
  { eapply Forall_impl; [|apply (slice_axes_steps ex nix 0 K)]. intros a [_ H].
    rewrite Nat.sub_0_r in H. exact H. }
  unfold np_out_axes. destruct (existsb is_NL nix) eqn:EL; [|exact Hall].
  assert (Hb : oax_step (OBcast (first_pos is_NL nix) m)
               = stepq (nth (oax_src (OBcast (first_pos is_NL nix) m)) ex full)).
  { cbn [oax_step oax_src]. destruct (first_pos_hit _ is_NL nix (NI 0) EL) as [H1 H2].
    pose proof (Forall2_len _ _ _ _ _ K) as Hl.
    assert (Hk : krel (nth (first_pos is_NL nix) ex full) (nth (first_pos is_NL nix) nix (NI 0)))
      by (apply Forall2_nth; [exact K|lia]).
    destruct (nth (first_pos is_NL nix) nix (NI 0)); try discriminate.
    destruct (nth (first_pos is_NL nix) ex full); cbn [krel] in Hk; try contradiction. reflexivity. }
  rewrite Forall_forall in Hall.
  destruct (separated idx).
  - constructor; [exact Hb|]. apply Forall_forall. exact Hall.
  - apply Forall_app. split; [|constructor; [exact Hb|]]; apply Forall_forall; intros a Ha; apply Hall.
    + eapply slice_axes_sub; [|exact Ha]. intros q. apply In_firstn.
    + eapply slice_axes_sub; [|exact Ha]. intros q. apply In_skipn.
Qed.

Lemma np_axes_NoDup sep nix m : NoDup (map oax_src (np_out_axes sep nix m)).
Proof.
  unfold np_out_axes, indexed.
  destruct (existsb is_NL nix) eqn:EL; [|rewrite slice_axes_pos; apply pos_from_NoDup].
  set (fp := first_pos is_NL nix).
  assert (Hfp : ~ In fp (pos_from 0 is_NS nix)).
  { intros H. apply pos_from_ge in H. destruct H as (_ & _ & H). specialize (H (NI 0)).
    rewrite Nat.sub_0_r in H. destruct (first_pos_hit _ is_NL nix (NI 0) EL) as [_ H2]. fold fp in H2.
    destruct (nth fp nix (NI 0)); discriminate. }
  assert (Hc : NoDup (fp :: pos_from 0 is_NS nix)) by (constructor; [exact Hfp|apply pos_from_NoDup]).
  destruct sep.
  - cbn [map oax_src]. rewrite slice_axes_pos. exact Hc.
  - set (fa := first_pos (fun x => negb (is_NS x)) nix).
    pose proof (first_pos_le _ (fun x => negb (is_NS x)) nix) as Hfa. fold fa in Hfa.
    rewrite map_app. cbn [map oax_src].
    rewrite firstn_indexed, slice_axes_pos. rewrite skipn_indexed by exact Hfa. rewrite slice_axes_pos.
    eapply Permutation_NoDup; [apply Permutation_middle|].
    replace (0 + fa) with (0 + length (firstn fa nix)) by (rewrite firstn_length; lia).
    rewrite <- pos_from_app, firstn_skipn. exact Hc.
Qed.

(* ------------------------------------------------------------------ np_index, inverted *)
Lemma np_index_inv sh fl idx v :
  np_index sh fl idx = Ok v ->
  exists ex nix0 m nix,
    np_expand (length sh) idx = Ok ex /\ mapM norm_one (combine ex sh) = Ok nix0 /\
    check_lists m nix0 sh = Ok nix /\
    np_axes v = np_out_axes (separated idx) nix m /\ np_shape v = map olen (np_axes v) /\
    np_flat v = map (fun o => nth (ravel sh (src_coord nix (np_axes v) o)) fl 0%Z) (coords (np_shape v)).
Proof.
  unfold np_index. intros H. inv_bind H. rename x into ex. inv_bind H. rename x into nix0.
  destruct (bcast (list_lens nix0)) as [m|]; [|discriminate].
  inv_bind H. rename x into nix. injection H as <-.
  exists ex, nix0, m, nix. cbn [np_axes np_shape np_flat]. repeat split; assumption.
Qed.

(* ------------------------------------------------------------------ the dataset that from_array builds *)
Lemma validate_ndinfo_list_inv l n ov : validate_ndinfo (NList l) n = Ok ov -> ov = l.
Proof. cbn. destruct (length l =? n); [|discriminate]. intros H. injection H as <-. reflexivity. Qed.
Lemma validate_units_list_inv l n ov : validate_units (UList l) n = Ok ov -> ov = l.
Proof. cbn. destruct (length l =? n); [|discriminate]. intros H. injection H as <-. reflexivity. Qed.

Lemma from_array_lists s1 c aid lo ls lu s' :
  from_array s1 c aid (Some (NList lo)) (Some (NList ls)) (Some (UList lu)) = Ok s' ->
  aid < length (arrs s1) -> cls_ok c (ndim (get_arr s1 aid)) ->
  length (dss s') = S (length (dss s1)) /\
  observe s' (length (dss s1)) = mkObs c (a_shape (get_arr s1 aid)) (a_flat (get_arr s1 aid)) lo ls lu.
Proof.
  intros H Ha Hc.
  destruct (from_array_spec _ _ _ _ _ _ _ H Ha)
    as (s2 & aid2 & ov & sv & uv & _ & _ & Hsame & _ & _ & _ & V1 & V2 & V3 & B).
  destruct (Hsame Hc) as [-> ->].
  apply validate_ndinfo_list_inv in V1. apply validate_ndinfo_list_inv in V2.
  apply validate_units_list_inv in V3. subst ov sv uv.
  destruct B as (_ & d & B2 & _ & B4 & B5 & B6 & B7 & B8 & B9 & _).
  split; [rewrite B2, app_length; cbn [length]; lia|].
  unfold observe, get_ds. rewrite B2, nth_app_new. rewrite B4, B5, B6, B7, B8, B9. reflexivity.
Qed.

Lemma registry_ok n : cls_ok (registry n) n.
Proof. unfold cls_ok. destruct n as [|[|[|[|[|n]]]]]; cbn; auto. Qed.

(* ------------------------------------------------------------------ __getitem__ *)
(* what indexing returns, in the code's own terms *)
Lemma getitem_spec s t idx s' :
  getitem s t idx = Ok s' -> Inv s -> t < length (dss s) ->
  let d := get_ds s t in
  let a := get_arr s (d_arr d) in
  let ix := code_expand (ndim a) idx in
  let kept := code_kept_axes idx ix in
  exists v, np_index (a_shape a) (a_flat a) idx = Ok v /\ np_scalar v = false /\
    length (dss s') = S (length (dss s)) /\
    observe s' (length (dss s)) =
    mkObs (if length (np_shape v) =? ndim a then d_cls d else registry (length (np_shape v)))
          (np_shape v) (np_flat v)
          (map (fun i => nth i (get_num s (d_origin d)) 0%Q) kept)
          (scale_steps ix kept (map (fun i => nth i (get_num s (d_sampling d)) 1%Q) kept))
          (map (fun i => nth i (get_str s (d_units d)) ""%string) kept).
Proof.
  intros H HI Ht d a ix kept. unfold getitem in H. cbn zeta in H. fold d a ix kept in H.
  inv_bind H. rename x into v. exists v. split; [exact Hx|].
  destruct (np_scalar v); [discriminate|]. split; [reflexivity|].
  pose proof (Inv_get _ _ HI Ht) as [_ (_ & _ & _ & C4)]. fold d a in C4.
  set (cls := if length (np_shape v) =? ndim a then d_cls d else registry (length (np_shape v))) in *.
  assert (Hcls : cls_ok cls (length (np_shape v))).
  { unfold cls. destruct (length (np_shape v) =? ndim a) eqn:E; [|apply registry_ok].
    apply Nat.eqb_eq in E. rewrite E. exact C4. }
  (* the new ndarray object: a copy or a view, same contents either way *)
  assert (Hnew : exists s1, (if np_copy v then alloc_fresh s (np_shape v) (np_flat v)
                             else alloc_view s (d_arr d) (np_shape v) (np_flat v)) = (s1, length (arrs s)) /\
                            dss s1 = dss s /\ length (arrs s) < length (arrs s1) /\
                            a_shape (get_arr s1 (length (arrs s))) = np_shape v /\
                            a_flat (get_arr s1 (length (arrs s))) = np_flat v).
  { destruct (np_copy v); unfold alloc_fresh, alloc_view, alloc_arr; eexists; (split; [reflexivity|]);
      cbn [dss arrs]; (split; [reflexivity|]); rewrite app_length; cbn [length]; (split; [lia|]);
      unfold get_arr; cbn [arrs]; rewrite nth_app_new; split; reflexivity. }
  destruct Hnew as (s1 & E1 & D1 & L1 & S1 & F1). rewrite E1 in H.
  assert (Hc1 : cls_ok cls (ndim (get_arr s1 (length (arrs s))))) by (unfold ndim; rewrite S1; exact Hcls).
  destruct (from_array_lists _ _ _ _ _ _ _ H L1 Hc1) as [HL HO].
  rewrite D1 in HL, HO. split; [exact HL|]. rewrite HO, S1, F1. reflexivity.
Qed.

Lemma Forall2_of_nth (A B : Type) (R : A -> B -> Prop) l l' d d' :
  length l = length l' -> (forall j, j < length l -> R (nth j l d) (nth j l' d')) -> Forall2 R l l'.
Proof.
  revert l'. induction l as [|x r IH]; intros l' Hl H; destruct l' as [|y r']; try discriminate; constructor.
  - apply (H 0). cbn. lia.
  - apply IH; [cbn in Hl; lia|]. intros j Hj. apply (H (S j)). cbn. lia.
Qed.

(* clause 2: the returned dataset holds exactly the NumPy-indexed data, and its axes carry the
   calibration of the source axes they run along, in NumPy's order, sampling times step *)
Theorem getitem_correct s t idx s' :
  getitem s t idx = Ok s' -> Inv s -> t < length (dss s) ->
  let src := observe s t in
  let res := observe s' (length (dss s)) in
  exists v, np_index (o_shape src) (o_flat src) idx = Ok v /\
    length (dss s') = S (length (dss s)) /\
    o_shape res = np_shape v /\ o_flat res = np_flat v /\
    o_origin res = map (fun ax => nth (oax_src ax) (o_origin src) 0%Q) (np_axes v) /\
    Forall2 Qeq (o_sampling res)
            (map (fun ax => (nth (oax_src ax) (o_sampling src) 1 * inject_Z (oax_step ax))%Q) (np_axes v)) /\
    o_units res = map (fun ax => nth (oax_src ax) (o_units src) ""%string) (np_axes v) /\
    o_cls res = (if length (np_shape v) =? length (o_shape src) then o_cls src
                 else registry (length (np_shape v))).
Proof.
  intros H HI Ht src res.
  destruct (getitem_spec s t idx s' H HI Ht) as (v & Hv & _ & HL & HO). cbn zeta in HO.
  exists v. unfold src. cbn [observe o_shape o_flat o_origin o_sampling o_units o_cls].
  split; [exact Hv|]. split; [exact HL|].
  unfold res. rewrite HO. cbn [o_shape o_flat o_origin o_sampling o_units o_cls].
  split; [reflexivity|]. split; [reflexivity|].
  destruct (np_index_inv _ _ _ _ Hv) as (ex & nix0 & m & nix & He & Hn0 & Hc & Hax & _).
  set (a := get_arr s (d_arr (get_ds s t))) in *.
  destruct (code_expand_np _ _ _ He) as (Hce & Hlen & Hne).
  fold (ndim a) in Hce. rewrite Hce.
  assert (K : Forall2 krel ex nix) by (eapply norm_kinds; eassumption).
  rewrite (kept_axes_np idx ex nix m K), <- Hax.
  split; [rewrite map_map; reflexivity|].
  split; [|split; [rewrite map_map; reflexivity|reflexivity]].
  (* sampling *)
  set (kept := map oax_src (np_axes v)).
  set (samp0 := map (fun i => nth i (get_num s (d_sampling (get_ds s t))) 1%Q) kept).
  assert (Hnd : NoDup kept) by (unfold kept; rewrite Hax; apply np_axes_NoDup).
  assert (Hl0 : length samp0 = length kept) by (unfold samp0; apply map_length).
  destruct (scale_steps_spec ex kept samp0 Hnd Hl0) as [SL SV].
  apply Forall2_of_nth with (d := 0%Q) (d' := 0%Q).
  - rewrite SL, map_length. unfold kept. apply map_length.
  - intros j Hj. rewrite SL in Hj. rewrite (SV j Hj).
    assert (Hj' : j < length (np_axes v)) by (unfold kept in Hj; rewrite map_length in Hj; exact Hj).
    pose proof (np_axes_steps idx ex nix m K) as HS. rewrite <- Hax in HS. rewrite Forall_forall in HS.
    set (ax := nth j (np_axes v) (OBcast 0 0)).
    assert (Hax_in : In ax (np_axes v)) by (apply nth_In; exact Hj').
    assert (E1 : nth j kept 0 = oax_src ax).
    { unfold kept. change 0 with (oax_src (OBcast 0 0)) at 1. apply map_nth. }
    assert (E2 : nth j samp0 0%Q = nth (oax_src ax) (get_num s (d_sampling (get_ds s t))) 1%Q).
    { unfold samp0. rewrite nth_indep with (d' := (fun i => nth i (get_num s (d_sampling (get_ds s t))) 1%Q) 0)
        by (rewrite map_length; exact Hj).
      rewrite (map_nth (fun i => nth i (get_num s (d_sampling (get_ds s t))) 1%Q)). rewrite E1. reflexivity. }
    assert (E3 : nth j (map (fun ax0 => (nth (oax_src ax0) (get_num s (d_sampling (get_ds s t))) 1 * inject_Z (oax_step ax0))%Q)
                            (np_axes v)) 0%Q
                 = (nth (oax_src ax) (get_num s (d_sampling (get_ds s t))) 1 * inject_Z (oax_step ax))%Q).
    { rewrite nth_indep with (d' := (fun ax0 => (nth (oax_src ax0) (get_num s (d_sampling (get_ds s t))) 1 * inject_Z (oax_step ax0))%Q) (OBcast 0 0))
        by (rewrite map_length; exact Hj').
      rewrite (map_nth (fun ax0 => (nth (oax_src ax0) (get_num s (d_sampling (get_ds s t))) 1 * inject_Z (oax_step ax0))%Q)).
      reflexivity. }
    rewrite E3, E2, E1, (HS ax Hax_in). reflexivity.
Qed.
