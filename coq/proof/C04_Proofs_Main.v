(* C04 — closed statements (no section variables left), proved from the section lemmas.  GENERATED together
   with props/C04_Properties.v from one list of statements. *)
From Coq Require Import ZArith List Bool Arith Lia Ring Permutation.
From QV.lib Require Import Prelude Chunks FinSum DFT DFT2.
From QV.model Require Import C04_Model.

From QV.proof Require Import C04_Proofs_Base C04_Proofs C04_Proofs_Front C04_Proofs_Prlx C04_Proofs_Compl.
Import ListNotations.
Unset Implicit Arguments.
Local Open Scope nat_scope.

Lemma C04_batch_invariant_single_pass_main :
  forall (R : Type) (rO : R) (radd rmul : R -> R -> R) (conj : R -> R) (half : R) (rinv : R -> R)
         (N1 : nat) (w1 : Z -> R) (Ninv1 : R) (N2 : nat) (w2 : Z -> R) (Ninv2 : R)
         (n : nat) (contrib : nat -> img R) (wt : nat -> R) (env garbage : img R) (b : nat),
    1 <= b -> reconstruct_single rO radd rmul conj half rinv N1 N2 w1 w2 Ninv1 Ninv2 n contrib wt env garbage (batches_of n b) = reconstruct_single rO radd rmul conj half rinv N1 N2 w1 w2 Ninv1 Ninv2 n contrib wt env garbage [seq 0 n].
Proof. intros. apply batch_invariant_single_lemma. assumption. Qed.

Lemma C04_batch_invariant_single_pass_any_partition_main :
  forall (R : Type) (rO : R) (radd rmul : R -> R -> R) (conj : R -> R) (half : R) (rinv : R -> R)
         (N1 : nat) (w1 : Z -> R) (Ninv1 : R) (N2 : nat) (w2 : Z -> R) (Ninv2 : R)
         (n : nat) (contrib : nat -> img R) (wt : nat -> R) (env garbage : img R) (batches batches' : list (list nat)),
    Permutation (concat batches) (seq 0 n) -> Permutation (concat batches') (seq 0 n) ->
    reconstruct_single rO radd rmul conj half rinv N1 N2 w1 w2 Ninv1 Ninv2 n contrib wt env garbage batches = reconstruct_single rO radd rmul conj half rinv N1 N2 w1 w2 Ninv1 Ninv2 n contrib wt env garbage batches'.
Proof. intros. apply batch_invariant_single_any; assumption. Qed.

Lemma C04_power_accumulation_main :
  forall (R : Type) (rO rI : R) (radd rmul rsub : R -> R -> R) (ropp : R -> R)
         (Rth : ring_theory rO rI radd rmul rsub ropp (@eq R)) (n : nat) (contrib pw : nat -> img R) (garbage : img R) (batches : list (list nat)) (k1 k2 : nat),
    Permutation (concat batches) (seq 0 n) ->
    accumulated_power rO radd n contrib pw garbage batches k1 k2 = suml rO radd (map (fun j => pw j k1 k2) (seq 0 n)).
Proof. intros. eapply power_accumulation; try eassumption; try exact (fun P : img R => P). Qed.

Lemma C04_batch_invariant_two_pass_main :
  forall (R : Type) (rO rI : R) (radd rmul rsub : R -> R -> R) (ropp : R -> R)
         (Rth : ring_theory rO rI radd rmul rsub ropp (@eq R)) (conj : R -> R) (Cok : conj_ok radd rmul conj) (half : R) (rinv : R -> R) (N1 : nat) (w1 : Z -> R) (Ninv1 : R) (N2 : nat) (w2 : Z -> R) (Ninv2 : R)
         (Rok1 : root_ok rO rI radd rmul conj N1 w1 Ninv1) (Rok2 : root_ok rO rI radd rmul conj N2 w2 Ninv2)
         (n : nat) (contrib pw : nat -> img R) (wt : nat -> R) (env : img R) (normf : img R -> img R) (garbage : img R)
         (b j : nat) (d : img R) (r1 r2 : nat),
    (forall P Q : img R, (forall k1 k2, k1 < N1 -> k2 < N2 -> P k1 k2 = Q k1 k2) ->
                         forall k1 k2, k1 < N1 -> k2 < N2 -> normf P k1 k2 = normf Q k1 k2) ->
    1 <= b -> j < n -> r1 < N1 -> r2 < N2 ->
    length (reconstruct_two rO radd rmul conj half rinv N1 N2 w1 w2 Ninv1 Ninv2 n contrib pw wt env normf garbage (batches_of n b)) = n /\ length (reconstruct_two rO radd rmul conj half rinv N1 N2 w1 w2 Ninv1 Ninv2 n contrib pw wt env normf garbage [seq 0 n]) = n /\
    nth j (reconstruct_two rO radd rmul conj half rinv N1 N2 w1 w2 Ninv1 Ninv2 n contrib pw wt env normf garbage (batches_of n b)) d r1 r2 = nth j (reconstruct_two rO radd rmul conj half rinv N1 N2 w1 w2 Ninv1 Ninv2 n contrib pw wt env normf garbage [seq 0 n]) d r1 r2.
Proof. intros. eapply batch_invariant_two_lemma; try eassumption; try exact (fun P : img R => P). Qed.

Lemma C04_batch_invariant_two_pass_any_partition_main :
  forall (R : Type) (rO rI : R) (radd rmul rsub : R -> R -> R) (ropp : R -> R)
         (Rth : ring_theory rO rI radd rmul rsub ropp (@eq R)) (conj : R -> R) (Cok : conj_ok radd rmul conj) (half : R) (rinv : R -> R) (N1 : nat) (w1 : Z -> R) (Ninv1 : R) (N2 : nat) (w2 : Z -> R) (Ninv2 : R)
         (Rok1 : root_ok rO rI radd rmul conj N1 w1 Ninv1) (Rok2 : root_ok rO rI radd rmul conj N2 w2 Ninv2)
         (n : nat) (contrib pw : nat -> img R) (wt : nat -> R) (env : img R) (normf : img R -> img R) (garbage : img R)
         (batches batches' : list (list nat)) (j : nat) (d : img R) (r1 r2 : nat),
    (forall P Q : img R, (forall k1 k2, k1 < N1 -> k2 < N2 -> P k1 k2 = Q k1 k2) ->
                         forall k1 k2, k1 < N1 -> k2 < N2 -> normf P k1 k2 = normf Q k1 k2) ->
    Permutation (concat batches) (seq 0 n) -> Permutation (concat batches') (seq 0 n) ->
    j < n -> r1 < N1 -> r2 < N2 ->
    nth j (reconstruct_two rO radd rmul conj half rinv N1 N2 w1 w2 Ninv1 Ninv2 n contrib pw wt env normf garbage batches) d r1 r2 = nth j (reconstruct_two rO radd rmul conj half rinv N1 N2 w1 w2 Ninv1 Ninv2 n contrib pw wt env normf garbage batches') d r1 r2.
Proof. intros. eapply batch_invariant_two_any; try eassumption; try exact (fun P : img R => P). Qed.

Lemma C04_linear_in_stack_single_pass_main :
  forall (R : Type) (rO rI : R) (radd rmul rsub : R -> R -> R) (ropp : R -> R)
         (Rth : ring_theory rO rI radd rmul rsub ropp (@eq R)) (conj : R -> R) (Cok : conj_ok radd rmul conj) (half : R) (rinv : R -> R) (n1 : nat) (ws1 : Z -> R) (ninv1 : R) (n2 : nat) (ws2 : Z -> R) (ninv2 : R)
         (Roks1 : root_ok rO rI radd rmul conj n1 ws1 ninv1) (Roks2 : root_ok rO rI radd rmul conj n2 ws2 ninv2) (N1 : nat) (w1 : Z -> R) (Ninv1 : R) (N2 : nat) (w2 : Z -> R) (Ninv2 : R)
         (Rok1 : root_ok rO rI radd rmul conj N1 w1 Ninv1) (Rok2 : root_ok rO rI radd rmul conj N2 w2 Ninv2)
         (kern : nat * nat -> img R -> img R) (wtd : nat * nat -> R) (env garbage : img R)
         (a b : R) (s1 s2 : nat -> img R) (full sub : mask2) (bs j : nat) (d : img R) (r1 r2 : nat),
    (forall p a b (X Y : img R) k1 k2, k1 < N1 -> k2 < N2 ->
        kern p (fun i j => radd (rmul a (X i j)) (rmul b (Y i j))) k1 k2
        = radd (rmul a (kern p X k1 k2)) (rmul b (kern p Y k1 k2))) ->
    (forall p (X Y : img R), (forall k1 k2, k1 < N1 -> k2 < N2 -> X k1 k2 = Y k1 k2) ->
        forall k1 k2, k1 < N1 -> k2 < N2 -> kern p X k1 k2 = kern p Y k1 k2) ->
    conj a = a -> conj b = b ->
    1 <= bs -> j < ctx_n sub -> r1 < N1 -> r2 < N2 ->
    nth j (recon_mask_single rO radd rmul conj half rinv n1 n2 ws1 ws2 N1 N2 w1 w2 Ninv1 Ninv2 kern wtd (fun m i j => radd (rmul a (s1 m i j)) (rmul b (s2 m i j))) env garbage full sub bs) d r1 r2
    = radd (rmul a (nth j (recon_mask_single rO radd rmul conj half rinv n1 n2 ws1 ws2 N1 N2 w1 w2 Ninv1 Ninv2 kern wtd s1 env garbage full sub bs) d r1 r2)) (rmul b (nth j (recon_mask_single rO radd rmul conj half rinv n1 n2 ws1 ws2 N1 N2 w1 w2 Ninv1 Ninv2 kern wtd s2 env garbage full sub bs) d r1 r2)).
Proof. intros. eapply (linear_single_lemma R rO rI radd rmul rsub ropp Rth conj Cok half rinv n1 ws1 ninv1 n2 ws2 ninv2 Roks1 Roks2 N1 w1 Ninv1 N2 w2 Ninv2 Rok1 Rok2); try eassumption; try exact (fun P : img R => P). Qed.

Lemma C04_linear_in_stack_two_pass_main :
  forall (R : Type) (rO rI : R) (radd rmul rsub : R -> R -> R) (ropp : R -> R)
         (Rth : ring_theory rO rI radd rmul rsub ropp (@eq R)) (conj : R -> R) (Cok : conj_ok radd rmul conj) (half : R) (rinv : R -> R) (n1 : nat) (ws1 : Z -> R) (ninv1 : R) (n2 : nat) (ws2 : Z -> R) (ninv2 : R)
         (Roks1 : root_ok rO rI radd rmul conj n1 ws1 ninv1) (Roks2 : root_ok rO rI radd rmul conj n2 ws2 ninv2) (N1 : nat) (w1 : Z -> R) (Ninv1 : R) (N2 : nat) (w2 : Z -> R) (Ninv2 : R)
         (Rok1 : root_ok rO rI radd rmul conj N1 w1 Ninv1) (Rok2 : root_ok rO rI radd rmul conj N2 w2 Ninv2)
         (kern : nat * nat -> img R -> img R) (pwd : nat * nat -> img R) (wtd : nat * nat -> R)
         (env : img R) (normf : img R -> img R) (garbage : img R)
         (a b : R) (s1 s2 : nat -> img R) (full sub : mask2) (bs j : nat) (d : img R) (r1 r2 : nat),
    (forall P Q : img R, (forall k1 k2, k1 < N1 -> k2 < N2 -> P k1 k2 = Q k1 k2) ->
                         forall k1 k2, k1 < N1 -> k2 < N2 -> normf P k1 k2 = normf Q k1 k2) ->
    (forall p a b (X Y : img R) k1 k2, k1 < N1 -> k2 < N2 ->
        kern p (fun i j => radd (rmul a (X i j)) (rmul b (Y i j))) k1 k2
        = radd (rmul a (kern p X k1 k2)) (rmul b (kern p Y k1 k2))) ->
    (forall p (X Y : img R), (forall k1 k2, k1 < N1 -> k2 < N2 -> X k1 k2 = Y k1 k2) ->
        forall k1 k2, k1 < N1 -> k2 < N2 -> kern p X k1 k2 = kern p Y k1 k2) ->
    conj a = a -> conj b = b ->
    1 <= bs -> j < ctx_n sub -> r1 < N1 -> r2 < N2 ->
    nth j (recon_mask_two rO radd rmul conj half rinv n1 n2 ws1 ws2 N1 N2 w1 w2 Ninv1 Ninv2 kern pwd wtd (fun m i j => radd (rmul a (s1 m i j)) (rmul b (s2 m i j))) env normf garbage full sub bs) d r1 r2
    = radd (rmul a (nth j (recon_mask_two rO radd rmul conj half rinv n1 n2 ws1 ws2 N1 N2 w1 w2 Ninv1 Ninv2 kern pwd wtd s1 env normf garbage full sub bs) d r1 r2)) (rmul b (nth j (recon_mask_two rO radd rmul conj half rinv n1 n2 ws1 ws2 N1 N2 w1 w2 Ninv1 Ninv2 kern pwd wtd s2 env normf garbage full sub bs) d r1 r2)).
Proof. intros. eapply (linear_two_lemma R rO rI radd rmul rsub ropp Rth conj Cok half rinv n1 ws1 ninv1 n2 ws2 ninv2 Roks1 Roks2 N1 w1 Ninv1 N2 w2 Ninv2 Rok1 Rok2); try eassumption; try exact (fun P : img R => P). Qed.

Lemma C04_index_map_correct_main :
  forall full sub : mask2, same_shape full sub -> submask full sub ->
    length (index_map full sub) = length (nonzero2 sub) /\
    forall i, i < length (nonzero2 sub) ->
      nth (nth i (index_map full sub) 0) (nonzero2 full) (0, 0) = nth i (nonzero2 sub) (0, 0).
Proof. exact index_map_correct_lemma. Qed.

Lemma C04_complementary_masks_partition_main :
  forall full A B : mask2, same_shape full A -> same_shape full B ->
    (forall p, nth p (flat full) false = false -> nth p (flat A) false = false /\ nth p (flat B) false = false) ->
    (forall p, nth p (flat full) false = true -> nth p (flat A) false = negb (nth p (flat B) false)) ->
    Permutation (concat (map (index_map full) [A; B])) (seq 0 (ctx_n full)).
Proof. exact complementary_masks_partition_lemma. Qed.

Lemma C04_submask_recombine_main :
  forall (R : Type) (rO rI : R) (radd rmul rsub : R -> R -> R) (ropp : R -> R)
         (Rth : ring_theory rO rI radd rmul rsub ropp (@eq R)) (conj : R -> R) (half : R) (rinv : R -> R)
         (n1 : nat) (ws1 : Z -> R) (n2 : nat) (ws2 : Z -> R)
         (N1 : nat) (w1 : Z -> R) (Ninv1 : R) (N2 : nat) (w2 : Z -> R) (Ninv2 : R)
         (kern : nat * nat -> img R -> img R) (wtd : nat * nat -> R) (env garbage : img R) (stack : nat -> img R)
         (full : mask2) (parts : list mask2) (bsz : mask2 -> nat) (bF r1 r2 : nat),
    (forall part, In part parts ->
        same_shape full part /\ submask full part /\ 1 <= bsz part /\ rmul (bf_weights rO radd (ctx_n part) (ctx_wt wtd part)) (rinv (bf_weights rO radd (ctx_n part) (ctx_wt wtd part))) = rI) ->
    Permutation (concat (map (index_map full) parts)) (seq 0 (ctx_n full)) ->
    1 <= bF -> rmul (bf_weights rO radd (ctx_n full) (ctx_wt wtd full)) (rinv (bf_weights rO radd (ctx_n full) (ctx_wt wtd full))) = rI ->
    suml rO radd (map (fun part => rmul (bf_weights rO radd (ctx_n part) (ctx_wt wtd part)) (corrected_bf rO radd (recon_mask_single rO radd rmul conj half rinv n1 n2 ws1 ws2 N1 N2 w1 w2 Ninv1 Ninv2 kern wtd stack env garbage full part (bsz part)) r1 r2)) parts)
    = rmul (bf_weights rO radd (ctx_n full) (ctx_wt wtd full)) (corrected_bf rO radd (recon_mask_single rO radd rmul conj half rinv n1 n2 ws1 ws2 N1 N2 w1 w2 Ninv1 Ninv2 kern wtd stack env garbage full full bF) r1 r2).
Proof. intros. eapply submask_recombine_lemma; try eassumption; try exact (fun P : img R => P). Qed.

Lemma C04_submask_stack_entry_main :
  forall (R : Type) (rO rI : R) (radd rmul rsub : R -> R -> R) (ropp : R -> R)
         (Rth : ring_theory rO rI radd rmul rsub ropp (@eq R)) (conj : R -> R) (half : R) (rinv : R -> R)
         (n1 : nat) (ws1 : Z -> R) (n2 : nat) (ws2 : Z -> R)
         (N1 : nat) (w1 : Z -> R) (Ninv1 : R) (N2 : nat) (w2 : Z -> R) (Ninv2 : R)
         (kern : nat * nat -> img R -> img R) (wtd : nat * nat -> R) (env garbage : img R) (stack : nat -> img R)
         (full sub : mask2) (bs bF j : nat) (d : img R) (r1 r2 : nat),
    same_shape full sub -> submask full sub -> 1 <= bs -> 1 <= bF ->
    j < ctx_n sub -> nth j (index_map full sub) 0 < ctx_n full ->
    rmul (bf_weights rO radd (ctx_n sub) (ctx_wt wtd sub)) (rinv (bf_weights rO radd (ctx_n sub) (ctx_wt wtd sub))) = rI -> rmul (bf_weights rO radd (ctx_n full) (ctx_wt wtd full)) (rinv (bf_weights rO radd (ctx_n full) (ctx_wt wtd full))) = rI ->
    rmul (bf_weights rO radd (ctx_n sub) (ctx_wt wtd sub)) (nth j (recon_mask_single rO radd rmul conj half rinv n1 n2 ws1 ws2 N1 N2 w1 w2 Ninv1 Ninv2 kern wtd stack env garbage full sub bs) d r1 r2)
    = rmul (bf_weights rO radd (ctx_n full) (ctx_wt wtd full)) (nth (nth j (index_map full sub) 0) (recon_mask_single rO radd rmul conj half rinv n1 n2 ws1 ws2 N1 N2 w1 w2 Ninv1 Ninv2 kern wtd stack env garbage full full bF) d r1 r2).
Proof. intros. eapply submask_stack_lemma; try eassumption; try exact (fun P : img R => P). Qed.

Lemma C04_parallax_zero_aberration_main :
  forall (R : Type) (rO rI : R) (radd rmul rsub : R -> R -> R) (ropp : R -> R)
         (Rth : ring_theory rO rI radd rmul rsub ropp (@eq R)) (conj : R -> R) (Cok : conj_ok radd rmul conj) (half : R) (rinv : R -> R) (n1 : nat) (ws1 : Z -> R) (ninv1 : R) (n2 : nat) (ws2 : Z -> R) (ninv2 : R)
         (Roks1 : root_ok rO rI radd rmul conj n1 ws1 ninv1) (Roks2 : root_ok rO rI radd rmul conj n2 ws2 ninv2) (N1 : nat) (w1 : Z -> R) (Ninv1 : R) (N2 : nat) (w2 : Z -> R) (Ninv2 : R)
         (Rok1 : root_ok rO rI radd rmul conj N1 w1 Ninv1) (Rok2 : root_ok rO rI radd rmul conj N2 w2 Ninv2)
         (u : nat) (Hu : 1 <= u) (HN1 : N1 = n1 * u) (HN2 : N2 = n2 * u)
         (Hws1 : forall a : Z, ws1 a = w1 (Z.of_nat u * a)%Z) (Hws2 : forall a : Z, ws2 a = w2 (Z.of_nat u * a)%Z)
         (g : nat * nat -> img R) (wtd : nat * nat -> R) (env garbage : img R) (stack : nat -> img R)
         (full sub : mask2) (b j : nat) (d : img R) (r1 r2 : nat),
    rmul half (radd rI rI) = rI ->
    (forall p k1 k2, k1 < N1 -> k2 < N2 -> g p k1 k2 = rI) ->
    (forall k1 k2, k1 < N1 -> k2 < N2 -> env k1 k2 = rI) ->
    (forall i k, conj ((stack (nth j (index_map full sub) 0)) i k) = (stack (nth j (index_map full sub) 0)) i k) ->
    1 <= b -> j < ctx_n sub -> r1 < N1 -> r2 < N2 ->
    nth j (recon_mask_single rO radd rmul conj half rinv n1 n2 ws1 ws2 N1 N2 w1 w2 Ninv1 Ninv2 (kern_mult rmul g) wtd stack env garbage full sub b) d r1 r2
    = rmul (upsample2 rO u (fun x1 x2 => rsub ((stack (nth j (index_map full sub) 0)) x1 x2) (rmul (rmul ninv1 ninv2) (sum2 rO radd n1 n2 ((stack (nth j (index_map full sub) 0)))))) r1 r2) (rinv (bf_weights rO radd (ctx_n sub) (ctx_wt wtd sub))).
Proof. intros. eapply (parallax_zero_aberration_lemma R rO rI radd rmul rsub ropp Rth conj Cok half rinv n1 ws1 ninv1 n2 ws2 ninv2 Roks1 Roks2 N1 w1 Ninv1 N2 w2 Ninv2 Rok1 Rok2 u Hu HN1 HN2 Hws1 Hws2 g wtd env garbage stack); try eassumption; try exact (fun P : img R => P). Qed.

Lemma C04_parallax_zero_aberration_bf_main :
  forall (R : Type) (rO rI : R) (radd rmul rsub : R -> R -> R) (ropp : R -> R)
         (Rth : ring_theory rO rI radd rmul rsub ropp (@eq R)) (conj : R -> R) (Cok : conj_ok radd rmul conj) (half : R) (rinv : R -> R) (n1 : nat) (ws1 : Z -> R) (ninv1 : R) (n2 : nat) (ws2 : Z -> R) (ninv2 : R)
         (Roks1 : root_ok rO rI radd rmul conj n1 ws1 ninv1) (Roks2 : root_ok rO rI radd rmul conj n2 ws2 ninv2) (N1 : nat) (w1 : Z -> R) (Ninv1 : R) (N2 : nat) (w2 : Z -> R) (Ninv2 : R)
         (Rok1 : root_ok rO rI radd rmul conj N1 w1 Ninv1) (Rok2 : root_ok rO rI radd rmul conj N2 w2 Ninv2)
         (u : nat) (Hu : 1 <= u) (HN1 : N1 = n1 * u) (HN2 : N2 = n2 * u)
         (Hws1 : forall a : Z, ws1 a = w1 (Z.of_nat u * a)%Z) (Hws2 : forall a : Z, ws2 a = w2 (Z.of_nat u * a)%Z)
         (g : nat * nat -> img R) (wtd : nat * nat -> R) (env garbage : img R) (stack : nat -> img R)
         (full sub : mask2) (b r1 r2 : nat),
    rmul half (radd rI rI) = rI ->
    (forall p k1 k2, k1 < N1 -> k2 < N2 -> g p k1 k2 = rI) ->
    (forall k1 k2, k1 < N1 -> k2 < N2 -> env k1 k2 = rI) ->
    (forall m i k, conj (stack m i k) = stack m i k) ->
    1 <= b -> r1 < N1 -> r2 < N2 ->
    corrected_bf rO radd (recon_mask_single rO radd rmul conj half rinv n1 n2 ws1 ws2 N1 N2 w1 w2 Ninv1 Ninv2 (kern_mult rmul g) wtd stack env garbage full sub b) r1 r2
    = rmul (suml rO radd (map (fun j => upsample2 rO u (fun x1 x2 => rsub ((stack (nth j (index_map full sub) 0)) x1 x2) (rmul (rmul ninv1 ninv2) (sum2 rO radd n1 n2 ((stack (nth j (index_map full sub) 0)))))) r1 r2) (seq 0 (ctx_n sub)))) (rinv (bf_weights rO radd (ctx_n sub) (ctx_wt wtd sub))).
Proof. intros. eapply (parallax_zero_aberration_bf_lemma R rO rI radd rmul rsub ropp Rth conj Cok half rinv n1 ws1 ninv1 n2 ws2 ninv2 Roks1 Roks2 N1 w1 Ninv1 N2 w2 Ninv2 Rok1 Rok2 u Hu HN1 HN2 Hws1 Hws2 g wtd env garbage stack); try eassumption; try exact (fun P : img R => P). Qed.

Lemma C04_parallax_shift_main :
  forall (R : Type) (rO rI : R) (radd rmul rsub : R -> R -> R) (ropp : R -> R)
         (Rth : ring_theory rO rI radd rmul rsub ropp (@eq R)) (conj : R -> R) (Cok : conj_ok radd rmul conj) (half : R) (rinv : R -> R) (n1 : nat) (ws1 : Z -> R) (ninv1 : R) (n2 : nat) (ws2 : Z -> R) (ninv2 : R)
         (Roks1 : root_ok rO rI radd rmul conj n1 ws1 ninv1) (Roks2 : root_ok rO rI radd rmul conj n2 ws2 ninv2) (N1 : nat) (w1 : Z -> R) (Ninv1 : R) (N2 : nat) (w2 : Z -> R) (Ninv2 : R)
         (Rok1 : root_ok rO rI radd rmul conj N1 w1 Ninv1) (Rok2 : root_ok rO rI radd rmul conj N2 w2 Ninv2)
         (u : nat) (Hu : 1 <= u) (HN1 : N1 = n1 * u) (HN2 : N2 = n2 * u)
         (Hws1 : forall a : Z, ws1 a = w1 (Z.of_nat u * a)%Z) (Hws2 : forall a : Z, ws2 a = w2 (Z.of_nat u * a)%Z)
         (g : nat * nat -> img R) (wtd : nat * nat -> R) (env garbage : img R) (stack : nat -> img R)
         (s1 s2 : nat * nat -> Z) (full sub : mask2) (b j : nat) (d : img R) (r1 r2 : nat),
    rmul half (radd rI rI) = rI ->
    (forall p k1 k2, k1 < N1 -> k2 < N2 ->
        g p k1 k2 = rmul (w1 (Z.of_nat k1 * s1 p)%Z) (w2 (Z.of_nat k2 * s2 p)%Z)) ->
    (forall k1 k2, k1 < N1 -> k2 < N2 -> env k1 k2 = rI) ->
    (forall i k, conj ((stack (nth j (index_map full sub) 0)) i k) = (stack (nth j (index_map full sub) 0)) i k) ->
    1 <= b -> j < ctx_n sub -> r1 < N1 -> r2 < N2 ->
    nth j (recon_mask_single rO radd rmul conj half rinv n1 n2 ws1 ws2 N1 N2 w1 w2 Ninv1 Ninv2 (kern_mult rmul g) wtd stack env garbage full sub b) d r1 r2
    = rmul (roll2 N1 N2 (s1 (ctx_pix sub j)) (s2 (ctx_pix sub j)) (upsample2 rO u (fun x1 x2 => rsub ((stack (nth j (index_map full sub) 0)) x1 x2) (rmul (rmul ninv1 ninv2) (sum2 rO radd n1 n2 ((stack (nth j (index_map full sub) 0))))))) r1 r2) (rinv (bf_weights rO radd (ctx_n sub) (ctx_wt wtd sub))).
Proof. intros. eapply (parallax_integer_shift_lemma R rO rI radd rmul rsub ropp Rth conj Cok half rinv n1 ws1 ninv1 n2 ws2 ninv2 Roks1 Roks2 N1 w1 Ninv1 N2 w2 Ninv2 Rok1 Rok2 u Hu HN1 HN2 Hws1 Hws2 g wtd env garbage stack); try eassumption; try exact (fun P : img R => P). Qed.

Lemma C04_parallax_shift_bf_main :
  forall (R : Type) (rO rI : R) (radd rmul rsub : R -> R -> R) (ropp : R -> R)
         (Rth : ring_theory rO rI radd rmul rsub ropp (@eq R)) (conj : R -> R) (Cok : conj_ok radd rmul conj) (half : R) (rinv : R -> R) (n1 : nat) (ws1 : Z -> R) (ninv1 : R) (n2 : nat) (ws2 : Z -> R) (ninv2 : R)
         (Roks1 : root_ok rO rI radd rmul conj n1 ws1 ninv1) (Roks2 : root_ok rO rI radd rmul conj n2 ws2 ninv2) (N1 : nat) (w1 : Z -> R) (Ninv1 : R) (N2 : nat) (w2 : Z -> R) (Ninv2 : R)
         (Rok1 : root_ok rO rI radd rmul conj N1 w1 Ninv1) (Rok2 : root_ok rO rI radd rmul conj N2 w2 Ninv2)
         (u : nat) (Hu : 1 <= u) (HN1 : N1 = n1 * u) (HN2 : N2 = n2 * u)
         (Hws1 : forall a : Z, ws1 a = w1 (Z.of_nat u * a)%Z) (Hws2 : forall a : Z, ws2 a = w2 (Z.of_nat u * a)%Z)
         (g : nat * nat -> img R) (wtd : nat * nat -> R) (env garbage : img R) (stack : nat -> img R)
         (s1 s2 : nat * nat -> Z) (full sub : mask2) (b r1 r2 : nat),
    rmul half (radd rI rI) = rI ->
    (forall p k1 k2, k1 < N1 -> k2 < N2 ->
        g p k1 k2 = rmul (w1 (Z.of_nat k1 * s1 p)%Z) (w2 (Z.of_nat k2 * s2 p)%Z)) ->
    (forall k1 k2, k1 < N1 -> k2 < N2 -> env k1 k2 = rI) ->
    (forall m i k, conj (stack m i k) = stack m i k) ->
    1 <= b -> r1 < N1 -> r2 < N2 ->
    corrected_bf rO radd (recon_mask_single rO radd rmul conj half rinv n1 n2 ws1 ws2 N1 N2 w1 w2 Ninv1 Ninv2 (kern_mult rmul g) wtd stack env garbage full sub b) r1 r2
    = rmul (suml rO radd (map (fun j => roll2 N1 N2 (s1 (ctx_pix sub j)) (s2 (ctx_pix sub j)) (upsample2 rO u (fun x1 x2 => rsub ((stack (nth j (index_map full sub) 0)) x1 x2) (rmul (rmul ninv1 ninv2) (sum2 rO radd n1 n2 ((stack (nth j (index_map full sub) 0))))))) r1 r2)
                                (seq 0 (ctx_n sub)))) (rinv (bf_weights rO radd (ctx_n sub) (ctx_wt wtd sub))).
Proof. intros. eapply (parallax_integer_shift_bf_lemma R rO rI radd rmul rsub ropp Rth conj Cok half rinv n1 ws1 ninv1 n2 ws2 ninv2 Roks1 Roks2 N1 w1 Ninv1 N2 w2 Ninv2 Rok1 Rok2 u Hu HN1 HN2 Hws1 Hws2 g wtd env garbage stack); try eassumption; try exact (fun P : img R => P). Qed.

Lemma C04_parallax_shift_general_main :
  forall (R : Type) (rO rI : R) (radd rmul rsub : R -> R -> R) (ropp : R -> R)
         (Rth : ring_theory rO rI radd rmul rsub ropp (@eq R)) (conj : R -> R) (Cok : conj_ok radd rmul conj) (half : R) (rinv : R -> R) (n1 : nat) (ws1 : Z -> R) (ninv1 : R) (n2 : nat) (ws2 : Z -> R) (ninv2 : R)
         (Roks1 : root_ok rO rI radd rmul conj n1 ws1 ninv1) (Roks2 : root_ok rO rI radd rmul conj n2 ws2 ninv2) (N1 : nat) (w1 : Z -> R) (Ninv1 : R) (N2 : nat) (w2 : Z -> R) (Ninv2 : R)
         (Rok1 : root_ok rO rI radd rmul conj N1 w1 Ninv1) (Rok2 : root_ok rO rI radd rmul conj N2 w2 Ninv2)
         (u : nat) (Hu : 1 <= u) (HN1 : N1 = n1 * u) (HN2 : N2 = n2 * u)
         (Hws1 : forall a : Z, ws1 a = w1 (Z.of_nat u * a)%Z) (Hws2 : forall a : Z, ws2 a = w2 (Z.of_nat u * a)%Z)
         (g : nat * nat -> img R) (wtd : nat * nat -> R) (env garbage : img R) (stack : nat -> img R)
         (full sub : mask2) (b j : nat) (d : img R) (r1 r2 : nat),
    1 <= b -> j < ctx_n sub -> r1 < N1 -> r2 < N2 ->
    nth j (recon_mask_single rO radd rmul conj half rinv n1 n2 ws1 ws2 N1 N2 w1 w2 Ninv1 Ninv2 (kern_mult rmul g) wtd stack env garbage full sub b) d r1 r2
    = rmul (re_part radd rmul conj half
              (fmul2 rO radd rmul N1 w1 Ninv1 N2 w2 Ninv2
                 (fun k1 k2 => rmul (g (ctx_pix sub j) k1 k2) (env k1 k2))
                 (upsample2 rO u (fun x1 x2 => rsub ((stack (nth j (index_map full sub) 0)) x1 x2) (rmul (rmul ninv1 ninv2) (sum2 rO radd n1 n2 ((stack (nth j (index_map full sub) 0))))))) r1 r2))
           (rinv (bf_weights rO radd (ctx_n sub) (ctx_wt wtd sub))).
Proof. intros. eapply (parallax_multiplier_lemma R rO rI radd rmul rsub ropp Rth conj Cok half rinv n1 ws1 ninv1 n2 ws2 ninv2 Roks1 Roks2 N1 w1 Ninv1 N2 w2 Ninv2 Rok1 Rok2 u Hu HN1 HN2 Hws1 Hws2 g wtd env garbage stack); try eassumption; try exact (fun P : img R => P). Qed.
