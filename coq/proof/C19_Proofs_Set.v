(* C19 — set / get: get-after-set in both spellings, sibling preservation, the
   one-spelling invariant under assignments, last writer wins over a history of sets *)
From QV.lib Require Import Prelude.
From QV.model Require Import C19_Model.
From QV.proof Require Import C19_Proofs_Keys.
From Coq Require Import String Ascii.

(* ---------------------------------------------------------------- the invariant under assignment *)
Lemma good_nil : good (Node []).
Proof. constructor; constructor. Qed.

Lemma good_lookup d k c : good (Node d) -> lookup k d = Some c -> good c.
Proof.
  intros G L. inversion G as [|? _ _ HF]; subst. rewrite Forall_forall in HF.
  apply lookup_In in L. exact (HF _ L).
Qed.

Lemma good_assign d k v :
  good (Node d) -> pure k = true -> good v -> good (Node (assign (canon k d) v d)).
Proof.
  intros G P Gv. destruct (good_keys_assign k v d (good_keys_of _ G) P) as [HP ND].
  constructor; [exact HP | exact ND |].
  inversion G as [|? _ _ HF]; subst. rewrite Forall_forall in *. intros [x w] Hin. cbn [snd].
  destruct (In_assign_inv _ _ _ _ _ Hin) as [[_ ->]|I]; [exact Gv | exact (HF _ I)].
Qed.

Lemma pure_path_cons k p : pure_path (k :: p) <-> pure k = true /\ pure_path p.
Proof.
  unfold pure_path. split.
  - intros H. inversion H; subst. split; assumption.
  - intros [H1 H2]. constructor; assumption.
Qed.

Lemma assign_path_good : forall rest k v d d' r,
  good (Node d) -> pure k = true -> pure_path rest -> good v ->
  assign_path k rest v d = inr (d', r) -> good (Node d').
Proof.
  induction rest as [|k2 rest IH]; intros k v d d' r G Pk Pr Gv H; cbn [assign_path] in H.
  - injection H as <- _. apply good_assign; assumption.
  - apply pure_path_cons in Pr. destruct Pr as [Pk2 Pr].
    destruct (lookup (canon k d) d) as [[x|sub]|] eqn:L.
    + discriminate.
    + destruct (assign_path k2 rest v sub) as [e|[sub' [p o]]] eqn:A; [discriminate|].
      injection H as <- _. apply good_assign; [exact G | exact Pk |].
      apply (IH k2 v sub sub' (p, o)); try assumption. exact (good_lookup _ _ _ G L).
    + destruct (assign_path k2 rest v []) as [e|[sub' rc]] eqn:A; [discriminate|].
      injection H as <- _. apply good_assign; [exact G | exact Pk |].
      apply (IH k2 v [] sub' rc); try assumption. exact good_nil.
Qed.

(* a failed assignment leaves no trace (the function returns no dict), a successful one
   rewrites exactly the entry of the first component *)
Lemma assign_path_shape rest k v d d' r :
  assign_path k rest v d = inr (d', r) -> exists X, d' = assign (canon k d) X d.
Proof.
  destruct rest as [|k2 rest]; cbn [assign_path]; intros H.
  - injection H as <- _. eauto.
  - destruct (lookup (canon k d) d) as [[x|sub]|]; [discriminate| |].
    + destruct (assign_path k2 rest v sub) as [e|[sub' [p o]]]; [discriminate|]. injection H as <- _. eauto.
    + destruct (assign_path k2 rest v []) as [e|[sub' rc]]; [discriminate|]. injection H as <- _. eauto.
Qed.

(* ---------------------------------------------------------------- get after set *)
Lemma get_set_path : forall rest k v d d' r qk qrest,
  good (Node d) -> pure k = true -> pure_path rest -> pure qk = true -> pure_path qrest ->
  norm k = norm qk -> same_path rest qrest ->
  assign_path k rest v d = inr (d', r) -> get_path (qk :: qrest) (Node d') = inr v.
Proof.
  induction rest as [|k2 rest IH]; intros k v d d' r qk qrest G Pk Pr Pq Pqr Hn Hs H;
    cbn [assign_path] in H.
  - destruct qrest as [|q2 qrest]; [|discriminate]. injection H as <- _. cbn [get_path].
    pose proof (find_assign_same k qk v d (good_keys_of _ G) Pk Pq Hn) as F. unfold find in F.
    rewrite F. reflexivity.
  - destruct qrest as [|q2 qrest]; [discriminate|]. unfold same_path in Hs. cbn [map] in Hs.
    injection Hs as Hn2 Hs.
    apply pure_path_cons in Pr. destruct Pr as [Pk2 Pr].
    apply pure_path_cons in Pqr. destruct Pqr as [Pq2 Pqr].
    destruct (lookup (canon k d) d) as [[x|sub]|] eqn:L.
    + discriminate.
    + destruct (assign_path k2 rest v sub) as [e|[sub' [p o]]] eqn:A; [discriminate|].
      injection H as <- _. cbn [get_path].
      pose proof (find_assign_same k qk (Node sub') d (good_keys_of _ G) Pk Pq Hn) as F. unfold find in F.
      rewrite F. apply (IH k2 v sub sub' (p, o)); try assumption. exact (good_lookup _ _ _ G L).
    + destruct (assign_path k2 rest v []) as [e|[sub' rc]] eqn:A; [discriminate|].
      injection H as <- _. cbn [get_path].
      pose proof (find_assign_same k qk (Node sub') d (good_keys_of _ G) Pk Pq Hn) as F. unfold find in F.
      rewrite F. apply (IH k2 v [] sub' rc); try assumption. exact good_nil.
Qed.

(* ---------------------------------------------------------------- siblings *)
Lemma lookup_canon_absent q d :
  (forall k', In k' (map fst d) -> norm k' <> norm q) -> lookup (canon q d) d = None.
Proof.
  intros Hno. destruct (lookup (canon q d) d) eqn:L; [|reflexivity].
  exfalso. apply lookup_In in L. apply (in_map fst) in L. cbn [fst] in L.
  apply (Hno _ L). apply norm_canon.
Qed.

Lemma good_keys_nil : good_keys [].
Proof. split; constructor. Qed.

(* below a freshly created branch every diverging path is simply missing *)
Lemma fresh_path_KeyErr : forall rest k v d' r qk qrest,
  pure k = true -> pure_path rest -> pure qk = true -> pure_path qrest ->
  assign_path k rest v [] = inr (d', r) -> diverge (k :: rest) (qk :: qrest) ->
  get_path (qk :: qrest) (Node d') = inl KeyErr.
Proof.
  induction rest as [|k2 rest IH]; intros k v d' r qk qrest Pk Pr Pq Pqr H D;
    cbn [assign_path] in H; change (canon k []) with k in H; cbn [lookup assign] in H.
  - injection H as <- _. cbn [diverge] in D. destruct D as [D|[_ D]].
    2:{ destruct qrest; destruct D. }
    cbn [get_path]. rewrite lookup_canon_absent; [reflexivity|].
    intros k' [<-|[]]. exact D.
  - destruct (assign_path k2 rest v []) as [e|[sub' rc]] eqn:A; [discriminate|].
    injection H as <- _. cbn [diverge] in D. destruct D as [D|[Hn D]].
    + cbn [get_path]. rewrite lookup_canon_absent; [reflexivity|].
      intros k' [<-|[]]. exact D.
    + destruct qrest as [|q2 qrest]; [destruct D|].
      apply pure_path_cons in Pr. destruct Pr as [Pk2 Pr].
      apply pure_path_cons in Pqr. destruct Pqr as [Pq2 Pqr].
      cbn [get_path].
      pose proof (find_assign_same k qk (Node sub') [] good_keys_nil Pk Pq Hn) as F.
      unfold find in F. change (canon k []) with k in F. cbn [assign] in F. rewrite F.
      apply (IH k2 v sub' rc q2 qrest); assumption.
Qed.

Lemma set_siblings_path : forall rest k v d d' r qk qrest,
  good (Node d) -> pure k = true -> pure_path rest -> pure qk = true -> pure_path qrest ->
  diverge (k :: rest) (qk :: qrest) ->
  assign_path k rest v d = inr (d', r) ->
  get_path (qk :: qrest) (Node d') = get_path (qk :: qrest) (Node d).
Proof.
  induction rest as [|k2 rest IH]; intros k v d d' r qk qrest G Pk Pr Pq Pqr D H.
  - cbn [diverge] in D. destruct D as [D|[_ D]]; [|destruct qrest; destruct D].
    destruct (assign_path_shape _ _ _ _ _ _ H) as [X ->]. cbn [get_path].
    pose proof (find_assign_other (canon k d) qk X d) as F. unfold find in F.
    rewrite F; [reflexivity|]. rewrite norm_canon. exact D.
  - cbn [diverge] in D. destruct D as [D|[Hn D]].
    + destruct (assign_path_shape _ _ _ _ _ _ H) as [X ->]. cbn [get_path].
      pose proof (find_assign_other (canon k d) qk X d) as F. unfold find in F.
      rewrite F; [reflexivity|]. rewrite norm_canon. exact D.
    + destruct qrest as [|q2 qrest]; [destruct D|].
      apply pure_path_cons in Pr. destruct Pr as [Pk2 Pr].
      apply pure_path_cons in Pqr. destruct Pqr as [Pq2 Pqr].
      cbn [assign_path] in H.
      pose proof (find_same_norm k qk d (good_keys_of _ G) Pk Pq Hn) as FS. unfold find in FS.
      destruct (lookup (canon k d) d) as [[x|sub]|] eqn:L.
      * discriminate.
      * destruct (assign_path k2 rest v sub) as [e|[sub' [p o]]] eqn:A; [discriminate|].
        injection H as <- _. cbn [get_path]. rewrite <- FS.
        pose proof (find_assign_same k qk (Node sub') d (good_keys_of _ G) Pk Pq Hn) as F. unfold find in F.
        rewrite F. apply (IH k2 v sub sub' (p, o)); try assumption. exact (good_lookup _ _ _ G L).
      * destruct (assign_path k2 rest v []) as [e|[sub' rc]] eqn:A; [discriminate|].
        injection H as <- _. cbn [get_path]. rewrite <- FS.
        pose proof (find_assign_same k qk (Node sub') d (good_keys_of _ G) Pk Pq Hn) as F. unfold find in F.
        rewrite F. apply (fresh_path_KeyErr rest k2 v sub' rc q2 qrest); assumption.
Qed.

(* ---------------------------------------------------------------- string-keyed statements *)
Section WithValidate.
  Variable validate : cfg -> err + string.

  Lemma check_good k v v' : good v -> check_key_val validate k v = inr v' -> good v'.
  Proof.
    unfold check_key_val. intros G. destruct (check_dev validate k v) as [e|[s|]]; intros H;
      try discriminate; injection H as <-; [constructor | exact G].
  Qed.

  Definition key_ok (key : string) : Prop := pure_path (path_of key).

  Lemma path_of_split key : path_of key = fst (split_dot key) :: snd (split_dot key).
  Proof. unfold path_of. destruct (split_dot key). reflexivity. Qed.

  Theorem get_set key key' v v' d d' r :
    good (Node d) -> key_ok key -> key_ok key' -> same_path (path_of key) (path_of key') ->
    check_key_val validate key v = inr v' ->
    set_item validate key v d = inr (d', r) ->
    C19_Model.get key' d' = inr v'.
  Proof.
    unfold key_ok, C19_Model.get, set_item. rewrite !path_of_split. intros G P P' S C H. rewrite C in H.
    destruct (split_dot key) as [k rest]. destruct (split_dot key') as [qk qrest]. cbn [fst snd] in *.
    apply pure_path_cons in P. destruct P as [Pk Pr]. apply pure_path_cons in P'. destruct P' as [Pq Pqr].
    unfold same_path in S. cbn [map] in S. injection S as Hn S.
    exact (get_set_path rest k v' d d' r qk qrest G Pk Pr Pq Pqr Hn S H).
  Qed.

  Theorem set_preserves_siblings key key' v d d' r :
    good (Node d) -> key_ok key -> key_ok key' -> diverge (path_of key) (path_of key') ->
    set_item validate key v d = inr (d', r) ->
    C19_Model.get key' d' = C19_Model.get key' d.
  Proof.
    unfold key_ok, C19_Model.get, set_item. rewrite !path_of_split. intros G P P' D H.
    destruct (check_key_val validate key v) as [e|v']; [discriminate|].
    destruct (split_dot key) as [k rest]. destruct (split_dot key') as [qk qrest]. cbn [fst snd] in *.
    apply pure_path_cons in P. destruct P as [Pk Pr]. apply pure_path_cons in P'. destruct P' as [Pq Pqr].
    exact (set_siblings_path rest k v' d d' r qk qrest G Pk Pr Pq Pqr D H).
  Qed.

  Lemma set_item_good key v d d' r :
    good (Node d) -> key_ok key -> good v -> set_item validate key v d = inr (d', r) -> good (Node d').
  Proof.
    unfold key_ok, set_item. rewrite path_of_split. intros G P Gv H.
    destruct (check_key_val validate key v) as [e|v'] eqn:C; [discriminate|].
    destruct (split_dot key) as [k rest]. cbn [fst snd] in *.
    apply pure_path_cons in P. destruct P as [Pk Pr].
    exact (assign_path_good rest k v' d d' r G Pk Pr (check_good _ _ _ Gv C) H).
  Qed.

  (* items of one call, or of a whole history of calls, applied in order *)
  Definition items_ok (l : items) : Prop := Forall (fun kv => key_ok (fst kv) /\ good (snd kv)) l.

  Lemma set_items_app a b d recs :
    set_items validate (a ++ b) d recs =
    match set_items validate a d recs with
    | (d1, r1, None) => set_items validate b d1 r1
    | x => x
    end.
  Proof.
    revert d recs. induction a as [|[key v] a IH]; intros d recs; cbn [app set_items]; [reflexivity|].
    destruct (set_item validate key v d) as [e|[d1 rc]]; [reflexivity | apply IH].
  Qed.

  Lemma set_items_good l : forall d recs d' recs' e,
    good (Node d) -> items_ok l -> set_items validate l d recs = (d', recs', e) -> good (Node d').
  Proof.
    induction l as [|[key v] l IH]; intros d recs d' recs' e G Ok H; cbn [set_items] in H.
    - injection H as <- _ _. exact G.
    - inversion Ok as [|? ? [Hk Hv] Ok']; subst. cbn [fst snd] in *.
      destruct (set_item validate key v d) as [e1|[d1 rc]] eqn:S.
      + injection H as <- _ _. exact G.
      + apply (IH d1 (recs ++ [rc]) d' recs' e); [|exact Ok'|exact H].
        exact (set_item_good _ _ _ _ _ G Hk Hv S).
  Qed.

  (* later writes to diverging keys do not disturb a key *)
  Lemma set_items_preserve l : forall d recs d' recs' key',
    good (Node d) -> items_ok l -> key_ok key' ->
    (forall key2 v2, In (key2, v2) l -> diverge (path_of key2) (path_of key')) ->
    set_items validate l d recs = (d', recs', None) ->
    C19_Model.get key' d' = C19_Model.get key' d.
  Proof.
    induction l as [|[key v] l IH]; intros d recs d' recs' key' G Ok Pk Hd H; cbn [set_items] in H.
    - injection H as <- _. reflexivity.
    - inversion Ok as [|? ? [Hk Hv] Ok']; subst. cbn [fst snd] in *.
      destruct (set_item validate key v d) as [e1|[d1 rc]] eqn:S; [discriminate|].
      rewrite (IH d1 (recs ++ [rc]) d' recs' key'); try assumption.
      + apply (set_preserves_siblings key key' v d d1 rc); try assumption. apply (Hd key v). left. reflexivity.
      + exact (set_item_good _ _ _ _ _ G Hk Hv S).
      + intros key2 v2 I. apply (Hd key2 v2). right. exact I.
  Qed.

  (* last writer wins: after a successful history of assignments, a key reads the value of
     the last assignment to it (in either spelling), provided the later assignments went to
     diverging keys *)
  Theorem get_last_writer pre key v post key' v' d d' recs :
    good (Node d) -> items_ok (pre ++ (key, v) :: post) -> key_ok key' ->
    same_path (path_of key) (path_of key') ->
    check_key_val validate key v = inr v' ->
    (forall key2 v2, In (key2, v2) post -> diverge (path_of key2) (path_of key')) ->
    set_items validate (pre ++ (key, v) :: post) d [] = (d', recs, None) ->
    C19_Model.get key' d' = inr v'.
  Proof.
    intros G Ok Pk' S C Hd H. rewrite set_items_app in H.
    unfold items_ok in Ok. apply Forall_app in Ok. destruct Ok as [Okpre Ok2].
    inversion Ok2 as [|? ? [Hk Hv] Okpost]; subst. cbn [fst snd] in *.
    destruct (set_items validate pre d []) as [[d1 r1] [e|]] eqn:E1; [discriminate|].
    assert (G1 : good (Node d1)) by exact (set_items_good pre d [] d1 r1 None G Okpre E1).
    cbn [set_items] in H. destruct (set_item validate key v d1) as [e|[d2 rc]] eqn:S2; [discriminate|].
    assert (G2 : good (Node d2)) by exact (set_item_good _ _ _ _ _ G1 Hk Hv S2).
    rewrite (set_items_preserve post d2 (r1 ++ [rc]) d' recs key' G2 Okpost Pk' Hd H).
    exact (get_set key key' v v' d1 d2 rc G1 Hk Pk' S C S2).
  Qed.
End WithValidate.
