(* C13 — the estimators of model/C13_Model.v on a correlation array with a unique peak
   (Q / Z / nat; no axioms): coarse peak of a shifted autocorrelation, exactness for integer
   shifts with and without upsampling (NumPy and torch), identical images. *)
From QV.lib Require Import Prelude.
From QV.model Require Import C13_Model.
From QV.proof Require Import C13_Proofs.
From Coq Require Import QArith Qround Qabs Psatz.
Local Close Scope Q_scope.
Set Implicit Arguments.

Local Notation "x ==q y" := (Qeq x y) (at level 70, no associativity).

(* ---------------------------------------------------------------- index arithmetic *)
Lemma wrapi_wrapi_add n a b : 0 < n -> wrapi n (Z.of_nat (wrapi n a) + b) = wrapi n (a + b).
Proof.
  intros Hn. unfold wrapi. f_equal.
  rewrite Z2Nat.id by (apply Z.mod_pos_bound; lia).
  apply Zplus_mod_idemp_l.
Qed.

Lemma wrapi_small n k : k < n -> wrapi n (Z.of_nat k) = k.
Proof. intros H. unfold wrapi. rewrite Z.mod_small by lia. apply Nat2Z.id. Qed.

Lemma wrapi_0 n : 0 < n -> wrapi n 0 = 0.
Proof. intros H. apply (wrapi_small H). Qed.

Lemma wrapi_eq n a b : (a mod Z.of_nat n = b mod Z.of_nat n)%Z -> wrapi n a = wrapi n b.
Proof. intros H. unfold wrapi. rewrite H. reflexivity. Qed.

Lemma zmod_neg_iff (n k s : Z) :
  (0 < n)%Z -> (0 <= k < n)%Z -> ((k + s) mod n = 0 <-> k = (- s) mod n)%Z.
Proof.
  intros Hn Hk. split; intros H.
  - replace (- s)%Z with (k - (k + s))%Z by lia.
    rewrite Zminus_mod, H, Z.sub_0_r, Z.mod_mod by lia. rewrite Z.mod_small by lia. reflexivity.
  - rewrite H, Zplus_mod_idemp_l. replace (- s + s)%Z with 0%Z by lia. apply Z.mod_0_l. lia.
Qed.

Lemma wrapi_shift_zero n k s :
  0 < n -> k < n -> (wrapi n (Z.of_nat k + s) = 0 <-> k = wrapi n (- s)).
Proof.
  intros Hn Hk. unfold wrapi.
  pose proof (Z.mod_pos_bound (Z.of_nat k + s) (Z.of_nat n)).
  pose proof (Z.mod_pos_bound (- s) (Z.of_nat n)).
  pose proof (@zmod_neg_iff (Z.of_nat n) (Z.of_nat k) s).
  split; intros E.
  - assert (E' : ((Z.of_nat k + s) mod Z.of_nat n = 0)%Z) by lia.
    apply H1 in E'; lia.
  - assert (E' : (Z.of_nat k = (- s) mod Z.of_nat n)%Z) by lia.
    apply H1 in E'; lia.
Qed.

(* prv / nxt as wrapped integer arithmetic *)
Lemma prv_wrapi n a : 0 < n -> prv n (wrapi n a) = wrapi n (a - 1).
Proof.
  intros Hn. unfold prv.
  replace (Z.of_nat (wrapi n a) - 1)%Z with (Z.of_nat (wrapi n a) + (-1))%Z by lia.
  rewrite (wrapi_wrapi_add _ _ Hn). f_equal.
Qed.

Lemma nxt_wrapi n a : 0 < n -> nxt n (wrapi n a) = wrapi n (a + 1).
Proof. intros Hn. unfold nxt. apply (wrapi_wrapi_add _ _ Hn). Qed.

(* the signed (fftfreq) representative of an index *)
Lemma fz_range n p : p < n -> (- Z.of_nat n <= 2 * fz n p /\ 2 * fz n p < Z.of_nat n)%Z.
Proof. intros H. unfold fz. destruct (2 * Z.of_nat p <? Z.of_nat n)%Z eqn:E; lia. Qed.

Lemma fz_cong n p : 0 < n -> (fz n p mod Z.of_nat n = Z.of_nat p mod Z.of_nat n)%Z.
Proof.
  intros H. unfold fz. destruct (2 * Z.of_nat p <? Z.of_nat n)%Z; [reflexivity|].
  replace (Z.of_nat p - Z.of_nat n)%Z with (Z.of_nat p + (-1) * Z.of_nat n)%Z by lia.
  apply Z.mod_add. lia.
Qed.

(* the returned integer shift t = fz n ((-s) mod n) undoes the applied shift s modulo n *)
Lemma fz_undoes n s : 0 < n -> ((fz n (wrapi n (- s)) + s) mod Z.of_nat n = 0)%Z.
Proof.
  intros Hn. rewrite <- Zplus_mod_idemp_l, (fz_cong _ Hn), Zplus_mod_idemp_l.
  unfold wrapi. rewrite Z2Nat.id by (apply Z.mod_pos_bound; lia).
  rewrite Zplus_mod_idemp_l. replace (- s + s)%Z with 0%Z by lia. apply Z.mod_0_l. lia.
Qed.

(* ---------------------------------------------------------------- coarse peak *)
(* cc is the array R read at indices displaced by (s1, s2) (xcorr_of_shift); if R has its strict
   unique maximum at (0,0), cc has it at ((-s1) mod M, (-s2) mod N) *)
Definition shifted_of (M N : nat) (s1 s2 : Z) (R cc : nat -> nat -> Q) : Prop :=
  forall k l, k < M -> l < N ->
    cc k l ==q R (wrapi M (Z.of_nat k + s1)) (wrapi N (Z.of_nat l + s2)).

Lemma coarse_peak_uniq M N s1 s2 R cc :
  uniq_max M N R 0 0 -> shifted_of M N s1 s2 R cc ->
  uniq_max M N cc (wrapi M (- s1)) (wrapi N (- s2)).
Proof.
  intros (HM & HN & HR) Hs.
  assert (Hp : wrapi M (- s1) < M) by (apply wrapi_lt; exact HM).
  assert (Hq : wrapi N (- s2) < N) by (apply wrapi_lt; exact HN).
  split; [exact Hp|]. split; [exact Hq|].
  intros k l Hk Hl Hne.
  rewrite (Hs k l Hk Hl), (Hs _ _ Hp Hq).
  assert (Z1 : wrapi M (Z.of_nat (wrapi M (- s1)) + s1) = 0) by (apply wrapi_shift_zero; auto).
  assert (Z2 : wrapi N (Z.of_nat (wrapi N (- s2)) + s2) = 0) by (apply wrapi_shift_zero; auto).
  rewrite Z1, Z2. apply HR; try (apply wrapi_lt; assumption).
  intros C. injection C as C1 C2. apply Hne.
  apply (wrapi_shift_zero s1 HM Hk) in C1. apply (wrapi_shift_zero s2 HN Hl) in C2.
  congruence.
Qed.

Theorem coarse_peak M N s1 s2 R cc :
  uniq_max M N R 0 0 -> shifted_of M N s1 s2 R cc ->
  argmax2 M N cc = (wrapi M (- s1), wrapi N (- s2)).
Proof. intros H1 H2. apply argmax2_unique. exact (coarse_peak_uniq H1 H2). Qed.

(* ---------------------------------------------------------------- max_shift mask *)
(* the setting admits the peak: it is not masked.  (As shipped the masked entries were set to 0 and
   the peak had to be positive as well; with -inf, fixes/C13-zero-frequency-term.diff, nothing else
   is needed.) *)
Definition admits (M N : nat) (ms : option Q) (cc : nat -> nat -> Q) (p q : nat) : Prop :=
  match ms with
  | None => True
  | Some m => (inject_Z (fz M p * fz M p + fz N q * fz N q) < m * m)%Q
  end.

Lemma masked_uniq M N ms cc p q :
  uniq_max M N cc p q -> admits M N ms cc p q -> uniq_maxo M N (maskedo M N ms cc) p q.
Proof.
  intros (Hp & Hq & H) Ha. split; [exact Hp|]. split; [exact Hq|].
  destruct ms as [m|]; cbn [maskedo admits] in *; [|intros k l Hk Hl Hne; cbn [olt]; apply H; assumption].
  intros k l Hk Hl Hne.
  assert (E : Qle_bool (m * m) (inject_Z (fz M p * fz M p + fz N q * fz N q)) = false).
  { destruct (Qle_bool _ _) eqn:E; [|reflexivity]. apply Qle_bool_iff in E. exfalso.
    exact (Qlt_not_le _ _ Ha E). }
  rewrite E. destruct (Qle_bool (m * m) (inject_Z (fz M k * fz M k + fz N l * fz N l))).
  - exact I.
  - cbn [olt]. apply H; assumption.
Qed.

(* ---------------------------------------------------------------- stage 1 at a symmetric peak *)
Definition sym_nbrs (M N : nat) (cc : nat -> nat -> Q) (p q : nat) : Prop :=
  cc (prv M p) q ==q cc (nxt M p) q /\ cc p (prv N q) ==q cc p (nxt N q).

Lemma parab_at_sym_peak v0 v1 v2 :
  (v0 < v1)%Q -> v0 ==q v2 -> exists d, parab v0 v1 v2 = Some d /\ d ==q 0%Q.
Proof.
  intros H0 E. assert (H2 : (v2 < v1)%Q) by (rewrite <- E; exact H0).
  destruct (parab_peak H0 H2) as (d & Hd & _). exists d. split; [exact Hd|].
  eapply parab_symmetric; eassumption.
Qed.

Lemma np_stage1_sym M N ms cc p q :
  2 <= M -> 2 <= N -> uniq_max M N cc p q -> admits M N ms cc p q -> sym_nbrs M N cc p q ->
  exists x0 y0, np_stage1 M N ms cc = Some ((p, q), (x0, y0)) /\ x0 ==q qN p /\ y0 ==q qN q.
Proof.
  intros HM HN Hu Ha [Sx Sy].
  pose proof (argmax2o_unique (@masked_uniq M N ms cc p q Hu Ha)) as Harg.
  destruct Hu as (Hp & Hq & H).
  destruct (prv_props HM Hp) as [P1 P2]. destruct (prv_props HN Hq) as [Q1 Q2].
  assert (L1 : (cc (prv M p) q < cc p q)%Q) by (apply H; auto; intros C; inversion C; auto).
  assert (L2 : (cc p (prv N q) < cc p q)%Q) by (apply H; auto; intros C; inversion C; auto).
  destruct (parab_at_sym_peak L1 Sx) as (dx & Hdx & Zx).
  destruct (parab_at_sym_peak L2 Sy) as (dy & Hdy & Zy).
  exists (qmod (qN p + dx) M), (qmod (qN q + dy) N).
  unfold np_stage1. rewrite Harg. cbv zeta. rewrite (gparab_some Hdx), (gparab_some Hdy).
  split; [reflexivity|]. split; apply qmod_index; auto; rewrite ?Zx, ?Zy; ring.
Qed.

(* ---------------------------------------------------------------- the upsampled window *)
(* the window has its strict unique maximum at its centre sample c and is symmetric about it
   along each axis (what "the interpolant attains its maximum at the refined peak" means for
   the samples the code looks at) *)
Definition win_centred (W c : nat) (loc : nat -> nat -> Q) : Prop :=
  uniq_max W W loc c c /\ loc (c - 1) c ==q loc (c + 1) c /\ loc c (c - 1) ==q loc c (c + 1).

Lemma win_refine_centred g W c loc :
  1 <= c -> c + 1 < W -> win_centred W c loc ->
  exists dx dy, win_refine g W loc = Some ((c, c), (dx, dy)) /\ dx ==q 0%Q /\ dy ==q 0%Q.
Proof.
  intros Hc HW (Hu & Sx & Sy).
  pose proof (argmax2_unique Hu) as Harg. destruct Hu as (_ & _ & H).
  assert (L1 : (loc (c - 1)%nat c < loc c c)%Q) by (apply H; try lia; intros C; inversion C; lia).
  assert (L2 : (loc c (c - 1)%nat < loc c c)%Q) by (apply H; try lia; intros C; inversion C; lia).
  destruct (parab_at_sym_peak L1 Sx) as (dx & Hdx & Zx).
  destruct (parab_at_sym_peak L2 Sy) as (dy & Hdy & Zy).
  exists dx, dy. unfold win_refine. rewrite Harg.
  assert (E : ((c =? 0) || (W <=? c + 1) || (c =? 0) || (W <=? c + 1))%bool = false).
  { destruct (Nat.eqb_spec c 0); [lia|]. destruct (Nat.leb_spec W (c + 1)); [lia|]. reflexivity. }
  rewrite E, (par_some g Hdx), (par_some g Hdy). auto.
Qed.

Lemma du_ge up : 2 <= up -> 3 <= du up.
Proof. intros H. unfold du. apply Nat.div_le_lower_bound; lia. Qed.

(* ---------------------------------------------------------------- NumPy: exact at a symmetric peak *)
Theorem np_peak_exact M N ms up cc ups p q :
  2 <= M -> 2 <= N -> uniq_max M N cc p q -> admits M N ms cc p q -> sym_nbrs M N cc p q ->
  (2 <= up -> forall x y, x ==q qN p -> y ==q qN q -> win_centred (np_win up) (du up) (ups x y)) ->
  exists a b, np_shift M N ms up cc ups = Some (a, b) /\
              a ==q inject_Z (fz M p) /\ b ==q inject_Z (fz N q).
Proof.
  intros HM HN Hu Ha Hs Hw.
  destruct (@np_stage1_sym M N ms cc p q HM HN Hu Ha Hs) as (x0 & y0 & H1 & Ex & Ey).
  destruct Hu as (Hp & Hq & _).
  assert (M0 : 0 < M) by lia. assert (N0 : 0 < N) by lia.
  unfold np_shift. rewrite H1.
  destruct (Nat.leb_spec up 1) as [Hup|Hup].
  - eexists _, _. split; [reflexivity|].
    split; [rewrite (centre_comp M0 Ex) | rewrite (centre_comp N0 Ey)]; apply centre_of_index; auto.
  - assert (Hup2 : 2 <= up) by lia. pose proof (du_ge Hup2) as Hdu.
    destruct (@win_refine_centred true (np_win up) (du up) (ups x0 y0)) as (dx & dy & Hr & Zx & Zy);
      [lia | unfold np_win; lia | apply Hw; auto |].
    rewrite Hr. eexists _, _. split; [reflexivity|].
    assert (U : ~ qN up ==q 0%Q).
    { pose proof (@qN_pos up). assert (0 < up) by lia. intros C. specialize (H H0). rewrite C in H.
      exact (Qlt_irrefl _ H). }
    assert (Ox : np_offset up x0 (du up) dx ==q qN p).
    { unfold np_offset. rewrite Z.sub_diag, Zx, Ex. change (inject_Z 0) with 0%Q. field. exact U. }
    assert (Oy : np_offset up y0 (du up) dy ==q qN q).
    { unfold np_offset. rewrite Z.sub_diag, Zy, Ey. change (inject_Z 0) with 0%Q. field. exact U. }
    split; [rewrite (centre_comp M0 Ox) | rewrite (centre_comp N0 Oy)]; apply centre_of_index; auto.
Qed.

(* ---------------------------------------------------------------- integer shifts *)
Lemma wrapi_neg_wrapi n a : 0 < n -> wrapi n (- Z.of_nat (wrapi n a)) = wrapi n (- a).
Proof.
  intros Hn. unfold wrapi. f_equal.
  rewrite Z2Nat.id by (apply Z.mod_pos_bound; lia).
  replace (- (a mod Z.of_nat n))%Z with (0 - a mod Z.of_nat n)%Z by lia.
  rewrite Zminus_mod_idemp_r. f_equal.
Qed.

(* point symmetry R[k,l] = R[-k,-l] (real part of a Hermitian autocorrelation) *)
Definition psym (M N : nat) (R : nat -> nat -> Q) : Prop :=
  forall k l, k < M -> l < N -> R k l ==q R (wrapi M (- Z.of_nat k)) (wrapi N (- Z.of_nat l)).

Lemma shifted_sym_nbrs M N s1 s2 R cc :
  2 <= M -> 2 <= N -> psym M N R -> shifted_of M N s1 s2 R cc ->
  sym_nbrs M N cc (wrapi M (- s1)) (wrapi N (- s2)).
Proof.
  intros HM HN Hp Hs. assert (M0 : 0 < M) by lia. assert (N0 : 0 < N) by lia.
  pose proof (@wrapi_lt M) as WM. pose proof (@wrapi_lt N) as WN.
  assert (Z1 : wrapi M (Z.of_nat (wrapi M (- s1)) + s1) = 0).
  { rewrite (wrapi_wrapi_add _ _ M0). replace (- s1 + s1)%Z with 0%Z by lia. apply wrapi_0; lia. }
  assert (Z2 : wrapi N (Z.of_nat (wrapi N (- s2)) + s2) = 0).
  { rewrite (wrapi_wrapi_add _ _ N0). replace (- s2 + s2)%Z with 0%Z by lia. apply wrapi_0; lia. }
  split.
  - rewrite (prv_wrapi _ M0), (nxt_wrapi _ M0).
    rewrite (Hs _ _ (WM _ M0) (WN _ N0)), (Hs _ _ (WM _ M0) (WN _ N0)).
    rewrite !(wrapi_wrapi_add _ _ M0), Z2.
    replace (- s1 - 1 + s1)%Z with (-1)%Z by lia. replace (- s1 + 1 + s1)%Z with 1%Z by lia.
    rewrite (Hp (wrapi M 1) 0 (WM _ M0) N0).
    rewrite (wrapi_neg_wrapi _ M0). change (- Z.of_nat 0)%Z with 0%Z. rewrite (wrapi_0 N0). reflexivity.
  - rewrite (prv_wrapi _ N0), (nxt_wrapi _ N0).
    rewrite (Hs _ _ (WM _ M0) (WN _ N0)), (Hs _ _ (WM _ M0) (WN _ N0)).
    rewrite !(wrapi_wrapi_add _ _ N0), Z1.
    replace (- s2 - 1 + s2)%Z with (-1)%Z by lia. replace (- s2 + 1 + s2)%Z with 1%Z by lia.
    rewrite (Hp 0 (wrapi N 1) M0 (WN _ N0)).
    rewrite (wrapi_neg_wrapi _ N0). change (- Z.of_nat 0)%Z with 0%Z. rewrite (wrapi_0 M0). reflexivity.
Qed.

(* the returned pair is the integer pair (t1, t2) in the centred cell with t + s = 0 (mod size) *)
Definition undoes (M N : nat) (s1 s2 : Z) (a b : Q) : Prop :=
  exists t1 t2 : Z,
    a ==q inject_Z t1 /\ b ==q inject_Z t2 /\
    (- Z.of_nat M <= 2 * t1 < Z.of_nat M)%Z /\ (- Z.of_nat N <= 2 * t2 < Z.of_nat N)%Z /\
    ((t1 + s1) mod Z.of_nat M = 0)%Z /\ ((t2 + s2) mod Z.of_nat N = 0)%Z.

Lemma undoes_fz M N s1 s2 a b :
  0 < M -> 0 < N ->
  a ==q inject_Z (fz M (wrapi M (- s1))) -> b ==q inject_Z (fz N (wrapi N (- s2))) ->
  undoes M N s1 s2 a b.
Proof.
  intros HM HN Ea Eb. exists (fz M (wrapi M (- s1))), (fz N (wrapi N (- s2))).
  pose proof (fz_range (wrapi_lt (- s1) HM)). pose proof (fz_range (wrapi_lt (- s2) HN)).
  repeat split; try tauto; try (apply fz_undoes; assumption).
Qed.

Theorem np_integer_shift M N ms up R cc ups s1 s2 :
  2 <= M -> 2 <= N ->
  uniq_max M N R 0 0 -> psym M N R -> shifted_of M N s1 s2 R cc ->
  admits M N ms cc (wrapi M (- s1)) (wrapi N (- s2)) ->
  (2 <= up -> forall x y, x ==q qN (wrapi M (- s1)) -> y ==q qN (wrapi N (- s2)) ->
              win_centred (np_win up) (du up) (ups x y)) ->
  exists a b, np_shift M N ms up cc ups = Some (a, b) /\ undoes M N s1 s2 a b.
Proof.
  intros HM HN Hu Hp Hs Ha Hw.
  destruct (@np_peak_exact M N ms up cc ups _ _ HM HN (coarse_peak_uniq Hu Hs) Ha
              (shifted_sym_nbrs HM HN Hp Hs) Hw) as (a & b & E & Ea & Eb).
  exists a, b. split; [exact E|]. apply undoes_fz; auto; lia.
Qed.

(* ---------------------------------------------------------------- torch *)
Lemma round_he_int x z : x ==q inject_Z z -> round_he x = z.
Proof.
  intros E. unfold round_he.
  assert (F : Qfloor x = z) by (rewrite E; apply Qfloor_Z).
  rewrite F.
  assert (L : Qltb (x - inject_Z z) (1 # 2) = true) by (apply Qltb_spec; rewrite E; lra).
  rewrite L. reflexivity.
Qed.

Lemma qN_mul a b : qN (a * b) ==q (qN a * qN b)%Q.
Proof. unfold qN. rewrite Nat2Z.inj_mul, inject_Z_mult. reflexivity. Qed.

Lemma qN_neq0 n : 0 < n -> ~ qN n ==q 0%Q.
Proof. intros H C. pose proof (qN_pos H) as P. rewrite C in P. exact (Qlt_irrefl _ P). Qed.

Lemma half_round_index p d : d ==q 0%Q -> (inject_Z (round_he ((qN p + d) * 2)) / 2 ==q qN p)%Q.
Proof.
  intros Zd.
  assert (E : ((qN p + d) * 2 ==q inject_Z (Z.of_nat p * 2))%Q).
  { rewrite Zd, inject_Z_mult. unfold qN. change (inject_Z 2) with 2%Q. ring. }
  rewrite (round_he_int E), inject_Z_mult. unfold qN. change (inject_Z 2) with 2%Q. field.
Qed.

Lemma torch_half_sym M N cc p q :
  2 <= M -> 2 <= N -> uniq_max M N cc p q -> sym_nbrs M N cc p q ->
  exists x0 y0, torch_half M N cc = ((p, q), (x0, y0)) /\ x0 ==q qN p /\ y0 ==q qN q.
Proof.
  intros HM HN Hu [Sx Sy]. pose proof (argmax2_unique Hu) as Harg.
  unfold torch_half. rewrite Harg. eexists _, _. split; [reflexivity|].
  split; apply half_round_index; apply tparab_symmetric; assumption.
Qed.

Lemma t_round_index up p x : 0 < up -> x ==q qN p -> t_round up x ==q qN p.
Proof.
  intros Hup E. unfold t_round.
  assert (E2 : (x * qN up ==q inject_Z (Z.of_nat (p * up)))%Q).
  { rewrite E. fold (qN (p * up)). rewrite qN_mul. reflexivity. }
  rewrite (round_he_int E2). fold (qN (p * up)). rewrite qN_mul. field. apply qN_neq0. exact Hup.
Qed.

Lemma t_win_ge up : 3 <= up -> 5 <= t_win up /\ 1 <= t_gs up /\ t_gs up + 1 < t_win up.
Proof.
  intros H. unfold t_gs, t_win, du.
  assert (5 <= (3 * up + 1) / 2) by (apply Nat.div_le_lower_bound; lia).
  set (d := (3 * up + 1) / 2) in *. clearbody d.
  assert (2 <= d / 2) by (apply Nat.div_le_lower_bound; lia).
  assert (d / 2 * 2 <= d) by (rewrite Nat.mul_comm; apply Nat.mul_div_le; lia).
  lia.
Qed.

Theorem torch_peak_exact M N up cc ups p q :
  2 <= M -> 2 <= N -> uniq_max M N cc p q -> sym_nbrs M N cc p q ->
  (3 <= up -> forall cx cy,
      cx ==q (qN (t_gs up) - qN up * qN p)%Q -> cy ==q (qN (t_gs up) - qN up * qN q)%Q ->
      win_centred (t_win up) (t_gs up) (ups cx cy)) ->
  exists a b, torch_shift M N up cc ups = Some (a, b) /\
              a ==q inject_Z (fz M p) /\ b ==q inject_Z (fz N q).
Proof.
  intros HM HN Hu Hs Hw.
  destruct (torch_half_sym HM HN Hu Hs) as (x0 & y0 & H1 & Ex & Ey).
  destruct Hu as (Hp & Hq & _).
  assert (M0 : 0 < M) by lia. assert (N0 : 0 < N) by lia.
  unfold torch_shift, torch_align. rewrite H1.
  destruct (Nat.leb_spec up 2) as [Hup|Hup].
  - eexists _, _. split; [reflexivity|].
    split; [rewrite (centre_comp M0 Ex) | rewrite (centre_comp N0 Ey)]; apply centre_of_index; auto.
  - assert (Hup3 : 3 <= up) by lia. assert (U0 : 0 < up) by lia.
    destruct (t_win_ge Hup3) as (W5 & G1 & G2).
    pose proof (t_round_index U0 Ex) as Rx. pose proof (t_round_index U0 Ey) as Ry.
    destruct (@win_refine_centred false (t_win up) (t_gs up)
                (ups (t_center up (t_round up x0)) (t_center up (t_round up y0))))
      as (dx & dy & Hr & Zx & Zy); [exact G1 | exact G2 | |].
    { apply Hw; auto; unfold t_center; rewrite ?Rx, ?Ry; reflexivity. }
    rewrite Hr. eexists _, _. split; [reflexivity|].
    pose proof (qN_neq0 U0) as U.
    assert (Ox : t_offset up (t_round up x0) (t_gs up) dx ==q qN p).
    { unfold t_offset. rewrite Z.sub_diag, Zx, Rx. change (inject_Z 0) with 0%Q. field. exact U. }
    assert (Oy : t_offset up (t_round up y0) (t_gs up) dy ==q qN q).
    { unfold t_offset. rewrite Z.sub_diag, Zy, Ry. change (inject_Z 0) with 0%Q. field. exact U. }
    split; [rewrite (centre_comp M0 Ox) | rewrite (centre_comp N0 Oy)]; apply centre_of_index; auto.
Qed.

Theorem torch_integer_shift M N up R cc ups s1 s2 :
  2 <= M -> 2 <= N ->
  uniq_max M N R 0 0 -> psym M N R -> shifted_of M N s1 s2 R cc ->
  (3 <= up -> forall cx cy,
      cx ==q (qN (t_gs up) - qN up * qN (wrapi M (- s1)))%Q ->
      cy ==q (qN (t_gs up) - qN up * qN (wrapi N (- s2)))%Q ->
      win_centred (t_win up) (t_gs up) (ups cx cy)) ->
  exists a b, torch_shift M N up cc ups = Some (a, b) /\ undoes M N s1 s2 a b.
Proof.
  intros HM HN Hu Hp Hs Hw.
  destruct (@torch_peak_exact M N up cc ups _ _ HM HN (coarse_peak_uniq Hu Hs)
              (shifted_sym_nbrs HM HN Hp Hs) Hw) as (a & b & E & Ea & Eb).
  exists a, b. split; [exact E|]. apply undoes_fz; auto; lia.
Qed.

(* ---------------------------------------------------------------- identical images *)
(* s = 0: the correlation array IS the autocorrelation *)
Lemma shifted_of_self M N R : shifted_of M N 0 0 R R.
Proof.
  intros k l Hk Hl. rewrite !Z.add_0_r, (wrapi_small Hk), (wrapi_small Hl). reflexivity.
Qed.

Lemma undoes_zero M N a b : 0 < M -> 0 < N -> undoes M N 0 0 a b -> a ==q 0%Q /\ b ==q 0%Q.
Proof.
  intros HM HN (t1 & t2 & Ea & Eb & R1 & R2 & C1 & C2).
  rewrite Z.add_0_r in C1, C2.
  assert (Hz : forall (n t : Z), (0 < n)%Z -> (- n <= 2 * t < n)%Z -> (t mod n = 0)%Z -> t = 0%Z).
  { intros n t Hn Ht Hm. destruct (Z_lt_le_dec t 0) as [L|L].
    - assert (E : ((t + 1 * n) mod n = t + 1 * n)%Z) by (apply Z.mod_small; lia).
      rewrite Z.mod_add in E by lia. lia.
    - rewrite Z.mod_small in Hm by lia. exact Hm. }
  assert (t1 = 0%Z) by (apply (Hz (Z.of_nat M)); auto; lia).
  assert (t2 = 0%Z) by (apply (Hz (Z.of_nat N)); auto; lia).
  subst. split; assumption.
Qed.

Theorem np_identical_zero M N ms up R ups :
  2 <= M -> 2 <= N -> uniq_max M N R 0 0 -> psym M N R ->
  (match ms with None => True | Some m => (0 < m * m)%Q end) ->
  (2 <= up -> forall x y, x ==q 0%Q -> y ==q 0%Q -> win_centred (np_win up) (du up) (ups x y)) ->
  exists a b, np_shift M N ms up R ups = Some (a, b) /\ a ==q 0%Q /\ b ==q 0%Q.
Proof.
  intros HM HN Hu Hp Ha Hw. assert (M0 : 0 < M) by lia. assert (N0 : 0 < N) by lia.
  assert (W1 : wrapi M (- 0) = 0) by (apply wrapi_0; exact M0).
  assert (W2 : wrapi N (- 0) = 0) by (apply wrapi_0; exact N0).
  destruct (@np_integer_shift M N ms up R R ups 0 0 HM HN Hu Hp (@shifted_of_self M N R)) as (a & b & E & U).
  - rewrite W1, W2. destruct ms as [m|]; cbn [admits]; [|exact I].
    assert (F1 : fz M 0 = 0%Z) by (unfold fz; destruct (2 * Z.of_nat 0 <? Z.of_nat M)%Z eqn:E; [reflexivity | lia]).
    assert (F2 : fz N 0 = 0%Z) by (unfold fz; destruct (2 * Z.of_nat 0 <? Z.of_nat N)%Z eqn:E; [reflexivity | lia]).
    rewrite F1, F2. exact Ha.
  - rewrite W1, W2. exact Hw.
  - exists a, b. split; [exact E|]. exact (undoes_zero M0 N0 U).
Qed.

Theorem torch_identical_zero M N up R ups :
  2 <= M -> 2 <= N -> uniq_max M N R 0 0 -> psym M N R ->
  (3 <= up -> forall cx cy, cx ==q qN (t_gs up) -> cy ==q qN (t_gs up) ->
              win_centred (t_win up) (t_gs up) (ups cx cy)) ->
  exists a b, torch_shift M N up R ups = Some (a, b) /\ a ==q 0%Q /\ b ==q 0%Q.
Proof.
  intros HM HN Hu Hp Hw. assert (M0 : 0 < M) by lia. assert (N0 : 0 < N) by lia.
  assert (W1 : wrapi M (- 0) = 0) by (apply wrapi_0; exact M0).
  assert (W2 : wrapi N (- 0) = 0) by (apply wrapi_0; exact N0).
  destruct (@torch_integer_shift M N up R R ups 0 0 HM HN Hu Hp (@shifted_of_self M N R)) as (a & b & E & U).
  - rewrite W1, W2. intros H3 cx cy Ex Ey. apply Hw; auto; rewrite ?Ex, ?Ey; unfold qN at 3; cbn; ring.
  - exists a, b. split; [exact E|]. exact (undoes_zero M0 N0 U).
Qed.

(* the frequency vector of the upsampling kernels is congruent to the index *)
Lemma np_freq_cong n k : 0 < n -> (np_freq n k mod Z.of_nat n = Z.of_nat k mod Z.of_nat n)%Z.
Proof.
  intros Hn. unfold np_freq. rewrite Zminus_mod_idemp_l. f_equal. lia.
Qed.
