(* C11 — second proof file: the theorems of C11_Proofs.v restated over ALL operation histories
   (`run ops init`), in terms of `reach`; copy preserves contents; slicing / get_data succeed
   on every in-range index expression (any number of fixed dimensions); multi-cell
   set_data-then-get_data; a change made through a copy never changes the original. *)
From QV.lib Require Import Prelude C11_Heap.
From QV.model Require Import C11_Model.
From QV.proof Require Import C11_Proofs.
From Coq Require Import QArith.
Local Close Scope Q_scope.

(* ================================================================ reach *)
Lemma reach_In v id : In id (reach v) <-> In (Some id) (leaves (vdata v)).
Proof.
  unfold reach. rewrite in_flat_map. split.
  - intros [[i|] [H1 H2]]; simpl in H2; [destruct H2 as [<-|[]]; exact H1 | destruct H2].
  - intros H. exists (Some id). split; [exact H | simpl; auto].
Qed.

Lemma reach_lt s u id : SInv s -> In u (vecs s) -> In id (reach u) -> id < length (heap s).
Proof. intros HS Hu Hid. apply reach_In in Hid. eapply SInv_ids_lt; eauto. Qed.

(* ================================================================ copy keeps the contents *)
Lemma leaf_val_app h l lf : (forall id, lf = Some id -> id < length h) -> leaf_val (h ++ l) lf = leaf_val h lf.
Proof.
  destruct lf as [id|]; simpl; [|reflexivity]. intros H. apply nth_error_app1. apply H. reflexivity.
Qed.

Lemma copy_fold_vals : forall ls h memo h' memo' ls',
  (forall a b, In (a, b) memo -> exists c, nth_error h a = Some c /\ nth_error h b = Some c) ->
  Forall (fun lf : leaf => forall id, lf = Some id -> id < length h) ls ->
  lmapfold copy_leaf (h, memo) ls = ((h', memo'), ls') ->
  (exists l, h' = h ++ l) /\
  Forall (fun lf : leaf => forall id, lf = Some id -> id < length h') ls' /\
  map (leaf_val h') ls' = map (leaf_val h) ls.
Proof.
  induction ls as [|lf ls IH]; intros h memo h' memo' ls' Hm Hl H; cbn [lmapfold] in H.
  - assert (h' = h /\ ls' = []) as (-> & ->) by (repeat split; congruence).
    split; [exists []; rewrite app_nil_r; reflexivity|]. split; [constructor|reflexivity].
  - assert (Hlf : forall id, lf = Some id -> id < length h) by (inversion Hl; assumption).
    assert (Hls : Forall (fun lf : leaf => forall id, lf = Some id -> id < length h) ls) by (inversion Hl; assumption).
    destruct (copy_leaf (h, memo) lf) as [[h1 memo1] lf'] eqn:Ec.
    destruct (lmapfold copy_leaf (h1, memo1) ls) as [[h2 memo2] r'] eqn:Em.
    assert (h' = h2 /\ ls' = lf' :: r') as (-> & ->) by (repeat split; congruence).
    assert (A : (exists l1, h1 = h ++ l1) /\
                (forall a b, In (a, b) memo1 -> exists c, nth_error h1 a = Some c /\ nth_error h1 b = Some c) /\
                (forall id, lf' = Some id -> id < length h1) /\
                leaf_val h1 lf' = leaf_val h lf).
    { destruct lf as [id|]; simpl in Ec.
      - destruct (assoc id memo) as [id'|] eqn:Ea.
        + assert (h1 = h /\ memo1 = memo /\ lf' = Some id') as (-> & -> & ->) by (repeat split; congruence).
          destruct (Hm id id' (assoc_In _ _ _ Ea)) as [c [Hc1 Hc2]].
          split; [exists []; rewrite app_nil_r; reflexivity|]. split; [exact Hm|]. split.
          * intros x Hx. inversion Hx; subst x. apply nth_error_Some. congruence.
          * simpl. congruence.
        + destruct (nth_error h id) as [c|] eqn:Hc.
          * assert (h1 = h ++ [c] /\ memo1 = (id, length h) :: memo /\ lf' = Some (length h)) as (-> & -> & ->)
              by (repeat split; congruence).
            split; [exists [c]; reflexivity|]. split; [|split].
            -- intros a b [Hab|Hab].
               ++ inversion Hab; subst a b. exists c. split; [apply nth_error_app1_some; exact Hc|apply nth_error_alloc_new].
               ++ destruct (Hm a b Hab) as [c0 [H1 H2]]. exists c0. split; apply nth_error_app1_some; assumption.
            -- intros x Hx. inversion Hx; subst x. rewrite app_length. simpl. lia.
            -- simpl. rewrite nth_error_alloc_new. congruence.
          * exfalso. apply nth_error_None in Hc. specialize (Hlf id eq_refl). lia.
      - assert (h1 = h /\ memo1 = memo /\ lf' = None) as (-> & -> & ->) by (repeat split; congruence).
        split; [exists []; rewrite app_nil_r; reflexivity|]. split; [exact Hm|]. split; [intros; discriminate|reflexivity]. }
    destruct A as ([l1 ->] & Hm1 & Hnew & Hval).
    assert (Hls1 : Forall (fun lf : leaf => forall id, lf = Some id -> id < length (h ++ l1)) ls).
    { eapply Forall_impl; [|exact Hls]. intros x Hx id Hid. specialize (Hx id Hid). rewrite app_length. lia. }
    destruct (IH (h ++ l1) memo1 h2 memo2 r' Hm1 Hls1 Em) as ([l2 ->] & Hr & Hmap).
    split; [exists (l1 ++ l2); rewrite app_assoc; reflexivity|]. split.
    + constructor; [|exact Hr]. intros id Hid. specialize (Hnew id Hid). rewrite app_length. lia.
    + cbn [map]. f_equal.
      * rewrite leaf_val_app by exact Hnew. exact Hval.
      * rewrite Hmap. apply map_ext_in. intros x Hx. apply leaf_val_app.
        rewrite Forall_forall in Hls. apply Hls. exact Hx.
Qed.

Theorem copy_same_contents s vi s' :
  SInv s -> step s (OCopy vi) = (s', RNew) ->
  exists v w, nth_error (vecs s) vi = Some v /\ vecs s' = vecs s ++ [w] /\
    map (leaf_val (heap s')) (leaves (vdata w)) = map (leaf_val (heap s)) (leaves (vdata v)).
Proof.
  intros HS. simpl. unfold op_copy.
  destruct (nth_error (vecs s) vi) as [v|] eqn:Hv; [|discriminate].
  match goal with |- context [mk_schema ?a ?b ?c ?d] => destruct (mk_schema a b c d) as [[[sh fs] us]|] eqn:E end;
    [|discriminate].
  destruct (tmapfold copy_leaf (heap s, []) (vdata v)) as [[h memo] t] eqn:Et. intros H.
  inversion H; subst s'. clear H.
  apply tmapfold_pair in Et as El.
  destruct (SInv_vec s vi v HS Hv) as (_ & _ & _ & _ & V5 & _).
  destruct (copy_fold_vals (leaves (vdata v)) (heap s) [] h memo (leaves t)) as (_ & _ & Hmap); auto.
  - intros a b [].
  - eapply Forall_impl; [|exact V5]. intros lf Hok id ->. eapply leaf_ok_lt. exact Hok.
  - exists v. eexists. unfold push_vec. cbn [vecs heap vdata]. repeat split; auto.
Qed.

(* ================================================================ a change made through a copy
   never changes an array of a vector that existed before the copy *)
Theorem copy_independent s vi s' :
  SInv s -> step s (OCopy vi) = (s', RNew) ->
  forall u id, In u (vecs s) -> In id (reach u) ->
    (forall name a, nth_error (heap (fst (step s' (OFieldOp (length (vecs s)) name a)))) id = nth_error (heap s) id) /\
    (forall name vals,
        nth_error (heap (fst (step s' (OSetFlattened (length (vecs s)) name vals)))) id = nth_error (heap s) id).
Proof.
  intros HS Hc u id Hu Hid.
  destruct (copy_disjoint s vi s' HS Hc) as (v & w & l & Hv & Hvs & Hh & _ & _ & _ & Hdis & _).
  assert (Hw : nth_error (vecs s') (length (vecs s)) = Some w).
  { rewrite Hvs. apply nth_error_alloc_new. }
  assert (Hn : ~ In (Some id) (leaves (vdata w))).
  { apply (Hdis u id Hu). apply reach_In. exact Hid. }
  assert (Hold : nth_error (heap s') id = nth_error (heap s) id).
  { rewrite Hh. apply nth_error_app1. eapply reach_lt; eauto. }
  destruct (inplace_frame s' (length (vecs s)) w id Hw Hn) as [F1 F2].
  split; intros; [rewrite (proj1 (F1 _ _))|rewrite (proj1 (F2 _ _))]; exact Hold.
Qed.

(* ================================================================ slicing succeeds *)
Lemma nodupb_complete l : NoDup l -> nodupb l = true.
Proof.
  induction 1 as [|x l Hx Hl IH]; simpl; [reflexivity|]. rewrite IH, andb_true_r.
  destruct (memz x l) eqn:E; [|reflexivity]. apply memz_In in E. contradiction.
Qed.

Lemma mk_schema_total shape fs us :
  Forall (fun z => 0 < z)%Z shape -> NoDup fs -> length us = length fs ->
  mk_schema shape (Some (Z.of_nat (length fs))) (Some fs) (Some us) = Some (map Z.to_nat shape, fs, us).
Proof.
  intros Hs Hf Hu. unfold mk_schema.
  assert (E : existsb (fun d => (d <=? 0)%Z) shape = false).
  { destruct (existsb (fun d => (d <=? 0)%Z) shape) eqn:E; [|reflexivity].
    apply existsb_exists in E. destruct E as [z [Hz Hle]]. rewrite Forall_forall in Hs. specialize (Hs z Hz). lia. }
  rewrite E, (nodupb_complete fs Hf), Z.eqb_refl, Hu, Nat.eqb_refl. reflexivity.
Qed.

Lemma resolve_take_nonempty : forall sh raw idxs,
  resolve_take sh raw = inr idxs -> Forall (fun ks : list nat => ks <> []) idxs.
Proof.
  induction sh as [|n sh IH]; intros raw idxs H; destruct raw as [|js rest]; simpl in H; try discriminate.
  - inversion H. constructor.
  - destruct (mapM (pyidx n) js) as [ks|]; [|discriminate]. destruct ks as [|k ks]; [discriminate|].
    destruct (resolve_take sh rest) as [e|r] eqn:Er; [discriminate|]. inversion H; subst.
    constructor; [discriminate|eapply IH; exact Er].
Qed.

(* every index expression that is not a full tuple of integers, has at most one entry per fixed
   dimension and resolves (per axis: Python wrap-around of every index, non-empty) yields a new
   Vector — for ANY number of fixed dimensions *)
Theorem slice_succeeds s vi v idx raw idxs :
  SInv s -> nth_error (vecs s) vi = Some v ->
  length idx <= length (vshape v) ->
  (length idx =? length (vshape v)) && forallb is_int idx = false ->
  resolve_raw (vshape v) (idx ++ repeat (ISlice None None None) (length (vshape v) - length idx)) = Some raw ->
  resolve_take (vshape v) raw = inr idxs ->
  exists s', step s (OGetItem vi idx) = (s', RNew).
Proof.
  intros HS Hv Hlen Hni Hraw Htake. simpl. unfold op_getitem. rewrite Hv.
  destruct (Nat.ltb_spec (length (vshape v)) (length idx)) as [Hlt|_]; [lia|].
  rewrite Hni. cbn [andb]. rewrite Hraw, Htake.
  destruct (SInv_vec s vi v HS Hv) as (_ & _ & V3 & V4 & _).
  rewrite mk_schema_total; auto; [eexists; reflexivity|].
  apply Forall_forall. intros z Hz. apply in_map_iff in Hz. destruct Hz as [ks [<- Hks]].
  pose proof (resolve_take_nonempty _ _ _ Htake) as Hne. rewrite Forall_forall in Hne. specialize (Hne ks Hks).
  destruct ks; [congruence|simpl; lia].
Qed.

(* ================================================================ get_data succeeds on in-range indices *)
Lemma res_checked_range n x l : res_checked n x = inr l -> 0 < n -> Forall (fun i => i < n) l.
Proof.
  intros H Hn. destruct x as [i|a b st|js]; simpl in H.
  - unfold inb in H. destruct ((0 <=? i)%Z && (i <? Z.of_nat n)%Z) eqn:E; [|discriminate]. inversion H.
    constructor; [lia|constructor].
  - destruct (slice_list n a b st) as [zs|] eqn:Es; [|discriminate]. inversion H; subst. clear H.
    unfold slice_list in Es. cbv zeta in Es.
    remember (match st with Some z => z | None => 1%Z end) as step eqn:Estep. clear Estep.
    destruct (step =? 0)%Z eqn:E0; [discriminate|]. apply Z.eqb_neq in E0.
    inversion Es; subst zs. clear Es. apply Forall_forall. intros k Hk.
    apply in_map_iff in Hk. destruct Hk as [z [<- Hz]]. apply in_map_iff in Hz. destruct Hz as [j [<- Hj]].
    apply in_seq in Hj. revert Hj.
    destruct (step <? 0)%Z eqn:En.
    + apply Z.ltb_lt in En.
      remember (match a with Some x => clampi (Z.of_nat n) (-1) (Z.of_nat n - 1) x | None => (Z.of_nat n - 1)%Z end)
        as start eqn:Est.
      remember (match b with Some x => clampi (Z.of_nat n) (-1) (Z.of_nat n - 1) x | None => (-1)%Z end)
        as stop eqn:Esp.
      assert (Hstart : (-1 <= start <= Z.of_nat n - 1)%Z).
      { subst start. destruct a as [x|]; [unfold clampi; destruct (Z.ltb_spec x 0)|]; lia. }
      assert (Hstop : (-1 <= stop <= Z.of_nat n - 1)%Z).
      { subst stop. destruct b as [x|]; [unfold clampi; destruct (Z.ltb_spec x 0)|]; lia. }
      clear Est Esp. intros Hj.
      assert (Hc : (0 <= Z.of_nat j < (start - stop - step - 1) / (- step))%Z) by lia.
      assert (Hm : ((- step) * ((start - stop - step - 1) / (- step)) <= start - stop - step - 1)%Z)
        by (apply Z.mul_div_le; lia).
      assert (Hq : (Z.of_nat j * (- step) < start - stop)%Z) by nia.
      nia.
    + apply Z.ltb_ge in En.
      remember (match a with Some x => clampi (Z.of_nat n) 0 (Z.of_nat n) x | None => 0%Z end) as start eqn:Est.
      remember (match b with Some x => clampi (Z.of_nat n) 0 (Z.of_nat n) x | None => Z.of_nat n end) as stop eqn:Esp.
      assert (Hstart : (0 <= start <= Z.of_nat n)%Z).
      { subst start. destruct a as [x|]; [unfold clampi; destruct (Z.ltb_spec x 0)|]; lia. }
      assert (Hstop : (0 <= stop <= Z.of_nat n)%Z).
      { subst stop. destruct b as [x|]; [unfold clampi; destruct (Z.ltb_spec x 0)|]; lia. }
      clear Est Esp. intros Hj.
      assert (Hc : (0 <= Z.of_nat j < (stop - start + step - 1) / step)%Z) by lia.
      assert (Hm : (step * ((stop - start + step - 1) / step) <= stop - start + step - 1)%Z)
        by (apply Z.mul_div_le; lia).
      assert (Hq : (Z.of_nat j * step < stop - start)%Z) by nia.
      nia.
  - destruct (forallb (inb n) js) eqn:E; [|discriminate]. inversion H; subst. clear H.
    rewrite forallb_forall in E. apply Forall_forall. intros k Hk. apply in_map_iff in Hk.
    destruct Hk as [z [<- Hz]]. specialize (E z Hz). unfold inb in E. lia.
Qed.

Lemma resolve_checked_range : forall sh idx idxs,
  Forall (fun n => 0 < n) sh -> length idx = length sh -> resolve_checked sh idx = inr idxs -> in_range idxs sh.
Proof.
  induction sh as [|n sh IH]; intros idx idxs Hpos Hlen H; destruct idx as [|x idx]; simpl in *; try discriminate.
  - inversion H. constructor.
  - destruct (res_checked n x) as [e|l] eqn:E1; [discriminate|].
    destruct (resolve_checked sh idx) as [e|r] eqn:E2; [discriminate|]. inversion H; subst.
    inversion Hpos; subst. constructor; [eapply res_checked_range; eauto|]. apply (IH idx); auto.
Qed.

Lemma cart_paths_range : forall idxs sh p, in_range idxs sh -> In p (cart idxs) -> Forall2 (fun i n => i < n) p sh.
Proof.
  intros idxs sh p Hr. revert p. induction Hr as [|js n rest sh Hjs Hr IH]; intros p Hp; simpl in Hp.
  - destruct Hp as [<-|[]]. constructor.
  - apply in_flat_map in Hp. destruct Hp as [i [Hi Hp]]. apply in_map_iff in Hp. destruct Hp as [q [<- Hq]].
    constructor; [|apply IH; exact Hq]. rewrite Forall_forall in Hjs. apply Hjs. exact Hi.
Qed.

Lemma mapM_total (A B : Type) (f : A -> option B) l : (forall x, In x l -> exists y, f x = Some y) -> exists ys, mapM f l = Some ys.
Proof.
  induction l as [|x l IH]; intros H; simpl; [eexists; reflexivity|].
  destruct (H x (or_introl eq_refl)) as [y ->]. destruct IH as [ys ->]; [intros; apply H; simpl; auto|].
  eexists; reflexivity.
Qed.

Theorem get_data_succeeds s vi v idx idxs :
  SInv s -> nth_error (vecs s) vi = Some v -> length idx = length (vshape v) ->
  resolve_checked (vshape v) idx = inr idxs ->
  forallb (fun l => length l =? 1) idxs = false ->
  exists ls, step s (OGetData vi idx) = (s, RCells ls) /\ map Some ls = map (tget (vdata v)) (cart idxs).
Proof.
  intros HS Hv Hlen Hres Hmulti. simpl. unfold op_get_data. rewrite Hv, Hlen, Nat.eqb_refl, Hres, Hmulti. cbn [negb].
  destruct (SInv_vec s vi v HS Hv) as (V1 & V2 & _).
  pose proof (resolve_checked_range _ _ _ V1 Hlen Hres) as Hr.
  destruct (mapM_total _ _ (tget (vdata v)) (cart idxs)) as [ls Hls].
  { intros p Hp. eapply tget_total; [exact V2|]. eapply cart_paths_range; eauto. }
  rewrite Hls. exists ls. split; [reflexivity|]. symmetry. apply mapM_spec. exact Hls.
Qed.

(* ================================================================ multi-cell set_data then get_data *)
Lemma eval_avals_new vs : forall cs h, forallb wf_cellb cs = true ->
  eval_avals vs h (map ANew cs) = (h ++ cs, map VId (seq (length h) (length cs))).
Proof.
  induction cs as [|c cs IH]; intros h H; simpl in *.
  - rewrite app_nil_r. reflexivity.
  - apply andb_true_iff in H. destruct H as [H1 H2]. rewrite H1. rewrite (IH (h ++ [c]) H2).
    rewrite <- app_assoc, app_length. simpl. rewrite Nat.add_1_r. reflexivity.
Qed.

Lemma cart_length_each : forall idxs p, In p (cart idxs) -> length p = length idxs.
Proof.
  induction idxs as [|js rest IH]; intros p Hp; simpl in Hp.
  - destruct Hp as [<-|[]]. reflexivity.
  - apply in_flat_map in Hp. destruct Hp as [i [_ Hp]]. apply in_map_iff in Hp. destruct Hp as [q [<- Hq]].
    simpl. f_equal. apply IH. exact Hq.
Qed.

Lemma mapM_of_map (A B : Type) (f : A -> option B) l ys : map f l = map Some ys -> mapM f l = Some ys.
Proof.
  revert ys. induction l as [|x l IH]; intros [|y ys] H; simpl in *; try discriminate; [reflexivity|].
  inversion H as [[H1 H2]]. rewrite H1, (IH ys H2). reflexivity.
Qed.

Theorem set_data_then_get_data s vi v idx idxs cs s' :
  nth_error (vecs s) vi = Some v ->
  resolve_checked (vshape v) idx = inr idxs ->
  forallb (fun l => length l =? 1) idxs = false ->
  NoDup (cart idxs) ->
  forallb wf_cellb cs = true ->
  step s (OSetData vi (SList (map ANew cs)) idx) = (s', RNone) ->
  step s' (OGetData vi idx) = (s', RCells (map Some (seq (length (heap s)) (length cs)))) /\
  length cs = length (cart idxs) /\ heap s' = heap s ++ cs.
Proof.
  intros Hv Hres Hmulti Hnd Hwf. simpl. unfold op_set_data. rewrite Hv.
  destruct (length idx =? length (vshape v)) eqn:Hlen; cbn [negb]; [|discriminate].
  rewrite Hres, Hmulti, (eval_avals_new (vecs s) cs (heap s) Hwf).
  rewrite map_length, seq_length.
  destruct (Nat.eqb_spec (length cs) (length (cart idxs))) as [Hcnt|]; cbn [negb]; [|discriminate].
  destruct (set_loop (heap s ++ cs) (length (vfields v)) (vdata v) (cart idxs) (map VId (seq (length (heap s)) (length cs))))
    as [t' e] eqn:El.
  destruct e as [e|]; [discriminate|]. cbn [res_of_err]. intros H. inversion H; subst s'. clear H.
  split; [|split; [exact Hcnt|reflexivity]].
  unfold op_get_data, set_vec. cbn [vecs heap nmeta].
  rewrite nth_error_upd_eq by (apply nth_error_Some; congruence).
  cbn [with_data vshape vdata]. rewrite Hlen. cbn [negb]. rewrite Hres, Hmulti.
  assert (Hget : map (tget t') (cart idxs) = map (fun id => Some (Some id)) (seq (length (heap s)) (length cs))).
  { eapply set_loop_get; [exact Hnd| |rewrite seq_length; exact Hcnt|exact El].
    intros p q Hp Hq. rewrite (cart_length_each _ _ Hp), (cart_length_each _ _ Hq). reflexivity. }
  rewrite (mapM_of_map _ _ (tget t') (cart idxs) (map Some (seq (length (heap s)) (length cs)))).
  - reflexivity.
  - rewrite Hget, map_map. reflexivity.
Qed.

(* ================================================================ history forms *)
Definition hist (ops : list op) : state := run ops init.

Lemma hist_inv ops : SInv (hist ops).
Proof. apply vec_inv_reachable. Qed.

Theorem flatten_is_rowmajor_concat_hist ops vi v name k :
  nth_error (vecs (hist ops)) vi = Some v -> index_of name (vfields v) = Some k ->
  step (hist ops) (OFieldFlatten vi name) =
    (hist ops, RCol (flat_map (cell_col k (heap (hist ops))) (map (tget (vdata v)) (ndindex (vshape v))))) /\
  step (hist ops) (OFlatten vi) =
    (hist ops, RFlat (length (vfields v))
                     (flat_map (cell_rows (heap (hist ops))) (map (tget (vdata v)) (ndindex (vshape v))))) /\
  Forall (fun r => length r = length (vfields v))
         (flat_map (cell_rows (heap (hist ops))) (map (tget (vdata v)) (ndindex (vshape v)))).
Proof. intros Hv Hk. apply flatten_is_rowmajor_concat; auto. apply hist_inv. Qed.

Theorem copy_disjoint_hist ops vi s' :
  step (hist ops) (OCopy vi) = (s', RNew) ->
  exists v w l,
    nth_error (vecs (hist ops)) vi = Some v /\ vecs s' = vecs (hist ops) ++ [w] /\ heap s' = heap (hist ops) ++ l /\
    vshape w = vshape v /\ vfields w = vfields v /\ vunits w = vunits v /\
    map (leaf_val (heap s')) (leaves (vdata w)) = map (leaf_val (heap (hist ops))) (leaves (vdata v)) /\
    (forall u id, In u (vecs (hist ops)) -> In id (reach u) -> ~ In id (reach w)) /\
    (forall u, In u (vecs (hist ops)) -> vmeta w <> vmeta u).
Proof.
  intros H. pose proof (hist_inv ops) as HS.
  destruct (copy_disjoint _ vi s' HS H) as (v & w & l & Hv & Hvs & Hh & E1 & E2 & E3 & Hdis & Hm).
  destruct (copy_same_contents _ vi s' HS H) as (v' & w' & Hv' & Hvs' & Hsame).
  assert (v' = v) by congruence. subst v'.
  assert (w' = w). { rewrite Hvs in Hvs'. apply app_inv_head in Hvs'. congruence. } subst w'.
  exists v, w, l. repeat split; auto.
  intros u id Hu Hid Hw. apply (Hdis u id Hu); apply reach_In; assumption.
Qed.

Theorem copy_independent_hist ops vi s' :
  step (hist ops) (OCopy vi) = (s', RNew) ->
  forall u id, In u (vecs (hist ops)) -> In id (reach u) ->
    (forall name a,
        nth_error (heap (fst (step s' (OFieldOp (length (vecs (hist ops))) name a)))) id = nth_error (heap (hist ops)) id) /\
    (forall name vals,
        nth_error (heap (fst (step s' (OSetFlattened (length (vecs (hist ops))) name vals)))) id =
        nth_error (heap (hist ops)) id).
Proof. intros H. apply copy_independent with (vi := vi); auto. apply hist_inv. Qed.

Theorem fresh_disjoint_from_shape_hist ops shape nf fields units s' :
  step (hist ops) (OFromShape shape nf fields units) = (s', RNew) ->
  exists w, vecs s' = vecs (hist ops) ++ [w] /\ heap s' = heap (hist ops) /\
            reach w = [] /\
            (forall u, In u (vecs (hist ops)) -> vmeta w <> vmeta u).
Proof.
  intros H. destruct (fresh_disjoint_from_shape _ _ _ _ _ _ (hist_inv ops) H) as (w & E1 & E2 & Hn & Hm).
  exists w. repeat split; auto.
  unfold reach. induction Hn as [|lf ls Hlf Hls IH]; simpl; [reflexivity|]. subst lf. exact IH.
Qed.

Theorem fresh_disjoint_from_data_hist ops items nf fields units s' :
  Forall (fun a => exists c, a = ANew c) items ->
  step (hist ops) (OFromData (Some items) nf fields units) = (s', RNew) ->
  exists w l, vecs s' = vecs (hist ops) ++ [w] /\ heap s' = heap (hist ops) ++ l /\
    (forall u id, In u (vecs (hist ops)) -> In id (reach u) -> ~ In id (reach w)) /\
    (forall u, In u (vecs (hist ops)) -> vmeta w <> vmeta u).
Proof.
  intros Hall H.
  destruct (fresh_disjoint_from_data _ _ _ _ _ _ (hist_inv ops) Hall H) as (w & l & E1 & E2 & Hdis & Hm).
  exists w, l. repeat split; auto.
  intros u id Hu Hid Hw. apply (Hdis u id Hu); apply reach_In; assumption.
Qed.

Theorem slice_addresses_cells_hist ops vi v idx s' :
  nth_error (vecs (hist ops)) vi = Some v -> step (hist ops) (OGetItem vi idx) = (s', RNew) ->
  exists raw idxs w,
    resolve_raw (vshape v) (idx ++ repeat (ISlice None None None) (length (vshape v) - length idx)) = Some raw /\
    resolve_take (vshape v) raw = inr idxs /\
    vecs s' = vecs (hist ops) ++ [w] /\ heap s' = heap (hist ops) /\
    vshape w = map (@length nat) idxs /\ vfields w = vfields v /\ vunits w = vunits v /\
    forall o, Forall2 (fun k js => k < length js) o idxs ->
      exists lf, tget (vdata w) o = Some lf /\ tget (vdata v) (src_of idxs o) = Some lf.
Proof. intros Hv H. apply (slice_addresses_cells (hist ops) vi v idx s' (hist_inv ops) Hv H). Qed.

Theorem slice_succeeds_hist ops vi v idx raw idxs :
  nth_error (vecs (hist ops)) vi = Some v ->
  length idx <= length (vshape v) ->
  (length idx =? length (vshape v)) && forallb is_int idx = false ->
  resolve_raw (vshape v) (idx ++ repeat (ISlice None None None) (length (vshape v) - length idx)) = Some raw ->
  resolve_take (vshape v) raw = inr idxs ->
  exists s', step (hist ops) (OGetItem vi idx) = (s', RNew).
Proof. intros. eapply slice_succeeds; eauto. apply hist_inv. Qed.

Theorem get_data_addresses_cells_hist ops vi v idx idxs :
  nth_error (vecs (hist ops)) vi = Some v -> length idx = length (vshape v) ->
  resolve_checked (vshape v) idx = inr idxs ->
  forallb (fun l => length l =? 1) idxs = false ->
  exists ls, step (hist ops) (OGetData vi idx) = (hist ops, RCells ls) /\
             map Some ls = map (tget (vdata v)) (cart idxs).
Proof. intros. eapply get_data_succeeds; eauto. apply hist_inv. Qed.
