(* C03 — NumPy-indexing specification np_index is well defined: every element of the result is
   read at a valid offset of the source buffer (no read outside the array, for every index
   expression: negative bounds and steps, Ellipsis, integer lists with broadcasting), and the
   result has exactly prod(shape) elements. *)
From Coq Require Import QArith String.
From QV.lib Require Import Prelude C03_Slice.
From QV.model Require Import C03_Model.
From QV.proof Require Import C03_Proofs.
From Coq Require Import List.
Import ListNotations.
Local Close Scope Q_scope.
Local Open Scope list_scope.

(* ------------------------------------------------------------------ coordinates *)
Lemma in_coords sh o : In o (coords sh) -> in_shape sh o.
Proof.
  revert o. induction sh as [|n r IH]; intros o H.
  - cbn in H. destruct H as [<-|[]]. exact I.
  - cbn [coords] in H. apply in_flat_map in H. destruct H as (i & Hi & H).
    apply in_map_iff in H. destruct H as (o' & <- & Ho'). apply in_seq in Hi.
    cbn [in_shape]. split; [lia|apply IH; exact Ho'].
Qed.

Lemma in_shape_nth sh : forall o j, in_shape sh o -> j < length sh -> nth j o 0 < nth j sh 0.
Proof.
  induction sh as [|n r IH]; intros o j H Hj; [cbn in Hj; lia|].
  destruct o as [|i o']; [contradiction|]. destruct H as [Hi Ho].
  destruct j as [|j]; [exact Hi|]. cbn [nth]. apply IH; [exact Ho|cbn in Hj; lia].
Qed.

(* ------------------------------------------------------------------ per-axis validity *)
Definition vrel (m : nat) (y : nidx) (n : nat) : Prop :=
  match y with
  | NI k => k < n
  | NS st sp len => forall j, j < len -> (0 <= st + sp * Z.of_nat j < Z.of_nat n)%Z
  | NL l => m = 0 \/ (Forall (fun z => (0 <= z < Z.of_nat n)%Z) l /\ (length l = 1 \/ length l = m))
  end.

Lemma pyidx_lt k n i : pyidx k n = Some i -> i < n.
Proof.
  unfold pyidx.
  destruct ((0 <=? k)%Z && (k <? Z.of_nat n)%Z) eqn:E1.
  - intros H. injection H as <-. apply andb_prop in E1. destruct E1 as [A B].
    apply Z.leb_le in A. apply Z.ltb_lt in B. lia.
  - destruct ((- Z.of_nat n <=? k)%Z && (k <? 0)%Z) eqn:E2; [|discriminate].
    intros H. injection H as <-. apply andb_prop in E2. destruct E2 as [A B].
    apply Z.leb_le in A. apply Z.ltb_lt in B. lia.
Qed.

Lemma norm_int_lt k n i : norm_int k n = Ok i -> i < n.
Proof.
  unfold norm_int. destruct (pyidx k n) as [j|] eqn:E; [|discriminate].
  intros H. injection H as <-. eapply pyidx_lt; exact E.
Qed.

Lemma norm_one_valid m x n y :
  norm_one (x, n) = Ok y -> match y with NL _ => True | _ => vrel m y n end.
Proof.
  destruct x as [k|a b c|l|]; cbn [norm_one]; intros H.
  - inv_bind H. injection H as <-. cbn [vrel]. eapply norm_int_lt; exact Hx.
  - destruct (slice_indices a b c (Z.of_nat n)) as [[[st sp] stp]|] eqn:E; [|discriminate].
    injection H as <-. cbn [vrel]. intros j Hj.
    apply (slice_indices_in_range a b c (Z.of_nat n) st sp stp (Z.of_nat j)); [lia|exact E|].
    pose proof (slice_len_nonneg st sp stp). lia.
  - injection H as <-. exact I.
  - injection H as <-. cbn [vrel]. intros j Hj. lia.
Qed.

Lemma bcast_lens ls : forall m, bcast ls = Some m -> Forall (fun x => x = 1 \/ x = m) ls.
Proof.
  induction ls as [|x r IH]; intros m H; [constructor|]. cbn [bcast] in H.
  destruct (bcast r) as [m'|]; [|discriminate]. specialize (IH m' eq_refl). unfold bc2 in H.
  destruct (x =? m') eqn:E1.
  - injection H as <-. apply Nat.eqb_eq in E1. subst m'. constructor; [right; reflexivity|exact IH].
  - destruct (x =? 1) eqn:E2.
    + injection H as <-. apply Nat.eqb_eq in E2. constructor; [left; exact E2|exact IH].
    + destruct (m' =? 1) eqn:E3; [|discriminate]. injection H as <-. apply Nat.eqb_eq in E3. subst m'.
      constructor; [right; reflexivity|]. eapply Forall_impl; [|exact IH].
      intros a [Ha|Ha]; left; exact Ha.
Qed.

Lemma mapM_norm_int n l : forall l',
  mapM (fun k => norm_int k n) l = Ok l' -> length l' = length l /\ Forall (fun i => i < n) l'.
Proof.
  induction l as [|k r IH]; intros l' H; cbn [mapM] in H.
  - injection H as <-. split; [reflexivity|constructor].
  - inv_bind H. inv_bind H. injection H as <-. destruct (IH _ Hx0) as [L F].
    split; [cbn [length]; lia|]. constructor; [eapply norm_int_lt; exact Hx|exact F].
Qed.

(* after normalisation and the bounds check of the lists every axis index is valid *)
Lemma vrel_all m : forall sh ex nix0 nix,
  mapM norm_one (combine ex sh) = Ok nix0 ->
  Forall (fun x => x = 1 \/ x = m) (list_lens nix0) ->
  check_lists m nix0 sh = Ok nix ->
  length ex = length sh ->
  Forall2 (vrel m) nix sh.
Proof.
  unfold check_lists.
  induction sh as [|n sh IH]; intros ex nix0 nix H0 HL HC Hlen.
  - destruct ex; [|discriminate]. cbn in H0. injection H0 as <-. cbn in HC. injection HC as <-. constructor.
  - destruct ex as [|x ex]; [discriminate|]. cbn [combine mapM] in H0.
    apply bind_ok in H0. destruct H0 as (y & Hy & H0).
    apply bind_ok in H0. destruct H0 as (ys & Hys & H0). injection H0 as <-.
    cbn [combine mapM] in HC.
    apply bind_ok in HC. destruct HC as (y' & Hy' & HC).
    apply bind_ok in HC. destruct HC as (ys' & Hys' & HC). injection HC as <-.
    unfold list_lens in HL. cbn [flat_map] in HL. apply Forall_app in HL. destruct HL as [HLy HLr].
    constructor.
    + pose proof (norm_one_valid m x n y Hy) as Hv.
      destruct y as [k|st sp len|l]; cbn in Hy'.
      * injection Hy' as <-. exact Hv.
      * injection Hy' as <-. exact Hv.
      * inversion HLy as [|a b Hlen1 _]; subst.
        destruct (m =? 0) eqn:Em.
        -- injection Hy' as <-. left. apply Nat.eqb_eq. exact Em.
        -- apply bind_ok in Hy'. destruct Hy' as (l' & Hl' & Hy'). injection Hy' as <-.
           destruct (mapM_norm_int n l l' Hl') as [L F]. right. split.
           ++ apply Forall_forall. intros z Hz. apply in_map_iff in Hz. destruct Hz as (i & <- & Hi).
              rewrite Forall_forall in F. specialize (F i Hi). lia.
           ++ rewrite map_length, L. exact Hlen1.
    + apply (IH ex ys ys'); [exact Hys|exact HLr|exact Hys'|cbn in Hlen; lia].
Qed.

(* ------------------------------------------------------------------ the result axes *)
Lemma slice_axes_app a b : slice_axes (a ++ b) = slice_axes a ++ slice_axes b.
Proof. unfold slice_axes. apply flat_map_app. Qed.

Lemma slice_axes_In ix a :
  In a (slice_axes ix) -> exists p st sp len, a = OSlice p st sp len /\ In (p, NS st sp len) ix.
Proof.
  unfold slice_axes. intros H. apply in_flat_map in H. destruct H as ([p y] & Hp & H).
  cbn [fst snd] in H. destruct y as [k|st sp len|l]; try contradiction.
  destruct H as [<-|[]]. exists p, st, sp, len. split; [reflexivity|exact Hp].
Qed.

Lemma slice_axes_In' ix p st sp len : In (p, NS st sp len) ix -> In (OSlice p st sp len) (slice_axes ix).
Proof.
  unfold slice_axes. intros H. apply in_flat_map. exists (p, NS st sp len). split; [exact H|].
  cbn [fst snd]. left. reflexivity.
Qed.

Lemma out_axes_In sep nix m a :
  In a (np_out_axes sep nix m) ->
  (exists p st sp len, a = OSlice p st sp len /\ In (p, NS st sp len) (indexed nix)) \/
  (exists q, a = OBcast q m).
Proof.
  unfold np_out_axes. destruct (existsb is_NL nix).
  - destruct sep.
    + intros [<-|H]; [right; eexists; reflexivity|left; apply slice_axes_In; exact H].
    + intros H. apply in_app_iff in H. destruct H as [H|[<-|H]].
      * left. apply slice_axes_In in H. destruct H as (p & st & sp & len & E & H).
        exists p, st, sp, len. split; [exact E|].
        rewrite <- (firstn_skipn (first_pos (fun x => negb (is_NS x)) nix) (indexed nix)).
        apply in_app_iff. left. exact H.
      * right. eexists. reflexivity.
      * left. apply slice_axes_In in H. destruct H as (p & st & sp & len & E & H).
        exists p, st, sp, len. split; [exact E|].
        rewrite <- (firstn_skipn (first_pos (fun x => negb (is_NS x)) nix) (indexed nix)).
        apply in_app_iff. right. exact H.
  - intros H. left. apply slice_axes_In. exact H.
Qed.

Lemma out_axes_slice sep nix m p st sp len :
  In (p, NS st sp len) (indexed nix) -> In (OSlice p st sp len) (np_out_axes sep nix m).
Proof.
  intros H. apply slice_axes_In' in H. unfold np_out_axes. destruct (existsb is_NL nix); [|exact H].
  destruct sep; [right; exact H|].
  rewrite <- (firstn_skipn (first_pos (fun x => negb (is_NS x)) nix) (indexed nix)) in H.
  rewrite slice_axes_app in H. apply in_app_iff in H. apply in_app_iff.
  destruct H as [H|H]; [left; exact H|right; right; exact H].
Qed.

Lemma out_axes_bcast sep nix m :
  existsb is_NL nix = true -> exists q, In (OBcast q m) (np_out_axes sep nix m).
Proof.
  intros H. unfold np_out_axes. rewrite H. eexists. destruct sep; [left; reflexivity|].
  apply in_app_iff. right. left. reflexivity.
Qed.

Lemma indexed_from_In (A : Type) (l : list A) : forall k p y,
  In (p, y) (combine (seq k (length l)) l) <-> k <= p /\ nth_error l (p - k) = Some y.
Proof.
  induction l as [|x r IH]; intros k p y; cbn [length seq combine In].
  - split; [contradiction|]. intros [_ H]. destruct (p - k); discriminate.
  - rewrite IH. split.
    + intros [H|[H1 H2]].
      * injection H as <- <-. split; [lia|]. rewrite Nat.sub_diag. reflexivity.
      * split; [lia|]. replace (p - k) with (S (p - S k)) by lia. exact H2.
    + intros [H1 H2]. destruct (Nat.eq_dec p k) as [->|Hne].
      * rewrite Nat.sub_diag in H2. cbn in H2. injection H2 as <-. left. reflexivity.
      * right. split; [lia|]. replace (p - k) with (S (p - S k)) in H2 by lia. exact H2.
Qed.

Lemma indexed_In (A : Type) (l : list A) p y : In (p, y) (indexed l) <-> nth_error l p = Some y.
Proof.
  unfold indexed. rewrite indexed_from_In, Nat.sub_0_r. split; [intros [_ H]; exact H|intros H; split; [lia|exact H]].
Qed.

Lemma nth_map' (A B : Type) (f : A -> B) l : forall j d d', j < length l -> nth j (map f l) d = f (nth j l d').
Proof.
  induction l as [|x r IH]; intros j d d' H; [cbn in H; lia|].
  destruct j as [|j]; [reflexivity|]. cbn [map nth]. apply IH. cbn in H. lia.
Qed.

Lemma In_nth_olen oax a o :
  In a oax -> in_shape (map olen oax) o -> exists j, j < length oax /\ nth j oax a = a /\ nth j o 0 < olen a.
Proof.
  intros Ha Ho. destruct (In_nth _ _ a Ha) as (j & Hj & E). exists j. split; [exact Hj|]. split; [exact E|].
  pose proof (in_shape_nth (map olen oax) o j Ho) as H. rewrite map_length in H. specialize (H Hj).
  rewrite (nth_map' _ _ olen oax j 0 a Hj), E in H. exact H.
Qed.

(* ------------------------------------------------------------------ source coordinates are valid *)
Lemma Forall2_nth_error (A B : Type) (R : A -> B -> Prop) l l' : Forall2 R l l' ->
  forall p x y, nth_error l p = Some x -> nth_error l' p = Some y -> R x y.
Proof.
  intros H. induction H as [|a b l l' Hab _ IH]; intros p x y H1 H2.
  - destruct p; discriminate.
  - destruct p as [|p]; cbn in H1, H2.
    + injection H1 as <-. injection H2 as <-. exact Hab.
    + eapply IH; eassumption.
Qed.

Lemma in_shape_map_indexed (g : nat * nidx -> nat) : forall nix sh k,
  length nix = length sh ->
  (forall p y n, nth_error nix p = Some y -> nth_error sh p = Some n -> g (k + p, y) < n) ->
  in_shape sh (map g (combine (seq k (length nix)) nix)).
Proof.
  induction nix as [|y r IH]; intros sh k Hl H; destruct sh as [|n sh]; try discriminate.
  - exact I.
  - cbn [length seq combine map in_shape]. split.
    + specialize (H 0 y n eq_refl eq_refl). rewrite Nat.add_0_r in H. exact H.
    + apply IH; [cbn in Hl; lia|]. intros p y' n' H1 H2.
      specialize (H (S p) y' n' H1 H2). rewrite Nat.add_succ_r in H. exact H.
Qed.

Lemma first_pos_nth (A : Type) (p : A -> bool) l d :
  existsb p l = true -> first_pos p l < length l /\ p (nth (first_pos p l) l d) = true.
Proof. apply first_pos_hit. Qed.

Lemma src_coord_in_shape m sep nix sh o :
  Forall2 (vrel m) nix sh ->
  in_shape (map olen (np_out_axes sep nix m)) o ->
  in_shape sh (src_coord nix (np_out_axes sep nix m) o).
Proof.
  intros HV Ho. set (oax := np_out_axes sep nix m) in *.
  unfold src_coord, indexed. apply in_shape_map_indexed; [eapply Forall2_len; exact HV|].
  intros p y n Hy Hn. cbn [Nat.add fst snd].
  pose proof (Forall2_nth_error _ _ _ _ _ HV p y n Hy Hn) as Hv.
  destruct y as [k|st sp len|l]; cbn [vrel] in Hv.
  - exact Hv.
  - (* a sliced axis: the result coordinate along it is below its length *)
    assert (Hin : In (OSlice p st sp len) oax) by (apply out_axes_slice, indexed_In; exact Hy).
    assert (Hex : existsb (is_oslice_of p) oax = true).
    { apply existsb_exists. exists (OSlice p st sp len). split; [exact Hin|]. cbn. apply Nat.eqb_refl. }
    destruct (first_pos_nth _ (is_oslice_of p) oax (OSlice p st sp len) Hex) as [Hj Hp].
    set (j := first_pos (is_oslice_of p) oax) in *.
    assert (Ha : nth j oax (OSlice p st sp len) = OSlice p st sp len).
    { pose proof (nth_In oax (OSlice p st sp len) Hj) as Hm.
      destruct (nth j oax (OSlice p st sp len)) as [p' st' sp' len'|q' l'] eqn:E; [|discriminate].
      cbn in Hp. apply Nat.eqb_eq in Hp. subst p'.
      destruct (out_axes_In _ _ _ _ Hm) as [(p2 & a & b & c & E2 & H2)|(q & E2)]; [|discriminate].
      injection E2 as -> -> -> ->. apply indexed_In in H2. rewrite Hy in H2. injection H2 as <- <- <-.
      reflexivity. }
    pose proof (in_shape_nth (map olen oax) o j Ho) as Hlt. rewrite map_length in Hlt. specialize (Hlt Hj).
    rewrite (nth_map' _ _ olen oax j 0 (OSlice p st sp len) Hj), Ha in Hlt. cbn [olen] in Hlt.
    specialize (Hv _ Hlt). lia.
  - (* a list-indexed axis *)
    assert (HNL : existsb is_NL nix = true).
    { apply existsb_exists. exists (NL l). split; [eapply nth_error_In; exact Hy|reflexivity]. }
    destruct (out_axes_bcast sep nix m HNL) as (q & Hq). fold oax in Hq.
    destruct (In_nth_olen oax (OBcast q m) o Hq Ho) as (jb & Hjb & Eb & Hlt). cbn [olen] in Hlt.
    destruct Hv as [->|[HF HLn]]; [lia|].
    rewrite Forall_forall in HF.
    assert (Hidx : (if length l =? 1 then 0 else nth (first_pos is_obcast oax) o 0) < length l).
    { destruct (length l =? 1) eqn:E1; [apply Nat.eqb_eq in E1; lia|].
      apply Nat.eqb_neq in E1. destruct HLn as [HLn|HLn]; [contradiction|]. rewrite HLn.
      assert (Hex : existsb is_obcast oax = true).
      { apply existsb_exists. exists (OBcast q m). split; [exact Hq|reflexivity]. }
      destruct (first_pos_nth _ is_obcast oax (OBcast q m) Hex) as [Hj Hp].
      set (j := first_pos is_obcast oax) in *.
      pose proof (nth_In oax (OBcast q m) Hj) as Hm.
      destruct (nth j oax (OBcast q m)) as [p' st' sp' len'|q' m'] eqn:E; [discriminate|].
      destruct (out_axes_In _ _ _ _ Hm) as [(p2 & a & b & c & E2 & _)|(q2 & E2)]; [discriminate|].
      injection E2 as -> ->.
      pose proof (in_shape_nth (map olen oax) o j Ho) as Hl. rewrite map_length in Hl. specialize (Hl Hj).
      rewrite (nth_map' _ _ olen oax j 0 (OBcast q m) Hj), E in Hl. exact Hl. }
    set (ix := if length l =? 1 then 0 else nth (first_pos is_obcast oax) o 0) in *.
    specialize (HF (nth ix l 0%Z) (nth_In l 0%Z Hidx)). lia.
Qed.

(* ------------------------------------------------------------------ the theorem *)
Theorem np_index_in_bounds sh fl idx v :
  np_index sh fl idx = Ok v ->
  length (np_flat v) = prodn (np_shape v) /\
  Forall (fun x => exists j, j < prodn sh /\ x = nth j fl 0%Z) (np_flat v).
Proof.
  unfold np_index. intros H. inv_bind H. rename x into ex. inv_bind H. rename x into nix0.
  destruct (bcast (list_lens nix0)) as [m|] eqn:Eb; [|discriminate].
  inv_bind H. rename x into nix. injection H as <-. cbn [np_flat np_shape].
  split; [rewrite map_length; apply coords_length|].
  destruct (code_expand_np _ _ _ Hx) as (_ & Hlen & _).
  pose proof (vrel_all m sh ex nix0 nix Hx0 (bcast_lens _ _ Eb) Hx1 Hlen) as HV.
  apply Forall_forall. intros x Hin. apply in_map_iff in Hin. destruct Hin as (o & <- & Ho).
  apply in_coords in Ho.
  eexists. split; [|reflexivity]. apply ravel_lt. apply (src_coord_in_shape m _ nix sh o HV Ho).
Qed.
