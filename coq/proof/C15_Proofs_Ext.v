(* C15 — round-3 extension proofs (additive to proof/C15_Proofs.v). *)
From QV.lib Require Import Prelude Chunks.
From QV.model Require Import C15_Model.
From QV.proof Require Import C15_Proofs.
From Coq Require Import QArith Qround Qfield Lqa.
Local Open Scope Q_scope.

(* ------------------------------------------------------------------ extensionality in the knots *)
(* transform_row_comp reads the knots j < K only, and respects == *)
Lemma transform_row_comp_ext W K f kn kn' col :
  (1 <= K <= 4)%nat ->
  (forall j, (j < K)%nat -> kn j == kn' j) ->
  transform_row_comp W K f kn col == transform_row_comp W K f kn' col.
Proof.
  intros HK E.
  destruct K as [|[|[|[|[|K]]]]]; try lia;
    unfold transform_row_comp, lagrange, lagrange_weight;
    cbn [seq fold_right Nat.eqb];
    repeat match goal with
           | |- context [kn ?j] =>
               let Hj := fresh "Hj" in
               assert (Hj : kn j == kn' j) by (apply E; lia); rewrite Hj; clear Hj
           end; reflexivity.
Qed.

(* ------------------------------------------------------------------ straight lines, any K >= 2 *)
(* knots a + basis_j * b (uniform spacing on a straight line) are reproduced as the affine function
   a + u * b of the line parameter: 2 knots by the linear interpolant, 3 and 4 knots by the
   interpolating polynomial.  No relation between b and the scan direction is needed. *)
Lemma row_affine W K f a b col :
  (2 <= K <= 4)%nat ->
  transform_row_comp W K f (fun j => a + basis K j * b) col == a + u_param W col * b.
Proof.
  intros HK.
  destruct K as [|[|[|[|[|K]]]]]; try lia;
    unfold transform_row_comp, lagrange, lagrange_weight, basis;
    cbn [seq fold_right Nat.eqb linspace]; generalize (u_param W col); intros u;
    unfold qn; cbn [Z.of_nat Pos.of_succ_nat Pos.succ]; field.
Qed.

Lemma row_one_knot W f a col :
  transform_row_comp W 1 f (fun _ => a) col == a + u_param W col * (f * (qn W - 1)).
Proof. unfold transform_row_comp. ring. Qed.

Lemma basis_one j : basis 1 j = 0.
Proof. reflexivity. Qed.

(* coordinates of a scan line whose knots are straight and uniformly spaced *)
Theorem coords_straight_knots (W K : nat) (s c : Q) (A B : nat -> vec) (r col : nat) :
  (2 <= K <= 4)%nat ->
  veq (transform_coordinates W K s c (straight_knots K A B) r col)
      (vadd (A r) (vscale (u_param W col) (B r))).
Proof.
  intros HK. unfold veq, transform_coordinates, straight_knots, vadd, vscale. cbn [fst snd].
  split; apply row_affine; exact HK.
Qed.

(* the same statement for knots GIVEN pointwise (up to ==), e.g. measured from the implementation *)
Theorem coords_straight_knots_pointwise (W K : nat) (s c : Q) (kn : knots_t) (a b : vec)
        (r col : nat) :
  (2 <= K <= 4)%nat ->
  (forall j, (j < K)%nat -> veq (kn r j) (vadd a (vscale (basis K j) b))) ->
  veq (transform_coordinates W K s c kn r col) (vadd a (vscale (u_param W col) b)).
Proof.
  intros HK E. unfold veq, transform_coordinates, vadd, vscale in *. cbn [fst snd] in *.
  split.
  - rewrite (transform_row_comp_ext W K _ (fun j => fst (kn r j))
               (fun j => fst a + basis K j * fst b)) by (try lia; intros j Hj; apply (E j Hj)).
    apply row_affine; exact HK.
  - rewrite (transform_row_comp_ext W K _ (fun j => snd (kn r j))
               (fun j => snd a + basis K j * snd b)) by (try lia; intros j Hj; apply (E j Hj)).
    apply row_affine; exact HK.
Qed.

(* one knot: the line leaves the knot along scan_fast, (W-1) pixels long *)
Theorem coords_one_knot (W : nat) (s c : Q) (A B : nat -> vec) (r col : nat) :
  veq (transform_coordinates W 1 s c (straight_knots 1 A B) r col)
      (vadd (A r) (vscale (u_param W col) (vscale (qn W - 1) (scan_fast s c)))).
Proof.
  unfold veq, transform_coordinates, straight_knots, vadd, vscale, scan_fast, transform_row_comp.
  cbn [fst snd]. rewrite basis_one. split; ring.
Qed.

(* hence: straight knots whose end-to-end vector is (W-1) * scan_fast give the SAME coordinates for
   1, 2, 3 and 4 knots, wherever the lines start (A arbitrary per row: shifted, sheared, ... stacks) *)
Theorem knots_agree_straight (W K K' : nat) (s c : Q) (A : nat -> vec) (r col : nat) :
  (1 <= K <= 4)%nat -> (1 <= K' <= 4)%nat ->
  veq (transform_coordinates W K s c
         (straight_knots K A (fun _ => vscale (qn W - 1) (scan_fast s c))) r col)
      (transform_coordinates W K' s c
         (straight_knots K' A (fun _ => vscale (qn W - 1) (scan_fast s c))) r col).
Proof.
  intros HK HK'.
  assert (G : forall k, (1 <= k <= 4)%nat ->
            veq (transform_coordinates W k s c
                   (straight_knots k A (fun _ => vscale (qn W - 1) (scan_fast s c))) r col)
                (vadd (A r) (vscale (u_param W col) (vscale (qn W - 1) (scan_fast s c))))).
  { intros k Hk. destruct (Nat.eq_dec k 1) as [->|N].
    - apply coords_one_knot.
    - apply (coords_straight_knots W k s c A (fun _ => vscale (qn W - 1) (scan_fast s c)) r col). lia. }
  eapply veq_trans; [apply G; exact HK|]. apply veq_sym. apply G; exact HK'.
Qed.

(* the initial knots are an instance *)
Lemma init_knot_straight rows cols H W K s c r j :
  (1 <= K <= 4)%nat -> (j < K)%nat ->
  veq (init_knot rows cols H W K s c r j)
      (straight_knots K
         (fun r => ( fst (canvas_centre rows cols) - half_extent W * s
                       + linspace (- half_extent H) (half_extent H) H r * c,
                     snd (canvas_centre rows cols) - half_extent W * c
                       + linspace (- half_extent H) (half_extent H) H r * - s ))
         (fun _ => vscale (qn W - 1) (scan_fast s c)) r j).
Proof.
  intros HK Hj.
  unfold veq, init_knot, straight_knots, vadd, vscale, scan_fast, scan_slow, basis. cbn [fst snd].
  generalize (linspace (- half_extent H) (half_extent H) H r). intros v.
  destruct K as [|[|[|[|[|K]]]]]; try lia;
    repeat (destruct j as [|j]; try lia);
    cbn [linspace Nat.eqb]; unfold half_extent, qn; cbn [Z.of_nat Pos.of_succ_nat Pos.succ];
    split; field.
Qed.

(* ------------------------------------------------------------------ row-dependent displacements *)
Theorem displacement_equivariant (W K : nat) (s c : Q) (kn : knots_t) (d : nat -> vec) (r col : nat) :
  (1 <= K <= 4)%nat ->
  veq (transform_coordinates W K s c (fun r j => vadd (kn r j) (d r)) r col)
      (vadd (transform_coordinates W K s c kn r col) (d r)).
Proof.
  intros HK. unfold veq, transform_coordinates, vadd. cbn [fst snd].
  split; apply row_shift; exact HK.
Qed.

(* after align_translation moved an initial stack by d: still the exact geometry, displaced by d *)
Theorem coords_after_translation (rows cols : Z) (H W K : nat) (s c : Q) (d : vec) (r col : nat) :
  (1 <= K <= 4)%nat -> (r < H)%nat -> (col < W)%nat ->
  veq (transform_coordinates W K s c (fun r j => vadd (init_knot rows cols H W K s c r j) d) r col)
      (vadd (expected_coordinate rows cols H W s c r col) d).
Proof.
  intros HK Hr Hc.
  eapply veq_trans; [apply translation_equivariant; exact HK|].
  destruct (coords_exact rows cols H W K s c r col HK Hr Hc) as [E0 E1].
  unfold veq, vadd. cbn [fst snd]. rewrite E0, E1. split; reflexivity.
Qed.

(* after the knot update of align_affine (scan line r displaced by (r - (H-1)/2) * dxy): the
   geometry is sheared by exactly that amount, for every knot count *)
Theorem coords_after_affine (rows cols : Z) (H W K : nat) (s c : Q) (dxy : vec) (r col : nat) :
  (1 <= K <= 4)%nat -> (r < H)%nat -> (col < W)%nat ->
  veq (transform_coordinates W K s c
         (affine_update_knots H dxy (init_knot rows cols H W K s c)) r col)
      (vadd (expected_coordinate rows cols H W s c r col) (vscale (qn r - half_extent H) dxy)).
Proof.
  intros HK Hr Hc. unfold affine_update_knots.
  eapply veq_trans;
    [apply (displacement_equivariant W K s c (init_knot rows cols H W K s c)
              (fun r => vscale (qn r - half_extent H) dxy) r col HK)|].
  destruct (coords_exact rows cols H W K s c r col HK Hr Hc) as [E0 E1].
  unfold veq, vadd. cbn [fst snd]. rewrite E0, E1. split; reflexivity.
Qed.

(* ------------------------------------------------------------------ rotation *)
(* the placement is a similarity with factor s^2 + c^2: an isometry exactly when (s, c) is a unit
   vector (the trigonometric oracle contract s = sin(-t), c = cos(-t)) *)
Theorem placement_sqdist (rows cols : Z) (H W : nat) (s c : Q) (r col r' col' : nat) :
  let p := expected_coordinate rows cols H W s c r col in
  let q := expected_coordinate rows cols H W s c r' col' in
  (fst p - fst q) * (fst p - fst q) + (snd p - snd q) * (snd p - snd q)
  == (s * s + c * c) * ((qn r - qn r') * (qn r - qn r') + (qn col - qn col') * (qn col - qn col')).
Proof.
  cbv zeta. unfold expected_coordinate, scan_fast, scan_slow. cbn [fst snd]. ring.
Qed.

Theorem placement_isometry (rows cols : Z) (H W : nat) (s c : Q) (r col r' col' : nat) :
  s * s + c * c == 1 ->
  let p := expected_coordinate rows cols H W s c r col in
  let q := expected_coordinate rows cols H W s c r' col' in
  (fst p - fst q) * (fst p - fst q) + (snd p - snd q) * (snd p - snd q)
  == (qn r - qn r') * (qn r - qn r') + (qn col - qn col') * (qn col - qn col').
Proof.
  intros U. cbv zeta. rewrite placement_sqdist. rewrite U. ring.
Qed.

(* the image centre goes to the canvas centre: the mean of the four corner pixels *)
Theorem placement_centre (rows cols : Z) (H W : nat) (s c : Q) :
  (1 <= H)%nat -> (1 <= W)%nat ->
  let e := expected_coordinate rows cols H W s c in
  fst (e 0 0)%nat + fst (e (H - 1) (W - 1))%nat == 2 * fst (canvas_centre rows cols) /\
  snd (e 0 0)%nat + snd (e (H - 1) (W - 1))%nat == 2 * snd (canvas_centre rows cols).
Proof.
  intros HH HW. cbv zeta. unfold expected_coordinate, scan_fast, scan_slow, half_extent. cbn [fst snd].
  destruct H as [|H]; [lia|]. destruct W as [|W]; [lia|].
  replace (S H - 1)%nat with H by lia. replace (S W - 1)%nat with W by lia.
  rewrite !qn_S. change (qn 0) with 0. split; field.
Qed.

(* ------------------------------------------------------------------ canvas of preprocess *)
Lemma round_half_even_ge_floor q : (Qfloor q <= round_half_even q)%Z.
Proof.
  unfold round_half_even. cbv zeta.
  destruct (Qcompare (q - inject_Z (Qfloor q)) (1 # 2)); [destruct (Z.even (Qfloor q))| |]; lia.
Qed.

Lemma round_half_even_pos q : 1 # 2 < q -> (1 <= round_half_even q)%Z.
Proof.
  intros Hq.
  destruct (Qlt_le_dec q 1) as [L|G].
  - assert (F : Qfloor q = 0%Z).
    { pose proof (Qfloor_le q) as A. pose proof (Qlt_floor q) as B.
      assert (0 <= Qfloor q)%Z.
      { assert (E : Qfloor (1 # 2) = 0%Z) by reflexivity.
        pose proof (Qfloor_resp_le _ _ (Qlt_le_weak _ _ Hq)). lia. }
      assert (Qfloor q < 1)%Z.
      { rewrite Zlt_Qlt. eapply Qle_lt_trans; [exact A | exact L]. }
      lia. }
    unfold round_half_even. cbv zeta. rewrite F.
    assert (C : (q - inject_Z 0 ?= 1 # 2) = Gt).
    { apply Qgt_alt. change (inject_Z 0) with 0. lra. }
    rewrite C. lia.
  - pose proof (round_half_even_ge_floor q) as R.
    assert (1 <= Qfloor q)%Z.
    { change 1%Z with (Qfloor 1). apply Qfloor_resp_le. exact G. }
    lia.
Qed.

(* the canvas is never empty for a pad fraction >= 0 and an extent >= 2, nor for an extent of 1 with
   a positive pad fraction (extent 1 and pad 0 is the one degenerate input: 2 * round(1/2) = 0) *)
Theorem canvas_dim_pos n pad :
  ((2 <= n)%nat /\ 0 <= pad) \/ ((1 <= n)%nat /\ 0 < pad) -> (0 < canvas_dim n pad)%Z.
Proof.
  intros D. unfold canvas_dim.
  assert (P : 1 # 2 < qn n * (1 + pad) / 2).
  { destruct D as [[Hn Hp]|[Hn Hp]].
    - assert (2 <= qn n).
      { unfold qn. change 2 with (inject_Z 2). rewrite <- Zle_Qle. lia. }
      apply Qlt_shift_div_l; [lra|]. nra.
    - assert (1 <= qn n).
      { unfold qn. change 1 with (inject_Z 1). rewrite <- Zle_Qle. lia. }
      apply Qlt_shift_div_l; [lra|]. nra. }
  pose proof (round_half_even_pos _ P). lia.
Qed.

(* preprocess end to end: canvas from the pad fraction, initial knots, bilinear splat: the weight
   map sums to H*W — no positivity side conditions left *)
Theorem preprocess_weights_total (H W K : nat) (pad s c : Q) :
  ((2 <= H)%nat /\ (2 <= W)%nat /\ 0 <= pad) \/ ((1 <= H)%nat /\ (1 <= W)%nat /\ 0 < pad) ->
  qsum (preprocess_weights H W K pad s c) == qn (H * W).
Proof.
  intros D. unfold preprocess_weights. cbv zeta.
  apply warp_weights_total; apply canvas_dim_pos; destruct D as [[A [B C]]|[A [B C]]]; auto.
Qed.

(* ------------------------------------------------------------------ wrap-around is row-major *)
Theorem flat_index_unravel rows cols i j :
  (0 < rows)%Z -> (0 < cols)%Z ->
  unravel cols (flat_index rows cols i j) = ((i mod rows)%Z, (j mod cols)%Z).
Proof.
  intros Hr Hc. unfold unravel, flat_index.
  pose proof (Z.mod_pos_bound j cols Hc) as Bj.
  f_equal.
  - rewrite Z.div_add_l by lia. rewrite Z.div_small by lia. lia.
  - rewrite Z.add_comm, Z.mod_add by lia. apply Z.mod_small. lia.
Qed.

(* a pixel that lands exactly on a canvas grid point puts its whole weight on that one cell *)
Theorem splat_on_grid rows cols (x y : Z) :
  Forall2 Qeq (map snd (splat rows cols (inject_Z x, inject_Z y))) [1; 0; 0; 0] /\
  fst (hd (0%Z, 0) (splat rows cols (inject_Z x, inject_Z y))) = flat_index rows cols x y.
Proof.
  split; [|unfold splat; cbv zeta; cbn [fst snd hd]; rewrite !Qfloor_Z; reflexivity].
  unfold splat. cbv zeta. cbn [fst snd map]. rewrite !Qfloor_Z.
  repeat constructor; ring.
Qed.

(* ------------------------------------------------------------------ upsampled warp *)
Theorem warp_weights_up_total urows ucols up H W K s c kn :
  (0 < urows)%Z -> (0 < ucols)%Z ->
  qsum (warp_weights_up urows ucols up H W K s c kn) == qn (H * W).
Proof.
  intros Hr Hc. unfold warp_weights_up. rewrite weight_map_total by assumption.
  unfold pixel_coordinates. rewrite !map_length, pixels_length. reflexivity.
Qed.

(* ------------------------------------------------------------------ batching of the splat *)
Lemma contributions_app rows cols a b :
  contributions rows cols (a ++ b) = contributions rows cols a ++ contributions rows cols b.
Proof. unfold contributions. apply flat_map_app. Qed.

Lemma cell_weight_app cs cs' k : cell_weight (cs ++ cs') k == cell_weight cs k + cell_weight cs' k.
Proof.
  unfold cell_weight. rewrite filter_app, map_app, qsum_app. reflexivity.
Qed.

(* accumulating np.bincount batch by batch gives the same cell as one pass over all points, for
   EVERY way of cutting the point list into consecutive batches *)
Theorem cell_weight_batched_any rows cols (batches : list (list vec)) k :
  cell_weight_batched rows cols batches k == cell_weight (contributions rows cols (concat batches)) k.
Proof.
  unfold cell_weight_batched. induction batches as [|b bs IH].
  - reflexivity.
  - cbn [map concat]. rewrite qsum_cons, contributions_app, cell_weight_app, IH. reflexivity.
Qed.

(* in particular for consecutive batches of at most b points (max_batch_size = b >= 1) *)
Theorem cell_weight_batched_chunks rows cols (b : nat) (pts : list vec) k :
  (1 <= b)%nat ->
  cell_weight_batched rows cols (chunks b pts) k == cell_weight (contributions rows cols pts) k.
Proof.
  intros Hb. rewrite cell_weight_batched_any. rewrite chunks_concat by exact Hb. reflexivity.
Qed.

(* ------------------------------------------------------------------ running reference *)
Lemma qn_S_neq0' k : ~ qn (S k) == 0.
Proof. apply qn_S_neq0. Qed.

Lemma ref_fold_mean k ref xs :
  (1 <= k)%nat ->
  ref_fold k ref xs == (qn k * ref + qsum xs) / qn (k + length xs).
Proof.
  revert k ref. induction xs as [|x xs IH]; intros k ref Hk.
  - cbn [ref_fold length qsum fold_right]. rewrite Nat.add_0_r.
    destruct k as [|k]; [lia|]. field. apply qn_S_neq0.
  - cbn [ref_fold length]. rewrite IH by lia. rewrite qsum_cons.
    replace (k + S (length xs))%nat with (S k + length xs)%nat by lia.
    unfold ref_update.
    assert (N1 : ~ qn (S k) == 0) by apply qn_S_neq0.
    assert (N2 : ~ qn (S k + length xs) == 0) by (cbn [plus]; apply qn_S_neq0).
    field. split; assumption.
Qed.

(* the reference after merging x0 ... x_m is their arithmetic mean *)
Theorem ref_running_mean x0 xs : ref_after x0 xs == qsum (x0 :: xs) / qn (S (length xs)).
Proof.
  unfold ref_after. rewrite ref_fold_mean by lia. rewrite qsum_cons.
  change (1 + length xs)%nat with (S (length xs)). change (qn 1) with 1.
  assert (N : ~ qn (S (length xs)) == 0) by apply qn_S_neq0.
  field. exact N.
Qed.

(* identical (shifted) images: the reference never changes *)
Theorem ref_identical_fixed x0 xs : (forall x, In x xs -> x == x0) -> ref_after x0 xs == x0.
Proof.
  intros E. rewrite ref_running_mean. rewrite qsum_cons.
  assert (S : qsum xs == qn (length xs) * x0).
  { rewrite <- (map_id xs) at 1. apply (qsum_map_const (fun x => x) x0 xs E). }
  rewrite S, qn_S. field.
  intros Z0. pose proof (qn_nonneg (length xs)). lra.
Qed.

(* ------------------------------------------------------------------ several passes *)
Theorem translation_fixed_point_passes n mis (passes : list (nat -> vec)) (kn : nat -> knots_t) i r j :
  (i < n)%nat ->
  (forall sh, In sh passes -> forall k, (1 <= k < n)%nat -> veq (sh k) (0, 0)) ->
  veq (align_passes n mis passes kn i r j) (kn i r j).
Proof.
  intros Hi. revert kn. induction passes as [|sh rest IH]; intros kn Hz.
  - apply veq_refl.
  - cbn [align_passes].
    eapply veq_trans.
    + apply IH. intros sh' Hin. apply Hz. right. exact Hin.
    + apply translation_fixed_point; [exact Hi|]. apply Hz. left. reflexivity.
Qed.

(* ------------------------------------------------------------------ partly identical stacks *)
(* the alignment only sees DIFFERENCES of measured shifts (no threshold) *)
Theorem applied_shift_difference n shifts i j :
  veq (fst (applied_shift n None shifts i) - fst (applied_shift n None shifts j),
       snd (applied_shift n None shifts i) - snd (applied_shift n None shifts j))
      (fst (measured shifts i) - fst (measured shifts j),
       snd (measured shifts i) - snd (measured shifts j)).
Proof.
  unfold veq, applied_shift. cbv zeta. cbn [fst snd]. split; ring.
Qed.

(* images with the same measured shift are displaced by the same vector — with a threshold as long
   as neither is the last image (the only one the threshold is applied to) *)
Theorem applied_shift_same n mis shifts i j :
  veq (measured shifts i) (measured shifts j) ->
  mis = None \/ (i <> (n - 1)%nat /\ j <> (n - 1)%nat) ->
  veq (applied_shift n mis shifts i) (applied_shift n mis shifts j).
Proof.
  intros [E0 E1] D. unfold applied_shift. cbv zeta.
  assert (G : veq (fst (measured shifts i) - fst (mean_shift n (measured shifts)),
                   snd (measured shifts i) - snd (mean_shift n (measured shifts)))
                  (fst (measured shifts j) - fst (mean_shift n (measured shifts)),
                   snd (measured shifts j) - snd (mean_shift n (measured shifts)))).
  { unfold veq. cbn [fst snd]. rewrite E0, E1. split; reflexivity. }
  destruct mis as [t|]; [|exact G].
  destruct D as [D|[Di Dj]]; [discriminate|].
  apply Nat.eqb_neq in Di. apply Nat.eqb_neq in Dj. rewrite Di, Dj. cbn [andb]. exact G.
Qed.

(* a stack whose first m images are identical (zero measured shifts among them): that sub-stack
   moves rigidly — every knot of every one of those images is displaced by the same vector, which
   is minus the mean of the measured shifts *)
Theorem partial_identical_rigid n mis shifts (kn : nat -> knots_t) m i i' r j r' j' :
  (forall k, (1 <= k < m)%nat -> veq (shifts k) (0, 0)) ->
  (i < m)%nat -> (i' < m)%nat ->
  mis = None \/ (m <= n - 1)%nat ->
  veq (fst (align_translation_knots n mis shifts kn i r j) - fst (kn i r j),
       snd (align_translation_knots n mis shifts kn i r j) - snd (kn i r j))
      (fst (align_translation_knots n mis shifts kn i' r' j') - fst (kn i' r' j'),
       snd (align_translation_knots n mis shifts kn i' r' j') - snd (kn i' r' j')).
Proof.
  intros Hz Hi Hi' D.
  assert (M : forall k, (k < m)%nat -> veq (measured shifts k) (0, 0)).
  { intros k Hk. destruct k as [|k]; [apply veq_refl|]. cbn [measured]. apply Hz. lia. }
  assert (S : veq (applied_shift n mis shifts i) (applied_shift n mis shifts i')).
  { apply applied_shift_same.
    - eapply veq_trans; [apply M; exact Hi|]. apply veq_sym. apply M; exact Hi'.
    - destruct D as [D|D]; [left; exact D | right; lia]. }
  destruct S as [S0 S1].
  unfold veq, align_translation_knots, vadd. cbn [fst snd]. rewrite S0, S1. split; ring.
Qed.

Theorem partial_identical_displacement n shifts (kn : nat -> knots_t) m i r j :
  (forall k, (1 <= k < m)%nat -> veq (shifts k) (0, 0)) ->
  (i < m)%nat ->
  veq (fst (align_translation_knots n None shifts kn i r j) - fst (kn i r j),
       snd (align_translation_knots n None shifts kn i r j) - snd (kn i r j))
      (- fst (mean_shift n (measured shifts)), - snd (mean_shift n (measured shifts))).
Proof.
  intros Hz Hi.
  assert (M : veq (measured shifts i) (0, 0)).
  { destruct i as [|i]; [apply veq_refl|]. cbn [measured]. apply Hz. lia. }
  destruct M as [M0 M1]. cbn [fst snd] in *.
  unfold veq, align_translation_knots, applied_shift, vadd. cbv zeta. cbn [fst snd].
  rewrite M0, M1. split; ring.
Qed.
