(* C06 — separability of the N-D Fourier resampling.  Dataset.fourier_resample runs every
   function over ALL listed axes at once: fftn, fftshift, centred crop / zero pad, ifftshift,
   ifftn, then one multiplication by N_out / N_in ([pipeline_nd] of model/C06_ModelND.v).
   The executable model and all one-axis theorems use the one-axis pipeline applied axis after
   axis ([resample_nd]).  Here: the two are EQUAL, for every dimension, every list of distinct
   axes and every target lengths — over any commutative ring (no root-of-unity hypothesis is
   needed: only that each stage is linear along its axis). *)
From Coq Require Import ZArith List Lia Ring Arith Bool.
From QV.lib Require Import Prelude FinSum DFT.
From QV.model Require Import C06_Model C06_ModelND.
From QV.proof Require Import C06_Proofs C06_Proofs_ND C06_Proofs_Resample C06_Proofs_Index.
Unset Implicit Arguments.

Section Separability.
  Variable R : Type.
  Variables (rO rI : R) (radd rmul rsub : R -> R -> R) (ropp : R -> R).
  Variable Rth : ring_theory rO rI radd rmul rsub ropp (@eq R).
  Add Ring Rring : Rth.
  Variable tw : nat -> Z -> R.
  Variable inv : nat -> R.
  Set Default Proof Using "All".

  Notation "0" := rO.  Notation "1" := rI.
  Infix "+" := radd.   Infix "*" := rmul.
  Notation sumn := (FinSum.sumn rO radd).
  Notation of_nat := (FinSum.of_nat rO rI radd).
  Notation get := (C06_ModelND.get rO).
  Notation lineop_at := (C06_ModelND.lineop_at rO).
  Notation mkstage := (C06_ModelND.mkstage rO).

  (* ---------------------------------------------------------------------------------- *)
  (* linear line operators: K x j = sum_i c j i * x i  for the outputs j < m *)
  Definition matop (n : nat) (c : nat -> nat -> R) (x : nat -> R) (j : nat) : R :=
    sumn n (fun i => c j i * x i).
  Definition is_lin (n m : nat) (K : (nat -> R) -> nat -> R) : Prop :=
    exists c, forall x j, (j < m)%nat -> K x j = matop n c x j.

  Lemma is_lin_ext_on n m K : is_lin n m K -> ext_on n m K.
  Proof.
    intros [c Hc] x y j Hj Hxy. rewrite !Hc by exact Hj. unfold matop.
    apply (sumn_ext Rth). intros i Hi. rewrite Hxy by exact Hi. reflexivity.
  Qed.

  Lemma is_lin_comp n m1 m2 K1 K2 :
    is_lin n m1 K1 -> is_lin m1 m2 K2 -> is_lin n m2 (fun x => K2 (K1 x)).
  Proof.
    intros [c1 H1] [c2 H2].
    exists (fun j i => sumn m1 (fun k => c2 j k * c1 k i)). intros x j Hj.
    rewrite H2 by exact Hj. unfold matop.
    rewrite (sumn_ext Rth m1 _ (fun k => sumn n (fun i => c2 j k * c1 k i * x i))).
    2:{ intros k Hk. rewrite H1 by exact Hk. unfold matop. rewrite <- (sumn_scale_l Rth).
        apply (sumn_ext Rth). intros; ring. }
    rewrite (sumn_swap Rth). apply (sumn_ext Rth). intros i _.
    rewrite <- (sumn_scale_r Rth). reflexivity.
  Qed.

  Lemma is_lin_scale n m K s : is_lin n m K -> is_lin n m (fun x j => s * K x j).
  Proof.
    intros [c H]. exists (fun j i => s * c j i). intros x j Hj. rewrite H by exact Hj. unfold matop.
    rewrite <- (sumn_scale_l Rth). apply (sumn_ext Rth). intros; ring.
  Qed.

  (* a gather (out[j] = x[src j] or zero) is linear *)
  Lemma gather_lin n m (src : nat -> option nat) K :
    (forall j i, (j < m)%nat -> src j = Some i -> (i < n)%nat) ->
    (forall x j, (j < m)%nat -> K x j = match src j with Some i => x i | None => 0 end) ->
    is_lin n m K.
  Proof.
    intros Hs HK.
    exists (fun j i => match src j with Some i' => if Nat.eqb i i' then 1 else 0 | None => 0 end).
    intros x j Hj. rewrite HK by exact Hj. unfold matop. destruct (src j) as [i'|] eqn:E.
    - rewrite (sumn_single Rth n _ i' (Hs j i' Hj E)).
      + rewrite Nat.eqb_refl. ring.
      + intros i _ Hne. apply Nat.eqb_neq in Hne. rewrite Hne. ring.
    - rewrite (sumn_ext Rth n _ (fun _ => 0)) by (intros; ring). symmetry. apply (sumn_zero Rth).
  Qed.

  (* the five stages, per line *)
  Lemma dft_lin n w : is_lin n n (dft rO radd rmul n w).
  Proof.
    exists (fun k i => w (Z.of_nat k * Z.of_nat i)%Z). intros x k _. unfold DFT.dft, matop.
    apply (sumn_ext Rth). intros; ring.
  Qed.

  Lemma idft_lin n w ninv : is_lin n n (idft rO radd rmul n w ninv).
  Proof.
    exists (fun j k => ninv * w (- (Z.of_nat k * Z.of_nat j))%Z). intros X j _. unfold DFT.idft, matop.
    rewrite <- (sumn_scale_l Rth). apply (sumn_ext Rth). intros; ring.
  Qed.

  Lemma roll_lin n s : (0 < n)%nat -> is_lin n n (roll n s).
  Proof.
    intros Hn. apply (gather_lin n n (fun j => Some (zidx n (Z.of_nat j - s)))).
    - intros j i _ E. assert (Hi : i = zidx n (Z.of_nat j - s)) by congruence. rewrite Hi. apply zidx_lt'. exact Hn.
    - intros x j _. reflexivity.
  Qed.

  Definition cp_src (n m i : nat) : option nat :=
    let oc := shift_center_index n in
    let nc := shift_center_index m in
    if (m <? n)%nat then Some (i + (oc - nc))%nat
    else if (n <? m)%nat then
      if ((nc - oc <=? i) && (i <? nc - oc + n))%nat then Some (i - (nc - oc))%nat else None
    else Some i.

  Lemma croppad_lin n m : is_lin n m (croppad rO n m).
  Proof.
    apply (gather_lin n m (cp_src n m)).
    - intros j i Hj. unfold cp_src. rewrite !sci_half.
      destruct (m <? n)%nat eqn:E1; [|destruct (n <? m)%nat eqn:E2].
      + apply Nat.ltb_lt in E1. intros E.
        assert (Hi : i = (j + (n / 2 - m / 2))%nat) by congruence.
        assert (m - m / 2 <= n - n / 2)%nat by lia. lia.
      + destruct ((m / 2 - n / 2 <=? j) && (j <? m / 2 - n / 2 + n))%nat eqn:E3; [|discriminate].
        intros E. assert (Hi : i = (j - (m / 2 - n / 2))%nat) by congruence. lia.
      + apply Nat.ltb_ge in E1. apply Nat.ltb_ge in E2. intros E. assert (Hi : i = j) by congruence. lia.
    - intros x j _. unfold croppad, cp_src.
      destruct (m <? n)%nat; [reflexivity|]. destruct (n <? m)%nat; [|reflexivity].
      destruct ((shift_center_index m - shift_center_index n <=? j)
                && (j <? shift_center_index m - shift_center_index n + n))%nat; reflexivity.
  Qed.

  (* ---------------------------------------------------------------------------------- *)
  (* a linear line operator along axis a, read with multi-indices *)
  Lemma get_lineop_lin a m K c (t : tensor R) J :
    (a < length (shape t))%nat ->
    (forall x j, (j < m)%nat -> K x j = matop (len_of a (shape t)) c x j) ->
    in_bounds (set_nth a m (shape t)) J ->
    get (lineop_at a m K t) J
    = sumn (len_of a (shape t)) (fun i => c (nth a J 0%nat) i * get t (set_nth a i J)).
  Proof.
    intros Ha Hc HJ.
    rewrite (get_lineop_at R rO a m K t J Ha); [| apply is_lin_ext_on; exists c; exact Hc | exact HJ].
    apply Hc. apply (in_bounds_set_shape a m _ J Ha). exact HJ.
  Qed.

  Lemma lineop_shape a m K (t : tensor R) : shape (lineop_at a m K t) = set_nth a m (shape t).
  Proof. reflexivity. Qed.

  (* operators along two different axes commute *)
  Lemma lineop_commute a b ma mb KA KB (t : tensor R) :
    wf t -> a <> b -> (a < length (shape t))%nat -> (b < length (shape t))%nat ->
    is_lin (len_of a (shape t)) ma KA -> is_lin (len_of b (shape t)) mb KB ->
    lineop_at a ma KA (lineop_at b mb KB t) = lineop_at b mb KB (lineop_at a ma KA t).
  Proof.
    intros Hw Hne Ha Hb [cA HA] [cB HB].
    set (sh := shape t) in *.
    assert (Hla : len_of a (set_nth b mb sh) = len_of a sh) by (apply len_set_nth_neq; [exact Hb | lia]).
    assert (Hlb : len_of b (set_nth a ma sh) = len_of b sh) by (apply len_set_nth_neq; [exact Ha | lia]).
    assert (Ha2 : (a < length (set_nth b mb sh))%nat) by (rewrite set_nth_length; assumption).
    assert (Hb2 : (b < length (set_nth a ma sh))%nat) by (rewrite set_nth_length; assumption).
    apply (tensor_ext rO).
    - apply lineop_at_wf. rewrite lineop_shape. exact Ha2.
    - apply lineop_at_wf. rewrite lineop_shape. exact Hb2.
    - rewrite !lineop_shape. apply set_nth_comm; assumption.
    - intros J HJ. rewrite !lineop_shape in HJ. fold sh in HJ.
      assert (HJ' : in_bounds (set_nth b mb (set_nth a ma sh)) J) by (rewrite <- set_nth_comm by assumption; exact HJ).
      pose proof (proj1 (in_bounds_set_shape a ma (set_nth b mb sh) J Ha2) HJ) as (Hl & Hja & Hoth).
      rewrite set_nth_length in Hl, Hoth by exact Hb.
      pose proof (Hoth b Hb ltac:(lia)) as Hjb. rewrite nth_set_nth_eq in Hjb by lia.
      assert (Hrest : forall c0, (c0 < length sh)%nat -> c0 <> a -> c0 <> b -> (nth c0 J 0 < nth c0 sh 0)%nat).
      { intros c0 Hc0 H1 H2. specialize (Hoth c0 Hc0 H1). rewrite nth_set_nth_neq in Hoth by lia. exact Hoth. }
      (* left-hand side *)
      rewrite (get_lineop_lin a ma KA cA (lineop_at b mb KB t) J);
        [| rewrite lineop_shape; exact Ha2 | rewrite lineop_shape; fold sh; rewrite Hla; exact HA
         | rewrite lineop_shape; exact HJ].
      rewrite lineop_shape. fold sh. rewrite Hla.
      rewrite (sumn_ext Rth (len_of a sh) _
                 (fun i => sumn (len_of b sh) (fun i' => cA (nth a J 0%nat) i * (cB (nth b J 0%nat) i' * get t (set_nth b i' (set_nth a i J)))))).
      2:{ intros i Hi. rewrite (get_lineop_lin b mb KB cB t (set_nth a i J) Hb HB).
          - rewrite nth_set_nth_neq by lia. fold sh. rewrite <- (sumn_scale_l Rth). reflexivity.
          - apply (in_bounds_set_shape b mb sh _ Hb). rewrite set_nth_length by lia.
            split; [exact Hl|]. split; [rewrite nth_set_nth_neq by lia; exact Hjb|].
            intros c0 Hc0 Hcb. destruct (Nat.eq_dec c0 a) as [->|Hca].
            + rewrite nth_set_nth_eq by lia. exact Hi.
            + rewrite nth_set_nth_neq by lia. apply Hrest; assumption. }
      (* right-hand side *)
      rewrite (get_lineop_lin b mb KB cB (lineop_at a ma KA t) J);
        [| rewrite lineop_shape; exact Hb2 | rewrite lineop_shape; fold sh; rewrite Hlb; exact HB
         | rewrite lineop_shape; exact HJ'].
      rewrite lineop_shape. fold sh. rewrite Hlb.
      rewrite (sumn_ext Rth (len_of b sh) _
                 (fun i' => sumn (len_of a sh) (fun i => cA (nth a J 0%nat) i * (cB (nth b J 0%nat) i' * get t (set_nth b i' (set_nth a i J)))))).
      2:{ intros i' Hi'. rewrite (get_lineop_lin a ma KA cA t (set_nth b i' J) Ha HA).
          - rewrite nth_set_nth_neq by lia. fold sh. rewrite <- (sumn_scale_l Rth).
            apply (sumn_ext Rth). intros i Hi. rewrite (set_nth_comm a b) by lia. ring.
          - apply (in_bounds_set_shape a ma sh _ Ha). rewrite set_nth_length by lia.
            split; [exact Hl|]. split; [rewrite nth_set_nth_neq by lia; exact Hja|].
            intros c0 Hc0 Hca. destruct (Nat.eq_dec c0 b) as [->|Hcb].
            + rewrite nth_set_nth_eq by lia. exact Hi'.
            + rewrite nth_set_nth_neq by lia. apply Hrest; assumption. }
      apply (sumn_swap Rth).
  Qed.

  (* two operators along the SAME axis compose *)
  Lemma lineop_compose a m1 m2 K1 K2 (t : tensor R) :
    wf t -> (a < length (shape t))%nat ->
    ext_on (len_of a (shape t)) m1 K1 -> ext_on m1 m2 K2 ->
    lineop_at a m2 K2 (lineop_at a m1 K1 t) = lineop_at a m2 (fun x => K2 (K1 x)) t.
  Proof.
    intros Hw Ha H1 H2. set (sh := shape t) in *.
    assert (Ha1 : (a < length (set_nth a m1 sh))%nat) by (rewrite set_nth_length; assumption).
    assert (Hs : set_nth a m2 (set_nth a m1 sh) = set_nth a m2 sh) by (apply set_nth_set_nth; lia).
    apply (tensor_ext rO).
    - apply lineop_at_wf. rewrite lineop_shape. exact Ha1.
    - apply lineop_at_wf. exact Ha.
    - rewrite !lineop_shape. exact Hs.
    - intros J HJ. rewrite !lineop_shape in HJ. fold sh in HJ.
      assert (HJ2 : in_bounds (set_nth a m2 sh) J) by (rewrite <- Hs; exact HJ).
      pose proof (proj1 (in_bounds_set_shape a m2 sh J Ha) HJ2) as (Hl & Hja & Hoth).
      rewrite (get_lineop_at R rO a m2 K2 (lineop_at a m1 K1 t) J);
        [| rewrite lineop_shape; exact Ha1
         | rewrite lineop_shape; fold sh; rewrite len_set_nth by lia; exact H2
         | rewrite lineop_shape; exact HJ].
      rewrite (get_lineop_at R rO a m2 (fun x => K2 (K1 x)) t J Ha); [| | exact HJ2].
      2:{ intros x y j Hj Hxy. apply H2; [exact Hj|]. intros i Hi. apply H1; assumption. }
      apply H2; [exact Hja|]. intros i Hi.
      rewrite (get_lineop_at R rO a m1 K1 t (set_nth a i J) Ha H1).
      + rewrite nth_set_nth_eq by lia. apply H1; [exact Hi|]. intros i' _.
        rewrite set_nth_set_nth by lia. reflexivity.
      + apply (in_bounds_set_shape a m1 sh _ Ha). rewrite set_nth_length by lia.
        split; [exact Hl|]. split; [rewrite nth_set_nth_eq by lia; exact Hi|].
        intros c0 Hc0 Hca. rewrite nth_set_nth_neq by lia. apply Hoth; assumption.
  Qed.

  (* scaling every entry *)
  Lemma get_scale_all s (t : tensor R) J : get (scale_all rmul s t) J = s * get t J.
  Proof.
    unfold C06_ModelND.get, scale_all. cbn [shape data].
    destruct (Nat.lt_ge_cases (ravel (shape t) J) (length (data t))) as [Hlt|Hge].
    - rewrite (nth_indep _ 0 (s * 0)) by (rewrite map_length; exact Hlt). apply map_nth.
    - rewrite !nth_overflow by (try rewrite map_length; exact Hge). ring.
  Qed.

  Lemma scale_all_wf s (t : tensor R) : wf t -> wf (scale_all rmul s t).
  Proof. unfold wf, scale_all. cbn [shape data]. rewrite map_length. auto. Qed.

  Lemma scale_scale s s' (t : tensor R) : scale_all rmul s (scale_all rmul s' t) = scale_all rmul (s * s') t.
  Proof.
    unfold scale_all. cbn [shape data]. f_equal. rewrite map_map. apply map_ext. intros; ring.
  Qed.

  Lemma scale_one (t : tensor R) : scale_all rmul 1 t = t.
  Proof.
    destruct t as [sh x]. unfold scale_all. cbn [shape data]. f_equal.
    rewrite <- (map_id x) at 2. apply map_ext. intros; ring.
  Qed.

  (* a linear operator is homogeneous, and a scaled operator is the scaled result *)
  Lemma lineop_scale_in a m K s (t : tensor R) :
    wf t -> (a < length (shape t))%nat -> is_lin (len_of a (shape t)) m K ->
    lineop_at a m K (scale_all rmul s t) = scale_all rmul s (lineop_at a m K t).
  Proof.
    intros Hw Ha [c Hc].
    apply (tensor_ext rO).
    - apply lineop_at_wf. exact Ha.
    - apply scale_all_wf. apply lineop_at_wf. exact Ha.
    - reflexivity.
    - intros J HJ. rewrite lineop_shape in HJ. cbn [scale_all shape] in HJ.
      rewrite get_scale_all.
      rewrite (get_lineop_lin a m K c (scale_all rmul s t) J Ha Hc HJ).
      rewrite (get_lineop_lin a m K c t J Ha Hc HJ).
      cbn [scale_all shape]. rewrite <- (sumn_scale_l Rth). apply (sumn_ext Rth). intros i _.
      rewrite get_scale_all. ring.
  Qed.

  Lemma lineop_scale_out a m K s (t : tensor R) :
    wf t -> (a < length (shape t))%nat -> ext_on (len_of a (shape t)) m K ->
    lineop_at a m (fun x j => s * K x j) t = scale_all rmul s (lineop_at a m K t).
  Proof.
    intros Hw Ha HK.
    apply (tensor_ext rO).
    - apply lineop_at_wf. exact Ha.
    - apply scale_all_wf. apply lineop_at_wf. exact Ha.
    - reflexivity.
    - intros J HJ. rewrite lineop_shape in HJ.
      rewrite get_scale_all.
      rewrite (get_lineop_at R rO a m _ t J Ha); [| | exact HJ].
      + rewrite (get_lineop_at R rO a m K t J Ha HK HJ). reflexivity.
      + intros x y j Hj Hxy. f_equal. apply HK; assumption.
  Qed.

  (* ---------------------------------------------------------------------------------- *)
  (* stages *)
  Definition good (nd : nat) (t : tensor R) : Prop :=
    wf t /\ length (shape t) = nd /\ forall b, (b < nd)%nat -> (0 < len_of b (shape t))%nat.

  Definition lin_stage (olen : nat -> nat -> nat) (K : nat -> nat -> (nat -> R) -> nat -> R) : Prop :=
    forall n m, (0 < n)%nat -> (0 < m)%nat -> is_lin n (olen n m) (K n m) /\ (0 < olen n m)%nat.

  Lemma mkstage_good olen K nd a m t :
    lin_stage olen K -> (a < nd)%nat -> (0 < m)%nat -> good nd t -> good nd (mkstage olen K a m t).
  Proof.
    intros HL Ha Hm (Hw & Hnd & Hpos). unfold C06_ModelND.mkstage. repeat split.
    - apply lineop_at_wf. lia.
    - rewrite lineop_shape, set_nth_length by lia. exact Hnd.
    - intros b Hb. rewrite lineop_shape. destruct (Nat.eq_dec a b) as [<-|Hne].
      + rewrite len_set_nth by lia. apply HL; [apply Hpos; exact Ha | exact Hm].
      + rewrite len_set_nth_neq by lia. apply Hpos. exact Hb.
  Qed.

  Lemma mkstage_len_other olen K a b m (t : tensor R) :
    (a < length (shape t))%nat -> a <> b ->
    len_of b (shape (mkstage olen K a m t)) = len_of b (shape t).
  Proof. intros Ha Hne. unfold C06_ModelND.mkstage. rewrite lineop_shape. apply len_set_nth_neq; assumption. Qed.

  Lemma mkstage_commute olen K olen' K' nd a b ma mb t :
    lin_stage olen K -> lin_stage olen' K' ->
    a <> b -> (a < nd)%nat -> (b < nd)%nat -> (0 < ma)%nat -> (0 < mb)%nat -> good nd t ->
    mkstage olen K a ma (mkstage olen' K' b mb t) = mkstage olen' K' b mb (mkstage olen K a ma t).
  Proof.
    intros HL HL' Hne Ha Hb Hma Hmb (Hw & Hnd & Hpos).
    unfold C06_ModelND.mkstage at 1 3.
    rewrite (mkstage_len_other olen' K' b a mb t) by lia.
    rewrite (mkstage_len_other olen K a b ma t) by lia.
    unfold C06_ModelND.mkstage.
    apply lineop_commute; try assumption; try lia.
    - apply HL; [apply Hpos; exact Ha | exact Hma].
    - apply HL'; [apply Hpos; exact Hb | exact Hmb].
  Qed.

  (* the same axis: two stages compose into one *)
  Definition olen_comp (olen1 olen2 : nat -> nat -> nat) (n m : nat) : nat := olen2 (olen1 n m) m.
  Definition K_comp (olen1 : nat -> nat -> nat) (K1 K2 : nat -> nat -> (nat -> R) -> nat -> R)
             (n m : nat) (x : nat -> R) : nat -> R := K2 (olen1 n m) m (K1 n m x).

  Lemma lin_stage_comp olen1 K1 olen2 K2 :
    lin_stage olen1 K1 -> lin_stage olen2 K2 -> lin_stage (olen_comp olen1 olen2) (K_comp olen1 K1 K2).
  Proof.
    intros H1 H2 n m Hn Hm. destruct (H1 n m Hn Hm) as [L1 P1].
    destruct (H2 (olen1 n m) m P1 Hm) as [L2 P2]. split; [|exact P2].
    unfold olen_comp, K_comp. apply (is_lin_comp n (olen1 n m)); assumption.
  Qed.

  Lemma mkstage_compose olen1 K1 olen2 K2 nd a m t :
    lin_stage olen1 K1 -> lin_stage olen2 K2 -> (a < nd)%nat -> (0 < m)%nat -> good nd t ->
    mkstage olen2 K2 a m (mkstage olen1 K1 a m t) = mkstage (olen_comp olen1 olen2) (K_comp olen1 K1 K2) a m t.
  Proof.
    intros H1 H2 Ha Hm (Hw & Hnd & Hpos).
    pose proof (Hpos a Ha) as Hn.
    destruct (H1 _ m Hn Hm) as [L1 P1]. destruct (H2 _ m P1 Hm) as [L2 P2].
    unfold C06_ModelND.mkstage. cbv zeta.
    assert (E : len_of a (shape (lineop_at a (olen1 (len_of a (shape t)) m) (K1 (len_of a (shape t)) m) t))
                = olen1 (len_of a (shape t)) m) by (rewrite lineop_shape; apply len_set_nth; lia).
    rewrite E. unfold olen_comp, K_comp.
    apply lineop_compose; [exact Hw | lia | apply is_lin_ext_on; exact L1 | apply is_lin_ext_on; exact L2].
  Qed.

  Definition axes_pos (ams : list (nat * nat)) : Prop := forall am, In am ams -> (0 < snd am)%nat.

  (* a stage at axis a moves through a whole stage over other axes *)
  Lemma push_run olen K olen' K' nd a m r : forall t,
    lin_stage olen K -> lin_stage olen' K' ->
    (a < nd)%nat -> (0 < m)%nat -> axes_ok r nd -> axes_pos r -> ~ In a (map fst r) -> good nd t ->
    mkstage olen K a m (run (mkstage olen' K') r t) = run (mkstage olen' K') r (mkstage olen K a m t).
  Proof.
    induction r as [|[b mb] r IH]; intros t HL HL' Ha Hm Hok Hp Hnin Hg; [reflexivity|].
    destruct (axes_ok_tail _ _ _ Hok) as (Hok' & Hb & _). cbn [fst snd map] in *.
    assert (Hne : a <> b) by (intros ->; apply Hnin; left; reflexivity).
    assert (Hmb : (0 < mb)%nat) by (apply (Hp (b, mb)); left; reflexivity).
    unfold run. cbn [fold_left fst snd].
    change (fold_left (fun acc am => mkstage olen' K' (fst am) (snd am) acc) r ?T) with (run (mkstage olen' K') r T).
    rewrite IH; try assumption.
    - f_equal. apply (mkstage_commute olen K olen' K' nd); assumption.
    - intros am Hin. apply Hp. right. exact Hin.
    - intros C. apply Hnin. right. exact C.
    - apply mkstage_good; assumption.
  Qed.

  (* two consecutive stages over all axes = the composed stage, axis after axis *)
  Lemma merge_run olen1 K1 olen2 K2 nd ams : forall t,
    lin_stage olen1 K1 -> lin_stage olen2 K2 -> axes_ok ams nd -> axes_pos ams -> good nd t ->
    run (mkstage olen2 K2) ams (run (mkstage olen1 K1) ams t)
    = run (mkstage (olen_comp olen1 olen2) (K_comp olen1 K1 K2)) ams t.
  Proof.
    induction ams as [|[a m] r IH]; intros t H1 H2 Hok Hp Hg; [reflexivity|].
    destruct (axes_ok_tail _ _ _ Hok) as (Hok' & Ha & Hnin). cbn [fst snd] in *.
    assert (Hm : (0 < m)%nat) by (apply (Hp (a, m)); left; reflexivity).
    assert (Hp' : axes_pos r) by (intros am Hin; apply Hp; right; exact Hin).
    unfold run at 2. cbn [fold_left fst snd].
    change (fold_left (fun acc am => mkstage olen1 K1 (fst am) (snd am) acc) r ?T) with (run (mkstage olen1 K1) r T).
    unfold run at 1. cbn [fold_left fst snd].
    change (fold_left (fun acc am => mkstage olen2 K2 (fst am) (snd am) acc) r ?T) with (run (mkstage olen2 K2) r T).
    rewrite (push_run olen2 K2 olen1 K1 nd a m r); try assumption; [|apply mkstage_good; assumption].
    rewrite (mkstage_compose olen1 K1 olen2 K2 nd) by assumption.
    rewrite IH; try assumption; [reflexivity|].
    apply mkstage_good; try assumption. apply lin_stage_comp; assumption.
  Qed.

  (* ---------------------------------------------------------------------------------- *)
  (* the five stages of fourier_resample are linear stages *)
  Lemma lin_fft : lin_stage keep_len (fun n _ => dft rO radd rmul n (tw n)).
  Proof. intros n m Hn Hm. split; [apply dft_lin | exact Hn]. Qed.
  Lemma lin_fftshift : lin_stage keep_len (fun n _ => fftshift n).
  Proof. intros n m Hn Hm. split; [apply roll_lin; exact Hn | exact Hn]. Qed.
  Lemma lin_croppad : lin_stage new_len (fun n m => croppad rO n m).
  Proof. intros n m Hn Hm. split; [apply croppad_lin | exact Hm]. Qed.
  Lemma lin_ifftshift : lin_stage keep_len (fun n _ => ifftshift n).
  Proof. intros n m Hn Hm. split; [apply roll_lin; exact Hn | exact Hn]. Qed.
  Lemma lin_ifft : lin_stage keep_len (fun n _ => idft rO radd rmul n (tw n) (inv n)).
  Proof. intros n m Hn Hm. split; [apply idft_lin | exact Hn]. Qed.

  Lemma lin_resample0 : lin_stage new_len (resample0 rO radd rmul tw inv).
  Proof.
    exact (lin_stage_comp _ _ _ _
             (lin_stage_comp _ _ _ _ (lin_stage_comp _ _ _ _ (lin_stage_comp _ _ _ _ lin_fft lin_fftshift) lin_croppad)
                             lin_ifftshift) lin_ifft).
  Qed.

  (* the unscaled N-D pipeline, stage after stage = axis after axis *)
  Theorem stages_separable nd ams t :
    axes_ok ams nd -> axes_pos ams -> good nd t ->
    run (st_ifft rO radd rmul tw inv) ams
      (run (st_ifftshift rO) ams (run (st_croppad rO) ams (run (st_fftshift rO) ams (run (st_fft rO radd rmul tw) ams t))))
    = run (st_resample0 rO radd rmul tw inv) ams t.
  Proof.
    intros Hok Hp Hg. unfold st_ifft, st_ifftshift, st_croppad, st_fftshift, st_fft, st_resample0.
    rewrite (merge_run _ _ _ _ nd ams t lin_fft lin_fftshift Hok Hp Hg).
    rewrite (merge_run _ _ _ _ nd ams t (lin_stage_comp _ _ _ _ lin_fft lin_fftshift) lin_croppad Hok Hp Hg).
    rewrite (merge_run _ _ _ _ nd ams t
               (lin_stage_comp _ _ _ _ (lin_stage_comp _ _ _ _ lin_fft lin_fftshift) lin_croppad) lin_ifftshift Hok Hp Hg).
    rewrite (merge_run _ _ _ _ nd ams t
               (lin_stage_comp _ _ _ _ (lin_stage_comp _ _ _ _ (lin_stage_comp _ _ _ _ lin_fft lin_fftshift) lin_croppad)
                               lin_ifftshift) lin_ifft Hok Hp Hg).
    reflexivity.
  Qed.

  (* ---------------------------------------------------------------------------------- *)
  (* the scale factor *)
  Notation resample_at := (C06_Model.resample_at rO rI radd rmul tw inv).
  Notation resample_nd := (C06_Model.resample_nd rO rI radd rmul tw inv).
  Notation st0 := (st_resample0 rO radd rmul tw inv).

  Definition ax_scale (sh : list nat) (am : nat * nat) : R := of_nat (snd am) * inv (len_of (fst am) sh).

  Lemma resample_at_scaled nd a m t :
    (a < nd)%nat -> (0 < m)%nat -> good nd t ->
    resample_at a m t = scale_all rmul (ax_scale (shape t) (a, m)) (st0 a m t).
  Proof.
    intros Ha Hm (Hw & Hnd & Hpos).
    transitivity (lineop_at a m (fun x j => ax_scale (shape t) (a, m) * resample0 rO radd rmul tw inv (len_of a (shape t)) m x j) t).
    - reflexivity.
    - apply lineop_scale_out; [exact Hw | lia|]. apply is_lin_ext_on.
      apply lin_resample0; [apply Hpos; exact Ha | exact Hm].
  Qed.

  Lemma st0_scale nd a m s t :
    (a < nd)%nat -> (0 < m)%nat -> good nd t ->
    st0 a m (scale_all rmul s t) = scale_all rmul s (st0 a m t).
  Proof.
    intros Ha Hm (Hw & Hnd & Hpos). unfold st_resample0, C06_ModelND.mkstage. cbn [scale_all shape].
    apply lineop_scale_in; [exact Hw | lia|]. apply lin_resample0; [apply Hpos; exact Ha | exact Hm].
  Qed.

  Lemma scale_good nd s t : good nd t -> good nd (scale_all rmul s t).
  Proof. intros (Hw & Hnd & Hpos). repeat split; [apply scale_all_wf; exact Hw | exact Hnd | exact Hpos]. Qed.

  Lemma run_st0_scale nd r : forall s t,
    axes_ok r nd -> axes_pos r -> good nd t ->
    run st0 r (scale_all rmul s t) = scale_all rmul s (run st0 r t).
  Proof.
    induction r as [|[a m] r IH]; intros s t Hok Hp Hg; [reflexivity|].
    destruct (axes_ok_tail _ _ _ Hok) as (Hok' & Ha & _). cbn [fst snd] in *.
    assert (Hm : (0 < m)%nat) by (apply (Hp (a, m)); left; reflexivity).
    unfold run. cbn [fold_left fst snd].
    change (fold_left (fun acc am => st0 (fst am) (snd am) acc) r ?T) with (run st0 r T).
    rewrite (st0_scale nd) by assumption. apply IH; [exact Hok' | intros am Hin; apply Hp; right; exact Hin|].
    apply mkstage_good; [exact lin_resample0 | exact Ha | exact Hm | exact Hg].
  Qed.

  Definition scale_from (init : R) (ams : list (nat * nat)) (sh : list nat) : R :=
    fold_left (fun s am => s * ax_scale sh am) ams init.

  Lemma scale_from_mul init ams sh : scale_from init ams sh = init * scale_from 1 ams sh.
  Proof.
    revert init. induction ams as [|am r IH]; intros init; cbn [scale_from fold_left]; [ring|].
    fold (scale_from (init * ax_scale sh am) r sh). fold (scale_from (1 * ax_scale sh am) r sh).
    rewrite (IH (init * ax_scale sh am)), (IH (1 * ax_scale sh am)). ring.
  Qed.

  Lemma scale_from_other init r a v sh : (a < length sh)%nat -> ~ In a (map fst r) ->
    scale_from init r (set_nth a v sh) = scale_from init r sh.
  Proof.
    intros Ha. revert init. induction r as [|[b mb] r IH]; intros init Hnin; [reflexivity|].
    cbn [map fst] in Hnin. cbn [scale_from fold_left].
    fold (scale_from (init * ax_scale (set_nth a v sh) (b, mb)) r (set_nth a v sh)).
    fold (scale_from (init * ax_scale sh (b, mb)) r sh).
    assert (E : ax_scale (set_nth a v sh) (b, mb) = ax_scale sh (b, mb)).
    { unfold ax_scale. cbn [fst snd]. rewrite len_set_nth_neq; [reflexivity | exact Ha|].
      intros ->. apply Hnin. left. reflexivity. }
    rewrite E. apply IH. intros C. apply Hnin. right. exact C.
  Qed.

  (* axis after axis with the per-axis factors = the unscaled run times the product of the factors *)
  Theorem resample_nd_scaled nd ams : forall t,
    axes_ok ams nd -> axes_pos ams -> good nd t ->
    resample_nd ams t = scale_all rmul (scale_prod rO rI radd rmul inv ams (shape t)) (run st0 ams t).
  Proof.
    induction ams as [|[a m] r IH]; intros t Hok Hp Hg.
    - cbn. symmetry. apply scale_one.
    - destruct (axes_ok_tail _ _ _ Hok) as (Hok' & Ha & Hnin). cbn [fst snd] in *.
      assert (Hm : (0 < m)%nat) by (apply (Hp (a, m)); left; reflexivity).
      assert (Hp' : axes_pos r) by (intros am Hin; apply Hp; right; exact Hin).
      assert (Hg1 : good nd (st0 a m t)) by (apply mkstage_good; [exact lin_resample0 | exact Ha | exact Hm | exact Hg]).
      unfold C06_Model.resample_nd. cbn [fold_left fst snd].
      change (fold_left (fun acc am => resample_at (fst am) (snd am) acc) r ?T) with (resample_nd r T).
      rewrite (resample_at_scaled nd) by assumption.
      rewrite IH; [| exact Hok' | exact Hp' | apply scale_good; exact Hg1].
      rewrite (run_st0_scale nd) by assumption.
      rewrite scale_scale. cbn [scale_all shape].
      unfold run at 2. cbn [fold_left fst snd].
      change (fold_left (fun acc am => st0 (fst am) (snd am) acc) r ?T) with (run st0 r T).
      f_equal.
      change (scale_prod rO rI radd rmul inv r (shape (st0 a m t))) with (scale_from 1 r (shape (st0 a m t))).
      change (scale_prod rO rI radd rmul inv ((a, m) :: r) (shape t)) with (scale_from (1 * ax_scale (shape t) (a, m)) r (shape t)).
      destruct Hg as (Hw & Hnd & Hpos).
      change (shape (st0 a m t)) with (set_nth a m (shape t)).
      rewrite scale_from_other by (try exact Hnin; lia).
      rewrite (scale_from_mul (1 * ax_scale (shape t) (a, m))). ring.
  Qed.

  (* SEPARABILITY: the all-axes-at-once pipeline of the implementation = the one-axis pipeline
     applied axis after axis *)
  Theorem pipeline_nd_separable nd ams t :
    axes_ok ams nd -> axes_pos ams -> good nd t ->
    pipeline_nd rO rI radd rmul tw inv ams t = resample_nd ams t.
  Proof.
    intros Hok Hp Hg. unfold pipeline_nd.
    rewrite (stages_separable nd) by assumption.
    symmetry. apply (resample_nd_scaled nd); assumption.
  Qed.
End Separability.
