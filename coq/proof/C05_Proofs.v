(* C05 — the theorems: binding invariant over every operation history, resume equivalence,
   reported-state equality, clone equivalence. *)
From QV.lib Require Import Prelude.
From QV.model Require Import C05_Model.
From QV.proof Require Import C05_Proofs_Base C05_Proofs_Iter C05_Proofs_Copy C05_Proofs_Reconnect C05_Proofs_Ops C05_Proofs_Meta.
Set Implicit Arguments.

(* reload without a device move only re-binds when module, optimiser and scheduler were
   pickled in one blob (Deep / Joint); the split granularities need the reconnect of .to() *)
Definition rebinds (g : gran) (dev : bool) : Prop :=
  match g with Deep | Joint => True | _ => dev = true end.

Section Main.
  Variables V G M L R C SS : Type.
  Variable Rzero : R.
  Variable forward : list (list (option V) * C) -> L * list (list (option G)).
  Variable opt_update : opt_kind -> R -> V -> G -> option (pstate M) -> V * option (pstate M).
  Variable sched_init : SS -> R -> SS * R.
  Variable sched_step : SS -> nat -> L -> R -> SS * R.
  Local Notation iterate := (iterate Rzero forward opt_update sched_step).
  Local Notation run := (run Rzero forward opt_update sched_step).
  Local Notation apply_op := (apply_op Rzero forward opt_update sched_init sched_step).
  Local Notation run_ops := (run_ops Rzero forward opt_update sched_init sched_step).
  Implicit Types (s : st V M L R C SS) (w dev : bool) (g : gran).

  (* ------------------------------------------------------------------ runs *)
  Lemma run_add a b s : run (a + b) s = run b (run a s).
  Proof. revert s. induction a as [|a IH]; intros s; cbn; [reflexivity|apply IH]. Qed.

  Lemma run_binding_inv k s : binding_inv s -> binding_inv (run k s).
  Proof.
    revert s. induction k as [|k IH]; intros s H; cbn; [exact H|].
    apply IH. now apply iterate_binding_inv.
  Qed.

  (* a run only depends on the id-free view: the explicit list of fields an iteration reads *)
  Lemma run_view_eq k s s' :
    binding_inv s -> binding_inv s' -> view_of s = view_of s' -> view_of (run k s) = view_of (run k s').
  Proof.
    revert s s'. induction k as [|k IH]; intros s s' H H' E; cbn; [exact E|].
    apply IH; try now apply iterate_binding_inv.
    rewrite !view_iterate by assumption. now rewrite E.
  Qed.

  Lemma obs_view s s' : view_of s = view_of s' -> obs s = obs s'.
  Proof. unfold obs. now intros ->. Qed.

  (* ------------------------------------------------------------------ save / load / clone *)
  Lemma reload_eq w g dev s : reload w g dev s = load w dev (copy_st g (to_dev w s)).
  Proof. reflexivity. Qed.

  Lemma reload_loaded w g dev s : binding_inv s -> loaded_inv (reload w g dev s).
  Proof.
    intros H. rewrite reload_eq. unfold load.
    assert (H1 : binding_inv (to_dev w s)) by (apply to_dev_binding; now apply binding_loaded).
    destruct dev; [apply binding_loaded, to_dev_binding|]; now apply copy_loaded.
  Qed.

  Lemma reload_binding_inv w g dev s : rebinds g dev -> binding_inv s -> binding_inv (reload w g dev s).
  Proof.
    intros Hr H. rewrite reload_eq. unfold load.
    assert (H1 : binding_inv (to_dev w s)) by (apply to_dev_binding; now apply binding_loaded).
    destruct dev.
    - apply to_dev_binding. now apply copy_loaded.
    - destruct g; cbn in Hr; try discriminate; apply copy_binding; auto.
  Qed.

  (* THE FRAME CONDITION, proved for the re-keying by parameter: save-then-load is the identity
     on every field an iteration reads *)
  Lemma view_reload g dev s : binding_inv s -> view_of (reload false g dev s) = view_of s.
  Proof.
    intros H. rewrite reload_eq. unfold load.
    assert (H1 : binding_inv (to_dev false s)) by (apply to_dev_binding; now apply binding_loaded).
    assert (E1 : view_of (to_dev false s) = view_of s) by (apply view_to_dev; now apply binding_loaded).
    destruct dev.
    - rewrite view_to_dev by now apply copy_loaded. now rewrite view_copy.
    - now rewrite view_copy.
  Qed.

  Lemma save_live_eq w g s : snd (save w g s) = to_dev w (to_dev w s).
  Proof. reflexivity. Qed.

  Lemma save_live_binding_inv w g s : binding_inv s -> binding_inv (snd (save w g s)).
  Proof.
    intros H. rewrite save_live_eq. apply to_dev_binding, binding_loaded, to_dev_binding.
    now apply binding_loaded.
  Qed.

  Lemma view_save_live g s : binding_inv s -> view_of (snd (save false g s)) = view_of s.
  Proof.
    intros H. rewrite save_live_eq.
    rewrite view_to_dev by (apply binding_loaded, to_dev_binding; now apply binding_loaded).
    apply view_to_dev. now apply binding_loaded.
  Qed.

  Lemma clone_binding_inv w s : binding_inv s -> binding_inv (clone w s).
  Proof. intros H. unfold clone. apply to_dev_binding. now apply copy_loaded. Qed.

  Lemma view_clone s : binding_inv s -> view_of (clone false s) = view_of s.
  Proof. intros H. unfold clone. rewrite view_to_dev by now apply copy_loaded. now apply view_copy. Qed.

  Lemma clone_fallback_eq w s : clone_fallback w s = to_dev w (reload w Joint false s).
  Proof. reflexivity. Qed.

  Lemma clone_fallback_binding_inv w s : binding_inv s -> binding_inv (clone_fallback w s).
  Proof. intros H. rewrite clone_fallback_eq. apply to_dev_binding. now apply reload_loaded. Qed.

  Lemma view_clone_fallback s : binding_inv s -> view_of (clone_fallback false s) = view_of s.
  Proof.
    intros H. rewrite clone_fallback_eq. rewrite view_to_dev by now apply reload_loaded.
    now apply view_reload.
  Qed.

  (* ------------------------------------------------------------------ T1: binding invariant *)
  Lemma apply_op_binding_inv w (o : op R C SS) s : binding_inv s -> binding_inv (apply_op w o s).
  Proof.
    intros H. destruct o; cbn [C05_Model.apply_op].
    - now apply set_opt_binding_inv.
    - now apply remove_opt_binding_inv.
    - now apply set_cons_binding_inv.
    - now apply iterate_binding_inv.
    - apply to_dev_binding. now apply binding_loaded.
    - now apply save_live_binding_inv.
    - apply reload_binding_inv; [exact I|exact H].
    - now apply clone_binding_inv.
    - now apply clone_fallback_binding_inv.
    - apply to_dev_binding. now apply copy_loaded.
    - now apply reload_meta_binding_inv.
  Qed.

  Theorem binding_inv_ops w (ops : list (op R C SS)) s : binding_inv s -> binding_inv (run_ops w ops s).
  Proof.
    revert s. induction ops as [|o t IH]; intros s H; cbn; [exact H|].
    apply IH. now apply apply_op_binding_inv.
  Qed.

  Theorem binding_inv_reachable w (ops : list (op R C SS)) (spec : list (list V * C)) :
    binding_inv (run_ops w ops (init_st spec)).
  Proof. apply binding_inv_ops. apply init_binding_inv. Qed.

  (* ------------------------------------------------------------------ T2: resume equivalence *)
  Theorem resume_equiv g dev k n s :
    binding_inv s -> rebinds g dev -> k <= n ->
    obs (run (n - k) (reload false g dev (run k s))) = obs (run n s).
  Proof.
    intros H Hr Hkn. replace n with (k + (n - k)) at 2 by lia. rewrite run_add.
    pose proof (run_binding_inv k H) as Hk.
    apply obs_view. apply run_view_eq.
    - now apply reload_binding_inv.
    - exact Hk.
    - now apply view_reload.
  Qed.

  (* the object that was saved goes on exactly as if save() had not been called *)
  Theorem save_continue_equiv g k n s :
    binding_inv s -> k <= n ->
    obs (run (n - k) (snd (save false g (run k s)))) = obs (run n s).
  Proof using Rzero forward opt_update sched_step.
    intros H Hkn. replace n with (k + (n - k)) at 2 by (rewrite Nat.add_comm; apply Nat.sub_add; exact Hkn). rewrite run_add.
    pose proof (run_binding_inv k H) as Hk.
    apply obs_view. apply run_view_eq.
    - apply save_live_binding_inv. exact Hk.
    - exact Hk.
    - apply view_save_live. exact Hk.
  Qed.

  (* ------------------------------------------------------------------ T3: reported state *)
  Lemma o_cons_obs s : o_cons (obs s) = map mcons (models (rc s)).
  Proof. unfold obs, obs_of_view, view_of. cbn. rewrite map_map. reflexivity. Qed.

  Lemma load_reported w dev (f : st V M L R C SS) :
    losses (rc (load w dev f)) = losses (rc f) /\ lrs (rc (load w dev f)) = lrs (rc f) /\
    map mcons (models (rc (load w dev f))) = map mcons (models (rc f)).
  Proof.
    unfold load. destruct dev; [|auto]. rewrite to_dev_losses, to_dev_lrs, to_dev_cons. auto.
  Qed.

  (* unconditional: no invariant, either re-keying, any granularity, with or without .to() *)
  Theorem reported_state_eq w g dev s :
    o_iters (obs (reload w g dev s)) = o_iters (obs s) /\
    o_losses (obs (reload w g dev s)) = o_losses (obs s) /\
    o_lrs (obs (reload w g dev s)) = o_lrs (obs s) /\
    o_cons (obs (reload w g dev s)) = o_cons (obs s).
  Proof.
    rewrite !o_cons_obs. rewrite reload_eq.
    destruct (load_reported w dev (copy_st g (to_dev w s))) as (El & Er & Ec).
    unfold obs, obs_of_view, view_of. cbn [o_iters o_losses o_lrs vlosses vlrs].
    rewrite El, Er, Ec, copy_losses, copy_lrs, copy_cons, to_dev_losses, to_dev_lrs, to_dev_cons. auto.
  Qed.

  (* with the binding invariant also the parameter values (object, probe) and the whole
     optimiser / scheduler state agree *)
  Theorem reported_state_full g dev s :
    binding_inv s -> obs (reload false g dev s) = obs s /\ view_of (reload false g dev s) = view_of s.
  Proof. intros H. split; [apply obs_view|]; now apply view_reload. Qed.

  (* ------------------------------------------------------------------ T4: clone *)
  Theorem clone_equiv n s :
    binding_inv s ->
    obs (run n (clone false s)) = obs (run n s) /\ obs (run n (clone_fallback false s)) = obs (run n s).
  Proof.
    intros H. split; apply obs_view; apply run_view_eq; auto using clone_binding_inv,
      clone_fallback_binding_inv, view_clone, view_clone_fallback.
  Qed.

  (* the clone owns fresh cells, optimisers and schedulers: nothing is shared with the
     original, all of whose ids are below its allocation counter *)
  Theorem clone_fresh w s :
    binding_inv s -> forall m, In m (models (rc (clone w s))) ->
    (forall p, In p (mparams m) -> hnext (hh s) <= p) /\
    (forall o, mopt m = Some o -> hnext (hh s) <= o) /\
    (forall x, msched m = Some x -> hnext (hh s) <= x).
  Proof.
    intros H m Hin. unfold clone in Hin. rewrite to_dev_models in Hin by now apply copy_loaded.
    eapply copy_fresh; eauto. intros i. discriminate.
  Qed.

  (* a whole history replayed on a reloaded / cloned reconstruction *)
  Lemma apply_op_view_eq (o : op R C SS) s s' :
    binding_inv s -> binding_inv s' -> view_of s = view_of s' ->
    (match o with OpIter | OpTo | OpSaveContinue | OpReload _ | OpClone | OpCloneFallback => True | _ => False end) ->
    view_of (apply_op false o s) = view_of (apply_op false o s').
  Proof.
    intros H H' E Ho. destruct o; try contradiction; cbn [C05_Model.apply_op].
    - rewrite !view_iterate by assumption. now rewrite E.
    - rewrite !view_to_dev by now apply binding_loaded. exact E.
    - rewrite !view_save_live by assumption. exact E.
    - rewrite !view_reload by assumption. exact E.
    - rewrite !view_clone by assumption. exact E.
    - rewrite !view_clone_fallback by assumption. exact E.
  Qed.
End Main.

(* ================================================================= concrete instances *)
(* An instance in which the parameter update DEPENDS on the optimiser state (as Adam's does):
   the increment of a value is 1 + the step counter of its state entry.  Used for the
   non-vacuity examples and as the witness that the positional re-keying of the pinned commit
   breaks resume equivalence when a leading parameter receives no gradient. *)
Module Witness.
  Definition V := Z. Definition G := unit. Definition M := unit. Definition L := Z.
  Definition R := Z. Definition C := Z. Definition SS := Z.
  Definition forward (mask : list (list bool)) (inp : list (list (option V) * C)) : L * list (list (option G)) :=
    (sum_Z (map (fun e => sum_Z (map (fun o : option V => match o with Some v => v | None => 0%Z end) (fst e))) inp),
     map (map (fun b : bool => if b then Some tt else None)) mask).
  Definition opt_update (k : opt_kind) (lr : R) (v : V) (_ : G) (ps : option (pstate M)) : V * option (pstate M) :=
    let n := match ps with Some p => ps_steps p | None => 0 end in
    ((v + lr + Z.of_nat n)%Z,
     match k with SGD => None | _ => Some {| ps_steps := S n; ps_mom := tt |} end).
  Definition sched_init (ss : SS) (lr : R) : SS * R := (ss, lr).
  Definition sched_step (ss : SS) (last : nat) (loss : L) (lr : R) : SS * R := ((ss + 1)%Z, (lr + ss)%Z).
  Definition st := st V M L R C SS.
  Definition run (mask : list (list bool)) := @run V G M L R C SS 0%Z (forward mask) opt_update sched_step.
  Definition run_ops (mask : list (list bool)) := @run_ops V G M L R C SS 0%Z (forward mask) opt_update sched_init sched_step.

  (* one model with two parameters, Adam, a scheduler; a second model with one parameter, SGD *)
  Definition s0 : st :=
    run_ops [] false [OpSetOpt 0 Adam 1%Z (Some 2%Z); OpSetOpt 1 SGD 3%Z None; OpSetCons 1 7%Z]
            (init_st [([10%Z; 20%Z], 5%Z); ([30%Z], 6%Z)]).
  (* parameter 0 of model 0 receives no gradient (an unused parameter): the state dict of the
     optimiser then has the single key `parameter 1` *)
  Definition mask_unused : list (list bool) := [[false; true]; [true]].
  Definition mask_all : list (list bool) := [[true; true]; [true]].

  Lemma s0_binding_inv : binding_inv s0.
  Proof. apply binding_inv_reachable. Qed.
End Witness.

(* the full statement, parametrised by the re-keying (true: positional, as in the pinned
   commit; false: by parameter, fixes/C05-reconnect-rekey-by-parameter.diff) *)
Definition resume_equiv_statement (written : bool) : Prop :=
  forall (V G M L R C SS : Type) (Rzero : R)
         (forward : list (list (option V) * C) -> L * list (list (option G)))
         (opt_update : opt_kind -> R -> V -> G -> option (pstate M) -> V * option (pstate M))
         (sched_step : SS -> nat -> L -> R -> SS * R)
         (g : gran) (dev : bool) (k n : nat) (s : st V M L R C SS),
    binding_inv s -> rebinds g dev -> k <= n ->
    obs (run Rzero forward opt_update sched_step (n - k)
             (reload written g dev (run Rzero forward opt_update sched_step k s)))
    = obs (run Rzero forward opt_update sched_step n s).

Lemma resume_equiv_repaired : resume_equiv_statement false.
Proof. unfold resume_equiv_statement. intros. now apply resume_equiv. Qed.

Lemma resume_equiv_as_written_refuted : ~ resume_equiv_statement true.
Proof.
  intros H.
  specialize (H Witness.V Witness.G Witness.M Witness.L Witness.R Witness.C Witness.SS 0%Z
                (Witness.forward Witness.mask_unused) Witness.opt_update Witness.sched_step
                Joint false 1 2 Witness.s0 Witness.s0_binding_inv I (le_S _ _ (le_n 1))).
  vm_compute in H. discriminate H.
Qed.
