(* C02 — instances for the round-3 theorems (Gaussian rationals): the character is e = w4 on the phase
   group (Z, +), and an ODD-size root family (N = 1) next to the 4-point one, so that the all-sizes
   statements are exercised on a non-square odd x even detector. *)
From Coq Require Import ZArith List Lia Ring QArith Qcanon.
From QV.lib Require Import Prelude FinSum DFT DFT2 DFT_Inst.
From QV.model Require Import C02_Model.
From QV.proof Require Import C02_Proofs_Index C02_Proofs_Forward C02_Proofs_Inst C02_Proofs_Ext.
Import ListNotations.
Local Close Scope Q_scope.
Local Open Scope Qc_scope.

(* the trivial root family for N = 1 (odd) *)
Definition w1c (_ : Z) : C := c1.

Lemma C_root_ok_1 : root_ok c0 c1 cadd cmul cconj 1 w1c c1.
Proof.
  constructor.
  - lia.
  - reflexivity.
  - intros a b. unfold w1c, cmul, c1. cbn [fst snd]. f_equal; ring.
  - reflexivity.
  - intros a. unfold w1c, cconj, c1. cbn [fst snd]. f_equal; ring.
  - intros d. rewrite Z.mod_1_r. cbn. unfold w1c, cadd, c0, c1. cbn [fst snd]. f_equal; ring.
  - cbn. unfold cmul, cadd, c0, c1. cbn [fst snd]. f_equal; ring.
Qed.

(* repaired no_shift on a 1 x 4 detector (odd x even): identity *)
Lemma C02i_no_shift_odd (x : nat -> nat -> C) n1 n2 : (n1 < 1)%nat -> (n2 < 4)%nat ->
  fftshift2 1 4 (fmul2 c0 cadd cmul 1 w1c c1 4 w4 quarter
                   (fun k1 k2 => cmul (w1c (Z.of_nat k1 * - Z.of_nat (1 / 2))) (w4 (Z.of_nat k2 * - Z.of_nat (4 / 2)))) x) n1 n2
  = x n1 n2.
Proof.
  apply (no_shift_identity C c0 c1 cadd cmul csub copp C_ring cconj C_conj_ok 1 w1c c1 4 w4 quarter
           C_root_ok_1 C_root_ok x n1 n2).
Qed.

(* character laws of e = w4 on (Z, +, -, 0) *)
Lemma w4_zero : w4 0 = c1.
Proof. reflexivity. Qed.

Definition ipot (a b : Z) : Z -> Z -> Z := fun r c => (a * r * r + b * c + 1)%Z.
Definition ikap (d : Z) : nat -> nat -> Z := fun k1 k2 => (d * (Z.of_nat k1 * Z.of_nat k1 + Z.of_nat k2 * Z.of_nat k2))%Z.
Definition iphi (s : Z) : nat -> Z := fun k => (Z.of_nat k * s)%Z.

(* two-slice potential object on a 6 x 5 periodic grid, one kernel, two modes: the code's pipeline sums
   to (c conj c) * total probe intensity — no unit-modulus premise *)
Lemma C02i_potential (P Q : nat -> nat -> C) (c : C) :
  sum2 c0 cadd 4 4
    (forward_code c0 cadd cmul cconj 4 w4 quarter 4 w4 quarter quarter
       (map (fun o => flatten o 5) (map (pot_obj w4) [ipot 1 2; ipot 3 1])) 6 5 4 3
       (phase_ramp w4 (iphi 1)) (phase_ramp w4 (iphi 3)) (map (phase_img w4) [ikap 1]) (scale_modes cmul c [P; Q]))
  = cmul (cmul c (cconj c)) (total_probe_intensity c0 cadd cmul cconj 4 4 [P; Q]).
Proof.
  apply (potential_forward_total C c0 c1 cadd cmul csub copp C_ring cconj C_conj_ok 4 w4 quarter 4 w4 quarter
           C_root_ok C_root_ok Z Z.add Z.opp 0%Z w4 w4_add w4_zero w4_conj Z.add_opp_diag_r quarter).
  - reflexivity.
  - exact quarter_conj.
  - lia.
  - lia.
  - reflexivity.
  - reflexivity.
Qed.

(* per-mode weights: two modes scaled by d1, d2 *)
Lemma C02i_weights (P Q : nat -> nat -> C) (d1 d2 M wt1 wt2 : C) :
  cmul (cmul d1 (cconj d1)) (energy2 c0 cadd cmul cconj 4 4 P) = cmul wt1 M ->
  cmul (cmul d2 (cconj d2)) (energy2 c0 cadd cmul cconj 4 4 Q) = cmul wt2 M ->
  sum2 c0 cadd 4 4
    (forward_ref c0 cadd cmul cconj 4 w4 quarter 4 w4 quarter quarter
       [iobj 1 2; iobj 3 1] 6 5 4 3 (iramp 1) (iramp 3) [ikern 1] (scale_modes_w cmul [d1; d2] [P; Q]))
  = cmul (suml c0 cadd [wt1; wt2]) M.
Proof.
  intros H1 H2.
  apply (probe_normalisation_weights C c0 c1 cadd cmul csub copp C_ring cconj C_conj_ok 4 w4 quarter 4 w4 quarter
           C_root_ok C_root_ok quarter).
  - reflexivity.
  - exact quarter_conj.
  - repeat constructor; intros i j _ _; unfold gather_window, iobj; apply w4_unit.
  - repeat constructor. intros i j _ _. unfold ikern. apply w4_unit.
  - change (fun k1 k2 : nat => cmul (iramp 1 k1) (iramp 3 k2))
      with (fun k1 k2 : nat => cmul (phase_ramp w4 (iphi 1) k1) (phase_ramp w4 (iphi 3) k2)).
    apply (phase_ramp_unit C c0 c1 cadd cmul csub copp C_ring cconj C_conj_ok 4 w4 quarter 4 w4 quarter
             C_root_ok C_root_ok Z Z.add Z.opp 0%Z w4 w4_add w4_zero w4_conj Z.add_opp_diag_r).
  - constructor; [exact H1|]. constructor; [exact H2|]. constructor.
Qed.
