(* C15 — proofs about model/C15_Model.v.  Equality on Q is Qeq (==); algebra by field/ring. *)
From QV.lib Require Import Prelude.
From QV.model Require Import C15_Model.
From Coq Require Import QArith Qround Qfield Lqa.
Local Open Scope Q_scope.

(* ------------------------------------------------------------------ small facts *)
Lemma qn_S n : qn (S n) == qn n + 1.
Proof.
  unfold qn. rewrite Nat2Z.inj_succ. unfold Z.succ. rewrite inject_Z_plus. reflexivity.
Qed.

Lemma qn_0 : qn 0 == 0.
Proof. reflexivity. Qed.

Lemma qn_pos n : 0 < qn (S n).
Proof.
  unfold qn. change 0 with (inject_Z 0). rewrite <- Zlt_Qlt. lia.
Qed.

Lemma qn_S_neq0 n : ~ qn (S n) == 0.
Proof. intros E. pose proof (qn_pos n) as P. rewrite E in P. apply (Qlt_irrefl 0). exact P. Qed.

Lemma qn_nonneg n : 0 <= qn n.
Proof. unfold qn. change 0 with (inject_Z 0). rewrite <- Zle_Qle. lia. Qed.

(* ------------------------------------------------------------------ linspace *)
(* for num >= 2 every sample is start + i * (stop - start) / (num - 1): the endpoint that numpy
   overwrites with `stop` is the same rational *)
Lemma linspace_affine start stop d i :
  (i <= S d)%nat ->
  linspace start stop (S (S d)) i == start + qn i * ((stop - start) / qn (S d)).
Proof.
  intros Hi. unfold linspace.
  destruct (Nat.eqb i (S d)) eqn:E.
  - apply Nat.eqb_eq in E. subst i. field. apply qn_S_neq0.
  - ring.
Qed.

Lemma linspace_one start stop i : linspace start stop 1 i = start.
Proof. reflexivity. Qed.

(* v_slow[r] = r - (H-1)/2 *)
Lemma linspace_centred n i :
  (i < n)%nat -> linspace (- half_extent n) (half_extent n) n i == qn i - half_extent n.
Proof.
  intros Hi. destruct n as [|[|d]]; [lia| |].
  - assert (i = 0%nat) by lia. subst i. rewrite linspace_one. unfold half_extent, qn. simpl. field.
  - rewrite linspace_affine by lia. unfold half_extent. rewrite (qn_S (S d)).
    field. apply qn_S_neq0.
Qed.

(* u[col] * (W - 1) = col *)
Lemma u_param_scaled W col : (col < W)%nat -> u_param W col * (qn W - 1) == qn col.
Proof.
  intros Hc. unfold u_param. destruct W as [|[|d]]; [lia| |].
  - assert (col = 0%nat) by lia. subst col. rewrite linspace_one. change (qn 0) with 0. ring.
  - rewrite linspace_affine by lia. rewrite (qn_S (S d)). field. apply qn_S_neq0.
Qed.

(* ------------------------------------------------------------------ straight scan lines *)
(* knots placed on a straight line (as preprocess places them) give, for 1, 2, 3 and 4 knots,
   the same affine function of the line parameter u *)
Lemma row_line W K f C D col :
  (1 <= K <= 4)%nat ->
  transform_row_comp W K f
    (fun j => C + linspace (- half_extent W) (half_extent W) K j * f + D) col
  == C + D - half_extent W * f + u_param W col * ((qn W - 1) * f).
Proof.
  intros HK.
  destruct K as [|[|[|[|[|K]]]]]; try lia;
    unfold transform_row_comp, lagrange, lagrange_weight, basis;
    cbn [seq fold_right Nat.eqb linspace]; generalize (u_param W col); intros u;
    unfold half_extent, qn; cbn [Z.of_nat Pos.of_succ_nat Pos.succ]; field.
Qed.

Definition veq (a b : vec) : Prop := fst a == fst b /\ snd a == snd b.

Lemma veq_refl a : veq a a.
Proof. unfold veq; split; reflexivity. Qed.
Lemma veq_sym a b : veq a b -> veq b a.
Proof. unfold veq; intros [A B]; split; symmetry; assumption. Qed.
Lemma veq_trans a b c : veq a b -> veq b c -> veq a c.
Proof. unfold veq; intros [A B] [C D]; split; etransitivity; eassumption. Qed.

(* C15_coords_exact *)
Theorem coords_exact (rows cols : Z) (H W K : nat) (s c : Q) (r col : nat) :
  (1 <= K <= 4)%nat -> (r < H)%nat -> (col < W)%nat ->
  veq (transform_coordinates W K s c (init_knot rows cols H W K s c) r col)
      (expected_coordinate rows cols H W s c r col).
Proof.
  intros HK Hr Hc.
  unfold veq, transform_coordinates, init_knot, expected_coordinate. cbn [fst snd].
  split.
  - rewrite row_line by exact HK.
    rewrite (linspace_centred H r Hr).
    rewrite <- (u_param_scaled W col Hc). ring.
  - rewrite row_line by exact HK.
    rewrite (linspace_centred H r Hr).
    rewrite <- (u_param_scaled W col Hc). ring.
Qed.

(* C15_knots_agree *)
Theorem knots_agree (rows cols : Z) (H W K K' : nat) (s c : Q) (r col : nat) :
  (1 <= K <= 4)%nat -> (1 <= K' <= 4)%nat -> (r < H)%nat -> (col < W)%nat ->
  veq (transform_coordinates W K s c (init_knot rows cols H W K s c) r col)
      (transform_coordinates W K' s c (init_knot rows cols H W K' s c) r col).
Proof.
  intros HK HK' Hr Hc.
  eapply veq_trans; [apply coords_exact; assumption|].
  apply veq_sym. apply coords_exact; assumption.
Qed.

(* the line as written in the pinned commit misplaces pixels of a non-square image:
   10 x 16 image, scan direction 90 degrees ((s, c) = (sin -90, cos -90) = (-1, 0)),
   canvas 12 x 20: pixel (0, 15) lands 6 rows away from where the property puts it *)
Theorem one_knot_asis_refuted :
  exists (rows cols : Z) (H W : nat) (s c : Q) (r col : nat),
    (r < H)%nat /\ (col < W)%nat /\
    fst (transform_coordinates_1knot_asis H W s c (init_knot rows cols H W 1 s c) r col)
    - fst (expected_coordinate rows cols H W s c r col) == 6.
Proof.
  exists 12%Z, 20%Z, 10%nat, 16%nat, (-1), 0, 0%nat, 15%nat.
  split; [lia|]. split; [lia|]. vm_compute. reflexivity.
Qed.

(* the as-written line is right exactly when rows = cols or the fast axis has no row component *)
Theorem one_knot_asis_error (rows cols : Z) (H W : nat) (s c : Q) (r col : nat) :
  (r < H)%nat -> (col < W)%nat ->
  fst (transform_coordinates_1knot_asis H W s c (init_knot rows cols H W 1 s c) r col)
  - fst (expected_coordinate rows cols H W s c r col)
  == u_param W col * s * (qn H - qn W).
Proof.
  intros Hr Hc.
  unfold transform_coordinates_1knot_asis, init_knot, expected_coordinate. cbn [fst snd scan_fast scan_slow].
  rewrite linspace_one. rewrite (linspace_centred H r Hr).
  rewrite <- (u_param_scaled W col Hc). ring.
Qed.

(* ------------------------------------------------------------------ translation equivariance *)
(* moving every knot of an image by d moves every pixel coordinate by d — for ARBITRARY knots
   (curved scan lines included): the interpolation weights sum to one *)
Lemma row_shift W K f kn d col :
  (1 <= K <= 4)%nat ->
  transform_row_comp W K f (fun j => kn j + d) col == transform_row_comp W K f kn col + d.
Proof.
  intros HK.
  destruct K as [|[|[|[|[|K]]]]]; try lia;
    unfold transform_row_comp, lagrange, lagrange_weight, basis;
    cbn [seq fold_right Nat.eqb linspace]; generalize (u_param W col); intros u;
    unfold qn; cbn [Z.of_nat Pos.of_succ_nat Pos.succ]; field.
Qed.

Theorem translation_equivariant (W K : nat) (s c : Q) (kn : knots_t) (d : vec) (r col : nat) :
  (1 <= K <= 4)%nat ->
  veq (transform_coordinates W K s c (fun r j => vadd (kn r j) d) r col)
      (vadd (transform_coordinates W K s c kn r col) d).
Proof.
  intros HK. unfold veq, transform_coordinates, vadd. cbn [fst snd].
  split; apply row_shift; exact HK.
Qed.

(* ------------------------------------------------------------------ sums over lists *)
Lemma qsum_app a b : qsum (a ++ b) == qsum a + qsum b.
Proof.
  induction a as [|x a IH].
  - cbn [app]. change (qsum []) with 0. ring.
  - change ((x :: a) ++ b) with (x :: (a ++ b)). change (qsum (x :: a ++ b)) with (x + qsum (a ++ b)).
    change (qsum (x :: a)) with (x + qsum a). rewrite IH. ring.
Qed.

Lemma qsum_cons x l : qsum (x :: l) = x + qsum l.
Proof. reflexivity. Qed.

Lemma qsum_map_plus {A} (f g : A -> Q) l :
  qsum (map (fun x => f x + g x) l) == qsum (map f l) + qsum (map g l).
Proof.
  induction l as [|x l IH]; cbn [map]; rewrite ?qsum_cons.
  - cbn. ring.
  - rewrite IH. ring.
Qed.

Lemma qsum_map_zero {A} (f : A -> Q) l :
  (forall x, In x l -> f x == 0) -> qsum (map f l) == 0.
Proof.
  induction l as [|x l IH]; intros Hf; cbn [map]; rewrite ?qsum_cons.
  - reflexivity.
  - rewrite (Hf x (or_introl eq_refl)). rewrite IH; [ring|].
    intros y Hy. apply Hf. right. exact Hy.
Qed.

Lemma qsum_map_const {A} (f : A -> Q) (k : Q) l :
  (forall x, In x l -> f x == k) -> qsum (map f l) == qn (length l) * k.
Proof.
  induction l as [|x l IH]; intros Hf; cbn [map length]; rewrite ?qsum_cons.
  - change (qn 0) with 0. cbn. ring.
  - rewrite (Hf x (or_introl eq_refl)). rewrite IH.
    + rewrite qn_S. ring.
    + intros y Hy. apply Hf. right. exact Hy.
Qed.

(* a one-hot row sums to its entry *)
Lemma qsum_one_hot (k : Z) (w : Q) (n : nat) :
  (0 <= k < Z.of_nat n)%Z ->
  qsum (map (fun t => if Z.eqb k (Z.of_nat t) then w else 0) (seq 0 n)) == w.
Proof.
  induction n as [|n IH]; intros Hk; [lia|].
  rewrite seq_S, map_app, qsum_app. cbn [plus map]. rewrite qsum_cons. cbn [qsum fold_right].
  destruct (Z.eqb k (Z.of_nat n)) eqn:E.
  - apply Z.eqb_eq in E.
    rewrite qsum_map_zero; [ring|].
    intros t Ht. apply in_seq in Ht.
    destruct (Z.eqb k (Z.of_nat t)) eqn:E2; [apply Z.eqb_eq in E2; lia | reflexivity].
  - apply Z.eqb_neq in E. rewrite IH by lia. ring.
Qed.

(* ------------------------------------------------------------------ the splat *)
Lemma splat_weights_sum rows cols p : qsum (map snd (splat rows cols p)) == 1.
Proof.
  unfold splat. cbv zeta. cbn [map snd qsum fold_right]. ring.
Qed.

Lemma frac_bounds (x : Q) : 0 <= x - inject_Z (Qfloor x) /\ x - inject_Z (Qfloor x) <= 1.
Proof.
  pose proof (Qfloor_le x) as L. pose proof (Qlt_floor x) as U.
  rewrite inject_Z_plus in U. change (inject_Z 1) with 1 in U. split; lra.
Qed.

Lemma splat_weights_nonneg rows cols p iw : In iw (splat rows cols p) -> 0 <= snd iw.
Proof.
  unfold splat. cbv zeta.
  destruct (frac_bounds (fst p)) as [X0 X1]. destruct (frac_bounds (snd p)) as [Y0 Y1].
  set (dx := fst p - inject_Z (Qfloor (fst p))) in *.
  set (dy := snd p - inject_Z (Qfloor (snd p))) in *.
  intros [E|[E|[E|[E|[]]]]]; subst iw; cbn [snd]; apply Qmult_le_0_compat; lra.
Qed.

Lemma flat_index_range rows cols i j :
  (0 < rows)%Z -> (0 < cols)%Z -> (0 <= flat_index rows cols i j < rows * cols)%Z.
Proof.
  intros Hr Hc. unfold flat_index.
  pose proof (Z.mod_pos_bound i rows Hr). pose proof (Z.mod_pos_bound j cols Hc). nia.
Qed.

Lemma splat_index_range rows cols p iw :
  (0 < rows)%Z -> (0 < cols)%Z -> In iw (splat rows cols p) ->
  (0 <= fst iw < rows * cols)%Z.
Proof.
  intros Hr Hc. unfold splat. cbv zeta.
  intros [E|[E|[E|[E|[]]]]]; subst iw; cbn [fst]; apply flat_index_range; assumption.
Qed.

Lemma contributions_cons rows cols p pts :
  contributions rows cols (p :: pts) = splat rows cols p ++ contributions rows cols pts.
Proof. reflexivity. Qed.

Lemma contributions_index_range rows cols pts iw :
  (0 < rows)%Z -> (0 < cols)%Z -> In iw (contributions rows cols pts) ->
  (0 <= fst iw < rows * cols)%Z.
Proof.
  intros Hr Hc. unfold contributions. rewrite in_flat_map. intros [p [_ Hin]].
  eapply splat_index_range; eassumption.
Qed.

Lemma contributions_total rows cols pts :
  qsum (map snd (contributions rows cols pts)) == qn (length pts).
Proof.
  induction pts as [|p pts IH].
  - reflexivity.
  - rewrite contributions_cons, map_app, qsum_app, splat_weights_sum, IH.
    cbn [length]. rewrite qn_S. ring.
Qed.

(* exchanging the sum over canvas cells with the sum over contributions *)
Lemma cell_weight_cons iw cs k :
  cell_weight (iw :: cs) k == (if Z.eqb (fst iw) k then snd iw else 0) + cell_weight cs k.
Proof.
  unfold cell_weight. cbn [filter]. destruct (Z.eqb (fst iw) k).
  - cbn [map]. rewrite qsum_cons. reflexivity.
  - ring.
Qed.

Lemma qsum_map_ext {A} (f g : A -> Q) l :
  (forall x, In x l -> f x == g x) -> qsum (map f l) == qsum (map g l).
Proof.
  induction l as [|x l IH]; intros Hfg; cbn [map]; rewrite ?qsum_cons.
  - reflexivity.
  - rewrite (Hfg x (or_introl eq_refl)). rewrite IH; [reflexivity|].
    intros y Hy. apply Hfg. right. exact Hy.
Qed.

Lemma weight_cells_total (cs : list (Z * Q)) (n : nat) :
  (forall iw, In iw cs -> (0 <= fst iw < Z.of_nat n)%Z) ->
  qsum (map (fun t => cell_weight cs (Z.of_nat t)) (seq 0 n)) == qsum (map snd cs).
Proof.
  induction cs as [|iw cs IH]; intros Hr.
  - cbn [map]. rewrite qsum_map_zero; [reflexivity|]. intros; reflexivity.
  - rewrite (qsum_map_ext (fun t => cell_weight (iw :: cs) (Z.of_nat t))
               (fun t => (if Z.eqb (fst iw) (Z.of_nat t) then snd iw else 0)
                         + cell_weight cs (Z.of_nat t)))
      by (intros t _; apply cell_weight_cons).
    rewrite (qsum_map_plus (fun t => if Z.eqb (fst iw) (Z.of_nat t) then snd iw else 0)
                           (fun t => cell_weight cs (Z.of_nat t))).
    rewrite qsum_one_hot by (apply Hr; left; reflexivity).
    rewrite IH by (intros y Hy; apply Hr; right; exact Hy).
    cbn [map]. rewrite qsum_cons. reflexivity.
Qed.

(* C15_splat_unit_weight (canvas form): whatever the coordinates — inside the canvas, outside
   it (wrapped), on or off the pixel grid — the weight map sums to the number of points *)
Theorem weight_map_total rows cols pts :
  (0 < rows)%Z -> (0 < cols)%Z ->
  qsum (weight_map rows cols pts) == qn (length pts).
Proof.
  intros Hr Hc. unfold weight_map. cbv zeta.
  rewrite weight_cells_total.
  - apply contributions_total.
  - intros iw Hin. rewrite Z2Nat.id by nia.
    eapply contributions_index_range; eassumption.
Qed.

Lemma weight_map_length rows cols pts : length (weight_map rows cols pts) = Z.to_nat (rows * cols).
Proof. unfold weight_map. cbv zeta. rewrite map_length, seq_length. reflexivity. Qed.

Lemma pixels_length H W : length (pixels H W) = (H * W)%nat.
Proof. unfold pixels. rewrite prod_length, !seq_length. reflexivity. Qed.

Theorem warp_weights_total rows cols H W K s c kn :
  (0 < rows)%Z -> (0 < cols)%Z ->
  qsum (warp_weights rows cols H W K s c kn) == qn (H * W).
Proof.
  intros Hr Hc. unfold warp_weights. rewrite weight_map_total by assumption.
  unfold pixel_coordinates. rewrite map_length, pixels_length. reflexivity.
Qed.

Lemma cell_weight_nonneg cs k :
  (forall iw, In iw cs -> 0 <= snd iw) -> 0 <= cell_weight cs k.
Proof.
  induction cs as [|iw cs IH]; intros Hn.
  - cbn. apply Qle_refl.
  - rewrite cell_weight_cons.
    assert (0 <= cell_weight cs k) by (apply IH; intros y Hy; apply Hn; right; exact Hy).
    assert (0 <= snd iw) by (apply Hn; left; reflexivity).
    destruct (Z.eqb (fst iw) k); lra.
Qed.

Theorem weight_map_nonneg rows cols pts w :
  In w (weight_map rows cols pts) -> 0 <= w.
Proof.
  unfold weight_map. cbv zeta. rewrite in_map_iff. intros [t [E _]]. subst w.
  apply cell_weight_nonneg. intros iw Hin. unfold contributions in Hin.
  apply in_flat_map in Hin. destruct Hin as [p [_ Hin]].
  eapply splat_weights_nonneg; exact Hin.
Qed.

(* ------------------------------------------------------------------ align_translation *)
Lemma mean_shift_zero n dxy :
  (forall i, (i < n)%nat -> veq (dxy i) (0, 0)) -> veq (mean_shift n dxy) (0, 0).
Proof.
  intros Hz. unfold veq, mean_shift. cbn [fst snd].
  split.
  - rewrite qsum_map_zero.
    + unfold Qdiv. ring.
    + intros i Hi. apply in_seq in Hi. apply (Hz i). lia.
  - rewrite qsum_map_zero.
    + unfold Qdiv. ring.
    + intros i Hi. apply in_seq in Hi. apply (Hz i). lia.
Qed.

Lemma measured_zero shifts n :
  (forall i, (1 <= i < n)%nat -> veq (shifts i) (0, 0)) ->
  forall i, (i < n)%nat -> veq (measured shifts i) (0, 0).
Proof.
  intros Hz i Hi. destruct i as [|i]; [apply veq_refl|]. cbn [measured]. apply Hz. lia.
Qed.

Lemma applied_shift_zero n mis shifts i :
  (i < n)%nat ->
  (forall k, (1 <= k < n)%nat -> veq (shifts k) (0, 0)) ->
  veq (applied_shift n mis shifts i) (0, 0).
Proof.
  intros Hi Hz.
  pose proof (mean_shift_zero n (measured shifts) (measured_zero shifts n Hz)) as [M0 M1].
  pose proof (measured_zero shifts n Hz i Hi) as [D0 D1].
  cbn [fst snd] in *.
  unfold applied_shift. cbv zeta.
  assert (E : veq (fst (measured shifts i) - fst (mean_shift n (measured shifts)),
                   snd (measured shifts i) - snd (mean_shift n (measured shifts))) (0, 0)).
  { unfold veq. cbn [fst snd]. rewrite M0, M1, D0, D1. split; ring. }
  destruct mis as [t|]; [|exact E].
  match goal with |- veq (if ?b then _ else _) _ => destruct b end; [apply veq_refl | exact E].
Qed.

(* C15_translation_fixed_point: zero measured shifts (what C13 gives for identical warped
   images) leave every knot of every image where it was *)
Theorem translation_fixed_point n mis shifts (kn : nat -> knots_t) i r j :
  (i < n)%nat ->
  (forall k, (1 <= k < n)%nat -> veq (shifts k) (0, 0)) ->
  veq (align_translation_knots n mis shifts kn i r j) (kn i r j).
Proof.
  intros Hi Hz. destruct (applied_shift_zero n mis shifts i Hi Hz) as [A0 A1].
  cbn [fst snd] in *.
  unfold align_translation_knots, vadd, veq. cbn [fst snd]. rewrite A0, A1. split; ring.
Qed.

(* after the mean is removed the applied shifts of a stack add up to zero (no net motion of
   the stack), when no minimum-shift threshold is given *)
Lemma qsum_map_minus_const {A} (f : A -> Q) (k : Q) l :
  qsum (map (fun x => f x - k) l) == qsum (map f l) - qn (length l) * k.
Proof.
  induction l as [|x l IH]; cbn [map length]; rewrite ?qsum_cons.
  - change (qn 0) with 0. cbn. ring.
  - rewrite IH, qn_S. ring.
Qed.

Theorem applied_shifts_sum_zero n shifts :
  (1 <= n)%nat ->
  qsum (map (fun i => fst (applied_shift n None shifts i)) (seq 0 n)) == 0 /\
  qsum (map (fun i => snd (applied_shift n None shifts i)) (seq 0 n)) == 0.
Proof.
  intros Hn. unfold applied_shift. cbv zeta. cbn [fst snd].
  split.
  - rewrite (qsum_map_minus_const (fun i => fst (measured shifts i))).
    rewrite seq_length. unfold mean_shift. cbn [fst snd].
    destruct n as [|n]; [lia|]. field. apply qn_S_neq0.
  - rewrite (qsum_map_minus_const (fun i => snd (measured shifts i))).
    rewrite seq_length. unfold mean_shift. cbn [fst snd].
    destruct n as [|n]; [lia|]. field. apply qn_S_neq0.
Qed.

(* ------------------------------------------------------------------ canvas shape *)
Lemma canvas_dim_even n pad : Z.even (canvas_dim n pad) = true.
Proof. unfold canvas_dim. rewrite Z.even_mul. cbn. apply orb_true_r. Qed.
