(* C10 — all proofs (re-export).  Part A: objects over Q; part B: Gram-Schmidt over Q(i), weights. *)
From QV.proof Require Export C10_Proofs_Obj C10_Proofs_GS C10_Proofs_W.
