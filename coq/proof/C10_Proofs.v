(* C10 — all proofs (re-export).  Part A: objects over Q; part B: Gram-Schmidt over Q(i), weights.
   Round 3: tomography combinations, Gram-Schmidt without the independence premise and with the
   clamp_min guard, ties, weight edge cases. *)
From QV.proof Require Export C10_Proofs_Obj C10_Proofs_GS C10_Proofs_W.
From QV.proof Require Export C10_Proofs_Tomo C10_Proofs_Dep C10_Proofs_Ties C10_Proofs_W2.
