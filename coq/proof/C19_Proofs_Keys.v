(* C19 — key spellings and association lists: lemmas about model/C19_Model.v *)
From QV.lib Require Import Prelude.
From QV.model Require Import C19_Model.
From Coq Require Import String Ascii.

(* ---------------------------------------------------------------- characters *)
Lemma dash_under : dash <> under. Proof. discriminate. Qed.
Lemma under_dash : under <> dash. Proof. discriminate. Qed.

Lemma repl_id a b s : has a s = false -> repl a b s = s.
Proof.
  induction s as [|c s IH]; cbn [has repl]; intros H; [reflexivity|].
  apply orb_false_iff in H. destruct H as [H1 H2]. rewrite H1, (IH H2). reflexivity.
Qed.

Lemma has_repl_gone a b s : a <> b -> has a (repl a b s) = false.
Proof.
  intros Hab. induction s as [|c s IH]; cbn [has repl]; [reflexivity|].
  rewrite IH, orb_false_r. destruct (Ascii.eqb_spec c a) as [->|Hc].
  - apply Ascii.eqb_neq. congruence.
  - apply Ascii.eqb_neq. exact Hc.
Qed.

Lemma has_repl_target a b s : has a s = true -> has b (repl a b s) = true.
Proof.
  induction s as [|c s IH]; cbn [has repl]; intros H; [discriminate|].
  apply orb_true_iff in H. destruct H as [H|H].
  - rewrite H, Ascii.eqb_refl. reflexivity.
  - rewrite (IH H), orb_true_r. reflexivity.
Qed.

(* a -> b and back restores a string that had no b *)
Lemma repl_inv a b s : has b s = false -> repl b a (repl a b s) = s.
Proof.
  induction s as [|c s IH]; cbn [has repl]; intros H; [reflexivity|].
  apply orb_false_iff in H. destruct H as [H1 H2]. rewrite (IH H2). f_equal.
  destruct (Ascii.eqb_spec c a) as [->|Hc].
  - rewrite Ascii.eqb_refl. reflexivity.
  - rewrite H1. reflexivity.
Qed.

Lemma repl_back a b s : a <> b -> repl a b (repl b a s) = repl a b s.
Proof.
  intros Hab. induction s as [|c s IH]; cbn [repl]; [reflexivity|]. rewrite IH. f_equal.
  destruct (Ascii.eqb_spec c b) as [->|Hcb].
  - rewrite Ascii.eqb_refl. assert (E : Ascii.eqb b a = false) by (apply Ascii.eqb_neq; congruence).
    rewrite E. reflexivity.
  - reflexivity.
Qed.

Lemma repl_idem a b s : a <> b -> repl a b (repl a b s) = repl a b s.
Proof. intros Hab. apply repl_id. apply has_repl_gone. exact Hab. Qed.

(* ---------------------------------------------------------------- spellings *)
Lemma norm_alt k : norm (alt_name k) = norm k.
Proof.
  unfold norm, alt_name. destruct (has under k).
  - apply repl_back. exact dash_under.
  - apply repl_idem. exact dash_under.
Qed.

Lemma pure_cases k : pure k = true -> has dash k = false \/ has under k = false.
Proof.
  unfold pure. intros H. apply negb_true_iff in H. apply andb_false_iff in H. exact H.
Qed.

Lemma bool_cases (b : bool) : b = true \/ b = false.
Proof. destruct b; auto. Qed.

(* two pure spellings of one name are equal or each other's alternative *)
Lemma alt_cases k k' :
  pure k = true -> pure k' = true -> norm k = norm k' -> k' = k \/ k' = alt_name k.
Proof.
  intros Pk Pk' Hn. unfold norm in Hn.
  destruct (bool_cases (has dash k)) as [Dk|Dk]; destruct (bool_cases (has dash k')) as [Dk'|Dk'].
  - (* both dashed: no underscores *)
    left. destruct (pure_cases _ Pk) as [E|Uk]; [congruence|].
    destruct (pure_cases _ Pk') as [E|Uk']; [congruence|].
    rewrite <- (repl_inv dash under k' Uk'), <- Hn. rewrite (repl_inv dash under k Uk). reflexivity.
  - right. destruct (pure_cases _ Pk) as [E|Uk]; [congruence|].
    unfold alt_name. rewrite Uk. rewrite Hn. symmetry. apply repl_id. exact Dk'.
  - right. destruct (pure_cases _ Pk') as [E|Uk']; [congruence|].
    rewrite (repl_id dash under k Dk) in Hn. unfold alt_name.
    assert (Hu : has under k = true) by (rewrite Hn; apply has_repl_target; exact Dk').
    rewrite Hu, Hn. symmetry. apply repl_inv. exact Uk'.
  - left. rewrite (repl_id _ _ _ Dk), (repl_id _ _ _ Dk') in Hn. congruence.
Qed.

(* ---------------------------------------------------------------- association lists *)
Lemma lookup_assign_same k v d : lookup k (assign k v d) = Some v.
Proof.
  induction d as [|[k' v'] d IH]; cbn [assign lookup].
  - rewrite String.eqb_refl. reflexivity.
  - destruct (String.eqb_spec k k') as [->|Hk]; cbn [lookup].
    + rewrite String.eqb_refl. reflexivity.
    + destruct (String.eqb_spec k k'); [congruence | exact IH].
Qed.

Lemma lookup_assign_other k k' v d : k <> k' -> lookup k' (assign k v d) = lookup k' d.
Proof.
  intros Hk. induction d as [|[k2 v2] d IH]; cbn [assign lookup].
  - destruct (String.eqb_spec k' k); [congruence | reflexivity].
  - destruct (String.eqb_spec k k2) as [->|Hk2]; cbn [lookup].
    + destruct (String.eqb_spec k' k2); [congruence | reflexivity].
    + rewrite IH. reflexivity.
Qed.

Lemma mem_assign x k v d : mem x (assign k v d) = mem x d || String.eqb x k.
Proof.
  unfold mem. destruct (String.eqb_spec x k) as [->|Hx].
  - rewrite lookup_assign_same, orb_true_r. reflexivity.
  - rewrite lookup_assign_other by congruence. rewrite orb_false_r. reflexivity.
Qed.

Lemma assign_same k v d : lookup k d = Some v -> assign k v d = d.
Proof.
  induction d as [|[k' v'] d IH]; cbn [assign lookup]; [discriminate|].
  destruct (String.eqb_spec k k') as [->|Hk]; intros H.
  - congruence.
  - rewrite (IH H). reflexivity.
Qed.

Lemma assign_assign k v v' d : assign k v (assign k v' d) = assign k v d.
Proof.
  induction d as [|[k2 v2] d IH]; cbn [assign].
  - rewrite String.eqb_refl. reflexivity.
  - destruct (String.eqb_spec k k2) as [->|Hk]; cbn [assign].
    + rewrite String.eqb_refl. reflexivity.
    + destruct (String.eqb_spec k k2); [congruence|]. rewrite IH. reflexivity.
Qed.

Lemma remove_assign_fresh k v d : lookup k d = None -> remove k (assign k v d) = d.
Proof.
  induction d as [|[k2 v2] d IH]; cbn [assign lookup remove].
  - rewrite String.eqb_refl. reflexivity.
  - destruct (String.eqb_spec k k2) as [->|Hk]; [discriminate|]. intros H. cbn [remove].
    destruct (String.eqb_spec k k2); [congruence|]. rewrite (IH H). reflexivity.
Qed.

Lemma lookup_In k v d : lookup k d = Some v -> In (k, v) d.
Proof.
  induction d as [|[k2 v2] d IH]; cbn [lookup]; [discriminate|].
  destruct (String.eqb_spec k k2) as [->|Hk]; intros H.
  - left. congruence.
  - right. apply IH. exact H.
Qed.

Lemma lookup_None_notin k d : lookup k d = None -> ~ In k (map fst d).
Proof.
  induction d as [|[k2 v2] d IH]; cbn [lookup map fst]; [intros _ H; destruct H|].
  destruct (String.eqb_spec k k2) as [->|Hk]; [discriminate|].
  intros H [E|I]; [congruence | exact (IH H I)].
Qed.

Lemma In_lookup_some k d : In k (map fst d) -> exists v, lookup k d = Some v.
Proof.
  induction d as [|[k2 v2] d IH]; cbn [lookup map fst]; [intros H; destruct H|].
  intros [E|I].
  - subst. rewrite String.eqb_refl. eauto.
  - destruct (String.eqb_spec k k2); [eauto | apply IH; exact I].
Qed.

Lemma mem_true_In k d : mem k d = true <-> In k (map fst d).
Proof.
  unfold mem. split.
  - destruct (lookup k d) eqn:E; [|discriminate]. intros _.
    apply lookup_In in E. apply (in_map fst) in E. exact E.
  - intros H. destruct (In_lookup_some _ _ H) as [v ->]. reflexivity.
Qed.

Lemma mem_false_notin k d : mem k d = false <-> ~ In k (map fst d).
Proof.
  rewrite <- mem_true_In. destruct (mem k d); split; intros; congruence.
Qed.

(* keys after an assignment: unchanged, or the new key at the end *)
Lemma keys_assign k v d :
  map fst (assign k v d) = if mem k d then map fst d else map fst d ++ [k].
Proof.
  unfold mem. induction d as [|[k2 v2] d IH]; cbn [assign lookup map fst app]; [reflexivity|].
  destruct (String.eqb_spec k k2) as [->|Hk]; cbn [map fst].
  - reflexivity.
  - rewrite IH. destruct (lookup k d); reflexivity.
Qed.

Lemma In_assign_inv k v d x w :
  In (x, w) (assign k v d) -> (x = k /\ w = v) \/ In (x, w) d.
Proof.
  induction d as [|[k2 v2] d IH]; cbn [assign].
  - intros [E|[]]. left. split; congruence.
  - destruct (String.eqb_spec k k2) as [->|Hk].
    + intros [E|I]; [left; split; congruence | right; right; exact I].
    + intros [E|I]; [right; left; exact E|]. destruct (IH I) as [L|R]; [left; exact L | right; right; exact R].
Qed.

(* ---------------------------------------------------------------- canonical names *)
Lemma norm_canon k d : norm (canon k d) = norm k.
Proof.
  unfold canon. destruct (mem k d); [reflexivity|]. destruct (mem (alt_name k) d); [apply norm_alt | reflexivity].
Qed.

Definition good_keys (d : items) : Prop :=
  Forall (fun kv => pure (fst kv) = true) d /\ NoDup (map (fun kv => norm (fst kv)) d).

Lemma good_keys_of d : good (Node d) -> good_keys d.
Proof. intros H. inversion H; subst. split; assumption. Qed.

Lemma good_pure d k : good_keys d -> In k (map fst d) -> pure k = true.
Proof.
  intros [HP _] Hin. apply in_map_iff in Hin. destruct Hin as [[k' v] [E I]]. cbn in E. subst.
  rewrite Forall_forall in HP. exact (HP _ I).
Qed.

Lemma NoDup_map_inj (A B : Type) (f : A -> B) (l : list A) x y :
  NoDup (map f l) -> In x l -> In y l -> f x = f y -> x = y.
Proof.
  induction l as [|a l IH]; cbn [map]; [intros _ H; destruct H|]. intros ND Hx Hy E. inversion ND as [|? ? Hn ND']; subst.
  destruct Hx as [->|Hx]; destruct Hy as [->|Hy]; try reflexivity.
  - exfalso. apply Hn. rewrite E. apply in_map. exact Hy.
  - exfalso. apply Hn. rewrite <- E. apply in_map. exact Hx.
  - apply IH; assumption.
Qed.

Lemma good_norm_inj d k1 k2 :
  good_keys d -> In k1 (map fst d) -> In k2 (map fst d) -> norm k1 = norm k2 -> k1 = k2.
Proof.
  intros [_ ND] H1 H2 E.
  rewrite <- (map_map fst norm) in ND.
  exact (NoDup_map_inj _ _ norm _ _ _ ND H1 H2 E).
Qed.

(* canonical_name finds the stored spelling of a pure key, or keeps the key when the name is new *)
Lemma canon_spec k d :
  good_keys d -> pure k = true ->
  (In (canon k d) (map fst d)) \/
  (canon k d = k /\ forall k', In k' (map fst d) -> norm k' <> norm k).
Proof.
  intros G P. unfold canon.
  destruct (mem k d) eqn:M1; [left; apply mem_true_In; exact M1|].
  destruct (mem (alt_name k) d) eqn:M2; [left; apply mem_true_In; exact M2|].
  right. split; [reflexivity|]. intros k' Hin E.
  destruct (alt_cases k k' P (good_pure _ _ G Hin) (eq_sym E)) as [->| ->].
  - apply mem_false_notin in M1. exact (M1 Hin).
  - apply mem_false_notin in M2. exact (M2 Hin).
Qed.

(* an assignment under another name does not change how a key is resolved *)
Lemma canon_assign_other k1 k2 v d :
  norm k1 <> norm k2 -> canon k2 (assign k1 v d) = canon k2 d.
Proof.
  intros Hn. unfold canon. rewrite !mem_assign.
  assert (E1 : String.eqb k2 k1 = false) by (apply String.eqb_neq; intros ->; congruence).
  assert (E2 : String.eqb (alt_name k2) k1 = false).
  { apply String.eqb_neq. intros E. apply Hn. rewrite <- E. rewrite norm_alt. reflexivity. }
  rewrite E1, E2, !orb_false_r. reflexivity.
Qed.

(* find: what `get` sees for one component *)
Definition find (k : string) (d : items) : option cfg := lookup (canon k d) d.

Lemma find_assign_other k1 k2 v d :
  norm k1 <> norm k2 -> find k2 (assign k1 v d) = find k2 d.
Proof.
  intros Hn. unfold find. rewrite (canon_assign_other _ _ v d Hn).
  apply lookup_assign_other. intros E. apply Hn. rewrite E. rewrite norm_canon. reflexivity.
Qed.

Lemma good_keys_assign k v d :
  good_keys d -> pure k = true -> good_keys (assign (canon k d) v d).
Proof.
  intros G P. pose proof G as [HP ND]. unfold good_keys.
  assert (Pc : pure (canon k d) = true).
  { destruct (canon_spec k d G P) as [Hin|[E _]]; [exact (good_pure _ _ G Hin) | rewrite E; exact P]. }
  split.
  - apply Forall_forall. intros [x w] Hin. cbn [fst].
    destruct (In_assign_inv _ _ _ _ _ Hin) as [[-> _]|I]; [exact Pc|].
    rewrite Forall_forall in HP. exact (HP _ I).
  - rewrite <- (map_map fst norm). rewrite keys_assign.
    destruct (mem (canon k d) d) eqn:M; [rewrite (map_map fst norm); exact ND|].
    rewrite map_app. cbn [map].
    destruct (canon_spec k d G P) as [Hin|[E Hno]].
    + apply mem_true_In in Hin. congruence.
    + rewrite (map_map fst norm).
      apply NoDup_rev in ND. rewrite <- (rev_involutive (_ ++ _)). apply NoDup_rev.
      rewrite rev_app_distr. cbn [rev app]. constructor; [|exact ND].
      rewrite <- in_rev. intros Hin. apply in_map_iff in Hin. destruct Hin as [[x w] [Ex I]]. cbn [fst] in Ex.
      apply (Hno x); [apply (in_map fst) in I; exact I|]. rewrite Ex, E. reflexivity.
Qed.

(* the heart of get-after-set: the other pure spelling resolves to the assigned entry *)
Lemma find_assign_same k1 k2 v d :
  good_keys d -> pure k1 = true -> pure k2 = true -> norm k1 = norm k2 ->
  find k2 (assign (canon k1 d) v d) = Some v.
Proof.
  intros G P1 P2 Hn. set (k1' := canon k1 d). set (d' := assign k1' v d).
  assert (G' : good_keys d') by (apply good_keys_assign; assumption).
  assert (In1 : In k1' (map fst d')).
  { apply mem_true_In. unfold d'. rewrite mem_assign, String.eqb_refl, orb_true_r. reflexivity. }
  unfold find. destruct (canon_spec k2 d' G' P2) as [Hin|[_ Hno]].
  - assert (E : canon k2 d' = k1').
    { apply (good_norm_inj d'); try assumption. rewrite norm_canon. unfold k1'. rewrite norm_canon. congruence. }
    rewrite E. apply lookup_assign_same.
  - exfalso. apply (Hno k1' In1). unfold k1'. rewrite norm_canon. exact Hn.
Qed.

(* both spellings resolve to the same entry of a good dict *)
Lemma find_same_norm k1 k2 d :
  good_keys d -> pure k1 = true -> pure k2 = true -> norm k1 = norm k2 -> find k1 d = find k2 d.
Proof.
  intros G P1 P2 Hn. unfold find.
  destruct (canon_spec k1 d G P1) as [I1|[E1 N1]]; destruct (canon_spec k2 d G P2) as [I2|[E2 N2]].
  - f_equal. apply (good_norm_inj d); try assumption. rewrite !norm_canon. exact Hn.
  - exfalso. apply (N2 _ I1). rewrite norm_canon. exact Hn.
  - exfalso. apply (N1 _ I2). rewrite norm_canon. congruence.
  - rewrite E1, E2.
    destruct (lookup k1 d) eqn:L1.
    { exfalso. apply lookup_In in L1. apply (in_map fst) in L1. exact (N1 _ L1 eq_refl). }
    destruct (lookup k2 d) eqn:L2.
    { exfalso. apply lookup_In in L2. apply (in_map fst) in L2. exact (N2 _ L2 eq_refl). }
    reflexivity.
Qed.

Lemma find_None_fresh k d :
  good_keys d -> pure k = true -> find k d = None ->
  canon k d = k /\ forall k', In k' (map fst d) -> norm k' <> norm k.
Proof.
  intros G P F. destruct (canon_spec k d G P) as [Hin|H]; [|exact H].
  exfalso. unfold find in F. destruct (In_lookup_some _ _ Hin) as [v E]. congruence.
Qed.
