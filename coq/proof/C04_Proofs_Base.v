(* C04 — list-level lemmas: the sub-mask index map, scatter writes, sums over partitions. *)
From Coq Require Import ZArith List Bool Arith Lia Ring Permutation.
From QV.lib Require Import Prelude Chunks FinSum.
From QV.model Require Import C04_Model.
Import ListNotations.
Unset Implicit Arguments.

(* ------------------------------------------------------------------ select / where *)
Lemma select_map {A B : Type} (f : A -> B) (m : list bool) (l : list A) :
  select m (map f l) = map f (select m l).
Proof.
  revert l. induction m as [|b m IH]; intros [|x l]; cbn [select map]; try reflexivity.
  destruct b; cbn [map]; rewrite IH; reflexivity.
Qed.

Lemma where1_cons (b : bool) (v : list bool) :
  where1 (b :: v) = if b then 0 :: map S (where1 v) else map S (where1 v).
Proof.
  unfold where1. cbn [length seq select].
  rewrite <- seq_shift, select_map. reflexivity.
Qed.

Lemma nth_map_S (l : list nat) (i : nat) : i < length l -> nth i (map S l) 0 = S (nth i l 0).
Proof.
  intros H. rewrite (nth_indep (map S l) 0 (S 0)) by (rewrite map_length; exact H).
  apply map_nth.
Qed.

Lemma index_map_core {A : Type} (d : A) :
  forall (fv sv : list bool) (pos : list A),
    length sv = length fv -> length pos = length fv ->
    (forall p, nth p sv false = true -> nth p fv false = true) ->
    length (where1 (select fv sv)) = length (select sv pos) /\
    forall i, i < length (select sv pos) ->
      nth (nth i (where1 (select fv sv)) 0) (select fv pos) d = nth i (select sv pos) d.
Proof.
  induction fv as [|f fv IH]; intros [|s sv] [|p pos] Hs Hp Hsub; cbn [length] in *; try lia.
  - cbn. split; [reflexivity | intros; lia].
  - assert (Hsub' : forall q, nth q sv false = true -> nth q fv false = true)
      by (intros q Hq; exact (Hsub (S q) Hq)).
    destruct (IH sv pos ltac:(lia) ltac:(lia) Hsub') as [IHl IHn].
    destruct f, s; cbn [select].
    + rewrite where1_cons. cbn [length]. rewrite map_length. split; [lia|].
      intros [|i] Hi; [reflexivity|].
      cbn [nth]. rewrite nth_map_S by lia. cbn [nth]. apply IHn. lia.
    + rewrite where1_cons. rewrite map_length. split; [exact IHl|].
      intros i Hi. rewrite nth_map_S by lia. cbn [nth]. apply IHn. exact Hi.
    + specialize (Hsub 0 eq_refl). cbn in Hsub. discriminate.
    + split; [exact IHl | exact IHn].
Qed.

Lemma where1_self {A : Type} :
  forall (fv : list bool) (pos : list A), length pos = length fv ->
    where1 (select fv fv) = seq 0 (length (select fv pos)).
Proof.
  induction fv as [|f fv IH]; intros [|p pos] Hp; cbn [length] in *; try lia; [reflexivity|].
  destruct f; cbn [select].
  - rewrite where1_cons. cbn [length seq]. rewrite (IH pos) by lia. rewrite seq_shift. reflexivity.
  - apply IH. lia.
Qed.

(* ------------------------------------------------------------------ 2-D masks *)
Lemma positions_from_shape i a b : same_shape a b -> positions_from i a = positions_from i b.
Proof.
  unfold same_shape. revert i b. induction a as [|ra a IH]; intros i [|rb b] H; cbn [map] in H; try discriminate.
  - reflexivity.
  - injection H as Hl Hr. cbn [positions_from]. unfold row_positions. rewrite Hl. f_equal. apply IH. exact Hr.
Qed.

Lemma positions_from_length i m : length (positions_from i m) = length (flat m).
Proof.
  revert i. induction m as [|r m IH]; intros i; [reflexivity|].
  cbn [positions_from]. unfold flat in *. cbn [concat]. rewrite !app_length, IH.
  unfold row_positions. rewrite map_length, seq_length. reflexivity.
Qed.

Lemma flat_length_shape a b : same_shape a b -> length (flat a) = length (flat b).
Proof.
  unfold same_shape, flat. revert b. induction a as [|ra a IH]; intros [|rb b] H; cbn [map] in H; try discriminate.
  - reflexivity.
  - injection H as Hl Hr. cbn [concat]. rewrite !app_length, Hl. f_equal. apply IH. exact Hr.
Qed.

Lemma same_shape_refl m : same_shape m m.
Proof. reflexivity. Qed.
Lemma submask_refl m : submask m m.
Proof. intros p H. exact H. Qed.

(* nth (nonzero full) (nth map i) = nth (nonzero sub) i,  and the map has one entry per pixel of sub *)
Theorem index_map_correct_lemma :
  forall full sub : mask2, same_shape full sub -> submask full sub ->
    length (index_map full sub) = length (nonzero2 sub) /\
    forall i, i < length (nonzero2 sub) ->
      nth (nth i (index_map full sub) 0) (nonzero2 full) (0, 0) = nth i (nonzero2 sub) (0, 0).
Proof.
  intros full sub Hsh Hsub. unfold index_map, masked, nonzero2, positions.
  rewrite <- (positions_from_shape 0 full sub Hsh).
  apply index_map_core.
  - symmetry. apply flat_length_shape. exact Hsh.
  - apply positions_from_length.
  - exact Hsub.
Qed.

Lemma index_map_self (m : mask2) : index_map m m = seq 0 (length (nonzero2 m)).
Proof.
  unfold index_map, masked, nonzero2, positions. apply where1_self. apply positions_from_length.
Qed.

Lemma NoDup_app_intro' {A : Type} (a b : list A) :
  NoDup a -> NoDup b -> (forall x, In x a -> In x b -> False) -> NoDup (a ++ b).
Proof.
  induction a as [|x a IH]; intros Ha Hb Hd; [exact Hb|].
  cbn [app]. inversion Ha as [|? ? Hx Ha']; subst. constructor.
  - intros Hin. apply in_app_or in Hin. destruct Hin as [Hin|Hin]; [exact (Hx Hin)|].
    exact (Hd x (or_introl eq_refl) Hin).
  - apply IH; [exact Ha' | exact Hb |]. intros y Hy Hy'. exact (Hd y (or_intror Hy) Hy').
Qed.

Lemma NoDup_app_disj {A : Type} (a b : list A) x : NoDup (a ++ b) -> In x a -> In x b -> False.
Proof.
  induction a as [|y a IH]; intros H Ha Hb; [contradiction|].
  cbn [app] in H. inversion H as [|? ? Hy H']; subst. destruct Ha as [->|Ha].
  - apply Hy. apply in_or_app. right. exact Hb.
  - exact (IH H' Ha Hb).
Qed.

Lemma NoDup_app_r {A : Type} (a b : list A) : NoDup (a ++ b) -> NoDup b.
Proof. induction a as [|y a IH]; intros H; [exact H|]. inversion H; subst. apply IH. assumption. Qed.

(* row-major coordinates are pairwise distinct *)
Lemma positions_from_fst_ge i m p : In p (positions_from i m) -> i <= fst p.
Proof.
  revert i. induction m as [|r m IH]; intros i H; [contradiction|].
  cbn [positions_from] in H. apply in_app_or in H. destruct H as [H|H].
  - unfold row_positions in H. apply in_map_iff in H. destruct H as [j [<- _]]. cbn. lia.
  - apply IH in H. lia.
Qed.

Lemma positions_from_NoDup i m : NoDup (positions_from i m).
Proof.
  revert i. induction m as [|r m IH]; intros i; [constructor|].
  cbn [positions_from]. apply NoDup_app_intro'.
  - unfold row_positions. apply FinFun.Injective_map_NoDup; [|apply seq_NoDup].
    intros a b H. congruence.
  - apply IH.
  - intros p H1 H2. apply positions_from_fst_ge in H2.
    unfold row_positions in H1. apply in_map_iff in H1. destruct H1 as [j [<- _]]. cbn in H2. lia.
Qed.

Lemma nonzero2_NoDup m : NoDup (nonzero2 m).
Proof.
  unfold nonzero2, positions. generalize (positions_from_NoDup 0 m). generalize (positions_from 0 m).
  generalize (flat m). induction l as [|b l IH]; intros [|p pos] H; cbn [select]; try constructor.
  inversion H as [|? ? Hp H']; subst. destruct b; [|apply IH; exact H'].
  constructor; [|apply IH; exact H'].
  intros Hin. apply Hp. clear -Hin. revert pos Hin. induction l as [|b l IH]; intros [|q pos] Hin; cbn [select] in Hin; try contradiction.
  destruct b; [destruct Hin as [->|Hin]; [left; reflexivity | right; apply IH; exact Hin] | right; apply IH; exact Hin].
Qed.

(* ------------------------------------------------------------------ scatter writes *)
Section ArrLemmas.
  Variable A : Type.
  Implicit Types (l arr : list A) (js : list nat).

  Lemma upd_length l j v : length (upd l j v) = length l.
  Proof. revert j. induction l as [|x l IH]; intros [|j]; cbn [upd length]; auto. Qed.

  Lemma nth_upd_eq l j v d : j < length l -> nth j (upd l j v) d = v.
  Proof. revert j. induction l as [|x l IH]; intros [|j] H; cbn [upd length nth] in *; try lia; auto. apply IH. lia. Qed.

  Lemma nth_upd_neq l i j v d : i <> j -> nth i (upd l j v) d = nth i l d.
  Proof.
    revert i j. induction l as [|x l IH]; intros [|i] [|j] H; cbn [upd nth]; try reflexivity; try lia.
    apply IH. lia.
  Qed.

  Lemma put_cons arr j js v vs : put arr (j :: js) (v :: vs) = put (upd arr j v) js vs.
  Proof. reflexivity. Qed.

  Lemma put_length arr js vs : length (put arr js vs) = length arr.
  Proof.
    revert arr vs. induction js as [|j js IH]; intros arr [|v vs]; try reflexivity.
    rewrite put_cons, IH. apply upd_length.
  Qed.

  (* writing f(j) at every j of js: later duplicates write the same value *)
  Lemma nth_put_map (f : nat -> A) arr js j d : j < length arr ->
    nth j (put arr js (map f js)) d = if memb j js then f j else nth j arr d.
  Proof.
    revert arr. induction js as [|x js IH]; intros arr Hj; [reflexivity|].
    cbn [map]. rewrite put_cons. rewrite IH by (rewrite upd_length; exact Hj).
    unfold memb in *. cbn [existsb]. destruct (existsb (Nat.eqb j) js) eqn:E.
    - rewrite Bool.orb_true_r. reflexivity.
    - rewrite Bool.orb_false_r. destruct (Nat.eqb j x) eqn:Ex.
      + apply Nat.eqb_eq in Ex. subst x. apply nth_upd_eq. exact Hj.
      + apply Nat.eqb_neq in Ex. apply nth_upd_neq. exact Ex.
  Qed.

  Lemma memb_app x a b : memb x (a ++ b) = (memb x a || memb x b)%bool.
  Proof. unfold memb. apply existsb_app. Qed.

  Lemma fold_put_length (F : list A -> list nat -> list A) batches arr :
    (forall a b, length (F a b) = length a) -> length (fold_left F batches arr) = length arr.
  Proof.
    intros HF. revert arr. induction batches as [|b bs IH]; intros arr; [reflexivity|].
    cbn [fold_left]. rewrite IH, HF. reflexivity.
  Qed.

  Lemma nth_fold_put (f : nat -> A) batches arr j d : j < length arr ->
    nth j (fold_left (fun a b => put a b (map f b)) batches arr) d
    = if memb j (concat batches) then f j else nth j arr d.
  Proof.
    revert arr. induction batches as [|b bs IH]; intros arr Hj; [reflexivity|].
    cbn [fold_left concat]. rewrite IH by (rewrite put_length; exact Hj).
    rewrite memb_app, nth_put_map by exact Hj.
    destruct (memb j (concat bs)), (memb j b); reflexivity.
  Qed.

  (* read-modify-write g(arr[j]) over pairwise disjoint batches: every listed entry is
     modified exactly once *)
  Lemma nth_fold_put_rmw (g : A -> A) (d : A) batches arr j :
    NoDup (concat batches) -> j < length arr ->
    nth j (fold_left (fun a b => put a b (map g (map (fun i => nth i a d) b))) batches arr) d
    = if memb j (concat batches) then g (nth j arr d) else nth j arr d.
  Proof.
    revert arr. induction batches as [|b bs IH]; intros arr Hnd Hj; [reflexivity|].
    cbn [fold_left concat] in *. rewrite IH; [| eapply NoDup_app_r; exact Hnd | rewrite put_length; exact Hj].
    rewrite map_map. rewrite (nth_put_map (fun i => g (nth i arr d))) by exact Hj.
    rewrite memb_app.
    destruct (memb j (concat bs)) eqn:E2, (memb j b) eqn:E1; cbn [orb]; try reflexivity.
    exfalso. apply memb_In in E1, E2. exact (NoDup_app_disj _ _ _ Hnd E1 E2).
  Qed.
End ArrLemmas.

Lemma perm_seq_memb (l : list nat) n j : Permutation l (seq 0 n) -> j < n -> memb j l = true.
Proof.
  intros HP Hj. apply memb_In. apply (Permutation_in _ (Permutation_sym HP)). apply in_seq. lia.
Qed.

Lemma perm_seq_NoDup (l : list nat) n : Permutation l (seq 0 n) -> NoDup l.
Proof. intros HP. apply (Permutation_NoDup (Permutation_sym HP)). apply seq_NoDup. Qed.

Lemma chunks_partition n b : 1 <= b -> Permutation (concat (batches_of n b)) (seq 0 n).
Proof. intros Hb. unfold batches_of. rewrite chunks_concat by exact Hb. apply Permutation_refl. Qed.

Lemma single_batch_partition n : Permutation (concat [seq 0 n]) (seq 0 n).
Proof. cbn [concat]. rewrite app_nil_r. apply Permutation_refl. Qed.

Lemma map_nth_seq {A B : Type} (G : A -> B) (l : list A) (d : A) :
  map (fun j => G (nth j l d)) (seq 0 (length l)) = map G l.
Proof.
  rewrite <- (map_map (fun j => nth j l d) G). f_equal.
  apply nth_ext with (d := d) (d' := d).
  - rewrite map_length, seq_length. reflexivity.
  - intros i Hi. rewrite map_length, seq_length in Hi.
    rewrite (nth_indep _ d (nth 0 l d)) by (rewrite map_length, seq_length; exact Hi).
    rewrite (map_nth (fun j => nth j l d) (seq 0 (length l)) 0 i). rewrite seq_nth by exact Hi. reflexivity.
Qed.

(* ------------------------------------------------------------------ sums over lists *)
Section Sums.
  Variable R : Type.
  Variables (rO rI : R) (radd rmul rsub : R -> R -> R) (ropp : R -> R).
  Variable Rth : ring_theory rO rI radd rmul rsub ropp (@eq R).
  Add Ring RringC04b : Rth.
  Notation suml := (suml rO radd).
  Infix "+" := radd.  Infix "*" := rmul.

  Lemma suml_perm (l l' : list R) : Permutation l l' -> suml l = suml l'.
  Proof.
    induction 1 as [| x l l' _ IH | x y l | l l' l'' _ IH1 _ IH2]; cbn [FinSum.suml].
    - reflexivity.
    - rewrite IH. reflexivity.
    - ring.
    - rewrite IH1. exact IH2.
  Qed.

  Lemma suml_map_perm {A : Type} (f : A -> R) (l l' : list A) :
    Permutation l l' -> suml (map f l) = suml (map f l').
  Proof. intros H. apply suml_perm. apply Permutation_map. exact H. Qed.

  Lemma suml_map_scale_r {A : Type} (c : R) (f : A -> R) (l : list A) :
    suml (map (fun x => f x * c) l) = suml (map f l) * c.
  Proof. induction l as [|x l IH]; cbn [map FinSum.suml]; [ring | rewrite IH; ring]. Qed.

  Lemma suml_map_ext {A : Type} (f g : A -> R) (l : list A) :
    (forall x, In x l -> f x = g x) -> suml (map f l) = suml (map g l).
  Proof.
    induction l as [|x l IH]; intros H; cbn [map FinSum.suml]; [reflexivity|].
    rewrite (H x (or_introl eq_refl)), IH; [reflexivity|]. intros y Hy. apply H. right. exact Hy.
  Qed.

  Lemma suml_map_lin {A : Type} (a b : R) (f g : A -> R) (l : list A) :
    suml (map (fun x => a * f x + b * g x) l) = a * suml (map f l) + b * suml (map g l).
  Proof. induction l as [|x l IH]; cbn [map FinSum.suml]; [ring | rewrite IH; ring]. Qed.

  Lemma suml_concat_map {A : Type} (f : A -> R) (ll : list (list A)) :
    suml (map f (concat ll)) = suml (map (fun l => suml (map f l)) ll).
  Proof.
    induction ll as [|l ll IH]; cbn [concat map FinSum.suml]; [reflexivity|].
    rewrite map_app, (suml_app Rth), IH. reflexivity.
  Qed.
End Sums.
Arguments suml_perm {R rO rI radd rmul rsub ropp} Rth.
Arguments suml_map_perm {R rO rI radd rmul rsub ropp} Rth {A} f l l' _.
Arguments suml_map_scale_r {R rO rI radd rmul rsub ropp} Rth {A} c f l.
Arguments suml_map_ext {R rO radd A} f g l _.
Arguments suml_map_lin {R rO rI radd rmul rsub ropp} Rth {A} a b f g l.
Arguments suml_concat_map {R rO rI radd rmul rsub ropp} Rth {A} f ll.
Arguments upd_length {A}.
Arguments nth_upd_eq {A}.
Arguments nth_upd_neq {A}.
Arguments put_length {A}.
Arguments nth_put_map {A}.
Arguments fold_put_length {A}.
Arguments nth_fold_put {A}.
Arguments nth_fold_put_rmw {A}.
