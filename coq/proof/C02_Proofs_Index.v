(* C02 — proofs about the index conventions, the rounding split and the loss algebra (Z / Q). *)
From QV.lib Require Import Prelude.
From QV.model Require Import C02_Model.
From Coq Require Import QArith Qround Qabs Lqa.
Local Close Scope Q_scope.
Local Open Scope Z_scope.

(* ------------------------------------------------------------------ fftfreq ordering *)
Lemma half_sum (n : Z) : (n + 1) / 2 + n / 2 = n.
Proof. lia. Qed.

Lemma fftfreq_list_length n : 0 <= n -> length (fftfreq_list n) = Z.to_nat n.
Proof.
  intros Hn. unfold fftfreq_list. rewrite app_length, !map_length, !seq_length.
  pose proof (half_sum n). lia.
Qed.

Lemma fftfreq_list_nth n i :
  0 <= i < n -> nth (Z.to_nat i) (fftfreq_list n) 0 = fftfreq_index i n.
Proof.
  intros Hi. unfold fftfreq_list, fftfreq_index.
  pose proof (half_sum n) as Hs.
  destruct (Z.ltb_spec i ((n + 1) / 2)) as [Hlt|Hge].
  - rewrite app_nth1 by (rewrite map_length, seq_length; lia).
    rewrite (nth_indep _ 0 (Z.of_nat 0)) by (rewrite map_length, seq_length; lia).
    rewrite map_nth, seq_nth by lia. lia.
  - rewrite app_nth2 by (rewrite map_length, seq_length; lia).
    rewrite map_length, seq_length.
    set (k := (Z.to_nat i - Z.to_nat ((n + 1) / 2))%nat).
    assert (Hk : (k < Z.to_nat (n / 2))%nat) by (unfold k; lia).
    rewrite (nth_indep _ 0 ((fun k0 : nat => Z.of_nat k0 - n / 2) 0%nat)) by (rewrite map_length, seq_length; exact Hk).
    rewrite (map_nth (fun k0 : nat => Z.of_nat k0 - n / 2)), seq_nth by exact Hk.
    unfold k. lia.
Qed.

(* the window: offsets -(n/2) .. ceil(n/2)-1 around the rounded position *)
Lemma fftfreq_index_range i n : 0 <= i < n -> - (n / 2) <= fftfreq_index i n < (n + 1) / 2.
Proof.
  intros Hi. unfold fftfreq_index. pose proof (half_sum n).
  destruct (Z.ltb_spec i ((n + 1) / 2)); lia.
Qed.

Lemma fftfreq_index_inj i i' n :
  0 <= i < n -> 0 <= i' < n -> fftfreq_index i n = fftfreq_index i' n -> i = i'.
Proof.
  intros Hi Hi'. unfold fftfreq_index. pose proof (half_sum n).
  destruct (Z.ltb_spec i ((n + 1) / 2)), (Z.ltb_spec i' ((n + 1) / 2)); lia.
Qed.

Lemma fftfreq_index_onto d n :
  - (n / 2) <= d < (n + 1) / 2 -> exists i, 0 <= i < n /\ fftfreq_index i n = d.
Proof.
  intros Hd. pose proof (half_sum n).
  destruct (Z_lt_ge_dec d 0) as [Hneg|Hpos].
  - exists (d + n). split; [lia|]. unfold fftfreq_index.
    destruct (Z.ltb_spec (d + n) ((n + 1) / 2)); lia.
  - exists d. split; [lia|]. unfold fftfreq_index.
    destruct (Z.ltb_spec d ((n + 1) / 2)); lia.
Qed.

(* fftfreq order is the identity modulo n: entry i is the representative of i in the window *)
Lemma fftfreq_index_mod i n : 0 < n -> (fftfreq_index i n) mod n = i mod n.
Proof.
  intros Hn. unfold fftfreq_index. destruct (i <? (n + 1) / 2); [reflexivity|].
  replace (i - n) with (i + (-1) * n) by lia. apply Z.mod_add. lia.
Qed.

Lemma fftfreq_order n i :
  0 <= i < n ->
  nth (Z.to_nat i) (fftfreq_list n) 0 = fftfreq_index i n /\ (fftfreq_index i n) mod n = i mod n.
Proof. intros Hi. split; [apply fftfreq_list_nth; exact Hi | apply fftfreq_index_mod; lia]. Qed.

(* ------------------------------------------------------------------ patch indices *)
Lemma patch_rows_length H n r0 : 0 <= n -> length (patch_rows H n r0) = Z.to_nat n.
Proof. intros. unfold patch_rows. rewrite map_length. apply fftfreq_list_length. assumption. Qed.

Lemma patch_rows_nth H n r0 i :
  0 <= i < n -> nth (Z.to_nat i) (patch_rows H n r0) 0 = (r0 + fftfreq_index i n) mod H.
Proof.
  intros Hi. unfold patch_rows.
  rewrite (nth_indep _ 0 ((fun x => (r0 + x) mod H) 0)) by (rewrite map_length, fftfreq_list_length; lia).
  rewrite (map_nth (fun x => (r0 + x) mod H)), fftfreq_list_nth by exact Hi. reflexivity.
Qed.

(* the transcription of _set_patch_indices computes the closed form *)
Lemma patch_indices_nth H W n m r0 c0 i j :
  0 <= i < n -> 0 <= j < m ->
  nth (Z.to_nat j) (nth (Z.to_nat i) (patch_indices H W n m r0 c0) []) 0 = patch_index H W n m r0 c0 i j.
Proof.
  intros Hi Hj. unfold patch_indices, patch_index.
  set (f := fun row : Z => map (fun col : Z => row * W + col) (patch_rows W m c0)).
  rewrite (nth_indep _ [] (f 0)) by (rewrite map_length, patch_rows_length; lia).
  rewrite (map_nth f), patch_rows_nth by exact Hi. unfold f.
  set (g := fun col : Z => (r0 + fftfreq_index i n) mod H * W + col).
  rewrite (nth_indep _ 0 (g 0)) by (rewrite map_length, patch_rows_length; lia).
  rewrite (map_nth g), patch_rows_nth by exact Hj. reflexivity.
Qed.

Lemma patch_indices_shape H W n m r0 c0 :
  0 <= n -> 0 <= m ->
  length (patch_indices H W n m r0 c0) = Z.to_nat n /\
  Forall (fun row => length row = Z.to_nat m) (patch_indices H W n m r0 c0).
Proof.
  intros Hn Hm. unfold patch_indices. split.
  - rewrite map_length. apply patch_rows_length. exact Hn.
  - apply Forall_forall. intros row Hin. apply in_map_iff in Hin. destruct Hin as [x [<- _]].
    rewrite map_length. apply patch_rows_length. exact Hm.
Qed.

Lemma flat_decode r c W : 0 <= c < W -> (r * W + c) / W = r /\ (r * W + c) mod W = c.
Proof.
  intros Hc. split.
  - rewrite Z.div_add_l by lia. rewrite Z.div_small by lia. lia.
  - rewrite Z.add_comm, Z.mod_add by lia. apply Z.mod_small. exact Hc.
Qed.

Lemma patch_index_decode H W n m r0 c0 i j :
  0 < H -> 0 < W ->
  0 <= patch_index H W n m r0 c0 i j < H * W /\
  patch_index H W n m r0 c0 i j / W = (r0 + fftfreq_index i n) mod H /\
  (patch_index H W n m r0 c0 i j) mod W = (c0 + fftfreq_index j m) mod W.
Proof.
  intros HH HW. unfold patch_index.
  set (r := (r0 + fftfreq_index i n) mod H). set (c := (c0 + fftfreq_index j m) mod W).
  assert (Hr : 0 <= r < H) by (apply Z.mod_pos_bound; lia).
  assert (Hc : 0 <= c < W) by (apply Z.mod_pos_bound; lia).
  destruct (flat_decode r c W Hc) as [Hd Hm]. split; [nia | split; assumption].
Qed.

Lemma mod_window_inj H a b : 0 < H -> - H < a - b < H -> a mod H = b mod H -> a = b.
Proof.
  intros HH Hab Heq.
  assert (Hd : (a - b) mod H = 0) by (rewrite Zminus_mod, Heq, Z.sub_diag; apply Z.mod_0_l; lia).
  apply Z.mod_divide in Hd; [|lia]. destruct Hd as [q Hq].
  assert (q = 0) by nia. subst q. lia.
Qed.

Lemma fftfreq_index_diff i i' n :
  0 <= i < n -> 0 <= i' < n -> - n < fftfreq_index i' n - fftfreq_index i n < n.
Proof.
  intros Hi Hi'. pose proof (fftfreq_index_range i n Hi). pose proof (fftfreq_index_range i' n Hi').
  pose proof (half_sum n). lia.
Qed.

(* no two pixels of the ROI read the same object pixel when the ROI fits in the object *)
Lemma patch_index_injective H W n m r0 c0 i j i' j' :
  0 < n <= H -> 0 < m <= W ->
  0 <= i < n -> 0 <= j < m -> 0 <= i' < n -> 0 <= j' < m ->
  patch_index H W n m r0 c0 i j = patch_index H W n m r0 c0 i' j' -> i = i' /\ j = j'.
Proof.
  intros Hn Hm Hi Hj Hi' Hj' Heq.
  assert (Bi : - H < (r0 + fftfreq_index i' n) - (r0 + fftfreq_index i n) < H)
    by (pose proof (fftfreq_index_diff i i' n Hi Hi'); lia).
  assert (Bj : - W < (c0 + fftfreq_index j' m) - (c0 + fftfreq_index j m) < W)
    by (pose proof (fftfreq_index_diff j j' m Hj Hj'); lia).
  assert (HH : 0 < H) by lia. assert (HW : 0 < W) by lia.
  destruct (patch_index_decode H W n m r0 c0 i j HH HW) as [_ [Hr Hc]].
  destruct (patch_index_decode H W n m r0 c0 i' j' HH HW) as [_ [Hr' Hc']].
  rewrite Heq in Hr, Hc. rewrite Hr' in Hr. rewrite Hc' in Hc.
  pose proof (mod_window_inj H _ _ HH Bi Hr) as Er.
  pose proof (mod_window_inj W _ _ HW Bj Hc) as Ec.
  clear Hr Hc Hr' Hc' Heq Bi Bj.
  split.
  - apply (fftfreq_index_inj i i' n Hi Hi'). lia.
  - apply (fftfreq_index_inj j j' m Hj Hj'). lia.
Qed.

Definition patch_indices_window_statement : Prop :=
  forall H W n m r0 c0 : Z,
    0 < H -> 0 < W -> 0 <= n -> 0 <= m ->
    (* the transcription has the ROI shape and its (i,j) entry is the closed form *)
    (length (patch_indices H W n m r0 c0) = Z.to_nat n /\
     Forall (fun row => length row = Z.to_nat m) (patch_indices H W n m r0 c0)) /\
    (forall i j, 0 <= i < n -> 0 <= j < m ->
       nth (Z.to_nat j) (nth (Z.to_nat i) (patch_indices H W n m r0 c0) []) 0
       = ((r0 + fftfreq_index i n) mod H) * W + ((c0 + fftfreq_index j m) mod W)) /\
    (* in range, and it decodes to (row, column) of the periodically wrapped window *)
    (forall i j, 0 <= patch_index H W n m r0 c0 i j < H * W /\
       patch_index H W n m r0 c0 i j / W = (r0 + fftfreq_index i n) mod H /\
       (patch_index H W n m r0 c0 i j) mod W = (c0 + fftfreq_index j m) mod W) /\
    (* the window is r0 - floor(n/2) .. r0 + ceil(n/2) - 1, each offset exactly once *)
    (forall i, 0 <= i < n -> - (n / 2) <= fftfreq_index i n < (n + 1) / 2) /\
    (forall d, - (n / 2) <= d < (n + 1) / 2 -> exists i, 0 <= i < n /\ fftfreq_index i n = d) /\
    (* injective on the ROI when it fits in the object *)
    (n <= H -> m <= W -> forall i j i' j',
       0 <= i < n -> 0 <= j < m -> 0 <= i' < n -> 0 <= j' < m ->
       patch_index H W n m r0 c0 i j = patch_index H W n m r0 c0 i' j' -> i = i' /\ j = j').

Lemma patch_indices_window : patch_indices_window_statement.
Proof.
  intros H W n m r0 c0 HH HW Hn Hm.
  split; [apply patch_indices_shape; assumption|].
  split; [intros i j Hi Hj; apply patch_indices_nth; assumption|].
  split; [intros i j; apply patch_index_decode; assumption|].
  split; [intros i Hi; apply fftfreq_index_range; exact Hi|].
  split; [intros d Hd; apply fftfreq_index_onto; exact Hd|].
  intros HnH HmW i j i' j' Hi Hj Hi' Hj' Heq.
  apply (patch_index_injective H W n m r0 c0 i j i' j'); try assumption; lia.
Qed.

(* when the ROI is larger than the object along an axis, two ROI pixels alias the same object pixel *)
Lemma patch_index_aliases : exists H W n m r0 c0 i j i' j',
  0 <= i < n /\ 0 <= i' < n /\ 0 <= j < m /\ 0 <= j' < m /\ (i, j) <> (i', j') /\
  patch_index H W n m r0 c0 i j = patch_index H W n m r0 c0 i' j'.
Proof.
  exists 4, 4, 6, 4, 0, 0, 1, 0, 3, 0.
  repeat split; try lia; try (intros E; discriminate E); try (vm_compute; reflexivity).
Qed.

(* ------------------------------------------------------------------ rounding split *)
Local Open Scope Q_scope.

Lemma round_frac_split q :
  q == inject_Z (round_half_even q) + frac_part q /\ - (1 # 2) <= frac_part q <= 1 # 2.
Proof.
  unfold frac_part. split; [ring|].
  unfold round_half_even.
  pose proof (Qfloor_le q) as Hlo. pose proof (Qlt_floor q) as Hhi.
  rewrite inject_Z_plus in Hhi. change (inject_Z 1) with 1 in Hhi.
  destruct (Qcompare (q - inject_Z (Qfloor q)) (1 # 2)) eqn:E.
  - apply Qeq_alt in E. destruct (Z.even (Qfloor q)).
    + lra.
    + rewrite inject_Z_plus. change (inject_Z 1) with 1. lra.
  - apply Qlt_alt in E. lra.
  - apply Qgt_alt in E. rewrite inject_Z_plus. change (inject_Z 1) with 1. lra.
Qed.

(* an integer position has no sub-pixel part *)
Lemma round_of_integer z : round_half_even (inject_Z z) = z /\ frac_part (inject_Z z) == 0.
Proof.
  assert (H : round_half_even (inject_Z z) = z).
  { unfold round_half_even. rewrite Qfloor_Z.
    assert (E : (inject_Z z - inject_Z z ?= 1 # 2) = Lt).
    { assert (H0 : inject_Z z - inject_Z z == 0) by ring. rewrite H0. reflexivity. }
    rewrite E. reflexivity. }
  split; [exact H|]. unfold frac_part. rewrite H. ring.
Qed.

Local Close Scope Q_scope.

(* ------------------------------------------------------------------ detector centring (index level) *)
Lemma centre_index_closed n s i : 0 < n -> centre_index n s i = (i - n / 2 + s) mod n.
Proof.
  intros Hn. unfold centre_index, roll_index.
  replace ((i - n / 2) mod n - - s) with ((i - n / 2) mod n + s) by lia.
  rewrite Zplus_mod_idemp_l. reflexivity.
Qed.

(* `no_shift`: the origin is roi/2; when that is an integer s (2 s = n, i.e. n even) the corner
   centring followed by fftshift is the identity permutation *)
Lemma centre_then_fftshift_index n s i :
  0 < n -> 2 * s = no_shift_origin_twice n -> 0 <= i < n -> centre_index n s i = i.
Proof.
  intros Hn Hs Hi. unfold no_shift_origin_twice in Hs. rewrite centre_index_closed by exact Hn.
  replace (i - n / 2 + s) with i by lia. apply Z.mod_small. exact Hi.
Qed.

(* for odd n the `no_shift` origin n/2 is not a pixel: the centring is a half-pixel Fourier
   interpolation, not a permutation *)
Lemma odd_no_integer_origin n s : Z.odd n = true -> 2 * s <> no_shift_origin_twice n.
Proof. intros Ho Hs. unfold no_shift_origin_twice in Hs. rewrite <- Hs, Z.odd_mul in Ho. discriminate. Qed.

(* for every n (odd included) the integer origin floor(n/2) — where the detector model puts the
   zero frequency — is centred by the identity permutation (the `constant` case with a centred beam);
   an origin displaced by the integer d is undone by a roll of d *)
Lemma centre_index_floor_origin n d i :
  0 < n -> 0 <= i < n -> centre_index n (n / 2 + d) i = (i + d) mod n.
Proof.
  intros Hn Hi. rewrite centre_index_closed by exact Hn. f_equal. lia.
Qed.

Lemma centre_index_all n :
  0 < n ->
  (forall s i, 2 * s = no_shift_origin_twice n -> 0 <= i < n -> centre_index n s i = i) /\
  (Z.odd n = true -> forall s, 2 * s <> no_shift_origin_twice n) /\
  (forall d i, 0 <= i < n -> centre_index n (n / 2 + d) i = (i + d) mod n).
Proof.
  intros Hn. split; [|split].
  - intros s i Hs Hi. apply centre_then_fftshift_index; assumption.
  - intros Ho s. apply odd_no_integer_origin. exact Ho.
  - intros d i Hi. apply centre_index_floor_origin; assumption.
Qed.

(* fftshift moves the zero-frequency bin (index 0) to index floor(n/2) *)
Lemma dc_position_spec n : 0 < n -> 0 <= dc_position n < n /\ roll_index n (n / 2) (dc_position n) = 0.
Proof.
  intros Hn. unfold dc_position, roll_index. split; [lia|].
  rewrite Z.sub_diag. apply Z.mod_0_l. lia.
Qed.

(* ------------------------------------------------------------------ losses *)
Local Open Scope Q_scope.

Lemma qsum_nonneg l : Forall (fun x => 0 <= x) l -> 0 <= qsum l.
Proof. induction 1 as [|x l Hx _ IH]; cbn [qsum]; lra. Qed.

Lemma qsum_zero_iff l :
  Forall (fun x => 0 <= x) l -> (qsum l == 0 <-> Forall (fun x => x == 0) l).
Proof.
  induction 1 as [|x l Hx Hl IH]; cbn [qsum].
  - split; [constructor | reflexivity].
  - pose proof (qsum_nonneg l Hl) as Hs. split.
    + intros H0. constructor; [lra|]. apply IH. lra.
    + intros Hall. inversion Hall as [|? ? Hx0 Hl0]; subst. apply IH in Hl0. lra.
Qed.

Lemma qsum_app a b : qsum (a ++ b) == qsum a + qsum b.
Proof. induction a as [|x a IH]; cbn [qsum app]; [ring | rewrite IH; ring]. Qed.

Lemma Qabs_zero_iff x : Qabs x == 0 <-> x == 0.
Proof.
  split; intros H.
  - pose proof (Qle_Qabs x). pose proof (Qle_Qabs (- x)). rewrite Qabs_opp in *. lra.
  - rewrite H. reflexivity.
Qed.

Lemma Qsq_nonneg x : 0 <= x * x.
Proof. destruct x as [a b]. unfold Qle, Qmult. cbn. nia. Qed.

Lemma sum_zero_split x s : 0 <= x -> 0 <= s -> x + s == 0 -> x == 0 /\ s == 0.
Proof. intros; split; lra. Qed.

Lemma sum_zero_join x s : x == 0 -> s == 0 -> x + s == 0.
Proof. intros; lra. Qed.

Lemma sqdiff_zero a b : (a - b) * (a - b) == 0 <-> a == b.
Proof. split; intros H; [nra | rewrite H; ring]. Qed.

Lemma absdiff_zero a b : Qabs (a - b) == 0 <-> a == b.
Proof. rewrite Qabs_zero_iff. split; intros; lra. Qed.

Lemma err_l1_zero_iff p : forall t, length p = length t -> (err_l1 p t == 0 <-> Forall2 Qeq p t).
Proof.
  induction p as [|a p IH]; intros [|b t] Hlen; try discriminate.
  - unfold err_l1. cbn. split; [constructor | reflexivity].
  - injection Hlen as Hlen. specialize (IH t Hlen).
    change (err_l1 (a :: p) (b :: t)) with (Qabs (a - b) + err_l1 p t).
    pose proof (Qabs_nonneg (a - b)) as Hab.
    assert (Hrest : 0 <= err_l1 p t).
    { unfold err_l1. apply qsum_nonneg. apply Forall_forall. intros x Hin. apply in_map_iff in Hin.
      destruct Hin as [[u v] [<- _]]. apply Qabs_nonneg. }
    split.
    + intros H0. destruct (sum_zero_split _ _ Hab Hrest H0) as [Hz Hs]. constructor.
      * apply absdiff_zero. exact Hz.
      * apply IH. exact Hs.
    + intros HF. inversion HF as [|? ? ? ? Hab0 HF']; subst. apply sum_zero_join.
      * apply absdiff_zero. exact Hab0.
      * apply IH. exact HF'.
Qed.

Lemma err_l2_zero_iff p : forall t, length p = length t -> (err_l2 p t == 0 <-> Forall2 Qeq p t).
Proof.
  induction p as [|a p IH]; intros [|b t] Hlen; try discriminate.
  - unfold err_l2. cbn. split; [constructor | reflexivity].
  - injection Hlen as Hlen. specialize (IH t Hlen).
    change (err_l2 (a :: p) (b :: t)) with ((a - b) * (a - b) + err_l2 p t).
    pose proof (Qsq_nonneg (a - b)) as Hab.
    assert (Hrest : 0 <= err_l2 p t).
    { unfold err_l2. apply qsum_nonneg. apply Forall_forall. intros x Hin. apply in_map_iff in Hin.
      destruct Hin as [[u v] [<- _]]. cbn [fst snd]. apply Qsq_nonneg. }
    split.
    + intros H0. destruct (sum_zero_split _ _ Hab Hrest H0) as [Hz Hs]. constructor.
      * apply sqdiff_zero. exact Hz.
      * apply IH. exact Hs.
    + intros HF. inversion HF as [|? ? ? ? Hab0 HF']; subst. apply sum_zero_join.
      * apply sqdiff_zero. exact Hab0.
      * apply IH. exact HF'.
Qed.

Lemma scaled_zero_iff err batch n mi : 0 < mi -> (scaled err batch n mi == 0 <-> err == 0).
Proof.
  intros Hmi. unfold scaled.
  assert (Hb : 0 < inject_Z (Z.pos batch)) by (unfold Qlt; cbn; lia).
  assert (Hn : 0 < inject_Z (Z.pos n)) by (unfold Qlt; cbn; lia).
  set (B := inject_Z (Z.pos batch)) in *. set (Nn := inject_Z (Z.pos n)) in *.
  assert (E : err / (B / Nn) / mi == err * (Nn / (B * mi))) by (field; split; lra).
  rewrite E.
  assert (Hk : 0 < Nn / (B * mi)).
  { apply Qlt_shift_div_l; [nra | lra]. }
  split; intros H0; [|rewrite H0; ring].
  destruct (Qmult_integral _ _ H0) as [H1|H1]; [exact H1 | lra].
Qed.

Lemma scaled_nonneg err batch n mi : 0 < mi -> 0 <= err -> 0 <= scaled err batch n mi.
Proof.
  intros Hmi He. unfold scaled.
  assert (Hb : 0 < inject_Z (Z.pos batch)) by (unfold Qlt; cbn; lia).
  assert (Hn : 0 < inject_Z (Z.pos n)) by (unfold Qlt; cbn; lia).
  set (B := inject_Z (Z.pos batch)) in *. set (Nn := inject_Z (Z.pos n)) in *.
  assert (E : err / (B / Nn) / mi == err * (Nn / (B * mi))) by (field; split; lra).
  rewrite E.
  assert (Hk : 0 < Nn / (B * mi)) by (apply Qlt_shift_div_l; [nra | lra]).
  nra.
Qed.

Lemma sq_eq_nonneg a b : 0 <= a -> 0 <= b -> (sq a == sq b <-> a == b).
Proof.
  intros Ha Hb. unfold sq. split; intros H; [nra | rewrite H; reflexivity].
Qed.

Lemma Forall2_sq a : forall b,
  Forall (fun x => 0 <= x) a -> Forall (fun x => 0 <= x) b ->
  (Forall2 Qeq (map sq a) (map sq b) <-> Forall2 Qeq a b).
Proof.
  induction a as [|x a IH]; intros [|y b] Ha Hb; cbn [map].
  - split; constructor.
  - split; intros H; inversion H.
  - split; intros H; inversion H.
  - inversion Ha; inversion Hb; subst. split; intros H; inversion H; subst; constructor.
    + apply sq_eq_nonneg; assumption.
    + apply IH; assumption.
    + apply sq_eq_nonneg; assumption.
    + apply IH; assumption.
Qed.

Definition loss_zero_iff_equal_statement : Prop :=
  forall (a b : list Q) (batch n : positive) (mi : Q),
    length a = length b -> 0 < mi ->
    Forall (fun x => 0 <= x) a -> Forall (fun x => 0 <= x) b ->
    (loss_l1_amplitude a b batch n mi == 0 <-> Forall2 Qeq a b) /\
    (loss_l2_amplitude a b batch n mi == 0 <-> Forall2 Qeq a b) /\
    (loss_l1_intensity a b batch n mi == 0 <-> Forall2 Qeq a b) /\
    (loss_l2_intensity a b batch n mi == 0 <-> Forall2 Qeq a b) /\
    0 <= loss_l1_amplitude a b batch n mi /\ 0 <= loss_l2_amplitude a b batch n mi /\
    0 <= loss_l1_intensity a b batch n mi /\ 0 <= loss_l2_intensity a b batch n mi.

Lemma err_l1_nonneg p t : 0 <= err_l1 p t.
Proof.
  unfold err_l1. apply qsum_nonneg. apply Forall_forall. intros x Hin. apply in_map_iff in Hin.
  destruct Hin as [[u v] [<- _]]. apply Qabs_nonneg.
Qed.

Lemma err_l2_nonneg p t : 0 <= err_l2 p t.
Proof.
  unfold err_l2. apply qsum_nonneg. apply Forall_forall. intros x Hin. apply in_map_iff in Hin.
  destruct Hin as [[u v] [<- _]]. cbn [fst snd]. apply Qsq_nonneg.
Qed.

Lemma loss_zero_iff_equal : loss_zero_iff_equal_statement.
Proof.
  intros a b batch n mi Hlen Hmi Ha Hb.
  assert (Hlen2 : length (map sq a) = length (map sq b)) by (rewrite !map_length; exact Hlen).
  unfold loss_l1_amplitude, loss_l2_amplitude, loss_l1_intensity, loss_l2_intensity.
  repeat split.
  - intros H. apply scaled_zero_iff in H; [|exact Hmi]. apply err_l1_zero_iff; assumption.
  - intros H. apply scaled_zero_iff; [exact Hmi|]. apply err_l1_zero_iff; assumption.
  - intros H. apply scaled_zero_iff in H; [|exact Hmi]. apply err_l2_zero_iff; assumption.
  - intros H. apply scaled_zero_iff; [exact Hmi|]. apply err_l2_zero_iff; assumption.
  - intros H. apply scaled_zero_iff in H; [|exact Hmi]. apply err_l1_zero_iff in H; [|exact Hlen2].
    apply (Forall2_sq a b Ha Hb). exact H.
  - intros H. apply scaled_zero_iff; [exact Hmi|]. apply err_l1_zero_iff; [exact Hlen2|].
    apply (Forall2_sq a b Ha Hb). exact H.
  - intros H. apply scaled_zero_iff in H; [|exact Hmi]. apply err_l2_zero_iff in H; [|exact Hlen2].
    apply (Forall2_sq a b Ha Hb). exact H.
  - intros H. apply scaled_zero_iff; [exact Hmi|]. apply err_l2_zero_iff; [exact Hlen2|].
    apply (Forall2_sq a b Ha Hb). exact H.
  - apply scaled_nonneg; [exact Hmi | apply err_l1_nonneg].
  - apply scaled_nonneg; [exact Hmi | apply err_l2_nonneg].
  - apply scaled_nonneg; [exact Hmi | apply err_l1_nonneg].
  - apply scaled_nonneg; [exact Hmi | apply err_l2_nonneg].
Qed.

(* batch-fraction scaling: the batch losses, each weighted by its batch fraction, add up to
   the full-batch loss — for every partition into non-empty batches (equal sizes or not) *)
Lemma loss_batch_scaling (n : positive) (mi : Q) (bs : list (list Q)) :
  ~ mi == 0 -> Forall (fun b => b <> []) bs ->
  weighted_batch_sum n mi bs == full_loss mi bs.
Proof.
  intros Hmi Hne. unfold weighted_batch_sum, full_loss.
  induction Hne as [|b bs Hb _ IH]; cbn [map qsum concat].
  - field. exact Hmi.
  - rewrite IH, qsum_app. unfold batch_fraction, batch_loss.
    assert (Hl : ~ inject_Z (Z.of_nat (length b)) == 0).
    { destruct b as [|x b]; [congruence|]. unfold Qeq. cbn [length]. cbn. lia. }
    assert (Hn : ~ inject_Z (Z.pos n) == 0) by (unfold Qeq; cbn; lia).
    field. repeat split; assumption.
Qed.

(* equal batch sizes: the plain mean of the batch losses is the full loss *)
Lemma loss_batch_mean_equal_sizes (n : positive) (mi : Q) (bs : list (list Q)) (k : positive) :
  ~ mi == 0 -> Forall (fun b => length b = Pos.to_nat k) bs ->
  (Pos.to_nat n = length bs * Pos.to_nat k)%nat -> bs <> [] ->
  qsum (map (batch_loss n mi) bs) / inject_Z (Z.of_nat (length bs)) == full_loss mi bs.
Proof.
  intros Hmi Hk Hn Hne.
  assert (Hfrac : forall b, In b bs -> batch_fraction n b == 1 / inject_Z (Z.of_nat (length bs))).
  { intros b Hin. rewrite Forall_forall in Hk. unfold batch_fraction. rewrite (Hk b Hin).
    assert (E : Z.pos n = (Z.of_nat (length bs) * Z.of_nat (Pos.to_nat k))%Z) by lia.
    rewrite E, inject_Z_mult.
    assert (H1 : ~ inject_Z (Z.of_nat (Pos.to_nat k)) == 0) by (unfold Qeq; cbn; lia).
    assert (H2 : ~ inject_Z (Z.of_nat (length bs)) == 0).
    { destruct bs; [congruence|]. unfold Qeq. cbn [length]. cbn. lia. }
    field. split; assumption. }
  rewrite <- (loss_batch_scaling n mi bs Hmi).
  2:{ apply Forall_forall. intros b Hin Hb. rewrite Forall_forall in Hk. specialize (Hk b Hin).
      subst b. cbn in Hk. lia. }
  unfold weighted_batch_sum.
  assert (H2 : ~ inject_Z (Z.of_nat (length bs)) == 0).
  { destruct bs; [congruence|]. unfold Qeq. cbn [length]. cbn. lia. }
  set (L := inject_Z (Z.of_nat (length bs))) in *.
  assert (G : forall l, (forall b, In b l -> batch_fraction n b == 1 / L) ->
            qsum (map (batch_loss n mi) l) / L == qsum (map (fun b => batch_fraction n b * batch_loss n mi b) l)).
  { induction l as [|b l IHl]; intros Hl; cbn [map qsum].
    - field. exact H2.
    - rewrite <- IHl by (intros; apply Hl; right; assumption).
      rewrite (Hl b) by (left; reflexivity). field. exact H2. }
  apply G. exact Hfrac.
Qed.
