(* C05 — pickling / deepcopy (copy_st) at every granularity: what a copy preserves.
     copy_loaded  : after unpickling every model is `prebound` (optimiser over its OWN copies)
     copy_binding : Deep / Joint copies are properly bound without any reconnect
     view_copy    : the id-free view is unchanged by a copy
     copy_fresh   : a full copy shares nothing with the original *)
From QV.lib Require Import Prelude.
From QV.model Require Import C05_Model.
From QV.proof Require Import C05_Proofs_Base.
Set Implicit Arguments.

(* ------------------------------------------------------------------ block arithmetic *)
Lemma blk_div n q r : r < n -> (n * q + r) / n = q.
Proof.
  intros H. rewrite (Nat.mul_comm n q), Nat.div_add_l by lia.
  rewrite Nat.div_small by lia. lia.
Qed.

Lemma blk_mod n q r : r < n -> (n * q + r) mod n = r.
Proof.
  intros H. rewrite (Nat.mul_comm n q), Nat.add_comm, Nat.mod_add by lia.
  now apply Nat.mod_small.
Qed.

Lemma blk_ge n q r : 1 <= q -> n <= n * q + r.
Proof. intros H. nia. Qed.

Lemma blk_lt n q r nb : r < n -> q <= nb -> n * q + r < n * S nb.
Proof. intros H1 H2. nia. Qed.

Lemma blk_inj n q r q' r' : r < n -> r' < n -> n * q + r = n * q' + r' -> q = q' /\ r = r'.
Proof.
  intros H H' E. split.
  - rewrite <- (blk_div q H), <- (blk_div q' H'). now rewrite E.
  - rewrite <- (blk_mod q H), <- (blk_mod q' H'). now rewrite E.
Qed.

Lemma NoDup_map_inj (A B : Type) (f : A -> B) (l : list A) :
  (forall x y, f x = f y -> x = y) -> NoDup l -> NoDup (map f l).
Proof.
  intros Hinj. induction 1 as [|x l Hn Hnd IH]; cbn; constructor; [|exact IH].
  intros Hin. apply in_map_iff in Hin. destruct Hin as (y & E & Hy).
  apply Hinj in E. subst y. contradiction.
Qed.

(* index-free access to copy_models: every element is the copy of the model at its position *)
Section CopyModels.
  Variable C : Type.
  Implicit Types (m : mdl C) (ms : list (mdl C)) (a : nat -> option (nat * nat * nat)).

  Lemma copy_models_length n a i ms : length (copy_models n a i ms) = length ms.
  Proof. revert i. induction ms as [|m t IH]; intros i; cbn; [reflexivity|now rewrite IH]. Qed.

  Lemma copy_models_map (B : Type) (f g : mdl C -> B) n a i ms :
    (forall k m, i <= k < i + length ms -> In m ms -> f (copy_model n (a k) m) = g m) ->
    map f (copy_models n a i ms) = map g ms.
  Proof.
    revert i. induction ms as [|m t IH]; intros i H; cbn [copy_models map]; [reflexivity|].
    f_equal.
    - apply H; [cbn; lia|now left].
    - apply IH. intros k m' Hk Hin. apply H; [cbn; lia|now right].
  Qed.

  Lemma copy_models_Forall (P Q : mdl C -> Prop) n a i ms :
    (forall k m, i <= k < i + length ms -> In m ms -> P m -> Q (copy_model n (a k) m)) ->
    Forall P ms -> Forall Q (copy_models n a i ms).
  Proof.
    revert i. induction ms as [|m t IH]; intros i H HP; cbn [copy_models]; [constructor|].
    inversion HP as [|? ? Hm Ht]; subst. constructor.
    - apply H; [cbn; lia|now left|exact Hm].
    - apply IH; [|exact Ht]. intros k m' Hk Hin. apply H; [cbn; lia|now right].
  Qed.

  Lemma copy_models_In n a i ms m' :
    In m' (copy_models n a i ms) ->
    exists k m, i <= k < i + length ms /\ In m ms /\ m' = copy_model n (a k) m.
  Proof.
    revert i. induction ms as [|m t IH]; intros i; cbn [copy_models]; [intros []|].
    intros [E|Hin].
    - exists i, m. split; [cbn; lia|]. split; [now left|now symmetry].
    - destruct (IH _ Hin) as (k & m0 & Hk & Hm0 & E). exists k, m0.
      split; [cbn; lia|]. split; [now right|exact E].
  Qed.

  (* pairwise relations: the copies are pairwise related as soon as any two copies
     (with arbitrary block assignments from the family) of related models are *)
  Lemma copy_models_FOP (P : mdl C -> Prop) (Rel : mdl C -> mdl C -> Prop) n a i ms :
    (forall k k' m m', P m -> P m' -> Rel m m' -> Rel (copy_model n (a k) m) (copy_model n (a k') m')) ->
    Forall P ms -> ForallOrdPairs Rel ms -> ForallOrdPairs Rel (copy_models n a i ms).
  Proof.
    intros H. revert i. induction ms as [|m t IH]; intros i HP HR; cbn [copy_models]; [constructor|].
    inversion HP as [|? ? Hm Ht]; subst. inversion HR as [|? ? Hmt Htt]; subst. constructor.
    - assert (HPR : Forall (fun m' => P m' /\ Rel m m') t).
      { rewrite Forall_forall in *. intros x Hx. split; auto. }
      eapply copy_models_Forall; [|exact HPR]. cbn beta.
      intros k m' _ _ (HP' & HR'). now apply H.
    - now apply IH.
  Qed.
End CopyModels.

Section Copy.
  Variables V M L R C SS : Type.
  Implicit Types (s : st V M L R C SS) (h : heap V M R SS) (m : mdl C) (g : gran).

  (* ---------------------------------------------------------------- reading the copied heap *)
  Lemma copy_hnext h nb : hnext (copy_heap h nb) = hnext h * S nb.
  Proof. reflexivity. Qed.

  Lemma copy_hp_lo h nb j : j < hnext h -> hp (copy_heap h nb) j = hp h j.
  Proof. intros H. unfold copy_heap; cbn [hp]. destruct (Nat.ltb_spec j (hnext h)); [reflexivity|lia]. Qed.
  Lemma copy_ho_lo h nb j : j < hnext h -> ho (copy_heap h nb) j = ho h j.
  Proof. intros H. unfold copy_heap; cbn [ho]. destruct (Nat.ltb_spec j (hnext h)); [reflexivity|lia]. Qed.
  Lemma copy_hs_lo h nb j : j < hnext h -> hs (copy_heap h nb) j = hs h j.
  Proof. intros H. unfold copy_heap; cbn [hs]. destruct (Nat.ltb_spec j (hnext h)); [reflexivity|lia]. Qed.

  Lemma copy_hp_hi h nb q r :
    1 <= q -> q <= nb -> r < hnext h -> hp (copy_heap h nb) (cref (hnext h) q r) = hp h r.
  Proof.
    intros H1 H2 H3. unfold copy_heap, cref; cbn [hp].
    pose proof (blk_ge (hnext h) r H1). pose proof (blk_lt H3 H2).
    destruct (Nat.ltb_spec (hnext h * q + r) (hnext h)); [lia|].
    destruct (Nat.ltb_spec (hnext h * q + r) (hnext h * S nb)); [|lia].
    now rewrite blk_mod.
  Qed.
  Lemma copy_ho_hi h nb q r :
    1 <= q -> q <= nb -> r < hnext h ->
    ho (copy_heap h nb) (cref (hnext h) q r) = option_map (shift_opt (hnext h * q)) (ho h r).
  Proof.
    intros H1 H2 H3. unfold copy_heap, cref; cbn [ho].
    pose proof (blk_ge (hnext h) r H1). pose proof (blk_lt H3 H2).
    destruct (Nat.ltb_spec (hnext h * q + r) (hnext h)); [lia|].
    destruct (Nat.ltb_spec (hnext h * q + r) (hnext h * S nb)); [|lia].
    now rewrite blk_mod, blk_div.
  Qed.
  Lemma copy_hs_hi h nb q r :
    1 <= q -> q <= nb -> r < hnext h ->
    hs (copy_heap h nb) (cref (hnext h) q r) = option_map (shift_sched (hnext h * q)) (hs h r).
  Proof.
    intros H1 H2 H3. unfold copy_heap, cref; cbn [hs].
    pose proof (blk_ge (hnext h) r H1). pose proof (blk_lt H3 H2).
    destruct (Nat.ltb_spec (hnext h * q + r) (hnext h)); [lia|].
    destruct (Nat.ltb_spec (hnext h * q + r) (hnext h * S nb)); [|lia].
    now rewrite blk_mod, blk_div.
  Qed.

  Lemma cref_lt n q r nb : r < n -> q <= nb -> cref n q r < n * S nb.
  Proof. unfold cref. apply blk_lt. Qed.
  Lemma cref_inj n q r r' : cref n q r = cref n q r' -> r = r'.
  Proof. unfold cref. lia. Qed.

  (* ---------------------------------------------------------------- block assignments *)
  Definition refs_lt (n : nat) m : Prop :=
    (forall p, In p (mparams m) -> p < n) /\ (forall o, mopt m = Some o -> o < n) /\
    (forall x, msched m = Some x -> x < n).
  Definition ge1 (a : option (nat * nat * nat)) : Prop :=
    match a with None => True | Some (qp, qo, qs) => 1 <= qp /\ 1 <= qo /\ 1 <= qs end.
  Definition ok_blk (nb : nat) (a : option (nat * nat * nat)) : Prop :=
    match a with
    | None => True
    | Some (qp, qo, qs) => (1 <= qp /\ qp <= nb) /\ (1 <= qo /\ qo <= nb) /\ (1 <= qs /\ qs <= nb)
    end.
  Definition joint_blk (a : option (nat * nat * nat)) : Prop :=
    match a with None => True | Some (qp, qo, qs) => qo = qp /\ qs = qp end.

  Lemma bound_refs_lt h m : bound h m -> refs_lt (hnext h) m.
  Proof.
    intros (Hnd & Hlt & Ho & Hs). rewrite Forall_forall in Hlt. repeat split.
    - exact Hlt.
    - intros o E. rewrite E in Ho. tauto.
    - intros x E. rewrite E in Hs. tauto.
  Qed.

  Lemma blocks_ge1 g k : ge1 (blocks g k).
  Proof. destruct g; cbn; try lia. destruct (Nat.eqb k i); cbn; [lia|exact I]. Qed.

  Lemma blocks_ok g nm k : k < nm -> ok_blk (nblocks g nm) (blocks g k).
  Proof. intros H. destruct g; cbn; try lia. destruct (Nat.eqb k i); cbn; [lia|exact I]. Qed.

  Lemma blocks_joint g k : g = Deep \/ g = Joint -> joint_blk (blocks g k).
  Proof. intros [->| ->]; cbn; auto. Qed.

  (* ---------------------------------------------------------------- sep *)
  Lemma sep_copy n a a' m m' :
    refs_lt n m -> refs_lt n m' -> ge1 a -> ge1 a' -> sep m m' ->
    sep (copy_model n a m) (copy_model n a' m').
  Proof.
    intros (Lp & Lo & Ls) (Lp' & Lo' & Ls') Ha Ha' (Sp & So & Sx).
    destruct a as [[[qp qo] qs]|], a' as [[[qp' qo'] qs']|]; cbn [copy_model ge1] in *.
    - (* both moved: equal addresses force equal local ids *)
      unfold sep; cbn [mparams mopt msched]. repeat split.
      + intros p Hin Hin'. apply in_map_iff in Hin. apply in_map_iff in Hin'.
        destruct Hin as (r & E & Hr), Hin' as (r' & E' & Hr'). subst p. unfold cref in E'.
        apply blk_inj in E'; auto. destruct E' as (_ & ->). exact (Sp r Hr Hr').
      + intros o E E'. destruct (mopt m) as [r|]; [|discriminate].
        destruct (mopt m') as [r'|]; [|discriminate]. cbn in E, E'.
        injection E as <-. injection E' as E'. unfold cref in E'.
        apply blk_inj in E'; auto. destruct E' as (_ & ->). exact (So r eq_refl eq_refl).
      + intros o E E'. destruct (msched m) as [r|]; [|discriminate].
        destruct (msched m') as [r'|]; [|discriminate]. cbn in E, E'.
        injection E as <-. injection E' as E'. unfold cref in E'.
        apply blk_inj in E'; auto. destruct E' as (_ & ->). exact (Sx r eq_refl eq_refl).
    - (* m moved (ids >= n), m' in place (ids < n) *)
      unfold sep; cbn [mparams mopt msched]. repeat split.
      + intros p Hin Hin'. apply in_map_iff in Hin. destruct Hin as (r & E & Hr). subst p.
        apply Lp' in Hin'. unfold cref in Hin'. pose proof (@blk_ge n qp r). lia.
      + intros o E E'. destruct (mopt m) as [r|]; [|discriminate]. cbn in E. injection E as <-.
        apply Lo' in E'. unfold cref in E'. pose proof (@blk_ge n qo r). lia.
      + intros o E E'. destruct (msched m) as [r|]; [|discriminate]. cbn in E. injection E as <-.
        apply Ls' in E'. unfold cref in E'. pose proof (@blk_ge n qs r). lia.
    - unfold sep; cbn [mparams mopt msched]. repeat split.
      + intros p Hin Hin'. apply in_map_iff in Hin'. destruct Hin' as (r & E & Hr). subst p.
        apply Lp in Hin. unfold cref in Hin. pose proof (@blk_ge n qp' r). lia.
      + intros o E E'. destruct (mopt m') as [r|]; [|discriminate]. cbn in E'. injection E' as <-.
        apply Lo in E. unfold cref in E. pose proof (@blk_ge n qo' r). lia.
      + intros o E E'. destruct (msched m') as [r|]; [|discriminate]. cbn in E'. injection E' as <-.
        apply Ls in E. unfold cref in E. pose proof (@blk_ge n qs' r). lia.
    - repeat split; assumption.
  Qed.

  Lemma sep_copy_models n a i (ms : list (mdl C)) :
    (forall k, ge1 (a k)) -> Forall (refs_lt n) ms ->
    ForallOrdPairs (@sep C) ms -> ForallOrdPairs (@sep C) (copy_models n a i ms).
  Proof.
    intros Ha. apply copy_models_FOP. intros k k' m m' Hm Hm' Hs. now apply sep_copy.
  Qed.

  (* ---------------------------------------------------------------- bound / prebound *)
  Lemma bound_lo h nb m : bound h m -> bound (copy_heap h nb) m.
  Proof.
    intros (Hnd & Hlt & Ho & Hs). unfold bound. rewrite copy_hnext.
    split; [exact Hnd|]. split.
    { eapply Forall_impl; [|exact Hlt]. cbn beta. intros r Hr. nia. }
    split.
    - destruct (mopt m) as [o|]; [|exact Ho].
      destruct Ho as (Hlo & Hne & ob & Eo & Ep). split; [nia|]. split; [exact Hne|].
      exists ob. rewrite copy_ho_lo by exact Hlo. auto.
    - destruct (msched m) as [x|]; [|exact I].
      destruct Hs as (Hls & sb & Es & Eb). split; [nia|].
      exists sb. rewrite copy_hs_lo by exact Hls. auto.
  Qed.

  Lemma prebound_copy h nb a m :
    bound h m -> ok_blk nb a -> prebound (copy_heap h nb) (copy_model (hnext h) a m).
  Proof.
    intros Hb Ha. destruct a as [[[qp qo] qs]|]; cbn [copy_model].
    2:{ apply bound_prebound. now apply bound_lo. }
    destruct Ha as ((Hp1 & Hp2) & (Ho1 & Ho2) & (Hs1 & Hs2)).
    destruct Hb as (Hnd & Hlt & Ho & Hs).
    unfold prebound; cbn [mparams mopt msched]. rewrite copy_hnext.
    split; [apply NoDup_map_inj; [apply cref_inj|exact Hnd]|].
    split.
    { apply Forall_forall. intros p Hin. apply in_map_iff in Hin. destruct Hin as (r & <- & Hr).
      rewrite Forall_forall in Hlt. apply cref_lt; auto. }
    split.
    - destruct (mopt m) as [o|]; cbn [option_map]; [|now rewrite Ho].
      destruct Ho as (Hlo & Hne & ob & Eo & Ep). split; [now apply cref_lt|].
      split; [destruct (mparams m); [congruence|discriminate]|].
      exists (shift_opt (hnext h * qo) ob). split.
      + rewrite copy_ho_hi by assumption. now rewrite Eo.
      + cbn [shift_opt oparams]. rewrite !map_length, Ep. split; [reflexivity|].
        apply NoDup_map_inj; [intros; lia|exact Hnd].
    - destruct (msched m) as [x|]; cbn [option_map]; [|exact I].
      destruct Hs as (Hls & sb & Es & Eb). split; [now apply cref_lt|]. split.
      + rewrite <- Eb. cbn. discriminate.
      + exists (shift_sched (hnext h * qs) sb). rewrite copy_hs_hi by assumption. now rewrite Es.
  Qed.

  Lemma bound_copy h nb a m :
    bound h m -> ok_blk nb a -> joint_blk a -> bound (copy_heap h nb) (copy_model (hnext h) a m).
  Proof.
    intros Hb Ha Hj. destruct a as [[[qp qo] qs]|]; cbn [copy_model].
    2:{ now apply bound_lo. }
    destruct Hj as (-> & ->). destruct Ha as ((Hp1 & Hp2) & _).
    destruct Hb as (Hnd & Hlt & Ho & Hs).
    unfold bound; cbn [mparams mopt msched]. rewrite copy_hnext.
    split; [apply NoDup_map_inj; [apply cref_inj|exact Hnd]|].
    split.
    { apply Forall_forall. intros p Hin. apply in_map_iff in Hin. destruct Hin as (r & <- & Hr).
      rewrite Forall_forall in Hlt. apply cref_lt; auto. }
    split.
    - destruct (mopt m) as [o|]; cbn [option_map]; [|now rewrite Ho].
      destruct Ho as (Hlo & Hne & ob & Eo & Ep). split; [now apply cref_lt|].
      split; [destruct (mparams m); [congruence|discriminate]|].
      exists (shift_opt (hnext h * qp) ob). split.
      + rewrite copy_ho_hi by assumption. now rewrite Eo.
      + cbn [shift_opt oparams]. rewrite Ep. reflexivity.
    - destruct (msched m) as [x|]; cbn [option_map]; [|exact I].
      destruct Hs as (Hls & sb & Es & Eb). split; [now apply cref_lt|].
      exists (shift_sched (hnext h * qp) sb). split.
      + rewrite copy_hs_hi by assumption. now rewrite Es.
      + rewrite <- Eb. reflexivity.
  Qed.

  (* ---------------------------------------------------------------- the view *)
  Lemma st_lookup_shift b (l : list (id * pstate M)) r :
    st_lookup (map (fun e => (b + fst e, snd e)) l) (b + r) = st_lookup l r.
  Proof.
    induction l as [|[k ps] t IH]; cbn [map st_lookup fst snd]; [reflexivity|].
    destruct (Nat.eqb_spec (b + k) (b + r)), (Nat.eqb_spec k r); try lia; [reflexivity|exact IH].
  Qed.

  Lemma view_shift_opt b (ob : optobj M R) :
    map (st_lookup (ostate (shift_opt b ob))) (oparams (shift_opt b ob))
    = map (st_lookup (ostate ob)) (oparams ob).
  Proof.
    cbn [shift_opt ostate oparams]. rewrite map_map. apply map_ext. intros r. apply st_lookup_shift.
  Qed.

  Lemma mview_lo h nb m : refs_lt (hnext h) m -> mview_of (copy_heap h nb) m = mview_of h m.
  Proof.
    intros (Lp & Lo & Ls). unfold mview_of. f_equal.
    - apply map_ext_in. intros p Hin. apply copy_hp_lo. auto.
    - destruct (mopt m) as [o|]; [|reflexivity]. rewrite copy_ho_lo by auto. reflexivity.
    - destruct (msched m) as [x|]; [|reflexivity]. rewrite copy_hs_lo by auto. reflexivity.
  Qed.

  Lemma mview_copy h nb a m :
    refs_lt (hnext h) m -> ok_blk nb a ->
    mview_of (copy_heap h nb) (copy_model (hnext h) a m) = mview_of h m.
  Proof.
    intros Hl Ha. destruct a as [[[qp qo] qs]|]; cbn [copy_model].
    2:{ now apply mview_lo. }
    destruct Ha as ((Hp1 & Hp2) & (Ho1 & Ho2) & (Hs1 & Hs2)). destruct Hl as (Lp & Lo & Ls).
    unfold mview_of; cbn [mparams mopt msched mcons]. f_equal.
    - rewrite map_map. apply map_ext_in. intros p Hin. apply copy_hp_hi; auto.
    - destruct (mopt m) as [o|]; cbn [option_map]; [|reflexivity].
      rewrite copy_ho_hi by auto. destruct (ho h o) as [ob|]; cbn [option_map]; [|reflexivity].
      rewrite view_shift_opt. reflexivity.
    - destruct (msched m) as [x|]; cbn [option_map]; [|reflexivity].
      rewrite copy_hs_hi by auto. destruct (hs h x) as [sb|]; cbn [option_map]; reflexivity.
  Qed.

  (* ================================================================ the required lemmas *)
  Lemma copy_losses g s : losses (rc (copy_st g s)) = losses (rc s).
  Proof. reflexivity. Qed.

  Lemma copy_lrs g s : lrs (rc (copy_st g s)) = lrs (rc s).
  Proof. reflexivity. Qed.

  Lemma copy_cons g s : map mcons (models (rc (copy_st g s))) = map mcons (models (rc s)).
  Proof.
    unfold copy_st; cbn [rc models]. apply copy_models_map.
    intros k m _ _. destruct (blocks g k) as [[[qp qo] qs]|]; reflexivity.
  Qed.

  Lemma copy_length g s : length (models (rc (copy_st g s))) = length (models (rc s)).
  Proof. unfold copy_st; cbn [rc models]. apply copy_models_length. Qed.

  Lemma copy_loaded g s : binding_inv s -> loaded_inv (copy_st g s).
  Proof.
    intros (Hsep & Hb). unfold loaded_inv, copy_st; cbn [hh rc models]. split.
    - apply sep_copy_models; [apply blocks_ge1| |exact Hsep].
      eapply Forall_impl; [|exact Hb]. intros m. apply bound_refs_lt.
    - eapply copy_models_Forall; [|exact Hb]. cbn beta. intros k m Hk _ Hm.
      apply prebound_copy; [exact Hm|]. apply blocks_ok. lia.
  Qed.

  Lemma copy_binding g s : g = Deep \/ g = Joint -> binding_inv s -> binding_inv (copy_st g s).
  Proof.
    intros Hg (Hsep & Hb). unfold binding_inv, copy_st; cbn [hh rc models]. split.
    - apply sep_copy_models; [apply blocks_ge1| |exact Hsep].
      eapply Forall_impl; [|exact Hb]. intros m. apply bound_refs_lt.
    - eapply copy_models_Forall; [|exact Hb]. cbn beta. intros k m Hk _ Hm.
      apply bound_copy; [exact Hm| |now apply blocks_joint]. apply blocks_ok. lia.
  Qed.

  Lemma view_copy g s : binding_inv s -> view_of (copy_st g s) = view_of s.
  Proof.
    intros (_ & Hb). unfold view_of. rewrite copy_losses, copy_lrs. f_equal.
    unfold copy_st; cbn [hh rc models]. apply copy_models_map.
    intros k m Hk Hin. rewrite Forall_forall in Hb.
    apply mview_copy; [apply bound_refs_lt; auto|]. apply blocks_ok. lia.
  Qed.

  Lemma copy_fresh g s :
    (forall i, g <> ModelSplit i) -> binding_inv s ->
    forall m, In m (models (rc (copy_st g s))) ->
      (forall p, In p (mparams m) -> hnext (hh s) <= p) /\
      (forall o, mopt m = Some o -> hnext (hh s) <= o) /\
      (forall x, msched m = Some x -> hnext (hh s) <= x).
  Proof.
    intros Hg _ m' Hin. unfold copy_st in Hin; cbn [rc models] in Hin.
    apply copy_models_In in Hin. destruct Hin as (k & m & _ & _ & ->).
    pose proof (blocks_ge1 g k) as H1.
    destruct (blocks g k) as [[[qp qo] qs]|] eqn:E.
    2:{ exfalso. destruct g; cbn in E; try discriminate. now apply (Hg i). }
    destruct H1 as (Hp & Ho & Hs). cbn [copy_model mparams mopt msched]. repeat split.
    - intros p Hin. apply in_map_iff in Hin. destruct Hin as (r & <- & _). now apply blk_ge.
    - intros o Eo. destruct (mopt m) as [r|]; [|discriminate]. cbn in Eo. injection Eo as <-.
      now apply blk_ge.
    - intros x Ex. destruct (msched m) as [r|]; [|discriminate]. cbn in Ex. injection Ex as <-.
      now apply blk_ge.
  Qed.
End Copy.

Print Assumptions view_copy.
Print Assumptions copy_loaded.
