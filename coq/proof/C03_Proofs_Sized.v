(* C03 — every ndarray object of every reachable state is a real array: its buffer holds exactly
   prod(shape) elements.  Hypotheses (both about things OUTSIDE the model): the arrays handed in by
   the caller are real arrays, and the Fourier kernel returns an array of the shape it is asked
   for.  With C03_np_index_in_bounds this gives: every element of ds[idx].array IS an element of
   ds.array. *)
From Coq Require Import QArith String.
From QV.lib Require Import Prelude C03_Slice.
From QV.model Require Import C03_Model.
From QV.proof Require Import C03_Proofs C03_Proofs_Bounds.
From Coq Require Import List.
Import ListNotations.
Local Close Scope Q_scope.
Local Open Scope list_scope.

Definition sized (a : arr) : Prop := length (a_flat a) = prodn (a_shape a).
Definition Sz (s : state) : Prop := Forall sized (arrs s).

Lemma Sz_arrs_eq s s' : arrs s' = arrs s -> Sz s -> Sz s'.
Proof. unfold Sz. intros ->. auto. Qed.

Lemma Sz_get s i : Sz s -> i < length (arrs s) -> sized (get_arr s i).
Proof. unfold Sz, get_arr. intros H Hi. rewrite Forall_forall in H. apply H. apply nth_In. exact Hi. Qed.

Lemma Sz_alloc_arr s a : Sz s -> sized a -> Sz (fst (alloc_arr s a)).
Proof. unfold Sz, alloc_arr. cbn [fst arrs]. intros H Ha. apply Forall_app. split; [exact H|constructor; [exact Ha|constructor]]. Qed.

Lemma Sz_alloc_fresh s sh fl : Sz s -> length fl = prodn sh -> Sz (fst (alloc_fresh s sh fl)).
Proof. intros H Hl. unfold alloc_fresh. apply Sz_alloc_arr; [exact H|exact Hl]. Qed.

Lemma Sz_alloc_view s base sh fl : Sz s -> length fl = prodn sh -> Sz (fst (alloc_view s base sh fl)).
Proof. intros H Hl. unfold alloc_view. apply Sz_alloc_arr; [exact H|exact Hl]. Qed.

Lemma alloc_fresh_len s sh fl :
  snd (alloc_fresh s sh fl) = length (arrs s) /\ length (arrs s) < length (arrs (fst (alloc_fresh s sh fl))) /\
  dss (fst (alloc_fresh s sh fl)) = dss s.
Proof. unfold alloc_fresh, alloc_arr. cbn [fst snd arrs dss]. rewrite app_length. cbn [length]. repeat split. lia. Qed.

Lemma alloc_view_len s base sh fl :
  snd (alloc_view s base sh fl) = length (arrs s) /\ length (arrs s) < length (arrs (fst (alloc_view s base sh fl))) /\
  dss (fst (alloc_view s base sh fl)) = dss s.
Proof. unfold alloc_view, alloc_arr. cbn [fst snd arrs dss]. rewrite app_length. cbn [length]. repeat split. lia. Qed.

Lemma prodn_ones k sh : prodn (repeat 1 k ++ sh) = prodn sh.
Proof. induction k as [|k IH]; [reflexivity|]. cbn [repeat app prodn]. rewrite IH. lia. Qed.

(* ------------------------------------------------------------------ construction and setters *)
Lemma ensure_ndim_Sz s aid k s1 aid1 :
  ensure_ndim s aid k = Ok (s1, aid1) -> Sz s -> aid < length (arrs s) ->
  Sz s1 /\ aid1 < length (arrs s1) /\ dss s1 = dss s.
Proof.
  unfold ensure_ndim. intros H HS Ha.
  destruct (ndim (get_arr s aid) <? k).
  - pose proof (alloc_view_len s aid (repeat 1 (k - ndim (get_arr s aid)) ++ a_shape (get_arr s aid))
                               (a_flat (get_arr s aid))) as (A & B & C).
    pose proof (Sz_alloc_view s aid (repeat 1 (k - ndim (get_arr s aid)) ++ a_shape (get_arr s aid))
                              (a_flat (get_arr s aid)) HS) as HV.
    destruct (alloc_view s aid _ _) as [s2 aid2]. cbn [fst snd] in *. injection H as <- <-.
    split; [apply HV; rewrite prodn_ones; apply (Sz_get s aid HS Ha)|]. split; [lia|exact C].
  - destruct (k <? ndim (get_arr s aid)); [discriminate|]. injection H as <- <-. repeat split; assumption.
Qed.

Lemma construct_arrs s c aid o sa u s' : construct s c aid o sa u = Ok s' -> arrs s' = arrs s.
Proof.
  unfold construct. intros H. inv_bind H. inv_bind H. inv_bind H.
  unfold alloc_num, alloc_str in H. cbn [fst snd] in H. injection H as <-. reflexivity.
Qed.

Lemma from_array_Sz s c aid o sa u s' :
  from_array s c aid o sa u = Ok s' -> Sz s -> aid < length (arrs s) -> Sz s'.
Proof.
  unfold from_array. intros H HS Ha. inv_bind H. destruct x as [s1 aid1].
  assert (HS1 : Sz s1).
  { destruct (tag_ndim c) as [k|].
    - apply (ensure_ndim_Sz _ _ _ _ _ Hx HS Ha).
    - injection Hx as <- <-. exact HS. }
  eapply Sz_arrs_eq; [eapply construct_arrs; exact H|exact HS1].
Qed.

Lemma set_origin_arrs s t v s' : set_origin s t v = Ok s' -> arrs s' = arrs s.
Proof. unfold set_origin. intros H. inv_bind H. unfold alloc_num in H. cbn [fst snd] in H. injection H as <-. reflexivity. Qed.
Lemma set_sampling_arrs s t v s' : set_sampling s t v = Ok s' -> arrs s' = arrs s.
Proof. unfold set_sampling. intros H. inv_bind H. unfold alloc_num in H. cbn [fst snd] in H. injection H as <-. reflexivity. Qed.
Lemma set_units_arrs s t v s' : set_units s t v = Ok s' -> arrs s' = arrs s.
Proof. unfold set_units. intros H. inv_bind H. unfold alloc_str in H. cbn [fst snd] in H. injection H as <-. reflexivity. Qed.

Lemma set_array_Sz s t aid s' : set_array s t aid = Ok s' -> Sz s -> aid < length (arrs s) -> Sz s'.
Proof.
  unfold set_array. intros H HS Ha. inv_bind H. destruct x as [s1 aid1]. injection H as <-.
  destruct (ensure_ndim_Sz _ _ _ _ _ Hx HS Ha) as (H1 & _). eapply Sz_arrs_eq; [|exact H1]. reflexivity.
Qed.

Lemma copy_Sz s t s' : copy_ds s t = Ok s' -> Sz s -> Inv s -> t < length (dss s) -> Sz s'.
Proof.
  unfold copy_ds. intros H HS HI Ht. destruct (Inv_get _ _ HI Ht) as [(Wa & _) _].
  set (a := get_arr s (d_arr (get_ds s t))) in *.
  pose proof (alloc_fresh_len s (a_shape a) (a_flat a)) as (A & B & _).
  pose proof (Sz_alloc_fresh s (a_shape a) (a_flat a) HS (Sz_get s _ HS Wa)) as HF.
  destruct (alloc_fresh s (a_shape a) (a_flat a)) as [s1 aid]. cbn [fst snd] in *. subst aid.
  apply (from_array_Sz _ _ _ _ _ _ _ H HF B).
Qed.

(* ------------------------------------------------------------------ installing a new array *)
Lemma assign_arrs s t aid : arrs (assign_array s t aid) = arrs s.
Proof. reflexivity. Qed.

Lemma install_ip_Sz s t osh ofl meta : Sz s -> length ofl = prodn osh -> Sz (install_ip s t osh ofl meta).
Proof.
  intros HS Hl. unfold install_ip. pose proof (Sz_alloc_fresh s osh ofl HS Hl) as HF.
  destruct (alloc_fresh s osh ofl) as [s1 aid]. cbn [fst] in HF.
  destruct meta as [[no ns]|]; (eapply Sz_arrs_eq; [|exact HF]); reflexivity.
Qed.

Lemma install_cp_Sz s t osh ofl meta s' :
  install_cp s t osh ofl meta = Ok s' -> Sz s -> Inv s -> t < length (dss s) ->
  length ofl = prodn osh -> Sz s'.
Proof.
  unfold install_cp. intros H HS HI Ht Hl. inv_bind H. rename x into s1.
  pose proof (copy_Sz _ _ _ Hx HS HI Ht) as HS1.
  pose proof (alloc_fresh_len s1 osh ofl) as (A & B & _).
  pose proof (Sz_alloc_fresh s1 osh ofl HS1 Hl) as HF.
  destruct (alloc_fresh s1 osh ofl) as [s2 aid]. cbn [fst snd] in *. subst aid.
  destruct meta as [[no ns]|].
  - inv_bind H. inv_bind H. pose proof (set_array_Sz _ _ _ _ Hx0 HF B) as H3.
    eapply Sz_arrs_eq; [eapply set_origin_arrs; exact H|].
    eapply Sz_arrs_eq; [eapply set_sampling_arrs; exact Hx1|exact H3].
  - apply (set_array_Sz _ _ _ _ H HF B).
Qed.

Lemma finish_Sz s t osh ofl meta ip s' :
  finish s t osh ofl meta ip = Ok s' -> Sz s -> Inv s -> t < length (dss s) ->
  length ofl = prodn osh -> Sz s'.
Proof.
  unfold finish. destruct ip; intros H HS HI Ht Hl.
  - injection H as <-. apply install_ip_Sz; assumption.
  - eapply install_cp_Sz; eassumption.
Qed.

(* ------------------------------------------------------------------ data transforms *)
Lemma pad_data_sized sh fl w : length (snd (pad_data sh fl w)) = prodn (fst (pad_data sh fl w)).
Proof. unfold pad_data. cbn [fst snd]. rewrite map_length. apply coords_length. Qed.

Lemma bin_axis_sized sh fl i fac : length (snd (bin_axis sh fl i fac)) = prodn (fst (bin_axis sh fl i fac)).
Proof. unfold bin_axis. cbn [fst snd]. rewrite map_length. apply coords_length. Qed.

Lemma bin_data_sized sh fl dict :
  length fl = prodn sh -> length (snd (bin_data sh fl dict)) = prodn (fst (bin_data sh fl dict)).
Proof.
  intros H. unfold bin_data.
  apply (fold_left_inv _ _ (fun acc : list nat * list Z => length (snd acc) = prodn (fst acc))); [|exact H].
  intros acc ax Hacc. destruct (dict_get (Z.of_nat ax) dict); [apply bin_axis_sized|exact Hacc].
Qed.

Lemma mapM_length (A B : Type) (f : A -> res B) l : forall l', mapM f l = Ok l' -> length l' = length l.
Proof.
  induction l as [|x r IH]; intros l' H; cbn [mapM] in H.
  - injection H as <-. reflexivity.
  - inv_bind H. inv_bind H. injection H as <-. cbn [length]. f_equal. apply IH. exact Hx0.
Qed.

(* the shape fourier_resample asks the kernel for *)
Definition fr_osh (ax outs : list Z) (sh : list nat) : list nat :=
  let dict := dict_of (combine ax outs) in
  map (fun i => match dict_get (Z.of_nat i) dict with Some n => Z.to_nat n | None => nth i sh 0 end)
      (seq 0 (length sh)).

Section Sized.
  Variable FR : list Z -> list Z -> list nat -> list Z -> list Z.
  Variable divf : Z -> Z -> Z.
  (* the kernel returns an array of the requested shape *)
  Hypothesis FR_sized : forall ax outs sh fl, length (FR ax outs sh fl) = prodn (fr_osh ax outs sh).

  (* the arrays handed in by the caller are real arrays *)
  Definition wf_op (o : op) : Prop :=
    match o with
    | OFromArray _ sh data _ _ _ | OSetArray _ sh data => length data = prodn sh
    | _ => True
    end.

  Lemma step_Sz s o s' :
    step FR divf s o = Ok s' -> wf_op o -> Inv s -> Sz s -> Sz s'.
  Proof.
    unfold step. intros H Hw HI HS. destruct (live s o) eqn:HL; cbn [negb] in H; [|discriminate].
    destruct o as [c sh data og sa u|c src|t|t v|t v|t v|t sh data|t src|t|t p ip|t w ax ip
                  |t f ax mean ip|t spec ax ip|t idx|t r|t dt]; cbn [wf_op] in Hw.
    - pose proof (alloc_fresh_len s sh data) as (A & B & _).
      pose proof (Sz_alloc_fresh s sh data HS Hw) as HF.
      destruct (alloc_fresh s sh data) as [s1 aid]. cbn [fst snd] in *. subst aid.
      apply (from_array_Sz _ _ _ _ _ _ _ H HF B).
    - pose proof (live_target s _ src HL eq_refl) as Ht.
      destruct (Inv_get _ _ HI Ht) as [(Wa & _) _]. apply (from_array_Sz _ _ _ _ _ _ _ H HS Wa).
    - pose proof (live_target s _ t HL eq_refl) as Ht. apply (copy_Sz _ _ _ H HS HI Ht).
    - eapply Sz_arrs_eq; [eapply set_origin_arrs; exact H|exact HS].
    - eapply Sz_arrs_eq; [eapply set_sampling_arrs; exact H|exact HS].
    - eapply Sz_arrs_eq; [eapply set_units_arrs; exact H|exact HS].
    - pose proof (alloc_fresh_len s sh data) as (A & B & _).
      pose proof (Sz_alloc_fresh s sh data HS Hw) as HF.
      destruct (alloc_fresh s sh data) as [s1 aid]. cbn [fst snd] in *. subst aid.
      apply (set_array_Sz _ _ _ _ H HF B).
    - assert (Hs : src < length (dss s)).
      { unfold live in HL. cbn [op_src2] in HL. apply andb_prop in HL. destruct HL as [_ HL].
        apply Nat.ltb_lt. exact HL. }
      destruct (Inv_get _ _ HI Hs) as [(Wa & _) _]. apply (set_array_Sz _ _ _ _ H HS Wa).
    - injection H as <-. exact HS.
    - (* pad *)
      pose proof (live_target s _ t HL eq_refl) as Ht.
      rewrite pad_eq in H. cbn zeta in H. inv_bind H.
      eapply finish_Sz; [exact H|exact HS|exact HI|exact Ht|apply pad_data_sized].
    - (* crop *)
      pose proof (live_target s _ t HL eq_refl) as Ht.
      destruct (Inv_get _ _ HI Ht) as [(Wa & _) _].
      unfold crop in H. cbn zeta in H. inv_bind H. rename x into sl. destruct ip.
      + inv_bind H. rename x into v.
        destruct (np_index_in_bounds _ _ _ _ Hx0) as [Hlen _].
        pose proof (alloc_view_len s (d_arr (get_ds s t)) (np_shape v) (np_flat v)) as (A & B & _).
        pose proof (Sz_alloc_view s (d_arr (get_ds s t)) (np_shape v) (np_flat v) HS Hlen) as HF.
        destruct (alloc_view s (d_arr (get_ds s t)) (np_shape v) (np_flat v)) as [s1 aid].
        cbn [fst snd] in *. subst aid. apply (set_array_Sz _ _ _ _ H HF B).
      + inv_bind H. rename x into s1. pose proof (copy_Sz _ _ _ Hx0 HS HI Ht) as HS1.
        inv_bind H. rename x into v.
        destruct (np_index_in_bounds _ _ _ _ Hx1) as [Hlen _].
        match type of H with (let (_, _) := alloc_view s1 ?b ?sh ?fl in _) = _ =>
          pose proof (alloc_view_len s1 b sh fl) as (A & B & _);
          pose proof (Sz_alloc_view s1 b sh fl HS1 Hlen) as HF;
          destruct (alloc_view s1 b sh fl) as [s2 aid] end.
        cbn [fst snd] in *. subst aid. apply (set_array_Sz _ _ _ _ H HF B).
    - (* bin *)
      pose proof (live_target s _ t HL eq_refl) as Ht.
      destruct (Inv_get _ _ HI Ht) as [(Wa & _) _].
      rewrite bin_eq in H. inv_bind H. destruct x as [[osh ofl] [no ns]]. cbn [fst snd] in H.
      eapply finish_Sz; [exact H|exact HS|exact HI|exact Ht|].
      unfold bin_prep in Hx. cbn zeta in Hx.
      apply bind_ok in Hx. destruct Hx as (nax & _ & Hx).
      apply bind_ok in Hx. destruct Hx as (facs & _ & Hx). destruct (existsb _ facs); [discriminate|].
      apply bind_ok in Hx. destruct Hx as (os & _ & Hx). injection Hx as <- <- _.
      pose proof (bin_data_sized _ _ (dict_of (combine nax facs)) (Sz_get s _ HS Wa)) as Hb.
      destruct mean; [rewrite map_length|]; exact Hb.
    - (* fourier_resample *)
      pose proof (live_target s _ t HL eq_refl) as Ht.
      rewrite fourier_eq in H. inv_bind H. destruct x as [[osh ofl] [no ns]]. cbn [fst snd] in H.
      eapply finish_Sz; [exact H|exact HS|exact HI|exact Ht|].
      unfold fourier_prep in Hx. cbn zeta in Hx.
      apply bind_ok in Hx. destruct Hx as (nax & _ & Hx).
      apply bind_ok in Hx. destruct Hx as (outs & _ & Hx). destruct (existsb _ outs); [discriminate|].
      destruct (existsb _ nax); [discriminate|]. injection Hx as <- <- _.
      apply FR_sized.
    - (* getitem *)
      pose proof (live_target s _ t HL eq_refl) as Ht.
      unfold getitem in H. cbn zeta in H. inv_bind H. rename x into v.
      destruct (np_index_in_bounds _ _ _ _ Hx) as [Hlen _].
      destruct (np_scalar v); [discriminate|].
      destruct (np_copy v).
      + pose proof (alloc_fresh_len s (np_shape v) (np_flat v)) as (A & B & _).
        pose proof (Sz_alloc_fresh s (np_shape v) (np_flat v) HS Hlen) as HF.
        destruct (alloc_fresh s (np_shape v) (np_flat v)) as [s1 aid]. cbn [fst snd] in *. subst aid.
        apply (from_array_Sz _ _ _ _ _ _ _ H HF B).
      + pose proof (alloc_view_len s (d_arr (get_ds s t)) (np_shape v) (np_flat v)) as (A & B & _).
        pose proof (Sz_alloc_view s (d_arr (get_ds s t)) (np_shape v) (np_flat v) HS Hlen) as HF.
        destruct (alloc_view s (d_arr (get_ds s t)) (np_shape v) (np_flat v)) as [s1 aid].
        cbn [fst snd] in *. subst aid. apply (from_array_Sz _ _ _ _ _ _ _ H HF B).
    - (* get_dp_* *)
      unfold reduce_dp in H. cbn zeta in H.
      destruct (d_cls (get_ds s t)); try discriminate.
      destruct (a_shape (get_arr s (d_arr (get_ds s t)))) as [|n0 [|n1 [|n2 [|n3 [|n4 rest]]]]]; try discriminate.
      match type of H with (if ?c then _ else _) = _ => destruct c; [discriminate|] end.
      inv_bind H. rename x into data.
      assert (Hlen : length data = prodn [n2; n3]) by (rewrite (mapM_length _ _ _ _ _ Hx); apply coords_length).
      pose proof (alloc_fresh_len s [n2; n3] data) as (A & B & _).
      pose proof (Sz_alloc_fresh s [n2; n3] data HS Hlen) as HF.
      destruct (alloc_fresh s [n2; n3] data) as [s1 aid]. cbn [fst snd] in *. subst aid.
      apply (from_array_Sz _ _ _ _ _ _ _ H HF B).
    - (* get_virtual_image *)
      unfold virtual_image in H. cbn zeta in H.
      destruct (d_cls (get_ds s t)); try discriminate.
      destruct (a_shape (get_arr s (d_arr (get_ds s t)))) as [|n0 [|n1 [|n2 [|n3 [|n4 rest]]]]]; try discriminate.
      inv_bind H.
      match type of H with (let (_, _) := alloc_fresh s ?sh ?fl in _) = _ =>
        assert (Hlen : length fl = prodn sh) by (rewrite map_length; apply coords_length);
        pose proof (alloc_fresh_len s sh fl) as (A & B & _);
        pose proof (Sz_alloc_fresh s sh fl HS Hlen) as HF;
        destruct (alloc_fresh s sh fl) as [s1 aid] end.
      cbn [fst snd] in *. subst aid. apply (from_array_Sz _ _ _ _ _ _ _ H HF B).
  Qed.

  Lemma run_Sz ops : Forall wf_op ops -> forall s, Inv s -> Sz s -> Sz (run FR divf s ops) /\ Inv (run FR divf s ops).
  Proof.
    unfold run. induction 1 as [|o ops Ho _ IH]; intros s HI HS; cbn [fold_left]; [split; assumption|].
    apply IH.
    - apply exec_Inv. exact HI.
    - unfold exec. destruct (step FR divf s o) as [s'|e] eqn:E; [|exact HS].
      apply (step_Sz s o s' E Ho HI HS).
  Qed.

  (* every live dataset of every reachable state holds a real array *)
  Theorem reach_sized ops t :
    Forall wf_op ops ->
    let s := run FR divf empty_state ops in
    t < length (dss s) ->
    length (o_flat (observe s t)) = prodn (o_shape (observe s t)).
  Proof.
    intros Hw s Ht. destruct (run_Sz ops Hw empty_state Inv_empty (Forall_nil _)) as [HS HI].
    fold s in HS, HI. destruct (Inv_get _ _ HI Ht) as [(Wa & _) _].
    apply (Sz_get s _ HS Wa).
  Qed.

  (* ... and indexing it returns elements OF THAT ARRAY, exactly prod(result shape) many *)
  Theorem reach_getitem_elements ops t idx s' :
    Forall wf_op ops ->
    let s := run FR divf empty_state ops in
    t < length (dss s) -> getitem s t idx = Ok s' ->
    let src := observe s t in
    let res := observe s' (length (dss s)) in
    length (o_flat res) = prodn (o_shape res) /\
    Forall (fun x => In x (o_flat src)) (o_flat res).
  Proof.
    intros Hw s Ht H. cbn zeta.
    pose proof (reach_sized ops t Hw Ht) as Hsz. fold s in Hsz.
    destruct (reach_getitem_data FR divf ops t idx s' Ht H) as (v & Hv & E1 & E2). fold s in Hv, E1, E2.
    destruct (np_index_in_bounds _ _ _ _ Hv) as [Hlen HF].
    rewrite E1, E2. split; [exact Hlen|].
    eapply Forall_impl; [|exact HF]. intros x (j & Hj & ->). apply nth_In. rewrite Hsz. exact Hj.
  Qed.
End Sized.
