(* C06 — N-D corollaries of the separability theorem: the all-axes-at-once pipeline of
   Dataset.fourier_resample is the identity when no listed axis changes its length. *)
From Coq Require Import ZArith List Lia Ring Arith Bool.
From QV.lib Require Import Prelude FinSum DFT.
From QV.model Require Import C06_Model C06_ModelND.
From QV.proof Require Import C06_Proofs C06_Proofs_ND C06_Proofs_Resample C06_Proofs_Index C06_Proofs_Sep.
Unset Implicit Arguments.

Section SepCor.
  Variable R : Type.
  Variables (rO rI : R) (radd rmul rsub : R -> R -> R) (ropp : R -> R).
  Variable Rth : ring_theory rO rI radd rmul rsub ropp (@eq R).
  Add Ring Rring2 : Rth.
  Variable conj : R -> R.
  Hypothesis Cok : conj_ok radd rmul conj.
  Variable tw : nat -> Z -> R.
  Variable inv : nat -> R.
  Set Default Proof Using "All".

  Notation get := (C06_ModelND.get rO).
  Notation resample_at := (C06_Model.resample_at rO rI radd rmul tw inv).
  Notation resample_nd := (C06_Model.resample_nd rO rI radd rmul tw inv).
  Notation rootok := (root_ok rO rI radd rmul conj).

  Lemma resample_lin n m : (0 < n)%nat -> (0 < m)%nat ->
    is_lin R rO radd rmul n m (C06_Model.resample rO rI radd rmul n m (tw n) (tw m) (inv n) (inv m)).
  Proof.
    intros Hn Hm.
    apply (is_lin_scale R rO rI radd rmul rsub ropp Rth tw inv n m (resample0 rO radd rmul tw inv n m)).
    apply (lin_resample0 R rO rI radd rmul rsub ropp Rth tw inv n m Hn Hm).
  Qed.

  Lemma resample_at_id nd a (t : tensor R) :
    (a < nd)%nat -> good R nd t ->
    rootok (len_of a (shape t)) (tw (len_of a (shape t))) (inv (len_of a (shape t))) ->
    resample_at a (len_of a (shape t)) t = t.
  Proof.
    intros Ha (Hw & Hnd & Hpos) Rn. set (n := len_of a (shape t)) in *.
    assert (Hn : (0 < n)%nat) by (apply Hpos; exact Ha).
    assert (Hs : set_nth a n (shape t) = shape t) by (apply set_nth_same; lia).
    apply (tensor_ext rO).
    - apply resample_at_wf. lia.
    - exact Hw.
    - exact Hs.
    - intros J HJ. cbn [C06_Model.resample_at shape] in HJ. fold n in HJ.
      pose proof (proj1 (in_bounds_set_shape a n (shape t) J ltac:(lia)) HJ) as (Hl & Hja & Hoth).
      change (resample_at a n t)
        with (lineop_at rO a n (C06_Model.resample rO rI radd rmul n n (tw n) (tw n) (inv n) (inv n)) t).
      rewrite (get_lineop_at R rO a n _ t J ltac:(lia)); [| | exact HJ].
      + rewrite (resample_id R rO rI radd rmul rsub ropp Rth conj Cok n (tw n) (inv n) Rn) by exact Hja.
        rewrite set_nth_same by lia. reflexivity.
      + fold n. apply (is_lin_ext_on R rO rI radd rmul rsub ropp Rth tw inv). apply resample_lin; exact Hn.
  Qed.

  Theorem resample_nd_id nd ams : forall t,
    axes_ok ams nd -> good R nd t ->
    (forall am, In am ams -> snd am = len_of (fst am) (shape t)) ->
    (forall am, In am ams -> rootok (snd am) (tw (snd am)) (inv (snd am))) ->
    resample_nd ams t = t.
  Proof.
    induction ams as [|[a m] r IH]; intros t Hok Hg Hsame Hroots; [reflexivity|].
    destruct (axes_ok_tail _ _ _ Hok) as (Hok' & Ha & _). cbn [fst snd] in *.
    pose proof (Hsame (a, m) ltac:(left; reflexivity)) as Em. cbn [fst snd] in Em. subst m.
    unfold C06_Model.resample_nd. cbn [fold_left fst snd].
    rewrite (resample_at_id nd a t Ha Hg (Hroots (a, _) ltac:(left; reflexivity))).
    apply IH; try assumption.
    - intros am Hin. apply Hsame. right. exact Hin.
    - intros am Hin. apply Hroots. right. exact Hin.
  Qed.

  (* the implementation's pipeline (all axes at once) with an unchanged shape is the identity *)
  Theorem pipeline_nd_id nd ams t :
    axes_ok ams nd -> good R nd t ->
    (forall am, In am ams -> snd am = len_of (fst am) (shape t)) ->
    (forall am, In am ams -> rootok (snd am) (tw (snd am)) (inv (snd am))) ->
    pipeline_nd rO rI radd rmul tw inv ams t = t.
  Proof.
    intros Hok Hg Hsame Hroots.
    rewrite (pipeline_nd_separable R rO rI radd rmul rsub ropp Rth tw inv nd ams t Hok); [| | exact Hg].
    - apply (resample_nd_id nd); assumption.
    - intros am Hin. rewrite (Hsame am Hin). destruct Hg as (_ & _ & Hpos). apply Hpos.
      destruct Hok as [_ Hb]. apply Hb. exact Hin.
  Qed.
End SepCor.
