(* C08 — proofs about model/C08_Model.v *)
From QV.lib Require Import Prelude.
From QV.model Require Import C08_Model.

(* ---------------------------------------------------------------- basics *)
Definition feq (a b : fsys) : Prop := forall q, a q = b q.

Lemma upd_same fs q e : upd fs q e q = e.
Proof. unfold upd. rewrite Nat.eqb_refl. reflexivity. Qed.

Lemma upd_other fs q e r : r <> q -> upd fs q e r = fs r.
Proof. unfold upd. intros H. destruct (Nat.eqb_spec r q); [contradiction | reflexivity]. Qed.

Definition outcome_of (r : res) : fsys * outcome :=
  match r with
  | Stopped f o => (f, o)
  | Continue _ hs f => (unwind hs f, Done)
  end.

Lemma run_outcome_of k prog fs : run k prog fs = outcome_of (run_prefix k prog [] fs).
Proof. unfold run, outcome_of. destruct (run_prefix k prog [] fs); reflexivity. Qed.

Lemma run_prefix_app a : forall b k hs fs,
  run_prefix k (a ++ b) hs fs =
  match run_prefix k a hs fs with
  | Stopped f o => Stopped f o
  | Continue k' hs' f' => run_prefix k' b hs' f'
  end.
Proof.
  induction a as [|e a IH]; intros b k hs fs.
  - reflexivity.
  - cbn [app run_prefix]. destruct k as [|k]; [reflexivity|].
    destruct (step e fs) as [err|fs1]; [reflexivity|]. apply IH.
Qed.

(* ---------------------------------------------------------------- frame: effects only touch the paths they name *)
Definition touches (e : effect) : list path :=
  match e with
  | CheckTarget _ _ => []
  | RemoveTarget p => [p]
  | MkTemp ts tz => [ts; tz]
  | MkDir p => [p]
  | WriteItem d _ => [d]
  | ZipOpen z => [z]
  | ZipAdd z _ => [z]
  | ZipClose z => [z]
  | Rename s d => [s; d]
  end.

Definition htouches (h : handler) : list path :=
  match h with HRmTemp ts tz => [ts; tz] | HZipClose z => [z] end.

Lemma step_frame e fs fs1 q : step e fs = inr fs1 -> ~ In q (touches e) -> fs1 q = fs q.
Proof.
  intros Hs Hq. destruct e; cbn [step touches] in *.
  - destruct m; [destruct (present (fs p))|]; inversion Hs; reflexivity.
  - inversion Hs. apply upd_other. intros ->. apply Hq. left; reflexivity.
  - inversion Hs. apply upd_other. intros ->. apply Hq. left; reflexivity.
  - destruct (fs p); inversion Hs; [|reflexivity]. apply upd_other. intros ->. apply Hq. left; reflexivity.
  - destruct (fs d); inversion Hs. apply upd_other. intros ->. apply Hq. left; reflexivity.
  - destruct (fs z); inversion Hs; apply upd_other; intros ->; apply Hq; left; reflexivity.
  - destruct (fs z) as [| |[|] c|]; inversion Hs. apply upd_other. intros ->. apply Hq. left; reflexivity.
  - destruct (fs z) as [| |[|] c|]; inversion Hs. apply upd_other. intros ->. apply Hq. left; reflexivity.
  - assert (Hqs : q <> s) by (intros ->; apply Hq; left; reflexivity).
    assert (Hqd : q <> d) by (intros ->; apply Hq; right; left; reflexivity).
    destruct (fs s) eqn:Es; [inversion Hs| | |];
      (destruct (fs d) eqn:Ed; cbn [is_file] in Hs; inversion Hs;
       rewrite upd_other by exact Hqs; rewrite upd_other by exact Hqd; reflexivity).
Qed.

Lemma run_handler_frame h fs q : ~ In q (htouches h) -> run_handler h fs q = fs q.
Proof.
  intros Hq. destruct h; cbn [run_handler htouches] in *.
  - rewrite upd_other by (intros ->; apply Hq; right; left; reflexivity).
    apply upd_other. intros ->. apply Hq. left; reflexivity.
  - destruct (fs z) as [| |[|] c|]; try reflexivity.
    apply upd_other. intros ->. apply Hq. left; reflexivity.
Qed.

Lemma unwind_frame hs : forall fs q,
  (forall h, In h hs -> ~ In q (htouches h)) -> unwind hs fs q = fs q.
Proof.
  induction hs as [|h hs IH]; intros fs q H; cbn [unwind]; [reflexivity|].
  rewrite IH by (intros h' Hh'; apply H; right; exact Hh').
  apply run_handler_frame. apply H. left; reflexivity.
Qed.

Lemma In_tl (A : Type) (x : A) (l : list A) : In x (tl l) -> In x l.
Proof. destruct l; cbn; [tauto | intros H; right; exact H]. Qed.

Lemma handlers_after_touch e hs q :
  ~ In q (touches e) -> (forall h, In h hs -> ~ In q (htouches h)) ->
  forall h, In h (handlers_after e hs) -> ~ In q (htouches h).
Proof.
  intros He Hh h Hin. destruct e; cbn [handlers_after] in Hin; try (apply Hh; exact Hin).
  - destruct Hin as [<-|Hin]; [exact He | apply Hh; exact Hin].
  - destruct Hin as [<-|Hin]; [exact He | apply Hh; exact Hin].
  - apply Hh. apply In_tl. exact Hin.
Qed.

Lemma fault_handlers_touch e hs q :
  (forall h, In h hs -> ~ In q (htouches h)) ->
  forall h, In h (fault_handlers e hs) -> ~ In q (htouches h).
Proof.
  intros Hh h Hin. destruct e; cbn [fault_handlers] in Hin; try (apply Hh; exact Hin).
  apply Hh. apply In_tl. exact Hin.
Qed.

Lemma run_prefix_frame prog : forall k hs fs q,
  (forall e, In e prog -> ~ In q (touches e)) ->
  (forall h, In h hs -> ~ In q (htouches h)) ->
  fst (outcome_of (run_prefix k prog hs fs)) q = fs q.
Proof.
  induction prog as [|e prog IH]; intros k hs fs q He Hh; cbn [run_prefix].
  - cbn [outcome_of fst]. apply unwind_frame. exact Hh.
  - destruct k as [|k].
    + cbn [outcome_of fst]. apply unwind_frame. apply fault_handlers_touch. exact Hh.
    + destruct (step e fs) as [err|fs1] eqn:Es.
      * cbn [outcome_of fst]. apply unwind_frame. exact Hh.
      * rewrite IH.
        -- apply (step_frame e fs fs1 q Es). apply He. left; reflexivity.
        -- intros e' He'. apply He. right; exact He'.
        -- apply handlers_after_touch; [apply He; left; reflexivity | exact Hh].
Qed.

(* no effect of a program names q  ==>  q holds afterwards what it held before, for every
   fault index *)
Theorem run_frame k prog fs q :
  (forall e, In e prog -> ~ In q (touches e)) -> fst (run k prog fs) q = fs q.
Proof.
  intros H. rewrite run_outcome_of. apply run_prefix_frame; [exact H | intros h []].
Qed.

(* ---------------------------------------------------------------- a run of appends to one container *)
Section Appends.
  Variable mk : item -> effect.
  Variable wrap : list item -> entry.
  Variable d : path.
  Hypothesis mk_step : forall i fs c, fs d = wrap c -> step (mk i) fs = inr (upd fs d (wrap (c ++ [i]))).
  Hypothesis mk_fault : forall i hs, fault_handlers (mk i) hs = hs.
  Hypothesis mk_after : forall i hs, handlers_after (mk i) hs = hs.

  Lemma appends_prefix l : forall k hs fs c,
    fs d = wrap c ->
    exists fs',
      fs' d = wrap (c ++ firstn k l) /\ (forall q, q <> d -> fs' q = fs q) /\
      run_prefix k (map mk l) hs fs =
        if k <? length l then Stopped (unwind hs fs') Faulted else Continue (k - length l) hs fs'.
  Proof.
    induction l as [|i l IH]; intros k hs fs c Hc.
    - exists fs. cbn [map run_prefix length]. rewrite firstn_nil, app_nil_r.
      repeat split; [exact Hc|]. destruct (k <? 0) eqn:E; [apply Nat.ltb_lt in E; lia|].
      rewrite Nat.sub_0_r. reflexivity.
    - cbn [map run_prefix length]. destruct k as [|k].
      + exists fs. cbn [firstn]. rewrite app_nil_r. repeat split; [exact Hc|].
        rewrite mk_fault. reflexivity.
      + rewrite (mk_step i fs c Hc), mk_after.
        destruct (IH k hs (upd fs d (wrap (c ++ [i]))) (c ++ [i]) (upd_same _ _ _)) as (fs' & Hd & Hfr & Hrun).
        exists fs'. repeat split.
        * rewrite Hd. cbn [firstn]. rewrite <- app_assoc. reflexivity.
        * intros q Hq. rewrite (Hfr q Hq). apply upd_other. exact Hq.
        * rewrite Hrun. replace (S k <? S (length l)) with (k <? length l) by reflexivity.
          reflexivity.
  Qed.
End Appends.

Lemma writes_prefix (d : path) l k hs fs c :
  fs d = Dir c ->
  exists fs',
    fs' d = Dir (c ++ firstn k l) /\ (forall q, q <> d -> fs' q = fs q) /\
    run_prefix k (map (WriteItem d) l) hs fs =
      if k <? length l then Stopped (unwind hs fs') Faulted else Continue (k - length l) hs fs'.
Proof.
  apply (appends_prefix (WriteItem d) Dir d).
  - intros i fs0 c0 H. cbn [step]. rewrite H. reflexivity.
  - reflexivity.
  - reflexivity.
Qed.

Lemma zipadds_prefix (z : path) l k hs fs c :
  fs z = Zip false c ->
  exists fs',
    fs' z = Zip false (c ++ firstn k l) /\ (forall q, q <> z -> fs' q = fs q) /\
    run_prefix k (map (ZipAdd z) l) hs fs =
      if k <? length l then Stopped (unwind hs fs') Faulted else Continue (k - length l) hs fs'.
Proof.
  apply (appends_prefix (ZipAdd z) (Zip false) z).
  - intros i fs0 c0 H. cbn [step]. rewrite H. reflexivity.
  - reflexivity.
  - reflexivity.
Qed.

Lemma firstn_ge (A : Type) (l : list A) k : length l <= k -> firstn k l = l.
Proof. intros H. apply firstn_all2. exact H. Qed.

(* ---------------------------------------------------------------- the repaired protocol *)
Section Fixed.
  Variables (p ts tz : path) (fs0 : fsys).
  Hypothesis Hpts : p <> ts.
  Hypothesis Hptz : p <> tz.
  Hypothesis Htstz : ts <> tz.
  Hypothesis Hts0 : fs0 ts = Absent.
  Hypothesis Htz0 : fs0 tz = Absent.

  (* everything but the staging paths is as it was *)
  Definition staging (fs : fsys) : Prop := forall q, q <> ts -> q <> tz -> fs q = fs0 q.

  Lemma clean1 fs : staging fs -> feq (unwind [HRmTemp ts tz] fs) fs0.
  Proof.
    intros H q. cbn [unwind run_handler].
    destruct (Nat.eq_dec q tz) as [->|Hq2]; [rewrite upd_same; symmetry; exact Htz0|].
    rewrite upd_other by exact Hq2.
    destruct (Nat.eq_dec q ts) as [->|Hq1]; [rewrite upd_same; symmetry; exact Hts0|].
    rewrite upd_other by exact Hq1. apply H; assumption.
  Qed.

  Lemma clean2 fs : staging fs -> feq (unwind [HZipClose tz; HRmTemp ts tz] fs) fs0.
  Proof.
    intros H. cbn [unwind]. change (feq (unwind [HRmTemp ts tz] (run_handler (HZipClose tz) fs)) fs0).
    apply clean1. intros q Hq1 Hq2. rewrite run_handler_frame; [apply H; assumption|].
    cbn [htouches In]. intros [E|[]]. apply Hq2. symmetry; exact E.
  Qed.

  Lemma staging_upd_ts fs e : staging fs -> staging (upd fs ts e).
  Proof. intros H q Hq1 Hq2. rewrite upd_other by exact Hq1. apply H; assumption. Qed.

  Lemma staging_upd_tz fs e : staging fs -> staging (upd fs tz e).
  Proof. intros H q Hq1 Hq2. rewrite upd_other by exact Hq2. apply H; assumption. Qed.

  Lemma staging_frame fs fs' x : (x = ts \/ x = tz) ->
    staging fs -> (forall q, q <> x -> fs' q = fs q) -> staging fs'.
  Proof.
    intros Hx H Hfr q Hq1 Hq2. rewrite Hfr; [apply H; assumption|].
    destruct Hx as [->| ->]; assumption.
  Qed.

  (* what a run leaves behind and how it ends, as a function of the fault index *)
  Inductive shape : Type :=
  | Untouched (o : outcome)     (* every path as before *)
  | Removed                      (* target gone (old one dropped, new one not yet in place), rest as before *)
  | Installed (e : entry).       (* target holds e, rest as before, save returned normally *)

  Definition has_shape (s : shape) (r : fsys * outcome) : Prop :=
    match s with
    | Untouched o => feq (fst r) fs0 /\ snd r = o
    | Removed => (forall q, q <> p -> fst r q = fs0 q) /\ fst r p = Absent /\ snd r = Faulted
    | Installed e => (forall q, q <> p -> fst r q = fs0 q) /\ fst r p = e /\ snd r = Done
    end.

  Lemma unwind_rm fs q :
    unwind [HRmTemp ts tz] fs q = if (Nat.eqb q ts || Nat.eqb q tz)%bool then Absent else fs q.
  Proof.
    cbn [unwind run_handler]. unfold upd.
    destruct (Nat.eqb q tz); [rewrite orb_true_r; reflexivity|].
    destruct (Nat.eqb q ts); reflexivity.
  Qed.

  Lemma unwind_rm_other fs q : q <> ts -> q <> tz -> unwind [HRmTemp ts tz] fs q = fs q.
  Proof.
    intros H1 H2. rewrite unwind_rm.
    destruct (Nat.eqb_spec q ts); [contradiction|]. destruct (Nat.eqb_spec q tz); [contradiction|]. reflexivity.
  Qed.

  Lemma unwind_rm_except fs q :
    (forall r, r <> ts -> r <> tz -> r <> p -> fs r = fs0 r) -> q <> p ->
    unwind [HRmTemp ts tz] fs q = fs0 q.
  Proof.
    intros H Hq. rewrite unwind_rm.
    destruct (Nat.eqb_spec q ts) as [->|H1]; [symmetry; exact Hts0|].
    destruct (Nat.eqb_spec q tz) as [->|H2]; [symmetry; exact Htz0|].
    apply H; assumption.
  Qed.

  Lemma rp_step e rest hs fs k fs1 :
    step e fs = inr fs1 ->
    run_prefix (S k) (e :: rest) hs fs = run_prefix k rest (handlers_after e hs) fs1.
  Proof. intros H. cbn [run_prefix]. rewrite H. reflexivity. Qed.

  Lemma step_rename_fresh fs s d E :
    fs s = E -> present E = true -> fs d = Absent ->
    step (Rename s d) fs = inr (upd (upd fs d E) s Absent).
  Proof.
    intros H1 H2 H3. cbn [step]. rewrite H1, H3. destruct E; try discriminate H2; reflexivity.
  Qed.

  (* phase C: drop the old target, move the staged store into place *)
  Lemma tail_shape s E fs k :
    (s = ts \/ s = tz) -> staging fs -> fs s = E -> present E = true ->
    has_shape (match k with 0 => Untouched Faulted | 1 => Removed | _ => Installed E end)
              (outcome_of (run_prefix k [RemoveTarget p; Rename s p] [HRmTemp ts tz] fs)).
  Proof.
    intros Hs Hst HE Hpres.
    assert (Hsp : s <> p) by (destruct Hs as [->| ->]; intros E'; [apply Hpts | apply Hptz]; symmetry; exact E').
    destruct k as [|[|k]].
    - cbn [run_prefix fault_handlers outcome_of has_shape fst snd].
      split; [apply clean1; exact Hst | reflexivity].
    - rewrite (rp_step (RemoveTarget p) [Rename s p] [HRmTemp ts tz] fs 0 (upd fs p Absent) eq_refl).
      cbn [run_prefix handlers_after fault_handlers outcome_of has_shape fst snd].
      repeat split.
      + intros q Hq. apply unwind_rm_except; [|exact Hq].
        intros r Hr1 Hr2 Hr3. rewrite upd_other by exact Hr3. apply Hst; assumption.
      + rewrite unwind_rm_other by assumption. apply upd_same.
    - rewrite (rp_step (RemoveTarget p) [Rename s p] [HRmTemp ts tz] fs (S k) (upd fs p Absent) eq_refl).
      cbn [handlers_after].
      assert (Hren : step (Rename s p) (upd fs p Absent) = inr (upd (upd (upd fs p Absent) p E) s Absent)).
      { apply step_rename_fresh; [rewrite upd_other by exact Hsp; exact HE | exact Hpres | apply upd_same]. }
      rewrite (rp_step (Rename s p) [] [HRmTemp ts tz] (upd fs p Absent) k _ Hren).
      cbn [run_prefix handlers_after outcome_of has_shape fst snd].
      repeat split.
      + intros q Hq. apply unwind_rm_except; [|exact Hq].
        intros r Hr1 Hr2 Hr3.
        rewrite upd_other by (destruct Hs as [->| ->]; assumption).
        rewrite upd_other by exact Hr3. rewrite upd_other by exact Hr3. apply Hst; assumption.
      + rewrite unwind_rm_other by assumption.
        rewrite upd_other by (intros E'; apply Hsp; symmetry; exact E'). apply upd_same.
  Qed.

  Variables (ws zs : list item).

  Definition blocked (m : mode) : bool := match m with MW => present (fs0 p) | MO => false end.

  (* index of the RemoveTarget effect in save_prog *)
  Definition idx_remove (st : store) : nat :=
    2 + length ws + match st with SZip => 2 + length zs | SDir => 0 end.

  Definition fixed_shape (st : store) (m : mode) (k : nat) : shape :=
    if blocked m then Untouched (match k with 0 => Faulted | _ => ErrExists end)
    else if k <=? idx_remove st then Untouched Faulted
    else if k =? S (idx_remove st) then Removed
    else Installed (final_entry st ws zs).

  Lemma staging_fs0 : staging fs0.
  Proof. intros q _ _. reflexivity. Qed.

  Lemma feq_refl f : feq f f.
  Proof. intros q. reflexivity. Qed.

  Lemma fixed_run_shape st m k :
    has_shape (fixed_shape st m k) (run k (save_prog st m p ts tz ws zs) fs0).
  Proof.
    rewrite run_outcome_of. unfold fixed_shape, save_prog.
    destruct k as [|k].
    { (* fault before the existence check *)
      cbn [run_prefix fault_handlers unwind outcome_of].
      assert (H : has_shape (Untouched Faulted) (fs0, Faulted)) by (split; [apply feq_refl | reflexivity]).
      destruct (blocked m); [exact H|]. exact H. }
    cbn [run_prefix]. unfold blocked.
    assert (Hchk : step (CheckTarget m p) fs0 =
                   if (match m with MW => present (fs0 p) | MO => false end) then inl ErrExists else inr fs0).
    { cbn [step]. destruct m; [destruct (present (fs0 p))|]; reflexivity. }
    rewrite Hchk. clear Hchk.
    destruct (match m with MW => present (fs0 p) | MO => false end).
    { cbn [unwind outcome_of has_shape fst snd]. split; [apply feq_refl | reflexivity]. }
    cbn [handlers_after].
    destruct k as [|k].
    { (* fault at MkTemp *)
      cbn [run_prefix fault_handlers unwind outcome_of].
      replace (1 <=? idx_remove st) with true by (symmetry; apply Nat.leb_le; unfold idx_remove; lia).
      split; [apply feq_refl | reflexivity]. }
    cbn [run_prefix step handlers_after].
    set (fs1 := upd fs0 ts (Dir [])).
    assert (Hst1 : staging fs1) by (apply staging_upd_ts, staging_fs0).
    rewrite run_prefix_app.
    destruct (writes_prefix ts ws k [HRmTemp ts tz] fs1 [] (upd_same _ _ _)) as (fs2 & H2d & H2fr & H2run).
    rewrite H2run. clear H2run.
    assert (Hst2 : staging fs2) by (apply (staging_frame fs1 fs2 ts); [left; reflexivity | exact Hst1 | exact H2fr]).
    destruct (k <? length ws) eqn:Ek.
    { (* fault among the writes *)
      apply Nat.ltb_lt in Ek.
      replace (S (S k) <=? idx_remove st) with true by (symmetry; apply Nat.leb_le; unfold idx_remove; lia).
      cbn [outcome_of has_shape fst snd]. split; [apply clean1; exact Hst2 | reflexivity]. }
    apply Nat.ltb_ge in Ek. rewrite (firstn_ge _ ws k Ek) in H2d. cbn [app] in H2d.
    remember (k - length ws) as k2 eqn:Hk2.
    destruct st; cbn [staged final_entry].
    - (* zip store: assemble the archive in the staging area *)
      unfold zip_phase. rewrite run_prefix_app.
      cbn [run_prefix].
      destruct k2 as [|k2].
      { (* fault at ZipOpen *)
        cbn [fault_handlers outcome_of].
        replace (S (S k) <=? idx_remove SZip) with true by (symmetry; apply Nat.leb_le; unfold idx_remove; lia).
        cbn [has_shape fst snd]. split; [apply clean1; exact Hst2 | reflexivity]. }
      assert (H2z : fs2 tz = Absent).
      { rewrite (H2fr tz) by (intros E; apply Htstz; symmetry; exact E).
        unfold fs1. rewrite upd_other by (intros E; apply Htstz; symmetry; exact E). exact Htz0. }
      cbn [step]. rewrite H2z. cbn [handlers_after].
      set (fs3 := upd fs2 tz (Zip false [])).
      assert (Hst3 : staging fs3) by (apply staging_upd_tz; exact Hst2).
      rewrite run_prefix_app.
      destruct (zipadds_prefix tz zs k2 [HZipClose tz; HRmTemp ts tz] fs3 [] (upd_same _ _ _))
        as (fs4 & H4d & H4fr & H4run).
      rewrite H4run. clear H4run.
      assert (Hst4 : staging fs4) by (apply (staging_frame fs3 fs4 tz); [right; reflexivity | exact Hst3 | exact H4fr]).
      destruct (k2 <? length zs) eqn:Ek2.
      { apply Nat.ltb_lt in Ek2.
        replace (S (S k) <=? idx_remove SZip) with true by (symmetry; apply Nat.leb_le; unfold idx_remove; lia).
        cbn [outcome_of has_shape fst snd]. split; [apply clean2; exact Hst4 | reflexivity]. }
      apply Nat.ltb_ge in Ek2. rewrite (firstn_ge _ zs k2 Ek2) in H4d. cbn [app] in H4d.
      remember (k2 - length zs) as k3 eqn:Hk3.
      cbn [run_prefix].
      destruct k3 as [|k3].
      { (* fault at the closing write: the archive stays without end record, and is removed *)
        cbn [fault_handlers tl outcome_of].
        replace (S (S k) <=? idx_remove SZip) with true by (symmetry; apply Nat.leb_le; unfold idx_remove; lia).
        cbn [has_shape fst snd]. split; [apply clean1; exact Hst4 | reflexivity]. }
      cbn [step]. rewrite H4d. cbn [handlers_after tl].
      set (fs5 := upd fs4 tz (Zip true zs)).
      assert (Hst5 : staging fs5) by (apply staging_upd_tz; exact Hst4).
      pose proof (tail_shape tz (Zip true zs) fs5 k3 (or_intror eq_refl) Hst5 (upd_same _ _ _) eq_refl) as HT.
      assert (Hk : S (S k) = idx_remove SZip + k3) by (unfold idx_remove; lia).
      rewrite Hk.
      destruct k3 as [|[|k3]].
      + replace (idx_remove SZip + 0 <=? idx_remove SZip) with true by (symmetry; apply Nat.leb_le; lia).
        exact HT.
      + replace (idx_remove SZip + 1 <=? idx_remove SZip) with false by (symmetry; apply Nat.leb_gt; lia).
        replace (idx_remove SZip + 1 =? S (idx_remove SZip)) with true by (symmetry; apply Nat.eqb_eq; lia).
        exact HT.
      + replace (idx_remove SZip + S (S k3) <=? idx_remove SZip) with false by (symmetry; apply Nat.leb_gt; lia).
        replace (idx_remove SZip + S (S k3) =? S (idx_remove SZip)) with false by (symmetry; apply Nat.eqb_neq; lia).
        exact HT.
    - (* directory store: the staged store is moved as it is *)
      cbn [app].
      pose proof (tail_shape ts (Dir ws) fs2 k2 (or_introl eq_refl) Hst2 H2d eq_refl) as HT.
      assert (Hk : S (S k) = idx_remove SDir + k2) by (unfold idx_remove; lia).
      rewrite Hk.
      destruct k2 as [|[|k2]].
      + replace (idx_remove SDir + 0 <=? idx_remove SDir) with true by (symmetry; apply Nat.leb_le; lia).
        exact HT.
      + replace (idx_remove SDir + 1 <=? idx_remove SDir) with false by (symmetry; apply Nat.leb_gt; lia).
        replace (idx_remove SDir + 1 =? S (idx_remove SDir)) with true by (symmetry; apply Nat.eqb_eq; lia).
        exact HT.
      + replace (idx_remove SDir + S (S k2) <=? idx_remove SDir) with false by (symmetry; apply Nat.leb_gt; lia).
        replace (idx_remove SDir + S (S k2) =? S (idx_remove SDir)) with false by (symmetry; apply Nat.eqb_neq; lia).
        exact HT.
  Qed.
End Fixed.

(* ---------------------------------------------------------------- consequences for the repaired protocol *)
Definition temps_ok (p ts tz : path) (fs : fsys) : Prop :=
  p <> ts /\ p <> tz /\ ts <> tz /\ fs ts = Absent /\ fs tz = Absent.

Lemma fixed_cases st m p ts tz ws zs fs k :
  temps_ok p ts tz fs ->
  let r := run k (save_prog st m p ts tz ws zs) fs in
  (forall q, q <> p -> fst r q = fs q) /\
  ((fst r p = fs p /\ snd r <> Done) \/
   (fst r p = Absent /\ snd r = Faulted /\ blocked p fs m = false) \/
   (fst r p = final_entry st ws zs /\ snd r = Done /\ blocked p fs m = false)).
Proof.
  intros (H1 & H2 & H3 & H4 & H5) r.
  pose proof (fixed_run_shape p ts tz fs H1 H2 H3 H4 H5 ws zs st m k) as HS.
  fold r in HS. unfold fixed_shape in HS.
  destruct (blocked p fs m) eqn:Eb.
  - destruct HS as [Hf Ho]. split; [intros q _; apply Hf|]. left. split; [apply Hf|].
    rewrite Ho. destruct k; discriminate.
  - destruct (k <=? idx_remove ws zs st).
    + destruct HS as [Hf Ho]. split; [intros q _; apply Hf|]. left. split; [apply Hf|].
      rewrite Ho. discriminate.
    + destruct (k =? S (idx_remove ws zs st)).
      * destruct HS as (Hf & Hp & Ho). split; [exact Hf|]. right; left. repeat split; assumption.
      * destruct HS as (Hf & Hp & Ho). split; [exact Hf|]. right; right. repeat split; assumption.
Qed.

Theorem no_partial_entry st m p ts tz ws zs fs k :
  temps_ok p ts tz fs ->
  let fs' := fst (run k (save_prog st m p ts tz ws zs) fs) in
  fs' p = fs p \/ fs' p = Absent \/ fs' p = final_entry st ws zs.
Proof.
  intros H fs'. destruct (fixed_cases st m p ts tz ws zs fs k H) as [_ [[Hc _]|[[Hc _]|[Hc _]]]].
  - left; exact Hc.
  - right; left; exact Hc.
  - right; right; exact Hc.
Qed.

(* the property, as a statement about an arbitrary protocol *)
Definition no_partial_statement
  (prog : store -> mode -> path -> path -> path -> list item -> list item -> list effect) : Prop :=
  forall (markers : list item) (st : store) (m : mode) (p ts tz : path) (ws zs : list item)
         (fs : fsys) (k : nat),
    temps_ok p ts tz fs ->
    match load_model markers (fst (run k (prog st m p ts tz ws zs) fs)) p with
    | LErr => True                                     (* absent or unreadable *)
    | LObj c => load_model markers fs p = LObj c      (* still loads what it loaded before the save *)
                \/ c = final_content st ws zs          (* or the complete new object *)
    end.

Lemma load_final markers st ws zs fs p :
  fs p = final_entry st ws zs ->
  load_model markers fs p = LErr \/ load_model markers fs p = LObj (final_content st ws zs).
Proof.
  intros H. unfold load_model. rewrite H. destruct st; cbn [final_entry final_content].
  - destruct (has_marker markers zs); [right | left]; reflexivity.
  - destruct (has_marker markers ws); [right | left]; reflexivity.
Qed.

Theorem no_partial_loadable : no_partial_statement save_prog.
Proof.
  intros markers st m p ts tz ws zs fs k H.
  destruct (no_partial_entry st m p ts tz ws zs fs k H) as [Hc|[Hc|Hc]].
  - assert (E : load_model markers (fst (run k (save_prog st m p ts tz ws zs) fs)) p = load_model markers fs p)
      by (unfold load_model; rewrite Hc; reflexivity).
    rewrite E. destruct (load_model markers fs p); [exact I | left; reflexivity].
  - unfold load_model. rewrite Hc. exact I.
  - destruct (load_final markers st ws zs _ p Hc) as [E|E]; rewrite E; [exact I | right; reflexivity].
Qed.

Theorem frame_all st m p ts tz ws zs fs k q :
  temps_ok p ts tz fs -> q <> p ->
  fst (run k (save_prog st m p ts tz ws zs) fs) q = fs q.
Proof.
  intros H Hq. destruct (fixed_cases st m p ts tz ws zs fs k H) as [Hf _]. apply Hf. exact Hq.
Qed.

Theorem write_once st m p ts tz ws zs fs k :
  temps_ok p ts tz fs -> m = MW -> fs p <> Absent ->
  (forall q, fst (run k (save_prog st m p ts tz ws zs) fs) q = fs q) /\
  (1 <= k -> snd (run k (save_prog st m p ts tz ws zs) fs) = ErrExists).
Proof.
  intros (H1 & H2 & H3 & H4 & H5) -> Hp.
  pose proof (fixed_run_shape p ts tz fs H1 H2 H3 H4 H5 ws zs st MW k) as HS.
  unfold fixed_shape, blocked in HS.
  assert (E : present (fs p) = true) by (destruct (fs p); [contradiction Hp; reflexivity| | |]; reflexivity).
  rewrite E in HS. destruct HS as [Hf Ho]. split; [exact Hf|].
  intros Hk. rewrite Ho. destruct k; [lia | reflexivity].
Qed.

Lemma save_prog_length st m p ts tz ws zs :
  length (save_prog st m p ts tz ws zs) = idx_remove ws zs st + 2.
Proof.
  unfold save_prog, idx_remove, zip_phase. cbn [length]. rewrite app_length, map_length.
  destruct st; cbn [length app]; rewrite ?app_length, ?map_length; cbn [length]; lia.
Qed.

Theorem success_complete st m p ts tz ws zs fs k :
  temps_ok p ts tz fs -> (m = MO \/ fs p = Absent) ->
  length (save_prog st m p ts tz ws zs) <= k ->
  fst (run k (save_prog st m p ts tz ws zs) fs) p = final_entry st ws zs /\
  snd (run k (save_prog st m p ts tz ws zs) fs) = Done.
Proof.
  intros (H1 & H2 & H3 & H4 & H5) Hm Hk. rewrite save_prog_length in Hk.
  pose proof (fixed_run_shape p ts tz fs H1 H2 H3 H4 H5 ws zs st m k) as HS.
  unfold fixed_shape in HS.
  assert (Eb : blocked p fs m = false).
  { unfold blocked. destruct Hm as [->|E]; [reflexivity|]. rewrite E. destruct m; reflexivity. }
  rewrite Eb in HS.
  replace (k <=? idx_remove ws zs st) with false in HS by (symmetry; apply Nat.leb_gt; lia).
  replace (k =? S (idx_remove ws zs st)) with false in HS by (symmetry; apply Nat.eqb_neq; lia).
  destruct HS as (_ & Hp & Ho). split; assumption.
Qed.

Lemma done_installed st m p ts tz ws zs fs k :
  temps_ok p ts tz fs ->
  snd (run k (save_prog st m p ts tz ws zs) fs) = Done ->
  fst (run k (save_prog st m p ts tz ws zs) fs) p = final_entry st ws zs.
Proof.
  intros H Hd. destruct (fixed_cases st m p ts tz ws zs fs k H) as [_ [[_ Hc]|[(_ & Hc & _)|(Hc & _)]]].
  - contradiction.
  - rewrite Hc in Hd. discriminate.
  - exact Hc.
Qed.

(* a failing save onto the result of an earlier successful save: what load returns afterwards
   is the complete earlier object or the complete new one (or nothing) *)
Theorem after_earlier_save markers st0 m0 ws0 zs0 ts0 tz0 k0 st m ws zs ts tz k p fs0 :
  temps_ok p ts0 tz0 fs0 -> temps_ok p ts tz fs0 ->
  snd (run k0 (save_prog st0 m0 p ts0 tz0 ws0 zs0) fs0) = Done ->
  let fs1 := fst (run k0 (save_prog st0 m0 p ts0 tz0 ws0 zs0) fs0) in
  let fs2 := fst (run k (save_prog st m p ts tz ws zs) fs1) in
  match load_model markers fs2 p with
  | LErr => True
  | LObj c => c = final_content st0 ws0 zs0 \/ c = final_content st ws zs
  end.
Proof.
  intros H0 H Hd fs1 fs2.
  pose proof (done_installed st0 m0 p ts0 tz0 ws0 zs0 fs0 k0 H0 Hd) as Hp1. fold fs1 in Hp1.
  assert (H' : temps_ok p ts tz fs1).
  { destruct H as (A & B & C & D & E). repeat split; try assumption.
    - unfold fs1. rewrite (frame_all st0 m0 p ts0 tz0 ws0 zs0 fs0 k0 ts H0) by (intros X; apply A; symmetry; exact X).
      exact D.
    - unfold fs1. rewrite (frame_all st0 m0 p ts0 tz0 ws0 zs0 fs0 k0 tz H0) by (intros X; apply B; symmetry; exact X).
      exact E. }
  pose proof (no_partial_loadable markers st m p ts tz ws zs fs1 k H') as HN. fold fs2 in HN.
  destruct (load_model markers fs2 p) as [|c]; [exact I|].
  destruct HN as [HN|HN]; [|right; exact HN].
  destruct (load_final markers st0 ws0 zs0 fs1 p Hp1) as [E|E]; rewrite E in HN; [discriminate|].
  inversion HN. left; reflexivity.
Qed.

(* ---------------------------------------------------------------- the protocol of the pinned commit *)
(* what it does guarantee: the existence check comes first ... *)
Theorem write_once_unfixed st m p ts tz ws zs fs k :
  m = MW -> fs p <> Absent ->
  (forall q, fst (run k (save_prog_unfixed st m p ts tz ws zs) fs) q = fs q) /\
  (1 <= k -> snd (run k (save_prog_unfixed st m p ts tz ws zs) fs) = ErrExists).
Proof.
  intros -> Hp.
  assert (E : present (fs p) = true) by (destruct (fs p); [contradiction Hp; reflexivity| | |]; reflexivity).
  unfold run, save_prog_unfixed. destruct k as [|k]; cbn [run_prefix fault_handlers unwind].
  - split; [reflexivity | lia].
  - cbn [step]. rewrite E. cbn [unwind]. split; reflexivity.
Qed.

(* ... other paths are not touched ... *)
Lemma In_zip_phase e z zs : In e (zip_phase z zs) -> touches e = [z].
Proof.
  unfold zip_phase. intros [<-|H]; [reflexivity|].
  apply in_app_or in H. destruct H as [H|[<-|[]]]; [|reflexivity].
  apply in_map_iff in H. destruct H as (i & <- & _). reflexivity.
Qed.

Theorem frame_unfixed st m p ts tz ws zs fs k q :
  q <> p -> q <> ts -> q <> tz ->
  fst (run k (save_prog_unfixed st m p ts tz ws zs) fs) q = fs q.
Proof.
  intros Hp Hts Htz. apply run_frame. intros e He.
  assert (Hn1 : forall x, x = p \/ x = ts \/ x = tz -> ~ In q [x]).
  { intros x Hx [E|[]]. subst x. destruct Hx as [E|[E|E]]; subst q; contradiction. }
  unfold save_prog_unfixed in He. destruct He as [<-|He]; [intros []|].
  apply in_app_or in He. destruct He as [He|He].
  - destruct m; [destruct He|]. destruct He as [<-|[]]. apply Hn1. left; reflexivity.
  - destruct st.
    + destruct He as [<-|He]; [cbn [touches In]; intros [E|[E|[]]]; subst q; contradiction|].
      apply in_app_or in He. destruct He as [He|He].
      * apply in_map_iff in He. destruct He as (i & <- & _). apply Hn1. right; left; reflexivity.
      * rewrite (In_zip_phase e p zs He). apply Hn1. left; reflexivity.
    + destruct He as [<-|He]; [apply Hn1; left; reflexivity|].
      apply in_map_iff in He. destruct He as (i & <- & _). apply Hn1. left; reflexivity.
Qed.

(* ... and the zip store is safe against every failure *during serialisation* (the store is
   staged in a temporary directory and the target is not created before ZipOpen) *)
Definition harmless (p : path) (e : effect) : Prop := ~ In p (touches e) \/ e = RemoveTarget p.

Lemma run_prefix_target_safe p prog : forall k hs fs,
  (forall e, In e (firstn k prog) -> harmless p e) ->
  (forall h, In h hs -> ~ In p (htouches h)) ->
  fst (outcome_of (run_prefix k prog hs fs)) p = fs p \/
  fst (outcome_of (run_prefix k prog hs fs)) p = Absent.
Proof.
  induction prog as [|e prog IH]; intros k hs fs He Hh; cbn [run_prefix].
  - left. cbn [outcome_of fst]. apply unwind_frame. exact Hh.
  - destruct k as [|k].
    + left. cbn [outcome_of fst]. apply unwind_frame. apply fault_handlers_touch. exact Hh.
    + assert (Hhe : harmless p e) by (apply He; left; reflexivity).
      destruct (step e fs) as [err|fs1] eqn:Es.
      * left. cbn [outcome_of fst]. apply unwind_frame. exact Hh.
      * destruct Hhe as [Hne | ->].
        -- destruct (IH k (handlers_after e hs) fs1) as [E|E].
           ++ intros e' He'. apply He. right. exact He'.
           ++ apply handlers_after_touch; assumption.
           ++ left. rewrite E. apply (step_frame e fs fs1 p Es Hne).
           ++ right. exact E.
        -- cbn [step] in Es. inversion Es; subst fs1. cbn [handlers_after].
           destruct (IH k hs (upd fs p Absent)) as [E|E].
           ++ intros e' He'. apply He. right. exact He'.
           ++ exact Hh.
           ++ right. rewrite E. apply upd_same.
           ++ right. exact E.
Qed.

Definition idx_zipopen_unfixed (m : mode) (ws : list item) : nat :=
  2 + match m with MO => 1 | MW => 0 end + length ws.

Theorem unfixed_zip_serialisation_safe m p ts tz ws zs fs k :
  p <> ts -> p <> tz -> k <= idx_zipopen_unfixed m ws ->
  let fs' := fst (run k (save_prog_unfixed SZip m p ts tz ws zs) fs) in
  fs' p = fs p \/ fs' p = Absent.
Proof.
  intros Hts Htz Hk fs'. unfold fs'. rewrite run_outcome_of.
  apply run_prefix_target_safe; [|intros h []].
  intros e He. unfold save_prog_unfixed in He.
  set (a := CheckTarget m p :: match m with MO => [RemoveTarget p] | MW => [] end ++ MkTemp ts tz :: map (WriteItem ts) ws).
  assert (Hprog : CheckTarget m p :: match m with MO => [RemoveTarget p] | MW => [] end
                  ++ MkTemp ts tz :: map (WriteItem ts) ws ++ zip_phase p zs = a ++ zip_phase p zs).
  { unfold a. cbn [app]. rewrite <- app_assoc. reflexivity. }
  rewrite Hprog in He.
  assert (Hla : length a = idx_zipopen_unfixed m ws).
  { unfold a, idx_zipopen_unfixed. cbn [length]. rewrite app_length. cbn [length]. rewrite map_length.
    destruct m; cbn [length]; lia. }
  rewrite firstn_app in He. replace (k - length a) with 0 in He by lia.
  cbn [firstn] in He. rewrite app_nil_r in He.
  apply In_firstn in He. unfold a in He.
  destruct He as [<-|He]; [left; intros []|].
  apply in_app_or in He. destruct He as [He|He].
  - destruct m; [destruct He|]. destruct He as [<-|[]]. right; reflexivity.
  - destruct He as [<-|He].
    + left. cbn [touches In]. intros [E|[E|[]]]; [apply Hts | apply Htz]; symmetry; exact E.
    + apply in_map_iff in He. destruct He as (i & <- & _). left. cbn [touches In].
      intros [E|[]]. apply Hts. symmetry; exact E.
Qed.

(* what it does not guarantee: concrete witnesses (replayed on the implementation by the harness) *)
Definition fs_empty : fsys := fun _ => Absent.

(* a violation of the property by protocol `prog` with store st: after a fault the target loads
   to an object that is neither what it loaded before nor the complete new one *)
Definition partial_witness
  (prog : store -> mode -> path -> path -> path -> list item -> list item -> list effect) (st : store) : Prop :=
  exists markers m p ts tz ws zs fs k c,
    temps_ok p ts tz fs /\
    load_model markers (fst (run k (prog st m p ts tz ws zs) fs)) p = LObj c /\
    load_model markers fs p <> LObj c /\ c <> final_content st ws zs.

(* directory store, written in place: fault after the root marker and one attribute *)
Lemma unfixed_dir_partial : partial_witness save_prog_unfixed SDir.
Proof.
  exists [1%Z], MW, 0, 1, 2, [0; 1; 2; 3; 4]%Z, [], fs_empty, 5, [0; 1; 2]%Z.
  repeat split; try discriminate; vm_compute; try reflexivity; discriminate.
Qed.

(* zip store: fault at the second ZipFile.write; ZipFile.__exit__ closes the archive *)
Lemma unfixed_zip_assembly_partial : partial_witness save_prog_unfixed SZip.
Proof.
  exists [500%Z], MW, 0, 1, 2, [0; 1; 2]%Z, [500; 501; 502]%Z, fs_empty, 7, [500%Z].
  repeat split; try discriminate; vm_compute; try reflexivity; discriminate.
Qed.

Lemma witness_refutes prog st : partial_witness prog st -> ~ no_partial_statement prog.
Proof.
  intros (markers & m & p & ts & tz & ws & zs & fs & k & c & Hok & Hl & Hold & Hnew) H.
  specialize (H markers st m p ts tz ws zs fs k Hok). rewrite Hl in H.
  destruct H as [H|H]; [apply Hold; exact H | apply Hnew; exact H].
Qed.

Theorem no_partial_loadable_refuted_dir : ~ no_partial_statement save_prog_unfixed.
Proof. apply (witness_refutes save_prog_unfixed SDir), unfixed_dir_partial. Qed.

Theorem no_partial_loadable_refuted_zip_assembly :
  partial_witness save_prog_unfixed SZip /\ ~ no_partial_statement save_prog_unfixed.
Proof.
  split; [apply unfixed_zip_assembly_partial|].
  apply (witness_refutes save_prog_unfixed SZip), unfixed_zip_assembly_partial.
Qed.

(* the repaired protocol has no such witness, for either store *)
Theorem fixed_no_witness st : ~ partial_witness save_prog st.
Proof. intros H. exact (witness_refutes save_prog st H no_partial_loadable). Qed.

(* file system used by the non-vacuity examples of props/C08_Properties.v *)
Definition ex_fs : fsys := fun q => match q with 0 => Dir [1000; 1001]%Z | 3 => Other 9 | _ => Absent end.
