(* C19 — round 3: get with default / override_with, the deprecations / aliases tables, the
   environment mapping, nested with-blocks, the key "device" reached through dotted keys or
   below the top level, histories that start from any well-formed store (the store after
   import), a decision procedure for `good`, siblings under update without the nodev side
   condition. *)
From QV.lib Require Import Prelude.
From QV.model Require Import C19_Model C19_Model2.
From QV.proof Require Import C19_Proofs_Keys C19_Proofs_Set C19_Proofs_Update C19_Proofs_Ctx C19_Proofs_Hist
  C19_Proofs_Last C19_Proofs_With.
From Coq Require Import String Ascii.

(* ---------------------------------------------------------------- get(key, default, override_with) *)
Lemma get_path_errs p : forall c e, get_path p c = inl e -> e = KeyErr \/ e = TypeErr.
Proof.
  induction p as [|k p IH]; intros c e H; cbn [get_path] in H; [discriminate|].
  destruct c as [x|d]; [inversion H; auto|].
  destruct (lookup (canon k d) d) as [c'|]; [exact (IH c' e H) | inversion H; auto].
Qed.

(* a dotted key that walks into a scalar is a TypeError, whatever comes after *)
Lemma get_path_into_scalar p : forall k r c x,
  get_path p c = inr (Leaf x) -> get_path (p ++ k :: r) c = inl TypeErr.
Proof.
  induction p as [|k0 p IH]; intros k r c x H; cbn [get_path app] in *.
  - inversion H; subst. reflexivity.
  - destruct c as [y|d]; [discriminate|]. destruct (lookup (canon k0 d) d) as [c'|]; [|discriminate].
    exact (IH k r c' x H).
Qed.

Theorem get_full_spec key dflt d :
  (* override_with wins whenever it is not None *)
  (forall o, is_none o = false -> get_full key dflt (Some o) d = inr o) /\
  (* otherwise: the plain get; its KeyError / TypeError is replaced by the default, if one is given *)
  get_full key dflt (Some (Leaf JNone)) d = get_full key dflt None d /\
  get_full key None None d = C19_Model.get key d /\
  (forall x, get_full key (Some x) None d = inr (get_or key x d)) /\
  (forall e, get_full key None None d = inl e -> e = KeyErr \/ e = TypeErr) /\
  (* a default never hides a stored value *)
  (forall c, C19_Model.get key d = inr c -> get_full key dflt None d = inr c).
Proof.
  repeat split.
  - intros o Ho. unfold get_full. rewrite Ho. reflexivity.
  - unfold get_full. destruct (C19_Model.get key d); reflexivity.
  - intros x. unfold get_full, get_or. destruct (C19_Model.get key d); reflexivity.
  - intros e. unfold get_full. destruct (C19_Model.get key d) as [e'|c] eqn:E; [|discriminate].
    intros H; inversion H; subst. exact (get_path_errs _ _ _ E).
  - intros c E. unfold get_full. rewrite E. reflexivity.
Qed.

(* ---------------------------------------------------------------- the tables of check_key_val *)
Section TablesP.
  Variable validate : cfg -> err + string.

  Lemma xl_items_empty l : xl_items [] [] l = (l, None).
  Proof.
    induction l as [|[k v] l IH]; cbn [xl_items]; [reflexivity|].
    unfold depr_check, alias_val. cbn [alookup]. rewrite IH. reflexivity.
  Qed.

  Lemma xl_cfg_empty : forall c, xl_cfg [] [] c = (c, None).
  Proof.
    induction c as [x|l IHl] using cfg_ind'; [reflexivity|].
    cbn [xl_cfg].
    match goal with |- (let (l', e) := ?G l in _) = _ => set (go := G) end.
    assert (Hc : forall k v r, go ((k, v) :: r) =
              match v with
              | Leaf x => let (r', e) := go r in ((k, Leaf x) :: r', e)
              | Node _ =>
                  if String.eqb k "device" then let (r', e) := go r in ((k, v) :: r', e)
                  else match xl_cfg [] [] v with
                       | (v2, Some e) => ([(k, v2)], Some e)
                       | (v2, None) => let (r', e) := go r in ((k, v2) :: r', e)
                       end
              end).
    { intros k v r. destruct v; reflexivity. }
    assert (Hn : go [] = ([], None)) by reflexivity.
    assert (E : go l = (l, None)).
    { clearbody go. induction l as [|[k v] l IH]; [exact Hn|].
      inversion IHl as [|? ? IHv IHl']; subst. cbn [snd] in IHv.
      rewrite Hc. destruct v as [x|lv].
      - rewrite (IH IHl'). reflexivity.
      - destruct (String.eqb k "device"); [rewrite (IH IHl'); reflexivity|].
        rewrite IHv. rewrite (IH IHl'). reflexivity. }
    rewrite E. reflexivity.
  Qed.

  (* today's tables (both empty): the table-aware functions are the ones of the base model *)
  Theorem tables_empty :
    (forall key v, check_key_val_t validate [] [] key v = check_key_val validate key v) /\
    (forall l d recs, set_items_t validate [] [] l d recs = set_items validate l d recs) /\
    (forall arg kw d, set_call_t validate [] [] arg kw d = set_call validate arg kw d) /\
    (forall prio new old dv, update_items_t validate [] [] prio new old dv = update_items validate prio new old dv).
  Proof.
    assert (S : forall l d recs, set_items_t validate [] [] l d recs = set_items validate l d recs).
    { intros l d recs. unfold set_items_t. rewrite xl_items_empty.
      destruct (set_items validate l d recs) as [[d' r] [e|]]; reflexivity. }
    repeat split.
    - exact S.
    - intros arg kw d. unfold set_call_t, set_call. destruct arg as [[x|l]|]; [reflexivity| |apply S].
      rewrite S. destruct (set_items validate l d []) as [[d' r] [e|]]; [reflexivity | apply S].
    - intros prio new old dv. unfold update_items_t, update_items. rewrite xl_cfg_empty.
      destruct (update_cfg validate prio (Node new) old dv) as [old' [e|]]; reflexivity.
  Qed.

  (* with arbitrary tables: a removed key raises ValueError before anything else; a renamed key
     only warns — the key is NOT replaced by its new name; an alias replaces the value before
     the device check, so the stored device is a validated one whatever the tables say *)
  Theorem tables_semantics depr alias key v :
    (alookup key depr = Some None -> check_key_val_t validate depr alias key v = inl ValueErr) /\
    (forall s, alookup key depr = Some (Some s) -> s <> EmptyString ->
       check_key_val_t validate depr alias key v = check_key_val_t validate [] alias key v) /\
    (alookup key depr = None -> forall v1, alias_val alias key v = inr v1 ->
       check_key_val_t validate depr alias key v = check_key_val validate key v1) /\
    (forall v', check_key_val_t validate depr alias "device" v = inr v' ->
       exists s, v' = Leaf (JStr s) /\ (s = "cpu"%string \/ exists w, validate w = inr s)).
  Proof.
    repeat split.
    - intros H. unfold check_key_val_t, depr_check. rewrite H. reflexivity.
    - intros s H Hs. unfold check_key_val_t, depr_check. rewrite H. cbn [alookup].
      destruct (String.eqb_spec s EmptyString); [congruence | reflexivity].
    - intros H v1 A. unfold check_key_val_t, depr_check. rewrite H, A. reflexivity.
    - intros v'. unfold check_key_val_t. destruct (depr_check depr "device"); [discriminate|].
      destruct (alias_val alias "device" v) as [e|v1]; [discriminate|].
      unfold check_key_val. destruct (check_dev validate "device" v1) as [e|o] eqn:C; [discriminate|].
      destruct (check_dev_valid validate _ _ C) as [s [-> V]]. intros H; inversion H; subst.
      exists s. split; [reflexivity | exact V].
  Qed.

  Lemma xl_items_app depr alias a b :
    xl_items depr alias (a ++ b) =
    match xl_items depr alias a with
    | (a', None) => let (b', e) := xl_items depr alias b in (a' ++ b', e)
    | x => x
    end.
  Proof.
    induction a as [|[k v] a IH]; cbn [app xl_items].
    - destruct (xl_items depr alias b); reflexivity.
    - destruct (depr_check depr k); [reflexivity|]. destruct (alias_val alias k v); [reflexivity|].
      rewrite IH. destruct (xl_items depr alias a) as [a' [e|]]; [reflexivity|].
      destruct (xl_items depr alias b); reflexivity.
  Qed.

  (* set with a removed key among its items: the items before it are applied, nothing after *)
  Theorem set_removed_key depr alias l1 k v l2 d recs :
    alookup k depr = Some None ->
    set_items_t validate depr alias (l1 ++ (k, v) :: l2) d recs =
    match set_items_t validate depr alias l1 d recs with
    | (d1, r1, None) => (d1, r1, Some ValueErr)
    | x => x
    end.
  Proof.
    intros H. unfold set_items_t. rewrite xl_items_app.
    destruct (xl_items depr alias l1) as [a' [e|]].
    - destruct (set_items validate a' d recs) as [[d1 r1] [e1|]]; reflexivity.
    - cbn [xl_items]. unfold depr_check at 1. rewrite H. rewrite app_nil_r.
      destruct (set_items validate a' d recs) as [[d1 r1] [e1|]]; reflexivity.
  Qed.
End TablesP.

(* ---------------------------------------------------------------- environment variables *)
Theorem refresh_ignores_env validate yaml env s :
  refresh_e validate yaml env s = refresh validate yaml s /\
  collect validate yaml env = merge validate yaml.
Proof. split; reflexivity. Qed.

(* ---------------------------------------------------------------- "device" off the top level *)
Section DevicePaths.
  Variable validate : cfg -> err + string.

  Lemma check_key_val_other key v : key <> "device"%string -> check_key_val validate key v = inr v.
  Proof. intros H. unfold check_key_val. rewrite (check_dev_other validate key v H). reflexivity. Qed.

  (* set never validates a "device" that is not the whole key: below the stored scalar device a
     dotted key is a TypeError (nothing changes); when no device is stored it creates a mapping
     under "device" holding the raw value; below another section the raw value is stored.
     update validates a key named "device" at every level. *)
  Theorem device_off_top_level :
    (forall d x v, lookup "device" d = Some (Leaf x) -> set_item validate "device.x" v d = inl TypeErr) /\
    (forall d v, lookup "device" d = None ->
       set_item validate "device.x" v d =
       inr (assign "device" (Node [("x"%string, v)]) d, (["device"%string], None))) /\
    (forall d v sub, lookup "viz" d = Some (Node sub) -> lookup "device" sub = None ->
       set_item validate "viz.device" v d =
       inr (assign "viz" (Node (assign "device" v sub)) d, (["viz"; "device"]%string, None))) /\
    (forall prio k v e old dv dv', k <> "device"%string -> cpu_request v = false -> validate v = inl e ->
       dsub dv (canon k old) = inr dv' ->
       update_cfg validate prio (Node [(k, Node [("device"%string, v)])]) old dv =
       (assign (canon k old) (Node (subdict (canon k old) old)) old, Some e)).
  Proof.
    repeat split.
    - intros d x v L. unfold set_item. rewrite check_key_val_other by discriminate.
      cbn [split_dot Ascii.eqb Bool.eqb dot]. cbn [assign_path].
      assert (C : canon "device" d = "device"%string) by (apply canon_mem; unfold mem; rewrite L; reflexivity).
      rewrite C, L. reflexivity.
    - intros d v L. unfold set_item. rewrite check_key_val_other by discriminate.
      cbn [split_dot Ascii.eqb Bool.eqb dot]. cbn [assign_path].
      assert (C : canon "device" d = "device"%string).
      { unfold canon, mem. change (alt_name "device") with "device"%string. rewrite L. reflexivity. }
      rewrite C, L. cbn [lookup assign]. reflexivity.
    - intros d v sub L Ls. unfold set_item. rewrite check_key_val_other by discriminate.
      cbn [split_dot Ascii.eqb Bool.eqb dot]. cbn [assign_path].
      assert (C : canon "viz" d = "viz"%string) by (apply canon_mem; unfold mem; rewrite L; reflexivity).
      rewrite C, L.
      assert (C2 : canon "device" sub = "device"%string).
      { unfold canon, mem. change (alt_name "device") with "device"%string. rewrite Ls. reflexivity. }
      rewrite C2, Ls. reflexivity.
    - intros prio k v e old dv dv' Kd Hc Hv Ds.
      rewrite update_unfold. rewrite (check_dev_other validate k _ Kd). cbv zeta. rewrite Ds.
      rewrite update_unfold. unfold check_dev. cbn [String.eqb Ascii.eqb Bool.eqb]. rewrite Hc, Hv. reflexivity.
  Qed.
End DevicePaths.

(* ---------------------------------------------------------------- siblings under update, no nodev *)
Section AnyDev.
  Variable validate : cfg -> err + string.
  (* validate_device raises for a mapping (TypeError: unsupported device type) *)
  Hypothesis validate_mapping : forall l, exists e, validate (Node l) = inl e.

  Lemma update_siblings_anydev : forall new, good new -> forall prio old dv old' e q x,
    good (Node old) -> pure_path q ->
    (forall w, In w (wpaths new) -> diverge w q) ->
    update_cfg validate prio new old dv = (old', e) ->
    get_path q (Node old) = inr x -> get_path q (Node old') = inr x.
  Proof.
    induction new as [y|l IHl] using cfg_ind'; intros Gn prio old dv old' e q x G Pq HW H Hg.
    - rewrite update_leaf in H. inversion H; subst. exact Hg.
    - destruct l as [|kv0 l0] eqn:El; [rewrite update_nil in H; inversion H; subst; exact Hg|].
      rewrite <- El in *. assert (Hne : l <> []) by (rewrite El; discriminate). clear El kv0 l0.
      rewrite (wpaths_node l Hne) in HW. clear Hne.
      revert old G H Hg. induction l as [|[k v] l IH]; intros old G H Hg.
      + rewrite update_nil in H. inversion H; subst. exact Hg.
      + destruct (good_cons_inv _ _ _ Gn) as [Pk [Gv Gl]].
        inversion IHl as [|? ? IHv IHl']; subst. cbn [snd] in IHv.
        assert (HWv : forall w, In w (wpaths v) -> diverge (k :: w) q).
        { intros w I. apply HW. unfold wp_items. cbn [flat_map fst snd]. apply in_or_app. left.
          apply in_map. exact I. }
        assert (HWl : forall w, In w (wp_items l) -> diverge w q).
        { intros w I. apply HW. unfold wp_items. cbn [flat_map]. apply in_or_app. right. exact I. }
        destruct q as [|qk qr].
        { exfalso. destruct (wpaths v) as [|w ws] eqn:Ew; [exact (wpaths_nonempty v Ew)|].
          apply (HWv w). left. reflexivity. }
        apply pure_path_cons in Pq. destruct Pq as [Pqk Pqr].
        rewrite update_cons in H. cbv zeta in H.
        set (k' := canon k old) in *.
        set (r := entry_val validate prio k v k' (lookup k' old) dv) in *.
        assert (G1 : good (Node (put k' (fst r) old))).
        { pose proof (update_good validate (Node [(k, v)])) as UG.
          assert (Gkv : good (Node [(k, v)])).
          { constructor; [constructor; [exact Pk|constructor] | cbn; constructor; [intros []|constructor]
                         | constructor; [exact Gv|constructor]]. }
          destruct (snd r) as [e1|] eqn:Er.
          - apply (UG Gkv prio old dv _ (Some e1) G). rewrite update_cons. cbv zeta. fold k'. fold r. rewrite Er.
            reflexivity.
          - apply (UG Gkv prio old dv _ None G). rewrite update_cons. cbv zeta. fold k'. fold r. rewrite Er.
            apply update_nil. }
        assert (Hg1 : get_path (qk :: qr) (Node (put k' (fst r) old)) = inr x).
        { destruct (string_dec (norm k) (norm qk)) as [En|Nn].
          2:{ unfold k'. rewrite (get_path_find qk qr old _ (find_put_other k (fst r) old qk Nn)). exact Hg. }
          assert (HWq : forall w, In w (wpaths v) -> diverge w qr).
          { intros w I. specialize (HWv w I). cbn [diverge] in HWv. destruct HWv as [D|[_ D]]; [congruence | exact D]. }
          destruct v as [y|lv].
          { exfalso. apply (HWq []). left. reflexivity. }
          destruct qr as [|q2 qr].
          { exfalso. destruct (wpaths (Node lv)) as [|w ws] eqn:Ew; [exact (wpaths_nonempty _ Ew)|].
            specialize (HWq w (or_introl eq_refl)). destruct w; exact HWq. }
          destruct (string_dec k "device") as [->|Kd].
          { (* a mapping handed to the key "device": validate_device raises, the entry is left alone *)
            unfold r, entry_val, check_dev. cbn [String.eqb Ascii.eqb Bool.eqb cpu_request].
            destruct (validate_mapping lv) as [e1 ->]. cbn [fst put]. exact Hg. }
          pose proof (find_same_norm k qk old (good_keys_of _ G) Pk Pqk En) as FS. unfold find in FS. fold k' in FS.
          cbn [get_path] in Hg. rewrite <- FS in Hg.
          destruct (lookup k' old) as [[z|sub]|] eqn:L; try discriminate.
          cbn [get_path]. fold (find qk (put k' (fst r) old)).
          unfold k'. rewrite (find_put_same k (fst r) old qk G Pk Pqk En). fold k'.
          unfold r, entry_val. rewrite (check_dev_other validate k (Node lv) Kd).
          cbn [subof].
          destruct (dsub dv k') as [e1|dv']; cbn [fst]; [exact Hg|].
          destruct (update_cfg validate prio (Node lv) sub dv') as [sub' e1] eqn:U. cbn [fst].
          exact (IHv Gv prio sub dv' sub' e1 (q2 :: qr) x (good_lookup _ _ _ G L) Pqr HWq U Hg). }
        destruct (snd r).
        * inversion H; subst. exact Hg1.
        * exact (IH IHl' Gl HWl _ G1 H Hg1).
  Qed.
End AnyDev.

Lemma validate_nogpu_mapping : forall l, exists e, validate_nogpu (Node l) = inl e.
Proof. intros l. exists TypeErr. reflexivity. Qed.

(* ---------------------------------------------------------------- histories from any good store *)
Section FromAny.
  Variable validate : cfg -> err + string.

  Theorem invariants_from s0 ops :
    inv s0 -> dev_ok validate (conf s0) -> Forall op_ok ops ->
    inv (run validate ops s0) /\ dev_ok validate (conf (run validate ops s0)).
  Proof.
    intros I D Ok. split; [exact (run_inv validate ops s0 I Ok) | exact (run_dev validate ops s0 D)].
  Qed.

  Theorem get_last_writer_from s1 key v v' d2 r key' post :
    inv s1 ->
    key_ok key -> good v -> key_ok key' -> nodev (path_of key') ->
    same_path (path_of key) (path_of key') ->
    check_key_val validate key v = inr v' ->
    set_item validate key v (conf s1) = inr (d2, r) ->
    Forall (no_write_op key') post ->
    C19_Model.get key' (conf (run validate post {| conf := d2; dflts := dflts s1 |})) = inr v'.
  Proof.
    intros [Gc Gd] Pk Gv Pk' Nk Sp C S Nw.
    apply run_preserves_get; try assumption.
    - split; cbn [conf dflts]; [|exact Gd]. exact (set_item_good validate _ _ _ _ _ Gc Pk Gv S).
    - cbn [conf]. exact (get_set validate key key' v v' (conf s1) d2 r Gc Pk Pk' Sp C S).
  Qed.

  (* statements that never call update_defaults leave the defaults alone, so a refresh after
     them gives what a refresh before them gives: "refresh restores exactly the accumulated
     defaults", whatever was set in between *)
  Definition no_upd_s (o : sop) : Prop := match o with SUpd _ => False | _ => True end.
  Definition no_upd (o : op) : Prop :=
    match o with Do o => no_upd_s o | With _ _ body | WithX _ _ body => Forall no_upd_s body end.

  Lemma step_s_dflts o s : no_upd_s o -> dflts (fst (step_s validate o s)) = dflts s.
  Proof.
    destruct o as [arg kw|new|yaml]; cbn [no_upd_s step_s]; intros H; [|destruct H|].
    - destruct (set_call validate arg kw (conf s)) as [[c' recs] e]. reflexivity.
    - exact (proj1 (proj2 (refresh_is_merge_defaults validate yaml s))).
  Qed.

  Lemma run_s_dflts body : forall s, Forall no_upd_s body -> dflts (run_s validate body s) = dflts s.
  Proof.
    induction body as [|o body IH]; intros s H; cbn [run_s]; [reflexivity|].
    inversion H; subst. rewrite IH by assumption. apply step_s_dflts. assumption.
  Qed.

  Lemma run_s_stop_dflts body : forall s, Forall no_upd_s body -> dflts (fst (run_s_stop validate body s)) = dflts s.
  Proof.
    induction body as [|o body IH]; intros s H; cbn [run_s_stop]; [reflexivity|].
    inversion H as [|? ? Ho H']; subst. pose proof (step_s_dflts o s Ho) as E.
    destruct (step_s validate o s) as [s1 [e|]]; cbn [fst] in *; [exact E|]. rewrite (IH s1 H'). exact E.
  Qed.

  Lemma step_dflts o s : no_upd o -> dflts (fst (step validate o s)) = dflts s.
  Proof.
    destruct o as [o|arg kw body|arg kw body]; cbn [no_upd step]; intros H.
    - apply step_s_dflts. exact H.
    - destruct (set_call validate arg kw (conf s)) as [[c1 recs] [e|]]; [reflexivity|].
      pose proof (run_s_dflts body {| conf := c1; dflts := dflts s |} H) as E.
      destruct (exit_call recs (conf (run_s validate body {| conf := c1; dflts := dflts s |}))). exact E.
    - destruct (set_call validate arg kw (conf s)) as [[c1 recs] [e|]]; [reflexivity|].
      pose proof (run_s_stop_dflts body {| conf := c1; dflts := dflts s |} H) as E.
      destruct (run_s_stop validate body {| conf := c1; dflts := dflts s |}) as [s2 eb].
      destruct (exit_call recs (conf s2)). exact E.
  Qed.

  Lemma run_dflts ops : forall s, Forall no_upd ops -> dflts (run validate ops s) = dflts s.
  Proof.
    induction ops as [|o ops IH]; intros s H; cbn [run]; [reflexivity|].
    inversion H; subst. rewrite IH by assumption. apply step_dflts. assumption.
  Qed.

  Theorem refresh_after_sets ops yaml s :
    Forall no_upd ops ->
    conf (fst (refresh validate yaml (run validate ops s))) = conf (fst (refresh validate yaml s)) /\
    dflts (fst (refresh validate yaml (run validate ops s))) = dflts s.
  Proof.
    intros H. pose proof (run_dflts ops s H) as E.
    destruct (refresh_is_merge_defaults validate yaml (run validate ops s)) as [R1 [R2 _]].
    split; [|rewrite R2; exact E].
    rewrite <- (R1 (conf (run validate ops s))). rewrite E.
    rewrite (proj1 (refresh_is_merge_defaults validate yaml s) (conf (run validate ops s))). reflexivity.
  Qed.
End FromAny.

(* ---------------------------------------------------------------- deciding good *)
Lemma nodupb_sound l : nodupb l = true -> NoDup l.
Proof.
  induction l as [|a l IH]; cbn [nodupb]; intros H; [constructor|].
  apply andb_true_iff in H. destruct H as [H1 H2]. constructor; [|exact (IH H2)].
  intros I. apply negb_true_iff in H1.
  assert (E : existsb (String.eqb a) l = true).
  { apply existsb_exists. exists a. split; [exact I | apply String.eqb_refl]. }
  congruence.
Qed.

Lemma goodb_sound : forall c, goodb c = true -> good c.
Proof.
  induction c as [x|l IHl] using cfg_ind'; intros H; [constructor|].
  cbn [goodb] in H. apply andb_true_iff in H. destruct H as [H H3]. apply andb_true_iff in H. destruct H as [H1 H2].
  constructor.
  - apply Forall_forall. intros kv I. rewrite forallb_forall in H1. exact (H1 kv I).
  - exact (nodupb_sound _ H2).
  - clear H1 H2. induction l as [|kv l IH]; [constructor|].
    apply andb_true_iff in H3. destruct H3 as [Ha Hb]. inversion IHl as [|? ? IHv IHl']; subst.
    constructor; [exact (IHv Ha) | exact (IH IHl' Hb)].
Qed.

Lemma goodb_items_sound ds : forallb (fun d => goodb (Node d)) ds = true -> goods ds.
Proof.
  intros H. apply Forall_forall. intros d I. rewrite forallb_forall in H. exact (goodb_sound _ (H d I)).
Qed.

(* the store after import is a good store when the yaml defaults are (import = refresh of the
   probe defaults followed by update_defaults of the parsed yaml) *)
Theorem import_store_inv validate probe yaml :
  good (Node probe) -> good (Node yaml) ->
  inv (fst (import_store validate probe yaml)) /\
  dev_ok validate (conf (fst (import_store validate probe yaml))).
Proof.
  intros Gp Gy. unfold import_store.
  match goal with |- context [refresh validate [] ?s] => set (s0 := s) end.
  assert (I0 : inv s0) by (split; [exact good_nil | constructor; [exact Gp | constructor]]).
  assert (D0 : dev_ok validate (conf s0)) by exact (dev_ok_nil validate).
  pose proof (step_s_inv validate (SRefresh []) s0 I0 (Forall_nil _)) as I1.
  pose proof (step_s_dev validate (SRefresh []) s0 D0) as D1. cbn [step_s] in I1, D1.
  destruct (refresh validate [] s0) as [s1 [e|]]; cbv beta iota; cbn [fst] in *; [split; assumption|].
  pose proof (step_s_inv validate (SUpd yaml) s1 I1 Gy) as I2.
  pose proof (step_s_dev validate (SUpd yaml) s1 D1) as D2. cbn [step_s] in I2, D2.
  split; assumption.
Qed.

(* ---------------------------------------------------------------- nested with-blocks *)
Section StmtInd.
  Variable P : stmt -> Prop.
  Hypothesis HP : forall o, P (Plain o).
  Hypothesis HB : forall x arg kw body, Forall P body -> P (Block x arg kw body).
  Hypothesis HR : forall arg kw b1 b2, Forall P b1 -> Forall P b2 -> P (Reuse arg kw b1 b2).
  Fixpoint stmt_ind' (t : stmt) : P t :=
    match t with
    | Plain o => HP o
    | Block x arg kw body =>
        HB x arg kw body ((fix go (l : list stmt) : Forall P l :=
                             match l with [] => Forall_nil _ | a :: r => Forall_cons a (stmt_ind' a) (go r) end) body)
    | Reuse arg kw b1 b2 =>
        HR arg kw b1 b2
           ((fix go (l : list stmt) : Forall P l :=
               match l with [] => Forall_nil _ | a :: r => Forall_cons a (stmt_ind' a) (go r) end) b1)
           ((fix go (l : list stmt) : Forall P l :=
               match l with [] => Forall_nil _ | a :: r => Forall_cons a (stmt_ind' a) (go r) end) b2)
    end.
End StmtInd.

Section Nest.
  Variable validate : cfg -> err + string.

  Fixpoint body_run (x : bool) (b : list stmt) (s : store) : (store * option err) * list (store * option err) :=
    match b with
    | [] => ((s, None), [])
    | t' :: r =>
        match exec validate t' s with
        | ((s', Some e), lg) => if x then ((s', Some e), lg)
                                else let (res, lg') := body_run x r s' in (res, lg ++ lg')
        | ((s', None), lg) => let (res, lg') := body_run x r s' in (res, lg ++ lg')
        end
    end.

  Lemma exec_block x arg kw body s :
    exec validate (Block x arg kw body) s =
    match set_call validate arg kw (conf s) with
    | (c1, _, Some e) => let r := (mk c1 (dflts s), Some e) in (r, [r])
    | (c1, recs, None) =>
        let s1 := mk c1 (dflts s) in
        match body_run x body s1 with
        | ((s2, eb), lg) =>
            let (c3, ee) := exit_call recs (conf s2) in
            let r := (mk c3 (dflts s2), match ee with Some e => Some e | None => eb end) in
            (r, (s1, None) :: lg ++ [r])
        end
    end.
  Proof. reflexivity. Qed.

  (* a tree of with-blocks (nested to any depth, either exception discipline) whose only plain
     statements raise, and whose every __init__ succeeds *)
  Fixpoint clean (t : stmt) (s : store) : Prop :=
    match t with
    | Plain o => exists y, o = SSet (Some (Leaf y)) []
    | Block _ arg kw body =>
        exists c1 recs, set_call validate arg kw (conf s) = (c1, recs, None) /\
          (fix all (b : list stmt) : Prop :=
             match b with [] => True | t' :: r => clean t' (mk c1 (dflts s)) /\ all r end) body
    | Reuse _ _ _ _ => False
    end.

  Fixpoint all_clean (b : list stmt) (s : store) : Prop :=
    match b with [] => True | t' :: r => clean t' s /\ all_clean r s end.

  Lemma clean_block x arg kw body s :
    clean (Block x arg kw body) s <->
    exists c1 recs, set_call validate arg kw (conf s) = (c1, recs, None) /\ all_clean body (mk c1 (dflts s)).
  Proof.
    cbn [clean].
    assert (E : forall s1 b, (fix all (b : list stmt) : Prop :=
                                match b with [] => True | t' :: r => clean t' s1 /\ all r end) b <-> all_clean b s1).
    { intros s1 b. induction b as [|t' r IH]; cbn [all_clean]; [tauto|]. rewrite IH. tauto. }
    split; intros [c1 [recs [S A]]]; exists c1, recs; (split; [exact S|]); apply E; exact A.
  Qed.

  Lemma body_run_restores x body : forall s,
    Forall (fun t => forall s, clean t s -> fst (fst (exec validate t s)) = s) body ->
    all_clean body s -> fst (fst (body_run x body s)) = s.
  Proof.
    induction body as [|t' r IH]; intros s HF A; cbn [body_run]; [reflexivity|].
    inversion HF as [|? ? Ht Hr]; subst. cbn [all_clean] in A. destruct A as [A1 A2].
    pose proof (Ht s A1) as E. destruct (exec validate t' s) as [[s' [e|]] lg]; cbn [fst] in E; subst s'.
    - destruct x; [reflexivity|]. pose proof (IH s Hr A2) as E2.
      destruct (body_run false r s) as [res lg']. exact E2.
    - pose proof (IH s Hr A2) as E2. destruct (body_run x r s) as [res lg']. exact E2.
  Qed.

  Theorem nest_restores : forall t s, clean t s -> fst (fst (exec validate t s)) = s.
  Proof.
    induction t as [o|x arg kw body IHb|arg kw b1 b2 _ _] using stmt_ind'; intros s C.
    - destruct C as [y ->]. cbn [exec step_s set_call fst]. apply store_eta.
    - apply clean_block in C. destruct C as [c1 [recs [S A]]].
      rewrite exec_block, S. cbv zeta.
      pose proof (body_run_restores x body (mk c1 (dflts s)) IHb A) as E.
      destruct (body_run x body (mk c1 (dflts s))) as [[s2 eb] lg]. cbn [fst] in E. subst s2.
      cbn [mk conf dflts]. rewrite (ctx_restores validate arg kw (conf s) c1 recs S). cbn [fst]. apply store_eta.
    - destruct C.
  Qed.
End Nest.
