(* C09 — proofs about model/C09_Model.v *)
From QV.lib Require Import Prelude Chunks FloatBits.
From QV.model Require Import C09_Model.
From Coq Require Import QArith PrimFloat.
Local Close Scope Q_scope.
Set Implicit Arguments.

(* ---------------------------------------------------------------- partition *)
Definition is_partition (n : nat) (s : tvsplit) : Prop :=
  Permutation (train s ++ val s) (seq 0 n) /\ NoDup (train s ++ val s).

Lemma filter_memb_perm (l sel : list nat) :
  NoDup l -> NoDup sel -> incl sel l ->
  Permutation (filter (fun i => memb i sel) l) sel.
Proof.
  intros Hl Hs Hi. apply NoDup_Permutation.
  - apply NoDup_filter. exact Hl.
  - exact Hs.
  - intros x. rewrite filter_In, memb_In. split; [tauto|]. intros Hx. split; [apply Hi|]; exact Hx.
Qed.

Lemma setdiff_partition (l sel : list nat) :
  NoDup l -> NoDup sel -> incl sel l ->
  Permutation (setdiff l sel ++ sel) l.
Proof.
  intros Hl Hs Hi. unfold setdiff.
  eapply Permutation_trans; [apply Permutation_app_comm|].
  eapply Permutation_trans; [apply Permutation_app_tail; apply Permutation_sym;
                             apply (filter_memb_perm Hl Hs Hi)|].
  apply (filter_partition_perm (fun i => memb i sel) l).
Qed.

Lemma partition_of_sel (n : nat) (sel : list nat) :
  NoDup sel -> incl sel (seq 0 n) ->
  is_partition n {| train := setdiff (seq 0 n) sel; val := sel |} /\
  is_partition n {| train := sel; val := setdiff (seq 0 n) sel |}.
Proof.
  intros Hs Hi.
  pose proof (setdiff_partition (seq_NoDup n 0) Hs Hi) as HP.
  assert (HN : NoDup (setdiff (seq 0 n) sel ++ sel)).
  { eapply Permutation_NoDup; [apply Permutation_sym; exact HP | apply seq_NoDup]. }
  unfold is_partition; cbn [train val]. repeat split.
  - exact HP.
  - exact HN.
  - eapply Permutation_trans; [apply Permutation_app_comm | exact HP].
  - eapply Permutation_NoDup; [apply Permutation_app_comm | exact HN].
Qed.

Lemma stride_NoDup k n : NoDup (stride k n).
Proof. unfold stride. apply NoDup_filter. apply seq_NoDup. Qed.

Lemma stride_incl k n : incl (stride k n) (seq 0 n).
Proof. unfold stride. intros x Hx. apply filter_In in Hx. tauto. Qed.

(* every k (even k = 0, which the code excludes by max(1, .)) and every n_val *)
Theorem split_grid_partition n n_val k invert : is_partition n (split_grid n n_val k invert).
Proof.
  unfold split_grid.
  assert (Hs : NoDup (firstn n_val (stride k n))) by (apply NoDup_firstn, stride_NoDup).
  assert (Hi : incl (firstn n_val (stride k n)) (seq 0 n)).
  { intros x Hx. apply stride_incl with (k := k). eapply In_firstn; exact Hx. }
  destruct (@partition_of_sel n _ Hs Hi) as [H1 H2]. destruct invert; assumption.
Qed.

Theorem split_random_partition n n_val perm :
  Permutation perm (seq 0 n) -> is_partition n (split_random n n_val perm).
Proof.
  intros HP. unfold split_random.
  assert (Hnd : NoDup perm).
  { eapply Permutation_NoDup; [apply Permutation_sym; exact HP | apply seq_NoDup]. }
  assert (Hs : NoDup (firstn n_val perm)) by (apply NoDup_firstn; exact Hnd).
  assert (Hi : incl (firstn n_val perm) (seq 0 n)).
  { intros x Hx. eapply Permutation_in; [exact HP|]. eapply In_firstn; exact Hx. }
  destruct (@partition_of_sel n _ Hs Hi) as [H1 _]. exact H1.
Qed.

Lemma no_split_partition n : is_partition n (no_split n).
Proof.
  unfold is_partition, no_split; cbn [train val]. rewrite app_nil_r.
  split; [apply Permutation_refl | apply seq_NoDup].
Qed.

(* the whole constructor, float glue included: whatever n_val and k the rounding produces *)
Theorem split_partition n ratio random perm s :
  Permutation perm (seq 0 n) ->
  split_of_ratio n ratio random perm = Some s -> is_partition n s.
Proof.
  intros HP. unfold split_of_ratio.
  destruct (py_round _) as [nv|]; [|discriminate].
  destruct (nv <=? 0)%Z.
  - intros [= <-]. apply no_split_partition.
  - destruct random.
    + intros [= <-]. exact (@split_random_partition n (Z.to_nat nv) perm HP).
    + destruct (PrimFloat.leb _ _).
      * destruct (py_round _) as [k|]; [|discriminate]. intros [= <-].
        exact (split_grid_partition n (Z.to_nat nv) (kz k) false).
      * destruct (py_round _) as [k|]; [|discriminate]. intros [= <-].
        exact (split_grid_partition n (Z.to_nat nv) (kz k) true).
Qed.

(* ---------------------------------------------------------------- epochs *)
Theorem epoch_visits_once b order s :
  1 <= b -> Permutation order (train s) ->
  Permutation (concat (epoch b order)) (train s) /\
  length (epoch b order) = batcher_len b s.
Proof.
  intros Hb HP. unfold epoch, batcher_len. rewrite chunks_concat by exact Hb.
  split; [exact HP|]. rewrite chunks_length by exact Hb.
  rewrite (Permutation_length HP). reflexivity.
Qed.

Theorem epoch_batches_nonempty_bounded b order c :
  1 <= b -> In c (epoch b order) -> 1 <= length c <= b.
Proof. apply chunks_sizes. Qed.

Theorem val_visits_once b s :
  1 <= b -> concat (val_batches b s) = val s /\ length (val_batches b s) = val_len b s.
Proof.
  intros Hb. unfold val_batches, val_len. rewrite chunks_concat by exact Hb. split; [reflexivity|].
  rewrite chunks_length by exact Hb. destruct (val s); [|reflexivity].
  unfold ceil_div. simpl. apply Nat.div_small. lia.
Qed.

(* train-then-validation epochs never visit a validation pattern during training *)
Theorem train_val_disjoint n s x :
  is_partition n s -> In x (train s) -> ~ In x (val s).
Proof.
  intros [_ HN] Ht Hv. induction (train s) as [|y t IH]; [contradiction|].
  cbn [app] in HN. inversion HN; subst. destruct Ht as [->|Ht].
  - match goal with H : ~ In x (t ++ val s) |- _ => apply H end. apply in_or_app. right. exact Hv.
  - apply IH; assumption.
Qed.

(* ---------------------------------------------------------------- subdivide / generate *)
Lemma sum_Z_app a b : sum_Z (a ++ b) = (sum_Z a + sum_Z b)%Z.
Proof. induction a as [|x a IH]; cbn [app sum_Z]; lia. Qed.

Lemma sum_Z_repeat x n : sum_Z (repeat x n) = (Z.of_nat n * x)%Z.
Proof. induction n as [|n IH]; cbn [repeat sum_Z]; lia. Qed.

Theorem subdivide_max_batch n mb sizes :
  (1 <= n)%Z -> (1 <= mb)%Z ->
  subdivide_batches n None (Some mb) = inr sizes ->
  sum_Z sizes = n /\
  Z.of_nat (length sizes) = ((n + mb - 1) / mb)%Z /\
  (forall s, In s sizes -> 1 <= s <= mb)%Z.
Proof.
  intros Hn Hmb. unfold subdivide_batches.
  destruct (mb =? 0)%Z eqn:E0; [lia|].
  set (nb := ((n + mb - 1) / mb)%Z).
  assert (Hnb : (1 <= nb <= n)%Z) by (subst nb; nia).
  destruct (n <? nb)%Z eqn:E1; [lia|].
  destruct (nb =? 0)%Z eqn:E2; [lia|].
  intros [= <-].
  assert (Hrem : (0 <= n mod nb < nb)%Z) by (apply Z.mod_pos_bound; lia).
  repeat split.
  - rewrite sum_Z_app, !sum_Z_repeat. rewrite !Z2Nat.id by lia.
    pose proof (Z.div_mod n nb). nia.
  - rewrite app_length, !repeat_length. lia.
  - apply in_app_or in H. destruct H as [H|H]; apply repeat_spec in H; subst s.
    + assert (0 <= n / nb)%Z by (apply Z.div_pos; lia). lia.
    + destruct (Z.eq_dec (n / nb) 0) as [Hz|Hz]; [|assert (0 <= n / nb)%Z by (apply Z.div_pos; lia); lia].
      exfalso. apply Z.div_small_iff in Hz; lia.
  - assert (Hceil : (n <= mb * nb)%Z).
    { subst nb. pose proof (Z.div_mod (n + mb - 1) mb). pose proof (Z.mod_pos_bound (n + mb - 1) mb). lia. }
    pose proof (Z.div_mod n nb) as Hdm.
    apply in_app_or in H. destruct H as [H|H].
    + (* base + 1 <= mb: this block is non-empty only when rem > 0 *)
      assert (Hpos : (0 < n mod nb)%Z).
      { destruct (Z.to_nat (n mod nb)) eqn:Er; [contradiction|]. lia. }
      apply repeat_spec in H; subst s. nia.
    + apply repeat_spec in H; subst s. nia.
Qed.

Theorem subdivide_num_batches n nb sizes :
  (1 <= nb <= n)%Z ->
  subdivide_batches n (Some nb) None = inr sizes ->
  sum_Z sizes = n /\ Z.of_nat (length sizes) = nb /\
  (forall s, In s sizes -> n / nb <= s <= n / nb + 1)%Z.
Proof.
  intros Hnb. unfold subdivide_batches.
  destruct (n <? nb)%Z eqn:E1; [lia|].
  destruct (nb =? 0)%Z eqn:E2; [lia|].
  intros [= <-].
  assert (Hrem : (0 <= n mod nb < nb)%Z) by (apply Z.mod_pos_bound; lia).
  repeat split.
  - rewrite sum_Z_app, !sum_Z_repeat. rewrite !Z2Nat.id by lia.
    pose proof (Z.div_mod n nb). nia.
  - rewrite app_length, !repeat_length. lia.
  - apply in_app_or in H. destruct H as [H|H]; apply repeat_spec in H; subst s; lia.
  - apply in_app_or in H. destruct H as [H|H]; apply repeat_spec in H; subst s; lia.
Qed.

(* generate_batches: contiguous, start at `start`, end at start + sum, widths = sizes *)
Fixpoint contiguous (from : Z) (rs : list (Z * Z)) : Prop :=
  match rs with
  | [] => True
  | (a, b) :: r => a = from /\ contiguous b r
  end.

Fixpoint last_end (from : Z) (rs : list (Z * Z)) : Z :=
  match rs with [] => from | (_, b) :: r => last_end b r end.

Lemma ranges_from_spec idx sizes :
  contiguous idx (ranges_from idx sizes) /\
  last_end idx (ranges_from idx sizes) = (idx + sum_Z sizes)%Z /\
  map (fun ab => (snd ab - fst ab)%Z) (ranges_from idx sizes) = sizes.
Proof.
  revert idx. induction sizes as [|s r IH]; intros idx; cbn [ranges_from contiguous last_end map sum_Z].
  - repeat split; lia.
  - destruct (IH (idx + s)%Z) as [H1 [H2 H3]]. repeat split; try assumption.
    + rewrite H2. lia.
    + cbn [fst snd]. rewrite H3. f_equal. lia.
Qed.

Theorem generate_batches_cover n mb start rs :
  (1 <= n)%Z -> (1 <= mb)%Z ->
  generate_batches n None (Some mb) start = inr rs ->
  contiguous start rs /\ last_end start rs = (start + n)%Z /\
  (forall a b, In (a, b) rs -> 1 <= b - a <= mb)%Z.
Proof.
  intros Hn Hmb. unfold generate_batches.
  destruct (subdivide_batches n None (Some mb)) as [e|sizes] eqn:E; [discriminate|].
  intros [= <-]. destruct (subdivide_max_batch Hn Hmb E) as [Hs [_ Hb]].
  destruct (ranges_from_spec start sizes) as [H1 [H2 H3]].
  split; [exact H1|]. split; [rewrite H2, Hs; reflexivity|].
  intros a b Hin. apply Hb. rewrite <- H3.
  change (b - a)%Z with ((fun ab : Z * Z => (snd ab - fst ab)%Z) (a, b)).
  apply in_map. exact Hin.
Qed.

(* ---------------------------------------------------------------- loss scaling *)
Local Open Scope Q_scope.

Lemma sumQ_app a b : sumQ (a ++ b) == sumQ a + sumQ b.
Proof. induction a as [|x a IH]; cbn [app sumQ]; [ring | rewrite IH; ring]. Qed.

Lemma sumQ_concat (ll : list (list Q)) : sumQ (concat ll) == sumQ (map sumQ ll).
Proof.
  induction ll as [|l ll IH]; cbn [concat map sumQ]; [reflexivity|].
  rewrite sumQ_app, IH. reflexivity.
Qed.

Lemma sumQ_map_scale (c : Q) (f : list Q -> Q) (ll : list (list Q)) :
  (forall l, In l ll -> f l == c * sumQ l) ->
  sumQ (map f ll) == c * sumQ (map sumQ ll).
Proof.
  induction ll as [|l ll IH]; intros H; cbn [map sumQ]; [ring|].
  rewrite (H l (or_introl eq_refl)), IH; [ring|]. intros l' Hl'. apply H. right. exact Hl'.
Qed.

(* when b divides the number of patterns every chunk has exactly b elements *)
Lemma chunks_fuel_all_full (A : Type) fuel b (l : list A) m c :
  (1 <= b)%nat -> length l = (m * b)%nat -> (length l <= fuel)%nat ->
  In c (chunks_fuel fuel b l) -> length c = b.
Proof.
  revert l m. induction fuel as [|f IH]; intros l m Hb Hl Hf Hin; [contradiction|].
  destruct l as [|x l]; [contradiction|]. cbn [chunks_fuel] in Hin.
  destruct m as [|m]; [cbn [length] in Hl; lia|].
  destruct Hin as [<-|Hin].
  - rewrite firstn_length. lia.
  - apply (IH (skipn b (x :: l)) m); try assumption.
    + rewrite skipn_length. lia.
    + rewrite skipn_length. cbn [length] in *. lia.
Qed.

Theorem batch_mean_eq_full (N : nat) (I : Q) (b m : nat) (ls : list Q) :
  (1 <= b)%nat -> (1 <= m)%nat -> (1 <= N)%nat -> length ls = (m * b)%nat ->
  mean_of_batch_losses N I b ls == batch_loss N I ls.
Proof.
  intros Hb Hm HN Hl. unfold mean_of_batch_losses.
  rewrite chunks_length by exact Hb. rewrite Hl.
  assert (Hcd : ceil_div (m * b) b = m).
  { unfold ceil_div. replace (m * b + b - 1)%nat with ((b - 1) + m * b)%nat by lia.
    rewrite Nat.div_add by lia. rewrite Nat.div_small by lia. lia. }
  rewrite Hcd.
  set (c := (inject_Z (Z.of_nat N) / inject_Z (Z.of_nat b) / I)).
  rewrite (@sumQ_map_scale c).
  - rewrite <- sumQ_concat. rewrite chunks_concat by exact Hb.
    unfold batch_loss. rewrite Hl. subst c.
    rewrite Nat2Z.inj_mul, inject_Z_mult.
    assert (Hbq : ~ inject_Z (Z.of_nat b) == 0).
    { intros H. apply (Qeq_bool_neq (inject_Z (Z.of_nat b)) 0); [|exact H].
      unfold Qeq_bool, inject_Z; cbn. destruct (Z.of_nat b) eqn:E; cbn; try reflexivity; lia. }
    assert (Hmq : ~ inject_Z (Z.of_nat m) == 0).
    { intros H. apply (Qeq_bool_neq (inject_Z (Z.of_nat m)) 0); [|exact H].
      unfold Qeq_bool, inject_Z; cbn. destruct (Z.of_nat m) eqn:E; cbn; try reflexivity; lia. }
    assert (HNq : ~ inject_Z (Z.of_nat N) == 0).
    { intros H. apply (Qeq_bool_neq (inject_Z (Z.of_nat N)) 0); [|exact H].
      unfold Qeq_bool, inject_Z; cbn. destruct (Z.of_nat N) eqn:E; cbn; try reflexivity; lia. }
    destruct (Qeq_dec I 0) as [HI|HI].
    + rewrite HI. unfold Qdiv. rewrite !Qinv_0 || idtac.
      setoid_replace (/ 0) with 0 by reflexivity. ring.
    + field. repeat split; assumption.
  - intros l Hin. unfold batch_loss.
    rewrite (@chunks_fuel_all_full Q (length ls) b ls m l Hb Hl (le_n _) Hin).
    subst c.
    assert (Hbq : ~ inject_Z (Z.of_nat b) == 0).
    { intros H. apply (Qeq_bool_neq (inject_Z (Z.of_nat b)) 0); [|exact H].
      unfold Qeq_bool, inject_Z; cbn. destruct (Z.of_nat b) eqn:E; cbn; try reflexivity; lia. }
    assert (HNq : ~ inject_Z (Z.of_nat N) == 0).
    { intros H. apply (Qeq_bool_neq (inject_Z (Z.of_nat N)) 0); [|exact H].
      unfold Qeq_bool, inject_Z; cbn. destruct (Z.of_nat N) eqn:E; cbn; try reflexivity; lia. }
    destruct (Qeq_dec I 0) as [HI|HI].
    + rewrite HI. unfold Qdiv. setoid_replace (/ 0) with 0 by reflexivity. ring.
    + field. repeat split; assumption.
Qed.
Local Close Scope Q_scope.
Set Implicit Arguments.

(* ---------------------------------------------------------------- reset / determinism *)
Section ReconProofs.
  Variable St Loss : Type.
  Variable init_of_seed : Z -> St.
  Variable iter_step : St -> St * Loss.
  Notation recon := (recon St Loss).
  Notation run := (C09_Model.run iter_step).
  Notation start := (C09_Model.start Loss init_of_seed).
  Notation reset := (C09_Model.reset init_of_seed).

  Lemma seed_iterate (r : recon) : seed (iterate iter_step r) = seed r.
  Proof. unfold iterate. destruct (iter_step (st r)). reflexivity. Qed.

  Lemma seed_run k (r : recon) : seed (run k r) = seed r.
  Proof. revert r. induction k as [|k IH]; intros r; cbn [C09_Model.run]; [reflexivity|].
         rewrite IH. apply seed_iterate. Qed.

  (* same seed -> same history, whatever happened before the reset *)
  Theorem reset_run_eq j k sd :
    run k (reset (run j (start sd))) = run k (start sd).
  Proof. unfold C09_Model.reset. rewrite seed_run. reflexivity. Qed.

  Lemma iter_losses_iterate (r : recon) :
    length (iter_losses (iterate iter_step r)) = S (length (iter_losses r)).
  Proof. unfold iterate. destruct (iter_step (st r)). cbn. rewrite app_length. cbn. lia. Qed.

  Theorem history_length k (r : recon) :
    length (iter_losses (run k r)) = length (iter_losses r) + k.
  Proof.
    revert r. induction k as [|k IH]; intros r; cbn [C09_Model.run]; [lia|].
    rewrite IH, iter_losses_iterate. lia.
  Qed.
End ReconProofs.
