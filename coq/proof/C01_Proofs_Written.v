(* C01 — the trees save() writes have unique member names in every group (`wf_node`), i.e. the
   hypothesis of store independence holds for every written store; hence the round trip through
   the flat file map of the directory store and through the zip archive. *)
From QV.lib Require Import Prelude.
From QV.model Require Import C01_Model.
From QV.proof Require Import C01_Proofs_Base C01_Proofs_Enc C01_Proofs_Dec C01_Proofs_Struct C01_Proofs_Main
     C01_Proofs_RT C01_Proofs_Store.
From Coq Require Import String Ascii Permutation.
Local Open Scope string_scope.
Local Open Scope list_scope.

Lemma wf_node_set_attr k j g : wf_node (set_attr k j g) = wf_node g.
Proof. destruct g as [a r s]. reflexivity. Qed.

(* ------------------------------------------------------------------ member names of a group of entries *)
Definition akeys (es : list (string * value)) : list string :=
  flat_map (fun kv => if is_class SArr (snd kv) then [fst kv] else []) es.
Definition gkeys (es : list (string * value)) : list string :=
  flat_map (fun kv => if is_class SGrp (snd kv) then [fst kv] else []) es.

Lemma keys_arrays_pieces es : keys (n_arrays (pieces es)) = akeys es.
Proof.
  rewrite n_arrays_pieces. unfold keys, akeys.
  induction es as [|[k v] r IH]; cbn [flat_map]; [reflexivity|].
  rewrite map_app, IH, parrs1_eq. cbn [fst snd]. destruct (is_class SArr v); reflexivity.
Qed.

Lemma keys_groups_pieces es : keys (n_groups (pieces es)) = gkeys es.
Proof.
  rewrite n_groups_pieces. unfold keys, gkeys.
  induction es as [|[k v] r IH]; cbn [flat_map]; [reflexivity|].
  rewrite map_app, IH, pgrps1_eq. cbn [fst snd]. destruct (is_class SGrp v); reflexivity.
Qed.

Lemma akeys_sub es k : In k (akeys es) -> In k (ekeys es).
Proof. rewrite <- keys_arrays_pieces. apply pieces_array_keys. Qed.
Lemma gkeys_sub es k : In k (gkeys es) -> In k (ekeys es).
Proof. rewrite <- keys_groups_pieces. apply pieces_group_keys. Qed.

(* arrays and sub-groups share one namespace: distinct entry keys give distinct member names *)
Lemma nodup_member_keys es : NoDup (ekeys es) -> NoDup (akeys es ++ gkeys es).
Proof.
  induction es as [|[k v] r IH]; intros Hnd; [constructor|].
  cbn [ekeys map fst] in Hnd. inversion Hnd as [|? ? Hnk Hnd']; subst. specialize (IH Hnd').
  assert (Hfresh : ~ In k (akeys r ++ gkeys r)).
  { intros Hi. apply in_app_or in Hi. destruct Hi as [Hi|Hi]; [apply akeys_sub in Hi | apply gkeys_sub in Hi]; exact (Hnk Hi). }
  unfold akeys, gkeys. cbn [flat_map fst snd]. fold (akeys r). fold (gkeys r).
  destruct (is_class_cases v) as [(E1 & E2 & E3)|[(E1 & E2 & E3)|(E1 & E2 & E3)]]; rewrite E2, E3; cbn [app].
  - exact IH.
  - constructor; assumption.
  - apply (Permutation_NoDup (l := k :: akeys r ++ gkeys r)); [apply Permutation_middle|].
    constructor; assumption.
Qed.

Lemma In_groups_pieces es k sub :
  In (k, sub) (n_groups (pieces es)) -> exists v, In (k, v) es /\ is_class SGrp v = true /\ sub = subg v.
Proof.
  rewrite n_groups_pieces. intros H. apply in_flat_map in H. destruct H as [[k' v] [Hi Hs]].
  rewrite pgrps1_eq in Hs. destruct (is_class SGrp v) eqn:Ec; [|destruct Hs].
  destruct Hs as [He|[]]. injection He as -> <-. exists v. repeat split; assumption.
Qed.

(* a header group over the pieces of es *)
Lemma wf_node_hgroup hd es extra :
  NoDup (ekeys es) ->
  (forall k v, In (k, v) es -> is_class SGrp v = true -> wf_node (subg v) = true) ->
  wf_node (hgroup hd es extra) = true.
Proof.
  intros Hnd Hsub. unfold hgroup. rewrite wf_node_eq. apply andb_true_iff. split.
  - apply NoDup_nodupb. rewrite keys_arrays_pieces, keys_groups_pieces. apply nodup_member_keys. exact Hnd.
  - apply forallb_forall. intros [k sub] Hi. cbn [snd].
    apply In_groups_pieces in Hi. destruct Hi as [v (Hi & Ec & ->)]. exact (Hsub k v Hi Ec).
Qed.

Lemma wf_node_seq ct l :
  (forall v, In v l -> is_class SGrp v = true -> wf_node (subg v) = true) ->
  wf_node (match numeric_seq l with
           | Some (r, ns) => fast_group ct r ns
           | None => hgroup ("_container_type", JStr ct) (ientries 0 l) [] end) = true.
Proof.
  intros H. destruct (numeric_seq l) as [[r ns]|]; [reflexivity|].
  apply wf_node_hgroup; [apply ientries_NoDup|].
  intros k v Hi Ec. apply H; [exact (In_ientries_value _ _ _ _ Hi) | exact Ec].
Qed.

(* ------------------------------------------------------------------ every written sub-group *)
Theorem wf_node_subg v : forall b, wf_value b v = true -> wf_node (subg v) = true.
Proof.
  induction v using value_ind'; intros inc Hw; try reflexivity.
  - (* blob *) cbn [wf_value] in Hw. apply andb_true_iff in Hw. destruct Hw as [Hm _].
    rewrite (subg_blob k tys meta h Hm). reflexivity.
  - (* list *) rewrite subg_list. apply wf_node_seq. intros v Hv _. rewrite Forall_forall in H.
    cbn [wf_value] in Hw. exact (H v Hv true (wf_seq_parts inc l Hw v Hv)).
  - (* tuple *) rewrite subg_tuple. apply wf_node_seq. intros v Hv _. rewrite Forall_forall in H.
    cbn [wf_value] in Hw. exact (H v Hv true (wf_seq_parts inc l Hw v Hv)).
  - (* set *) rewrite subg_set. apply wf_node_seq. intros v Hv _. rewrite Forall_forall in H.
    cbn [wf_value] in Hw. exact (H v Hv true (wf_seq_parts inc l Hw v Hv)).
  - (* dict *) cbn [wf_value] in Hw. destruct (wf_fields_keys true l Hw) as (Hnd & Hk & Hf).
    rewrite (subg_dict l Hnd Hk). apply wf_node_hgroup; [exact Hnd|].
    intros k v Hi _. rewrite Forall_forall in H. exact (H (k, v) Hi true (Hf k v Hi)).
  - (* object *) cbn [wf_value] in Hw. destruct (wf_fields_keys false l Hw) as (Hnd & Hk & Hf).
    rewrite (subg_obj m c l Hnd Hk). apply wf_node_hgroup; [exact Hnd|].
    intros k v Hi _. rewrite Forall_forall in H. exact (H (k, v) Hi false (Hf k v Hi)).
Qed.

(* ------------------------------------------------------------------ the written file *)
Theorem wf_node_save_file v : wf_obj v = true -> wf_node (save_file [] [] v) = true.
Proof.
  destruct v; cbn [wf_obj]; try discriminate. intros Hw.
  unfold save_file. rewrite !wf_node_set_attr, encode_root_subg. exact (wf_node_subg _ false Hw).
Qed.

(* save, then read the tree back from the flat file map of the directory store or from the
   members of the zip archive, then load: the normal form, for both stores *)
Theorem roundtrip_both_stores v :
  wf_obj v = true ->
  let t := save_file [] [] v in
  unflatten (depth t) (unzip_store (zip_store (flatten t))) = Some t /\
  unflatten (depth t) (flatten t) = Some t /\
  load_file [] [] t = RVal (norm v).
Proof.
  intros Hw t. destruct (store_independent t (wf_node_save_file v Hw)) as [H1 H2].
  split; [exact H1|]. split; [exact H2|]. apply roundtrip. exact Hw.
Qed.
