(* C16 — additional lemmas on top of proof/C16_Proofs.v:
   - scatter/gather adjointness specialised to the wrap-around patch indices of a batch of
     (arbitrary integer) scan positions;
   - mixed-state Fourier projection stated pixel by pixel: where the estimate is invertible the
     measured amplitude is reproduced, where the estimate vanishes the projected spectrum
     vanishes (so the amplitude is NOT reproduced there unless it is zero);
   - the single-state projection at a vanishing spectrum. *)
From Coq Require Import ZArith List Lia Ring Arith.
From QV.lib Require Import FinSum DFT DFT2.
From QV.model Require Import C16_Model.
From QV.proof Require Import C16_Proofs.
Import ListNotations.

Lemma batch_patch_indices_in_range N1 N2 H W pos :
  (0 < H)%nat -> (0 < W)%nat -> Forall (fun i => (i < H * W)%nat) (batch_patch_indices N1 N2 H W pos).
Proof.
  intros HH HW. apply Forall_forall. intros x Hx. unfold batch_patch_indices in Hx.
  apply in_flat_map in Hx. destruct Hx as [rc [_ Hx]].
  pose proof (patch_indices_in_range N1 N2 H W (fst rc) (snd rc) HH HW) as F.
  rewrite Forall_forall in F. apply F. exact Hx.
Qed.

Section ScatterPatches.
  Variable R : Type.
  Variables (rO rI : R) (radd rmul rsub : R -> R -> R) (ropp : R -> R).
  Variable Rth : ring_theory rO rI radd rmul rsub ropp (@eq R).

  (* <obj[patch_indices], vals> = <obj, sum_patches vals patch_indices>  for every batch of
     integer scan positions (negative, beyond the object: indices wrap), every ROI and object shape *)
  Theorem scatter_adjoint_gather_patches (N1 N2 H W : nat) (pos : list (Z * Z)) (obj : nat -> R) (vals : list R) :
    (0 < H)%nat -> (0 < W)%nat ->
    ldot rO radd rmul (gather obj (batch_patch_indices N1 N2 H W pos)) vals
    = adot rO radd rmul (H * W) obj (scatter rO radd (batch_patch_indices N1 N2 H W pos) vals).
  Proof.
    intros HH HW. apply (scatter_adjoint_gather Rth).
    apply batch_patch_indices_in_range; assumption.
  Qed.
End ScatterPatches.

Section Extra.
  Variable R : Type.
  Variables (rO rI : R) (radd rmul rsub : R -> R -> R) (ropp : R -> R).
  Variable Rth : ring_theory rO rI radd rmul rsub ropp (@eq R).
  Add Ring RringExtra : Rth.
  Variable conj : R -> R.
  Hypothesis Cok : conj_ok radd rmul conj.
  Variables (N1 : nat) (w1 : Z -> R) (Ninv1 : R) (N2 : nat) (w2 : Z -> R) (Ninv2 : R).
  Hypothesis Rok1 : root_ok rO rI radd rmul conj N1 w1 Ninv1.
  Hypothesis Rok2 : root_ok rO rI radd rmul conj N2 w2 Ninv2.
  Variables (rs rsi : R).
  Hypothesis Hrs : rmul rs (conj rs) = rmul Ninv1 Ninv2.
  Hypothesis Hrsi : rmul rs rsi = rI.
  Set Default Proof Using "All".

  Notation "0" := rO.  Notation "1" := rI.
  Infix "+" := radd.   Infix "*" := rmul.  Infix "-" := rsub.  Notation "- x" := (ropp x).
  Notation img := (nat -> nat -> R).
  Notation abs2 := (abs2 rmul conj).
  Notation ifftshift2 := (ifftshift2 N1 N2).
  Notation eq2 := (eq2 R N1 N2).
  Notation dft2_ortho := (dft2_ortho rO radd rmul N1 w1 N2 w2 rs).
  Notation estimate_intensities := (estimate_intensities rO radd rmul conj N1 w1 N2 w2 rs).

  Lemma conj_one : conj 1 = 1.
  Proof.
    transitivity (conj 1 * conj (conj 1)).
    - rewrite (conj_invol _ _ _ _ Cok). ring.
    - rewrite <- (conj_mul _ _ _ _ Cok). transitivity (conj (conj 1)); [f_equal; ring | apply (conj_invol _ _ _ _ Cok)].
  Qed.

  Variable isq : R -> R.
  Notation fourier_projection_mixed :=
    (fourier_projection_mixed rO radd rmul conj N1 w1 Ninv1 N2 w2 Ninv2 rs rsi isq 0).

  (* corner-centred intensity after the mixed-state projection (fpm_intensity without the
     single-state parameters, which it does not use) *)
  Lemma fpm_intensity' a psis k1 k2 : (k1 < N1)%nat -> (k2 < N2)%nat ->
    estimate_intensities (fourier_projection_mixed a psis) k1 k2
    = abs2 (ifftshift2 a k1 k2 * isq (estimate_intensities psis k1 k2)) * estimate_intensities psis k1 k2.
  Proof.
    intros H1 H2.
    refine (fpm_intensity R rO rI radd rmul rsub ropp Rth conj Cok N1 w1 Ninv1 N2 w2 Ninv2 Rok1 Rok2 rs rsi Hrs Hrsi
              (fun _ => 1) (fun _ => False) _ _ _ isq a psis k1 k2 H1 H2).
    - intros ? [].
    - intros _. unfold C16_Model.abs2. rewrite conj_one. ring.
    - intros ? ? [].
  Qed.

  (* pixel by pixel: where the summed estimate S is inverted by isq (S <> 0), the projected
     modes carry exactly the measured amplitude (squared) at that frequency ... *)
  Theorem fourier_projection_mixed_amp_pointwise a psis k1 k2 : (k1 < N1)%nat -> (k2 < N2)%nat ->
    let S := estimate_intensities psis k1 k2 in
    let am := ifftshift2 a k1 k2 in
    conj am = am -> isq S * isq S * S = 1 -> conj (isq S) = isq S ->
    estimate_intensities (fourier_projection_mixed a psis) k1 k2 = am * am.
  Proof.
    intros H1 H2 S am Hre Hinv Hq. rewrite (fpm_intensity' a psis k1 k2 H1 H2).
    fold S. fold am. unfold C16_Model.abs2. rewrite (conj_mul _ _ _ _ Cok), Hre, Hq.
    transitivity (am * am * (isq S * isq S * S)); [ring|]. rewrite Hinv. ring.
  Qed.

  (* ... and where every mode's spectrum vanishes (S = 0) the projected spectrum vanishes as
     well, whatever was measured: the measured amplitude is reproduced there only if it is 0 *)
  Theorem fourier_projection_mixed_zero_estimate a psis k1 k2 : (k1 < N1)%nat -> (k2 < N2)%nat ->
    estimate_intensities psis k1 k2 = 0 ->
    estimate_intensities (fourier_projection_mixed a psis) k1 k2 = 0.
  Proof.
    intros H1 H2 HS. rewrite (fpm_intensity' a psis k1 k2 H1 H2), HS. ring.
  Qed.

  (* a measured zero is reproduced regardless of the estimate *)
  Theorem fourier_projection_mixed_zero_amplitude a psis k1 k2 : (k1 < N1)%nat -> (k2 < N2)%nat ->
    ifftshift2 a k1 k2 = 0 ->
    estimate_intensities (fourier_projection_mixed a psis) k1 k2 = 0.
  Proof.
    intros H1 H2 Ha. rewrite (fpm_intensity' a psis k1 k2 H1 H2), Ha. unfold C16_Model.abs2. ring.
  Qed.
End Extra.
