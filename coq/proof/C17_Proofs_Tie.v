(* C17 — lemmas about the fixed meanings of model/C17_Model_Tie.v (what the translator's library
   calls denote) and about the model, used by the fixed proof script gen_proofs/C17_GenProofs.v:
     A. the result of the fuelled union-find does not depend on the fuel once it suffices
     B. boolean-mask selection / gathers / elementwise maps on parallel columns = filter / map on pairs
     C. the index tensors of _build_edges (arange.reshape, roll, slices, flatten) = the model's grid_pairs
     D. argsort + gather = the model's stable sort; the sort only depends on the keys up to Qeq
     E. the final assembly phi.flatten() + 2*pi*incs *)
From QV.lib Require Import Prelude.
From QV.model Require Import C17_Model C17_Model_Ext C17_Model_Tie.
From QV.proof Require Import C17_Proofs C17_Proofs_Unwrap C17_Proofs_Ext.
From Coq Require Import QArith Qround.
Local Close Scope Q_scope.
Set Implicit Arguments.

(* ================================================================ A. fuel *)
Lemma find_mono f : forall st x t r, find f st x t = Some r -> forall f', f <= f' -> find f' st x t = Some r.
Proof.
  induction f as [|f IH]; intros st x t r H f' Hf; [discriminate|].
  destruct f' as [|f']; [lia|]. cbn [find] in *.
  destruct (nth x (parent st) x =? x); [exact H|]. apply (IH _ _ _ _ H). lia.
Qed.

Lemma union_mono f st x y i st' f' :
  union f st x y i = Some st' -> f <= f' -> union f' st x y i = Some st'.
Proof.
  unfold union. intros H Hf.
  destruct (find f st x 0%Z) as [[rx ox]|] eqn:Fx; [|discriminate].
  destruct (find f st y 0%Z) as [[ry oy]|] eqn:Fy; [|discriminate].
  rewrite (find_mono _ _ _ Fx Hf), (find_mono _ _ _ Fy Hf). exact H.
Qed.

Lemma run_mono f f' es : forall st st', run f st es = Some st' -> f <= f' -> run f' st es = Some st'.
Proof.
  induction es as [|[[x y] i] es IH]; intros st st' H Hf; cbn [run] in *; [exact H|].
  destruct (union f st x y i) as [s1|] eqn:U; [|discriminate].
  rewrite (union_mono _ _ _ _ U Hf). eapply IH; eassumption.
Qed.

Lemma all_some_find_mono f f' st (l : list nat) r :
  all_some (map (fun i => option_map snd (find f st i 0%Z)) l) = Some r -> f <= f' ->
  all_some (map (fun i => option_map snd (find f' st i 0%Z)) l) = Some r.
Proof.
  revert r. induction l as [|a l IH]; intros r H Hf; cbn [map all_some] in *; [exact H|].
  destruct (find f st a 0%Z) as [p|] eqn:Fa; cbn [option_map] in *; [|discriminate].
  rewrite (find_mono _ _ _ Fa Hf). cbn [option_map].
  destruct (all_some (map (fun i => option_map snd (find f st i 0%Z)) l)) as [r'|]; [|discriminate].
  rewrite (IH r' eq_refl Hf). exact H.
Qed.

(* for EVERY fuel that suffices (more than the number of edges) the fuelled run + final offsets is the
   model's uf_offsets (which uses fuel_of es) *)
Theorem uf_offsets_any_fuel n es fuel :
  inrange n es -> length es < fuel ->
  match run fuel (uf_init n) es with Some st => final_offsets fuel st n | None => None end = uf_offsets n es /\
  exists offs, uf_offsets n es = Some offs /\ length offs = n.
Proof.
  intros Hr Hf.
  destruct (@fuel_suffices n es (fuel_of es) Hr ltac:(unfold fuel_of; lia)) as (st & offs & R & F & L & _).
  assert (Hle : fuel_of es <= fuel) by (unfold fuel_of; lia).
  split.
  - rewrite (run_mono _ _ R Hle). unfold uf_offsets. rewrite R.
    unfold final_offsets in *. rewrite F. apply (all_some_find_mono _ _ F Hle).
  - exists offs. unfold uf_offsets. rewrite R. auto.
Qed.

Lemma run_parent_length f es : forall st st', run f st es = Some st' -> length (parent st') = length (parent st).
Proof.
  induction es as [|[[x y] i] es IH]; intros st st' H; cbn [run] in H; [congruence|].
  destruct (union f st x y i) as [s1|] eqn:U; [|discriminate].
  rewrite (IH _ _ H). unfold union in U.
  destruct (find f st x 0%Z) as [[rx ox]|]; [|discriminate].
  destruct (find f st y 0%Z) as [[ry oy]|]; [|discriminate].
  destruct (rx =? ry); [congruence|].
  destruct (nth rx (rank st) 0 <? nth ry (rank st) 0); inversion U; cbn [parent]; apply upd_length.
Qed.

(* ================================================================ B. columns *)
Lemma map_fst_combine (A B : Type) (a : list A) (b : list B) : length a <= length b -> map fst (combine a b) = a.
Proof.
  revert b. induction a as [|x a IH]; intros [|y b] H; cbn [combine map length] in *; try reflexivity; [lia|].
  rewrite IH by lia. reflexivity.
Qed.

Lemma map_snd_combine (A B : Type) (a : list A) (b : list B) : length b <= length a -> map snd (combine a b) = b.
Proof.
  revert b. induction a as [|x a IH]; intros [|y b] H; cbn [combine map length] in *; try reflexivity; [lia|].
  rewrite IH by lia. reflexivity.
Qed.

Lemma map2_maps (A B C D E : Type) (f : C -> D -> E) (g : A -> C) (h : B -> D) (a : list A) (b : list B) :
  map2 f (map g a) (map h b) = map (fun e => f (g (fst e)) (h (snd e))) (combine a b).
Proof.
  revert b. induction a as [|x a IH]; intros [|y b]; cbn [combine map map2]; try reflexivity.
  rewrite IH. reflexivity.
Qed.

Section Columns.
  Variables (m : nat -> bool) (rl phi : nat -> Q) (fw : Q -> Q -> Z).

  Definition pkey (e : nat * nat) : Q := (rl (fst e) + rl (snd e))%Q.
  Definition pinc (e : nat * nat) : Z := fw (phi (fst e)) (phi (snd e)).
  Definition pmask (e : nat * nat) : bool := m (fst e) && m (snd e).
  (* the four parallel columns of a list of pixel pairs *)
  Definition erow_of (L : list (nat * nat)) : erow := (map fst L, map snd L, map pkey L, map pinc L).

  Lemma cols_nomask (a b : list nat) : length a = length b ->
    (a, b, map2 Qplus (gather rl a) (gather rl b), map2 fw (gather phi a) (gather phi b)) = erow_of (combine a b).
  Proof.
    intros Hl. unfold erow_of, gather, pkey, pinc.
    rewrite !map2_maps, (map_fst_combine a b), (map_snd_combine a b) by lia. reflexivity.
  Qed.

  Lemma bsel_pairs : forall a b : list nat, length a = length b ->
    combine (bsel (map2 andb (gather m a) (gather m b)) a) (bsel (map2 andb (gather m a) (gather m b)) b)
    = filter pmask (combine a b) /\
    length (bsel (map2 andb (gather m a) (gather m b)) a) = length (bsel (map2 andb (gather m a) (gather m b)) b).
  Proof.
    unfold gather.
    induction a as [|x a IH]; intros [|y b] Hl; try discriminate; [split; reflexivity|].
    injection Hl as Hl. destruct (IH b Hl) as [E1 E2]. cbn [combine map map2 bsel filter].
    unfold pmask at 1. cbn [fst snd]. destruct (m x && m y); cbn [combine length]; [rewrite E1, E2|]; auto.
  Qed.

  Lemma cols_mask (a b : list nat) : length a = length b ->
    let v := map2 andb (gather m a) (gather m b) in
    (bsel v a, bsel v b, map2 Qplus (gather rl (bsel v a)) (gather rl (bsel v b)),
     map2 fw (gather phi (bsel v a)) (gather phi (bsel v b)))
    = erow_of (filter pmask (combine a b)).
  Proof.
    intros Hl v. destruct (bsel_pairs a b Hl) as [E1 E2]. fold v in E1, E2.
    rewrite (cols_nomask _ _ E2), E1. reflexivity.
  Qed.

  Lemma cat_cols_two (L1 L2 : list (nat * nat)) :
    cat_cols (([] ++ [erow_of L1]) ++ [erow_of L2]) = erow_of (L1 ++ L2).
  Proof. unfold cat_cols, erow_of. cbn [app map concat fst snd]. rewrite !app_nil_r, !map_app. reflexivity. Qed.
End Columns.

(* ================================================================ C. index tensors *)
Lemma flat_map_ext_in (A B : Type) (f g : A -> list B) (l : list A) :
  (forall a, In a l -> f a = g a) -> flat_map f l = flat_map g l.
Proof.
  induction l as [|a l IH]; intros H; cbn [flat_map]; [reflexivity|].
  rewrite (H a) by (left; reflexivity). rewrite IH by (intros; apply H; right; assumption). reflexivity.
Qed.

Lemma map_flat_map (A B C : Type) (f : B -> C) (g : A -> list B) (l : list A) :
  map f (flat_map g l) = flat_map (fun a => map f (g a)) l.
Proof. induction l as [|a l IH]; cbn [flat_map map]; [reflexivity|]. rewrite map_app, IH. reflexivity. Qed.

Lemma filter_flat_map (A B : Type) (p : B -> bool) (g : A -> list B) (l : list A) :
  filter p (flat_map g l) = flat_map (fun a => filter p (g a)) l.
Proof. induction l as [|a l IH]; cbn [flat_map filter]; [reflexivity|]. rewrite filter_app, IH. reflexivity. Qed.

Lemma combine_app_eq (A B : Type) (l1 l2 : list A) (k1 k2 : list B) :
  length l1 = length k1 -> combine (l1 ++ l2) (k1 ++ k2) = combine l1 k1 ++ combine l2 k2.
Proof.
  revert k1. induction l1 as [|a l1 IH]; intros [|b k1] H; try discriminate; [reflexivity|].
  injection H as H. cbn [app combine]. rewrite IH by exact H. reflexivity.
Qed.

Lemma combine_map_same (A B C : Type) (f : A -> B) (g : A -> C) (l : list A) :
  combine (map f l) (map g l) = map (fun a => (f a, g a)) l.
Proof. induction l as [|a l IH]; cbn [map combine]; [reflexivity|]. rewrite IH. reflexivity. Qed.

Lemma combine_flat_map (A B C : Type) (f : A -> list B) (g : A -> list C) (l : list A) :
  (forall a, length (f a) = length (g a)) ->
  combine (flat_map f l) (flat_map g l) = flat_map (fun a => combine (f a) (g a)) l.
Proof.
  intros H. induction l as [|a l IH]; cbn [flat_map]; [reflexivity|].
  rewrite combine_app_eq by apply H. rewrite IH. reflexivity.
Qed.

(* seq 0 (H*W) row by row *)
Lemma grid_seq (H W : nat) :
  seq 0 (H * W) = flat_map (fun r => map (fun c => r * W + c) (seq 0 W)) (seq 0 H).
Proof.
  induction H as [|H IH]; [reflexivity|].
  rewrite seq_S, flat_map_app. cbn [flat_map]. rewrite app_nil_r, <- IH. cbn [plus].
  replace (S H * W) with (H * W + W) by lia. rewrite seq_app. f_equal. cbn [plus].
  rewrite <- (map_id (seq (H * W) W)) at 1.
  replace (seq (H * W) W) with (map (fun c => H * W + c) (seq 0 W)).
  - rewrite map_map. reflexivity.
  - clear IH. generalize (H * W). induction W as [|W IHW]; intros s; [reflexivity|].
    cbn [seq map]. f_equal; [lia|]. rewrite <- seq_shift, map_map.
    rewrite <- (IHW (S s)). apply map_ext. intros c. lia.
Qed.

Lemma map_grid (A : Type) (f : nat -> A) (H W : nat) :
  map f (seq 0 (H * W)) = flat_map (fun r => map (fun c => f (r * W + c)) (seq 0 W)) (seq 0 H).
Proof. rewrite grid_seq, map_flat_map. apply flat_map_ext_in. intros r _. rewrite map_map. reflexivity. Qed.

Lemma t_flatten_length (t : tens) : length (t_flatten t) = t_rows t * t_cols t.
Proof.
  unfold t_flatten. generalize (seq 0 (t_rows t)) (seq_length (t_rows t) 0).
  intros l. generalize (t_rows t). induction l as [|a l IH]; intros n Hn; cbn [flat_map length] in *; [lia|].
  destruct n as [|n]; [discriminate|]. injection Hn as Hn. rewrite app_length, map_length, seq_length, (IH n Hn). lia.
Qed.

(* two index tensors of the same shape, flattened side by side *)
Lemma combine_flatten (t1 t2 : tens) :
  t_rows t1 = t_rows t2 -> t_cols t1 = t_cols t2 ->
  combine (t_flatten t1) (t_flatten t2)
  = flat_map (fun r => map (fun c => (t_at t1 r c, t_at t2 r c)) (seq 0 (t_cols t1))) (seq 0 (t_rows t1)).
Proof.
  intros Hr Hc. unfold t_flatten. rewrite <- Hr, <- Hc. rewrite combine_flat_map.
  - apply flat_map_ext_in. intros r _. apply combine_map_same.
  - intros r. rewrite !map_length. reflexivity.
Qed.

Lemma divmod_rc (W r c : nat) : c < W -> (r * W + c) / W = r /\ (r * W + c) mod W = c.
Proof.
  intros Hc. split; symmetry; [apply (Nat.div_unique _ W r c) | apply (Nat.mod_unique _ W r c)]; lia.
Qed.

Lemma idx_at (H W r c : nat) : r < H -> c < W ->
  t_at (t_reshape H W (t_arange (H * W))) r c = r * W + c.
Proof.
  intros Hr Hc. unfold t_reshape, t_arange. cbn [t_at]. rewrite seq_nth by nia. reflexivity.
Qed.

Lemma rollpos_m1 (n i : nat) : i < n -> rollpos n (-1) i = (i + 1) mod n.
Proof.
  intros Hi. unfold rollpos. rewrite <- (Nat2Z.id ((i + 1) mod n)). f_equal. rewrite Nat2Z.inj_mod. f_equal. lia.
Qed.

Lemma filter_const (A : Type) (b : bool) (l : list A) : filter (fun _ => b) l = if b then l else [].
Proof. induction l as [|a l IH]; cbn [filter]; destruct b; try reflexivity; rewrite IH; reflexivity. Qed.

Lemma filter_seq_pred (n : nat) : filter (fun c => c + 1 <? n) (seq 0 n) = seq 0 (n - 1).
Proof.
  destruct n as [|n]; [reflexivity|]. replace (S n - 1) with n by lia.
  rewrite seq_S, filter_app. cbn [filter plus].
  replace (n + 1 <? S n) with false by (symmetry; apply Nat.ltb_ge; lia). rewrite app_nil_r.
  rewrite <- (filter_const true (seq 0 n)) at 2. apply filter_ext_in. intros c Hc. apply in_seq in Hc.
  apply Nat.ltb_lt. lia.
Qed.

Lemma flat_map_guard (A : Type) (g : nat -> list A) (n : nat) :
  flat_map (fun r => if r + 1 <? n then g r else []) (seq 0 n) = flat_map g (seq 0 (n - 1)).
Proof.
  destruct n as [|n]; [reflexivity|]. replace (S n - 1) with n by lia.
  rewrite seq_S, flat_map_app. cbn [flat_map plus].
  replace (n + 1 <? S n) with false by (symmetry; apply Nat.ltb_ge; lia). rewrite !app_nil_r.
  apply flat_map_ext_in. intros r Hr. apply in_seq in Hr.
  replace (r + 1 <? S n) with true by (symmetry; apply Nat.ltb_lt; lia). reflexivity.
Qed.

Lemma filter_map_comm (A B : Type) (f : A -> B) (p : B -> bool) (l : list A) :
  filter p (map f l) = map f (filter (fun a => p (f a)) l).
Proof.
  induction l as [|a l IH]; cbn [map filter]; [reflexivity|]. destruct (p (f a)); cbn [map]; rewrite IH; reflexivity.
Qed.

Section Grid.
  Variables (H W : nat).
  Local Notation idx := (t_reshape H W (t_arange (H * W))).

  (* wrap_around: idx.flatten() with torch.roll(idx, -1, 1).flatten() *)
  Lemma pairs_hor_wrap :
    combine (t_flatten idx) (t_flatten (t_roll (-1) 1 idx))
    = map (fun i => (i, (i / W) * W + (i mod W + 1) mod W)) (seq 0 (H * W)).
  Proof.
    rewrite combine_flatten by reflexivity. rewrite map_grid. cbn [t_rows t_cols t_reshape].
    apply flat_map_ext_in. intros r Hr. apply in_seq in Hr. apply map_ext_in. intros c Hc. apply in_seq in Hc.
    destruct (@divmod_rc W r c ltac:(lia)) as [E1 E2]. rewrite E1, E2.
    change (t_at (t_roll (-1) 1 idx) r c) with (t_at idx r (rollpos W (-1) c)).
    rewrite rollpos_m1 by lia.
    assert (Hm : (c + 1) mod W < W) by (apply Nat.mod_upper_bound; lia).
    rewrite !idx_at by lia. reflexivity.
  Qed.

  Lemma pairs_ver_wrap :
    combine (t_flatten idx) (t_flatten (t_roll (-1) 0 idx))
    = map (fun i => (i, ((i / W + 1) mod H) * W + i mod W)) (seq 0 (H * W)).
  Proof.
    rewrite combine_flatten by reflexivity. rewrite map_grid. cbn [t_rows t_cols t_reshape].
    apply flat_map_ext_in. intros r Hr. apply in_seq in Hr. apply map_ext_in. intros c Hc. apply in_seq in Hc.
    destruct (@divmod_rc W r c ltac:(lia)) as [E1 E2]. rewrite E1, E2.
    change (t_at (t_roll (-1) 0 idx) r c) with (t_at idx (rollpos H (-1) r) c).
    rewrite rollpos_m1 by lia.
    assert (Hm : (r + 1) mod H < H) by (apply Nat.mod_upper_bound; lia).
    rewrite !idx_at by lia. reflexivity.
  Qed.

  (* bounded: idx[:, :-1] with idx[:, 1:] *)
  Lemma pairs_hor_bounded :
    combine (t_flatten (t_slice None None None (Some (-1)%Z) idx)) (t_flatten (t_slice None None (Some 1%Z) None idx))
    = map (fun i => (i, i + 1)) (filter (fun i => i mod W + 1 <? W) (seq 0 (H * W))).
  Proof.
    set (t1 := t_slice None None None (Some (-1)%Z) idx). set (t2 := t_slice None None (Some 1%Z) None idx).
    assert (R1 : t_rows t1 = H) by (cbn; lia). assert (R2 : t_rows t2 = H) by (cbn; lia).
    assert (C1 : t_cols t1 = W - 1) by (cbn; lia). assert (C2 : t_cols t2 = W - 1) by (cbn; lia).
    assert (A1 : forall r c, t_at t1 r c = t_at idx r c) by reflexivity.
    assert (A2 : forall r c, t_at t2 r c = t_at idx r (Nat.min 1 W + c)) by reflexivity.
    rewrite combine_flatten by congruence. rewrite R1, C1.
    rewrite grid_seq, filter_flat_map, map_flat_map.
    apply flat_map_ext_in. intros r Hr. apply in_seq in Hr.
    rewrite filter_map_comm, map_map.
    rewrite (filter_ext_in (fun c => (r * W + c) mod W + 1 <? W) (fun c => c + 1 <? W)).
    2:{ intros c Hc. apply in_seq in Hc. destruct (@divmod_rc W r c ltac:(lia)) as [_ E2]. rewrite E2. reflexivity. }
    rewrite filter_seq_pred. apply map_ext_in. intros c Hc. apply in_seq in Hc.
    rewrite A1, A2, !idx_at by lia. f_equal. lia.
  Qed.

  (* bounded: idx[:-1, :] with idx[1:, :] *)
  Lemma pairs_ver_bounded :
    combine (t_flatten (t_slice None (Some (-1)%Z) None None idx)) (t_flatten (t_slice (Some 1%Z) None None None idx))
    = map (fun i => (i, i + W)) (filter (fun i => i / W + 1 <? H) (seq 0 (H * W))).
  Proof.
    set (t1 := t_slice None (Some (-1)%Z) None None idx). set (t2 := t_slice (Some 1%Z) None None None idx).
    assert (R1 : t_rows t1 = H - 1) by (cbn; lia). assert (R2 : t_rows t2 = H - 1) by (cbn; lia).
    assert (C1 : t_cols t1 = W) by (cbn; lia). assert (C2 : t_cols t2 = W) by (cbn; lia).
    assert (A1 : forall r c, t_at t1 r c = t_at idx r c) by reflexivity.
    assert (A2 : forall r c, t_at t2 r c = t_at idx (Nat.min 1 H + r) c) by reflexivity.
    rewrite combine_flatten by congruence. rewrite R1, C1.
    rewrite grid_seq, filter_flat_map, map_flat_map.
    rewrite <- flat_map_guard.
    apply flat_map_ext_in. intros r Hr. apply in_seq in Hr.
    rewrite filter_map_comm, map_map.
    rewrite (filter_ext_in (fun c => (r * W + c) / W + 1 <? H) (fun _ => r + 1 <? H)).
    2:{ intros c Hc. apply in_seq in Hc. destruct (@divmod_rc W r c ltac:(lia)) as [E1 _]. rewrite E1. reflexivity. }
    rewrite filter_const. destruct (Nat.ltb_spec (r + 1) H) as [Hlt|Hge]; [|reflexivity].
    apply map_ext_in. intros c Hc. apply in_seq in Hc.
    rewrite A1, A2, !idx_at by lia. f_equal. lia.
  Qed.

  Lemma idx_flatten_length : length (t_flatten idx) = H * W.
  Proof. rewrite t_flatten_length. reflexivity. Qed.
End Grid.

(* the model's grid_pairs from the code's four index-tensor pairs *)
Lemma grid_pairs_from_tensors (H W : nat) (wrap : bool) (m : nat -> bool) :
  let idx := t_reshape H W (t_arange (H * W)) in
  grid_pairs H W wrap m
  = if wrap
    then filter (pmask m) (combine (t_flatten idx) (t_flatten (t_roll (-1) 1 idx)))
         ++ filter (pmask m) (combine (t_flatten idx) (t_flatten (t_roll (-1) 0 idx)))
    else filter (pmask m) (combine (t_flatten (t_slice None None None (Some (-1)%Z) idx))
                                   (t_flatten (t_slice None None (Some 1%Z) None idx)))
         ++ filter (pmask m) (combine (t_flatten (t_slice None (Some (-1)%Z) None None idx))
                                      (t_flatten (t_slice (Some 1%Z) None None None idx))).
Proof.
  cbv zeta. unfold grid_pairs. destruct wrap.
  - rewrite pairs_hor_wrap, pairs_ver_wrap, <- filter_app. reflexivity.
  - rewrite pairs_hor_bounded, pairs_ver_bounded, <- filter_app. reflexivity.
Qed.

Lemma filter_true (A : Type) (l : list A) : filter (fun _ => true) l = l.
Proof. apply (filter_const true). Qed.

Lemma pmask_true (l : list (nat * nat)) : filter (pmask (fun _ => true)) l = l.
Proof. apply (filter_const true). Qed.

(* ================================================================ D. argsort + gather = the model's sort *)
Lemma insert_kv_payload (A B : Type) (f : A -> B) k a (l : list (Q * A)) :
  map (fun p => (fst p, f (snd p))) (insert_kv k a l) = insert_kv k (f a) (map (fun p => (fst p, f (snd p))) l).
Proof.
  induction l as [|[k' b] l IH]; cbn [insert_kv map fst snd]; [reflexivity|].
  destruct (Qle_bool k k'); cbn [map fst snd]; [reflexivity|]. rewrite IH. reflexivity.
Qed.

Lemma isort_kv_payload (A B : Type) (f : A -> B) (l : list (Q * A)) :
  isort_kv (map (fun p => (fst p, f (snd p))) l) = map (fun p => (fst p, f (snd p))) (isort_kv l).
Proof.
  unfold isort_kv. induction l as [|[k a] l IH]; cbn [map fold_right fst snd]; [reflexivity|].
  rewrite IH, insert_kv_payload. reflexivity.
Qed.

Lemma combine_keys_positions (A : Type) (key : A -> Q) (d0 : A) : forall (L pre : list A),
  map (fun p => (fst p, nth (snd p) (pre ++ L) d0)) (combine (map key L) (seq (length pre) (length L)))
  = map (fun a => (key a, a)) L.
Proof.
  induction L as [|a L IH]; intros pre; cbn [map combine seq length fst snd]; [reflexivity|].
  rewrite nth_middle. f_equal.
  specialize (IH (pre ++ [a])). rewrite <- app_assoc, app_length in IH. cbn [app length] in IH.
  rewrite Nat.add_1_r in IH. exact IH.
Qed.

(* i1[order], with order = rel.argsort(), on the columns of a list L of records = the model's
   stable sort of L by the key *)
Lemma gather_argsort (A B : Type) (f : A -> B) (key : A -> Q) (d : B) (L : list A) :
  gather (lget d (map f L)) (argsort (map key L)) = map f (sort_by key L).
Proof.
  destruct L as [|a0 L0]; [reflexivity|]. set (L := a0 :: L0).
  unfold gather, argsort, sort_by. rewrite map_length.
  pose proof (combine_keys_positions key a0 L []) as HC. cbn [app length] in HC. fold L in HC.
  set (C := combine (map key L) (seq 0 (length L))) in *.
  rewrite <- HC. rewrite (isort_kv_payload (fun i => nth i L a0) C), !map_map. cbn [snd].
  apply map_ext_in. intros [k i] Hin. cbn [snd].
  assert (Hi : i < length L).
  { apply (Permutation_in _ (isort_kv_perm C)) in Hin. unfold C in Hin.
    apply in_combine_r in Hin. apply in_seq in Hin. lia. }
  unfold lget. rewrite (nth_indep _ d (f a0)) by (rewrite map_length; exact Hi). apply map_nth.
Qed.

Definition kvrel (A : Type) (p q : Q * A) : Prop := (fst p == fst q)%Q /\ snd p = snd q.

Lemma insert_kv_rel (A : Type) k k' (a : A) l l' :
  (k == k')%Q -> Forall2 (@kvrel A) l l' -> Forall2 (@kvrel A) (insert_kv k a l) (insert_kv k' a l').
Proof.
  intros Hk HF. induction HF as [|[k1 b1] [k2 b2] l l' [E1 E2] HF IH]; cbn [insert_kv].
  - constructor; [split; [exact Hk | reflexivity] | constructor].
  - cbn [fst snd] in E1, E2. subst b2.
    assert (Eb : Qle_bool k k1 = Qle_bool k' k2) by (rewrite Hk, E1; reflexivity).
    rewrite Eb. destruct (Qle_bool k' k2).
    + constructor; [split; [exact Hk | reflexivity]|]. constructor; [split; [exact E1 | reflexivity] | exact HF].
    + constructor; [split; [exact E1 | reflexivity] | exact IH].
Qed.

Lemma isort_kv_rel (A : Type) (l l' : list (Q * A)) :
  Forall2 (@kvrel A) l l' -> Forall2 (@kvrel A) (isort_kv l) (isort_kv l').
Proof.
  unfold isort_kv. intros HF. induction HF as [|p q l l' [E1 E2] HF IH]; cbn [fold_right]; [constructor|].
  rewrite E2. apply insert_kv_rel; assumption.
Qed.

(* the sort only sees the keys up to Qeq (the model reduces its keys with Qred) *)
Lemma sort_by_qeq (A : Type) (key1 key2 : A -> Q) (L : list A) :
  (forall a, (key1 a == key2 a)%Q) -> sort_by key1 L = sort_by key2 L.
Proof.
  intros HK. unfold sort_by.
  assert (HF : Forall2 (@kvrel A) (isort_kv (map (fun a => (key1 a, a)) L)) (isort_kv (map (fun a => (key2 a, a)) L))).
  { apply isort_kv_rel. induction L as [|a L IH]; cbn [map]; constructor; [split; [apply HK | reflexivity] | exact IH]. }
  induction HF as [|p q l l' [_ E2] _ IH]; cbn [map]; [reflexivity|]. rewrite E2, IH. reflexivity.
Qed.

Lemma edge_key_qeq (rl : nat -> Q) (rll : list Q) (e : nat * nat) :
  (forall i, rl i = nth i rll 0%Q) -> (pkey rl e == edge_key rll e)%Q.
Proof. intros Hr. unfold pkey, edge_key. rewrite !Hr. symmetry. apply Qred_correct. Qed.

(* ================================================================ E. final assembly *)
Lemma map2_seq_nth (A : Type) (g : nat -> Q) (h : A -> Q) (d : A) : forall (l : list A) (s : nat),
  map2 Qplus (map g (seq s (length l))) (map h l) = map (fun i => (g i + h (nth (i - s) l d))%Q) (seq s (length l)).
Proof.
  induction l as [|a l IH]; intros s; cbn [length seq map map2]; [reflexivity|].
  rewrite Nat.sub_diag. cbn [nth]. f_equal. rewrite IH. apply map_ext_in. intros i Hi. apply in_seq in Hi.
  replace (i - s) with (S (i - S s)) by lia. reflexivity.
Qed.

(* phi.flatten() + 2*pi*incs, entry i = phi[i] + 2*pi*incs[i] (flat row-major pixel index) *)
Lemma assemble_eq (q : Q) (n : nat) (phi : nat -> Q) (offs : list Z) :
  length offs = n ->
  map2 Qplus (t_list n phi) (qscale q offs) = map (fun i => (phi i + q * inject_Z (nth i offs 0%Z))%Q) (seq 0 n).
Proof.
  intros <-. unfold t_list, qscale. rewrite (map2_seq_nth phi (fun k => (q * inject_Z k)%Q) 0%Z offs 0).
  apply map_ext. intros i. rewrite Nat.sub_0_r. reflexivity.
Qed.

(* ================================================================ loops over range(len) *)
Lemma upd_app_mid (A : Type) (v x : A) (done tl : list A) :
  upd (length done) v (done ++ x :: tl) = done ++ v :: tl.
Proof. induction done as [|a done IH]; cbn [length app upd]; [reflexivity|]. rewrite IH. reflexivity. Qed.

Lemma zip3_nth (a b : list nat) (c : list Z) (k : nat) :
  length a = length b -> length a = length c -> k < length a ->
  nth k (zip3 a b c) (0, 0, 0%Z) = (nth k a 0, nth k b 0, nth k c 0%Z).
Proof.
  unfold zip3. revert b c k. induction a as [|x a IH]; intros [|y b] [|z c] k Hb Hc Hk; cbn [length] in *; try lia.
  destruct k as [|k]; cbn [combine map2 nth fst snd]; [reflexivity|]. apply IH; lia.
Qed.

Lemma zip3_length (a b : list nat) (c : list Z) :
  length a = length b -> length a = length c -> length (zip3 a b c) = length a.
Proof.
  unfold zip3. revert b c. induction a as [|x a IH]; intros [|y b] [|z c] Hb Hc; cbn [length combine map2] in *; try lia.
  rewrite IH; lia.
Qed.

Lemma skipn_nth_cons (A : Type) (d : A) (l : list A) (k : nat) :
  k < length l -> skipn k l = nth k l d :: skipn (S k) l.
Proof.
  revert k. induction l as [|a l IH]; intros k Hk; cbn [length] in Hk; [lia|].
  destruct k as [|k]; [reflexivity|]. cbn [skipn nth]. rewrite (IH k) by lia. reflexivity.
Qed.

(* the three returned columns as one edge list *)
Lemma zip3_maps (L : list (nat * nat)) (f : nat * nat -> Z) :
  zip3 (map fst L) (map snd L) (map f L) = map (fun e => (fst e, snd e, f e)) L.
Proof. unfold zip3. induction L as [|e L IH]; cbn [map combine map2 fst snd]; [reflexivity|]. rewrite IH. reflexivity. Qed.
