(* C19 — last writer wins, with-blocks whose ARGUMENTS write the key itself: inside the block the
   key reads the block's value, after __exit__ (when it does not raise) it reads the value it had
   before the block — whatever other keys the block and its body wrote. *)
From QV.lib Require Import Prelude.
From QV.model Require Import C19_Model.
From QV.proof Require Import C19_Proofs_Keys C19_Proofs_Set C19_Proofs_Update C19_Proofs_Ctx C19_Proofs_Hist
  C19_Proofs_Last C19_Proofs_With.
From Coq Require Import String Ascii.

(* the undo step of a `replace` record puts the old value where get finds it under either spelling *)
Lemma restore_replace_get : forall p old d d' q,
  good (Node d) -> pure_path p -> pure_path q -> same_path p q -> p <> [] ->
  restore_replace p old d = inr d' -> get_path q (Node d') = inr old.
Proof.
  induction p as [|k p IH]; intros old d d' q G Pp Pq S Hp H; [congruence|].
  destruct q as [|qk qr]; [discriminate|]. unfold same_path in S. cbn [map] in S. injection S as En S.
  apply pure_path_cons in Pp. destruct Pp as [Pk Pp]. apply pure_path_cons in Pq. destruct Pq as [Pqk Pqr].
  destruct p as [|a p].
  - destruct qr; [|discriminate]. cbn [restore_replace] in H. inversion H; subst. cbn [get_path].
    pose proof (find_assign_same k qk old d (good_keys_of _ G) Pk Pqk En) as F. unfold find in F. rewrite F. reflexivity.
  - rewrite restore_replace_cons in H.
    destruct (lookup (canon k d) d) as [[z|sub]|] eqn:L.
    + destruct p; discriminate.
    + destruct (restore_replace (a :: p) old sub) as [e|s] eqn:R; [discriminate|]. inversion H; subst. cbn [get_path].
      pose proof (find_assign_same k qk (Node s) d (good_keys_of _ G) Pk Pqk En) as F. unfold find in F. rewrite F.
      exact (IH old sub s qr (good_lookup _ _ _ G L) Pp Pqr S ltac:(discriminate) R).
    + destruct (restore_replace (a :: p) old []) as [e|s] eqn:R; [discriminate|]. inversion H; subst. cbn [get_path].
      pose proof (find_assign_same k qk (Node s) d (good_keys_of _ G) Pk Pqk En) as F. unfold find in F. rewrite F.
      exact (IH old [] s qr good_nil Pp Pqr S ltac:(discriminate) R).
Qed.

Section With2.
  Variable validate : cfg -> err + string.

  (* an assignment to a key that can be read records that key (canonical spelling) and its value *)
  Lemma assign_path_rec_same : forall rest k v d d' p o qk qr x,
    good (Node d) -> pure k = true -> pure_path rest -> pure qk = true -> pure_path qr ->
    norm k = norm qk -> same_path rest qr ->
    get_path (qk :: qr) (Node d) = inr x ->
    assign_path k rest v d = inr (d', (p, o)) -> o = Some x /\ same_path p (qk :: qr) /\ p <> [].
  Proof.
    induction rest as [|k2 rest IH]; intros k v d d' p o qk qr x G Pk Pr Pq Pqr En S Hg H; cbn [assign_path] in H.
    - destruct qr; [|discriminate]. inversion H; subst.
      pose proof (find_same_norm k qk d (good_keys_of _ G) Pk Pq En) as FS. unfold find in FS.
      cbn [get_path] in Hg. rewrite <- FS in Hg.
      destruct (lookup (canon k d) d) as [c|]; [|discriminate]. inversion Hg; subst.
      split; [reflexivity|]. split; [|discriminate]. unfold same_path. cbn [map]. rewrite norm_canon, En. reflexivity.
    - destruct qr as [|q2 qr]; [discriminate|]. unfold same_path in S. cbn [map] in S. injection S as En2 S.
      apply pure_path_cons in Pr. destruct Pr as [Pk2 Pr]. apply pure_path_cons in Pqr. destruct Pqr as [Pq2 Pqr].
      pose proof (find_same_norm k qk d (good_keys_of _ G) Pk Pq En) as FS. unfold find in FS.
      cbn [get_path] in Hg. rewrite <- FS in Hg.
      destruct (lookup (canon k d) d) as [[z|sub]|] eqn:L; [discriminate| |discriminate].
      destruct (assign_path k2 rest v sub) as [e|[sub' [p0 o0]]] eqn:A; [discriminate|]. inversion H; subst.
      destruct (IH k2 v sub sub' p0 o q2 qr x (good_lookup _ _ _ G L) Pk2 Pr Pq2 Pqr En2 S Hg A) as [Eo [Sp _]].
      split; [exact Eo|]. split; [|discriminate]. unfold same_path in *. cbn [map]. rewrite norm_canon, En, Sp. reflexivity.
  Qed.

  Definition touches (q : list string) (key : string) : Prop :=
    diverge (path_of key) q \/ same_path (path_of key) q.

  Lemma set_item_rec_same key v d d' p o key' x :
    good (Node d) -> key_ok key -> key_ok key' -> same_path (path_of key) (path_of key') ->
    C19_Model.get key' d = inr x ->
    set_item validate key v d = inr (d', (p, o)) -> o = Some x /\ same_path p (path_of key') /\ p <> [].
  Proof.
    unfold key_ok, C19_Model.get, set_item. rewrite !path_of_split. intros G P P' S Hg H.
    destruct (check_key_val validate key v) as [e|v']; [discriminate|].
    destruct (split_dot key) as [k rest]. destruct (split_dot key') as [qk qr]. cbn [fst snd] in *.
    apply pure_path_cons in P. destruct P as [Pk Pr]. apply pure_path_cons in P'. destruct P' as [Pq Pqr].
    unfold same_path in S. cbn [map] in S. injection S as En S.
    exact (assign_path_rec_same rest k v' d d' p o qk qr x G Pk Pr Pq Pqr En S Hg H).
  Qed.

  Lemma set_item_get_some key v d d' rc key' x :
    good (Node d) -> key_ok key -> key_ok key' -> touches (path_of key') key ->
    C19_Model.get key' d = inr x ->
    set_item validate key v d = inr (d', rc) -> exists y, C19_Model.get key' d' = inr y.
  Proof.
    intros G Pk Pk' [D|S] Hg H.
    - exists x. rewrite (set_preserves_siblings validate key key' v d d' rc G Pk Pk' D H). exact Hg.
    - destruct (check_key_val validate key v) as [e|v'] eqn:C.
      + unfold set_item in H. rewrite C in H. discriminate.
      + exists v'. exact (get_set validate key key' v v' d d' rc G Pk Pk' S C H).
  Qed.

  (* the records of a call whose items write the key itself or other keys: undoing them (all of
     them, i.e. __exit__ does not raise) on any store that still reads the block's value brings
     the old value back *)
  Lemma set_items_undo_key l : forall d recs0 d1 recs1 key' x,
    good (Node d) -> items_ok l -> key_ok key' ->
    (forall key v, In (key, v) l -> touches (path_of key') key) ->
    C19_Model.get key' d = inr x ->
    set_items validate l d recs0 = (d1, recs1, None) ->
    exists new y, recs1 = recs0 ++ new /\ Forall rec_ok new /\ C19_Model.get key' d1 = inr y /\
      forall d1' d', good (Node d1') -> C19_Model.get key' d1' = inr y ->
        restore_all (rev new) d1' = (d', None) -> C19_Model.get key' d' = inr x.
  Proof.
    induction l as [|[key v] l IH]; intros d recs0 d1 recs1 key' x G Ok Pk' Ht Hg H; cbn [set_items] in H.
    - inversion H; subst. exists [], x. rewrite app_nil_r. repeat split; [constructor | exact Hg|].
      intros d1' d' _ Hg' R. cbn [rev restore_all] in R. inversion R; subst. exact Hg'.
    - inversion Ok as [|? ? [Hk Hv] Ok']; subst. cbn [fst snd] in *.
      destruct (set_item validate key v d) as [e1|[da ra]] eqn:S; [discriminate|].
      assert (Ga : good (Node da)) by exact (set_item_good validate _ _ _ _ _ G Hk Hv S).
      assert (Ra : rec_ok ra) by exact (set_item_rec_ok validate _ _ _ _ _ G Hk S).
      assert (Tk : touches (path_of key') key) by (apply (Ht key v); left; reflexivity).
      destruct (set_item_get_some key v d da ra key' x G Hk Pk' Tk Hg S) as [xa Hga].
      destruct (IH da (recs0 ++ [ra]) d1 recs1 key' xa Ga Ok' Pk' (fun k2 v2 I => Ht k2 v2 (or_intror I)) Hga H)
        as [new' [y [E [Rn [Hy Hu]]]]].
      exists (ra :: new'), y. split; [rewrite E, <- app_assoc; reflexivity|]. split; [constructor; assumption|].
      split; [exact Hy|]. intros d1' d' G1' Hg1' R. cbn [rev] in R. rewrite restore_all_app in R.
      destruct (restore_all (rev new') d1') as [db [eb|]] eqn:Rb; [discriminate|].
      pose proof (Hu d1' db G1' Hg1' Rb) as Hgb.
      assert (Gb : good (Node db)) by exact (restore_all_good (rev new') d1' db None (Forall_rev Rn) G1' Rb).
      cbn [restore_all] in R. destruct (restore1 ra db) as [e2|d2] eqn:R1; [discriminate|]. inversion R; subst d2.
      destruct ra as [p o]. destruct Ra as [Pp Ho]. cbn [fst snd] in *.
      destruct Tk as [D|Sm].
      + (* the item wrote another key: its undo step leaves the key alone *)
        assert (Ex : xa = x).
        { rewrite (set_preserves_siblings validate key key' v d da (p, o) G Hk Pk' D S) in Hga. congruence. }
        subst xa.
        pose proof (set_item_rec_diverge validate key v d da (p, o) key' x G Hk Pk' D Hg S) as Dv.
        unfold rec_div in Dv. cbn [fst] in Dv. unfold C19_Model.get in *.
        destruct o as [old|]; cbn [restore1] in R1.
        * exact (restore_replace_keeps p old db d' _ x Gb Pp Pk' Dv R1 Hgb).
        * exact (restore_insert_keeps p db d' _ x Gb Pp Pk' Dv R1 Hgb).
      + (* the item wrote the key: its record holds the value the key had before *)
        destruct (set_item_rec_same key v d da p o key' x G Hk Pk' Sm Hg S) as [-> [Sp Hne]].
        cbn [restore1] in R1. unfold C19_Model.get.
        exact (restore_replace_get p x db d' _ Gb Pp Pk' Sp Hne R1).
  Qed.

  Lemma set_call_undo_key arg kw d d1 recs key' x :
    good (Node d) -> arg_ok arg -> items_ok (kw_items kw) -> key_ok key' ->
    (forall key v, In (key, v) (set_args arg kw) -> touches (path_of key') key) ->
    C19_Model.get key' d = inr x ->
    set_call validate arg kw d = (d1, recs, None) ->
    Forall rec_ok recs /\ exists y, C19_Model.get key' d1 = inr y /\
      forall d1' d', good (Node d1') -> C19_Model.get key' d1' = inr y ->
        exit_call recs d1' = (d', None) -> C19_Model.get key' d' = inr x.
  Proof.
    intros G Ha Hk Pk' Ht Hg. unfold set_call, set_args, exit_call in *. destruct arg as [[z|l]|]; cbn [arg_ok app] in *.
    - discriminate.
    - destruct (set_items validate l d []) as [[d0 r0] [e0|]] eqn:S1; [discriminate|]. intros S2.
      destruct (set_items_undo_key l d [] d0 r0 key' x G Ha Pk' (fun k v I => Ht k v (in_or_app _ _ _ (or_introl I))) Hg S1)
        as [n1 [y1 [E1 [R1 [Hy1 Hu1]]]]]. cbn [app] in E1. subst r0.
      assert (G0 : good (Node d0)) by exact (set_items_good validate l _ _ _ _ _ G Ha S1).
      destruct (set_items_undo_key _ d0 n1 d1 recs key' y1 G0 Hk Pk' (fun k v I => Ht k v (in_or_app _ _ _ (or_intror I))) Hy1 S2)
        as [n2 [y2 [E2 [R2 [Hy2 Hu2]]]]]. subst recs.
      split; [apply Forall_app; split; assumption|]. exists y2. split; [exact Hy2|].
      intros d1' d' G1' Hg1' R. rewrite rev_app_distr, restore_all_app in R.
      destruct (restore_all (rev n2) d1') as [dm [em|]] eqn:Rm; [discriminate|].
      apply (Hu1 dm d'); [|exact (Hu2 d1' dm G1' Hg1' Rm) | exact R].
      exact (restore_all_good (rev n2) d1' dm None (Forall_rev R2) G1' Rm).
    - intros S.
      destruct (set_items_undo_key _ d [] d1 recs key' x G Hk Pk' Ht Hg S) as [n [y [E [R [Hy Hu]]]]].
      cbn [app] in E. subst recs. split; [exact R|]. exists y. split; [exact Hy | exact Hu].
  Qed.

  (* a with-block whose arguments write the key itself (any number of times, under either
     spelling) or other keys, whose body writes other keys, and whose __exit__ does not raise *)
  Definition shadows_ok (key' : string) (o : op) (s : store) : Prop :=
    match o with
    | Do _ => False
    | With arg kw body =>
        arg_ok arg /\ items_ok (kw_items kw) /\
        (forall key v, In (key, v) (set_args arg kw) -> touches (path_of key') key) /\
        Forall (no_write key') body /\
        exists c1 recs, set_call validate arg kw (conf s) = (c1, recs, None) /\
          snd (exit_call recs (conf (run_s validate body {| conf := c1; dflts := dflts s |}))) = None
    | WithX arg kw body =>
        arg_ok arg /\ items_ok (kw_items kw) /\
        (forall key v, In (key, v) (set_args arg kw) -> touches (path_of key') key) /\
        Forall (no_write key') body /\
        exists c1 recs, set_call validate arg kw (conf s) = (c1, recs, None) /\
          snd (exit_call recs (conf (fst (run_s_stop validate body {| conf := c1; dflts := dflts s |})))) = None
    end.

  Lemma shadows_ok_op_ok key' o s : shadows_ok key' o s -> op_ok o.
  Proof.
    destruct o as [o|arg kw body|arg kw body]; cbn [shadows_ok op_ok]; [intros []| |];
      intros [Ha [Hk [_ [Hb _]]]]; repeat split; try assumption;
      (eapply Forall_impl; [|exact Hb]); intros o; apply no_write_ok.
  Qed.

  Lemma shadow_preserves_get o s key' x :
    inv s -> shadows_ok key' o s -> key_ok key' -> nodev (path_of key') ->
    C19_Model.get key' (conf s) = inr x ->
    C19_Model.get key' (conf (fst (step validate o s))) = inr x.
  Proof.
    intros [Gc Gd] Sh Pk Nk Hg. destruct o as [o|arg kw body|arg kw body]; cbn [shadows_ok step] in *; [destruct Sh| |].
    - destruct Sh as [Ha [Hk [Ht [Hb [c1 [recs [S Ex]]]]]]]. rewrite S.
      destruct (set_call_undo_key arg kw (conf s) c1 recs key' x Gc Ha Hk Pk Ht Hg S) as [R [y [Hy Hu]]].
      destruct (set_call_good validate _ _ _ _ _ _ Gc Ha Hk S) as [G1 _].
      set (s1 := {| conf := c1; dflts := dflts s |}) in *.
      assert (I1 : inv s1) by (split; assumption).
      pose proof (run_s_inv validate body s1 I1 (Forall_impl _ (no_write_ok key') Hb)) as [G2 _].
      pose proof (run_s_preserves_get validate body s1 key' y I1 Hb Pk Nk Hy) as Hg2.
      destruct (exit_call recs (conf (run_s validate body s1))) as [c3 e3] eqn:E. cbn [snd] in Ex. subst e3.
      cbn [fst conf]. exact (Hu _ c3 G2 Hg2 E).
    - destruct Sh as [Ha [Hk [Ht [Hb [c1 [recs [S Ex]]]]]]]. rewrite S.
      destruct (set_call_undo_key arg kw (conf s) c1 recs key' x Gc Ha Hk Pk Ht Hg S) as [R [y [Hy Hu]]].
      destruct (set_call_good validate _ _ _ _ _ _ Gc Ha Hk S) as [G1 _].
      set (s1 := {| conf := c1; dflts := dflts s |}) in *.
      assert (I1 : inv s1) by (split; assumption).
      pose proof (run_s_stop_inv validate body s1 I1 (Forall_impl _ (no_write_ok key') Hb)) as I2.
      pose proof (run_s_stop_preserves_get validate body s1 key' y I1 Hb Pk Nk Hy) as Hg2.
      destruct (run_s_stop validate body s1) as [s2 eb]. cbn [fst] in *. destruct I2 as [G2 _].
      destruct (exit_call recs (conf s2)) as [c3 e3] eqn:E. cbn [snd] in Ex. subst e3.
      cbn [fst conf]. exact (Hu _ c3 G2 Hg2 E).
  Qed.

  (* statements after the set, each either writing other keys only (anything may raise) or a
     with-block that shadows the key and exits cleanly *)
  Fixpoint quiet (key' : string) (post : list op) (s : store) : Prop :=
    match post with
    | [] => True
    | o :: r => (no_write_op key' o \/ shadows_ok key' o s) /\ quiet key' r (fst (step validate o s))
    end.

  Lemma quiet_preserves_get post : forall s key' x,
    inv s -> quiet key' post s -> key_ok key' -> nodev (path_of key') ->
    C19_Model.get key' (conf s) = inr x ->
    C19_Model.get key' (conf (run validate post s)) = inr x.
  Proof.
    induction post as [|o post IH]; intros s key' x I Q Pk Nk Hg; cbn [run]; [exact Hg|].
    cbn [quiet] in Q. destruct Q as [Qo Q]. apply IH; try assumption.
    - apply step_inv; [exact I|]. destruct Qo as [N|Sh]; [exact (no_write_op_ok _ _ N) | exact (shadows_ok_op_ok _ _ _ Sh)].
    - destruct Qo as [N|Sh]; [apply op_preserves_get | apply shadow_preserves_get]; assumption.
  Qed.

  Theorem get_last_writer_shadow s1 key v v' d2 r key' post :
    inv s1 ->
    key_ok key -> good v -> key_ok key' -> nodev (path_of key') ->
    same_path (path_of key) (path_of key') ->
    check_key_val validate key v = inr v' ->
    set_item validate key v (conf s1) = inr (d2, r) ->
    quiet key' post {| conf := d2; dflts := dflts s1 |} ->
    C19_Model.get key' (conf (run validate post {| conf := d2; dflts := dflts s1 |})) = inr v'.
  Proof.
    intros [Gc Gd] Pk Gv Pk' Nk Sp C S Q.
    apply quiet_preserves_get; try assumption.
    - split; cbn [conf dflts]; [|exact Gd]. exact (set_item_good validate _ _ _ _ _ Gc Pk Gv S).
    - cbn [conf]. exact (get_set validate key key' v v' (conf s1) d2 r Gc Pk Pk' Sp C S).
  Qed.
End With2.
