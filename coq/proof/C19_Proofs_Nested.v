(* C19 — the "new-defaults" rule of update_defaults for keys at ANY depth, by induction on the
   tree of the new defaults: a leaf of `new` takes the new value iff the entry was absent (also:
   hidden below a scalar, which update replaces by a dict) or still equal to the value the
   accumulated defaults give it; a value the user changed is kept. *)
From QV.lib Require Import Prelude.
From QV.model Require Import C19_Model.
From QV.proof Require Import C19_Proofs_Keys C19_Proofs_Set C19_Proofs_Update C19_Proofs_Ctx C19_Proofs_Hist
  C19_Proofs_Last.
From Coq Require Import String Ascii.

Definition ok_of (g : err + cfg) : option cfg := match g with inr v => Some v | inl _ => None end.

(* what a leaf x of the new defaults leaves in the store: g = the entry before, dg = the value of
   the accumulated defaults at that path *)
Definition nd_res (g dg : option cfg) (x : jval) : cfg :=
  match g with
  | None => Leaf x
  | Some ov => match dg with
               | Some dvv => if cfg_eqb dvv ov then Leaf x else ov
               | None => ov
               end
  end.

Definition dv_at (q : list string) (dv : dview) : option cfg :=
  match dv with Some c => ok_of (get_path q c) | None => None end.

Definition dv_good (dv : dview) : Prop := match dv with Some c => good c | None => True end.

Section Nested.
  Variable validate : cfg -> err + string.

  Lemma get_path_leaf_nonempty k r y : ok_of (get_path (k :: r) (Leaf y)) = None.
  Proof. reflexivity. Qed.

  Lemma get_path_nil_nonempty k r : ok_of (get_path (k :: r) (Node [])) = None.
  Proof. reflexivity. Qed.

  (* the comparison made at a leaf: dmatch, when it does not raise, is the comparison with the
     default found under either spelling *)
  Lemma dmatch_spec dv k' qk' ov b :
    dv_good dv -> pure k' = true -> pure qk' = true -> norm k' = norm qk' ->
    dmatch dv k' ov = inr b ->
    b = match dv_at [qk'] dv with Some dvv => cfg_eqb dvv ov | None => false end.
  Proof.
    intros Gd Pk Pq En. unfold dmatch, dkey, dv_at.
    destruct dv as [[y|l]|]; cbn [dv_truthy].
    - cbn [get_path ok_of]. intros H. destruct (py_truthy y); [|inversion H; reflexivity].
      destruct y as [| | |s]; try discriminate H.
      match type of H with context [if ?c then _ else _] => destruct c end; [discriminate H|].
      inversion H; reflexivity.
    - cbn [dv_good] in Gd. cbn [get_path].
      change (lookup (canon qk' l) l) with (find qk' l).
      assert (E : lookup (canon k' l) l = find qk' l).
      { change (lookup (canon k' l) l) with (find k' l).
        apply (find_same_norm k' qk' l (good_keys_of _ Gd) Pk Pq En). }
      destruct l as [|kv0 l0] eqn:El.
      + intros H; inversion H. reflexivity.
      + rewrite <- El in *. rewrite E. destruct (find qk' l) as [dx|]; cbn [get_path ok_of]; intros H; inversion H; reflexivity.
    - intros H; inversion H. reflexivity.
  Qed.

  (* the defaults view handed one level down *)
  Lemma dsub_spec dv k' qk' qr dv' :
    dv_good dv -> pure k' = true -> pure qk' = true -> norm k' = norm qk' -> qr <> [] ->
    dsub dv k' = inr dv' ->
    dv_good dv' /\ dv_at (qk' :: qr) dv = dv_at qr dv'.
  Proof.
    intros Gd Pk Pq En Hr. unfold dsub, dkey, dv_at.
    destruct qr as [|q2 qr]; [congruence|].
    destruct dv as [[y|l]|]; cbn [dv_truthy].
    - destruct (py_truthy y); [discriminate|]. intros H; inversion H; subst. split; [exact I | reflexivity].
    - cbn [dv_good] in Gd.
      assert (E : lookup (canon k' l) l = find qk' l).
      { change (lookup (canon k' l) l) with (find k' l).
        apply (find_same_norm k' qk' l (good_keys_of _ Gd) Pk Pq En). }
      destruct l as [|kv0 l0] eqn:El.
      + intros H; inversion H; subst. split; [exact I | reflexivity].
      + rewrite <- El in *. rewrite E. intros H; injection H as <-. split.
        * destruct (find qk' l) as [c|] eqn:F; [|exact I]. cbn [dv_good]. exact (good_lookup _ _ _ Gd F).
        * cbn [get_path]. change (lookup (canon qk' l) l) with (find qk' l).
          destruct (find qk' l) as [c|]; reflexivity.
    - intros H; inversion H; subst. split; [exact I | reflexivity].
  Qed.

  (* ------------------------------------------------------------ the rule, for update itself *)
  Lemma update_nd_get : forall new, good new -> forall old dv old' q q' x,
    good (Node old) -> dv_good dv -> pure_path q -> pure_path q' -> nodev q -> same_path q q' -> q <> [] ->
    get_path q new = inr (Leaf x) ->
    update_cfg validate PNewDefaults new old dv = (old', None) ->
    get_path q' (Node old') = inr (nd_res (ok_of (get_path q' (Node old))) (dv_at q' dv) x).
  Proof.
    induction new as [y|l IHl] using cfg_ind'; intros Gn old dv old' q q' x G Gd Pq Pq' Nq Sq Hq Hg H.
    - destruct q; [congruence|discriminate].
    - destruct q as [|qk qr]; [congruence|]. destruct q' as [|qk' qr']; [discriminate|].
      unfold same_path in Sq. cbn [map] in Sq. injection Sq as En Sr.
      apply pure_path_cons in Pq. destruct Pq as [Pqk Pqr]. apply pure_path_cons in Pq'. destruct Pq' as [Pqk' Pqr'].
      inversion Nq as [|? ? Nqk Nqr]; subst.
      cbn [get_path] in Hg. remember (canon qk l) as k eqn:Hk.
      assert (Ek : norm k = norm qk) by (rewrite Hk; apply norm_canon). clear Hk.
      destruct (lookup k l) as [c|] eqn:L; [|discriminate].
      destruct (lookup_split _ _ _ L) as [l1 [l2 El]]. clear L.
      rewrite El in Gn, H, IHl. destruct (good_app_inv _ _ _ _ Gn) as [G1 [G2 [N1 N2]]].
      destruct (good_cons_inv _ _ _ G2) as [Pk [Gc Gl2]].
      apply Forall_app in IHl. destruct IHl as [_ IHl]. inversion IHl as [|? ? IHc _]; subst. cbn [snd] in IHc.
      rewrite update_app in H.
      destruct (update_cfg validate PNewDefaults (Node l1) old dv) as [o1 [e1|]] eqn:U1; [discriminate|].
      assert (Go1 : good (Node o1)) by exact (update_good validate _ G1 _ _ _ _ _ G U1).
      assert (N1' : forall k2 v2, In (k2, v2) l1 -> norm k2 <> norm k) by exact N1.
      destruct (update_frame validate PNewDefaults k l1 _ _ _ _ N1' U1) as [F1 _].
      rewrite update_cons in H. cbv zeta in H.
      set (k' := canon k o1) in *.
      set (r := entry_val validate PNewDefaults k c k' (lookup k' o1) dv) in *.
      destruct (snd r) as [e2|] eqn:Er; [discriminate|].
      assert (N2' : forall k2 v2, In (k2, v2) l2 -> norm k2 <> norm qk').
      { intros k2 v2 I. rewrite <- En, <- Ek. exact (N2 k2 v2 I). }
      destruct (update_frame validate PNewDefaults qk' l2 _ _ _ _ N2' H) as [F _].
      rewrite (get_path_find qk' qr' _ _ F).
      cbn [get_path]. fold (find qk' (put k' (fst r) o1)). unfold k'.
      rewrite (find_put_same k (fst r) o1 qk' Go1 Pk Pqk' (eq_trans Ek En)). fold k'.
      assert (Kd : k <> "device"%string).
      { intros E. apply Nqk. rewrite <- Ek, E. reflexivity. }
      (* the entry before the call, seen from the query spelling *)
      assert (Ef : lookup k' o1 = find qk' old).
      { change (lookup k' o1) with (find k o1). rewrite F1.
        exact (find_same_norm k qk' old (good_keys_of _ G) Pk Pqk' (eq_trans Ek En)). }
      assert (Pk' : pure k' = true) by (apply pure_canon; [apply good_keys_of; exact Go1 | exact Pk]).
      assert (Enk' : norm k' = norm qk') by (unfold k'; rewrite norm_canon; congruence).
      change (lookup (canon qk' old) old) with (find qk' old).
      unfold r, entry_val in *. rewrite (check_dev_other validate k c Kd) in *.
      rewrite Ef in *.
      destruct c as [y|lc].
      + destruct qr as [|q2 qr]; [|discriminate]. destruct qr' as [|? ?]; [|discriminate].
        cbn [get_path] in Hg. inversion Hg; subst y. unfold leaf_val in *.
        destruct (find qk' old) as [ov|] eqn:Fo; cbn [fst snd get_path ok_of nd_res]; [|reflexivity].
        destruct (dmatch dv k' ov) as [e3|b] eqn:Dm; [cbn [snd] in Er; discriminate|].
        rewrite (dmatch_spec dv k' qk' ov b Gd Pk' Pqk' Enk' Dm).
        destruct (dv_at [qk'] dv) as [dvv|]; [|reflexivity]. destruct (cfg_eqb dvv ov); reflexivity.
      + destruct qr as [|q2 qr]; [discriminate|]. destruct qr' as [|q2' qr']; [discriminate|].
        destruct (dsub dv k') as [e3|dv'] eqn:Ds; [cbn [snd] in Er; discriminate|].
        destruct (dsub_spec dv k' qk' (q2' :: qr') dv' Gd Pk' Pqk' Enk' ltac:(discriminate) Ds) as [Gd' Edv].
        destruct (update_cfg validate PNewDefaults (Node lc) (subof (find qk' old)) dv') as [sub' e3] eqn:U.
        cbn [fst snd] in *. subst e3. cbn [get_path]. rewrite Edv.
        assert (Gs : good (Node (subof (find qk' old)))).
        { destruct (find qk' old) as [[z|ol]|] eqn:Lo; cbn [subof]; try exact good_nil.
          unfold find in Lo. exact (good_lookup _ _ _ G Lo). }
        pose proof (IHc Gc _ dv' sub' (q2 :: qr) (q2' :: qr') x Gs Gd' Pqr Pqr' Nqr Sr ltac:(discriminate) Hg U) as IH1.
        cbn [get_path] in IH1 |- *. rewrite IH1.
        destruct (find qk' old) as [[z|ol]|]; reflexivity.
  Qed.

  (* ------------------------------------------------------------ check_items leaves other keys alone *)
  Lemma check_items_lookup new : forall new' k,
    check_items validate new = inr new' -> k <> "device"%string -> lookup k new' = lookup k new.
  Proof.
    induction new as [|[k0 v0] new IH]; intros new' k H Kd; cbn [check_items] in H.
    - inversion H; reflexivity.
    - destruct (check_key_val validate k0 v0) as [e|v'] eqn:C; [discriminate|].
      destruct (check_items validate new) as [e|r'] eqn:R; [discriminate|]. inversion H; subst.
      cbn [lookup]. destruct (String.eqb_spec k k0) as [->|Hk].
      + unfold check_key_val in C. rewrite (check_dev_other validate k0 v0 Kd) in C. inversion C; reflexivity.
      + exact (IH r' k eq_refl Kd).
  Qed.

  Lemma mem_keys k (a b : items) : map fst a = map fst b -> mem k a = mem k b.
  Proof.
    intros E. destruct (mem k a) eqn:Ma.
    - symmetry. apply mem_true_In. rewrite <- E. apply mem_true_In. exact Ma.
    - symmetry. apply mem_false_notin. rewrite <- E. apply mem_false_notin. exact Ma.
  Qed.

  Lemma check_items_get new new' q :
    good (Node new) -> check_items validate new = inr new' -> nodev q -> q <> [] ->
    get_path q (Node new') = get_path q (Node new).
  Proof.
    intros Gn C Nq Hq. destruct q as [|qk qr]; [congruence|]. inversion Nq as [|? ? Nqk _]; subst.
    destruct (check_items_good validate _ _ Gn C) as [_ Ek]. cbn [get_path].
    assert (Ec : canon qk new' = canon qk new).
    { unfold canon. rewrite (mem_keys qk _ _ Ek), (mem_keys (alt_name qk) _ _ Ek). reflexivity. }
    rewrite Ec. rewrite (check_items_lookup new new' (canon qk new) C); [reflexivity|].
    intros E. apply Nqk. rewrite <- (norm_canon qk new), E. reflexivity.
  Qed.

  (* ------------------------------------------------------------ update_defaults, keys at any depth *)
  Theorem update_defaults_rule_nested new s s' :
    inv s -> good (Node new) -> update_defaults validate new s = (s', None) ->
    exists new' cur,
      check_items validate new = inr new' /\ merge validate (dflts s) = (cur, None) /\
      dflts s' = dflts s ++ [new'] /\
      forall q q' x, pure_path q -> pure_path q' -> nodev q -> same_path q q' -> q <> [] ->
        get_path q (Node new) = inr (Leaf x) ->
        get_path q' (Node (conf s')) =
          inr (nd_res (ok_of (get_path q' (Node (conf s)))) (ok_of (get_path q' (Node cur))) x).
  Proof.
    intros [Gc Gd] Gn. unfold update_defaults.
    destruct (check_items validate new) as [e1|new'] eqn:C; [discriminate|].
    destruct (check_items_good validate _ _ Gn C) as [Gn' _].
    destruct (merge validate (dflts s)) as [cur [e1|]] eqn:M; [discriminate|].
    assert (Gcur : good (Node cur)) by exact (merge_from_good validate _ _ _ _ good_nil Gd M).
    unfold update_items.
    destruct (update_cfg validate PNewDefaults (Node new') (conf s) (Some (Node cur))) as [c' e1] eqn:U.
    intros H. inversion H; subst. exists new', cur. repeat split; try reflexivity. cbn [conf].
    intros q q' x Pq Pq' Nq Sq Hq Hg.
    rewrite <- (check_items_get new new' q Gn C Nq Hq) in Hg.
    exact (update_nd_get (Node new') Gn' (conf s) (Some (Node cur)) c' q q' x Gc Gcur Pq Pq' Nq Sq Hq Hg U).
  Qed.
End Nested.
