(* C19 — invariants of every reachable store: one spelling per dict (all histories of set /
   update_defaults / refresh / with-blocks, including calls that raise half-way), the stored
   device is a validated one; rejected device requests change nothing *)
From QV.lib Require Import Prelude.
From QV.model Require Import C19_Model.
From QV.proof Require Import C19_Proofs_Keys C19_Proofs_Set C19_Proofs_Update C19_Proofs_Ctx.
From Coq Require Import String Ascii.

Definition goods (ds : list items) : Prop := Forall (fun d => good (Node d)) ds.
Definition inv (s : store) : Prop := good (Node (conf s)) /\ goods (dflts s).

(* well-formed arguments: pure spellings, mapping values that spell each key once *)
Definition arg_ok (arg : option cfg) : Prop :=
  match arg with Some (Node l) => items_ok l | _ => True end.
Definition sop_ok (o : sop) : Prop :=
  match o with
  | SSet arg kw => arg_ok arg /\ items_ok (kw_items kw)
  | SUpd new => good (Node new)
  | SRefresh yaml => goods yaml
  end.
Definition op_ok (o : op) : Prop :=
  match o with
  | Do o => sop_ok o
  | With arg kw body | WithX arg kw body => arg_ok arg /\ items_ok (kw_items kw) /\ Forall sop_ok body
  end.

Lemma inv_empty : inv empty_store.
Proof. split; [exact good_nil | constructor]. Qed.

Section Hist.
  Variable validate : cfg -> err + string.

  (* ------------------------------------------------------------ one spelling: every statement *)
  Lemma set_call_good arg kw d d' recs e :
    good (Node d) -> arg_ok arg -> items_ok (kw_items kw) ->
    set_call validate arg kw d = (d', recs, e) -> good (Node d') /\ Forall (rec_ok) recs.
  Proof.
    intros G Ha Hk. unfold set_call. destruct arg as [[x|l]|]; cbn [arg_ok] in Ha.
    - intros H. inversion H; subst. split; [exact G | constructor].
    - destruct (set_items validate l d []) as [[d0 r0] e0] eqn:S1.
      assert (G0 : good (Node d0)) by exact (set_items_good validate l _ _ _ _ _ G Ha S1).
      assert (R0 : Forall rec_ok r0) by exact (set_items_recs_ok validate l _ _ _ _ _ G Ha (Forall_nil _) S1).
      destruct e0 as [e0|].
      + intros H. inversion H; subst. split; assumption.
      + intros S2. split.
        * exact (set_items_good validate _ _ _ _ _ _ G0 Hk S2).
        * exact (set_items_recs_ok validate _ _ _ _ _ _ G0 Hk R0 S2).
    - intros S. split.
      + exact (set_items_good validate _ _ _ _ _ _ G Hk S).
      + exact (set_items_recs_ok validate _ _ _ _ _ _ G Hk (Forall_nil _) S).
  Qed.

  Lemma merge_from_good ds : forall acc r e,
    good (Node acc) -> goods ds -> merge_from validate acc ds = (r, e) -> good (Node r).
  Proof.
    induction ds as [|d ds IH]; intros acc r e G Gs H; cbn [merge_from] in H.
    - inversion H; subst. exact G.
    - inversion Gs as [|? ? Gd Gs']; subst. unfold update_items in H.
      destruct (update_cfg validate PNew (Node d) acc None) as [acc' e1] eqn:U.
      assert (G' : good (Node acc')) by exact (update_good validate _ Gd _ _ _ _ _ G U).
      destruct e1 as [e1|]; [inversion H; subst; exact G' | exact (IH _ _ _ G' Gs' H)].
  Qed.

  Lemma check_items_good new : forall new',
    good (Node new) -> check_items validate new = inr new' ->
    good (Node new') /\ map fst new' = map fst new.
  Proof.
    induction new as [|[k v] new IH]; intros new' G H; cbn [check_items] in H.
    - inversion H; subst. split; [exact G | reflexivity].
    - destruct (check_key_val validate k v) as [e|v'] eqn:C; [discriminate|].
      destruct (check_items validate new) as [e|r'] eqn:R; [discriminate|]. inversion H; subst.
      destruct (good_cons_inv _ _ _ G) as [Pk [Gv Gn]]. destruct (IH r' Gn eq_refl) as [Gr Ek].
      split; [|cbn [map fst]; rewrite Ek; reflexivity].
      inversion Gr as [|? HP ND HF]; subst. inversion G as [|? _ ND0 _]; subst.
      constructor.
      + constructor; [exact Pk | exact HP].
      + cbn [map fst] in *. rewrite <- (map_map fst norm) in *. rewrite Ek. exact ND0.
      + constructor; [exact (check_good validate _ _ _ Gv C) | exact HF].
  Qed.

  Lemma update_defaults_inv new s s' e :
    inv s -> good (Node new) -> update_defaults validate new s = (s', e) -> inv s'.
  Proof.
    intros [Gc Gd] Gn. unfold update_defaults.
    destruct (check_items validate new) as [e1|new'] eqn:C; [intros H; inversion H; subst; split; assumption|].
    destruct (check_items_good _ _ Gn C) as [Gn' _].
    destruct (merge validate (dflts s)) as [cur [e1|]]; [intros H; inversion H; subst; split; assumption|].
    unfold update_items.
    destruct (update_cfg validate PNewDefaults (Node new') (conf s) (Some (Node cur))) as [c' e1] eqn:U.
    intros H. inversion H; subst. split; cbn [conf dflts].
    - exact (update_good validate _ Gn' _ _ _ _ _ Gc U).
    - apply Forall_app. split; [exact Gd | constructor; [exact Gn' | constructor]].
  Qed.

  Lemma refresh_inv yaml s s' e :
    inv s -> goods yaml -> refresh validate yaml s = (s', e) -> inv s'.
  Proof.
    intros [Gc Gd] Gy. unfold refresh.
    destruct (merge_from validate [] (dflts s)) as [c1 e1] eqn:M1.
    assert (G1 : good (Node c1)) by exact (merge_from_good _ _ _ _ good_nil Gd M1).
    destruct e1 as [e1|]; [intros H; inversion H; subst; split; assumption|].
    destruct (merge validate yaml) as [cy e2] eqn:M2.
    assert (Gcy : good (Node cy)) by exact (merge_from_good _ _ _ _ good_nil Gy M2).
    destruct e2 as [e2|]; [intros H; inversion H; subst; split; assumption|].
    unfold update_items. destruct (update_cfg validate PNew (Node cy) c1 None) as [c2 e3] eqn:U.
    intros H. inversion H; subst. split; [|exact Gd]. exact (update_good validate _ Gcy _ _ _ _ _ G1 U).
  Qed.

  Lemma step_s_inv o s : inv s -> sop_ok o -> inv (fst (step_s validate o s)).
  Proof.
    intros I Ok. destruct o as [arg kw|new|yaml]; cbn [step_s sop_ok] in *.
    - destruct Ok as [Ha Hk]. destruct (set_call validate arg kw (conf s)) as [[c' recs] e] eqn:S.
      destruct I as [Gc Gd]. split; cbn [fst conf dflts]; [|exact Gd].
      exact (proj1 (set_call_good _ _ _ _ _ _ Gc Ha Hk S)).
    - destruct (update_defaults validate new s) as [s' e] eqn:U. exact (update_defaults_inv _ _ _ _ I Ok U).
    - destruct (refresh validate yaml s) as [s' e] eqn:R. exact (refresh_inv _ _ _ _ I Ok R).
  Qed.

  Lemma run_s_inv body : forall s, inv s -> Forall sop_ok body -> inv (run_s validate body s).
  Proof.
    induction body as [|o body IH]; intros s I Ok; cbn [run_s]; [exact I|].
    inversion Ok; subst. apply IH; [apply step_s_inv|]; assumption.
  Qed.

  Lemma run_s_stop_inv body : forall s, inv s -> Forall sop_ok body -> inv (fst (run_s_stop validate body s)).
  Proof.
    induction body as [|o body IH]; intros s I Ok; cbn [run_s_stop]; [exact I|].
    inversion Ok as [|? ? Ho Ok']; subst. pose proof (step_s_inv o s I Ho) as I1.
    destruct (step_s validate o s) as [s1 [e|]]; cbn [fst] in *; [exact I1 | exact (IH s1 I1 Ok')].
  Qed.

  Lemma exit_inv recs s2 :
    inv s2 -> Forall rec_ok recs ->
    inv {| conf := fst (exit_call recs (conf s2)); dflts := dflts s2 |}.
  Proof.
    intros [Gc Gd] R. split; cbn [conf dflts]; [|exact Gd]. unfold exit_call.
    destruct (restore_all (rev recs) (conf s2)) as [c3 e] eqn:E. cbn [fst].
    apply (restore_all_good (rev recs) _ _ _ (Forall_rev R) Gc E).
  Qed.

  Lemma step_inv o s : inv s -> op_ok o -> inv (fst (step validate o s)).
  Proof.
    intros I Ok. destruct o as [o|arg kw body|arg kw body]; cbn [step op_ok] in *.
    - apply step_s_inv; assumption.
    - destruct Ok as [Ha [Hk Hb]]. destruct (set_call validate arg kw (conf s)) as [[c1 recs] e] eqn:S.
      destruct I as [Gc Gd]. destruct (set_call_good _ _ _ _ _ _ Gc Ha Hk S) as [G1 R].
      destruct e as [e|]; [split; assumption|].
      pose proof (run_s_inv body {| conf := c1; dflts := dflts s |} (conj G1 Gd) Hb) as I2.
      pose proof (exit_inv recs _ I2 R) as I3.
      destruct (exit_call recs (conf (run_s validate body {| conf := c1; dflts := dflts s |}))); exact I3.
    - destruct Ok as [Ha [Hk Hb]]. destruct (set_call validate arg kw (conf s)) as [[c1 recs] e] eqn:S.
      destruct I as [Gc Gd]. destruct (set_call_good _ _ _ _ _ _ Gc Ha Hk S) as [G1 R].
      destruct e as [e|]; [split; assumption|].
      pose proof (run_s_stop_inv body {| conf := c1; dflts := dflts s |} (conj G1 Gd) Hb) as I2.
      destruct (run_s_stop validate body {| conf := c1; dflts := dflts s |}) as [s2 eb]. cbn [fst] in I2.
      pose proof (exit_inv recs _ I2 R) as I3.
      destruct (exit_call recs (conf s2)); exact I3.
  Qed.

  Lemma run_inv ops : forall s, inv s -> Forall op_ok ops -> inv (run validate ops s).
  Proof.
    induction ops as [|o ops IH]; intros s I Ok; cbn [run]; [exact I|].
    inversion Ok; subst. apply IH; [apply step_inv|]; assumption.
  Qed.

  (* no dict of any reachable store holds both spellings of a key *)
  Theorem one_spelling_inv ops :
    Forall op_ok ops -> inv (run validate ops empty_store).
  Proof. intros Ok. apply run_inv; [exact inv_empty | exact Ok]. Qed.

  (* ------------------------------------------------------------ the stored device *)
  Definition valid_dev (s : string) : Prop := s = "cpu"%string \/ exists v, validate v = inr s.
  Definition devval (c : cfg) : Prop :=
    match c with Node _ => True | Leaf x => exists s, x = JStr s /\ valid_dev s end.
  Definition dev_ok (d : items) : Prop := forall c, In ("device"%string, c) d -> devval c.
  Definition rec_dev (r : crec) : Prop :=
    forall old, snd r = Some old -> fst r = ["device"%string] -> devval old.

  Lemma check_dev_valid v o : check_dev validate "device" v = inr o -> exists s, o = Some s /\ valid_dev s.
  Proof.
    unfold check_dev. cbn [String.eqb Ascii.eqb Bool.eqb]. destruct (cpu_request v).
    - intros H. inversion H; subst. exists "cpu"%string. split; [reflexivity | left; reflexivity].
    - destruct (validate v) as [e|s] eqn:V; [discriminate|]. intros H. inversion H; subst.
      exists s. split; [reflexivity | right; exists v; exact V].
  Qed.

  Lemma canon_device k d : canon k d = "device"%string -> k = "device"%string.
  Proof. intros H. apply norm_eq_device. rewrite <- (norm_canon k d), H. reflexivity. Qed.

  Lemma dev_ok_assign k v d : dev_ok d -> (k = "device"%string -> devval v) -> dev_ok (assign k v d).
  Proof.
    intros D Hv c I. destruct (In_assign_inv _ _ _ _ _ I) as [[E ->]|I']; [apply Hv; congruence | exact (D c I')].
  Qed.

  Lemma dev_ok_remove k d : dev_ok d -> dev_ok (remove k d).
  Proof. intros D c I. apply D. exact (remove_In _ _ _ I). Qed.

  Lemma dev_ok_nil : dev_ok [].
  Proof. intros c []. Qed.

  Lemma split_dot_single key : forall k, split_dot key = (k, []) -> key = k.
  Proof.
    induction key as [|c r IH]; intros k H; cbn [split_dot] in H.
    - inversion H; reflexivity.
    - destruct (split_dot r) as [h t]. destruct (Ascii.eqb c dot); inversion H; subst.
      rewrite (IH h eq_refl). reflexivity.
  Qed.

  Lemma assign_path_dev rest k v d d' p o :
    dev_ok d -> (rest = [] -> k = "device"%string -> devval v) ->
    assign_path k rest v d = inr (d', (p, o)) -> dev_ok d' /\ rec_dev (p, o).
  Proof.
    intros D Hv H. destruct rest as [|k2 rest]; cbn [assign_path] in H.
    - inversion H; subst. split.
      + apply dev_ok_assign; [exact D|]. intros E. apply Hv; [reflexivity | exact (canon_device _ _ E)].
      + intros old L E. cbn [fst snd] in *. inversion E as [E']. rewrite E' in L. apply D. apply lookup_In. exact L.
    - destruct (lookup (canon k d) d) as [[x|sub]|] eqn:L; [discriminate| |].
      + destruct (assign_path k2 rest v sub) as [e|[sub' [p0 o0]]] eqn:A; [discriminate|]. inversion H; subst.
        split; [apply dev_ok_assign; [exact D | intros _; exact I]|].
        intros old _ E. cbn [fst] in E. inversion E; subst. exfalso. exact (assign_path_nonempty _ _ _ _ _ _ _ A eq_refl).
      + destruct (assign_path k2 rest v []) as [e|[sub' rc]] eqn:A; [discriminate|]. inversion H; subst.
        split; [apply dev_ok_assign; [exact D | intros _; exact I]|]. intros old E. discriminate.
  Qed.

  Lemma set_item_dev key v d d' rc :
    dev_ok d -> set_item validate key v d = inr (d', rc) -> dev_ok d' /\ rec_dev rc.
  Proof.
    intros D. unfold set_item, check_key_val.
    destruct (check_dev validate key v) as [e|o] eqn:C; [discriminate|].
    destruct (split_dot key) as [k rest] eqn:S. destruct rc as [p o'].
    destruct o as [s|]; apply assign_path_dev; try exact D.
    - intros -> ->. apply split_dot_single in S. subst key.
      destruct (check_dev_valid _ _ C) as [s' [E V]]. inversion E; subst. exists s'. split; [reflexivity | exact V].
    - intros -> ->. apply split_dot_single in S. subst key.
      destruct (check_dev_valid _ _ C) as [s' [E V]]. discriminate.
  Qed.

  Lemma set_items_dev l : forall d recs d' recs' e,
    dev_ok d -> Forall rec_dev recs -> set_items validate l d recs = (d', recs', e) ->
    dev_ok d' /\ Forall rec_dev recs'.
  Proof.
    induction l as [|[key v] l IH]; intros d recs d' recs' e D R H; cbn [set_items] in H.
    - inversion H; subst. split; assumption.
    - destruct (set_item validate key v d) as [e1|[d1 rc]] eqn:S.
      + inversion H; subst. split; assumption.
      + destruct (set_item_dev _ _ _ _ _ D S) as [D1 R1].
        apply (IH d1 (recs ++ [rc]) d' recs' e D1); [|exact H].
        apply Forall_app. split; [exact R | constructor; [exact R1 | constructor]].
  Qed.

  Lemma set_call_dev arg kw d d' recs e :
    dev_ok d -> set_call validate arg kw d = (d', recs, e) -> dev_ok d' /\ Forall rec_dev recs.
  Proof.
    intros D. unfold set_call. destruct arg as [[x|l]|].
    - intros H. inversion H; subst. split; [exact D | constructor].
    - destruct (set_items validate l d []) as [[d0 r0] e0] eqn:S1.
      destruct (set_items_dev _ _ _ _ _ _ D (Forall_nil _) S1) as [D0 R0].
      destruct e0 as [e0|]; [intros H; inversion H; subst; split; assumption|].
      intros S2. exact (set_items_dev _ _ _ _ _ _ D0 R0 S2).
    - intros S. exact (set_items_dev _ _ _ _ _ _ D (Forall_nil _) S).
  Qed.

  Lemma restore1_dev r d d' : dev_ok d -> rec_dev r -> restore1 r d = inr d' -> dev_ok d'.
  Proof.
    intros D R. destruct r as [p [old|]]; cbn [restore1].
    - destruct p as [|k [|a p]].
      + intros H. inversion H; subst. exact D.
      + cbn [restore_replace]. intros H. inversion H; subst. apply dev_ok_assign; [exact D|].
        intros E. apply (R old eq_refl). cbn [fst]. rewrite (canon_device _ _ E). reflexivity.
      + rewrite restore_replace_cons. destruct (lookup (canon k d) d) as [[x|sub]|].
        * destruct p; discriminate.
        * destruct (restore_replace (a :: p) old sub); [discriminate|]. intros H. inversion H; subst.
          apply dev_ok_assign; [exact D | intros _; exact I].
        * destruct (restore_replace (a :: p) old []); [discriminate|]. intros H. inversion H; subst.
          apply dev_ok_assign; [exact D | intros _; exact I].
    - destruct p as [|k [|a p]].
      + intros H. inversion H; subst. exact D.
      + cbn [restore_insert]. intros H. inversion H; subst. apply dev_ok_remove. exact D.
      + rewrite restore_insert_cons. destruct (lookup (canon k d) d) as [[x|sub]|].
        * destruct p; discriminate.
        * destruct (restore_insert (a :: p) sub); [discriminate|]. intros H. inversion H; subst.
          apply dev_ok_assign; [exact D | intros _; exact I].
        * intros H. inversion H; subst. exact D.
  Qed.

  Lemma restore_all_dev rrecs : forall d d' e,
    dev_ok d -> Forall rec_dev rrecs -> restore_all rrecs d = (d', e) -> dev_ok d'.
  Proof.
    induction rrecs as [|r rs IH]; intros d d' e D R H; cbn [restore_all] in H.
    - inversion H; subst. exact D.
    - inversion R as [|? ? Rr Rs]; subst. destruct (restore1 r d) as [e1|d1] eqn:E.
      + inversion H; subst. exact D.
      + exact (IH _ _ _ (restore1_dev _ _ _ D Rr E) Rs H).
  Qed.

  Lemma leaf_val_fst prio k' x f dv c e : leaf_val prio k' x f dv = (Some c, e) -> c = Leaf x.
  Proof.
    unfold leaf_val. destruct prio.
    - destruct f; intros H; inversion H; reflexivity.
    - intros H; inversion H; reflexivity.
    - destruct f as [ov|]; [destruct (dmatch dv k' ov) as [?|[|]]|]; intros H; inversion H; reflexivity.
  Qed.

  Lemma update_dev_ok prio new : forall old dv old' e,
    dev_ok old -> update_cfg validate prio new old dv = (old', e) -> dev_ok old'.
  Proof.
    destruct new as [x|l]; intros old dv old' e D H.
    - rewrite update_leaf in H. inversion H; subst. exact D.
    - revert old D H. induction l as [|[k v] l IH]; intros old D H.
      + rewrite update_nil in H. inversion H; subst. exact D.
      + rewrite update_cons in H. cbv zeta in H.
        set (k' := canon k old) in *. set (r := entry_val validate prio k v k' (lookup k' old) dv) in *.
        assert (D1 : dev_ok (put k' (fst r) old)).
        { destruct (fst r) as [c|] eqn:Fr; cbn [put]; [|exact D]. apply dev_ok_assign; [exact D|].
          intros E. apply canon_device in E. subst k. unfold r, entry_val in Fr.
          destruct (check_dev validate "device" v) as [e1|o] eqn:C; [discriminate|].
          destruct (check_dev_valid _ _ C) as [s [-> V]].
          destruct (leaf_val prio k' (JStr s) (lookup k' old) dv) as [X e1] eqn:L. cbn [fst] in Fr. subst X.
          rewrite (leaf_val_fst _ _ _ _ _ _ _ L). exists s. split; [reflexivity | exact V]. }
        destruct (snd r); [inversion H; subst; exact D1 | exact (IH _ D1 H)].
  Qed.

  Lemma merge_from_dev ds : forall acc r e,
    dev_ok acc -> merge_from validate acc ds = (r, e) -> dev_ok r.
  Proof.
    induction ds as [|d ds IH]; intros acc r e D H; cbn [merge_from] in H.
    - inversion H; subst. exact D.
    - unfold update_items in H. destruct (update_cfg validate PNew (Node d) acc None) as [acc' e1] eqn:U.
      pose proof (update_dev_ok _ _ _ _ _ _ D U) as D'.
      destruct e1; [inversion H; subst; exact D' | exact (IH _ _ _ D' H)].
  Qed.

  Lemma step_s_dev o s : dev_ok (conf s) -> dev_ok (conf (fst (step_s validate o s))).
  Proof.
    intros D. destruct o as [arg kw|new|yaml]; cbn [step_s].
    - destruct (set_call validate arg kw (conf s)) as [[c' recs] e] eqn:S. cbn [fst conf].
      exact (proj1 (set_call_dev _ _ _ _ _ _ D S)).
    - unfold update_defaults. destruct (check_items validate new) as [e|new']; [exact D|].
      destruct (merge validate (dflts s)) as [cur [e|]]; [exact D|]. unfold update_items.
      destruct (update_cfg validate PNewDefaults (Node new') (conf s) (Some (Node cur))) as [c' e] eqn:U.
      cbn [fst conf]. exact (update_dev_ok _ _ _ _ _ _ D U).
    - unfold refresh. destruct (merge_from validate [] (dflts s)) as [c1 e1] eqn:M1.
      pose proof (merge_from_dev _ _ _ _ dev_ok_nil M1) as D1.
      destruct e1; [exact D1|]. destruct (merge validate yaml) as [cy [e2|]]; [exact D1|].
      unfold update_items. destruct (update_cfg validate PNew (Node cy) c1 None) as [c2 e3] eqn:U.
      cbn [fst conf]. exact (update_dev_ok _ _ _ _ _ _ D1 U).
  Qed.

  Lemma run_s_dev body : forall s, dev_ok (conf s) -> dev_ok (conf (run_s validate body s)).
  Proof.
    induction body as [|o body IH]; intros s D; cbn [run_s]; [exact D|]. apply IH. apply step_s_dev. exact D.
  Qed.

  Lemma run_s_stop_dev body : forall s, dev_ok (conf s) -> dev_ok (conf (fst (run_s_stop validate body s))).
  Proof.
    induction body as [|o body IH]; intros s D; cbn [run_s_stop]; [exact D|].
    pose proof (step_s_dev o s D) as D1.
    destruct (step_s validate o s) as [s1 [e|]]; cbn [fst] in *; [exact D1 | exact (IH s1 D1)].
  Qed.

  Lemma step_dev o s : dev_ok (conf s) -> dev_ok (conf (fst (step validate o s))).
  Proof.
    intros D. destruct o as [o|arg kw body|arg kw body]; cbn [step].
    - apply step_s_dev. exact D.
    - destruct (set_call validate arg kw (conf s)) as [[c1 recs] e] eqn:S.
      destruct (set_call_dev _ _ _ _ _ _ D S) as [D1 R]. destruct e as [e|]; [exact D1|].
      pose proof (run_s_dev body {| conf := c1; dflts := dflts s |} D1) as D2.
      unfold exit_call.
      destruct (restore_all (rev recs) (conf (run_s validate body {| conf := c1; dflts := dflts s |}))) as [c3 e] eqn:E.
      cbn [fst conf]. exact (restore_all_dev _ _ _ _ D2 (Forall_rev R) E).
    - destruct (set_call validate arg kw (conf s)) as [[c1 recs] e] eqn:S.
      destruct (set_call_dev _ _ _ _ _ _ D S) as [D1 R]. destruct e as [e|]; [exact D1|].
      pose proof (run_s_stop_dev body {| conf := c1; dflts := dflts s |} D1) as D2.
      destruct (run_s_stop validate body {| conf := c1; dflts := dflts s |}) as [s2 eb]. cbn [fst] in D2.
      unfold exit_call. destruct (restore_all (rev recs) (conf s2)) as [c3 e] eqn:E.
      cbn [fst conf]. exact (restore_all_dev _ _ _ _ D2 (Forall_rev R) E).
  Qed.

  Lemma run_dev ops : forall s, dev_ok (conf s) -> dev_ok (conf (run validate ops s)).
  Proof.
    induction ops as [|o ops IH]; intros s D; cbn [run]; [exact D|]. apply IH. apply step_dev. exact D.
  Qed.

  (* whatever the history (well-formed or not): a device stored as a scalar is "cpu" or a
     string validate_device returned *)
  Theorem stored_device_valid ops x :
    lookup "device" (conf (run validate ops empty_store)) = Some (Leaf x) ->
    exists s, x = JStr s /\ (s = "cpu"%string \/ exists v, validate v = inr s).
  Proof.
    intros L. apply lookup_In in L. exact (run_dev ops empty_store dev_ok_nil _ L).
  Qed.

  (* ------------------------------------------------------------ rejected requests *)
  Lemma check_dev_reject v e :
    cpu_request v = false -> validate v = inl e -> check_key_val validate "device" v = inl e.
  Proof.
    intros Hc Hv. unfold check_key_val, check_dev. cbn [String.eqb Ascii.eqb Bool.eqb]. rewrite Hc, Hv. reflexivity.
  Qed.

  Lemma check_items_reject new v e :
    cpu_request v = false -> validate v = inl e -> In ("device"%string, v) new ->
    exists e', check_items validate new = inl e'.
  Proof.
    intros Hc Hv. induction new as [|[k w] new IH]; intros I; [destruct I|]. cbn [check_items].
    destruct I as [E|I].
    - inversion E; subst. rewrite (check_dev_reject _ _ Hc Hv). eauto.
    - destruct (check_key_val validate k w); [eauto|]. destruct (IH I) as [e' ->]. eauto.
  Qed.

  Theorem device_rejected_unchanged v e :
    cpu_request v = false -> validate v = inl e ->
    (* set({"device": v}), set(device=v), set_device(v): raise, nothing changes *)
    (forall s, step_s validate (SSet (Some (Node [("device"%string, v)])) []) s = (s, Some e)) /\
    (forall s, step_s validate (SSet None [("device"%string, v)]) s = (s, Some e)) /\
    (* inside a larger call: the items before it are applied, the request and everything after it is not *)
    (forall l1 l2 d recs,
        set_items validate (l1 ++ ("device"%string, v) :: l2) d recs =
        match set_items validate l1 d recs with (d1, r1, None) => (d1, r1, Some e) | x => x end) /\
    (* update_defaults: raises before the store or the defaults are touched *)
    (forall new s, In ("device"%string, v) new -> exists e', update_defaults validate new s = (s, Some e')).
  Proof.
    intros Hc Hv. pose proof (check_dev_reject _ _ Hc Hv) as C. repeat split.
    - intros s. cbn [step_s set_call set_items]. unfold set_item. rewrite C. rewrite store_eta. reflexivity.
    - intros s. cbn [step_s set_call kw_items map fst snd]. change (dunder "device") with "device"%string.
      cbn [set_items]. unfold set_item. rewrite C. rewrite store_eta. reflexivity.
    - intros l1 l2 d recs. rewrite set_items_app. destruct (set_items validate l1 d recs) as [[d1 r1] [e1|]]; [reflexivity|].
      cbn [set_items]. unfold set_item. rewrite C. reflexivity.
    - intros new s I. destruct (check_items_reject _ _ _ Hc Hv I) as [e' E]. exists e'.
      unfold update_defaults. rewrite E. reflexivity.
  Qed.
End Hist.
