(* C10 proofs, part B3 (round 3): Gram-Schmidt WITHOUT the linear-independence premise and with
   the clamp_min guard of the code.
   - the unnormalised residuals are pairwise orthogonal for ANY input family (a vanishing residual
     is orthogonal to everything and projecting onto it changes nothing);
   - a residual vanishes exactly when the mode is a linear combination of the earlier ones;
   - the clamped loop equals the unclamped one whenever every residual is zero or >= eps long;
   - what then still holds: orthogonality, descending order, each mode keeps its intensity or
     (vanishing residual) loses all of it; in general no mode ever gains intensity. *)
From QV.lib Require Import Prelude C10_Cplx.
From QV.model Require Import C10_Model.
From QV.proof Require Import C10_Proofs_GS.
From Coq Require Import QArith Qcanon Field Sorted Lqa.
Local Close Scope Q_scope.
Local Open Scope Qc_scope.

(* ---------------------------------------------------------------- order facts on Qc *)
Lemma Qc_this_inv (a : Qc) : (this (/ a) == / this a)%Q.
Proof. unfold Qcinv, Q2Qc; cbn [this]. apply Qred_correct. Qed.

Lemma Qc_inv_pos (m : Qc) : 0 < m -> 0 < / m.
Proof.
  unfold Qclt. rewrite Qc_this_inv. change (this 0) with 0%Q. apply Qinv_lt_0_compat.
Qed.

Lemma Qc_pos_neq0_ (x : Qc) : 0 < x -> x <> 0.
Proof. intros H E. apply Qclt_not_eq in H. congruence. Qed.

Lemma Qc_mul_nonneg (a b : Qc) : 0 <= a -> 0 <= b -> 0 <= a * b.
Proof. unfold Qcle. rewrite Qc_this_mul. change (this 0) with 0%Q. nra. Qed.

Lemma Qc_mul_pos (a b : Qc) : 0 < a -> 0 < b -> 0 < a * b.
Proof. unfold Qclt. rewrite Qc_this_mul. change (this 0) with 0%Q. nra. Qed.

Lemma Qc_div_nonneg (a b : Qc) : 0 <= a -> 0 < b -> 0 <= a / b.
Proof. intros Ha Hb. unfold Qcdiv. apply Qc_mul_nonneg; [exact Ha | apply Qclt_le_weak, Qc_inv_pos, Hb]. Qed.

Lemma Qc_le_0_eq (a : Qc) : 0 <= a -> a <= 0 -> a = 0.
Proof. intros H1 H2. apply Qcle_antisym; assumption. Qed.

Lemma qcmax_ge_l a b : a <= qcmax a b.
Proof.
  unfold qcmax. destruct (qc_leb a b) eqn:E; [apply qc_leb_iff; exact E | apply Qcle_refl].
Qed.

Lemma qcmax_ge_r a b : b <= qcmax a b.
Proof.
  unfold qcmax. destruct (qc_leb a b) eqn:E; [apply Qcle_refl|].
  apply Qclt_le_weak. apply Qcnot_le_lt. intro H. apply qc_leb_iff in H. congruence.
Qed.

Lemma qcmax_l a b : b <= a -> qcmax a b = a.
Proof.
  intros H. unfold qcmax. destruct (qc_leb a b) eqn:E; [|reflexivity].
  apply qc_leb_iff in E. apply Qcle_antisym; assumption.
Qed.

Lemma qcmax_pos a b : 0 < b -> 0 < qcmax a b.
Proof. intros H. eapply Qclt_le_trans; [exact H | apply qcmax_ge_r]. Qed.

(* ---------------------------------------------------------------- zero vectors *)
Lemma dot_vzeros_l n v : dot (vzeros n) v = c0.
Proof.
  revert v. induction n as [|n IH]; intros [|y v]; cbn [dot vzeros repeat]; try reflexivity.
  fold (vzeros n). rewrite IH. cplx.
Qed.

Lemma norm2_0_dot_l u v : norm2 u = 0 -> dot u v = c0.
Proof. intros H. rewrite (norm2_eq0 u H). apply dot_vzeros_l. Qed.

Lemma cscale_c0 r : cscale r c0 = c0.
Proof. cplx. Qed.

(* ---------------------------------------------------------------- orthogonality for ANY inputs *)
Lemma proj_sub_orth_self_any n u r :
  length r = n -> length u = n -> dot u (proj_sub r u) = c0.
Proof.
  intros Hr Hu. destruct (Qc_eq_dec (norm2 u) 0) as [Hz | Hnz].
  - apply norm2_0_dot_l. exact Hz.
  - eapply proj_sub_orth_self; eauto.
Qed.

Lemma residual_orth_any n us :
  allN n us -> pairwise orth us ->
  forall p, length p = n -> Forall (fun u => orth u (residual us p)) us.
Proof.
  induction 1 as [|u us Hu Hus IH]; intros Hp p Hlen; [constructor|].
  destruct Hp as [Hu_orth Hp]. subst n.
  change (residual (u :: us) p) with (residual us (proj_sub p u)).
  assert (Hl : length (proj_sub p u) = length u) by (apply proj_sub_length; congruence).
  constructor.
  - unfold orth. rewrite (residual_keeps_dot (length u) u us Hus Hu_orth _ Hl).
    eapply proj_sub_orth_self_any; eauto.
  - apply IH; assumption.
Qed.

Theorem gs_pairwise_any n ps : allN n ps -> pairwise orth (gs ps).
Proof.
  induction ps as [|p ps IH] using rev_ind; intros Hn; [exact I|].
  unfold allN in Hn. apply Forall_app in Hn. destruct Hn as [Hps Hp].
  pose proof (Forall_inv Hp) as Hp0. cbn beta in Hp0.
  rewrite gs_snoc. apply pairwise_snoc; [apply IH; assumption|].
  apply residual_orth_any with (n := n); auto. apply gs_allN; exact Hps.
Qed.

(* ---------------------------------------------------------------- vanishing residual <-> dependent *)
Lemma lincomb_Span n ps : allN n ps -> forall cs, Span n ps (lincomb n cs ps).
Proof.
  induction 1 as [|p ps Hp Hps IH]; intros cs.
  - rewrite lincomb_nil_r. apply sp_zero.
  - destruct cs as [|c cs]; cbn [lincomb]; [apply sp_zero|].
    apply sp_add.
    + apply sp_scale. apply sp_in. left. reflexivity.
    + eapply Span_mono; [|apply IH]. apply incl_tl. apply incl_refl.
Qed.

(* w orthogonal to every generator -> orthogonal to the span *)
Lemma orth_Span n S w v : allN n S -> Forall (fun s => dot w s = c0) S -> Span n S v -> dot w v = c0.
Proof.
  intros HS Hw. induction 1 as [| p Hp | a b Ha IHa Hb IHb | c a Ha IHa].
  - apply dot_vzeros_r.
  - rewrite Forall_forall in Hw. apply Hw. exact Hp.
  - rewrite dot_vadd.
    + rewrite IHa, IHb. cplx.
    + rewrite (Span_length n S a HS Ha), (Span_length n S b HS Hb). reflexivity.
  - rewrite dot_vscale, IHa. cplx.
Qed.

(* every input is in the span of the residuals up to and including its own *)
Lemma inputs_in_gs_span n ps : allN n ps -> Forall (Span n (gs ps)) ps.
Proof.
  induction ps as [|p ps IH] using rev_ind; intros Hn; [constructor|].
  unfold allN in Hn. apply Forall_app in Hn. destruct Hn as [Hps Hp].
  pose proof (Forall_inv Hp) as Hp0. cbn beta in Hp0.
  rewrite gs_snoc. apply Forall_app. split.
  - eapply Forall_impl; [|apply IH; exact Hps]. intros a Ha.
    eapply Span_mono; [|exact Ha]. apply incl_appl. apply incl_refl.
  - constructor; [|constructor].
    destruct (residual_span n (gs ps) (gs_allN _ _ Hps) p Hp0) as [s [Hs E]].
    (* p = residual + s *)
    assert (Hsl : length s = n) by exact (Span_length n (gs ps) s (gs_allN _ _ Hps) Hs).
    assert (Ep : p = vadd (residual (gs ps) p) s).
    { rewrite E. clear - Hp0 Hsl. revert s Hsl. rewrite <- Hp0. clear Hp0.
      induction p as [|x p IHp]; intros [|y s] Hl; cbn in Hl; try congruence; [reflexivity|].
      vcbn. f_equal; [ring | apply IHp; congruence]. }
    rewrite Ep at 2. apply sp_add.
    + apply sp_in. apply in_or_app. right. left. reflexivity.
    + eapply Span_mono; [|exact Hs]. apply incl_appl. apply incl_refl.
Qed.

Theorem residual_zero_iff_dependent n front p :
  allN n front -> length p = n ->
  (norm2 (residual (gs front) p) = 0 <->
   exists cs, length cs = length front /\ p = lincomb n cs front).
Proof.
  intros Hf Hp. pose proof (gs_allN _ _ Hf) as Hg. split.
  - intros Hz.
    destruct (residual_span n (gs front) Hg p Hp) as [s [Hs Er]].
    apply norm2_eq0 in Hz. rewrite (residual_length n (gs front) Hg p Hp) in Hz.
    assert (Hsf : Span n front s) by (eapply Span_trans; [apply gs_span; exact Hf | exact Hs]).
    assert (Hsl : length s = n) by exact (Span_length n front s Hf Hsf).
    rewrite Er in Hz. rewrite <- Hp in Hz. apply vsub_eq_zeros in Hz; [|congruence].
    subst s. apply Span_lincomb; assumption.
  - intros [cs [Hl E]].
    assert (Hsp : Span n front p) by (rewrite E; apply lincomb_Span; exact Hf).
    assert (Hspg : Span n (gs front) p).
    { eapply Span_trans; [apply inputs_in_gs_span; exact Hf | exact Hsp]. }
    set (r := residual (gs front) p).
    assert (Hr : Span n (gs front) r).
    { destruct (residual_span n (gs front) Hg p Hp) as [s [Hs Er]]. unfold r. rewrite Er.
      apply Span_sub; assumption. }
    assert (Ho : Forall (fun u => dot r u = c0) (gs front)).
    { pose proof (residual_orth_any n (gs front) Hg (gs_pairwise_any n front Hf) p Hp) as H.
      eapply Forall_impl; [|exact H]. intros u Hu. apply dot_sym0. exact Hu. }
    pose proof (orth_Span n (gs front) r r Hg Ho Hr) as Hrr.
    rewrite dot_self in Hrr. apply (f_equal fst) in Hrr. exact Hrr.
Qed.

(* ---------------------------------------------------------------- the clamped loop *)
Lemma proj_sub_c_eq eps2 r u :
  (norm2 u = 0 \/ eps2 <= norm2 u) -> proj_sub_c eps2 r u = proj_sub r u.
Proof.
  intros [Hz | Hge]; unfold proj_sub_c, proj_sub, proj_coef_c, proj_coef.
  - rewrite (norm2_0_dot_l u r Hz), !cscale_c0. reflexivity.
  - rewrite (qcmax_l _ _ Hge). reflexivity.
Qed.

Lemma residual_c_eq eps2 us : clamp_clean eps2 us -> forall p, residual_c eps2 us p = residual us p.
Proof.
  unfold residual_c, residual. induction 1 as [|u us Hu Hus IH]; intros p; cbn [fold_left]; [reflexivity|].
  rewrite (proj_sub_c_eq eps2 p u Hu). apply IH.
Qed.

Lemma gs_c_snoc eps2 ps p : gs_c eps2 (ps ++ [p]) = gs_c eps2 ps ++ [residual_c eps2 (gs_c eps2 ps) p].
Proof. unfold gs_c. rewrite fold_left_app. reflexivity. Qed.

Lemma gs_c_length eps2 ps : length (gs_c eps2 ps) = length ps.
Proof.
  induction ps as [|p ps IH] using rev_ind; [reflexivity|].
  rewrite gs_c_snoc, !app_length, IH. reflexivity.
Qed.

Theorem gs_c_eq eps2 ps : clamp_clean eps2 (gs ps) -> gs_c eps2 ps = gs ps.
Proof.
  induction ps as [|p ps IH] using rev_ind; intros Hc; [reflexivity|].
  rewrite gs_snoc in Hc. unfold clamp_clean in Hc. apply Forall_app in Hc. destruct Hc as [Hc _].
  rewrite gs_c_snoc, gs_snoc, (IH Hc), (residual_c_eq eps2 (gs ps) Hc). reflexivity.
Qed.

Lemma gs_modes_c_snd eps2 ps : map snd (gs_modes_c eps2 ps) = gs_c eps2 ps.
Proof.
  unfold gs_modes_c. rewrite map_map. cbn [restore_c snd].
  pose proof (gs_c_length eps2 ps) as Hl. revert Hl. generalize (gs_c eps2 ps) as us.
  induction ps as [|p ps IH]; intros [|u us] Hl; cbn in *; try congruence.
  f_equal. apply IH. congruence.
Qed.

(* the clamp idle (every residual at least eps long): the clamped model IS the model of round 2 *)
Lemma restore_c_eq eps2 p u : eps2 <= norm2 u -> restore_c eps2 p u = restore p u.
Proof. intros H. unfold restore_c, restore. rewrite (qcmax_l _ _ H). reflexivity. Qed.

Theorem orthogonalize_c_idle eps2 ps :
  Forall (fun u => eps2 <= norm2 u) (gs ps) -> orthogonalize_c eps2 ps = orthogonalize ps.
Proof.
  intros H. unfold orthogonalize_c, orthogonalize, gs_modes_c, gs_modes. f_equal.
  rewrite gs_c_eq by (eapply Forall_impl; [|exact H]; intros u Hu; right; exact Hu).
  pose proof (gs_length ps) as Hl. revert H Hl. generalize (gs ps) as us.
  induction ps as [|p ps IH]; intros [|u us] H Hl; cbn [combine map length] in *; try congruence; try reflexivity.
  inversion H as [|? ? Hu H']; subst. f_equal; [cbn [fst snd]; apply restore_c_eq; exact Hu|].
  apply IH; [exact H' | congruence].
Qed.

(* ---------------------------------------------------------------- what still holds: orthogonality *)
Theorem gsc_orthogonal_dependent : forall n eps2 ps i j mi mj,
  allN n ps -> clamp_clean eps2 (gs ps) -> i <> j ->
  nth_error (orthogonalize_c eps2 ps) i = Some mi -> nth_error (orthogonalize_c eps2 ps) j = Some mj ->
  dot (snd mi) (snd mj) = c0 /\ mode_gram2 mi mj = 0.
Proof.
  intros n eps2 ps i j mi mj Hn Hc Hij Hi Hj.
  assert (Hp : pairwise mode_orth (orthogonalize_c eps2 ps)).
  { unfold orthogonalize_c.
    apply (pairwise_perm mode_orth (fun a b => @dot_sym0 (snd a) (snd b))) with (l := gs_modes_c eps2 ps);
      [apply Permutation_sym; apply sort_desc_perm|].
    apply (pairwise_map snd orth). rewrite gs_modes_c_snd, (gs_c_eq eps2 ps Hc).
    apply gs_pairwise_any with (n := n). exact Hn. }
  assert (H : mode_orth mi mj).
  { eapply (pairwise_nth mode_orth (fun a b => @dot_sym0 (snd a) (snd b))); eassumption. }
  split; [exact H|]. unfold mode_gram2. unfold mode_orth in H. rewrite H, cnorm2_c0. ring.
Qed.

(* ---------------------------------------------------------------- what still holds: intensities *)
Lemma restore_c_intensity_le eps2 p u : 0 < eps2 -> mode_intensity (restore_c eps2 p u) <= norm2 p.
Proof.
  intros He. unfold mode_intensity, restore_c; cbn [fst snd].
  set (a := norm2 u). set (m := qcmax a eps2).
  assert (Hm : 0 < m) by (apply qcmax_pos; exact He).
  assert (Ham : a <= m) by apply qcmax_ge_l.
  assert (Ha : 0 <= a) by apply norm2_nonneg.
  assert (Hp : 0 <= norm2 p) by apply norm2_nonneg.
  assert (Hq : a / m <= 1).
  { unfold Qcdiv. pose proof (Qc_inv_pos m Hm) as Hi.
    assert (E : 1 = m * / m) by (rewrite Qcmult_inv_r; [reflexivity | apply Qc_pos_neq0_; exact Hm]).
    rewrite E. apply Qcmult_le_compat_r; [exact Ham | apply Qclt_le_weak; exact Hi]. }
  assert (E : norm2 p / m * a = norm2 p * (a / m)) by (unfold Qcdiv; ring).
  rewrite E. clear E.
  assert (E1 : norm2 p = norm2 p * 1) by ring. rewrite E1 at 2.
  rewrite (Qcmult_comm (norm2 p) (a / m)), (Qcmult_comm (norm2 p) 1).
  apply Qcmult_le_compat_r; assumption.
Qed.

Theorem gsc_intensity_le : forall eps2 ps, 0 < eps2 ->
  Forall2 (fun m p => mode_intensity m <= norm2 p) (gs_modes_c eps2 ps) ps.
Proof.
  intros eps2 ps He. unfold gs_modes_c.
  pose proof (gs_c_length eps2 ps) as Hl. revert Hl. generalize (gs_c eps2 ps) as us.
  induction ps as [|p ps IH]; intros [|u us] Hl; cbn [combine map length] in *; try congruence; constructor.
  - cbn [fst snd]. apply restore_c_intensity_le. exact He.
  - apply IH. congruence.
Qed.

Lemma qcsum_perm l l' : Permutation l l' -> qcsum l = qcsum l'.
Proof.
  induction 1 as [| x l l' Hp IH | x y l | l l' l'' H1 IH1 H2 IH2]; cbn [qcsum]; try congruence; ring.
Qed.

Lemma qcsum_le l1 l2 : Forall2 Qcle l1 l2 -> qcsum l1 <= qcsum l2.
Proof.
  induction 1 as [|x y l1 l2 Hxy Hl IH]; cbn [qcsum]; [apply Qcle_refl|].
  apply Qcplus_le_compat; assumption.
Qed.

(* the orthogonalisation never creates intensity, whatever the inputs *)
Theorem gsc_total_intensity_le : forall eps2 ps, 0 < eps2 ->
  qcsum (map mode_intensity (orthogonalize_c eps2 ps)) <= qcsum (map norm2 ps).
Proof.
  intros eps2 ps He. unfold orthogonalize_c.
  rewrite (qcsum_perm _ _ (Permutation_map mode_intensity (sort_desc_perm (gs_modes_c eps2 ps)))).
  apply qcsum_le. pose proof (gsc_intensity_le eps2 ps He) as H.
  induction H as [|m p ms ps0 Hmp H IH]; cbn [map]; constructor; assumption.
Qed.

Lemma qc_leb_0_norm2 u : qc_leb (norm2 u) 0 = true <-> norm2 u = 0.
Proof.
  rewrite qc_leb_iff. split; intros H; [apply Qc_le_0_eq; [apply norm2_nonneg | exact H] | rewrite H; apply Qcle_refl].
Qed.

Lemma restore_c_intensity_clean eps2 p u : 0 < eps2 -> (norm2 u = 0 \/ eps2 <= norm2 u) ->
  mode_intensity (restore_c eps2 p u) = kept_intensity p u.
Proof.
  intros He Hc. unfold kept_intensity, mode_intensity, restore_c; cbn [fst snd].
  destruct (qc_leb (norm2 u) 0) eqn:E.
  - apply qc_leb_0_norm2 in E. rewrite E. ring.
  - destruct Hc as [Hz | Hge]; [apply qc_leb_0_norm2 in Hz; congruence|].
    rewrite (qcmax_l _ _ Hge). field. intro Hz. rewrite Hz in Hge.
    exact (Qclt_not_le _ _ He Hge).
Qed.

(* clean clamp: every mode keeps its intensity, except the dependent / zero ones, which lose it *)
Theorem gsc_intensity_dependent : forall eps2 ps, 0 < eps2 -> clamp_clean eps2 (gs ps) ->
  Permutation (map mode_intensity (orthogonalize_c eps2 ps))
              (map (fun pu => kept_intensity (fst pu) (snd pu)) (combine ps (gs ps))).
Proof.
  intros eps2 ps He Hc. unfold orthogonalize_c.
  eapply perm_trans; [apply Permutation_map; apply sort_desc_perm|].
  unfold gs_modes_c. rewrite (gs_c_eq eps2 ps Hc), map_map.
  assert (E : forall l, Forall (fun pu => norm2 (snd pu) = 0 \/ eps2 <= norm2 (snd pu)) l ->
            map (fun pu : list C * list C => mode_intensity (restore_c eps2 (fst pu) (snd pu))) l
            = map (fun pu => kept_intensity (fst pu) (snd pu)) l).
  { induction 1 as [|pu l Hpu Hl IH]; cbn [map]; [reflexivity|].
    f_equal; [apply restore_c_intensity_clean; assumption | exact IH]. }
  rewrite E; [apply Permutation_refl|].
  unfold clamp_clean in Hc. revert Hc. generalize (gs ps) as us.
  induction ps as [|p ps IH]; intros [|u us] H; cbn [combine]; try constructor.
  - inversion H; subst. assumption.
  - apply IH. inversion H; subst. assumption.
Qed.

Theorem gsc_sorted_desc : forall eps2 ps,
  StronglySorted (fun a b => mode_intensity b <= mode_intensity a) (orthogonalize_c eps2 ps).
Proof. intros. unfold orthogonalize_c. apply sort_desc_sorted. Qed.

Lemma orthogonalize_c_length eps2 ps : length (orthogonalize_c eps2 ps) = length ps.
Proof.
  unfold orthogonalize_c. rewrite (Permutation_length (sort_desc_perm _)).
  rewrite <- (map_length snd (gs_modes_c eps2 ps)), gs_modes_c_snd. apply gs_c_length.
Qed.

(* linearly independent inputs whose residuals are all at least eps long: the three clauses of the
   property for the clamped model (the premise "the clamp never acts" made explicit) *)
Theorem gsc_property_clauses : forall n eps2 ps,
  allN n ps -> lin_indep n ps -> Forall (fun u => eps2 <= norm2 u) (gs ps) ->
  (forall i j mi mj, i <> j ->
     nth_error (orthogonalize_c eps2 ps) i = Some mi -> nth_error (orthogonalize_c eps2 ps) j = Some mj ->
     dot (snd mi) (snd mj) = c0 /\ mode_gram2 mi mj = 0) /\
  Permutation (map mode_intensity (orthogonalize_c eps2 ps)) (map norm2 ps) /\
  StronglySorted (fun a b => mode_intensity b <= mode_intensity a) (orthogonalize_c eps2 ps).
Proof.
  intros n eps2 ps Hn Hli Hge. rewrite (orthogonalize_c_idle eps2 ps Hge).
  split; [|split].
  - intros i j mi mj. apply gs_orthogonal with (n := n); assumption.
  - apply gs_intensity_multiset with (n := n); assumption.
  - apply gs_sorted_desc.
Qed.

(* a mode shorter than eps (but not zero) is shrunk further: intensity |p|^4 / eps^2 < |p|^2 *)
Lemma single_tiny_mode eps2 p :
  orthogonalize_c eps2 [p] = [(norm2 p / qcmax (norm2 p) eps2, p)].
Proof. reflexivity. Qed.

(* ---------------------------------------------------------------- one isometry for all modes *)
Lemma isometry_norm2 U a : isometry U -> norm2 (U a) = norm2 a.
Proof.
  intros HU. pose proof (HU a a eq_refl) as H. rewrite !dot_self in H.
  exact (f_equal fst H).
Qed.

Theorem common_isometry_preserves : forall U ms n,
  isometry U -> Forall (fun m : Qc * list C => length (snd m) = n) ms ->
  map mode_intensity (map_modes U ms) = map mode_intensity ms /\
  (forall i j mi mj, nth_error ms i = Some mi -> nth_error ms j = Some mj ->
     exists mi' mj', nth_error (map_modes U ms) i = Some mi' /\ nth_error (map_modes U ms) j = Some mj' /\
                     dot (snd mi') (snd mj') = dot (snd mi) (snd mj) /\ mode_gram2 mi' mj' = mode_gram2 mi mj).
Proof.
  intros U ms n HU Hn. split.
  - unfold map_modes. rewrite map_map. apply map_ext. intros m.
    unfold mode_intensity; cbn [fst snd]. rewrite (isometry_norm2 U _ HU). reflexivity.
  - intros i j mi mj Hi Hj. exists (fst mi, U (snd mi)), (fst mj, U (snd mj)).
    unfold map_modes. rewrite !nth_error_map, Hi, Hj. cbn [option_map].
    rewrite Forall_forall in Hn.
    assert (Hl : length (snd mi) = length (snd mj)).
    { rewrite (Hn mi (nth_error_In _ _ Hi)), (Hn mj (nth_error_In _ _ Hj)). reflexivity. }
    repeat split; cbn [fst snd]; [apply HU; exact Hl|].
    unfold mode_gram2; cbn [fst snd]. rewrite (HU _ _ Hl). reflexivity.
Qed.

(* a global phase factor of modulus one is an isometry (non-vacuity of the premise) *)
Lemma vscale_unit_isometry c : cnorm2 c = 1 -> isometry (vscale c).
Proof.
  intros Hc a b _. revert b. induction a as [|x a IH]; intros [|y b]; cbn [vscale map dot]; try reflexivity.
  fold (vscale c a) (vscale c b). rewrite IH.
  assert (E : cmul (cconj (cmul c x)) (cmul c y) = cmul (creal (cnorm2 c)) (cmul (cconj x) y)) by cplx.
  rewrite E, Hc. cplx.
Qed.

(* boolean test of clamp_clean (used to discharge the premise on concrete stacks) *)
Definition clamp_clean_b (eps2 : Qc) (us : list vec) : bool :=
  forallb (fun u => qc_leb (norm2 u) 0 || qc_leb eps2 (norm2 u))%bool us.

Lemma clamp_clean_b_ok eps2 us : clamp_clean_b eps2 us = true -> clamp_clean eps2 us.
Proof.
  unfold clamp_clean_b, clamp_clean. rewrite forallb_forall, Forall_forall.
  intros H u Hu. specialize (H u Hu). apply orb_true_iff in H. destruct H as [H | H].
  - left. apply qc_leb_0_norm2. exact H.
  - right. apply qc_leb_iff. exact H.
Qed.

(* the same three clauses WITHOUT the linear-independence premise: residuals at least eps > 0 long
   are non-zero, which is all the round-2 proofs used (and it implies independence) *)
Lemma ge_eps_nonzero eps2 us : 0 < eps2 -> Forall (fun u => eps2 <= norm2 u) us -> Forall nonzero us.
Proof.
  intros He H. eapply Forall_impl; [|exact H]. intros u Hu Hz. unfold nonzero in *.
  rewrite Hz in Hu. exact (Qclt_not_le _ _ He Hu).
Qed.

Theorem gsc_property_clauses_explicit : forall n eps2 ps,
  0 < eps2 -> allN n ps -> Forall (fun u => eps2 <= norm2 u) (gs ps) ->
  (forall i j mi mj, i <> j ->
     nth_error (orthogonalize_c eps2 ps) i = Some mi -> nth_error (orthogonalize_c eps2 ps) j = Some mj ->
     dot (snd mi) (snd mj) = c0 /\ mode_gram2 mi mj = 0) /\
  Permutation (map mode_intensity (orthogonalize_c eps2 ps)) (map norm2 ps) /\
  StronglySorted (fun a b => mode_intensity b <= mode_intensity a) (orthogonalize_c eps2 ps).
Proof.
  intros n eps2 ps He Hn Hge. pose proof (ge_eps_nonzero eps2 _ He Hge) as Hnz.
  split; [|split].
  - intros i j mi mj. apply gsc_orthogonal_dependent with (n := n); [exact Hn|].
    eapply Forall_impl; [|exact Hge]. intros u Hu. right. exact Hu.
  - rewrite (orthogonalize_c_idle eps2 ps Hge). unfold orthogonalize.
    rewrite <- (gs_modes_intensity ps Hnz). apply Permutation_map. apply sort_desc_perm.
  - apply gsc_sorted_desc.
Qed.

Lemma exists_last_or_nil {A} (l : list A) : l = [] \/ exists l' a, l = l' ++ [a].
Proof.
  destruct l as [|x l]; [left; reflexivity|]. right.
  destruct (@exists_last A (x :: l)) as [l' [a E]]; [discriminate|]. exists l', a. exact E.
Qed.


Lemma cdiv_solve (c a x : C) : cnorm2 c <> 0 -> cadd a (cmul c x) = c0 ->
  x = cmul (copp (cscale (/ cnorm2 c) (cconj c))) a.
Proof.
  intros Ne E.
  assert (Ea : a = copp (cmul c x)).
  { assert (X : a = csub (cadd a (cmul c x)) (cmul c x)) by ring. rewrite X, E. ring. }
  subst a. clear E. destruct c as [cr ci], x as [xr xi].
  unfold cmul, copp, cscale, cconj, cnorm2 in *; cbn [fst snd] in *.
  apply injective_projections; cbn [fst snd]; field; exact Ne.
Qed.

Lemma vadd_vscale_solve (c : C) : cnorm2 c <> 0 -> forall p A, length A = length p ->
  vadd A (vscale c p) = vzeros (length p) ->
  p = vscale (copp (cscale (/ cnorm2 c) (cconj c))) A.
Proof.
  intros Ne. induction p as [|x p IHp]; intros [|a A] HA Hcp; cbn [length] in HA; try discriminate; [reflexivity|].
  vcbn. pose proof (f_equal (hd c0) Hcp) as E1. pose proof (f_equal (@tl C) Hcp) as E2. cbn [hd tl] in E1, E2. f_equal; [apply cdiv_solve; [exact Ne | exact E1]|].
  apply IHp; [congruence | exact E2].
Qed.

(* and such a family IS linearly independent *)
Theorem ge_eps_lin_indep : forall n eps2 ps,
  0 < eps2 -> allN n ps -> Forall (fun u => eps2 <= norm2 u) (gs ps) -> lin_indep n ps.
Proof.
  intros n eps2 ps He. induction ps as [|p ps IH] using rev_ind; intros Hn Hge cs Hl Hz.
  - destruct cs; [constructor | discriminate Hl].
  - unfold allN in Hn. apply Forall_app in Hn. destruct Hn as [Hps Hp].
    pose proof (Forall_inv Hp) as Hp0. cbn beta in Hp0.
    rewrite gs_snoc in Hge. apply Forall_app in Hge. destruct Hge as [Hge Hlast].
    pose proof (Forall_inv Hlast) as Hr. cbn beta in Hr.
    rewrite app_length in Hl. cbn [length] in Hl.
    destruct (exists_last_or_nil cs) as [-> | [cs' [c ->]]]; [cbn in Hl; lia|].
    rewrite app_length in Hl. cbn [length] in Hl.
    assert (Hl' : length cs' = length ps) by lia.
    rewrite (lincomb_app n ps [p] Hp cs' [c] Hl') in Hz. cbn [lincomb] in Hz.
    assert (Ec : c = c0).
    { destruct (Qc_eq_dec (cnorm2 c) 0) as [E | Ne]; [apply cnorm2_eq0; exact E|]. exfalso.
      (* c <> 0: p = -(1/c) * (combination of ps) is dependent -> residual zero, contradiction *)
      assert (Hdep : exists ds, length ds = length ps /\ p = lincomb n ds ps).
      { exists (map (cmul (copp (cscale (/ cnorm2 c) (cconj c)))) cs'). split; [rewrite map_length; exact Hl'|].
        rewrite lincomb_scale.
        set (A := lincomb n cs' ps) in *.
        assert (HA : length A = n) by (apply lincomb_length; exact Hps).
        assert (Hcp : vadd A (vscale c p) = vzeros n).
        { rewrite <- Hz. f_equal. rewrite <- Hp0. rewrite <- (vscale_length c p). symmetry. apply vadd_zeros_r. }
        rewrite <- Hp0 in Hcp, HA. fold (vscale (copp (cscale (/ cnorm2 c) (cconj c))) A).
        exact (vadd_vscale_solve c Ne p A HA Hcp). }
      apply (residual_zero_iff_dependent n ps p Hps Hp0) in Hdep.
      rewrite Hdep in Hr. exact (Qclt_not_le _ _ He Hr). }
    subst c. apply Forall_app. split; [|constructor; [reflexivity | constructor]].
    apply (IH Hps Hge cs' Hl').
    rewrite vscale_c0, Hp0 in Hz.
    assert (Z2 : vadd (vzeros n) (vzeros n) = vzeros n).
    { pose proof (vadd_zeros_r (vzeros n)) as X. rewrite vzeros_length in X. exact X. }
    rewrite Z2 in Hz.
    pose proof (vadd_zeros_r (lincomb n cs' ps)) as X. rewrite (lincomb_length n cs' ps Hps) in X.
    rewrite X in Hz. exact Hz.
Qed.
