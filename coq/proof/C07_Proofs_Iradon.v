(* C07 — proofs, part 2: Fourier filter index arithmetic and window arguments, iradon
   geometry (diagonal, padded size), np.interp vs the port's floor/clamp/gather, iradon. *)
From QV.lib Require Import Prelude.
From QV.model Require Import C07_Model.
From QV.proof Require Import C07_Proofs.
From Coq Require Import QArith Qround Qabs Qfield Lqa Setoid Morphisms.
Local Open Scope Q_scope.

Lemma iz_eq_of a b : a = b -> iz a == iz b.
Proof. intros ->. reflexivity. Qed.

(* =============================================================== filter index arithmetic *)
Lemma Qtrunc_iz z : Qtrunc (iz z) = z.
Proof. unfold Qtrunc, iz. destruct (Qle_bool 0 (inject_Z z)); [apply Qfloor_Z | apply Qceiling_Z]. Qed.

Lemma Qtrunc_comp x y : x == y -> Qtrunc x = Qtrunc y.
Proof.
  intros H. unfold Qtrunc.
  rewrite (Qfloor_comp _ _ H), (Qceiling_comp _ _ H), (Qleb_comp 0 0 (Qeq_refl 0) _ _ H). reflexivity.
Qed.

Lemma Qfloor_iz_div x st : Qfloor (iz x / iz st) = (x / st)%Z.
Proof. unfold iz. symmetry. apply Zdiv_Qdiv. Qed.

Lemma Qceiling_div_pos x st : (0 < st)%Z -> Qceiling (iz x / iz st) = ((x + st - 1) / st)%Z.
Proof.
  intros Hst. unfold Qceiling.
  assert (E : - (iz x / iz st) == iz (- x) / iz st).
  { rewrite iz_opp. field. apply iz_neq0. lia. }
  rewrite (Qfloor_comp _ _ E), Qfloor_iz_div. nia.
Qed.

Lemma Qceiling_div_neg x st : (st < 0)%Z -> Qceiling (iz x / iz st) = ((- x + (- st) - 1) / (- st))%Z.
Proof.
  intros Hst.
  assert (E : iz x / iz st == iz (- x) / iz (- st)).
  { rewrite !iz_opp. field. apply iz_neq0. lia. }
  rewrite (Qceiling_comp _ _ E). apply Qceiling_div_pos. lia.
Qed.

(* numpy's float arange cast to int = the integer arange, when the arguments are integers *)
Lemma np_arange_int_Z qa qb qst a b st :
  st <> 0%Z -> qa == iz a -> qb == iz b -> qst == iz st ->
  np_arange_int qa qb qst = torch_arange a b st.
Proof.
  intros Hst Ea Eb Es. unfold np_arange_int, torch_arange.
  assert (E1 : (qb - qa) / qst == iz (b - a) / iz st).
  { rewrite Ea, Eb, Es, iz_sub. reflexivity. }
  rewrite (Qceiling_comp _ _ E1).
  rewrite (Qtrunc_comp qa (iz a) Ea), Qtrunc_iz.
  assert (E2 : qa + qst == iz (a + st)) by (rewrite Ea, Es, iz_add; reflexivity).
  rewrite (Qtrunc_comp _ _ E2), Qtrunc_iz.
  replace (a + st - a)%Z with st by lia.
  destruct (Z.ltb_spec 0 st) as [Hp | Hn].
  - rewrite Qceiling_div_pos by exact Hp. reflexivity.
  - rewrite Qceiling_div_neg by lia. replace (- (b - a))%Z with (a - b)%Z by lia. reflexivity.
Qed.

Lemma even_half size : Z.even size = true -> (size = 2 * (size / 2))%Z.
Proof. intros H. rewrite Zeven_mod in H. apply Zeq_bool_eq in H. lia. Qed.

(* the index vector n of the ramp kernel: identical in both for every even size *)
Lemma filter_n_eq size : Z.even size = true -> sk_filter_n size = port_filter_n size.
Proof.
  intros He. pose proof (even_half size He) as Hs. set (m := (size / 2)%Z) in *.
  unfold sk_filter_n, port_filter_n. fold m.
  assert (Em : iz size / 2 == iz m).
  { rewrite Hs, iz_mul. change (iz 2) with 2. field. }
  f_equal.
  - apply np_arange_int_Z; [lia | reflexivity | | reflexivity].
    rewrite Em, iz_add. reflexivity.
  - apply np_arange_int_Z; [lia | | reflexivity | reflexivity].
    rewrite Em, iz_sub. reflexivity.
Qed.

Lemma ramp_kernel_eq size : Z.even size = true -> port_ramp_kernel size = sk_ramp_kernel size.
Proof. intros He. unfold port_ramp_kernel, sk_ramp_kernel. now rewrite filter_n_eq. Qed.

Lemma torch_arange_length a b st :
  length (torch_arange a b st) =
  Z.to_nat (if (0 <? st)%Z then (b - a + st - 1) / st else (a - b + - st - 1) / - st)%Z.
Proof. unfold torch_arange. now rewrite map_length, zrange_length. Qed.

Lemma torch_arange_nth a b st j d :
  (j < length (torch_arange a b st))%nat -> nth j (torch_arange a b st) d = (a + Z.of_nat j * st)%Z.
Proof.
  intros Hj. rewrite torch_arange_length in Hj. unfold torch_arange.
  rewrite (nth_map_in (fun i => (a + i * st)%Z) _ j d 0%Z) by (rewrite zrange_length; exact Hj).
  rewrite zrange_nth by exact Hj. reflexivity.
Qed.

(* closed form for sizes divisible by 4 (every padded FFT size is a power of two >= 64):
   len(n) = size/2 (so `f[1::2] = ...` is well-shaped) and n_j = min(2j+1, size-(2j+1)):
   the kernel is the even function f[k] = f[size-k] = -1/(pi k)^2 of the odd lags *)
Lemma filter_n_closed_form q :
  (1 <= q)%Z ->
  length (port_filter_n (4 * q)) = Z.to_nat (2 * q) /\
  forall j, (0 <= j < 2 * q)%Z ->
    nth (Z.to_nat j) (port_filter_n (4 * q)) 0%Z = Z.min (2 * j + 1) (4 * q - (2 * j + 1)).
Proof.
  intros Hq. unfold port_filter_n.
  replace (4 * q / 2)%Z with (2 * q)%Z by lia.
  assert (L1 : length (torch_arange 1 (2 * q + 1) 2) = Z.to_nat q).
  { rewrite torch_arange_length. cbn [Z.ltb Z.compare]. f_equal. lia. }
  assert (L2 : length (torch_arange (2 * q - 1) 0 (-2)) = Z.to_nat q).
  { rewrite torch_arange_length. cbn [Z.ltb Z.compare]. f_equal. cbn [Z.opp]. lia. }
  split.
  - rewrite app_length, L1, L2. lia.
  - intros j Hj. destruct (Z.lt_ge_cases j q) as [Hlt | Hge].
    + rewrite app_nth1 by (rewrite L1; lia).
      rewrite torch_arange_nth by (rewrite L1; lia). lia.
    + rewrite app_nth2 by (rewrite L1; lia). rewrite L1.
      rewrite torch_arange_nth by (rewrite L2; lia). lia.
Qed.

(* ================================================================== window arguments *)
Lemma np_vs_torch_window_arg M j : (2 <= M)%Z -> np_window_arg M j == torch_window_arg M j - 1.
Proof.
  intros HM. unfold np_window_arg, torch_window_arg.
  rewrite iz_add, !iz_sub, !iz_mul. change (iz 1) with 1. change (iz 2) with 2.
  field. intros E. assert (E1 : iz M == iz 1) by (change (iz 1) with 1; lra).
  apply iz_eq in E1. lia.
Qed.

Lemma cosine_coef_repaired size j :
  port_cosine_coef repaired size j == linspace_coef size false j.
Proof.
  unfold port_cosine_coef, repaired, linspace_coef. cbn [v_cosine_fixed].
  replace (size + 1 - 1)%Z with size by lia. reflexivity.
Qed.

(* as written the cosine filter samples sin at j*pi/(size-1) instead of j*pi/size: different for
   EVERY size >= 2 and every index but the one mapped to frequency 0 *)
Lemma cosine_coef_as_written_refuted size j :
  (2 <= size)%Z -> j <> 0%Z ->
  ~ port_cosine_coef as_written size j == linspace_coef size false j.
Proof.
  intros Hs Hj E. unfold port_cosine_coef, as_written, linspace_coef in E. cbn [v_cosine_fixed] in E.
  assert (N1 : ~ iz (size - 1) == 0) by (apply iz_neq0; lia).
  assert (N2 : ~ iz size == 0) by (apply iz_neq0; lia).
  assert (H1 : iz j * iz size == (iz j / iz (size - 1)) * (iz (size - 1) * iz size)) by (field; exact N1).
  rewrite E in H1.
  assert (H2 : (iz j / iz size) * (iz (size - 1) * iz size) == iz j * iz (size - 1)) by (field; exact N2).
  rewrite H2, <- !iz_mul in H1. apply iz_eq in H1. nia.
Qed.

Section FILTERP.
  Variables sinpi cospi sincpi : Q -> Q.
  Variable rampF : list (Q * Q) -> Z -> Q.
  Hypothesis sinpi_proper : forall a b, a == b -> sinpi a == sinpi b.
  Hypothesis cospi_proper : forall a b, a == b -> cospi a == cospi b.
  (* cos(pi (a - 1)) = - cos(pi a) *)
  Hypothesis cospi_shift : forall a, cospi (a - 1) == - cospi a.

  Lemma window_eq name size k :
    (2 <= size)%Z ->
    port_window sinpi cospi sincpi repaired name size k == sk_window sinpi cospi sincpi name size k.
  Proof.
    intros Hs. destruct name; cbn [port_window sk_window]; try reflexivity.
    - apply sinpi_proper. apply cosine_coef_repaired.
    - rewrite (cospi_proper _ _ (np_vs_torch_window_arg size (fftshift_src size k) Hs)).
      rewrite cospi_shift. ring.
    - rewrite (cospi_proper _ _ (np_vs_torch_window_arg size (fftshift_src size k) Hs)).
      rewrite cospi_shift. ring.
  Qed.

  Lemma filter_eq name size k :
    (2 <= size)%Z -> Z.even size = true ->
    port_filter sinpi cospi sincpi rampF repaired name size k
    == sk_filter sinpi cospi sincpi rampF name size k.
  Proof.
    intros Hs He. unfold port_filter, sk_filter. rewrite (ramp_kernel_eq size He).
    destruct name; try reflexivity; rewrite window_eq by exact Hs; reflexivity.
  Qed.
End FILTERP.

(* ======================================================================= iradon geometry *)
Lemma diagonal_spec N :
  (1 <= N)%Z -> ((diagonal N - 1) * (diagonal N - 1) < 2 * N * N <= diagonal N * diagonal N)%Z.
Proof.
  intros HN. unfold diagonal.
  pose proof (Z.sqrt_up_spec (2 * N * N)) as H. rewrite <- Z.sub_1_r in H. apply H. nia.
Qed.

Lemma diagonal_ge N : (1 <= N)%Z -> (N + 1 <= diagonal N)%Z.
Proof. intros HN. pose proof (diagonal_spec N HN). nia. Qed.

Lemma diagonal_margin N :
  (1 <= N)%Z -> (N / 2 <= diagonal N / 2 /\ N / 2 <= diagonal N - 1 - diagonal N / 2)%Z.
Proof.
  intros HN. pose proof (diagonal_spec N HN) as Hd. pose proof (diagonal_ge N HN) as Hg.
  destruct (Z.eq_dec N 1) as [-> | N1]; [vm_compute; split; discriminate|].
  destruct (Z.eq_dec N 2) as [-> | N2]; [vm_compute; split; discriminate|].
  assert (H2 : (N + 2 <= diagonal N)%Z) by nia.
  split; lia.
Qed.

Lemma padded_size_spec m :
  (1 <= m)%Z ->
  (2 * m <= padded_size m)%Z /\ (64 <= padded_size m)%Z /\
  (exists e, (0 <= e)%Z /\ padded_size m = (2 ^ e)%Z) /\
  (padded_size m = 64 \/ padded_size m < 4 * m)%Z.
Proof.
  intros Hm. unfold padded_size.
  pose proof (Z.log2_up_spec (2 * m)) as H. rewrite <- Z.sub_1_r in H.
  assert (H1 : (1 < 2 * m)%Z) by lia. specialize (H H1).
  pose proof (Z.log2_up_nonneg (2 * m)) as Hnn.
  assert (Hpos : (0 < Z.log2_up (2 * m))%Z) by (apply Z.log2_up_pos; lia).
  assert (Hpow : (2 ^ Z.log2_up (2 * m) = 2 * 2 ^ (Z.log2_up (2 * m) - 1))%Z).
  { rewrite <- Z.pow_succ_r by lia. f_equal. lia. }
  repeat split.
  - lia.
  - lia.
  - destruct (Z.max_spec 64 (2 ^ Z.log2_up (2 * m))) as [[_ ->] | [_ ->]].
    + exists (Z.log2_up (2 * m)). split; [exact Hnn | reflexivity].
    + exists 6%Z. split; [lia | reflexivity].
  - lia.
Qed.

Lemma det_size_repaired N circle :
  port_det_size repaired N circle = sk_det_size N circle /\
  port_pad_before repaired N circle = sk_pad_before N circle.
Proof. destruct circle; split; reflexivity. Qed.

(* as written the FFT length is computed from N instead of the padded detector length: at
   N = 31 the port filters with 64 frequencies, scikit-image with 128 (the hamming / hann /
   shepp-logan / cosine windows, sampled on a different frequency grid, then differ) *)
Lemma padded_size_as_written_refuted :
  exists N, padded_size (port_det_size as_written N true) <> padded_size (sk_det_size N true).
Proof. exists 31%Z. vm_compute. discriminate. Qed.

Lemma default_theta_repaired A i : port_default_theta repaired A i == sk_default_theta A i.
Proof.
  unfold port_default_theta, sk_default_theta, repaired, linspace_coef. cbn [v_theta_fixed].
  replace (A + 1 - 1)%Z with A by lia. reflexivity.
Qed.

Lemma default_theta_as_written_refuted A i :
  (2 <= A)%Z -> i <> 0%Z -> ~ port_default_theta as_written A i == sk_default_theta A i.
Proof.
  intros HA Hi E. unfold port_default_theta, sk_default_theta, as_written in E. cbn [v_theta_fixed] in E.
  apply (cosine_coef_as_written_refuted A i HA Hi).
  unfold port_cosine_coef, as_written. cbn [v_cosine_fixed].
  apply (Qmult_inj_l _ _ 180); [discriminate | exact E].
Qed.

(* ============================================================ np.interp vs floor/clamp/gather *)
Lemma Qle_bool_false x y : Qle_bool x y = false <-> y < x.
Proof.
  split; intros H.
  - apply Qnot_le_lt. intros L. apply Qle_bool_iff in L. congruence.
  - destruct (Qle_bool x y) eqn:E; [|reflexivity]. apply Qle_bool_iff in E.
    exfalso. apply (Qlt_not_le _ _ H E).
Qed.

(* the port's weights on the valid range [0, S-1] of t_idx *)
Lemma proj_in_range S (fp : Z -> Q) t :
  (2 <= S)%Z -> 0 <= t + iz (S / 2) -> t + iz (S / 2) <= iz (S - 1) ->
  let tidx := t + iz (S / 2) in let t0 := port_t0 S t in let w := tidx - iz t0 in
  (1 - w) * fp t0 + w * fp (t0 + 1)%Z == np_interp (- (S / 2)) S fp t.
Proof.
  intros HS Hlo Hhi. cbv zeta. unfold np_interp, port_t0.
  destruct (Qlt_le_dec t (iz (- (S / 2)))) as [H | _].
  { exfalso. rewrite iz_opp in H. lra. }
  destruct (Qlt_le_dec (iz (- (S / 2) + S - 1)) t) as [H | _].
  { exfalso. replace (- (S / 2) + S - 1)%Z with ((S - 1) - S / 2)%Z in H by lia.
    rewrite iz_sub in H. lra. }
  destruct (Qeq_bool t (iz (- (S / 2) + S - 1))) eqn:Eb.
  - apply Qeq_bool_iff in Eb.
    assert (Et : t + iz (S / 2) == iz (S - 1)).
    { rewrite Eb. rewrite <- iz_add. apply iz_eq_of. lia. }
    rewrite (Qfloor_comp _ _ Et), Qfloor_iz.
    unfold clampZ. replace (Z.min (S - 2) (Z.max 0 (S - 1))) with (S - 2)%Z by lia.
    replace (S - 2 + 1)%Z with (S - 1)%Z by lia.
    rewrite Et. rewrite !iz_sub. change (iz 1) with 1. change (iz 2) with 2. ring.
  - assert (Hne : ~ t == iz (- (S / 2) + S - 1)).
    { intros E. apply Qeq_bool_iff in E. congruence. }
    assert (Hlt : t + iz (S / 2) < iz (S - 1)).
    { apply Qle_lteq in Hhi. destruct Hhi as [L | E]; [exact L|]. exfalso. apply Hne.
      replace (- (S / 2) + S - 1)%Z with ((S - 1) - S / 2)%Z by lia. rewrite iz_sub. lra. }
    set (fl := Qfloor (t + iz (S / 2))).
    assert (Hfl0 : (0 <= fl)%Z).
    { unfold fl. change 0%Z with (Qfloor (iz 0)). apply Qfloor_resp_le. exact Hlo. }
    assert (Hfl1 : (fl <= S - 2)%Z).
    { assert (fl < S - 1)%Z; [|lia]. apply iz_lt. eapply Qle_lt_trans; [apply Qfloor_le | exact Hlt]. }
    unfold clampZ. replace (Z.min (S - 2) (Z.max 0 fl)) with fl by lia.
    assert (Ej : (Qfloor t - - (S / 2))%Z = fl).
    { unfold fl. rewrite Qfloor_add_Z. lia. }
    rewrite Ej.
    assert (Ed : iz (- (S / 2) + fl + 1) - iz (- (S / 2) + fl) == 1).
    { rewrite <- iz_sub. replace (- (S / 2) + fl + 1 - (- (S / 2) + fl))%Z with 1%Z by lia. reflexivity. }
    rewrite Ed. rewrite iz_add, iz_opp. field.
Qed.

(* repaired port = np.interp(left=0, right=0) for EVERY t (inside, at the ends, outside) *)
Lemma interp_eq S fp t :
  (2 <= S)%Z -> port_interp repaired S fp t == np_interp (- (S / 2)) S fp t.
Proof.
  intros HS. unfold port_interp, repaired. cbn [v_interp_mask]. cbv zeta.
  destruct (Qle_bool 0 (t + iz (S / 2))) eqn:E1; cbn [andb].
  - destruct (Qle_bool (t + iz (S / 2)) (iz (S - 1))) eqn:E2.
    + apply Qle_bool_iff in E1. apply Qle_bool_iff in E2. apply proj_in_range; assumption.
    + apply Qle_bool_false in E2. unfold np_interp.
      destruct (Qlt_le_dec t (iz (- (S / 2)))) as [_ | _]; [reflexivity|].
      destruct (Qlt_le_dec (iz (- (S / 2) + S - 1)) t) as [_ | H]; [reflexivity|].
      exfalso. replace (- (S / 2) + S - 1)%Z with ((S - 1) - S / 2)%Z in H by lia.
      rewrite iz_sub in H. lra.
  - apply Qle_bool_false in E1. unfold np_interp.
    destruct (Qlt_le_dec t (iz (- (S / 2)))) as [_ | H]; [reflexivity|].
    exfalso. rewrite iz_opp in H. lra.
Qed.

(* as written (no mask): equal on the valid range only *)
Lemma interp_as_written_in_range S fp t :
  (2 <= S)%Z -> 0 <= t + iz (S / 2) -> t + iz (S / 2) <= iz (S - 1) ->
  port_interp as_written S fp t == np_interp (- (S / 2)) S fp t.
Proof.
  intros HS Hlo Hhi. unfold port_interp, as_written. cbn [v_interp_mask].
  apply proj_in_range; assumption.
Qed.

(* … and refuted beyond the last detector pixel: it extrapolates where np.interp returns 0 *)
Lemma interp_as_written_refuted :
  exists S fp t, (2 <= S)%Z /\ ~ port_interp as_written S fp t == np_interp (- (S / 2)) S fp t.
Proof.
  exists 4%Z, (fun j => iz j), (5 # 2). split; [lia|]. intros E. vm_compute in E. discriminate E.
Qed.

Lemma Qsq_nonneg (a : Q) : 0 <= a * a.
Proof. destruct a as [p q]. unfold Qle, Qmult. cbn [Qnum Qden]. nia. Qed.

(* with circle=True, default output size and the sinogram padded to the diagonal, every pixel
   of the reconstruction disc projects into the detector: the mask never fires there *)
Lemma backproj_in_range N c s row col :
  (1 <= N)%Z -> c * c + s * s == 1 ->
  outside_circle N row col = false ->
  let S := diagonal N in
  0 <= port_t N c s row col + iz (S / 2) /\ port_t N c s row col + iz (S / 2) <= iz (S - 1).
Proof.
  intros HN Hcs Hin. cbv zeta. unfold port_t. unfold outside_circle in Hin. cbv zeta in Hin.
  apply Z.ltb_ge in Hin.
  set (R := (N / 2)%Z) in *. set (x := (col - R)%Z) in *. set (y := (row - R)%Z) in *.
  assert (HR : (0 <= R)%Z) by (unfold R; lia).
  set (t := iz x * c - iz y * s).
  assert (Hxy : iz x * iz x + iz y * iz y <= iz R * iz R).
  { rewrite <- !iz_mul, <- iz_add. apply (proj1 (iz_le _ _)). rewrite !Z.pow_2_r in Hin. lia. }
  assert (Ht2 : t * t <= iz R * iz R).
  { assert (Hc : t * t + (iz x * s + iz y * c) * (iz x * s + iz y * c)
                 == (iz x * iz x + iz y * iz y) * (c * c + s * s)) by (unfold t; ring).
    rewrite Hcs in Hc.
    pose proof (Qsq_nonneg (iz x * s + iz y * c)) as Hsq.
    set (u2 := (iz x * s + iz y * c) * (iz x * s + iz y * c)) in *.
    set (t2 := t * t) in *. set (r2 := iz x * iz x + iz y * iz y) in *.
    assert (E : t2 == r2 - u2) by (rewrite <- (Qmult_1_r r2), <- Hc; ring).
    rewrite E. lra. }
  assert (HR' : 0 <= iz R) by (apply (proj1 (iz_le 0 R)); exact HR).
  assert (Hlo : - iz R <= t) by nra.
  assert (Hhi : t <= iz R) by nra.
  destruct (diagonal_margin N HN) as [M1 M2]. fold R in M1, M2.
  apply iz_le in M1. apply iz_le in M2. rewrite !iz_sub in M2. rewrite iz_sub.
  change (iz 1) with 1 in *. split; lra.
Qed.

(* ================================================================================ iradon *)
Lemma port_t_eq_sk out c s row col : port_t out c s row col = sk_t out c s row col.
Proof. reflexivity. Qed.

Lemma iradon_eq hker pi A N circle ang sino row col :
  (2 <= N)%Z ->
  port_iradon hker pi repaired A N circle ang sino row col
  == sk_iradon hker pi A N circle ang sino row col.
Proof.
  intros HN. unfold port_iradon, sk_iradon. cbv zeta.
  destruct (det_size_repaired N circle) as [-> ->].
  assert (HS : (2 <= sk_det_size N circle)%Z).
  { unfold sk_det_size. destruct circle; [|exact HN]. pose proof (diagonal_ge N). lia. }
  assert (Eacc :
    sumQ (fun i => port_interp repaired (sk_det_size N circle)
                     (circ_filter hker (padded_size (sk_det_size N circle)) (sk_det_size N circle)
                        (pad_col (sk_pad_before N circle) N (sino i)))
                     (port_t (output_size N circle) (fst (ang i)) (snd (ang i)) row col)) (zrange A)
    == sumQ (fun i => np_interp (- (sk_det_size N circle / 2)) (sk_det_size N circle)
                     (circ_filter hker (padded_size (sk_det_size N circle)) (sk_det_size N circle)
                        (pad_col (sk_pad_before N circle) N (sino i)))
                     (sk_t (output_size N circle) (fst (ang i)) (snd (ang i)) row col)) (zrange A)).
  { apply sumQ_ext. intros i _. rewrite port_t_eq_sk. apply interp_eq. exact HS. }
  destruct (circle && outside_circle (output_size N circle) row col)%bool.
  - unfold Qdiv. ring.
  - rewrite Eacc. unfold Qdiv. ring.
Qed.

(* as written, even N, fed the same sinogram: refuted.  N = 4, one projection at 180 degrees
   (cos = -1, sin = 0), constant sinogram 1, identity filter; the disc pixel (row 2, col 0)
   projects to t_idx = 4 > N - 1: scikit-image reads the zero padding (0), the port
   extrapolates from detector pixels 2 and 3 (1 * pi / 2). *)
Lemma iradon_as_written_even_refuted :
  exists (N A : Z) (ang : Z -> Q * Q) (sino : Z -> Z -> Q) (row col : Z),
    Z.even N = true /\ (2 <= N)%Z /\ outside_circle N row col = false /\
    (fst (ang 0%Z)) * (fst (ang 0%Z)) + (snd (ang 0%Z)) * (snd (ang 0%Z)) == 1 /\
    ~ port_iradon delta_ker 1 as_written A N true ang sino row col
      == sk_iradon delta_ker 1 A N true ang sino row col.
Proof.
  exists 4%Z, 1%Z, (fun _ => (-1, 0)), (fun _ _ => 1), 2%Z, 0%Z.
  repeat split; try reflexivity; try lia.
  intros E. vm_compute in E. discriminate E.
Qed.

(* --- linearity *)
Lemma pad_col_lin pb N a f b g j :
  pad_col pb N (fun j => a * f j + b * g j) j == a * pad_col pb N f j + b * pad_col pb N g j.
Proof. unfold pad_col. destruct (_ && _)%bool; ring. Qed.

Lemma circ_filter_lin hker P S a f b g fg j :
  (forall m, fg m == a * f m + b * g m) ->
  circ_filter hker P S fg j == a * circ_filter hker P S f j + b * circ_filter hker P S g j.
Proof.
  intros H. unfold circ_filter. rewrite <- sumQ_lin. apply sumQ_ext. intros m _. cbv beta. rewrite (H m). ring.
Qed.

Lemma port_interp_lin v S a f b g fg t :
  (forall j, fg j == a * f j + b * g j) ->
  port_interp v S fg t == a * port_interp v S f t + b * port_interp v S g t.
Proof.
  intros H. unfold port_interp. cbv zeta.
  destruct (v_interp_mask v); [destruct (_ && _)%bool|]; rewrite ?H; ring.
Qed.

Lemma iradon_linear hker pi v A N circle ang a f b g row col :
  port_iradon hker pi v A N circle ang (lin_sino a f b g) row col
  == a * port_iradon hker pi v A N circle ang f row col
     + b * port_iradon hker pi v A N circle ang g row col.
Proof.
  unfold port_iradon. cbv zeta.
  set (S := port_det_size v N circle). set (pb := port_pad_before v N circle).
  set (P := padded_size S). set (out := output_size N circle).
  assert (E : forall i,
    port_interp v S (circ_filter hker P S (pad_col pb N (lin_sino a f b g i)))
                (port_t out (fst (ang i)) (snd (ang i)) row col)
    == a * port_interp v S (circ_filter hker P S (pad_col pb N (f i)))
                       (port_t out (fst (ang i)) (snd (ang i)) row col)
       + b * port_interp v S (circ_filter hker P S (pad_col pb N (g i)))
                         (port_t out (fst (ang i)) (snd (ang i)) row col)).
  { intros i. apply port_interp_lin. intros j. apply circ_filter_lin. intros m.
    unfold lin_sino. apply pad_col_lin. }
  destruct (circle && outside_circle out row col)%bool.
  - ring.
  - rewrite (sumQ_ext _ _ _ (fun i _ => E i)). rewrite sumQ_lin. ring.
Qed.

(* --- batched = per sinogram *)
Lemma batched_map_nth {A B} (f : A -> B) (xs : list A) b (d : A) (dB : B) :
  (b < length xs)%nat ->
  match squeeze0 (map f xs) with
  | Single x => length xs = 1%nat /\ x = f (nth b xs d)
  | Batch ys => (2 <= length xs)%nat /\ nth b ys dB = f (nth b xs d)
  end.
Proof.
  intros Hb. destruct xs as [|x [|y ys]]; cbn [map squeeze0 length] in *.
  - lia.
  - assert (b = 0%nat) by lia. subst. split; reflexivity.
  - split; [lia|].
    change (f x :: f y :: map f ys) with (map f (x :: y :: ys)).
    apply nth_map_in. exact Hb.
Qed.

Lemma iradon_batched_eq_single hker pi v A N circle ang sinos b d :
  (b < length sinos)%nat ->
  match port_iradon_batched hker pi v A N circle ang sinos with
  | Single x => length sinos = 1%nat /\ x = port_iradon_image hker pi v A N circle ang (nth b sinos d)
  | Batch ys => (2 <= length sinos)%nat /\
                nth b ys [] = port_iradon_image hker pi v A N circle ang (nth b sinos d)
  end.
Proof. intros Hb. unfold port_iradon_batched. apply batched_map_nth. exact Hb. Qed.
