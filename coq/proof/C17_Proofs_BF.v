(* C17 — proofs about the masked embedding (unwrap_bf_overlap_phase_torch, model bf_grid /
   bf_unwrap in model/C17_Model_Ext.v) *)
From QV.lib Require Import Prelude.
From QV.model Require Import C17_Model C17_Model_Ext.
From QV.proof Require Import C17_Proofs C17_Proofs_Unwrap C17_Proofs_Ext.
From Coq Require Import QArith Qround Qabs Lqa.
Local Close Scope Q_scope.
Set Implicit Arguments.

(* ---------------------------------------------------------------- embed / extract *)
Lemma embed_length (A : Type) (bf : list bool) (vals : list A) d :
  length (embed bf vals d) = length bf.
Proof.
  revert vals. induction bf as [|b r IH]; intros vals; cbn [embed length]; [reflexivity|].
  destruct b; [destruct vals|]; cbn [length]; rewrite IH; reflexivity.
Qed.

Definition count_true (bf : list bool) : nat := length (filter (fun b => b) bf).

(* grid[bf_mask] = vals; grid[bf_mask] gives vals back *)
Lemma extract_embed (A : Type) (bf : list bool) (vals : list A) d :
  length vals = count_true bf -> extract bf (embed bf vals d) = vals.
Proof.
  unfold count_true. revert vals. induction bf as [|b r IH]; intros vals Hl.
  - destruct vals; [reflexivity | discriminate].
  - destruct b; cbn [filter length] in Hl.
    + destruct vals as [|v vs]; [discriminate|]. cbn [embed extract]. f_equal. apply IH.
      cbn [length] in Hl. lia.
    + cbn [embed extract]. apply IH. exact Hl.
Qed.

Lemma extract_length (A : Type) (bf : list bool) (g : list A) :
  length g = length bf -> length (extract bf g) = count_true bf.
Proof.
  unfold count_true. revert g. induction bf as [|b r IH]; intros g Hl.
  - destruct g; reflexivity.
  - destruct g as [|v gs]; [discriminate|]. cbn [length] in Hl.
    destruct b; cbn [extract filter length]; rewrite IH by lia; reflexivity.
Qed.

(* two grids that are related on every bright-field pixel give related sample lists *)
Lemma extract_pointwise (A B : Type) (R : A -> B -> Prop) (bf : list bool) (g1 : list A)
      (g2 : list B) d1 d2 :
  length g1 = length bf -> length g2 = length bf ->
  (forall x, nth x bf false = true -> R (nth x g1 d1) (nth x g2 d2)) ->
  Forall2 R (extract bf g1) (extract bf g2).
Proof.
  revert g1 g2. induction bf as [|b r IH]; intros g1 g2 L1 L2 HR.
  - destruct g1, g2; try discriminate. constructor.
  - destruct g1 as [|v1 r1], g2 as [|v2 r2]; try discriminate.
    cbn [length] in L1, L2.
    assert (Hr : Forall2 R (extract r r1) (extract r r2)).
    { apply IH; try lia. intros x Hx. apply (HR (S x)). exact Hx. }
    destruct b; cbn [extract]; [|exact Hr].
    constructor; [|exact Hr]. apply (HR 0). reflexivity.
Qed.

Lemma mask_of_lt (l : list bool) x : mask_of l x = true -> x < length l.
Proof.
  unfold mask_of. intros H. destruct (Nat.lt_ge_cases x (length l)) as [Hl|Hg]; [exact Hl|].
  rewrite nth_overflow in H by exact Hg. discriminate.
Qed.

Lemma existsb_false_mask (l : list bool) x : existsb (fun b => b) l = false -> mask_of l x = false.
Proof.
  intros He. unfold mask_of. destruct (Nat.lt_ge_cases x (length l)) as [Hl|Hg].
  - apply (existsb_nth (fun b => b) l false Hl He).
  - apply nth_overflow. exact Hg.
Qed.

(* ---------------------------------------------------------------- max / min *)
Lemma maxQ_ge d l : (forall y, In y l -> y <= maxQ d l)%Q.
Proof.
  revert d. induction l as [|x r IH]; intros d y Hy; [destruct Hy|].
  cbn [maxQ]. destruct (Qle_bool x (maxQ x r)) eqn:E.
  - apply Qle_bool_iff in E. destruct Hy as [<-|Hy]; [exact E | apply IH; exact Hy].
  - assert (Hlt : (maxQ x r < x)%Q).
    { apply Qnot_le_lt. intros Hle. apply Qle_bool_iff in Hle. congruence. }
    destruct Hy as [<-|Hy]; [apply Qle_refl|].
    pose proof (IH x y Hy). lra.
Qed.

Lemma minQ_le d l : (forall y, In y l -> minQ d l <= y)%Q.
Proof.
  revert d. induction l as [|x r IH]; intros d y Hy; [destruct Hy|].
  cbn [minQ]. destruct (Qle_bool (minQ x r) x) eqn:E.
  - apply Qle_bool_iff in E. destruct Hy as [<-|Hy]; [exact E | apply IH; exact Hy].
  - assert (Hlt : (x < minQ x r)%Q).
    { apply Qnot_le_lt. intros Hle. apply Qle_bool_iff in Hle. congruence. }
    destruct Hy as [<-|Hy]; [apply Qle_refl|].
    pose proof (IH x y Hy). lra.
Qed.

Lemma span_bound l x y :
  x < length l -> y < length l -> (Qabs (nth x l 0 - nth y l 0) <= spanQ l)%Q.
Proof.
  intros Hx Hy. unfold spanQ.
  pose proof (maxQ_ge 0 l _ (nth_In l 0%Q Hx)). pose proof (maxQ_ge 0 l _ (nth_In l 0%Q Hy)).
  pose proof (minQ_le 0 l _ (nth_In l 0%Q Hx)). pose proof (minQ_le 0 l _ (nth_In l 0%Q Hy)).
  apply Qabs_Qle_condition. split; lra.
Qed.

(* ---------------------------------------------------------------- phase * mask *)
Lemma mulmask_length mask l : length (mulmask mask l) = length l.
Proof. unfold mulmask. rewrite map_length, seq_length. reflexivity. Qed.

Lemma mulmask_nth mask l x :
  x < length l -> nth x (mulmask mask l) 0%Q = (nth x l 0 * b2q (mask x))%Q.
Proof. intros Hx. unfold mulmask. apply nth_map_seq. exact Hx. Qed.

Lemma lfun_mulmask_in mask l x :
  mask x = true -> x < length l -> (lfun (mulmask mask l) x == nth x l 0)%Q.
Proof.
  intros Hm Hx. unfold lfun. rewrite mulmask_nth by exact Hx. rewrite Hm. cbn [b2q]. ring.
Qed.

Lemma lfun_mulmask_out mask l x : mask x = false -> (lfun (mulmask mask l) x == 0)%Q.
Proof.
  intros Hm. unfold lfun. destruct (Nat.lt_ge_cases x (length l)) as [Hl|Hg].
  - rewrite mulmask_nth by exact Hl. rewrite Hm. cbn [b2q]. ring.
  - rewrite nth_overflow by (rewrite mulmask_length; exact Hg). reflexivity.
Qed.

Lemma conn_const (E : nat -> nat -> Prop) (f : nat -> Z) :
  (forall x y, E x y -> f x = f y) -> forall x y, conn E x y -> f x = f y.
Proof. intros HE x y Hc. induction Hc; auto; congruence. Qed.

(* ---------------------------------------------------------------- the embedding route *)
Section BF.
  Variables (P : Q) (H W : nat) (wrap : bool).
  Variable ord : nat -> (nat -> bool) -> (nat -> Q) -> list (nat * nat).
  Variables (bf : list bool) (ang : list Q) (mask_bf : list bool) (two_pass : bool).
  Hypothesis HP : (0 < P)%Q.
  Hypothesis Hbf : length bf = H * W.
  (* whatever the sort does, each pass processes a permutation of the grid edges *)
  Hypothesis Hord : forall pass m f, Permutation (ord pass m f) (grid_pairs H W wrap m).

  Let n := H * W.
  Let pg := embed bf ang 0%Q.
  Let mg := embed bf mask_bf false.
  Let mask := mask_of mg.
  Let gp := grid_pairs H W wrap mask.

  Lemma pg_length : length pg = n.
  Proof. unfold pg. rewrite embed_length. exact Hbf. Qed.

  Lemma mask_lt x : mask x = true -> x < n.
  Proof.
    intros Hm. apply mask_of_lt in Hm. unfold mg in Hm. rewrite embed_length in Hm.
    unfold n. rewrite <- Hbf. exact Hm.
  Qed.
  Arguments mask_lt : clear implicits.

  Lemma ord_range pass f : prange n (ord pass mask f).
  Proof. eapply perm_prange; [apply Hord | apply grid_pairs_range]. Qed.

  Lemma ord_in pass f x y : In (x, y) (ord pass mask f) -> In (x, y) gp.
  Proof. intros Hxy. eapply Permutation_in; [apply Hord | exact Hxy]. Qed.

  (* ---- smooth field: recovered up to one constant per component of the mask *)
  Section Smooth.
    Variables (phi : nat -> Q) (K : nat -> Z).
    Hypothesis Hsmooth : forall x y, In (x, y) gp -> (Qabs (phi x - phi y) < P)%Q.
    (* the samples are the angles of exp(i phi): phi - 2P*K inside (-P, P] *)
    Hypothesis Hwrapped :
      forall x, mask x = true -> (lfun pg x == phi x - 2 * P * inject_Z (K x))%Q.
    Hypothesis Hangle : forall x, mask x = true -> (- P < lfun pg x /\ lfun pg x <= P)%Q.

    Let phi' (x : nat) : Q := if mask x then phi x else 0%Q.
    Let K' (x : nat) : Z := if mask x then K x else 0%Z.
    Let in1 := lfun (mulmask mask pg).

    Lemma in1_wrapped x : (in1 x == phi' x - 2 * P * inject_Z (K' x))%Q.
    Proof.
      unfold in1, phi', K'. destruct (mask x) eqn:Hm.
      - rewrite lfun_mulmask_in by (auto; rewrite pg_length; apply mask_lt; exact Hm).
        apply Hwrapped. exact Hm.
      - rewrite lfun_mulmask_out by exact Hm. change (inject_Z 0) with 0%Q. ring.
    Qed.

    Lemma in1_mask x : mask x = true -> (in1 x == lfun pg x)%Q.
    Proof.
      intros Hm. unfold in1. apply lfun_mulmask_in; [exact Hm|].
      rewrite pg_length. apply mask_lt. exact Hm.
    Qed.
    Arguments in1_mask : clear implicits.

    Lemma bf_grid_correct :
      exists G c,
        bf_grid P H W wrap ord bf ang mask_bf two_pass = Some G /\ length G = n /\
        (forall x y, conn (prel gp) x y -> (c x == c y)%Q) /\
        (forall x, mask x = true -> (nth x G 0 == phi x + c x)%Q).
    Proof.
      unfold bf_grid. cbv zeta. fold pg mg mask n.
      destruct (existsb (fun b => b) mg) eqn:Eany.
      2:{ exists pg, (fun _ => 0%Q). split; [reflexivity|]. split; [apply pg_length|]. split.
          - intros; reflexivity.
          - intros x Hm. unfold mask in Hm. rewrite (existsb_false_mask mg x Eany) in Hm. discriminate. }
      destruct (Qltb P (spanQ pg)) eqn:Espan.
      2:{ (* the whole grid spans at most P: returned as is; K is constant on every component *)
          apply Qltb_false in Espan.
          assert (HK : forall x y, conn (prel gp) x y -> K x = K y).
          { apply conn_const. intros x y Hxy. unfold prel in Hxy.
            destruct (grid_pairs_mask _ _ _ _ _ _ Hxy) as [Mx My].
            pose proof (mask_lt x Mx) as Lx. pose proof (mask_lt y My) as Ly.
            assert (Hd : (Qabs (lfun pg x - lfun pg y) <= P)%Q).
            { unfold lfun. eapply Qle_trans; [apply span_bound; rewrite pg_length; assumption | exact Espan]. }
            assert (Hi : find_wrap P (lfun pg x) (lfun pg y) = (K x - K y)%Z).
            { apply (@itoh_edge P (phi x) (phi y) (lfun pg x) (lfun pg y) (K x) (K y) HP
                       (Hsmooth x y Hxy) (Hwrapped x Mx) (Hwrapped y My)).
              eapply Qle_lt_trans; [exact Hd | lra]. }
            rewrite (find_wrap_zero Hd) in Hi. lia. }
          exists pg, (fun x => - (2 * P * inject_Z (K x)))%Q.
          split; [reflexivity|]. split; [apply pg_length|]. split.
          - intros x y Hc. rewrite (HK x y Hc). reflexivity.
          - intros x Hm. change (nth x pg 0%Q) with (lfun pg x). rewrite (Hwrapped x Hm). ring. }
      (* first pass on phase * mask *)
      assert (Hs1 : forall x y, In (x, y) gp -> (Qabs (phi' x - phi' y) < P)%Q).
      { intros x y Hxy. destruct (grid_pairs_mask _ _ _ _ _ _ Hxy) as [Mx My].
        unfold phi'. rewrite Mx, My. apply Hsmooth. exact Hxy. }
      assert (Hr1 : forall x y, In (x, y) gp -> (Qabs (in1 x - in1 y) < 2 * P)%Q).
      { intros x y Hxy. destruct (grid_pairs_mask _ _ _ _ _ _ Hxy) as [Mx My].
        rewrite (in1_mask x Mx), (in1_mask y My).
        destruct (Hangle x Mx). destruct (Hangle y My). apply Qabs_Qlt_condition. split; lra. }
      destruct (@unwrap_correct_grid P H W wrap mask (ord 0 mask in1) phi' in1 K' HP
                  (Hord 0 mask in1) Hs1 in1_wrapped Hr1) as (o1 & c1 & R1 & L1 & Hc1 & Ho1).
      fold in1. fold n in R1, L1, Ho1. rewrite R1.
      set (g1 := mulmask mask o1).
      assert (Lg1 : length g1 = n) by (unfold g1; rewrite mulmask_length; exact L1).
      assert (Hg1 : forall x, mask x = true -> (lfun g1 x == phi x + c1 x)%Q).
      { intros x Hm. pose proof (mask_lt x Hm) as Lx. unfold g1.
        rewrite lfun_mulmask_in by (auto; rewrite L1; exact Lx).
        rewrite (Ho1 x Lx). unfold phi'. rewrite Hm. reflexivity. }
      destruct two_pass.
      2:{ exists g1, c1. split; [reflexivity|]. split; [exact Lg1|]. split; [exact Hc1|].
          intros x Hm. apply Hg1. exact Hm. }
      (* second pass: the input is already unwrapped, it comes back up to a constant *)
      assert (Hs2 : forall x y, In (x, y) (ord 1 mask (lfun g1)) -> (Qabs (lfun g1 x - lfun g1 y) <= P)%Q).
      { intros x y Hxy. apply ord_in in Hxy. destruct (grid_pairs_mask _ _ _ _ _ _ Hxy) as [Mx My].
        rewrite (Hg1 x Mx), (Hg1 y My).
        rewrite (Hc1 x y (conn_edge (prel gp) x y Hxy)).
        pose proof (Hsmooth x y Hxy) as Hd. apply Qabs_Qlt_condition in Hd.
        apply Qabs_Qle_condition. split; lra. }
      destruct (@smooth_unchanged P n (ord 1 mask (lfun g1)) (ord_range 1 (lfun g1)) (lfun g1) Hs2)
        as [_ (o2 & c0 & R2 & L2 & Ho2)].
      rewrite R2.
      exists (mulmask mask o2), (fun x => c1 x + c0)%Q.
      split; [reflexivity|]. split; [rewrite mulmask_length; exact L2|]. split.
      - intros x y Hc. rewrite (Hc1 x y Hc). reflexivity.
      - intros x Hm. pose proof (mask_lt x Hm) as Lx.
        change (nth x (mulmask mask o2) 0%Q) with (lfun (mulmask mask o2) x).
        rewrite lfun_mulmask_in by (auto; rewrite L2; exact Lx).
        rewrite (Ho2 x Lx), (Hg1 x Hm). ring.
    Qed.
  End Smooth.

  (* ---- any input: multiples of 2P plus one constant on the mask *)
  Lemma bf_grid_congruent :
    exists G c0,
      bf_grid P H W wrap ord bf ang mask_bf two_pass = Some G /\ length G = n /\
      forall x, mask x = true ->
                exists k : Z, (nth x G 0 - lfun pg x == 2 * P * inject_Z k + c0)%Q.
  Proof.
    unfold bf_grid. cbv zeta. fold pg mg mask n.
    assert (Hid : exists G c0, Some pg = Some G /\ length G = n /\
              forall x, mask x = true -> exists k : Z, (nth x G 0 - lfun pg x == 2 * P * inject_Z k + c0)%Q).
    { exists pg, 0%Q. split; [reflexivity|]. split; [apply pg_length|].
      intros x _. exists 0%Z. unfold lfun. change (inject_Z 0) with 0%Q. ring. }
    destruct (existsb (fun b => b) mg); [|exact Hid].
    destruct (Qltb P (spanQ pg)); [|exact Hid].
    set (in1 := lfun (mulmask mask pg)).
    destruct (@unwrap_congruent P n (ord 0 mask in1) (ord_range 0 in1) in1) as (o1 & c01 & R1 & L1 & Ho1).
    rewrite R1.
    set (g1 := mulmask mask o1).
    assert (Hg1 : forall x, mask x = true ->
              exists k : Z, (lfun g1 x - lfun pg x == 2 * P * inject_Z k + c01)%Q).
    { intros x Hm. pose proof (mask_lt x Hm) as Lx. destruct (Ho1 x Lx) as [k Hk]. exists k.
      unfold g1. rewrite lfun_mulmask_in by (auto; rewrite L1; exact Lx).
      rewrite <- Hk. unfold in1.
      rewrite (@lfun_mulmask_in mask pg x Hm) by (rewrite pg_length; exact Lx). reflexivity. }
    destruct two_pass.
    2:{ exists g1, c01. split; [reflexivity|]. split; [unfold g1; rewrite mulmask_length; exact L1|].
        exact Hg1. }
    destruct (@unwrap_congruent P n (ord 1 mask (lfun g1)) (ord_range 1 (lfun g1)) (lfun g1))
      as (o2 & c02 & R2 & L2 & Ho2).
    rewrite R2.
    exists (mulmask mask o2), (c01 + c02)%Q.
    split; [reflexivity|]. split; [rewrite mulmask_length; exact L2|].
    intros x Hm. pose proof (mask_lt x Hm) as Lx.
    destruct (Hg1 x Hm) as [k1 Hk1]. destruct (Ho2 x Lx) as [k2 Hk2].
    exists (k1 + k2)%Z.
    change (nth x (mulmask mask o2) 0%Q) with (lfun (mulmask mask o2) x).
    rewrite lfun_mulmask_in by (auto; rewrite L2; exact Lx).
    rewrite inject_Z_plus.
    setoid_replace (nth x o2 0 - lfun pg x)%Q
      with ((nth x o2 0 - lfun g1 x) + (lfun g1 x - lfun pg x))%Q by ring.
    rewrite Hk2, Hk1. ring.
  Qed.
End BF.

(* the code's own order satisfies the order hypothesis *)
Lemma bf_code_ord_perm P H W wrap pass m f :
  Permutation (bf_code_ord P H W wrap pass m f) (grid_pairs H W wrap m).
Proof. unfold bf_code_ord. apply code_order_perm. Qed.

(* ---------------------------------------------------------------- statements as exported *)
Lemma bf_correct_full :
  forall (P : Q) (H W : nat) (wrap : bool)
         (ord : nat -> (nat -> bool) -> (nat -> Q) -> list (nat * nat))
         (bf : list bool) (ang : list Q) (mask_bf : list bool) (two_pass : bool)
         (phi : nat -> Q) (K : nat -> Z),
    let pg := embed bf ang 0%Q in
    let mask := mask_of (embed bf mask_bf false) in
    let gp := grid_pairs H W wrap mask in
    (0 < P)%Q -> length bf = H * W ->
    (forall pass m f, Permutation (ord pass m f) (grid_pairs H W wrap m)) ->
    (forall x y, In (x, y) gp -> (Qabs (phi x - phi y) < P)%Q) ->
    (forall x, mask x = true -> (lfun pg x == phi x - 2 * P * inject_Z (K x))%Q) ->
    (forall x, mask x = true -> (- P < lfun pg x /\ lfun pg x <= P)%Q) ->
    exists (G : list Q) (c : nat -> Q),
      bf_grid P H W wrap ord bf ang mask_bf two_pass = Some G /\
      bf_unwrap P H W wrap ord bf ang mask_bf two_pass = Some (extract bf G) /\
      length G = H * W /\
      (forall x y, conn (prel gp) x y -> (c x == c y)%Q) /\
      (forall x, mask x = true -> (nth x G 0%Q == phi x + c x)%Q).
Proof.
  intros P H W wrap ord bf ang mask_bf two_pass phi K pg mask gp HP Hbf Hord Hs Hw Ha.
  destruct (@bf_grid_correct P H W wrap ord bf ang mask_bf two_pass HP Hbf Hord phi K Hs Hw Ha)
    as (G & c & R & L & Hc & Ho).
  exists G, c. split; [exact R|]. split; [unfold bf_unwrap; rewrite R; reflexivity|].
  split; [exact L|]. split; [exact Hc | exact Ho].
Qed.

Lemma bf_congruent_full :
  forall (P : Q) (H W : nat) (wrap : bool)
         (ord : nat -> (nat -> bool) -> (nat -> Q) -> list (nat * nat))
         (bf : list bool) (ang : list Q) (mask_bf : list bool) (two_pass : bool),
    let pg := embed bf ang 0%Q in
    let mask := mask_of (embed bf mask_bf false) in
    length bf = H * W ->
    (forall pass m f, Permutation (ord pass m f) (grid_pairs H W wrap m)) ->
    exists (G : list Q) (c0 : Q),
      bf_grid P H W wrap ord bf ang mask_bf two_pass = Some G /\ length G = H * W /\
      forall x, mask x = true ->
                exists k : Z, (nth x G 0%Q - lfun pg x == 2 * P * inject_Z k + c0)%Q.
Proof.
  intros P H W wrap ord bf ang mask_bf two_pass pg mask Hbf Hord.
  exact (@bf_grid_congruent P H W wrap ord bf ang mask_bf two_pass Hbf Hord).
Qed.

Lemma bf_embedding_full :
  (forall P H W wrap pass m f,
     Permutation (bf_code_ord P H W wrap pass m f) (grid_pairs H W wrap m)) /\
  (forall (A : Type) (bf : list bool) (vals : list A) (d : A),
     length vals = count_true bf -> extract bf (embed bf vals d) = vals) /\
  (forall (A B : Type) (R : A -> B -> Prop) (bf : list bool) (g1 : list A) (g2 : list B) d1 d2,
     length g1 = length bf -> length g2 = length bf ->
     (forall x, nth x bf false = true -> R (nth x g1 d1) (nth x g2 d2)) ->
     Forall2 R (extract bf g1) (extract bf g2)).
Proof.
  split; [exact bf_code_ord_perm|]. split; [exact extract_embed | exact extract_pointwise].
Qed.
