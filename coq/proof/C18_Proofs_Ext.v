(* C18 — round-3 extension: detector masks and the looped path's in-place multiplication
   (call histories), the curve_fit families (plane / parabola / bezier_two) under the
   least-squares contract, non-integer shifts (what holds exactly), detectors with a dimension
   of 1 (repaired normalisation). *)
From QV.lib Require Import Prelude Chunks C18_QTensor.
From QV.model Require Import C18_Model.
From QV.proof Require Import C18_Proofs C18_Proofs_Shift.
From Coq Require Import QArith Qround Lqa.
Local Close Scope Q_scope.

(* ------------------------------------------------------------------ Forall2 plumbing *)
Lemma Forall2_refl' {A : Type} (R : A -> A -> Prop) (l : list A) :
  (forall x, R x x) -> Forall2 R l l.
Proof. intros HR. induction l; constructor; auto. Qed.

Lemma Forall2_trans' {A : Type} (R : A -> A -> Prop) :
  (forall x y z, R x y -> R y z -> R x z) ->
  forall a b c : list A, Forall2 R a b -> Forall2 R b c -> Forall2 R a c.
Proof.
  intros HR a b c Hab. revert c. induction Hab as [|x y a b Hxy _ IH]; intros c Hbc.
  - inversion Hbc; constructor.
  - inversion Hbc as [|? z ? c' Hyz Hbc']; subst. constructor; [eapply HR; eassumption | apply IH; assumption].
Qed.

Lemma Forall2_map_both {A B : Type} (R : A -> A -> Prop) (S : B -> B -> Prop) (f : A -> B) (a b : list A) :
  (forall x y, R x y -> S (f x) (f y)) -> Forall2 R a b -> Forall2 S (map f a) (map f b).
Proof. intros Hf Hab. induction Hab; cbn [map]; constructor; auto. Qed.

Lemma rowq_refl (r : list Q) : Forall2 Qeq r r.
Proof. apply Forall2_refl'. intros x. reflexivity. Qed.

Lemma rowq_trans (a b c : list Q) : Forall2 Qeq a b -> Forall2 Qeq b c -> Forall2 Qeq a c.
Proof. apply Forall2_trans'. intros x y z Hxy Hyz. rewrite Hxy. exact Hyz. Qed.

Lemma meq_refl (m : matrix) : meq m m.
Proof. apply Forall2_refl'. apply rowq_refl. Qed.

Lemma meq_trans (a b c : matrix) : meq a b -> meq b c -> meq a c.
Proof. apply Forall2_trans'. apply rowq_trans. Qed.

(* a scan of patterns equal up to == entry by entry *)
Definition scan_eq (S T : list (list matrix)) : Prop := Forall2 (Forall2 meq) S T.
(* results (com_r, com_c) equal up to == *)
Definition req (a b : list (list Q) * list (list Q)) : Prop :=
  meq (fst a) (fst b) /\ meq (snd a) (snd b).

Lemma scan_eq_refl S : scan_eq S S.
Proof. apply Forall2_refl'. intros row. apply Forall2_refl'. apply meq_refl. Qed.

Lemma scan_eq_trans A B C : scan_eq A B -> scan_eq B C -> scan_eq A C.
Proof. apply Forall2_trans'. apply Forall2_trans'. apply meq_trans. Qed.

(* ------------------------------------------------------------------ sums respect == *)
Lemma sum2_meq (a b : matrix) : meq a b -> (sum2 a == sum2 b)%Q.
Proof.
  intros Hab. unfold sum2. apply sumQ_Forall2.
  induction Hab as [|x y a b Hxy _ IH]; cbn [map]; constructor; [apply sumQ_Forall2; exact Hxy | exact IH].
Qed.

Lemma mul1_meq_l (a b g : list Q) : Forall2 Qeq a b -> Forall2 Qeq (mul1 a g) (mul1 b g).
Proof.
  intros Hab. revert g. induction Hab as [|x y a b Hxy _ IH]; intros [|z g]; cbn [mul1 map2]; try constructor.
  - rewrite Hxy. reflexivity.
  - apply IH.
Qed.

Lemma mul2_meq_l (a b g : matrix) : meq a b -> meq (mul2 a g) (mul2 b g).
Proof.
  intros Hab. revert g. induction Hab as [|x y a b Hxy _ IH]; intros [|z g]; cbn [mul2 map2]; try constructor.
  - apply mul1_meq_l. exact Hxy.
  - apply IH.
Qed.

Lemma com_weighted_meq H W (I J : matrix) :
  meq I J -> peq (com_weighted H W I) (com_weighted H W J).
Proof.
  intros HIJ. unfold peq, com_weighted, moment_r, moment_c. cbn [fst snd].
  rewrite (sum2_meq _ _ HIJ).
  rewrite (sum2_meq _ _ (mul2_meq_l I J (mesh_r H W) HIJ)).
  rewrite (sum2_meq _ _ (mul2_meq_l I J (mesh_c H W) HIJ)).
  split; reflexivity.
Qed.

(* ------------------------------------------------------------------ 0/1 masks: idempotence *)
Lemma mul1_idem (row mrow : list Q) :
  Forall (fun x => (x == 0)%Q \/ (x == 1)%Q) mrow ->
  Forall2 Qeq (mul1 (mul1 row mrow) mrow) (mul1 row mrow).
Proof.
  revert mrow. induction row as [|x row IH]; intros [|m mrow] Hb; cbn [mul1 map2]; try constructor.
  - inversion Hb as [|? ? [H0|H1] _]; subst; [rewrite H0 | rewrite H1]; ring.
  - apply IH. inversion Hb; assumption.
Qed.

Lemma mul2_idem (I m : matrix) :
  binary_mask m -> meq (mul2 (mul2 I m) m) (mul2 I m).
Proof.
  revert m. induction I as [|r I IH]; intros [|mr m] Hb; cbn [mul2 map2]; try constructor.
  - apply mul1_idem. inversion Hb; assumption.
  - apply IH. inversion Hb; assumption.
Qed.

(* applying a 0/1 detector mask twice is applying it once (entry by entry, any shapes) *)
Lemma mask_idempotent_binary (I m : matrix) :
  binary_mask m ->
  meq (apply_mask (Some m) (apply_mask (Some m) I)) (apply_mask (Some m) I).
Proof. intros Hb. cbn [apply_mask]. apply mul2_idem. exact Hb. Qed.

(* ... hence the centre of mass the looped path computes on an array it has already multiplied
   in place is unchanged *)
Lemma inplace_loop_binary_stable H W (I m : matrix) :
  binary_mask m ->
  peq (com_weighted H W (apply_mask (Some m) (apply_mask (Some m) I)))
      (com_weighted H W (apply_mask (Some m) I)).
Proof. intros Hb. apply com_weighted_meq. apply mask_idempotent_binary. exact Hb. Qed.

(* NOT so for a fractional mask: weights (1, 1/2) then (1, 1/4) *)
Lemma inplace_loop_fractional_differs :
  exists (I m : matrix),
    wf_mat 1 2 I /\ wf_mat 1 2 m /\
    Forall (Forall (fun x => (0 <= x <= 1)%Q)) m /\
    ~ peq (com_weighted 1 2 (apply_mask (Some m) (apply_mask (Some m) I)))
          (com_weighted 1 2 (apply_mask (Some m) I)).
Proof.
  exists [[1; 1]]%Q, [[1; 1 # 2]]%Q. repeat split; try (repeat constructor; fail).
  - repeat constructor; cbn; discriminate.
  - intros [_ Hc]. vm_compute in Hc. discriminate Hc.
Qed.

(* ------------------------------------------------------------------ call histories *)
(* repaired code: whatever was called before on the same array (either path, any mask), every
   call returns the value of the vectorised path on the ORIGINAL array with that call's mask *)
Lemma com_history_pure Rn Cn H W I4 calls :
  wf_scan Rn Cn I4 ->
  com_history (com_step Rn Cn H W) I4 calls
  = map (fun c => com_vectorised H W (call_mask c) I4) calls.
Proof.
  intros Hwf. induction calls as [|c calls IH]; [reflexivity|].
  destruct c as [[|] m]; cbn [com_history com_step map call_mask]; rewrite IH; [reflexivity|].
  rewrite (com_vectorised_eq_looped Rn Cn H W m I4 Hwf). reflexivity.
Qed.

(* the code as written before the fix: a looped call with a 0/1 mask destroys the caller's
   array, a later call without mask no longer sees the data *)
Lemma com_history_inplace_differs :
  exists (I4 : list (list matrix)) (m : matrix),
    wf_scan 1 1 I4 /\ Forall (Forall (wf_mat 2 3)) I4 /\ wf_mat 2 3 m /\ binary_mask m /\
    exists r1 r2,
      com_history (com_step_inplace 1 1 2 3) I4 [ComCall false (Some m); ComCall true None] = [r1; r2] /\
      ~ meq (fst r2) (fst (com_vectorised 2 3 None I4)).
Proof.
  exists [[zmat [[1; 1; 1]; [1; 1; 4]]%Z]], (zmat [[1; 1; 1]; [1; 1; 0]]%Z).
  split; [repeat constructor|]. split; [repeat constructor|]. split; [repeat constructor|].
  split; [repeat constructor; (left; reflexivity) || (right; reflexivity)|].
  eexists. eexists. split; [cbn [com_history com_step_inplace]; reflexivity|].
  intros Hm. inversion Hm as [|? ? ? ? Hrow _]; subst. inversion Hrow as [|? ? ? ? Hq _]; subst.
  vm_compute in Hq. discriminate Hq.
Qed.

(* ... but with ONE 0/1 mask used throughout, idempotence makes every call of the history
   return (up to ==) the value on the original array *)
Lemma map_apply_mask_2d (m : option matrix) (f : matrix -> Q) (S : list (list matrix)) :
  map (map (fun I => f (apply_mask m I))) S = map (map f) (map (map (apply_mask m)) S).
Proof. rewrite map_map_2d. reflexivity. Qed.

Lemma com_vectorised_masked_compat H W (m : matrix) (S T : list (list matrix)) :
  scan_eq (map (map (apply_mask (Some m))) S) (map (map (apply_mask (Some m))) T) ->
  req (com_vectorised H W (Some m) S) (com_vectorised H W (Some m) T).
Proof.
  intros HST. rewrite !com_vectorised_eq. unfold req. cbn [fst snd].
  rewrite (map_apply_mask_2d (Some m) (fun J => fst (com_weighted H W J)) S),
          (map_apply_mask_2d (Some m) (fun J => fst (com_weighted H W J)) T),
          (map_apply_mask_2d (Some m) (fun J => snd (com_weighted H W J)) S),
          (map_apply_mask_2d (Some m) (fun J => snd (com_weighted H W J)) T).
  split.
  - eapply Forall2_map_both; [| exact HST]. intros r1 r2 Hr.
    eapply Forall2_map_both; [| exact Hr]. intros I J HIJ. apply (com_weighted_meq H W I J HIJ).
  - eapply Forall2_map_both; [| exact HST]. intros r1 r2 Hr.
    eapply Forall2_map_both; [| exact Hr]. intros I J HIJ. apply (com_weighted_meq H W I J HIJ).
Qed.

Lemma wf_scan_map Rn Cn (f : matrix -> matrix) S : wf_scan Rn Cn S -> wf_scan Rn Cn (map (map f) S).
Proof.
  intros [HR HC]. split; [rewrite map_length; exact HR|].
  apply Forall_forall. intros row Hin. apply in_map_iff in Hin. destruct Hin as [r0 [<- Hr0]].
  rewrite map_length. rewrite Forall_forall in HC. apply HC. exact Hr0.
Qed.

Lemma masked_twice_scan_eq (m : matrix) (S : list (list matrix)) :
  binary_mask m ->
  scan_eq (map (map (apply_mask (Some m))) (map (map (apply_mask (Some m))) S))
          (map (map (apply_mask (Some m))) S).
Proof.
  intros Hb. rewrite map_map_2d.
  induction S as [|row S IH]; cbn [map]; constructor; [| exact IH].
  induction row as [|I row IHr]; cbn [map]; constructor; [| exact IHr].
  apply mask_idempotent_binary. exact Hb.
Qed.

Lemma com_history_inplace_binary_gen Rn Cn H W (m : matrix) (I4 : list (list matrix)) calls :
  binary_mask m ->
  Forall (fun c => call_mask c = Some m) calls ->
  forall S, wf_scan Rn Cn S ->
    scan_eq (map (map (apply_mask (Some m))) S) (map (map (apply_mask (Some m))) I4) ->
    Forall (fun r => req r (com_vectorised H W (Some m) I4))
           (com_history (com_step_inplace Rn Cn H W) S calls).
Proof.
  intros Hb Hcalls. induction Hcalls as [|c calls Hc _ IH]; intros S HwfS HS; [constructor|].
  destruct c as [[|] mc]; cbn [call_mask] in Hc; subst mc; cbn [com_history com_step_inplace].
  - constructor; [apply com_vectorised_masked_compat; exact HS | apply IH; assumption].
  - constructor.
    + rewrite (com_vectorised_eq_looped Rn Cn H W (Some m) S HwfS).
      apply com_vectorised_masked_compat. exact HS.
    + apply IH; [apply wf_scan_map; exact HwfS|].
      eapply scan_eq_trans; [apply masked_twice_scan_eq; exact Hb | exact HS].
Qed.

Lemma com_history_inplace_binary Rn Cn H W (m : matrix) (I4 : list (list matrix)) calls :
  wf_scan Rn Cn I4 -> binary_mask m ->
  Forall (fun c => call_mask c = Some m) calls ->
  Forall (fun r => req r (com_vectorised H W (Some m) I4))
         (com_history (com_step_inplace Rn Cn H W) I4 calls).
Proof.
  intros Hwf Hb Hcalls.
  apply (com_history_inplace_binary_gen Rn Cn H W m I4 calls Hb Hcalls I4 Hwf). apply scan_eq_refl.
Qed.

(* ------------------------------------------------------------------ curve_fit families *)
Lemma const_in_plane (k : Q) (r c : nat) : (plane_fn (plane_of_const k) r c == const_fn k r c)%Q.
Proof. unfold plane_fn, plane_of_const, const_fn. ring. Qed.

Lemma plane_in_parabola (p : Q * Q * Q) (r c : nat) :
  (parabola_fn (parabola_of_plane p) r c == plane_fn p r c)%Q.
Proof. destruct p as [[mx my] b]. unfold parabola_fn, parabola_of_plane, plane_fn. ring. Qed.

Lemma parabola_in_bezier2 (p : Q * Q * Q * Q * Q * Q) (r c : nat) :
  (bezier2_fn (bezier2_of_parabola p) r c == parabola_fn p r c)%Q.
Proof.
  destruct p as [[[[[c0 cx1] cx2] cy1] cy2] cxy].
  unfold bezier2_fn, bezier2_of_parabola, parabola_fn.
  set (x := Qn r). set (y := Qn c). ring.
Qed.

(* a least-squares minimiser over a family f reproduces data that lie exactly on a member of a
   SUB-family f0 (embedded by emb) *)
Lemma lsq_fit_subfamily {P P0 : Type} (f : P -> nat -> nat -> Q) (f0 : P0 -> nat -> nat -> Q)
      (emb : P0 -> P) (Rn Cn : nat) (data : list (list Q)) (p0 : P0) (p : P) :
  (forall q r c, (f (emb q) r c == f0 q r c)%Q) ->
  (forall r c, r < Rn -> c < Cn -> (f0 p0 r c == get data r c)%Q) ->
  (forall q, (sse f Rn Cn data p <= sse f Rn Cn data q)%Q) ->
  forall r c, r < Rn -> c < Cn -> (f p r c == get data r c)%Q.
Proof.
  intros Hemb H0 Hmin. apply (lsq_fit_exact f Rn Cn data (emb p0) p); [| exact Hmin].
  intros r c Hr Hc. rewrite Hemb. apply H0; assumption.
Qed.

Lemma lsq_parabola_fits_plane Rn Cn data (p0 : Q * Q * Q) p :
  (forall r c, r < Rn -> c < Cn -> (plane_fn p0 r c == get data r c)%Q) ->
  (forall q, (sse parabola_fn Rn Cn data p <= sse parabola_fn Rn Cn data q)%Q) ->
  forall r c, r < Rn -> c < Cn -> (parabola_fn p r c == get data r c)%Q.
Proof. apply (lsq_fit_subfamily parabola_fn plane_fn parabola_of_plane). exact plane_in_parabola. Qed.

Lemma lsq_bezier2_fits_parabola Rn Cn data (p0 : Q * Q * Q * Q * Q * Q) p :
  (forall r c, r < Rn -> c < Cn -> (parabola_fn p0 r c == get data r c)%Q) ->
  (forall q, (sse bezier2_fn Rn Cn data p <= sse bezier2_fn Rn Cn data q)%Q) ->
  forall r c, r < Rn -> c < Cn -> (bezier2_fn p r c == get data r c)%Q.
Proof. apply (lsq_fit_subfamily bezier2_fn parabola_fn bezier2_of_parabola). exact parabola_in_bezier2. Qed.

Lemma lsq_bezier2_fits_plane Rn Cn data (p0 : Q * Q * Q) p :
  (forall r c, r < Rn -> c < Cn -> (plane_fn p0 r c == get data r c)%Q) ->
  (forall q, (sse bezier2_fn Rn Cn data p <= sse bezier2_fn Rn Cn data q)%Q) ->
  forall r c, r < Rn -> c < Cn -> (bezier2_fn p r c == get data r c)%Q.
Proof.
  apply (lsq_fit_subfamily bezier2_fn plane_fn (fun q => bezier2_of_parabola (parabola_of_plane q))).
  intros q r c. rewrite parabola_in_bezier2. apply plane_in_parabola.
Qed.

Lemma lsq_plane_fits_const Rn Cn data (k : Q) p :
  (forall r c, r < Rn -> c < Cn -> (k == get data r c)%Q) ->
  (forall q, (sse plane_fn Rn Cn data p <= sse plane_fn Rn Cn data q)%Q) ->
  forall r c, r < Rn -> c < Cn -> (plane_fn p r c == get data r c)%Q.
Proof. apply (lsq_fit_subfamily plane_fn const_fn plane_of_const). exact const_in_plane. Qed.

(* every curve_fit family of fit_origin reproduces constant and plane data *)
Lemma lsq_any_family_fits_plane Rn Cn data (p0 : Q * Q * Q) :
  (forall r c, r < Rn -> c < Cn -> (plane_fn p0 r c == get data r c)%Q) ->
  (forall p, (forall q, (sse plane_fn Rn Cn data p <= sse plane_fn Rn Cn data q)%Q) ->
             forall r c, r < Rn -> c < Cn -> (plane_fn p r c == get data r c)%Q) /\
  (forall p, (forall q, (sse parabola_fn Rn Cn data p <= sse parabola_fn Rn Cn data q)%Q) ->
             forall r c, r < Rn -> c < Cn -> (parabola_fn p r c == get data r c)%Q) /\
  (forall p, (forall q, (sse bezier2_fn Rn Cn data p <= sse bezier2_fn Rn Cn data q)%Q) ->
             forall r c, r < Rn -> c < Cn -> (bezier2_fn p r c == get data r c)%Q).
Proof.
  intros H0. split; [| split]; intros p Hmin.
  - apply (lsq_fit_exact plane_fn Rn Cn data p0 p H0 Hmin).
  - apply (lsq_parabola_fits_plane Rn Cn data p0 p H0 Hmin).
  - apply (lsq_bezier2_fits_plane Rn Cn data p0 p H0 Hmin).
Qed.

(* ------------------------------------------------------------------ general (rational) shifts *)
Lemma qmod_range (a n : Q) : (0 < n)%Q -> (0 <= qmod a n < n)%Q.
Proof.
  intros Hn. unfold qmod.
  pose proof (Qfloor_le (a / n)) as Hlo. pose proof (Qlt_floor (a / n)) as Hhi.
  set (f := inject_Z (Qfloor (a / n))) in *.
  assert (Hf1 : (inject_Z (Qfloor (a / n) + 1) == f + 1)%Q) by (unfold f; rewrite inject_Z_plus; reflexivity).
  rewrite Hf1 in Hhi.
  assert (Ea : (a == a / n * n)%Q) by (field; lra).
  assert (H1 : (f * n <= a / n * n)%Q) by (apply Qmult_le_compat_r; lra).
  assert (H2 : (a / n * n < (f + 1) * n)%Q) by (apply Qmult_lt_compat_r; lra).
  rewrite <- Ea in H1, H2. split; lra.
Qed.

Lemma bilinear_comp (H W : nat) (I : matrix) (gy gy' gx gx' : Q) :
  (gy == gy')%Q -> (gx == gx')%Q -> (bilinear H W I gy gx == bilinear H W I gy' gx')%Q.
Proof.
  intros Hy Hx. unfold bilinear.
  rewrite (Qfloor_comp _ _ Hy), (Qfloor_comp _ _ Hx), Hy, Hx. reflexivity.
Qed.

(* entry (y, x) of the shifted pattern for ANY shift: the zero-padded bilinear sampler at the
   wrapped coordinate ((y + s_y) mod H, (x + s_x) mod W); the [-1,1] round trip is the identity *)
Lemma shift_pattern_entry (H W : nat) (oy ox cy cx : Q) (I : matrix) (y x : nat) :
  2 <= H -> 2 <= W -> y < H -> x < W ->
  (get (shift_pattern H W oy ox cy cx I) y x
   == bilinear H W I (qmod (Qn y + (oy - cy)) (Qn H)) (qmod (Qn x + (ox - cx)) (Qn W)))%Q.
Proof.
  intros HH HW Hy Hx. unfold shift_pattern. unfold get at 1.
  rewrite nth_map_seq by exact Hy. rewrite nth_map_seq by exact Hx. cbv zeta.
  apply bilinear_comp; apply unnormalise; assumption.
Qed.

Lemma Qfloor_nonneg (g : Q) : (0 <= g)%Q -> (0 <= Qfloor g)%Z.
Proof. intros Hg. change 0%Z with (Qfloor 0). apply Qfloor_resp_le. exact Hg. Qed.

Lemma Qfloor_lt_nat (g : Q) (n : nat) : (g < Qn n)%Q -> (Qfloor g < Z.of_nat n)%Z.
Proof.
  intros Hg. pose proof (Qfloor_le g) as Hle. unfold Qn in Hg.
  rewrite Zlt_Qlt. lra.
Qed.

Lemma getp_in_range (H W : nat) (I : matrix) (m k : Z) :
  (0 <= m < Z.of_nat H)%Z -> (0 <= k < Z.of_nat W)%Z ->
  getp H W I m k = get I (Z.to_nat m) (Z.to_nat k).
Proof. intros Hm Hk. unfold getp. rewrite !Z.mod_small by lia. reflexivity. Qed.

Lemma getz_out_y (H W : nat) (I : matrix) (m k : Z) : (Z.of_nat H <= m)%Z -> getz H W I m k = 0%Q.
Proof.
  intros Hm. unfold getz.
  assert (E : ((0 <=? m) && (m <? Z.of_nat H) && (0 <=? k) && (k <? Z.of_nat W))%Z%bool = false).
  { destruct (0 <=? m)%Z; cbn [andb]; [| reflexivity].
    assert (E1 : (m <? Z.of_nat H)%Z = false) by lia. rewrite E1. reflexivity. }
  rewrite E. reflexivity.
Qed.

Lemma getz_out_x (H W : nat) (I : matrix) (m k : Z) : (Z.of_nat W <= k)%Z -> getz H W I m k = 0%Q.
Proof.
  intros Hk. unfold getz.
  assert (E1 : (k <? Z.of_nat W)%Z = false) by lia. rewrite E1, Bool.andb_false_r. reflexivity.
Qed.

(* what the zero-padded sampler returns inside [0,H) x [0,W): the periodic interpolation with
   the neighbours beyond the last row / column replaced by zero *)
Lemma bilinear_seam (H W : nat) (I : matrix) (gy gx : Q) :
  (0 <= gy < Qn H)%Q -> (0 <= gx < Qn W)%Q ->
  (bilinear H W I gy gx == seam_bilinear H W I gy gx)%Q.
Proof.
  intros [Hy0 Hy1] [Hx0 Hx1]. unfold bilinear, seam_bilinear. cbv zeta.
  pose proof (Qfloor_nonneg gy Hy0) as Fy0. pose proof (Qfloor_lt_nat gy H Hy1) as Fy1.
  pose proof (Qfloor_nonneg gx Hx0) as Fx0. pose proof (Qfloor_lt_nat gx W Hx1) as Fx1.
  set (y0 := Qfloor gy) in *. set (x0 := Qfloor gx) in *.
  rewrite (getz_in_range H W I y0 x0) by lia.
  rewrite (getp_in_range H W I y0 x0) by lia.
  destruct (y0 + 1 <? Z.of_nat H)%Z eqn:Ey; destruct (x0 + 1 <? Z.of_nat W)%Z eqn:Ex; cbn [andb zb].
  - rewrite !getz_in_range, !getp_in_range by lia. reflexivity.
  - rewrite (getz_out_x H W I y0 (x0 + 1)) by lia. rewrite (getz_out_x H W I (y0 + 1) (x0 + 1)) by lia.
    rewrite (getz_in_range H W I (y0 + 1) x0), (getp_in_range H W I (y0 + 1) x0) by lia. reflexivity.
  - rewrite (getz_out_y H W I (y0 + 1) x0) by lia. rewrite (getz_out_y H W I (y0 + 1) (x0 + 1)) by lia.
    rewrite (getz_in_range H W I y0 (x0 + 1)), (getp_in_range H W I y0 (x0 + 1)) by lia. reflexivity.
  - rewrite (getz_out_x H W I y0 (x0 + 1)) by lia. rewrite (getz_out_y H W I (y0 + 1) x0) by lia.
    rewrite (getz_out_y H W I (y0 + 1) (x0 + 1)) by lia. reflexivity.
Qed.

(* away from the seam the zero-padded sampler IS the periodic interpolation *)
Lemma seam_bilinear_interior (H W : nat) (I : matrix) (gy gx : Q) :
  (Qfloor gy + 1 < Z.of_nat H)%Z -> (Qfloor gx + 1 < Z.of_nat W)%Z ->
  (seam_bilinear H W I gy gx == pbilinear H W I gy gx)%Q.
Proof.
  intros Hy Hx. unfold seam_bilinear, pbilinear. cbv zeta.
  assert (Ey : (Qfloor gy + 1 <? Z.of_nat H)%Z = true) by lia.
  assert (Ex : (Qfloor gx + 1 <? Z.of_nat W)%Z = true) by lia.
  rewrite Ey, Ex. cbn [andb zb]. reflexivity.
Qed.

Lemma shift_general_exact (H W : nat) (oy ox cy cx : Q) (I : matrix) (y x : nat) :
  2 <= H -> 2 <= W -> y < H -> x < W ->
  (get (shift_pattern H W oy ox cy cx I) y x
   == seam_bilinear H W I (qmod (Qn y + (oy - cy)) (Qn H)) (qmod (Qn x + (ox - cx)) (Qn W)))%Q.
Proof.
  intros HH HW Hy Hx. rewrite shift_pattern_entry by assumption.
  apply bilinear_seam; apply qmod_range; apply Qn_pos; lia.
Qed.

Lemma shift_general_interior (H W : nat) (oy ox cy cx : Q) (I : matrix) (y x : nat) :
  2 <= H -> 2 <= W -> y < H -> x < W ->
  (Qfloor (qmod (Qn y + (oy - cy)) (Qn H)) + 1 < Z.of_nat H)%Z ->
  (Qfloor (qmod (Qn x + (ox - cx)) (Qn W)) + 1 < Z.of_nat W)%Z ->
  (get (shift_pattern H W oy ox cy cx I) y x == get (pshift_pattern H W oy ox cy cx I) y x)%Q.
Proof.
  intros HH HW Hy Hx Sy Sx. rewrite shift_general_exact by assumption.
  rewrite seam_bilinear_interior by assumption.
  unfold pshift_pattern. unfold get at 1.
  rewrite nth_map_seq by exact Hy. rewrite nth_map_seq by exact Hx. reflexivity.
Qed.

(* at the seam it is NOT: a half-pixel shift of a 2 x 2 pattern *)
Lemma shift_fractional_seam_differs :
  exists (I : matrix) (oy : Q),
    wf_mat 2 2 I /\
    ~ meq (shift_pattern 2 2 oy 0 0 0 I) (pshift_pattern 2 2 oy 0 0 0 I).
Proof.
  exists (zmat [[1; 2]; [3; 4]]%Z), (1 # 2)%Q. split; [repeat constructor|].
  intros Hm. inversion Hm as [|? ? ? ? _ Hrest]; subst.
  inversion Hrest as [|? ? ? ? Hrow _]; subst.
  inversion Hrow as [|? ? ? ? Hq _]; subst. vm_compute in Hq. discriminate Hq.
Qed.

(* ------------------------------------------------------------------ every detector shape *)
Lemma dn_ge2 (n : nat) : 2 <= n -> (dn n == Qn n - 1)%Q.
Proof.
  intros Hn. unfold dn, Qn. rewrite Nat.max_l by lia.
  rewrite Nat2Z.inj_sub by lia. unfold Z.sub. rewrite inject_Z_plus, inject_Z_opp. reflexivity.
Qed.

Lemma shift_pixel_r (o c : Q) (s : Z) (n i : nat) :
  1 <= n -> (o - c == inject_Z s)%Q ->
  (((2 * qmod (Qn i + (o - c)) (Qn n) / dn n - 1) + 1) / 2 * (Qn n - 1)
   == inject_Z ((Z.of_nat i + s) mod Z.of_nat n))%Q.
Proof.
  intros Hn Hs. destruct (Nat.eq_dec n 1) as [->|Hne].
  - assert (E : (Qn 1 - 1 == 0)%Q) by reflexivity. rewrite E.
    rewrite Z.mod_1_r. ring.
  - assert (Hn2 : 2 <= n) by lia.
    assert (E : (((2 * qmod (Qn i + (o - c)) (Qn n) / dn n - 1) + 1) / 2 * (Qn n - 1)
                 == ((2 * qmod (Qn i + (o - c)) (Qn n) / (Qn n - 1) - 1) + 1) / 2 * (Qn n - 1))%Q).
    { rewrite (dn_ge2 n Hn2). reflexivity. }
    rewrite E. apply (shift_pixel 0 0 [] o c s n i Hn2 Hs).
Qed.

Lemma shift_pattern_r_index (H W : nat) (oy ox cy cx : Q) (sy sx : Z) (I : matrix) :
  1 <= H -> 1 <= W ->
  (oy - cy == inject_Z sy)%Q -> (ox - cx == inject_Z sx)%Q ->
  meq (shift_pattern_r H W oy ox cy cx I) (shift_index H W sy sx I).
Proof.
  intros HH HW Hsy Hsx. unfold meq, shift_pattern_r, shift_index.
  apply Forall2_map_in. intros y Hy. apply in_seq in Hy.
  apply Forall2_map_in. intros x Hx. apply in_seq in Hx.
  cbv zeta.
  rewrite (bilinear_int H W I _ _ ((Z.of_nat y + sy) mod Z.of_nat H) ((Z.of_nat x + sx) mod Z.of_nat W)
             (shift_pixel_r oy cy sy H y HH Hsy) (shift_pixel_r ox cx sx W x HW Hsx)).
  rewrite getz_in_range by (apply Z.mod_pos_bound; lia). reflexivity.
Qed.

(* with the repaired normalisation the integer shift is the roll for EVERY detector shape,
   including 1 x W, H x 1 and 1 x 1 *)
Lemma integer_shift_is_roll_all_shapes (H W : nat) (oy ox cy cx : Q) (sy sx : Z) (I : matrix) :
  1 <= H -> 1 <= W -> wf_mat H W I ->
  (oy - cy == inject_Z sy)%Q -> (ox - cx == inject_Z sx)%Q ->
  meq (shift_pattern_r H W oy ox cy cx I) (roll2 (- sy) (- sx) I).
Proof.
  intros HH HW Hwf Hsy Hsx. rewrite <- (shift_index_roll H W sy sx I HH Hwf).
  apply shift_pattern_r_index; assumption.
Qed.

(* and it changes nothing where the code was defined before (both sizes >= 2, ANY shift) *)
Lemma shift_pattern_r_same (H W : nat) (oy ox cy cx : Q) (I : matrix) :
  2 <= H -> 2 <= W ->
  meq (shift_pattern_r H W oy ox cy cx I) (shift_pattern H W oy ox cy cx I).
Proof.
  intros HH HW. unfold meq, shift_pattern_r, shift_pattern.
  apply Forall2_map_in. intros y _. apply Forall2_map_in. intros x _. cbv zeta.
  apply bilinear_comp; rewrite dn_ge2 by assumption; reflexivity.
Qed.
