(* C10 proofs, part B4 (round 3): ties in mode intensities.
   torch.argsort(descending=True) is not asked to be stable, so with equal intensities the order
   among them is unspecified.  (1) Any descending arrangement of the same modes shows the SAME
   sequence of intensities as the model's stable sort — sortedness and the multiset do not depend
   on the tie-break.  (2) The model's sort is stable: modes of equal intensity keep their input order. *)
From QV.lib Require Import Prelude C10_Cplx.
From QV.model Require Import C10_Model.
From QV.proof Require Import C10_Proofs_GS.
From Coq Require Import QArith Qcanon Sorted.
Local Close Scope Q_scope.
Local Open Scope Qc_scope.

Definition qdesc (a b : Qc) : Prop := b <= a.

Lemma sorted_head_max (x : Qc) l : StronglySorted qdesc (x :: l) -> forall y, In y (x :: l) -> y <= x.
Proof.
  intros H y [<- | Hy]; [apply Qcle_refl|].
  apply StronglySorted_inv in H. destruct H as [_ H]. rewrite Forall_forall in H. exact (H y Hy).
Qed.

(* a descending list is determined by its multiset *)
Theorem sorted_perm_unique : forall l1 l2 : list Qc,
  StronglySorted qdesc l1 -> StronglySorted qdesc l2 -> Permutation l1 l2 -> l1 = l2.
Proof.
  induction l1 as [|x l1 IH]; intros l2 H1 H2 Hp.
  - apply Permutation_nil in Hp. congruence.
  - destruct l2 as [|y l2]; [apply Permutation_sym, Permutation_nil in Hp; discriminate Hp|].
    assert (Hxy : x = y).
    { apply Qcle_antisym.
      - apply (sorted_head_max y l2 H2). eapply Permutation_in; [exact Hp | left; reflexivity].
      - apply (sorted_head_max x l1 H1). eapply Permutation_in; [apply Permutation_sym; exact Hp | left; reflexivity]. }
    subst y. f_equal. apply IH.
    + apply StronglySorted_inv in H1. tauto.
    + apply StronglySorted_inv in H2. tauto.
    + eapply Permutation_cons_inv; exact Hp.
Qed.

Lemma sorted_map_intensity l :
  StronglySorted (fun a b : Qc * list C => mode_intensity b <= mode_intensity a) l ->
  StronglySorted qdesc (map mode_intensity l).
Proof.
  induction 1 as [|m l Hs IH Hm]; cbn [map]; constructor; [exact IH|].
  apply Forall_map. exact Hm.
Qed.

(* whichever sorting permutation the implementation picks among ties: same intensity sequence *)
Theorem any_tiebreak_same_intensities : forall (ms out : list (Qc * list C)),
  Permutation out ms ->
  StronglySorted (fun a b => mode_intensity b <= mode_intensity a) out ->
  map mode_intensity out = map mode_intensity (sort_desc ms).
Proof.
  intros ms out Hp Hs. apply sorted_perm_unique.
  - apply sorted_map_intensity. exact Hs.
  - apply sorted_map_intensity. apply sort_desc_sorted.
  - apply Permutation_map. eapply perm_trans; [exact Hp | apply Permutation_sym, sort_desc_perm].
Qed.

(* ---------------------------------------------------------------- stability of the model's sort *)
Definition has_intensity (v : Qc) (m : Qc * list C) : bool := Qc_eq_bool (mode_intensity m) v.

Lemma Qc_eq_bool_true_iff a b : Qc_eq_bool a b = true <-> a = b.
Proof.
  split; [apply Qc_eq_bool_correct|]. intros ->. unfold Qc_eq_bool.
  destruct (Qc_eq_dec b b); [reflexivity | congruence].
Qed.

Lemma insert_desc_filter v x l :
  filter (has_intensity v) (insert_desc x l) = filter (has_intensity v) (x :: l).
Proof.
  induction l as [|y l IH]; cbn [insert_desc]; [reflexivity|].
  destruct (qc_leb (mode_intensity y) (mode_intensity x)) eqn:E; [reflexivity|].
  cbn [filter] in *. rewrite IH.
  destruct (has_intensity v x) eqn:Ex, (has_intensity v y) eqn:Ey; try reflexivity.
  (* both have intensity v: then I(y) <= I(x), contradicting E *)
  unfold has_intensity in Ex, Ey. apply Qc_eq_bool_true_iff in Ex. apply Qc_eq_bool_true_iff in Ey.
  assert (H : qc_leb (mode_intensity y) (mode_intensity x) = true).
  { apply qc_leb_iff. rewrite Ex, Ey. apply Qcle_refl. }
  congruence.
Qed.

Theorem sort_desc_stable : forall v l,
  filter (has_intensity v) (sort_desc l) = filter (has_intensity v) l.
Proof.
  intros v. induction l as [|x l IH]; cbn [sort_desc fold_right]; [reflexivity|].
  fold (sort_desc l). rewrite insert_desc_filter. cbn [filter]. rewrite IH. reflexivity.
Qed.
